/-
  Property C05 — "Whenever the surrogate-outcomes transport algorithm returns an estimand for P*(Y | do(X)), evaluating it
  with the target domain's observational distribution and each source domain's declared experimental distributions gives
  exactly P*(Y | do(X)), for every family of SCMs that agree with the target except at the variables the selection
  diagrams mark as differing.  When no surrogate experiment is usable it returns an estimand exactly when ID does; it
  never fails other than by returning 'no estimand'."

  Theorems about the executable model Y0.Model.Trso of src/y0/algorithm/transport.py (after the `fix:` commits of
  branch fix-transport), tied to the Python on every run by the correspondence check of harness/props/c05.py.

  What is proved here:
    §1 error taxonomy / totality   `trsoF_error_internal`, `identify_error_cases`, `identify_invalid_iff`,
                                   `identify_trichotomy`                                  (all inputs, any budget)
       "never fails otherwise"     **`trso_no_internal_error`** (ALL validated inputs: no exception), `trso_no_error_class`;
                                   `trso_no_internal_error_partial` (no declared experiment, any separation test),
                                   `trso_only_activate_error_partial` (ALL validated inputs: the only failure that can
                                   remain is the NotImplementedError of `activate` on `One()`),
                                   `trso_no_recursion_or_key_error_partial`
    §2 selection diagrams          `mem_nodes/mem_di/bi_createTransportDiagram`, `tnode_parentless`,
                                   `getNodesToTransport_spec`, `getNodesToTransport_total`
    §3 vocabulary (C06)            `trso_vocab_C05`, `trso_no_domains_target_only`   (proofs in Props/C06Transport)
       no surrogate = ID           `trso_no_surrogate_iff_id_partial`, `trso_no_surrogate_none_iff_id_partial` (verdicts),
                                   `trso_sound_no_surrogate`, `trso_no_surrogate_den_eq_id` (denotations)
    §4 semantics                   `den_sumSafe`, `line1_den`, and **`trso_sound`** (the first sentence of the property, at
                                   full strength: every run, every compatible family, every assignment)
  The three sentences of the property are `trso_sound` (every returned estimand equals the target effect in every
  compatible family), `trso_no_surrogate_iff_id_partial` / `trso_no_surrogate_none_iff_id_partial` /
  `trso_no_surrogate_den_eq_id` (no DECLARED experiment: same verdict and same function as ID) and
  `trso_no_internal_error` (no exception on validated input).  The one gap (kept as `_partial`): the VERDICT equivalence
  with ID is proved HERE for inputs whose source domains declare no experiment; "experiments declared, none usable" is closed in
  Props/C05Usable.lean (`trso_no_usable_surrogate_iff_id`: hypothesis `identifyUsesLine6 … = false`, of which `hZ` is a special case)
  (there `trso_sound` still gives the value, and the verdict is compared with the real `identify_outcomes` on every run).  The `…_partial` theorems of §1 are kept as the
  intermediate results they are (subsumed by `trso_no_internal_error`).  Hypotheses everywhere: graph well-formed and
  acyclic, node names below 100 (selection nodes are `200 + v`), outcomes non-empty, input validated.
-/
import Y0.Props.C06Transport
import Y0.Lemmas.TrsoTotal
import Y0.Spec.FamilySpec
import Y0.Lemmas.Prob
import Y0.Props.C14
import Y0.Lemmas.TrsoNoErr
import Y0.Lemmas.TrsoIdSim
import Y0.Lemmas.TrsoAll
import Y0.Props.C02
import Y0.Props.C01
import Y0.Lemmas.TrsoSoundNoSurr
import Y0.Lemmas.TrsoSound
import Y0.Lemmas.TrsoTotalAll

namespace Y0
namespace Trso
open TrDsl

/-! ## 1. Totality and error taxonomy

The model is total by construction (structural recursion on the budget); every Python exception is an explicit
`Except.error`.  The theorems say WHICH errors can come out: from the recursion only `internal` ones (never the
documented `ValueError` of the input validation, never `Unidentifiable`), from `identify_target_outcomes` the
documented `ValueError` exactly on invalid input. -/

/-- **Error taxonomy of the recursion.**  Whatever the query and the budget, `trso` returns an estimand, "no estimand",
or an INTERNAL error (RecursionError / KeyError / NetworkXError / NetworkXUnfeasible / RuntimeError / TypeError /
ValueError / ZeroDivisionError / AttributeError / NotImplementedError — the `raise` sites of the code, all of them the
"other failures" the property forbids); it never reports "invalid input" or "unidentifiable". -/
theorem trsoF_error_internal {sep : SepTest} (hs : SepInternal sep) : ∀ (fuel : Nat) (q : Query), OnlyInternal (trsoF sep fuel q)
  | 0, q => by unfold trsoF; exact onlyInternal_error _
  | fuel + 1, q => by
    have ih := trsoF_error_internal hs fuel
    unfold trsoF
    refine onlyInternal_bind (oi_lookup _ _) fun G _ => ?_
    split
    · unfold step1; exact onlyInternal_bind (oi_canonicalize _) fun _ _ => onlyInternal_pure _
    · refine onlyInternal_bind (oi_ancestors _ _) fun anc _ => ?_
      split
      · unfold step2
        exact onlyInternal_bind (oi_line2 _ _) fun _ _ => onlyInternal_bind (ih _) fun _ _ => oi_c14nSafe _
      · refine onlyInternal_bind ?_ fun extra _ => ?_
        · unfold noEffectOnOutcomes; exact onlyInternal_bind (oi_ancestors _ _) fun _ _ => onlyInternal_pure _
        · split
          · unfold step3; exact onlyInternal_bind (ih _) fun _ _ => oi_c14nSafe _
          · simp only []
            split
            · unfold step4
              refine onlyInternal_bind (oi_collectTerms _ fun r hr => ?_) fun o _ => ?_
              · rcases List.mem_map.1 hr with ⟨s, _, rfl⟩; exact ih s
              · cases o with
                | none => exact onlyInternal_pure _
                | some ts =>
                  exact onlyInternal_bind (oi_canonicalize _) fun _ _ => onlyInternal_bind (oi_canonicalize _) fun _ _ =>
                    onlyInternal_pure _
            · refine onlyInternal_bind ?_ fun via _ => ?_
              · unfold step67
                split
                · refine onlyInternal_bind (oi_line6 hs q) fun subs _ => onlyInternal_bind
                    (onlyInternal_mapM _ fun ds _ => ?_) fun _ _ => onlyInternal_pure _
                  refine onlyInternal_bind (ih _) fun r _ => ?_
                  cases r with
                  | none => exact onlyInternal_pure _
                  | some e => exact onlyInternal_bind (oi_activate _ _ _) fun _ _ => onlyInternal_pure _
                · exact onlyInternal_pure _
              · cases via with
                | some e =>
                  show OnlyInternal (do pure (some (← canonicalize e)))
                  exact onlyInternal_bind (oi_canonicalize _) fun _ _ => onlyInternal_pure _
                | none =>
                  show OnlyInternal (step811 (trsoF sep fuel) q G _)
                  unfold step811
                  split
                  · exact onlyInternal_ok _
                  · split
                    · exact onlyInternal_error _
                    · split
                      · exact onlyInternal_bind (oi_line9 _ _ _) fun _ _ => onlyInternal_bind (oi_canonicalize _) fun _ _ =>
                          onlyInternal_pure _
                      · split
                        · refine onlyInternal_bind ?_ fun s _ => ?_
                          · unfold line10Surr
                            split
                            · exact onlyInternal_ok _
                            · intro e h
                              split at h
                              · rename_i e' he'
                                cases h
                                refine (onlyInternal_bind (oi_pillow _ _) fun _ _ => onlyInternal_pure _) _ he'
                              · cases h
                              · cases h
                          · cases s with
                            | none => exact onlyInternal_pure _
                            | some s =>
                              exact onlyInternal_bind (oi_line10 _ _ _ _) fun _ _ => onlyInternal_bind (ih _) fun _ _ =>
                                oi_c14nSafe _
                        · exact onlyInternal_error _

/-- the errors `identify_target_outcomes` can raise: the documented `ValueError` or an internal one -/
theorem identify_error_cases {sep : SepTest} (hs : SepInternal sep) (G : MG Name) (Y X : List Name)
    (outcomes interventions : List (Pop × List Name)) (e : Err)
    (h : identifyTargetOutcomes sep G Y X outcomes interventions = .error e) :
    (e = .invalidInput "ValueError" ∧ validInput G Y X outcomes interventions = false) ∨
    (∃ k, e = .internal k) ∧ validInput G Y X outcomes interventions = true := by
  unfold identifyTargetOutcomes at h
  split at h
  · rename_i hv; cases h; exact Or.inl ⟨rfl, by simpa using hv⟩
  · rename_i hv
    have hv' : validInput G Y X outcomes interventions = true := by simpa using hv
    refine Or.inr ⟨?_, hv'⟩
    split at h
    · rename_i e' he'
      cases h
      -- `surrogate_to_transport` after a successful validation: the key check passes, the rest is internal
      unfold surrogateToTransport at he'
      have hk : seteq' (outcomes.map (·.1)) (interventions.map (·.1)) = true := by
        unfold validInput at hv'; simp only [Bool.and_eq_true] at hv'; exact hv'.1.2
      simp only [hk, Bool.not_true, Bool.false_eq_true, ↓reduceIte] at he'
      refine (onlyInternal_bind (onlyInternal_mapM _ fun p _ => ?_) fun _ _ => onlyInternal_pure _) _ he'
      split
      · exact onlyInternal_error _
      · refine onlyInternal_bind ?_ fun _ _ => onlyInternal_pure _
        unfold getNodesToTransport
        exact onlyInternal_bind (oi_ancestors _ _) fun _ _ => onlyInternal_bind (oi_descendants _ _) fun _ _ =>
          onlyInternal_pure _
    · exact trsoF_error_internal hs _ _ _ h

/-- **Documented `ValueError` exactly on invalid input** (names outside the graph, overlapping outcomes and
interventions, mismatching domain keys, empty graph). -/
theorem identify_invalid_iff {sep : SepTest} (hs : SepInternal sep) (G : MG Name) (Y X : List Name)
    (outcomes interventions : List (Pop × List Name)) :
    identifyTargetOutcomes sep G Y X outcomes interventions = .error (.invalidInput "ValueError") ↔
      validInput G Y X outcomes interventions = false := by
  constructor
  · intro h
    rcases identify_error_cases hs G Y X outcomes interventions _ h with ⟨_, hv⟩ | ⟨⟨k, hk⟩, _⟩
    · exact hv
    · cases hk
  · intro hv; unfold identifyTargetOutcomes; simp [hv]

/-- **Trichotomy.**  On valid input the outcome is an estimand, "no estimand", or an internal error (the third case
is what the property forbids; that it does not occur is `trso_no_internal_error` below). -/
theorem identify_trichotomy {sep : SepTest} (hs : SepInternal sep) (G : MG Name) (Y X : List Name)
    (outcomes interventions : List (Pop × List Name)) (hv : validInput G Y X outcomes interventions = true) :
    (∃ e, identifyTargetOutcomes sep G Y X outcomes interventions = .ok (some e)) ∨
    identifyTargetOutcomes sep G Y X outcomes interventions = .ok none ∨
    ∃ k, identifyTargetOutcomes sep G Y X outcomes interventions = .error (.internal k) := by
  cases h : identifyTargetOutcomes sep G Y X outcomes interventions with
  | ok o => cases o with
    | none => exact Or.inr (Or.inl rfl)
    | some e => exact Or.inl ⟨e, rfl⟩
  | error e =>
    rcases identify_error_cases hs G Y X outcomes interventions e h with ⟨_, hv'⟩ | ⟨⟨k, hk⟩, _⟩
    · rw [hv] at hv'; cases hv'
    · exact Or.inr (Or.inr ⟨k, by rw [hk]⟩)

/-- **No failure when no surrogate experiment is declared** (the clause "it never fails other than by returning 'no
estimand'", for every input whose source domains declare no experiment: the case in which TRSO has to behave like ID).
On every validated input over a well-formed acyclic graph of user variables (names below 200, so that the selection
nodes `T_v = 200 + v` are fresh) with non-empty outcomes, `identify_target_outcomes` returns an estimand or "no
estimand": no lookup fails (the node sets needed by every later step are preserved by lines 2-4 and 10), no
`topological_sort` / `index` fails, no expression operator fails (the carried expression never contains `Zero()`, so
no division by zero; line 9's product is a `Fraction`, so `simplify` exists), and the recursion budget `Query.fuel` is
never exhausted (the measure (|V|, |V - X|) decreases lexicographically at every recursive call).  The separation
test is arbitrary: it is never called.  Proof: Lemmas/TrsoGraphInv, TrsoT234, TrsoT610 (graph invariant), TrsoClean
(expression operators), TrsoInit (initial query), TrsoNoErr (assembly). -/
theorem trso_no_internal_error_partial (sep : SepTest) (G : MG Name) (hG : G.WF) (hA : G.Acyclic)
    (hsmall : ∀ v ∈ G.nodes, v < 200) (Y X : List Name) (outcomes interventions : List (Pop × List Name))
    (hv : validInput G Y X outcomes interventions = true) (hY : Y ≠ [])
    (hZ : ∀ p ∈ interventions, p.2 = []) :
    ∃ r, identifyTargetOutcomes sep G Y X outcomes interventions = .ok r := by
  obtain ⟨graphs, hg⟩ := surrogateToTransport_ok hG hv
  obtain ⟨hinv, hmu, hc⟩ := initial_inv hG hA (noT_of_small hsmall) hsmall hv hY hg
  rw [identify_eq_trso hv hg]
  obtain ⟨o, ho, _⟩ := trsoF_target_ok sep _ _ _ G hinv (initial_noSurr hZ) hc hmu
  exact ⟨o, ho⟩

/-- in particular: no internal error and no invalid-input error on such inputs -/
theorem trso_no_error_class_partial (sep : SepTest) (G : MG Name) (hG : G.WF) (hA : G.Acyclic)
    (hsmall : ∀ v ∈ G.nodes, v < 200) (Y X : List Name) (outcomes interventions : List (Pop × List Name))
    (hv : validInput G Y X outcomes interventions = true) (hY : Y ≠ [])
    (hZ : ∀ p ∈ interventions, p.2 = []) (k : String) :
    identifyTargetOutcomes sep G Y X outcomes interventions ≠ .error (.internal k) := by
  obtain ⟨r, hr⟩ := trso_no_internal_error_partial sep G hG hA hsmall Y X outcomes interventions hv hY hZ
  rw [hr]; intro h; cases h

/-- **All inputs: the only failure that remains possible is the `NotImplementedError` of
`activate_domain_and_interventions`.**  For every validated input over a well-formed acyclic graph of user variables
(names below 100, so that `T_v = 200 + v` is a fresh selection node) with non-empty outcomes, and the separation test
of the code (`are_d_separated`), `identify_target_outcomes` returns an estimand, returns "no estimand", or raises the
`NotImplementedError` that `activate_domain_and_interventions` raises when the estimand found inside a source domain
contains `One()`.  Every other `raise` site of the recursion is unreachable: no `KeyError` (domain / experiment
look-ups, `are_d_separated` arguments, `nx.ancestors` sources - the node sets every later step needs are preserved),
no `NetworkXUnfeasible` / `ValueError` from `topological_sort` / `index`, no `RuntimeError`, no `ZeroDivisionError` /
`TypeError` / `AttributeError` from the expression operators, no `ValueError` from `intervene`, and no
`RecursionError` (the budget `Query.fuel` exceeds the lexicographic measure (line 6 still possible, |V|,
2·|regular nodes outside X| + [a selection node outside X]), which decreases at every recursive call).
The phase after line 6 needs the semantic content of the separation test: a positive answer forces every child of a
surviving selection node to be a target intervention (`allTransportsDSeparated_true_blocks`), so line 3 moves the
selection nodes into X before line 4 can split on them.
Proof: Lemmas/TrsoQInv (invariant, measure), TrsoQ23, TrsoQ410, TrsoQ6 (the lines), TrsoSep (separation test),
TrsoClean, TrsoActivate (expression operators), TrsoQInit (initial query), TrsoPlumb, TrsoAll (assembly). -/
theorem trso_only_activate_error_partial (G : MG Name) (hG : G.WF) (hA : G.Acyclic)
    (hsmall : ∀ v ∈ G.nodes, v < 100) (Y X : List Name) (outcomes interventions : List (Pop × List Name))
    (hv : validInput G Y X outcomes interventions = true) (hY : Y ≠ []) (err : Err)
    (h : identifyTargetOutcomes dSeparated G Y X outcomes interventions = .error err) :
    err = .internal "NotImplementedError" := by
  obtain ⟨graphs, hg⟩ := surrogateToTransport_ok hG hv
  obtain ⟨hinv, hmu, hc, hr⟩ := qinitial_inv hG hA hsmall hv hY hg
  rw [identify_eq_trso hv hg] at h
  exact (trsoF_all_good _ _ _ G hinv hc hr hmu).1 err h

/-- in particular the recursion budget of the model is never exhausted (Python: no `RecursionError`) and no look-up
fails, on any validated input -/
theorem trso_no_recursion_or_key_error_partial (G : MG Name) (hG : G.WF) (hA : G.Acyclic)
    (hsmall : ∀ v ∈ G.nodes, v < 100) (Y X : List Name) (outcomes interventions : List (Pop × List Name))
    (hv : validInput G Y X outcomes interventions = true) (hY : Y ≠ []) (k : String)
    (hk : k = "RecursionError" ∨ k = "KeyError" ∨ k = "NetworkXError" ∨ k = "NetworkXUnfeasible" ∨
      k = "RuntimeError" ∨ k = "ZeroDivisionError" ∨ k = "TypeError" ∨ k = "AttributeError" ∨ k = "ValueError" ∨
      k = "NodeNotFound" ∨ k = "fuel") :
    identifyTargetOutcomes dSeparated G Y X outcomes interventions ≠ .error (.internal k) := by
  intro h
  have := trso_only_activate_error_partial G hG hA hsmall Y X outcomes interventions hv hY _ h
  injection this with hk'
  rcases hk with rfl | rfl | rfl | rfl | rfl | rfl | rfl | rfl | rfl | rfl | rfl <;> simp at hk'

/-- non-vacuity: the napkin graph with a source domain that declares surrogate outcomes but no experiment -/
example : validInput (MG.fromEdges [] [(0, 1), (1, 2), (2, 3)] [(0, 2), (0, 3)]) [3] [2] [(1001, [1])] [(1001, [])] = true := by
  decide

/-- **C05, last sentence: TRSO never fails other than by returning "no estimand".**  For every validated input over a
well-formed acyclic graph of user variables (names below 100) with non-empty outcomes - any number of source domains,
any experiment and surrogate-outcome sets - `identify_target_outcomes` (instantiated with `are_d_separated`) returns an
estimand or "no estimand": NO exception of any kind, in particular not the `NotImplementedError` that
`activate_domain_and_interventions` raises on `One()` (the raise site `trso_only_activate_error_partial` left open).
Proof (Lemmas/TrsoTotalAll on top of Lemmas/TrsoAll): the estimand returned by a run inside a source domain contains
no `One()` (`srcShape`, Lemmas/TrsoShapeAll): followed in the COIN family (all variables binary, all mechanisms uniform),
whose semantic invariant gives every sub-expression its value, `Sum.simplify` never sums out all children of a joint
(the carried joint keeps the intervened variables as un-summed children), `Fraction.simplify` of line 9 cannot cancel to
`One()` or `1 / …` (the c-factor of a district has value below 1, every denominator factor at most 1), and
`canonicalize` never meets a fraction with canonically equal parts (its value would be 1; Lemmas/TrsoShapeCanon) -
hence `activate` succeeds (`activate_ok_of_noOne`). -/
theorem trso_no_internal_error (G : MG Name) (hG : G.WF) (hA : G.Acyclic) (hsmall : ∀ v ∈ G.nodes, v < 100)
    (Y X : List Name) (outcomes interventions : List (Pop × List Name))
    (hv : validInput G Y X outcomes interventions = true) (hY : Y ≠ []) :
    ∃ r, identifyTargetOutcomes dSeparated G Y X outcomes interventions = .ok r := by
  obtain ⟨graphs, hg⟩ := surrogateToTransport_ok hG hv
  obtain ⟨hinv, hmu, hc, hr⟩ := qinitial_inv hG hA hsmall hv hY hg
  rw [identify_eq_trso hv hg]
  have hrk : G.Ranked := MG.acyclic_ranked hG hA
  have hsmall' : ∀ v ∈ G.nodes, v < 200 := fun v hv => Nat.lt_trans (hsmall v hv) (by decide)
  have hnoT : ∀ v ∈ G.nodes, isTnode v = false := noT_of_small hsmall'
  have hsub : ∀ p ∈ graphs, RSub G p.2 := by
    intro p hp
    rcases (surrogateToTransport_spec hG hv hg).2 p hp with rfl | ⟨_, ns, hns, hp2⟩
    · exact rsub_self
    · rw [hp2]; exact rsub_ctd hsmall hns
  have hts : TSem G hG hrk (targetPop :: graphs.map (fun p => p.1)) (fun _ => 0)
      (initialQuery G Y X graphs interventions) G := by
    refine ⟨fun _ _ => ?_, fun ha => absurd rfl ha⟩
    exact famCtx_initial _ (coinFam_ok G hG hrk _) List.mem_cons_self rfl hnoT Y X graphs interventions hsub
      (fun p _ v hne => absurd rfl hne) (fun p hp => List.mem_cons_of_mem _ (List.mem_map_of_mem hp))
  obtain ⟨o, ho, _⟩ := trsoF_total G hG hrk _ (fun _ => 0) hsmall _ _ _ G hinv hc hr hmu hts
  exact ⟨o, ho⟩

/-- in particular: no internal error of any class on validated input -/
theorem trso_no_error_class (G : MG Name) (hG : G.WF) (hA : G.Acyclic) (hsmall : ∀ v ∈ G.nodes, v < 100)
    (Y X : List Name) (outcomes interventions : List (Pop × List Name))
    (hv : validInput G Y X outcomes interventions = true) (hY : Y ≠ []) (err : Err) :
    identifyTargetOutcomes dSeparated G Y X outcomes interventions ≠ .error err := by
  obtain ⟨r, hr⟩ := trso_no_internal_error G hG hA hsmall Y X outcomes interventions hv hY
  rw [hr]; intro h; cases h

/-! ## 2. Selection diagrams, set-theoretically -/

theorem createTransportDiagram_eq (G : MG Name) (ns : List Name) :
    createTransportDiagram G ns = ((nsort ns).map fun v => (tnode v, v)).foldl MG.addDi G := by
  unfold createTransportDiagram; rw [List.foldl_map]

/-- the diagram has the nodes of the graph, the marked variables and one selection node per marked variable -/
theorem mem_nodes_createTransportDiagram (G : MG Name) (ns : List Name) (v : Name) :
    v ∈ (createTransportDiagram G ns).nodes ↔ v ∈ G.nodes ∨ ∃ s ∈ ns, v = tnode s ∨ v = s := by
  rw [createTransportDiagram_eq, MG.mem_nodes_foldl_addDi]
  constructor
  · rintro (h | ⟨e, he, h⟩)
    · exact Or.inl h
    · rcases List.mem_map.1 he with ⟨s, hs, rfl⟩
      exact Or.inr ⟨s, (mem_nsort s ns).1 hs, h⟩
  · rintro (h | ⟨s, hs, h⟩)
    · exact Or.inl h
    · exact Or.inr ⟨(tnode s, s), List.mem_map.2 ⟨s, (mem_nsort s ns).2 hs, rfl⟩, h⟩

/-- its directed edges are those of the graph plus `T_s → s` for every marked `s` -/
theorem mem_di_createTransportDiagram (G : MG Name) (ns : List Name) (x : Name × Name) :
    x ∈ (createTransportDiagram G ns).di ↔ x ∈ G.di ∨ ∃ s ∈ ns, x = (tnode s, s) := by
  rw [createTransportDiagram_eq, MG.mem_di_foldl_addDi]
  constructor
  · rintro (h | h)
    · exact Or.inl h
    · rcases List.mem_map.1 h with ⟨s, hs, rfl⟩; exact Or.inr ⟨s, (mem_nsort s ns).1 hs, rfl⟩
  · rintro (h | ⟨s, hs, rfl⟩)
    · exact Or.inl h
    · exact Or.inr (List.mem_map.2 ⟨s, (mem_nsort s ns).2 hs, rfl⟩)

/-- its bidirected edges are exactly those of the graph -/
theorem bi_createTransportDiagram (G : MG Name) (ns : List Name) : (createTransportDiagram G ns).bi = G.bi := by
  rw [createTransportDiagram_eq, MG.bi_foldl_addDi]

/-- a selection node has no parent and no bidirected edge (user variables are not selection nodes) -/
theorem tnode_parentless (G : MG Name) (ns : List Name) (hG : ∀ e ∈ G.di, isTnode e.2 = false)
    (hns : ∀ s ∈ ns, isTnode s = false) (u t : Name) (ht : isTnode t = true) :
    (u, t) ∉ (createTransportDiagram G ns).di := by
  intro h
  rcases (mem_di_createTransportDiagram G ns (u, t)).1 h with h | ⟨s, hs, h⟩
  · have := hG _ h; simp at this; rw [this] at ht; cases ht
  · have h2 : t = s := (Prod.mk.inj h).2
    rw [h2, hns s hs] at ht; cases ht

/-- **`get_nodes_to_transport` meets its definition**: the marked variables are the descendants of the experimental
variables other than the surrogate outcomes, and the members of the c-components of the surrogate outcomes that are not
ancestors of the surrogate outcomes once the edges into the experimental variables are removed (`MayDiffer`). -/
theorem getNodesToTransport_spec (G : MG Name) (hG : G.WF) (Z W ns : List Name)
    (h : getNodesToTransport G Z W = .ok ns) (v : Name) : v ∈ ns ↔ MayDiffer G Z W v := by
  unfold getNodesToTransport at h
  obtain ⟨anW, hanW, h⟩ := bind_ok h
  obtain ⟨deZ, hdeZ, h⟩ := bind_ok h
  simp [pure, Except.pure] at h; subst h
  have hW : ∀ w ∈ W, w ∈ G.nodes := by
    by_contra hc
    have hc' : ¬ ∀ s ∈ W, s ∈ (G.removeInEdges Z).nodes := by
      intro hall; apply hc; intro w hw
      exact (MG.mem_nodes_removeInEdges G hG Z w).1 (hall w hw)
    rw [MG.ancestorsInclusive_error _ _ hc'] at hanW; cases hanW
  have hanc := MG.ancestorsInclusive_spec (G.removeInEdges Z) (MG.wf_fromEdges _ _ _) W anW hanW
  have hdesc := MG.descendantsInclusive_spec G hG Z deZ hdeZ
  unfold MayDiffer
  rw [mem_nsort]
  simp only [List.mem_append, diff', List.mem_filter, decide_eq_true_eq, List.mem_flatten, List.any_eq_true]
  constructor
  · rintro (⟨h1, h2⟩ | ⟨⟨d, ⟨hd, w, hwd, hwW⟩, hvd⟩, h2⟩)
    · exact Or.inl ⟨(hdesc v).1 h1, h2⟩
    · refine Or.inr ⟨⟨w, hwW, (MG.districts_spec G hG d hd w hwd v).1 hvd⟩, fun ha => h2 ((hanc v).2 ha)⟩
  · rintro (⟨h1, h2⟩ | ⟨⟨w, hwW, hs⟩, h2⟩)
    · exact Or.inl ⟨(hdesc v).2 h1, h2⟩
    · obtain ⟨d, hd, hwd⟩ := (MG.districts_cover G hG w).1 (hW w hwW)
      exact Or.inr ⟨⟨d, ⟨hd, w, hwd, hwW⟩, (MG.districts_spec G hG d hd w hwd v).2 hs⟩, fun ha => h2 ((hanc v).1 ha)⟩

/-- it is defined whenever the experiment and surrogate-outcome sets are inside the graph (this is F12: before the F1
fix `remove_in_edges` dropped nodes and `nx.ancestors` raised) -/
theorem getNodesToTransport_total (G : MG Name) (hG : G.WF) (Z W : List Name) (hZ : ∀ z ∈ Z, z ∈ G.nodes)
    (hW : ∀ w ∈ W, w ∈ G.nodes) : ∃ ns, getNodesToTransport G Z W = .ok ns := by
  unfold getNodesToTransport
  obtain ⟨a, ha⟩ := MG.ancestorsInclusive_total (G.removeInEdges Z) W
    (fun w hw => (MG.mem_nodes_removeInEdges G hG Z w).2 (hW w hw))
  obtain ⟨d, hd⟩ := MG.descendantsInclusive_total G Z hZ
  simp only [ha, hd, bind, Except.bind, pure, Except.pure]
  exact ⟨_, rfl⟩

/-! ## 3. Vocabulary (the transport clause of C06; proofs in Props/C06Transport.lean) -/

/-- every returned estimand mentions only the target observational distribution and declared source domains under
non-empty subsets of their declared experimental variables, and no selection node -/
theorem trso_vocab_C05 (sep : SepTest) (G : MG Name) (Y X : List Name) (outcomes interventions : List (Pop × List Name))
    (hG : ∀ v ∈ G.nodes, isTnode v = false) (e : Expr)
    (h : identifyTargetOutcomes sep G Y X outcomes interventions = .ok (some e)) : Voc interventions e :=
  trso_vocab sep G Y X outcomes interventions hG e h

/-- with no declared experiment the estimand reads the target observational distribution only (first half of the
"no usable surrogate" clause: nothing but what ID may read is read) -/
theorem trso_no_domains_target_only (sep : SepTest) (G : MG Name) (Y X : List Name) (outcomes : List (Pop × List Name))
    (hG : ∀ v ∈ G.nodes, isTnode v = false) (e : Expr)
    (h : identifyTargetOutcomes sep G Y X outcomes [] = .ok (some e)) : TargetOnly e :=
  trso_vocab_no_domains sep G Y X outcomes hG e h

/-- **With no usable surrogate experiment TRSO returns an estimand exactly when ID does** (verdict part of the clause).
For every validated input over a well-formed acyclic graph of user variables, with non-empty outcomes and source
domains that declare no experiment, `identify_target_outcomes` returns an estimand iff the model of ID
(`Y0.identify`, Model/Id.lean, for ANY topological-order oracle `topo` that is total and lists the nodes) returns one -
and, by `trso_no_internal_error_partial` and `id_total`, otherwise TRSO returns "no estimand" and ID raises
`Unidentifiable`.  Proof (Lemmas/TrsoIdCongr, TrsoIdSim): lock-step simulation TRSO 1,2,3,4,8,9,10 ~ ID 1,2,3,4,5,6,7 on
states that agree up to the insertion order of graphs and sets; line 6 never fires (`step67_none`). -/
theorem trso_no_surrogate_iff_id_partial {topo : MG Name → Except Err (List Name)} (ht : TopoGood topo) (sep : SepTest)
    (G : MG Name) (hG : G.WF) (hA : G.Acyclic) (hsmall : ∀ v ∈ G.nodes, v < 200) (Y X : List Name)
    (outcomes interventions : List (Pop × List Name)) (hv : validInput G Y X outcomes interventions = true) (hY : Y ≠ [])
    (hZ : ∀ p ∈ interventions, p.2 = []) :
    (∃ e, identifyTargetOutcomes sep G Y X outcomes interventions = .ok (some e)) ↔
      (∃ e', identify topo G X Y = .ok e') := by
  obtain ⟨graphs, hg⟩ := surrogateToTransport_ok hG hv
  obtain ⟨hinv, hmu, hc⟩ := initial_inv hG hA (noT_of_small hsmall) hsmall hv hY hg
  rw [identify_eq_trso hv hg]
  obtain ⟨hYin, _, _, _, hXY, _, hne⟩ := validInput_spec hv
  obtain ⟨c, hcj⟩ := pJoint_ok hne
  unfold identify trso
  rw [hcj]
  exact trsoF_iff_idAlg ht sep _ _ _ G _ hinv (initial_noSurr hZ) hc hmu
    ⟨hG, MG.acyclic_ranked hG hA, hYin, hY, hXY, trivial⟩
    ⟨MG.equiv_refl G, fun v => (mem_nsort v X).symm, fun v => (mem_nsort v Y).symm⟩


/-- the two refusals correspond as well: "no estimand" iff ID raises `Unidentifiable` -/
theorem trso_no_surrogate_none_iff_id_partial {topo : MG Name → Except Err (List Name)} (ht : TopoGood topo) (sep : SepTest)
    (G : MG Name) (hG : G.WF) (hA : G.Acyclic) (hsmall : ∀ v ∈ G.nodes, v < 200) (Y X : List Name)
    (outcomes interventions : List (Pop × List Name)) (hv : validInput G Y X outcomes interventions = true) (hY : Y ≠ [])
    (hZ : ∀ p ∈ interventions, p.2 = []) :
    identifyTargetOutcomes sep G Y X outcomes interventions = .ok none ↔ identify topo G X Y = .error .unidentifiable := by
  have hiff := trso_no_surrogate_iff_id_partial ht sep G hG hA hsmall Y X outcomes interventions hv hY hZ
  obtain ⟨r, hr⟩ := trso_no_internal_error_partial sep G hG hA hsmall Y X outcomes interventions hv hY hZ
  obtain ⟨hYin, _, _, _, hXY, _, _⟩ := validInput_spec hv
  have hid := id_total ht G X Y ⟨hG, MG.acyclic_ranked hG hA, hYin, hY, hXY⟩
  constructor
  · intro hnone
    rcases hid with ⟨e', he'⟩ | hun
    · obtain ⟨e, he⟩ := hiff.2 ⟨e', he'⟩
      rw [hnone] at he; cases he
    · exact hun
  · intro hun
    cases r with
    | none => exact hr
    | some e =>
      obtain ⟨e', he'⟩ := hiff.1 ⟨e, hr⟩
      rw [hun] at he'; cases he'

/-- **With no declared surrogate experiment the TRSO estimand is sound** (denotation part of the clause, and the first
sentence of the property for every run that uses no source experiment).  For every validated input over a well-formed
acyclic graph of user variables (names below 100), with non-empty outcomes and source domains that declare no
experiment, every estimand `identify_target_outcomes` returns denotes `P(Y | do(X))` (truncated factorisation,
`Scm.doProb`) in EVERY positive semi-Markovian model `M` compatible with the graph (Y0/Spec/Scm.lean), at every value
assignment — whatever the separation test.  The population tag "pi*" of its leaves reads the model (`M.env G`).
Proof: the recursion invariant "the carried expression denotes the c-factor `Q[V_cur]`" (Lemmas/TrsoSem, TrsoSem34,
TrsoSemRatio, assembled in TrsoSemAll) on top of the c-factor lemmas of Lemmas/QFactor, and the denotation lemmas of
the DSL operators of Y0.Model.TrDsl including `canonicalize` and `Fraction.simplify` (Lemmas/TrsoDenOps, TrsoDenCanon;
cancellation is sound because compatible models are positive). -/
theorem trso_sound_no_surrogate (sep : SepTest) (G : MG Name) (hG : G.WF) (hA : G.Acyclic)
    (hsmall : ∀ v ∈ G.nodes, v < 100) (Y X : List Name) (outcomes interventions : List (Pop × List Name))
    (hv : validInput G Y X outcomes interventions = true) (hY : Y ≠ []) (hZ : ∀ p ∈ interventions, p.2 = [])
    (e : Expr) (h : identifyTargetOutcomes sep G Y X outcomes interventions = .ok (some e))
    (M : Scm) (hM : M.Compatible G) (σ' σ : Val) :
    den (M.env G) σ' e σ = M.doProb G X Y σ :=
  trso_sound_no_surrogate_core sep G hG hA hsmall Y X outcomes interventions hv hY hZ e h M hM σ' σ

/-- **... and it is the function the ID estimand denotes**: with no declared experiment the estimands of TRSO and of ID
(for any sound topological-order oracle) have the same value in every compatible model at every assignment (both are
`P(Y | do(X))`: `trso_sound_no_surrogate`, `id_sound`).  Together with `trso_no_surrogate_iff_id_partial` this is the
clause "when no surrogate experiment is usable it returns an estimand exactly when ID does". -/
theorem trso_no_surrogate_den_eq_id {topo : MG Name → Except Err (List Name)} (ts : TopoSound topo) (sep : SepTest)
    (G : MG Name) (hG : G.WF) (hA : G.Acyclic) (hsmall : ∀ v ∈ G.nodes, v < 100) (Y X : List Name)
    (outcomes interventions : List (Pop × List Name)) (hv : validInput G Y X outcomes interventions = true) (hY : Y ≠ [])
    (hZ : ∀ p ∈ interventions, p.2 = []) (e e' : Expr)
    (h : identifyTargetOutcomes sep G Y X outcomes interventions = .ok (some e)) (h' : identify topo G X Y = .ok e')
    (M : Scm) (hM : M.Compatible G) (σ' σ : Val) :
    den (M.env G) σ' e σ = den (M.env G) σ' e' σ := by
  obtain ⟨hYin, _, _, _, hXY, _, _⟩ := validInput_spec hv
  rw [trso_sound_no_surrogate sep G hG hA hsmall Y X outcomes interventions hv hY hZ e h M hM σ' σ,
    id_sound ts G X Y ⟨hG, MG.acyclic_ranked hG hA, hYin, hY, hXY⟩ e' h' M hM σ' σ]

/-- non-vacuity: on the napkin graph with a source domain that declares surrogate outcomes but no experiment TRSO
returns an estimand (the run goes through lines 3, 10 and 9), so the two theorems above apply to a non-trivial run -/
example : ∃ e, identifyTargetOutcomes dSeparated (MG.fromEdges [] [(0, 1), (1, 2), (2, 3)] [(0, 2), (0, 3)]) [3] [2]
    [(1001, [1])] [(1001, [])] = .ok (some e) := ⟨_, rfl⟩

/-! ## 4. Semantics: what is proved, and the full statement -/

theorem sumVars_zero (card : Name → Nat) (xs : List Name) (σ : Val) : sumVars card xs (fun _ => 0) σ = 0 := by
  induction xs generalizing σ with
  | nil => rfl
  | cons x xs ih =>
    simp only [sumVars, sumVar, sumRange]
    have : (fun k => sumVars card xs (fun _ => (0 : Rat)) (σ.set x k)) = fun _ => 0 := by funext k; exact ih _
    rw [this]
    induction (List.range (card x)) with
    | nil => rfl
    | cons a as iha => simp

/-- `Sum.safe(e, ranges)` denotes the iterated sum of the denotation of `e` over the (sorted) range variables -/
theorem den_sumSafe (env : Env) (σ' : Val) (e : Expr) (rs : List Var) (σ : Val) :
    den env σ' (sumSafe e rs false) σ = sumVars env.card ((sortVars rs).map (·.name)) (fun τ => den env σ' e τ) σ := by
  unfold sumSafe
  simp only []
  split
  · rename_i h
    have : sortVars rs = [] := by simpa using h
    simp [this, sumVars]
  · split
    · rename_i hz
      have : e = .zero := by cases e <;> simp [isZero] at hz; rfl
      subst this
      simp only [den]
      exact (sumVars_zero _ _ _).symm
    · simp [den]

/-- **Line 1 is marginalisation**: before canonicalisation, the expression built by line 1 denotes the carried
distribution summed over every regular node of the current graph that is not an outcome (each once, in name order). -/
theorem line1_den (env : Env) (σ' : Val) (Y : List Name) (e : Expr) (G : MG Name) (σ : Val) :
    den env σ' (line1 Y e G) σ =
      sumVars env.card ((sortVars (plainVars (diff' (regularNodes G) Y))).map (·.name)) (fun τ => den env σ' e τ) σ := by
  unfold line1
  rw [den_sumSafe]

/-- **C05, first sentence: TRSO is sound.**  For every validated input over a well-formed acyclic graph of user
variables (names below 100) with non-empty outcomes, whenever `identify_target_outcomes` (instantiated with
`are_d_separated`) returns an estimand `e`, then in EVERY multi-domain family of positive semi-Markovian models that is
compatible with the derived selection diagrams — `F.SelectionCompatible G Δ` (Y0/Spec/FamilySpec.lean): every source
domain has the target's cardinalities, latent variables, latent priors and mechanisms except at the variables `Δ_d`,
where `Δ_d` is, for every declared pair (experiments `Z`, surrogate outcomes `W`) of domain `d`, the set `MayDiffer G Z W`
at which `get_nodes_to_transport` places selection nodes (`getNodesToTransport_spec`) — evaluating `e` with the target's
observational distribution (leaves tagged "pi*") and each source domain's declared experimental distributions (leaves
`PP[d](… @ z)`, read by `Family.env` from the model of `d` under `do(z)`) gives exactly the target effect
`P*(y | do(x))` (`Family.targetEffect`: truncated factorisation in the target model), at every value assignment.
No restriction on the run: any number of source experiments may be used, at any depth of the recursion.

Proof (Lemmas/TrsoSound): the soundness engine (Lemmas/TrsoSemAll: recursion invariant "the carried expression denotes
the c-factor `Q[V_cur]` of the CURRENT domain's model"; lines 1-4, 9, 10 by the c-factor lemmas of Lemmas/QFactor) is run
in the target domain and, at every application of line 6, inside the source domain, where every leaf is read as the leaf
`activate_domain_and_interventions` turns it into (Lemmas/TrsoDenAct, TrsoSrcCtx); line 6 itself is
`spec_transport` (Lemmas/TrsoSemL6): a positive separation test means no variable of `V_cur ∖ X` carries a selection
node, so `Q[V_cur ∖ X]` is made of mechanisms the two domains share. -/
theorem trso_sound (G : MG Name) (hG : G.WF) (hA : G.Acyclic) (hsmall : ∀ v ∈ G.nodes, v < 100) (Y X : List Name)
    (outcomes interventions : List (Pop × List Name)) (hv : validInput G Y X outcomes interventions = true) (hY : Y ≠ [])
    (e : Expr) (h : identifyTargetOutcomes dSeparated G Y X outcomes interventions = .ok (some e))
    (F : Family) (Δ : List (Name × List Name))
    (hΔ : ∀ d Z W, (d, Z) ∈ interventions → (d, W) ∈ outcomes → ∃ ns, (d, ns) ∈ Δ ∧ ∀ v, v ∈ ns ↔ MayDiffer G Z W v)
    (hF : F.SelectionCompatible G Δ) (σ' σ : Val) :
    den F.env σ' e σ = F.targetEffect G X Y σ := by
  obtain ⟨graphs, hg⟩ := surrogateToTransport_ok hG hv
  have hr : G.Ranked := MG.acyclic_ranked hG hA
  have hspec := surrogateToTransport_spec' hG hv hg
  have htag : F.dom (some targetPop) = F.dom none := hF.target_tag
  -- every source domain of a diagram has an entry in `Δ`
  have hsrc : ∀ p ∈ graphs, p ≠ (targetPop, G) → ∃ Z W ns ns', (p.1, Z) ∈ interventions ∧ (p.1, W) ∈ outcomes ∧
      getNodesToTransport G Z W = .ok ns ∧ p.2 = createTransportDiagram G ns ∧ (p.1, ns') ∈ Δ ∧
      ∀ v, v ∈ ns' ↔ MayDiffer G Z W v := by
    intro p hp hne
    rcases hspec p hp with h0 | ⟨Z, W, ns, hZ, hW, hns, hp2⟩
    · exact absurd h0 hne
    · obtain ⟨ns', hns', hiff⟩ := hΔ p.1 Z W hZ hW
      exact ⟨Z, W, ns, ns', hZ, hW, hns, hp2, hns', hiff⟩
  have hdom : ∀ d ∈ targetPop :: graphs.map (fun p => p.1), (F.dom (some d)).Compatible G ∧
      SameExo (F.dom none) (F.dom (some d)) := by
    intro d hd
    rcases List.mem_cons.1 hd with rfl | hd
    · rw [htag]; exact ⟨hF.target, rfl, rfl, rfl⟩
    · obtain ⟨p, hp, rfl⟩ := List.mem_map.1 hd
      by_cases hne : p = (targetPop, G)
      · subst hne; show (F.dom (some targetPop)).Compatible G ∧ _
        rw [htag]; exact ⟨hF.target, rfl, rfl, rfl⟩
      · obtain ⟨_, _, _, ns', _, _, _, _, hns', _⟩ := hsrc p hp hne
        obtain ⟨hc, ha⟩ := hF.source _ hns'
        exact ⟨hc, ha.card, ha.lat, ha.prior⟩
  have hgood : FamGood F G (targetPop :: graphs.map (fun p => p.1)) graphs := by
    refine ⟨⟨hF.graph, hF.target, fun n hn => (hdom n hn).1, fun n hn => (hdom n hn).2.card, hG, hr⟩, htag,
      fun d hd => (hdom d hd).2, ?_⟩
    intro p hp v hdiff hvreg
    by_cases hne : p = (targetPop, G)
    · subst hne
      exact absurd (by show (F.dom (some targetPop)).kern v = _; rw [htag]) hdiff
    · obtain ⟨Z, W, ns, ns', hZin, hWin, hns, hp2, hns', hiff⟩ := hsrc p hp hne
      obtain ⟨_, ha⟩ := hF.source _ hns'
      have hnsG : ∀ s ∈ ns, s ∈ G.nodes := by
        obtain ⟨_, _, hWv, hZv, _, _, _⟩ := validInput_spec hv
        obtain ⟨ns2, hns2, hsub⟩ := getNodesToTransport_ok hG (hZv _ hZin) (hWv _ hWin)
        rw [hns] at hns2
        cases hns2
        exact hsub
      rw [hp2] at hvreg ⊢
      have hvG : v ∈ G.nodes := (rsub_ctd hsmall hnsG).nodes v hvreg
      have hvns' : v ∈ ns' := by
        by_contra hnot
        exact hdiff (ha.kern v hvG hnot)
      have hvns : v ∈ ns := (getNodesToTransport_spec G hG Z W ns hns v).2 ((hiff v).1 hvns')
      exact (ctd_mem_di G ns (tnode v, v)).2 (Or.inr ⟨v, hvns, rfl⟩)
  exact trso_sound_core G hG hA hsmall Y X outcomes interventions hv hY e h graphs hg F hgood σ' σ

set_option maxRecDepth 100000 in
/-- non-vacuity (run): Figure 8 of Tikka & Karvanen / `test_transport_1` — two source domains with experiments on `X1`
and `X2`; TRSO returns an estimand that uses BOTH source experiments (line 4, then line 6 twice), so `trso_sound`
applies to a run through lines 4, 6, 2, 9 in two different source domains -/
example : ∃ e, identifyTargetOutcomes dSeparated
    (MG.fromEdges [] [(0, 3), (0, 4), (2, 3), (2, 4), (5, 3), (5, 1), (1, 4), (5, 4)] [(0, 3), (5, 2), (5, 1)])
    [3, 4] [0, 1] [(1001, [3]), (1002, [4])] [(1001, [0]), (1002, [1])] = .ok (some e) := ⟨_, rfl⟩

/-- non-vacuity (families): for every well-formed acyclic graph and every marking `Δ` a compatible family exists (all
domains equal to the coin model); families whose source domains differ at the marked variables are what the
exact-rational oracle of the harness draws -/
example (G : MG Name) (Δ : List (Name × List Name)) : (coinFam G).SelectionCompatible G Δ :=
  ⟨fun _ => rfl, coinScm_compatible G, rfl, fun _ _ => ⟨coinScm_compatible G, rfl, rfl, rfl, rfl, fun _ _ _ => rfl⟩⟩

end Trso
end Y0
