/-
  C10SemId — the composed statement of C01 `id_sound` (stated over the environment `M.env G` of a semi-Markovian model)
  and C10 `canon_den` (stated over every `ProbFamily` environment), through the total environment `M.envX G`:
  Y0/Props/C10Sem.lean (`canonical_of_sound`, expr side) + Y0/Props/C01Sem.lean (id side); and the relation between the
  two model classes: `fscm_toScm_prDo` (a functional SCM and the semi-Markovian model it induces have the same
  interventional distributions), `id_sound_fscm` (C01 transported to functional SCMs).
-/
import Y0.Props.C10Sem
import Y0.Props.C01Sem
import Y0.Lemmas.IdFuel
import Y0.Lemmas.FscmObs
import Y0.Lemmas.FscmToScmCompat

namespace Y0
namespace C10Sem
open Scm

/-- **ID followed by canonicalisation is sound.**  Whenever ID returns an estimand `e` for `P(Y | do(X))` and
`canonicalize` turns it into `e'`, then `e'` evaluated on the observational distribution of any compatible semi-Markovian
model is the interventional distribution (at every in-range valuation).  No side condition is left: the estimand of ID
is well scoped, single-world over the nodes, with non-vanishing denominators (Y0/Props/C01Sem.lean), and the canonical
form stays single-world (Y0/Lemmas/CanonVocab.lean). -/
theorem id_sound_canonical {topo : MG Name → Except Err (List Name)} (ts : TopoSound topo) (G : MG Name)
    (X Y : List Name) (hq : ValidQuery G X Y) (e : Expr) (h : identify topo G X Y = .ok e)
    (M : Scm) (hM : M.Compatible G) {ordering : Option (List Var)} {e' : Expr}
    (hc : canonicalize e ordering = .ok e')
    (σ' σ : Val) (hσ : InRange (M.env G) σ) (hσ' : InRange (M.env G) σ') :
    den (M.env G) σ' e' σ = M.doProb G X Y σ :=
  canonical_of_sound hM hq.wf hq.ranked (M.doProb G X Y) (fun τ => id_sound ts G X Y hq e h M hM σ' τ)
    (C01Sem.id_estimand_wellScoped G X Y e h)
    (C01Sem.id_estimand_swOK ts G hq.wf X Y e h) (C01Sem.id_estimand_denNZA ts G hq.wf X Y e h M hM σ')
    hc hσ hσ'

/-! ## functional SCMs and the semi-Markovian models they induce -/

section fscm_scm
open Fscm

/-- **every functional SCM induces a semi-Markovian model with the same interventional distributions**
(`M.toScm card base`, Y0/Spec/FscmToScm.lean: shared noise becomes latent, private noise is pushed forward into the
kernels): for a well-formed world `dos` and distinct non-intervened nodes `ev`,
`P_{do(dos)}(ev)` by truncated factorisation = mass of the noise points at which `solve u dos` agrees with `ev`. -/
theorem fscm_toScm_prDo {M : Fscm.Model} {card : Name → Nat} {base : Nat} {G : MG Name} (hOK : ToScmOK M card base G)
    (dos ev : List (Name × Nat)) (hdv : DoValid card dos) (hevn : (ev.map (·.1)).Nodup)
    (hev : ∀ p ∈ ev, p.1 ∈ G.nodes ∧ p.1 ∉ dos.map (·.1)) (hevr : ∀ p ∈ ev, p.2 < card p.1) :
    (M.toScm card base).prDo G dos ev = (M.fscmEnv card).pr none (ev.map fun p => ⟨p.1, dos, p.2⟩) :=
  Fscm.fscm_toScm_prDo hOK dos ev hdv hevn hev hevr

/-- the observational case -/
theorem fscm_toScm_obs {M : Fscm.Model} {card : Name → Nat} {base : Nat} {G : MG Name} (hOK : ToScmOK M card base G)
    (ev : List (Name × Nat)) (hevn : (ev.map (·.1)).Nodup) (hev : ∀ p ∈ ev, p.1 ∈ G.nodes)
    (hevr : ∀ p ∈ ev, p.2 < card p.1) :
    (M.toScm card base).prDo G [] ev = (M.fscmEnv card).pr none (ev.map fun p => ⟨p.1, [], p.2⟩) :=
  Fscm.fscm_toScm_prDo hOK [] ev ⟨by simp, by simp⟩ hevn (fun p hp => ⟨hev p hp, by simp⟩) hevr

/-- the induced model is a positive semi-Markovian model compatible with `G` (the model class of C01/C03/C05/C17) as soon as
the pmfs are positive and every value of every variable has positive probability under its private noise -/
theorem fscm_toScm_compatible {M : Fscm.Model} {card : Name → Nat} {base : Nat} {G : MG Name}
    (hOK : ToScmOK M card base G) (hnorm : M.Normalised)
    (hkpos : ∀ v ∈ M.order, ∀ σ, 0 < M.kernOf card base v σ) : (M.toScm card base).Compatible G :=
  toScm_compatible hOK hnorm hkpos

/-- **ID is sound in functional SCMs.**  Whenever ID returns an estimand `e` for `P(Y | do(X))`, then in every functional
SCM `M` compatible with `G` with positive pmfs and positive push-forward kernels, `e` evaluated on the (counterfactual)
environment of `M` is the probability that `Y` takes the values `σ Y` in the world `do(X := σ X)`: the mass of the
noise points `u` with `solve M u (X := σ X) y = σ y` for all `y ∈ Y`. -/
theorem id_sound_fscm {topo : MG Name → Except Err (List Name)} (ts : TopoSound topo) (G : MG Name) (X Y : List Name)
    (hq : ValidQuery G X Y) (hY : Y.Nodup) (e : Expr) (h : identify topo G X Y = .ok e)
    (M : Fscm.Model) (card : Name → Nat) (base : Nat) (hOK : ToScmOK M card base G) (hnorm : M.Normalised)
    (hkpos : ∀ v ∈ M.order, ∀ σ, 0 < M.kernOf card base v σ) (σ' σ : Val) (hσ : ∀ x, σ x < card x) :
    den (M.fscmEnv card) σ' e σ = Fscm.prob M (Y.map fun y => ⟨y, Fscm.doOf X σ, σ y⟩) := by
  rw [den_fscmEnv_eq_toScm hOK σ' e (id_vocab topo (C01Sem.topoNodes_of_sound ts) G hq.wf X Y e h)
    (id_obsWS topo G X Y e h) σ hσ,
    id_sound ts G X Y hq e h (M.toScm card base) (toScm_compatible hOK hnorm hkpos) σ' σ]
  exact fscm_toScm_F hOK X Y hY (fun y hy => ⟨hq.ysub y hy, hq.disj y hy⟩) σ (fun x _ => hσ x) (fun x _ => hσ x)

end fscm_scm

/-! ### non-vacuity: the confounded functional SCM `conf3` (Y0/Props/C10Sem.lean) -/

section example_conf3
open Fscm

theorem conf3_toScmOK : ToScmOK conf3 (fun _ => 2) 100 conf3G := by
  refine ⟨conf3_wellFormed, conf3_compatible, by decide, ?_, ?_⟩
  · intro v j hj
    match v with
    | 0 => simp [conf3] at hj ⊢; omega
    | 1 => simp [conf3] at hj ⊢; omega
    | 2 => simp [conf3] at hj ⊢; omega
    | n + 3 => simp [conf3] at hj
  · intro v
    match v with
    | 0 => simp [conf3]
    | 1 => simp [conf3]
    | 2 => simp [conf3]
    | n + 3 => simp [conf3]

theorem conf3_normalised : conf3.Normalised := by
  intro pmf hp
  simp only [conf3, List.mem_cons, List.not_mem_nil, or_false] at hp
  rcases hp with rfl | rfl | rfl | rfl
  all_goals
    (refine ⟨?_, by norm_num⟩
     intro p hpp
     simp only [List.mem_cons, List.not_mem_nil, or_false] at hpp
     rcases hpp with rfl | rfl <;> norm_num)

/-- whatever the parents and the shared noise, each value of each variable has positive probability under the private
noise -/
theorem conf3_kernPos : ∀ v ∈ conf3.order, ∀ σ : Val, 0 < conf3.kernOf (fun _ => 2) 100 v σ := by
  intro v hv σ
  have hv' : v = 0 ∨ v = 1 ∨ v = 2 := by simpa [conf3] using hv
  unfold Model.kernOf
  split
  swap
  · exact one_pos
  rename_i h
  simp only at h
  rcases hv' with rfl | rfl | rfl
  · have hp : conf3.privOf 100 0 = [101] := by decide
    rw [hp]
    simp only [sumVars, sumVar, sumRange, Model.cardS, Model.priorS, Model.eqn, conf3]
    simp [Val.set, List.range_succ]
    have h1 : σ 0 = 0 ∨ σ 0 = 1 := by omega
    rcases h1 with h1 | h1 <;> simp [h1] <;> norm_num
  · have hp : conf3.privOf 100 1 = [102] := by decide
    rw [hp]
    simp only [sumVars, sumVar, sumRange, Model.cardS, Model.priorS, Model.eqn, conf3]
    simp [Val.set, List.range_succ]
    have h1 : σ 1 = 0 ∨ σ 1 = 1 := by omega
    rcases Nat.mod_two_eq_zero_or_one (σ 0 + σ 100) with hm | hm <;> rcases h1 with h1 | h1
    all_goals
      (have e1 : (σ 0 + (σ 100 + 1)) % 2 = 1 - (σ 0 + σ 100) % 2 := by omega
       simp [e1, hm, h1]
       try norm_num)
  · have hp : conf3.privOf 100 2 = [103] := by decide
    rw [hp]
    simp only [sumVars, sumVar, sumRange, Model.cardS, Model.priorS, Model.eqn, conf3]
    simp [Val.set, List.range_succ]
    have h1 : σ 2 = 0 ∨ σ 2 = 1 := by omega
    rcases Nat.mod_two_eq_zero_or_one (σ 1 + σ 100) with hm | hm <;> rcases h1 with h1 | h1
    all_goals
      (have e1 : (σ 1 + (σ 100 + 1)) % 2 = 1 - (σ 1 + σ 100) % 2 := by omega
       simp [e1, hm, h1]
       try norm_num)

/-- so the semi-Markovian model induced by `conf3` is in the model class of C01 -/
example : (conf3.toScm (fun _ => 2) 100).Compatible conf3G :=
  toScm_compatible conf3_toScmOK conf3_normalised conf3_kernPos

/-- and `id_sound_fscm` applies: ID's estimand for `P(X | do(Z))` on `Z → X → Y`, `X ↔ Y`, evaluated in the
(counterfactual) environment of `conf3`, is the mass of the noise points at which `X_{Z := z} = x` -/
example (σ' σ : Val) (hσ : ∀ x, σ x < 2) :
    ∃ e, identify checkedTopo conf3G [0] [1] = .ok e ∧
      den (conf3.fscmEnv (fun _ => 2)) σ' e σ = Fscm.prob conf3 [⟨1, [(0, σ 0)], σ 1⟩] := by
  have h : ∃ e, identifyF checkedTopo 8 conf3G [0] [1] = .ok e := ⟨_, rfl⟩
  obtain ⟨e, he⟩ := h
  exact ⟨e, identifyF_ok _ 8 _ _ _ _ he,
    id_sound_fscm checkedTopo_sound conf3G [0] [1]
      ⟨MG.wf_fromEdges _ _ _, ⟨fun v => v, by decide⟩, by decide, by decide, by decide⟩ (by decide) e
      (identifyF_ok _ 8 _ _ _ _ he) conf3 (fun _ => 2) 100 conf3_toScmOK conf3_normalised conf3_kernPos σ' σ hσ⟩

end example_conf3

/-! ## non-vacuity: concrete semi-Markovian models -/

section examples
open Var

/-- the bow graph `X → Y`, `X ↔ Y` (0 = X, 1 = Y) -/
def bowG : MG Name := MG.fromEdges [0, 1] [(0, 1)] [(0, 1)]

/-- a positive semi-Markovian model of the bow graph: one binary latent `10` shared by `X` and `Y` -/
def bowM : Scm :=
  { card := fun _ => 2
    lat := [10]
    prior := fun _ _ => 1 / 2
    latOf := fun v => if v = 0 ∨ v = 1 then [10] else []
    kern := fun v σ =>
      if v = 0 then (if (σ 0 + σ 10) % 2 = 0 then 2 / 3 else 1 / 3)
      else (if (σ 1 + σ 0 + σ 10) % 2 = 0 then 3 / 4 else 1 / 4) }

theorem bowG_nodes : bowG.nodes = [0, 1] := by decide

theorem bowM_compatible : bowM.Compatible bowG := by
  refine ⟨fun _ => Nat.zero_lt_two, by decide, ?_, ?_, ?_, ?_, ?_, ?_, ?_, ?_⟩
  · intro u hu; simp [bowM] at hu; subst hu; decide
  · intro u _ k; simp [bowM]
  · intro u _; simp [bowM, sumRange, List.range_succ]; norm_num
  · intro v u hu; simp [bowM] at hu ⊢; exact hu.2
  · intro v hv σ τ h
    have hv' : v = 0 ∨ v = 1 := by rw [bowG_nodes] at hv; simpa using hv
    rcases hv' with rfl | rfl
    · have h0 := h 0 (by simp)
      have h10 := h 10 (by simp [bowM])
      simp [bowM, h0, h10]
    · have h1 := h 1 (by simp)
      have h0 := h 0 (by decide)
      have h10 := h 10 (by simp [bowM])
      simp [bowM, h0, h1, h10]
  · intro v _ σ
    simp only [bowM]
    split_ifs <;> norm_num
  · intro v hv σ
    have hv' : v = 0 ∨ v = 1 := by rw [bowG_nodes] at hv; simpa using hv
    rcases hv' with rfl | rfl
    · simp only [sumVar, sumRange, bowM, List.range_succ, List.range_zero, List.nil_append, List.cons_append,
        List.map_cons, List.map_nil, List.sum_cons, List.sum_nil, Val.set]
      simp only [if_true]
      rcases Nat.mod_two_eq_zero_or_one (σ 10) with h | h <;> simp [Nat.add_mod, h] <;> norm_num
    · simp only [sumVar, sumRange, bowM, List.range_succ, List.range_zero, List.nil_append, List.cons_append,
        List.map_cons, List.map_nil, List.sum_cons, List.sum_nil, Val.set]
      simp only [if_true, show ¬ ((1 : Nat) = 0) by decide, if_false, show ¬ ((0 : Nat) = 1) by decide,
        show ¬ ((10 : Nat) = 1) by decide]
      rcases Nat.mod_two_eq_zero_or_one (σ 0 + σ 10) with h | h
      · have h1 : (1 + σ 0 + σ 10) % 2 = 1 := by omega
        simp [h, h1]; norm_num
      · have h1 : (1 + σ 0 + σ 10) % 2 = 0 := by omega
        simp [h, h1]; norm_num
  · intro v hv w hw hne _
    have hv' : v = 0 ∨ v = 1 := by rw [bowG_nodes] at hv; simpa using hv
    have hw' : w = 0 ∨ w = 1 := by rw [bowG_nodes] at hw; simpa using hw
    rcases hv' with rfl | rfl <;> rcases hw' with rfl | rfl <;> first | exact absurd rfl hne | decide
theorem bowG_wf : bowG.WF := MG.wf_fromEdges _ _ _
theorem bowG_ranked : bowG.Ranked := ⟨fun v => v, by decide⟩

/-- all probability laws hold in the total environment of the bow model -/
example : ProbFamily (bowM.envX bowG) := scm_envX_probFamily bowM_compatible bowG_wf bowG_ranked

/-- `P(X, Y) / P(X)` -/
def exBow : Expr := .frac (.prob none [plain 1, plain 0] []) (.prob none [plain 0] [])

/-- so C10 holds in `bowM.env bowG` itself: `P(X, Y) / P(X)` and its canonical form denote the same number -/
example (e' : Expr) (h : canon [plain 0, plain 1] exBow = .ok e') :
    den (bowM.env bowG) (fun _ => 0) e' (fun _ => 1) = den (bowM.env bowG) (fun _ => 0) exBow (fun _ => 1) :=
  canon_den_scm bowM_compatible bowG_wf bowG_ranked (by decide) (by decide)
    (denNZ_of_denNZA _ (denNZA_of_obsOnly bowM_compatible bowG_wf _ exBow
      (.frac _ _ (.prob _ _ (by intro v hv; simp at hv; rcases hv with rfl | rfl <;> exact ⟨rfl, by decide⟩) (by simp))
        (.prob _ _ (by intro v hv; simp at hv; subst hv; exact ⟨rfl, by decide⟩) (by simp)))
      (.frac _ _ (.prob _ _ _) (.prob _ _ _))))
    h (fun _ => Nat.one_lt_two) (fun _ => Nat.zero_lt_two)

/-! ### ID followed by canonicalisation, on the back-door graph -/

/-- `Z → X → Y`, `Z → Y` (0 = Z, 1 = X, 2 = Y) -/
def bdG : MG Name := MG.fromEdges [0, 1, 2] [(0, 1), (0, 2), (1, 2)] []

theorem bdG_nodes : bdG.nodes = [0, 1, 2] := by decide

/-- a positive Markovian model of the back-door graph -/
def bdM : Scm :=
  { card := fun _ => 2
    lat := []
    prior := fun _ _ => 1
    latOf := fun _ => []
    kern := fun v σ =>
      if v = 0 then (if σ 0 % 2 = 0 then 1 / 3 else 2 / 3)
      else if v = 1 then (if (σ 1 + σ 0) % 2 = 0 then 1 / 4 else 3 / 4)
      else (if (σ 2 + σ 1 + σ 0) % 2 = 0 then 2 / 5 else 3 / 5) }

theorem bdM_compatible : bdM.Compatible bdG := by
  refine ⟨fun _ => Nat.zero_lt_two, by decide, ?_, ?_, ?_, ?_, ?_, ?_, ?_, ?_⟩
  · intro u hu; simp [bdM] at hu
  · intro u hu; simp [bdM] at hu
  · intro u hu; simp [bdM] at hu
  · intro v u hu; simp [bdM] at hu
  · intro v hv σ τ h
    have hv' : v = 0 ∨ v = 1 ∨ v = 2 := by rw [bdG_nodes] at hv; simpa using hv
    rcases hv' with rfl | rfl | rfl
    · have h0 := h 0 (by simp)
      simp [bdM, h0]
    · have h1 := h 1 (by simp)
      have h0 := h 0 (by decide)
      simp [bdM, h0, h1]
    · have h2 := h 2 (by simp)
      have h1 := h 1 (by decide)
      have h0 := h 0 (by decide)
      simp [bdM, h0, h1, h2]
  · intro v _ σ
    simp only [bdM]
    split_ifs <;> norm_num
  · intro v hv σ
    have hv' : v = 0 ∨ v = 1 ∨ v = 2 := by rw [bdG_nodes] at hv; simpa using hv
    rcases hv' with rfl | rfl | rfl
    · simp [sumVar, sumRange, bdM, List.range_succ, Val.set]; norm_num
    · simp only [sumVar, sumRange, bdM, List.range_succ, List.range_zero, List.nil_append, List.cons_append,
        List.map_cons, List.map_nil, List.sum_cons, List.sum_nil, Val.set]
      simp only [if_true, show ¬ ((1 : Nat) = 0) by decide, if_false, show ¬ ((0 : Nat) = 1) by decide]
      rcases Nat.mod_two_eq_zero_or_one (σ 0) with h | h
      · have h1 : (1 + σ 0) % 2 = 1 := by omega
        simp [h, h1]; norm_num
      · have h1 : (1 + σ 0) % 2 = 0 := by omega
        simp [h, h1]; norm_num
    · simp only [sumVar, sumRange, bdM, List.range_succ, List.range_zero, List.nil_append, List.cons_append,
        List.map_cons, List.map_nil, List.sum_cons, List.sum_nil, Val.set]
      simp only [if_true, show ¬ ((2 : Nat) = 0) by decide, show ¬ ((2 : Nat) = 1) by decide, if_false,
        show ¬ ((0 : Nat) = 2) by decide, show ¬ ((1 : Nat) = 2) by decide]
      rcases Nat.mod_two_eq_zero_or_one (σ 1 + σ 0) with h | h
      · have h1 : (1 + σ 1 + σ 0) % 2 = 1 := by omega
        simp [h, h1]; norm_num
      · have h1 : (1 + σ 1 + σ 0) % 2 = 0 := by omega
        simp [h, h1]; norm_num
  · intro v _ w _ _ h
    obtain ⟨u, hu, _⟩ := h
    simp [bdM] at hu

theorem bd_validQuery : ValidQuery bdG [1] [2] :=
  ⟨MG.wf_fromEdges _ _ _, ⟨fun v => v, by decide⟩, by decide, by decide, by decide⟩

/-- **`id_sound_canonical` applies to a non-trivial run**: on the back-door graph ID returns
`Σ_Z P(Y | Z, X) · Σ_{X,Y} P(Z, X, Y)`, `canonicalize` rewrites it to `Σ_Z P(Z) · P(Y | Z, X)` (a different expression),
and in the concrete positive model `bdM` the canonical form evaluates to `P(y | do(x))` at every in-range valuation. -/
example (σ' σ : Val) (hσ : InRange (bdM.env bdG) σ) (hσ' : InRange (bdM.env bdG) σ') :
    ∃ e e', identify checkedTopo bdG [1] [2] = .ok e ∧ canonicalize e none = .ok e' ∧ e'.eqb e = false ∧
      den (bdM.env bdG) σ' e' σ = bdM.doProb bdG [1] [2] σ := by
  have h : ∃ e, identifyF checkedTopo 8 bdG [1] [2] = .ok e := ⟨_, rfl⟩
  obtain ⟨e, he⟩ := h
  have hc : ∃ e', canonicalize e none = .ok e' ∧ e'.eqb e = false := by
    have : Except.ok e = identifyF checkedTopo 8 bdG [1] [2] := he.symm
    cases this
    exact ⟨_, rfl, by decide⟩
  obtain ⟨e', hce, hne⟩ := hc
  exact ⟨e, e', identifyF_ok _ 8 _ _ _ _ he, hce, hne,
    id_sound_canonical checkedTopo_sound bdG [1] [2] bd_validQuery e (identifyF_ok _ 8 _ _ _ _ he) bdM bdM_compatible
      hce σ' σ hσ hσ'⟩

end examples

end C10Sem
end Y0
