/-
  C10SemId — the composed statement of C01 `id_sound` (stated over the environment `M.env G` of a semi-Markovian model)
  and C10 `canon_den` (stated over every `ProbFamily` environment), through the total environment `M.envX G`:
  Y0/Props/C10Sem.lean (`canonical_of_sound`, expr side) + Y0/Props/C01Sem.lean (id side).
-/
import Y0.Props.C10Sem
import Y0.Props.C01Sem

namespace Y0
namespace C10Sem
open Scm

/-- **ID followed by canonicalisation is sound.**  Whenever ID returns an estimand `e` for `P(Y | do(X))` and
`canonicalize` turns it into `e'` (again a single-world expression over the nodes: decidable `Expr.swOK`), then `e'`
evaluated on the observational distribution of any compatible semi-Markovian model is the interventional distribution. -/
theorem id_sound_canonical {topo : MG Name → Except Err (List Name)} (ts : TopoSound topo) (G : MG Name)
    (X Y : List Name) (hq : ValidQuery G X Y) (e : Expr) (h : identify topo G X Y = .ok e)
    (M : Scm) (hM : M.Compatible G) {ordering : Option (List Var)} {e' : Expr}
    (hws : WellScoped e = true) (hc : canonicalize e ordering = .ok e') (hsw' : e'.swOK G = true)
    (σ' σ : Val) (hσ : InRange (M.env G) σ) (hσ' : InRange (M.env G) σ') :
    den (M.env G) σ' e' σ = M.doProb G X Y σ :=
  canonical_of_sound hM hq.wf hq.ranked (M.doProb G X Y) (fun τ => id_sound ts G X Y hq e h M hM σ' τ) hws
    (C01Sem.id_estimand_swOK ts G hq.wf X Y e h) (C01Sem.id_estimand_denNZA ts G hq.wf X Y e h M hM σ')
    hc hsw' hσ hσ'

end C10Sem
end Y0
