/-
  Property C06 — "estimands mention only distributions the analyst actually has" — the property-level summary.

  The three clauses are proved, per algorithm family, in
    Props/C06Id.lean         ID / IDC     (`id_vocab`, `identifyOutcomes_vocab`, `idc_vocab` : `ObsOnly`)
    Props/C06Transport.lean  TRSO         (`trso_vocab` : `Voc`)
    Props/C06Cf.lean         ID* / IDC*   (`idstar_vocab`, `idcstar_vocab_c06` : `SingleWorld`)
  as invariants stated with three inductive / recursive predicates on expressions.  Here they are restated with ONE
  traversal, the one the harness performs on the real outputs (`_walk` in harness/props/c06.py):

    `leaves e`   every probability leaf of `e` as (population tag, children, conditioning side) — through products,
                 sums, numerators and denominators;
    `ranges e`   every range variable of every Sum of `e`;
    `qFree e`    no Q-factor anywhere;

  and in the words of the property:

    c06_id_idc          every leaf is untagged and mentions only plain variables that are nodes of the user's graph (no
                        subscript, no star, not a value); so does every Sum range; no Q-factor
    c06_transport       every leaf is tagged; it is a target term without subscripts, or a term of a DECLARED source
                        domain `(d, Z)` all of whose variables carry the subscripts of one `zs ⊆ Z`; no variable of a leaf
                        and no Sum range is a selection node
    c06_counterfactual  in every leaf all variables carry the same subscripts (one world); no Q-factor
-/
import Y0.Props.C06Id
import Y0.Props.C06Transport
import Y0.Props.C06Cf

namespace Y0
namespace C06
open TrDsl Trso

/-! ### the traversal -/

mutual
/-- every probability leaf: (population tag, children, conditioning side) -/
def leaves : Expr → List (Option Var × List Var × List Var)
  | .prob pop c p => [(pop, c, p)]
  | .prod fs => leavesList fs
  | .sum e _ => leaves e
  | .frac n d => leaves n ++ leaves d
  | .one => []
  | .zero => []
  | .q _ _ => []
def leavesList : List Expr → List (Option Var × List Var × List Var)
  | [] => []
  | e :: es => leaves e ++ leavesList es
end

mutual
/-- every range variable of every Sum -/
def ranges : Expr → List Var
  | .prob _ _ _ => []
  | .prod fs => rangesList fs
  | .sum e r => r ++ ranges e
  | .frac n d => ranges n ++ ranges d
  | .one => []
  | .zero => []
  | .q _ _ => []
def rangesList : List Expr → List Var
  | [] => []
  | e :: es => ranges e ++ rangesList es
end

mutual
/-- no Q-factor anywhere -/
def qFree : Expr → Bool
  | .prob _ _ _ => true
  | .prod fs => qFreeList fs
  | .sum e _ => qFree e
  | .frac n d => qFree n && qFree d
  | .one => true
  | .zero => true
  | .q _ _ => false
def qFreeList : List Expr → Bool
  | [] => true
  | e :: es => qFree e && qFreeList es
end

/-- the variables a leaf mentions: children and conditioning side -/
def leafVars (l : Option Var × List Var × List Var) : List Var := l.2.1 ++ l.2.2

/-! ### `Wf L R` (Lemmas/TrsoVocab) says exactly: every leaf satisfies `L`, every range satisfies `R` -/

mutual
theorem wf_leaves {L : Option Var → List Var → List Var → Prop} {R : Var → Prop} :
    ∀ (e : Expr), Wf L R e → ∀ l ∈ leaves e, L l.1 l.2.1 l.2.2
  | .prob pop c p, h, l, hl => by
    simp only [leaves, List.mem_singleton] at hl
    subst hl; exact h
  | .prod fs, h, l, hl => wfList_leaves fs h l (by simpa only [leaves] using hl)
  | .sum e r, h, l, hl => wf_leaves e h.1 l (by simpa only [leaves] using hl)
  | .frac n d, h, l, hl => by
    simp only [leaves, List.mem_append] at hl
    rcases hl with hl | hl
    · exact wf_leaves n h.1 l hl
    · exact wf_leaves d h.2 l hl
  | .one, _, l, hl => by simp [leaves] at hl
  | .zero, _, l, hl => by simp [leaves] at hl
  | .q _ _, _, l, hl => by simp [leaves] at hl
theorem wfList_leaves {L : Option Var → List Var → List Var → Prop} {R : Var → Prop} :
    ∀ (es : List Expr), WfList L R es → ∀ l ∈ leavesList es, L l.1 l.2.1 l.2.2
  | [], _, l, hl => by simp [leavesList] at hl
  | e :: es, h, l, hl => by
    simp only [leavesList, List.mem_append] at hl
    rcases hl with hl | hl
    · exact wf_leaves e h.1 l hl
    · exact wfList_leaves es h.2 l hl
end

mutual
theorem wf_ranges {L : Option Var → List Var → List Var → Prop} {R : Var → Prop} :
    ∀ (e : Expr), Wf L R e → ∀ r ∈ ranges e, R r
  | .prob pop c p, _, r, hr => by simp [ranges] at hr
  | .prod fs, h, r, hr => wfList_ranges fs h r (by simpa only [ranges] using hr)
  | .sum e rs, h, r, hr => by
    simp only [ranges, List.mem_append] at hr
    rcases hr with hr | hr
    · exact h.2 r hr
    · exact wf_ranges e h.1 r hr
  | .frac n d, h, r, hr => by
    simp only [ranges, List.mem_append] at hr
    rcases hr with hr | hr
    · exact wf_ranges n h.1 r hr
    · exact wf_ranges d h.2 r hr
  | .one, _, r, hr => by simp [ranges] at hr
  | .zero, _, r, hr => by simp [ranges] at hr
  | .q _ _, _, r, hr => by simp [ranges] at hr
theorem wfList_ranges {L : Option Var → List Var → List Var → Prop} {R : Var → Prop} :
    ∀ (es : List Expr), WfList L R es → ∀ r ∈ rangesList es, R r
  | [], _, r, hr => by simp [rangesList] at hr
  | e :: es, h, r, hr => by
    simp only [rangesList, List.mem_append] at hr
    rcases hr with hr | hr
    · exact wf_ranges e h.1 r hr
    · exact wfList_ranges es h.2 r hr
end

theorem qFreeList_of_forall : ∀ (fs : List Expr), (∀ f ∈ fs, qFree f = true) → qFreeList fs = true
  | [], _ => rfl
  | f :: fs, h => by
    simp only [qFreeList, Bool.and_eq_true]
    exact ⟨h f (by simp), qFreeList_of_forall fs (fun g hg => h g (by simp [hg]))⟩

/-! ### the three predicates of the part files, as statements about leaves and ranges -/

/-- a variable exactly as the analyst wrote it in the graph: `Variable(name)` — no subscript, no star, not a value —
naming a node among `V` -/
def IsNodeOf (V : List Name) (v : Var) : Prop := v.ivs = [] ∧ v.star = none ∧ v.isIv = false ∧ v.name ∈ V

theorem isNodeOf_of_plainIn {V : List Name} {v : Var} (h : v.PlainIn V) : IsNodeOf V v := by
  obtain ⟨h1, h2⟩ := h
  refine ⟨?_, ?_, ?_, h2⟩ <;> (rw [h1]; rfl)

theorem obsOnly_wf {V : List Name} {e : Expr} (h : ObsOnly V e) :
    Wf (fun pop c p => pop = none ∧ ∀ v ∈ c ++ p, v.PlainIn V) (fun v => v.PlainIn V) e := by
  induction h with
  | prob c p hc hp => exact ⟨rfl, fun v hv => (List.mem_append.1 hv).elim (hc v) (hp v)⟩
  | prod fs _ ih => exact (wfList_iff _ _ fs).2 ih
  | sum e r _ hr ih => exact ⟨ih, hr⟩
  | frac n d _ _ ihn ihd => exact ⟨ihn, ihd⟩
  | one => trivial
  | zero => trivial

theorem obsOnly_qFree {V : List Name} {e : Expr} (h : ObsOnly V e) : qFree e = true := by
  induction h with
  | prob c p _ _ => rfl
  | prod fs _ ih => simpa only [qFree] using qFreeList_of_forall fs ih
  | sum e r _ _ ih => simpa only [qFree] using ih
  | frac n d _ _ ihn ihd => simp only [qFree, ihn, ihd, Bool.and_self]
  | one => rfl
  | zero => rfl

theorem singleWorld_wf {e : Expr} (h : Cf.SingleWorld e) :
    Wf (fun _ c p => ∀ x ∈ c ++ p, ∀ y ∈ c ++ p, x.ivs = y.ivs) (fun _ => True) e := by
  induction h with
  | prob pop c p h => exact h
  | prod fs _ ih => exact (wfList_iff _ _ fs).2 ih
  | sum e r _ ih => exact ⟨ih, fun _ _ => trivial⟩
  | frac n d _ _ ihn ihd => exact ⟨ihn, ihd⟩
  | one => trivial
  | zero => trivial

theorem singleWorld_qFree {e : Expr} (h : Cf.SingleWorld e) : qFree e = true := by
  induction h with
  | prob pop c p _ => rfl
  | prod fs _ ih => simpa only [qFree] using qFreeList_of_forall fs ih
  | sum e r _ ih => simpa only [qFree] using ih
  | frac n d _ _ ihn ihd => simp only [qFree, ihn, ihd, Bool.and_self]
  | one => rfl
  | zero => rfl

/-! ### C06, clause by clause -/

/-- what the first sentence of C06 says about an estimand over the user's nodes `V` -/
def ObservationalOver (V : List Name) (e : Expr) : Prop :=
  (∀ l ∈ leaves e, l.1 = none ∧ ∀ v ∈ leafVars l, IsNodeOf V v) ∧ (∀ r ∈ ranges e, IsNodeOf V r) ∧ qFree e = true

theorem observationalOver_of_obsOnly {V : List Name} {e : Expr} (h : ObsOnly V e) : ObservationalOver V e :=
  ⟨fun l hl => ⟨(wf_leaves e (obsOnly_wf h) l hl).1,
      fun v hv => isNodeOf_of_plainIn ((wf_leaves e (obsOnly_wf h) l hl).2 v hv)⟩,
    fun r hr => isNodeOf_of_plainIn (wf_ranges e (obsOnly_wf h) r hr), obsOnly_qFree h⟩

/-- **C06, ID and IDC.**  "An estimand returned by ID or IDC contains only observational probability terms over nodes
of the user's graph: no intervention subscripts, no counterfactual variables, and no auxiliary nodes the library
introduced itself."  For every well-formed graph, every query, every separation test and every `topological_sort`
that lists nodes of the graph: whatever `identify_outcomes` or `idc` returns has only untagged leaves over plain
variables naming nodes of the graph, sums only over such variables, and no Q-factor. -/
theorem c06_id_idc (sep : SepTest) (topo : MG Name → Except Err (List Name)) (htopo : TopoNodes topo) (G : MG Name)
    (hG : G.WF) (e : Expr)
    (h : (∃ X Y, identifyOutcomes topo G X Y = .ok (some e)) ∨
         (∃ X Y Z, (∀ y ∈ Y, y ∈ G.nodes) ∧ idc sep topo G X Y Z = .ok e)) :
    ObservationalOver G.nodes e := by
  rcases h with ⟨X, Y, h⟩ | ⟨X, Y, Z, hY, h⟩
  · exact observationalOver_of_obsOnly (identifyOutcomes_vocab topo htopo G hG X Y e h)
  · exact observationalOver_of_obsOnly (idc_vocab sep topo htopo G hG X Y Z hY e h)

/-- what the transport sentence of C06 says about one leaf, `decl` = the user's `surrogate_interventions` -/
def TransportLeaf (decl : List (Pop × List Name)) (l : Option Var × List Var × List Var) : Prop :=
  (∃ d, l.1 = some (popVar d) ∧
    ((d = targetPop ∧ ∀ v ∈ leafVars l, v.ivs = []) ∨
     (∃ Z zs, (d, Z) ∈ decl ∧ (∀ z ∈ zs, z ∈ Z) ∧ ∀ v ∈ leafVars l, v.ivs = ivsOf zs))) ∧
  ∀ v ∈ leafVars l, isTnode v.name = false ∧ v.isIv = false ∧ v.star = none

theorem transportLeaf_of_vocLeaf {decl : List (Pop × List Name)} {l : Option Var × List Var × List Var}
    (h : VocLeaf decl l.1 l.2.1 l.2.2) : TransportLeaf decl l := by
  rcases h with ⟨hp, hv⟩ | ⟨d, Z, zs, hp, hd, _, hz, hv⟩
  · exact ⟨⟨targetPop, hp, Or.inl ⟨rfl, fun v hm => (hv v hm).1⟩⟩,
      fun v hm => ⟨(hv v hm).2.2.2, (hv v hm).2.2.1, (hv v hm).2.1⟩⟩
  · exact ⟨⟨d, hp, Or.inr ⟨Z, zs, hd, hz, fun v hm => (hv v hm).1⟩⟩,
      fun v hm => ⟨(hv v hm).2.2.2, (hv v hm).2.2.1, (hv v hm).2.1⟩⟩

/-- **C06, transport.**  "An estimand returned by the transport algorithm contains only terms of the target
observational distribution or of a declared source domain under a subset of that domain's declared experimental
variables, and never mentions a selection (transport) node."  For every graph without selection nodes, every query and
every declaration of source domains: every leaf of what `identify_target_outcomes` returns carries a population tag and
is a target term without subscripts or a term of a declared domain `(d, Z)` whose variables all carry the subscripts of
one `zs ⊆ Z`; no variable of a leaf and no Sum range is a selection node. -/
theorem c06_transport (sep : SepTest) (G : MG Name) (Y X : List Name) (outcomes interventions : List (Pop × List Name))
    (hG : ∀ v ∈ G.nodes, isTnode v = false) (e : Expr)
    (h : identifyTargetOutcomes sep G Y X outcomes interventions = .ok (some e)) :
    (∀ l ∈ leaves e, TransportLeaf interventions l) ∧
    (∀ r ∈ ranges e, r.ivs = [] ∧ r.isIv = false ∧ isTnode r.name = false) := by
  have hv : Voc interventions e := trso_vocab sep G Y X outcomes interventions hG e h
  refine ⟨fun l hl => transportLeaf_of_vocLeaf (wf_leaves e hv l hl), fun r hr => ?_⟩
  have := wf_ranges e hv r hr
  exact ⟨this.1, this.2.2.1, this.2.2.2⟩

/-- **C06, ID\* and IDC\*.**  "An ID* or IDC* estimand contains only interventional (single-world) terms, never a term
mixing different worlds."  For every graph, event, and iteration order of the worlds / district nodes / exchanged keys:
in every leaf of what `id_star` or `idc_star` returns all variables — children and conditioning side — carry the same
subscripts; there is no Q-factor. -/
theorem c06_counterfactual (ordf : List Cf.World → List Cf.World) (dordf kordf : List Var → List Var) (G : MG Name)
    (e : Expr)
    (h : (∃ ev, Cf.idStar ordf dordf G ev = .ok e) ∨
         (∃ outcomes conditions, Cf.idcStar ordf dordf kordf G outcomes conditions = .ok e)) :
    (∀ l ∈ leaves e, ∀ x ∈ leafVars l, ∀ y ∈ leafVars l, x.ivs = y.ivs) ∧ qFree e = true := by
  have hs : Cf.SingleWorld e := by
    rcases h with ⟨ev, h⟩ | ⟨o, c, h⟩
    · exact Cf.idstar_vocab ordf dordf G ev e h
    · exact Cf.idcstar_vocab_c06 ordf dordf kordf G o c e h
  exact ⟨fun l hl => wf_leaves e (singleWorld_wf hs) l hl, singleWorld_qFree hs⟩

/-! ### non-vacuity -/

/-- the traversal reaches the conditioning side, both parts of a fraction and the ranges of a sum -/
example : leaves (.sum (.frac (.prob none [Var.plain 1] [Var.plain 0]) (.prob none [Var.plain 0] [])) [Var.plain 0]) =
    [(none, [Var.plain 1], [Var.plain 0]), (none, [Var.plain 0], [])] := rfl
example : ranges (.prod [.sum (.prob none [Var.plain 1] []) [Var.plain 1], .sum .one [Var.plain 2]]) =
    [Var.plain 1, Var.plain 2] := rfl
example : qFree (.prod [.one, .frac (.q [] []) .one]) = false := rfl

/-- the predicates reject what the property forbids: a subscripted variable is not a node of the graph … -/
example : ¬ ObservationalOver [0, 1] (.prob none [⟨1, none, false, [⟨0, false⟩]⟩] []) := by
  intro h
  have := (h.1 (none, [⟨1, none, false, [⟨0, false⟩]⟩], []) (by simp [leaves])).2 ⟨1, none, false, [⟨0, false⟩]⟩
    (by simp [leafVars])
  exact absurd this.1 (by simp)

/-- … and a term of a source domain under an experiment that was not declared for it is not a transport leaf
(`PP[π1][A, B](C)` when π1 only declared an experiment on `A` = 0) -/
example : ¬ TransportLeaf [(1001, [0]), (1002, [0, 1])]
    (some (popVar 1001), [⟨2, none, false, ivsOf [0, 1]⟩], []) := by
  rintro ⟨⟨d, hd, h⟩, -⟩
  have hd' : d = 1001 := by
    have := Option.some.inj hd
    simp [popVar, Var.plain] at this
    exact this.symm
  subst hd'
  rcases h with ⟨h, -⟩ | ⟨Z, zs, hmem, hz, hv⟩
  · exact absurd h (by decide)
  · have hZ : Z = [0] := by
      simp at hmem
      exact hmem
    subst hZ
    have h1 := hv ⟨2, none, false, ivsOf [0, 1]⟩ (by simp [leafVars])
    simp only at h1
    have e01 : ivsOf [0, 1] = [⟨0, false⟩, ⟨1, false⟩] := by decide
    have hmemz : (⟨1, false⟩ : Iv) ∈ ivsOf zs := by rw [← h1, e01]; simp
    have : (1 : Name) ∈ zs := by
      simp only [ivsOf, mem_ssort] at hmemz
      have := mem_dedup'.1 hmemz
      simp [toIv, Var.plain] at this
      exact this
    have := hz 1 this
    simp at this

def usesDomain (d : Pop) : Except Err (Option Expr) → Bool
  | .ok (some e) => (leaves e).any fun l => l.1 == some (popVar d)
  | _ => false

/-- `c06_transport` speaks about non-trivial estimands: the paper's figure-8 problem returns one whose leaves read the
target domain and both declared source domains -/
example : usesDomain targetPop fig8Result = true ∧ usesDomain 1001 fig8Result = true ∧ usesDomain 1002 fig8Result = true := by
  decide +kernel

def counterfactualLeaf : Except Err Expr → Bool
  | .ok e => (leaves e).any fun l => (leafVars l).any fun v => !v.ivs.isEmpty
  | _ => false

/-- `c06_counterfactual` speaks about non-trivial estimands: `P(A_b = a)` on `B → A` is answered with a subscripted leaf -/
example : counterfactualLeaf (Cf.idStar Cf.sortWorlds (sortBy Var.keyLt) (MG.fromEdges [0, 1] [(1, 0)] [])
    [({ name := 0, ivs := [⟨1, false⟩] }, ⟨0, false⟩)]) = true := by decide

end C06
end Y0
