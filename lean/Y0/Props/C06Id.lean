/-
  Property C06 (ID / IDC part) — an estimand returned by ID contains only observational probability terms over
  nodes of the user's graph (`ObsOnly`, Y0/Lemmas/IdVocab.lean): no population tag, no intervention subscripts,
  no starred / counterfactual variables, no Q-factors, sums ranging over nodes of the graph.

  The theorems are invariants of the recursion of the model `Y0.idAlg` (Y0/Model/Id.lean).  The only assumption
  about networkx's `topological_sort` (parameter `topo`) is that the order it returns lists nodes of the graph.
-/
import Y0.Lemmas.IdVocab
import Y0.Lemmas.IdGraph
import Y0.Lemmas.IdcStep

namespace Y0
open IdDsl IdAux

/-- what C06 needs from `graph.topological_sort()`: it lists nodes of the graph -/
def TopoNodes (topo : MG Name → Except Err (List Name)) : Prop :=
  ∀ H o, topo H = .ok o → ∀ v ∈ o, v ∈ H.nodes

/-- invariant: the recursion only ever carries estimands over the user's nodes `V`, on sub-graphs of the user's graph -/
theorem idAlg_vocab (topo : MG Name → Except Err (List Name)) (htopo : TopoNodes topo) (V : List Name) :
    ∀ I e, idAlg topo I = .ok e → I.G.WF → (∀ v ∈ I.G.nodes, v ∈ V) → ObsOnly V I.est → ObsOnly V e := by
  apply idAlg_ok_induct topo (fun I e => I.G.WF → (∀ v ∈ I.G.nodes, v ∈ V) → ObsOnly V I.est → ObsOnly V e)
  · -- lines 1 and 6
    intro I e hs hwf hV hest
    cases step_ok hs with
    | l1 _ => exact obsOnly_sumSafe hest (fun x hx => hV x (List.mem_filter.mp hx).1)
    | l6 anc anc' S D order fs _ _ _ _ _ _ _ ho hf =>
      obtain ⟨hS, hfs⟩ := mapM_pParents_ok hf (fun v hv => hV v (htopo _ _ ho v hv)) hest
      exact obsOnly_sumSafe (obsOnly_productSafe hfs)
        (fun x hx => hV x (htopo _ _ ho x (hS x (List.mem_filter.mp hx).1)))
  · -- lines 2, 3 and 7
    intro I J e hs _ ih hwf hV hest
    cases step_ok hs with
    | l2 anc _ hanc _ =>
      apply ih (MG.wf_subgraph _ _)
      · intro v hv
        rw [line2, MG.mem_nodes_subgraph] at hv
        exact hV v (MG.ancestorsInclusive_sub hwf hanc v hv)
      · exact obsOnly_sumSafe hest (fun x hx => hV x (List.mem_filter.mp hx).1)
    | l3 anc anc' _ _ _ _ _ => exact ih hwf hV hest
    | l7 anc anc' S D order fs _ _ _ _ _ _ _ ho hf =>
      obtain ⟨hD, hfs⟩ := mapM_pParents_ok hf (fun v hv => hV v (htopo _ _ ho v hv)) hest
      apply ih (MG.wf_subgraph _ _)
      · intro v hv
        rw [MG.mem_nodes_subgraph] at hv
        exact hV v (htopo _ _ ho v (hD v hv))
      · exact obsOnly_productSafe hfs
  · -- line 4
    intro I Js ranges es hs hall hwf hV hest
    cases step_ok hs with
    | l4 anc anc' _ _ _ =>
      apply obsOnly_sumSafe
      · apply obsOnly_productSafe
        intro f hf
        obtain ⟨J, hJ, _, hP⟩ := forall₂_right hall f hf
        simp only [List.mem_map] at hJ
        obtain ⟨S, _, rfl⟩ := hJ
        exact hP hwf hV hest
      · exact fun x hx => hV x (List.mem_filter.mp hx).1

/-- **C06 (ID).** Every estimand returned by `identify` on a well-formed graph mentions only plain
observational terms over nodes of that graph. -/
theorem id_vocab (topo : MG Name → Except Err (List Name)) (htopo : TopoNodes topo) (G : MG Name) (hG : G.WF)
    (X Y : List Name) (e : Expr) (h : identify topo G X Y = .ok e) : ObsOnly G.nodes e := by
  unfold identify at h
  obtain ⟨est, hest, h⟩ := bind_ok h
  exact idAlg_vocab topo htopo G.nodes _ e h hG (fun _ hv => hv) (obsOnly_pJoint hest (fun _ hx => hx))

/-- the same through the public wrapper `identify_outcomes` -/
theorem identifyOutcomes_vocab (topo : MG Name → Except Err (List Name)) (htopo : TopoNodes topo) (G : MG Name)
    (hG : G.WF) (X Y : List Name) (e : Expr) (h : identifyOutcomes topo G X Y = .ok (some e)) :
    ObsOnly G.nodes e := by
  unfold identifyOutcomes at h
  split at h
  · rename_i e' he
    simp only [Except.ok.injEq, Option.some.injEq] at h
    subst h
    exact id_vocab topo htopo G hG X Y _ he
  · cases h
  · cases h

/-- invariant of the IDC loop: whatever conditions are exchanged, the result is `e / Σ_Y e` for an ID estimand `e` -/
theorem idcAlg_vocab (sep : SepTest) (topo : MG Name → Except Err (List Name)) (htopo : TopoNodes topo)
    (G : MG Name) (hG : G.WF) (est : Expr) (hest : ObsOnly G.nodes est) (Y : List Name)
    (hY : ∀ y ∈ Y, y ∈ G.nodes) :
    ∀ (fuel : Nat) (X Z : List Name) (e : Expr), idcAlg sep topo G est fuel X Y Z = .ok e → ObsOnly G.nodes e := by
  intro fuel
  induction fuel with
  | zero =>
    intro X Z e h
    rcases idcAlg_ok h with ⟨c, f', _, hf, _⟩ | ⟨_, e0, he0, hn⟩
    · cases hf
    · have h0 := idAlg_vocab topo htopo G.nodes _ e0 he0 hG (fun _ hv => hv) hest
      exact obsOnly_div _ _ _ hn h0 (obsOnly_sumSafe h0 hY)
  | succ n ih =>
    intro X Z e h
    rcases idcAlg_ok h with ⟨c, f', _, hf, hrec⟩ | ⟨_, e0, he0, hn⟩
    · cases hf
      exact ih _ _ e hrec
    · have h0 := idAlg_vocab topo htopo G.nodes _ e0 he0 hG (fun _ hv => hv) hest
      exact obsOnly_div _ _ _ hn h0 (obsOnly_sumSafe h0 hY)

/-- **C06 (IDC).** Every estimand returned by `idc` on a well-formed graph (outcomes inside the graph) mentions only
plain observational terms over nodes of that graph. -/
theorem idc_vocab (sep : SepTest) (topo : MG Name → Except Err (List Name)) (htopo : TopoNodes topo) (G : MG Name)
    (hG : G.WF) (X Y Z : List Name) (hY : ∀ y ∈ Y, y ∈ G.nodes) (e : Expr) (h : idc sep topo G X Y Z = .ok e) :
    ObsOnly G.nodes e := by
  unfold idc at h
  obtain ⟨est, hest, h⟩ := bind_ok h
  exact idcAlg_vocab sep topo htopo G hG est (obsOnly_pJoint hest (fun _ hx => hx)) Y hY _ _ _ e h

/-! ### non-vacuity -/

/-- a `topo` satisfying the assumption exists (any function returning a list of the graph's nodes does) -/
example : TopoNodes (fun H => .ok H.nodes) := fun _ _ h v hv => by cases h; exact hv

def idNapkin : MG Name := MG.fromEdges [0, 1, 2, 3] [(0, 1), (1, 2), (2, 3)] [(0, 2), (0, 3)]

example : idNapkin.WF := MG.wf_fromEdges _ _ _

/-- the first step of ID on the napkin query `P(Y | do(X))` is line 3 with `W, R` added to the treatments
(a non-trivial run: the recursion goes on through lines 7, 2 and 6) -/
example : step MG.topologicalSort { G := idNapkin, X := [2], Y := [3], est := .prob none [] [] } =
    .ok (.tail (line3 { G := idNapkin, X := [2], Y := [3], est := .prob none [] [] } [0, 1])) := by
  unfold step; rfl

end Y0
