/-
  Property C10 — canonicalisation never changes what an expression means.
  (theorems are added below as they are proved; see harness/props/c10.py for the correspondence and the oracle)
-/
import Y0.Model.Canon
import Y0.Spec.Sem

namespace Y0

/-- `canonicalize` leaves the constants alone -/
theorem canon_one (o : List Var) : canon o .one = .ok .one := rfl
theorem canon_zero (o : List Var) : canon o .zero = .ok .zero := rfl

end Y0
