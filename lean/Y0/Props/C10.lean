/-
  Property C10 — canonicalisation never changes what an expression means.

  "For every probability expression and every admissible variable ordering, the canonical form denotes the same
   function of the variables' values and of the underlying distribution as the original expression. Consequently two
   expressions that the library declares canonically equal are semantically equal."

  Only property theorems and non-vacuity examples live here.  Every theorem is about the executable models
  `Y0.canon` / `Y0.canonicalize` / `Y0.canonicalExprEqual` (lean/Y0/Model/Canon.lean, Dsl.lean), which the
  correspondence check (harness/props/c10.py) compares with `y0.mutate.canonicalize` / `canonical_expr_equal` on
  every run.

  Reading guide.
    * `den env σ' e σ`        the denotation (Y0/Spec/Sem.lean); `ProbFamily env` the probability laws; `env.Positive`.
    * `WellScoped e`          the decidable quantifier of the property (Y0/Lemmas/SemScope.lean): single-world leaves with
                              pairwise distinct names, intervened names disjoint from the leaf's variables, no Q-factor,
                              Sum ranges are sets of plain variables, a summation variable never occurs as a `+X` value.
    * `Covers (levelOf o) e`  the ordering `o` has a level for every event variable ("orderings covering their variables").
    * `DenNZ env σ' e`        no fraction inside `e` has a denominator vanishing at an in-range valuation
                              (Y0/Lemmas/SemCanon.lean); `denNZ_of_positive`: implied by positivity when no `Zero()` occurs
                              inside a denominator (`Expr.zfd`).
    * `InRange env σ`         every variable has a value below its cardinality.

  Multi-world joint leaves (children in different worlds, several children on one base variable) are covered by the widened
  theorems of Props/C10MW.lean (`canon_den_mw`, `canon_total_mw`, `canonical_equal_sound_mw` under `WellScopedW`).
-/
import Y0.Lemmas.SemPos
import Y0.Lemmas.CanonTotal
import Y0.Lemmas.CanonDefault

namespace Y0

variable {env : Env} {σ' : Val}

/-! ## 1. meaning preservation -/

/-- **C10, main clause.**  For every well-scoped expression, every ordering, every family of distributions satisfying the
probability laws and every in-range valuation: if canonicalisation returns `e'` then `e'` denotes what `e` denotes
(provided no denominator of `e` vanishes). -/
theorem canon_den (hF : ProbFamily env) {o : List Var} {e e' : Expr} (hws : WellScoped e = true)
    (hz : DenNZ env σ' e) (h : canon o e = .ok e') {σ : Val} (hσ : InRange env σ) :
    den env σ' e' σ = den env σ' e σ :=
  (canonL_den hF e e' hws hz h).1 σ hσ

/-- the canonical form has no vanishing denominator either (the invariant behind `canon_den`) -/
theorem canon_denNZ (hF : ProbFamily env) {o : List Var} {e e' : Expr} (hws : WellScoped e = true)
    (hz : DenNZ env σ' e) (h : canon o e = .ok e') : DenNZ env σ' e' :=
  (canonL_den hF e e' hws hz h).2

/-- **C10 for positive distributions**: the non-vanishing hypothesis is discharged syntactically -/
theorem canon_den_positive (hF : ProbFamily env) (hP : env.Positive) {o : List Var} {e e' : Expr}
    (hws : WellScoped e = true) (hzfd : e.zfd = true) (h : canon o e = .ok e')
    {σ : Val} (hσ : InRange env σ) (hσ' : InRange env σ') :
    den env σ' e' σ = den env σ' e σ :=
  canon_den hF hws (denNZ_of_positive hF hP hσ' e hws hzfd) h hσ

/-- the public entry point `canonicalize(expression, ordering)` (`ordering = None`: all variables of the expression) -/
theorem canonicalize_den (hF : ProbFamily env) {ordering : Option (List Var)} {e e' : Expr}
    (hws : WellScoped e = true) (hz : DenNZ env σ' e) (h : canonicalize e ordering = .ok e')
    {σ : Val} (hσ : InRange env σ) : den env σ' e' σ = den env σ' e σ :=
  canon_den hF hws hz h hσ

/-- the canonical form of a well-scoped expression is well-scoped (w.r.t. the same bound names) -/
theorem canon_wellScoped {o : List Var} {e e' : Expr} (hws : WellScoped e = true) (h : canon o e = .ok e') :
    e'.wss e.rangeNames = true :=
  wss_canonL e e' hws h

/-! ## 2. totality: which inputs make `canonicalize` raise -/

/-- **C10, totality.**  On a well-scoped expression whose event variables all have a level in the ordering and whose
denominators do not vanish, canonicalisation returns an expression (no `KeyError`, `TypeError`, `ZeroDivisionError`). -/
theorem canon_total (hF : ProbFamily env) {o : List Var} {e : Expr} (hws : WellScoped e = true)
    (hcov : Covers (levelOf o) e) (hz : DenNZ env σ' e) : ∃ e', canon o e = .ok e' :=
  canonL_total hF e hws hcov hz

/-- the default ordering (`ordering=None`: all variables of the expression, sorted) always covers the expression, so the
public entry point called without an ordering never raises `KeyError`: on a well-scoped expression whose denominators do
not vanish it returns a canonical form -/
theorem canonicalize_default_total (hF : ProbFamily env) {e : Expr} (hws : WellScoped e = true) (hz : DenNZ env σ' e) :
    ∃ e', canonicalize e none = .ok e' :=
  canonL_total hF e hws (covers_default e) hz

/-- the canonical form does not depend on WHICH covering ordering is passed (the canonicaliser only consults the name order
that `ensure_ordering` re-establishes), so `canon_den` for one admissible ordering is `canon_den` for all of them -/
theorem canon_ordering_independent {o o' : List Var} {e a : Expr} (hc : Covers (levelOf (upgradeOrdering o')) e)
    (h : canonicalize e (some o) = .ok a) : canonicalize e (some o') = .ok a :=
  canonL_congr (nameMonotone_levelOf o) (nameMonotone_levelOf o') e a hc h

/-- the three error branches, exhibited (they are the only ones: `canon_total`) -/
example : canon [Var.plain 0] (.prob none [Var.plain 0, Var.plain 1] []) = .error (.internal "KeyError") := by rfl
example : canon [Var.plain 0] (.q [Var.plain 0] [Var.plain 0]) = .error (.invalidInput "TypeError") := by rfl
example : canon [Var.plain 0]
    (.frac (.prob none [Var.plain 0] []) (.prod [.zero, .prob none [Var.plain 0] []])) =
      .error (.internal "ZeroDivisionError") := by rfl
/-- `0/0 ↦ 1` outside `DenNZ`: a denominator that canonicalises to `Zero()` under a numerator that does too -/
example : canon [Var.plain 0]
    (.frac (.prod [.zero, .prob none [Var.plain 0] []]) (.prod [.zero, .prob none [Var.plain 0] []])) = .ok .one := by rfl

/-! ## 3. canonical equality is sound -/

/-- **C10, "consequently".**  Two well-scoped expressions that `canonical_expr_equal` declares equal denote the same
function. -/
theorem canonical_equal_sound (hF : ProbFamily env) {l r : Expr} (hl : WellScoped l = true) (hr : WellScoped r = true)
    (hzl : DenNZ env σ' l) (hzr : DenNZ env σ' r) (h : canonicalExprEqual l r = .ok true)
    {σ : Val} (hσ : InRange env σ) : den env σ' l σ = den env σ' r σ := by
  unfold canonicalExprEqual at h
  obtain ⟨a, ha, h⟩ := bind_ok h
  obtain ⟨b, hb, h⟩ := bind_ok h
  have hab : a = b := Expr.eqb_sound a b (pure_ok h)
  rw [← canon_den hF hl hzl ha hσ, ← canon_den hF hr hzr hb hσ, hab]

/-! ## 4. non-vacuity -/

section examples
open Var

/-- `Σ_{A,B} P(A) · (P_x(Y | Z) / Σ_Y PP[π](Y, Z))`, with X=2, Y=3, Z=4, π=1001 -/
def exC10 : Expr :=
  .prod [.sum (.prob none [plain 0] []) [plain 0, plain 1],
         .frac (.prob none [{ name := 3, ivs := [⟨2, false⟩] }] [{ name := 4, ivs := [⟨2, false⟩] }])
               (.sum (.prob (some (plain 1001)) [plain 3, plain 4] []) [plain 3])]

example : WellScoped exC10 = true := by decide
example : exC10.zfd = true := by decide
example : ∀ v ∈ exC10.eventVars, (levelOf [plain 0, plain 1, plain 2, plain 3, plain 4] v.name).isSome = true := by decide
/-- its canonical form: the superset branch of Sum.simplify keeps `Σ_B 1`, the inner sum is marginalised -/
example : canon [plain 0, plain 1, plain 2, plain 3, plain 4] exC10 = .ok
    (.prod [.sum .one [plain 1],
            .frac (.prob none [{ name := 3, ivs := [⟨2, false⟩] }] [{ name := 4, ivs := [⟨2, false⟩] }])
                  (.prob (some (plain 1001)) [plain 4] [])]) := by rfl

/-- the hypotheses on the environment are satisfiable: the one-point family (every variable has the single value 0) -/
def unitEnv : Env where
  card := fun _ => 1
  pr := fun _ l => if l.all (fun a => a.val == 0) then 1 else 0

theorem unitEnv_probFamily : ProbFamily unitEnv where
  card_pos := fun _ => Nat.one_pos
  pr_nil := fun _ => rfl
  pr_nonneg := fun _ l => by unfold unitEnv; simp only; split <;> decide
  pr_perm := fun _ l₁ l₂ h => by
    unfold unitEnv; simp only
    have : l₁.all (fun a => a.val == 0) = l₂.all (fun a => a.val == 0) := by
      rw [Bool.eq_iff_iff]; simp only [List.all_eq_true]
      exact ⟨fun h1 a ha => h1 a (h.symm.subset ha), fun h1 a ha => h1 a (h.subset ha)⟩
    rw [this]
  pr_dup := fun _ a l => by unfold unitEnv; simp [List.all_cons]
  pr_dos_perm := fun _ a dos' l _ => by unfold unitEnv; simp [List.all_cons]
  pr_conflict := fun _ a b l h => by
    unfold unitEnv
    simp only [Atom.conflicts, Bool.and_eq_true, bne_iff_ne, ne_eq] at h
    have : ¬ (a.val = 0 ∧ b.val = 0) := fun ⟨h1, h2⟩ => h.2 (h1.trans h2.symm)
    simp only [List.all_cons, Bool.and_eq_true, beq_iff_eq]
    rw [if_neg]
    intro hh; exact this ⟨hh.1, hh.2.1⟩
  pr_marg := fun _ x dos l _ => by
    unfold unitEnv
    simp [sumRange, List.range_succ, List.all_cons]
  pr_range := fun _ a l h => by
    have h' : 1 ≤ a.val := h
    have : a.val ≠ 0 := by omega
    unfold unitEnv
    simp [List.all_cons, this]

theorem unitEnv_positive : unitEnv.Positive := by
  intro pop l hr _
  unfold unitEnv
  simp only
  rw [if_pos]
  · decide
  · simp only [List.all_eq_true, beq_iff_eq]
    intro a ha
    have := hr a ha
    simp only [unitEnv] at this
    omega

/-- so `canon_den_positive` applies to `exC10` in `unitEnv` at the valuation 0 -/
example (e' : Expr) (h : canon [plain 0, plain 1, plain 2, plain 3, plain 4] exC10 = .ok e') :
    den unitEnv (fun _ => 0) e' (fun _ => 0) = den unitEnv (fun _ => 0) exC10 (fun _ => 0) :=
  canon_den_positive unitEnv_probFamily unitEnv_positive (by decide) (by decide) h
    (fun _ => Nat.one_pos) (fun _ => Nat.one_pos)

end examples

end Y0
