/-
  Y0.Props.C01 — ID estimands equal the interventional distribution (theorems about Y0.Model.Id).
-/
import Y0.Model.Id

namespace Y0

/-- line 1 of ID returns the marginal of the carried estimand -/
theorem step_line1 (topo : MG Name → Except Err (List Name)) (I : IdIn) (h : I.X = []) :
    step topo I = .ok (.done (IdDsl.sumSafe I.est (diff' I.G.nodes I.Y))) := by
  unfold step
  simp only [h, List.isEmpty_nil, if_true]
  rfl

end Y0
