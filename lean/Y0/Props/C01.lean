/-
  Property C01 — ID estimands equal the true interventional distribution.

  `id_sound`: whenever the model of `identify` returns an estimand `e` for `P(Y | do(X))` on a well-formed acyclic
  mixed graph `G`, then for EVERY structural causal model `M` compatible with `G` (Y0/Spec/Scm.lean: discrete
  variables of any cardinality, positive rational parameters, independent root latents each shared only across
  bidirected edges) and EVERY assignment `σ` (and `σ'` for starred values, of which `e` has none)

      den (M.env G) σ' e σ = M.doProb G X Y σ          -- value of the estimand on the observational joint of M
                                                       --   =  Σ_{V ∖ (X ∪ Y)} Q[V ∖ X]   (truncated factorisation)

  `id_free_irrelevant`: the value does not depend on any variable outside `X ∪ Y`.

  The proof is the recursion invariant "the carried estimand denotes `Q[V_cur]` of the original model"
  (`SInv`, `idAlg_sound` in Y0/Lemmas/IdSound*.lean) on top of the c-factor lemmas (sink)/(split)/(ratio) of
  Y0/Lemmas/QFactor.lean.  Assumption about networkx (`TopoSound topo`): `topological_sort` returns a duplicate-free
  list of exactly the nodes in which no later node is a parent of an earlier one; `checkedTopo_sound` shows an
  executable sorter with that property.
-/
import Y0.Lemmas.IdSoundD
import Y0.Lemmas.IdTopo
import Y0.Lemmas.IdTopoAnc
import Y0.Lemmas.IdFuel

namespace Y0
open IdDsl IdAux MG

/-- the initial state of the recursion satisfies the invariant: `P(V)` denotes `Q[V]` -/
theorem sinv_initial {M : Scm} {G : MG Name} (hM : M.Compatible G) {X Y : List Name} (hq : ValidQuery G X Y)
    {est : Expr} (hest : pJoint G.nodes = .ok est) (σ' : Val) :
    SInv M G σ' { G := G, X := X, Y := Y, est := est } := by
  have hctx : SCtx M G := ⟨hM, hq.wf, hq.ranked⟩
  unfold pJoint at hest
  split at hest
  · cases hest
  · rename_i hne
    simp only [Except.ok.injEq] at hest
    subst hest
    refine ⟨⟨hq.wf, hq.ranked, hq.ysub, hq.yne, hq.disj, trivial⟩, Sub.refl G, ?_, ?_⟩
    · intro σ
      simp only [den, Option.map_none, Scm.env, List.append_nil, List.map_nil]
      have h1 : ((sortNames G.nodes).map Var.plain).map (Var.atom σ σ') =
          (sortNames G.nodes).map (fun n => Var.atom σ σ' (Var.plain n)) := by simp [Function.comp_def]
      rw [h1, Scm.prAtoms_plain hM hq.wf hq.ranked]
      simp only [Scm.prAtoms, div_one]
      unfold Scm.obsMarg
      have : G.nodes.filter (· ∉ sortNames G.nodes) = [] := by
        apply List.filter_eq_nil_iff.mpr
        intro v hv
        simp [mem_sortNames, hv]
      rw [this]
      rfl
    · intro _ S _ _ σ
      rfl

/-- **C01.** Whenever ID returns an estimand for `P(Y | do(X))` on an acyclic directed mixed graph, evaluating that
estimand on the observational distribution of any structural causal model compatible with the graph yields exactly
that model's interventional distribution of `Y` under `do(X)`, for every assignment of values. -/
theorem id_sound {topo : MG Name → Except Err (List Name)} (ts : TopoSound topo) (G : MG Name) (X Y : List Name)
    (hq : ValidQuery G X Y) (e : Expr) (h : identify topo G X Y = .ok e)
    (M : Scm) (hM : M.Compatible G) (σ' σ : Val) :
    den (M.env G) σ' e σ = M.doProb G X Y σ := by
  unfold identify at h
  obtain ⟨est, hest, h⟩ := bind_ok h
  exact idAlg_sound ⟨hM, hq.wf, hq.ranked⟩ ts _ e h (sinv_initial hM hq hest σ') σ

/-- the interventional distribution `P(y | do(x))` of a compatible model depends on the assignment only through
`X ∪ Y` -/
theorem doProb_dependsOnly {M : Scm} {G : MG Name} (hM : M.Compatible G) (hG : G.WF) (X Y : List Name) :
    DependsOnly (M.doProb G X Y) (X ++ Y) := by
  unfold Scm.doProb
  apply sumVars_dependsOnly
  apply Scm.Q_dependsOnly hM _ (fun v hv => (List.mem_filter.mp hv).1)
  have key : ∀ w, w ∈ G.nodes → w ∈ G.nodes.filter (fun v => v ∉ X ∧ v ∉ Y) ++ (X ++ Y) := by
    intro w hw
    by_cases h : w ∈ X ∨ w ∈ Y
    · exact List.mem_append_right _ (List.mem_append.mpr h)
    · exact List.mem_append_left _ (List.mem_filter.mpr ⟨hw, by simpa [not_or] using h⟩)
  intro v hv
  exact ⟨key v (List.mem_filter.mp hv).1, fun u hu => key u (hG.di_mem _ (MG.mem_parents.mp hu)).1⟩

/-- **C01, second sentence.** The value of the estimand does not depend on any variable outside `X` and `Y` that
happens to occur free in it: two assignments that agree on `X ∪ Y` give the same value. -/
theorem id_free_irrelevant {topo : MG Name → Except Err (List Name)} (ts : TopoSound topo) (G : MG Name)
    (X Y : List Name) (hq : ValidQuery G X Y) (e : Expr) (h : identify topo G X Y = .ok e)
    (M : Scm) (hM : M.Compatible G) (σ' σ τ : Val) (hστ : ∀ v ∈ X ++ Y, σ v = τ v) :
    den (M.env G) σ' e σ = den (M.env G) σ' e τ := by
  rw [id_sound ts G X Y hq e h M hM σ' σ, id_sound ts G X Y hq e h M hM σ' τ]
  exact doProb_dependsOnly hM hq.wf X Y σ τ hστ

/-- the same through the public wrapper `identify_outcomes` -/
theorem identifyOutcomes_sound {topo : MG Name → Except Err (List Name)} (ts : TopoSound topo) (G : MG Name)
    (X Y : List Name) (hq : ValidQuery G X Y) (e : Expr) (h : identifyOutcomes topo G X Y = .ok (some e))
    (M : Scm) (hM : M.Compatible G) (σ' σ : Val) : den (M.env G) σ' e σ = M.doProb G X Y σ := by
  unfold identifyOutcomes at h
  split at h
  · rename_i e' he
    simp only [Except.ok.injEq, Option.some.injEq] at h
    subst h
    exact id_sound ts G X Y hq _ he M hM σ' σ
  · cases h
  · cases h

/-- **C01, closed form**: with the executable sorter `ancTopo` (which provably returns linear extensions) and
acyclicity in its relational form, no assumption about `topological_sort` is left. -/
theorem id_sound_acyclic (G : MG Name) (X Y : List Name) (hG : G.WF) (hac : G.Acyclic)
    (hY : ∀ y ∈ Y, y ∈ G.nodes) (hne : Y ≠ []) (hdisj : ∀ y ∈ Y, y ∉ X) (e : Expr)
    (h : identify ancTopo G X Y = .ok e) (M : Scm) (hM : M.Compatible G) (σ' σ : Val) :
    den (M.env G) σ' e σ = M.doProb G X Y σ :=
  id_sound ancTopo_sound G X Y ⟨hG, MG.acyclic_ranked hG hac, hY, hne, hdisj⟩ e h M hM σ' σ

/-- line 1 of ID returns the marginal of the carried estimand -/
theorem step_line1 (topo : MG Name → Except Err (List Name)) (I : IdIn) (h : I.X = []) :
    step topo I = .ok (.done (IdDsl.sumSafe I.est (diff' I.G.nodes I.Y))) := by
  unfold step
  simp [h]

/-! ### non-vacuity -/

/-- the assumption about the topological sorter is satisfied by an executable function -/
example : TopoSound checkedTopo := checkedTopo_sound

/-- a compatible positive model exists: the chain `0 → 1` with two fair binary variables and no latent -/
def coinModel : Scm :=
  { card := fun _ => 2, lat := [], prior := fun _ _ => 1, latOf := fun _ => [], kern := fun _ _ => 1 / 2 }

example : coinModel.Compatible (MG.fromEdges [0, 1] [(0, 1)] []) := by
  refine ⟨fun _ => by simp [coinModel], by simp [coinModel], by simp [coinModel], by simp [coinModel], by simp [coinModel],
    by simp [coinModel], ?_, ?_, ?_, ?_⟩
  · intro v _ σ τ _; rfl
  · intro v _ σ; simp [coinModel]
  · intro v _ σ
    rw [sumVar_const _ _ _ _ (fun _ _ => rfl)]
    simp [coinModel]
  · intro v _ w _ _ h
    obtain ⟨u, hu, _⟩ := h
    simp [coinModel] at hu

/-- a valid query on which ID succeeds (line 2 then line 6/1 …): here the one-step case `X = ∅` -/
example : ValidQuery (MG.fromEdges [0, 1] [(0, 1)] []) [] [1] :=
  ⟨MG.wf_fromEdges _ _ _, ⟨fun v => v, by decide⟩, by decide, by decide, by decide⟩

/-- the napkin graph `W → R → X → Y`, `W ↔ X`, `W ↔ Y` (nodes 0, 1, 2, 3): the F3 witness -/
def napkinG : MG Name := MG.fromEdges [0, 1, 2, 3] [(0, 1), (1, 2), (2, 3)] [(0, 2), (0, 3)]

example : ValidQuery napkinG [2] [3] :=
  ⟨MG.wf_fromEdges _ _ _, ⟨fun v => v, by decide⟩, by decide, by decide, by decide⟩

/-- ID succeeds on the napkin query `P(Y | do(X))` (the run goes through lines 3, 7, 2 and 6, the path on which the
pinned code was wrong), with a topological sorter for which `TopoSound` is proved; so `id_sound` applies to a
non-trivial run: in every compatible model the returned estimand equals `P(y | do(x))` -/
example (M : Scm) (hM : M.Compatible napkinG) (σ' σ : Val) :
    ∃ e, identify checkedTopo napkinG [2] [3] = .ok e ∧
      den (M.env napkinG) σ' e σ = M.doProb napkinG [2] [3] σ := by
  have h : ∃ e, identify checkedTopo napkinG [2] [3] = .ok e := ⟨_, identifyF_ok _ 8 _ _ _ _ (by rfl)⟩
  obtain ⟨e, he⟩ := h
  exact ⟨e, he, id_sound checkedTopo_sound napkinG [2] [3]
    ⟨MG.wf_fromEdges _ _ _, ⟨fun v => v, by decide⟩, by decide, by decide, by decide⟩ e he M hM σ' σ⟩

/-- and the estimand is not the pinned code's `P(Y | X)` (a single probability term) -/
example : (match identifyF checkedTopo 8 napkinG [2] [3] with
    | .ok (.prob _ _ _) => false
    | .ok _ => true
    | .error _ => false) = true := by rfl

end Y0
