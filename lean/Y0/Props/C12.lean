/-
  Y0.Props.C12 — printing and parsing are inverse, printing is unambiguous (work in progress).
-/
import Y0.Model.PyEval

namespace Y0
namespace C12

/-- placeholder while the proofs are being built: the front-door estimand round-trips in the model -/
theorem frontdoor_roundtrip :
    let e : Expr := .sum (.prod [.prob none [Var.plain 1] [Var.plain 2], .prob none [Var.plain 2] []]) [Var.plain 2]
    PyEval.parseY0 (Print.expr e) = .ok e := by
  rfl

end C12
end Y0
