/-
  Y0.Props.C12 — printing and parsing are inverse, printing is unambiguous.

  Models: Y0.Model.Print (every `to_y0`, as a token printer), Y0.Model.PyParse (Python's expression grammar on
  those tokens), Y0.Model.PyEval (evaluation of the syntax tree over the DSL's builders and operators, i.e.
  `eval(s, {}, LOCALS)`).  `parse_y0(str(e))` is `PyEval.parseY0 (Print.expr e)`.
-/
import Y0.Lemmas.PrintExpr
import Y0.Lemmas.PrintEvalExpr
import Y0.Lemmas.PrintDenEval
import Y0.Lemmas.PrintBalanced
import Y0.Lemmas.PrintClosed
import Y0.Lemmas.PrintBuilders
import Y0.Lemmas.PrintBuiltEval
import Y0.Lemmas.DslKey

namespace Y0
namespace C12
open Print PyParse PyEval

/-! ## 0. the printed token list of ANY expression object has balanced, properly nested `( )` and `[ ]` -/

theorem print_balanced (e : Expr) : Print.balanced (Print.expr e) = true := (bal_exprM e .full).balanced

/-- … as a segment: scanning it from any bracket stack returns to that stack, whatever follows -/
theorem print_balanced_segment (e : Expr) (m : Mode) (stack rest : List Tok) :
    balancedFrom stack (exprM m e ++ rest) = balancedFrom stack rest := bal_exprM e m stack rest

/-! ## 1. printing is unambiguous: the printed tokens, read with Python's operator precedence, have exactly the
operator tree of the object -/

/-- continuation form: a printed expression (in any of the three printing modes) followed by ANY continuation that
cannot extend a `* / @` operand is read back as the object's tree, the continuation untouched -/
theorem parse_print_ast_cont (e : Expr) (hw : wf e = true) (m : Mode) (n : Nat) (rest : List Tok)
    (hn : 8 * (exprM m e).length + 5 ≤ n) (hr : StopFrom 3 rest) :
    pBin n 3 (exprM m e ++ rest) = .ok (astOf e, rest) :=
  (reads_all e hw).parses m n rest hn hr

/-- **printing is unambiguous**: Python's grammar (the model of it) parses `str(e)` and the syntax tree is the
operator tree of the object — no re-association, no operand captured by a neighbouring operator -/
theorem parse_print_ast (e : Expr) (hw : wf e = true) : parse (Print.expr e) = .ok (astOf e) :=
  ParsesAt.parse (((reads_all e hw).parses .full).lift_to (Nat.zero_le 3) (by omega))

/-- the same for the text `Sum.to_y0` embeds (`parens=False`) and for a denominator -/
theorem parse_print_ast_mode (e : Expr) (hw : wf e = true) (m : Mode) : parse (exprM m e) = .ok (astOf e) :=
  ParsesAt.parse (((reads_all e hw).parses m).lift_to (Nat.zero_le 3) (by omega))

/-- a printed variable is one operand of the `@` level whatever follows it (`,`, `|`, `)` …) -/
theorem parse_print_var (v : Var) (n : Nat) (rest : List Tok) (hn : 8 * (Print.var v).length + 5 ≤ n)
    (hr : StopFrom 3 rest) : pBin n 3 (Print.var v ++ rest) = .ok (astVar v, rest) :=
  parses_var v n rest hn hr

/-! ## 2. the object-equality clause: on the simple-division family parsing the printed form rebuilds the object

`lt` is the order `Product.safe` sorts with (any order: the pinned `_get_key` `PyEval.exprLt`, or the total key
`Expr.ltE` of Y0.Model.Dsl); `built lt e` are the invariants of objects reachable through the public builders when
every distribution / subscript list / range / Q-(co)domain mentions a name at most once; `simple e` is "every
division has division-free, non-constant operands and is not itself a factor of a product". -/

/-- evaluating the object's own operator tree with the DSL operators gives back the object -/
theorem eval_tree_eq (lt : Expr → Expr → Bool) (e : Expr) (hb : built lt e = true) (hs : simple e = true) :
    PyEval.eval lt (astOf e) = .ok (.expr e) :=
  eval_astOf lt e hb hs

/-- **parse ∘ print = id** on the simple-division family: `parse_y0(str(e)) == e` -/
theorem parse_print_eq (lt : Expr → Expr → Bool) (e : Expr) (hb : built lt e = true) (hs : simple e = true) :
    PyEval.parseY0 lt (Print.expr e) = .ok e := by
  unfold PyEval.parseY0 PyEval.evalExpr
  rw [parse_print_ast e (wf_of_built lt e hb)]
  simp only [eval_astOf lt e hb hs]

/-- … and the parsed object prints to the same text -/
theorem parse_print_same_text (lt : Expr → Expr → Bool) (e e' : Expr) (hb : built lt e = true) (hs : simple e = true)
    (hp : PyEval.parseY0 lt (Print.expr e) = .ok e') : Print.expr e' = Print.expr e := by
  rw [parse_print_eq lt e hb hs] at hp
  cases hp
  rfl

/-! ## 3. the meaning clause: for EVERY built expression (fractions of fractions, fraction factors, constants) parsing
the printed form succeeds and yields an object with the same denotation

`den env σ' e σ` (Y0.Spec.Sem) is the number `e` denotes in the family of distributions `env`; the statement needs no
hypothesis on `env` (not even positivity): the parser only re-associates products and rewrites
`a/b/(c/d) = a·d/(b·c)`, `a/(c/d) = a·d/c`, `a/b/c = a/(b·c)`, `x/One() = x`, which are identities of ℚ with `x/0 = 0`. -/

theorem parse_print_den (lt : Expr → Expr → Bool) (e : Expr) (hb : built lt e = true) :
    ∃ e', PyEval.parseY0 lt (Print.expr e) = .ok e' ∧
      ∀ (env : Env) (σ' σ : Y0.Val), den env σ' e' σ = den env σ' e σ := by
  unfold PyEval.parseY0 PyEval.evalExpr
  rw [parse_print_ast e (wf_of_built lt e hb)]
  by_cases hz : isZero e = true
  · have : e = .zero := by cases e <;> simp [isZero] at hz; rfl
    subst this
    exact ⟨.zero, rfl, fun _ _ _ => rfl⟩
  · have hz' : isZero e = false := by simpa using hz
    obtain ⟨e', he', _, hd⟩ := eval_astOf_den lt e hb (nz_of_built lt e hb hz')
    exact ⟨e', by simp only [he'], hd⟩

/-- the meaning clause with the object returned by the parser named explicitly -/
theorem parse_print_den_of (lt : Expr → Expr → Bool) (e e' : Expr) (hb : built lt e = true)
    (hp : PyEval.parseY0 lt (Print.expr e) = .ok e') (env : Env) (σ' σ : Y0.Val) :
    den env σ' e' σ = den env σ' e σ := by
  obtain ⟨e'', h1, h2⟩ := parse_print_den lt e hb
  rw [h1] at hp
  cases hp
  exact h2 env σ' σ

/-- parsing a printed built expression never fails (`NameError`, `SyntaxError`, `ZeroDivisionError`, `TypeError` …) -/
theorem parse_print_total (lt : Expr → Expr → Bool) (e : Expr) (hb : built lt e = true) :
    ∃ e', PyEval.parseY0 lt (Print.expr e) = .ok e' :=
  let ⟨e', h, _⟩ := parse_print_den lt e hb
  ⟨e', h⟩

/-! ## 4. `built` is closed under the operators: everything obtained from built operands with `*`, `/`, `Sum[…]`
is built again, so the three clauses above apply to it.  The sort order only has to be asymmetric (`pinned_order_asymm`:
the pinned `_get_key` order is; `total_order_asymm`: the total structural key `Expr.ltE` of the fixed code is).
Section 5 composes these closure theorems along the interpreter's dispatch into ONE statement over construction trees
(`built_of_eval`). -/

theorem built_closed_mul (lt : Expr → Expr → Bool) (hasym : Asymm lt) (a b c : Expr) (ha : built lt a = true)
    (hb : built lt b = true) (hc : PyEval.mul lt a b = .ok c) : built lt c = true :=
  built_mul lt hasym a b c ha hb hc

theorem built_closed_div (lt : Expr → Expr → Bool) (hasym : Asymm lt) (a b c : Expr) (ha : built lt a = true)
    (hb : built lt b = true) (hc : PyEval.div lt a b = .ok c) : built lt c = true :=
  built_div lt hasym a b c ha hb hc

theorem built_closed_sum (lt : Expr → Expr → Bool) (e c : Expr) (rs : List Var) (he : built lt e = true)
    (hinc : incBy Var.name rs = true) (hplain : rs.all plainVar = true) (hc : PyEval.sumSafe e rs = .ok c) :
    built lt c = true :=
  built_sumSafe lt e c rs he hinc hplain hc

/-- `+v`, `-v`, `~v` of a canonical variable is canonical -/
theorem canon_closed_sign (op : UOp) (v : Var) (h : canonVar v = true) : canonVar (PyEval.unopVar op v) = true :=
  canonVar_unop op v h

/-- `v @ args` of a canonical variable is canonical when old and new subscripts have pairwise distinct names -/
theorem canon_closed_at (v r : Var) (args : List Var) (hv : canonVar v = true)
    (hn : (v.ivs.map Iv.name ++ args.map Var.name).Nodup) (h : PyEval.varIntervene v args = .ok r) :
    canonVar r = true ∧ r.name = v.name :=
  canonVar_varIntervene v r args hv hn h

/-- `P(args…)` / `PP[pop](args…)`: canonical arguments with pairwise distinct names give a built probability -/
theorem built_closed_P (lt : Expr → Expr → Bool) (pop : Option Var) (args : List PyEval.Val) (e : Expr)
    (hcanon : ∀ v ∈ argVars args, canonVar v = true) (hnod : ((argVars args).map Var.name).Nodup)
    (hpop : canonPop pop = true) (h : PyEval.probSafe pop none args = .ok (.expr e)) : built lt e = true :=
  built_probSafe_plain lt pop args e hcanon hnod hpop h

/-- `P[ivs](args…)` / `PP[pop][ivs](args…)`: moreover the new subscripts have pairwise distinct, fresh names -/
theorem built_closed_P_ivs (lt : Expr → Expr → Bool) (pop : Option Var) (args : List PyEval.Val) (ivs : PyEval.Val) (is : List Var)
    (e : Expr) (hcanon : ∀ v ∈ argVars args, canonVar v = true) (hnod : ((argVars args).map Var.name).Nodup)
    (hpop : canonPop pop = true) (hivs : PyEval.hintVars ivs = .ok is) (hisN : (is.map Var.name).Nodup)
    (hfresh : ∀ v ∈ argVars args, ∀ i ∈ v.ivs, ∀ w ∈ is, i.name ≠ w.name)
    (h : PyEval.probSafe pop (some ivs) args = .ok (.expr e)) : built lt e = true :=
  built_probSafe_ivs lt pop args ivs is e hcanon hnod hpop hivs hisN hfresh h

/-- `Q[cod](dom…)`: non-empty domain and codomain of canonical variables with pairwise distinct names -/
theorem built_closed_Q (lt : Expr → Expr → Bool) (cod : PyEval.Val) (args : List PyEval.Val) (cs : List Var) (e : Expr)
    (hcod : PyEval.hintVars cod = .ok cs) (hcne : cs ≠ []) (hcN : (cs.map Var.name).Nodup)
    (hcc : ∀ v ∈ cs, canonVar v = true) (hcanon : ∀ v ∈ argVars args, canonVar v = true)
    (hnod : ((argVars args).map Var.name).Nodup) (hane : argVars args ≠ [])
    (h : PyEval.qSafe cod args = .ok (.expr e)) : built lt e = true :=
  built_qSafe lt cod args cs e hcod hcne hcN hcc hcanon hnod hane h

/-- the order of the pinned `_get_key` is asymmetric, so the closure theorems apply to it -/
theorem pinned_order_asymm : Asymm PyEval.exprLt := asymm_exprLt

/-- the order of the FIXED `_get_key` (total structural key, `Expr.ltE` of Y0.Model.Dsl, commit 1603f97) is asymmetric
(it is a strict total order: `C11.key_total`), so the closure theorems apply to it: this is the order of the code
under test -/
theorem total_order_asymm : Asymm Expr.ltE := fun _ _ h => Expr.ltE_asymm h

/-- `a * b` and `a / b` of built, `Zero()`-free operands never raise and mean product and quotient -/
theorem mul_total_den (lt : Expr → Expr → Bool) (a b : Expr) (ha : nz a = true) (hb : nz b = true) :
    ∃ c, PyEval.mul lt a b = .ok c ∧ ∀ (env : Env) (σ' σ : Y0.Val), den env σ' c σ = den env σ' a σ * den env σ' b σ :=
  let ⟨c, h1, _, h3⟩ := mul_ok lt a ha b hb
  ⟨c, h1, h3⟩

theorem div_total_den (lt : Expr → Expr → Bool) (a b : Expr) (ha : nz a = true) (hb : nz b = true) :
    ∃ c, PyEval.div lt a b = .ok c ∧ ∀ (env : Env) (σ' σ : Y0.Val), den env σ' c σ = den env σ' a σ / den env σ' b σ :=
  let ⟨c, h1, _, h3⟩ := div_ok lt a b ha hb
  ⟨c, h1, h3⟩

/-! ## 5. every expression BUILT THROUGH THE PUBLIC DSL is in the domain of the theorems

A construction is a syntax tree over the public builders and operators (`P`, `PP`, `Sum`, `Q`, `One`, `Zero`, names,
`+ - ~ @ | & * /`, calls, subscripts, tuples); `PyEval.evalExpr lt a` is the object the DSL builds from it.
`namesOnce a` is the property's own restriction "each distribution mentioning a variable name at most once" as a
decidable predicate ON THE TREE (no evaluation): every argument list of a call, every `a | b`, `a & b`, every tuple,
every `@`-argument and every `[…]` subscript (`P[…]`, `Sum[…]`, `Q[…]`) writes a name at most once, and tuples are
non-empty (so Q factors have a domain).  The harness decides `namesOnce` on every generated construction, with an
independent Python implementation compared against this one. -/

/-- **`built_of_eval`**: every expression object the interpreter produces from a `namesOnce` construction tree is
`built` (hence well-formed): the composition of the closure theorems of section 4 along `PyEval.eval`'s dispatch -/
theorem built_of_eval (lt : Expr → Expr → Bool) (hasym : Asymm lt) (a : Ast) (e : Expr)
    (hn : PyEval.namesOnce a = true) (h : PyEval.evalExpr lt a = .ok e) : built lt e = true ∧ wf e = true :=
  have hb := built_of_evalExpr lt hasym a e hn h
  ⟨hb, wf_of_built lt e hb⟩

/-- the invariant behind it, for EVERY value the interpreter produces at any node (variables, distributions, tuples,
partially applied builders): variables canonical with pairwise distinct names that are written in the tree -/
theorem eval_invariant (lt : Expr → Expr → Bool) (hasym : Asymm lt) (a : Ast) (v : PyEval.Val)
    (hn : PyEval.namesOnce a = true) (h : PyEval.eval lt a = .ok v) : GoodV lt a v :=
  goodv_eval lt hasym a v hn h

/-- **the meaning clause over constructions**: whatever a `namesOnce` construction builds, parsing its printed form
succeeds and yields an object with the same denotation -/
theorem construction_parse_print_den (lt : Expr → Expr → Bool) (hasym : Asymm lt) (a : Ast) (e : Expr)
    (hn : PyEval.namesOnce a = true) (h : PyEval.evalExpr lt a = .ok e) :
    ∃ e', PyEval.parseY0 lt (Print.expr e) = .ok e' ∧
      ∀ (env : Env) (σ' σ : Y0.Val), den env σ' e' σ = den env σ' e σ :=
  parse_print_den lt e (built_of_eval lt hasym a e hn h).1

/-- **printing is unambiguous over constructions** -/
theorem construction_parse_print_ast (lt : Expr → Expr → Bool) (hasym : Asymm lt) (a : Ast) (e : Expr)
    (hn : PyEval.namesOnce a = true) (h : PyEval.evalExpr lt a = .ok e) : parse (Print.expr e) = .ok (astOf e) :=
  parse_print_ast e (built_of_eval lt hasym a e hn h).2

/-- **the object-equality clause over constructions**: when the built object is in the simple-division family, the
parser returns that object, which prints the same text -/
theorem construction_parse_print_eq (lt : Expr → Expr → Bool) (hasym : Asymm lt) (a : Ast) (e : Expr)
    (hn : PyEval.namesOnce a = true) (h : PyEval.evalExpr lt a = .ok e) (hs : simple e = true) :
    PyEval.parseY0 lt (Print.expr e) = .ok e :=
  parse_print_eq lt e (built_of_eval lt hasym a e hn h).1 hs

/-! ### the instances for the order of the code under test (`Expr.ltE`, total key) and for the pinned order -/

theorem built_of_eval_total (a : Ast) (e : Expr) (hn : PyEval.namesOnce a = true)
    (h : PyEval.evalExpr Expr.ltE a = .ok e) : built Expr.ltE e = true ∧ wf e = true :=
  built_of_eval Expr.ltE total_order_asymm a e hn h

theorem built_of_eval_pinned (a : Ast) (e : Expr) (hn : PyEval.namesOnce a = true)
    (h : PyEval.evalExpr PyEval.exprLt a = .ok e) : built PyEval.exprLt e = true ∧ wf e = true :=
  built_of_eval PyEval.exprLt pinned_order_asymm a e hn h

/-- the three clauses for the code under test, over constructions -/
theorem construction_roundtrip_total (a : Ast) (e : Expr) (hn : PyEval.namesOnce a = true)
    (h : PyEval.evalExpr Expr.ltE a = .ok e) :
    parse (Print.expr e) = .ok (astOf e) ∧
    (∃ e', PyEval.parseY0 Expr.ltE (Print.expr e) = .ok e' ∧
      ∀ (env : Env) (σ' σ : Y0.Val), den env σ' e' σ = den env σ' e σ) ∧
    (simple e = true → PyEval.parseY0 Expr.ltE (Print.expr e) = .ok e) :=
  ⟨construction_parse_print_ast _ total_order_asymm a e hn h, construction_parse_print_den _ total_order_asymm a e hn h,
   construction_parse_print_eq _ total_order_asymm a e hn h⟩

theorem built_closed_mul_total (a b c : Expr) (ha : built Expr.ltE a = true) (hb : built Expr.ltE b = true)
    (hc : PyEval.mul Expr.ltE a b = .ok c) : built Expr.ltE c = true :=
  built_closed_mul Expr.ltE total_order_asymm a b c ha hb hc

theorem built_closed_div_total (a b c : Expr) (ha : built Expr.ltE a = true) (hb : built Expr.ltE b = true)
    (hc : PyEval.div Expr.ltE a b = .ok c) : built Expr.ltE c = true :=
  built_closed_div Expr.ltE total_order_asymm a b c ha hb hc

theorem parse_print_eq_total (e : Expr) (hb : built Expr.ltE e = true) (hs : simple e = true) :
    PyEval.parseY0 Expr.ltE (Print.expr e) = .ok e := parse_print_eq Expr.ltE e hb hs

theorem parse_print_den_total (e : Expr) (hb : built Expr.ltE e = true) :
    ∃ e', PyEval.parseY0 Expr.ltE (Print.expr e) = .ok e' ∧
      ∀ (env : Env) (σ' σ : Y0.Val), den env σ' e' σ = den env σ' e σ := parse_print_den Expr.ltE e hb

theorem parse_print_same_text_total (e e' : Expr) (hb : built Expr.ltE e = true) (hs : simple e = true)
    (hp : PyEval.parseY0 Expr.ltE (Print.expr e) = .ok e') : Print.expr e' = Print.expr e :=
  parse_print_same_text Expr.ltE e e' hb hs hp

theorem parse_print_never_fails_total (e : Expr) (hb : built Expr.ltE e = true) :
    ∃ e', PyEval.parseY0 Expr.ltE (Print.expr e) = .ok e' := parse_print_total Expr.ltE e hb

theorem mul_total_den_total (a b : Expr) (ha : nz a = true) (hb : nz b = true) :
    ∃ c, PyEval.mul Expr.ltE a b = .ok c ∧
      ∀ (env : Env) (σ' σ : Y0.Val), den env σ' c σ = den env σ' a σ * den env σ' b σ := mul_total_den Expr.ltE a b ha hb

theorem div_total_den_total (a b : Expr) (ha : nz a = true) (hb : nz b = true) :
    ∃ c, PyEval.div Expr.ltE a b = .ok c ∧
      ∀ (env : Env) (σ' σ : Y0.Val), den env σ' c σ = den env σ' a σ / den env σ' b σ := div_total_den Expr.ltE a b ha hb

/-- the object-equality clause over constructions, with the text: what the code under test builds from a `namesOnce`
construction in the simple-division family is returned by the parser and prints the same text -/
theorem construction_same_text_total (a : Ast) (e e' : Expr) (hn : PyEval.namesOnce a = true)
    (h : PyEval.evalExpr Expr.ltE a = .ok e) (hs : simple e = true)
    (hp : PyEval.parseY0 Expr.ltE (Print.expr e) = .ok e') : e' = e ∧ Print.expr e' = Print.expr e := by
  have hb := (built_of_eval_total a e hn h).1
  rw [parse_print_eq_total e hb hs] at hp
  cases hp
  exact ⟨rfl, rfl⟩

/-! ### reconciliation with the `expr` family's model of the constructors (Y0.Model.Dsl, C10/C11/C13)

`PyEval` is self-contained and parametric in the order; instantiated at `Expr.ltE` its `Product.safe` IS the one of
Y0.Model.Dsl (both sort with the same stable insertion sort), so "the order of the code under test" above is the order
C11's `key_total` speaks about. -/

theorem sortBy_eq_sortStable {α} (lt : α → α → Bool) (l : List α) : sortBy lt l = sortStable lt l := by
  have hins : ∀ (x : α) (l : List α), insertBy lt x l = insertStable lt x l := by
    intro x l
    induction l with
    | nil => rfl
    | cons y ys ih => simp [insertBy, insertStable, ih]
  induction l with
  | nil => rfl
  | cons x xs ih =>
    show insertBy lt x (sortBy lt xs) = insertStable lt x (sortStable lt xs)
    rw [ih, hins]

theorem productSafe_agrees (es : List Expr) : PyEval.productSafe Expr.ltE es = Y0.productSafe es := by
  have h1 : (fun e => !PyEval.isOne e) = (fun e : Expr => !e.isOne) := by
    funext e; cases e <;> rfl
  have h2 : PyEval.isZero = Expr.isZero := by
    funext e; cases e <;> rfl
  unfold PyEval.productSafe Y0.productSafe
  simp only [h1, h2]
  cases List.filter (fun e => !e.isOne) es with
  | nil => rfl
  | cons a r =>
    cases r with
    | nil => rfl
    | cons b r' => simp only [sortBy_eq_sortStable]

/-! non-vacuity of section 5: the front-door estimand written with the public DSL,
`Sum[Z](P(Z | X) * Sum[X](P(Y | (X, Z)) * P(X)))`, a counterfactual query `P[X](Y @ +Z | W) / Q[A, B](C)` and a
construction outside `namesOnce` (`P(A, A)`) -/

def frontdoorTree : Ast :=
  .call (.sub (.kw .Sum) (.name 3))
    [.bin .mul (.call (.kw .P) [.bin .bor (.name 3) (.name 1)])
      (.call (.sub (.kw .Sum) (.name 1))
        [.bin .mul (.call (.kw .P) [.bin .bor (.name 2) (.tuple [.name 1, .name 3])]) (.call (.kw .P) [.name 1])])]

def cfTree : Ast :=
  .bin .div (.call (.sub (.kw .P) (.name 1)) [.bin .bor (.bin .matmul (.name 2) (.un .pos (.name 3))) (.name 4)])
    (.call (.sub (.kw .Q) (.tuple [.name 5, .name 6])) [.name 7])

example : PyEval.namesOnce frontdoorTree = true := by decide
example : PyEval.namesOnce cfTree = true := by decide
example : PyEval.namesOnce (.call (.kw .P) [.name 1, .name 1]) = false := by decide
example : ∃ e, PyEval.evalExpr Expr.ltE frontdoorTree = .ok e ∧ built Expr.ltE e = true ∧ simple e = true := by
  refine ⟨_, rfl, ?_, ?_⟩ <;> decide
example : ∃ e, PyEval.evalExpr Expr.ltE cfTree = .ok e ∧ built Expr.ltE e = true := ⟨_, rfl, by decide⟩
example : ∃ e, PyEval.evalExpr PyEval.exprLt frontdoorTree = .ok e ∧ built PyEval.exprLt e = true := ⟨_, rfl, by decide⟩

/-! non-vacuity: a well-formed expression with a product denominator, a fraction factor, a level-2 probability and a
counterfactual variable; its printed form and its tree -/

def sample : Expr :=
  .prod [.sum (.frac (.prob none [Var.plain 0] [Var.plain 1]) (.prod [.prob none [Var.plain 1] [], .one])) [Var.plain 1],
         .frac (.prob none [{ name := 2, ivs := [⟨3, true⟩, ⟨4, false⟩] }] []) (.q [Var.plain 5] [Var.plain 6])]

example : wf sample = true := by decide
example : parse (Print.expr sample) = .ok (astOf sample) := parse_print_ast sample (by decide)

/-- front-door estimand with a level-2 term and a fraction under a sum: in the simple-division family -/
def sample2 : Expr :=
  .sum (.prod [.prob none [Var.plain 2] [Var.plain 5],
               .sum (.frac (.prob none [{ name := 7, ivs := [⟨5, false⟩] }] [{ name := 2, ivs := [⟨5, false⟩] }])
                           (.prod [.q [Var.plain 1] [Var.plain 3], .prob none [Var.plain 2] []])) [Var.plain 5]])
       [Var.plain 2]

/-- outside the simple-division family: a fraction as a factor of a product, a fraction of fractions, `One()` as an
operand; the parser returns a different object with the same meaning -/
def sample3 : Expr :=
  .prod [.sum (.prob none [Var.plain 1] []) [Var.plain 1],
         .frac (.frac .one (.prob none [Var.plain 2] [])) (.frac (.prob none [Var.plain 3] []) (.prob none [Var.plain 4] []))]

example : built PyEval.exprLt sample3 = true := by decide
example : simple sample3 = false := by decide
example : ∃ e', PyEval.parseY0 PyEval.exprLt (Print.expr sample3) = .ok e' := parse_print_total _ sample3 (by decide)

example : built PyEval.exprLt sample2 = true := by decide
example : built Expr.ltE sample2 = true := by decide
example : built Expr.ltE sample3 = true := by decide
example : PyEval.parseY0 Expr.ltE (Print.expr sample2) = .ok sample2 := parse_print_eq_total sample2 (by decide) (by decide)
example : simple sample2 = true := by decide
example : PyEval.parseY0 PyEval.exprLt (Print.expr sample2) = .ok sample2 :=
  parse_print_eq _ sample2 (by decide) (by decide)

end C12
end Y0
