/-
  Property C19 — counterfactual minimisation, SIMPLIFY, counterfactual ancestors, ancestral components, ctf-factor
  factorisation.  (first theorems; extended below as the development proceeds)
-/
import Y0.Model.Ctf
import Y0.Model.CtfSimplify
import Y0.Model.CtfFactor

namespace Y0.Ctf

/-- a `CounterfactualVariable` produced by the constructor has at least one intervention -/
theorem mkCf_ok (n : Name) (s : Option Bool) (ivs : List Iv) (v : Var) (h : mkCf n s ivs = .ok v) :
    v.ivs ≠ [] ∧ v.name = n ∧ v.star = s := by
  unfold mkCf at h
  split at h
  · cases h
  · rename_i hne
    cases h
    refine ⟨?_, rfl, rfl⟩
    intro h0; exact hne (by simpa using h0)

end Y0.Ctf
