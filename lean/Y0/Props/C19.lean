/-
  Property C19 — counterfactual minimisation, SIMPLIFY, counterfactual ancestors, ancestral components and the
  ctf-factor factorisation (Correa, Lee, Bareinboim 2022) as implemented in
  src/y0/algorithm/counterfactual_transport/{ancestor_utils,api}.py.

  Only property theorems and non-vacuity examples live here; helper lemmas are in Y0/Lemmas/Ctf*.lean.
  Every theorem is about the executable models Y0.Model.{Ctf,CtfSimplify,CtfFactor}, which the correspondence check
  (harness/props/c19.py) compares with the real functions on every run.

  Reading guide.  `AncBar g X y a` : a ∈ An(y) in G with the edges INTO X removed;  `AncUnder g X y a` : … OUT OF X removed;
  `IsMinimised`, `IsCtfAncestor`, `FactorForm`, `Linked`, `SameComponent` are the relational definitions of
  Y0/Spec/CtfSpec.lean.  `g.WF` is what `NxMixedGraph.from_edges` guarantees (`MG.wf_fromEdges`).
-/
import Y0.Lemmas.Ctf
import Y0.Lemmas.CtfScm
import Y0.Lemmas.CtfComponents
import Y0.Lemmas.CtfSimplify
import Y0.Lemmas.CtfFactor
import Y0.Lemmas.CtfAncSpec
import Y0.Lemmas.CtfDenValue
import Y0.Lemmas.CtfCond
import Y0.Lemmas.CtfSimplifyRefl

namespace Y0.Ctf
open Relation Y0.MG

/-! ## 1. minimisation ‖Y_x‖ : total, well formed, equal to the published definition -/

/-- a `CounterfactualVariable` produced by the constructor has at least one intervention -/
theorem mkCf_ok (n : Name) (s : Option Bool) (ivs : List Iv) (v : Var) (h : mkCf n s ivs = .ok v) :
    v.ivs ≠ [] ∧ v = { name := n, star := s, ivs := ivs } := by
  unfold mkCf at h
  split at h
  · cases h
  · rename_i hne
    cases h
    exact ⟨fun h0 => hne (by simpa using h0), rfl⟩

/-- what `minimize` returns, spelled out: a non-counterfactual input is returned unchanged; otherwise the result has the
same name and value mark and keeps exactly the interventions on `T = X ∩ An(Y)_{G_{\overline X}}` -/
theorem minimize_eq (g : MG Name) (v w : Var) (h : minimize g v = .ok w) :
    (v.isCf = false ∧ w = v) ∨
    (v.isCf = true ∧ ∃ A, (g.removeInEdges (ivNames v)).ancestorsInclusive [v.name] = .ok A ∧
      w = { name := v.name, star := v.star,
            ivs := v.ivs.filter (fun i => decide (i.name ∈ (ivNames v).filter (fun x => decide (x ∈ A)))) }) := by
  unfold minimize at h
  split at h
  · rename_i hcf
    left
    simp only [Bool.not_eq_eq_eq_not, Bool.not_true] at hcf
    exact ⟨hcf, by cases h; rfl⟩
  · rename_i hcf
    right
    simp only [Bool.not_eq_eq_eq_not, Bool.not_true, Bool.not_eq_false] at hcf
    refine ⟨hcf, ?_⟩
    simp only [bind, Except.bind] at h
    cases hA : (g.removeInEdges (ivNames v)).ancestorsInclusive [v.name] with
    | error e => rw [hA] at h; cases h
    | ok A =>
      rw [hA] at h
      refine ⟨A, rfl, ?_⟩
      simp only at h
      split at h
      · rename_i hemp
        simp only [pure, Except.pure, Except.ok.injEq] at h
        rw [← h]
        simp only [List.isEmpty_iff] at hemp
        rw [hemp]
      · obtain ⟨_, hw⟩ := mkCf_ok _ _ _ _ h
        exact hw

/-- **F8a (totality).**  On a graph built by `from_edges`, minimising a variable whose name is a node never fails:
in particular a subscript set none of which is an ancestor of the variable yields the plain variable. -/
theorem minimize_total (g : MG Name) (hg : g.WF) (v : Var) (hv : v.name ∈ g.nodes) :
    ∃ w, minimize g v = .ok w := by
  unfold minimize
  split
  · exact ⟨v, rfl⟩
  · obtain ⟨A, hA⟩ := ancestorsInclusive_total (g.removeInEdges (ivNames v)) [v.name]
      (by intro s hs; simp only [List.mem_singleton] at hs; subst hs
          exact (mem_nodes_removeInEdges g hg _ _).2 hv)
    simp only [bind, Except.bind, hA]
    split
    · exact ⟨_, rfl⟩
    · rename_i hne
      unfold mkCf
      simp only [hne]
      exact ⟨_, rfl⟩

/-- the only failure of `minimize` is the `NetworkXError` for a name that is not a node -/
theorem minimize_error (g : MG Name) (hg : g.WF) (v : Var) (e : Err) (h : minimize g v = .error e) :
    v.name ∉ g.nodes ∧ e = .internal "NetworkXError" := by
  by_cases hv : v.name ∈ g.nodes
  · obtain ⟨w, hw⟩ := minimize_total g hg v hv
    rw [hw] at h; cases h
  · refine ⟨hv, ?_⟩
    unfold minimize at h
    split at h
    · cases h
    · have herr := ancestorsInclusive_error (g.removeInEdges (ivNames v)) [v.name]
        (by intro hall; exact hv ((mem_nodes_removeInEdges g hg _ _).1 (hall _ (by simp))))
      simp only [bind, Except.bind, herr] at h
      cases h; rfl

/-- **well-formedness.**  The result of `minimize` has the name and value mark of the input, its interventions are
among those of the input, and it is a `CounterfactualVariable` (never flagged as an `Intervention`) exactly when
some intervention survives; with no surviving intervention it is the plain `Variable(name, star)`. -/
theorem minimize_wf (g : MG Name) (v w : Var) (h : minimize g v = .ok w) :
    w.name = v.name ∧ w.star = v.star ∧ (∀ i ∈ w.ivs, i ∈ v.ivs) ∧
    (v.isCf = true → w.isIv = false) ∧ (v.isCf = false → w = v) := by
  rcases minimize_eq g v w h with ⟨hcf, rfl⟩ | ⟨hcf, A, _, rfl⟩
  · refine ⟨rfl, rfl, fun _ hi => hi, ?_, fun _ => rfl⟩
    intro h'; rw [hcf] at h'; cases h'
  · refine ⟨rfl, rfl, fun i hi => (List.mem_filter.1 hi).1, fun _ => rfl, ?_⟩
    intro h'; rw [hcf] at h'; cases h'

/-- **‖Y_x‖ is the published definition.**  For a counterfactual variable the surviving interventions are exactly those on
`T = X ∩ An(Y)_{G_{\overline X}}`. -/
theorem minimize_spec (g : MG Name) (v w : Var) (hcf : v.isCf = true) (h : minimize g v = .ok w) :
    IsMinimised g v w := by
  rcases minimize_eq g v w h with ⟨hcf', _⟩ | ⟨_, A, hA, rfl⟩
  · rw [hcf] at hcf'; cases hcf'
  · refine ⟨rfl, rfl, fun i => ?_⟩
    simp only [List.mem_filter, decide_eq_true_eq, mem_ivNames]
    rw [mem_anc_removeIn g _ _ _ hA, ancBar_congr g (ivNames v) (subNames v) (mem_ivNames v)]
    constructor
    · rintro ⟨hi, _, hanc⟩; exact ⟨hi, hanc⟩
    · rintro ⟨hi, hanc⟩; exact ⟨hi, List.mem_map.2 ⟨i, hi, rfl⟩, hanc⟩

/-- **interventional minimality.**  Minimising is idempotent: the result has no further causally irrelevant subscript. -/
theorem minimize_idem (g : MG Name) (hg : g.WF) (v w : Var) (hv : v.name ∈ g.nodes) (h : minimize g v = .ok w) :
    minimize g w = .ok w := by
  have hwf := minimize_wf g v w h
  obtain ⟨w', hw'⟩ := minimize_total g hg w (by rw [hwf.1]; exact hv)
  rw [hw']
  congr 1
  rcases minimize_eq g w w' hw' with ⟨_, rfl⟩ | ⟨hcfw, A', hA', rfl⟩
  · rfl
  · -- `w` is counterfactual, hence so is `v`, and `w.ivs` is the filtered list
    have hcfv : v.isCf = true := by
      by_contra hn
      have : w = v := hwf.2.2.2.2 (by simpa using hn)
      subst this; exact hn hcfw
    have hmin := minimize_spec g v w hcfv h
    have hfilter : w.ivs.filter (fun i => decide (i.name ∈ (ivNames w).filter (fun x => decide (x ∈ A')))) = w.ivs := by
      rw [List.filter_eq_self]
      intro i hi
      simp only [List.mem_filter, decide_eq_true_eq, mem_ivNames]
      refine ⟨List.mem_map.2 ⟨i, hi, rfl⟩, ?_⟩
      rw [mem_anc_removeIn g _ _ _ hA', ancBar_congr g (ivNames w) (subNames w) (mem_ivNames w), hmin.1]
      refine ancBar_mono g (subNames v) (subNames w) ?_ _ _ ((hmin.2.2 i).1 hi).2
      intro x hx
      obtain ⟨j, hj, rfl⟩ := List.mem_map.1 hx
      exact List.mem_map.2 ⟨j, ((hmin.2.2 j).1 hj).1, rfl⟩
    rw [hfilter]
    have hiv : w.isIv = false := hwf.2.2.2.1 hcfv
    cases w
    simp only [Var.mk.injEq, true_and, and_true]
    exact hiv.symm

/-- **same random variable.**  In every functional SCM compatible with the graph, under every reading of the value
symbols, the minimised variable `‖Y_x‖ = Y_t` and `Y_x` take the same value at every noise point: a subscript that is
not an ancestor of `Y` in `G_{\overline X}` cannot influence `Y` once the rest of `x` is fixed.  (Induction along the
evaluation order over the set `An(Y)_{G_{\overline X}}`, `solve_agree`.) -/
theorem minimize_same_rv (g : MG Name) (v w : Var) (h : minimize g v = .ok w)
    (M : Fscm.Model) (hM : Fscm.Compatible M g) (ν : Fscm.BaseValues) :
    Fscm.SameRV M v.name (Fscm.worldOf ν v.ivs) w.name (Fscm.worldOf ν w.ivs) := by
  rcases minimize_eq g v w h with ⟨_, rfl⟩ | ⟨_, A, hA, rfl⟩
  · intro u; rfl
  · intro u
    simp only
    -- the filter only looks at the name of an intervention
    let q : Name → Bool := fun a => decide (a ∈ (ivNames v).filter (fun x => decide (x ∈ A)))
    have hq : ∀ a, q a = true ↔ a ∈ subNames v ∧ AncBar g (subNames v) v.name a := by
      intro a
      simp only [q, decide_eq_true_eq, List.mem_filter, mem_ivNames]
      rw [mem_anc_removeIn g _ _ _ hA, ancBar_congr g (ivNames v) (subNames v) (mem_ivNames v)]
    apply solve_agree M u _ _ (AncBar g (subNames v) v.name)
    · intro a ha
      by_cases hax : a ∈ subNames v
      · exact (forced_worldOf_filter ν v.ivs q a ((hq a).2 ⟨hax, ha⟩)).symm
      · rw [forced_worldOf_none ν v.ivs a hax, forced_worldOf_none]
        intro hmem
        obtain ⟨i, hi, rfl⟩ := List.mem_map.1 hmem
        exact hax (List.mem_map.2 ⟨i, (List.mem_filter.1 hi).1, rfl⟩)
    · intro a ha hnone p hp
      have hax : a ∉ subNames v := by
        intro hmem
        obtain ⟨x, hx⟩ := forced_worldOf_mem ν v.ivs a hmem
        rw [hx] at hnone; cases hnone
      exact ReflTransGen.head ⟨hM.pa_sub a p hp, hax⟩ ha
    · exact hM.nodup
    · exact hM.topo
    · exact ReflTransGen.refl

/-! ## 2. ancestors of a counterfactual variable (Def. 2.1) -/

/-- the element of `An(Y_x)` built for the graph ancestor `a` -/
theorem ancestorVar_eq (gin : MG Name) (v : Var) (a : Name) (w : Var) (h : ancestorVar gin v a = .ok w) :
    ∃ Aa, gin.ancestorsInclusive [a] = .ok Aa ∧
      w = { name := a, ivs := v.ivs.filter (fun i => decide (i.name ∈ Aa)) } :=
  ancestorVar_eq' gin v a w h

/-- **Def. 2.1, soundness and completeness.**  For a counterfactual variable `Y_x` the model returns exactly the
variables `W_z` with `W ∈ An(Y)_{G_{\underline X}}` and `z = x ∩ An(W)_{G_{\overline X}}` (completeness up to `==` of
the Python objects, i.e. up to the order in which a frozenset of interventions is listed). -/
theorem ctf_ancestors_spec (g : MG Name) (hg : g.WF) (v : Var) (hcf : v.isCf = true) (A : List Var)
    (h : ctfAncestors g v = .ok A) :
    (∀ w ∈ A, IsCtfAncestor g v w) ∧ (∀ w, IsCtfAncestor g v w → ∃ w' ∈ A, SameVar w' w) :=
  ctf_ancestors_spec' g hg v hcf A h

/-- a variable without subscripts: its counterfactual ancestors are its graph ancestors, as plain variables -/
theorem ctf_ancestors_plain (g : MG Name) (hg : g.WF) (y : Name) (A : List Var)
    (h : ctfAncestors g (Var.plain y) = .ok A) (w : Var) :
    w ∈ A ↔ ∃ a, g.Anc [y] a ∧ w = Var.plain a :=
  ctf_ancestors_plain' g hg y A h w

/-- **totality.**  `get_ancestors_of_counterfactual` succeeds on every counterfactual variable whose name is a node. -/
theorem ctf_ancestors_total (g : MG Name) (hg : g.WF) (v : Var) (hcf : v.isCf = true) (hv : v.name ∈ g.nodes) :
    ∃ A, ctfAncestors g v = .ok A := by
  unfold ctfAncestors
  simp only [hcf, Bool.not_true, Bool.false_eq_true, ↓reduceIte, bind, Except.bind]
  obtain ⟨U, hU⟩ := ancestorsInclusive_total (g.removeOutEdges (ivNames v)) [v.name]
    (by intro s hs; simp only [List.mem_singleton] at hs; subst hs
        exact (mem_nodes_removeOutEdges g hg _ _).2 hv)
  rw [hU]
  apply mapM_ok_of_forall
  intro a ha
  have han : a ∈ g.nodes :=
    ancUnder_mem_nodes g hg _ _ _ hv ((mem_anc_removeOut g _ _ _ hU a).1 ha)
  obtain ⟨Aa, hAa⟩ := ancestorsInclusive_total (g.removeInEdges (ivNames v)) [a]
    (by intro s hs; simp only [List.mem_singleton] at hs; subst hs
        exact (mem_nodes_removeInEdges g hg _ _).2 han)
  refine ⟨if (v.ivs.filter (fun i => decide (i.name ∈ Aa))).isEmpty then Var.plain a
      else { name := a, ivs := v.ivs.filter (fun i => decide (i.name ∈ Aa)) }, ?_⟩
  unfold ancestorVar
  simp only [bind, Except.bind, hAa, pure, Except.pure]

/-! ## 3. ctf-factor form (Def. 3.4) and conversion to it -/

/-- the per-variable test of `is_counterfactual_factor_form` is the relational `FactorForm`: every parent is
intervened on and the variable itself is not (for a variable without subscripts: it has no parent) -/
theorem factorFormVar_spec (g : MG Name) (v : Var) :
    factorFormVar (g.parents v.name) v = true ↔ FactorForm g v := by
  unfold factorFormVar FactorForm subNames
  by_cases hcf : v.isCf = true
  · simp only [hcf, ↓reduceIte, Bool.and_eq_true, Bool.not_eq_eq_eq_not, Bool.not_true, List.any_eq_false,
      beq_iff_eq, List.all_eq_true, List.any_eq_true, mem_parents, List.mem_map, not_exists, not_and]
    constructor
    · rintro ⟨h1, h2⟩
      refine ⟨fun p hp => ?_, fun i hi => h1 i hi⟩
      obtain ⟨i, hi, rfl⟩ := h2 p hp
      exact ⟨i, hi, rfl⟩
    · rintro ⟨h1, h2⟩
      refine ⟨fun i hi => h2 i hi, fun p hp => ?_⟩
      obtain ⟨i, hi, rfl⟩ := h1 p hp
      exact ⟨i, hi, rfl⟩
  · have hnil : v.ivs = [] := by
      simp only [Var.isCf, Bool.not_eq_eq_eq_not] at hcf
      simpa using hcf
    simp only [hcf, Bool.false_eq_true, ↓reduceIte, List.isEmpty_iff, hnil, List.map_nil, List.not_mem_nil,
      not_false_eq_true, and_true]
    constructor
    · intro h p hp
      have : p ∈ g.parents v.name := (mem_parents g p v.name).2 hp
      rw [h] at this; simp at this
    · intro h
      cases hp : g.parents v.name with
      | nil => rfl
      | cons p ps =>
        exact absurd ((mem_parents g p v.name).1 (by rw [hp]; simp)) (fun hh => by simpa using h p hh)

/-- **ctf-factor form.**  When every variable of the event is a node, `is_counterfactual_factor_form` answers, and it
answers `True` exactly when every variable satisfies `FactorForm`. -/
theorem factor_form_spec (g : MG Name) (ev : List Var) (hall : ∀ v ∈ ev, v.name ∈ g.nodes) :
    ∃ b, isCtfFactorForm g ev = .ok b ∧ (b = true ↔ ∀ v ∈ ev, FactorForm g v) := by
  induction ev with
  | nil => exact ⟨true, rfl, by simp⟩
  | cons v rest ih =>
    obtain ⟨b, hb, hbiff⟩ := ih (fun x hx => hall x (by simp [hx]))
    have hv : v.name ∈ g.nodes := hall v (by simp)
    unfold isCtfFactorForm
    simp only [predecessors, hv, ↓reduceIte, bind, Except.bind]
    by_cases hf : factorFormVar (g.parents v.name) v = true
    · simp only [hf, ↓reduceIte]
      refine ⟨b, hb, ?_⟩
      rw [hbiff]
      simp only [List.mem_cons, forall_eq_or_imp]
      exact ⟨fun h => ⟨(factorFormVar_spec g v).1 hf, h⟩, fun h => h.2⟩
    · simp only [hf, Bool.false_eq_true, ↓reduceIte, pure, Except.pure]
      refine ⟨false, rfl, ?_⟩
      simp only [Bool.false_eq_true, List.mem_cons, forall_eq_or_imp, false_iff, not_and]
      intro h; exact absurd ((factorFormVar_spec g v).2 h) hf

/-- the only failure of `is_counterfactual_factor_form` is a variable that is not a node (`NetworkXError`) -/
theorem factor_form_error (g : MG Name) (ev : List Var) (e : Err) (h : isCtfFactorForm g ev = .error e) :
    ∃ v ∈ ev, v.name ∉ g.nodes := by
  by_contra hn
  simp only [not_exists, not_and, not_not] at hn
  obtain ⟨b, hb, _⟩ := factor_form_spec g ev hn
  rw [hb] at h; cases h

/-- **conversion to ctf-factor form.**  `convert_to_counterfactual_factor_form` turns `W_s` into `W_{pa_W}`: the subscript
names are exactly the parents of `W` (Def. 3.4), no value mark; the interventions of the input on parents are kept
with their values, a parent that was not intervened on enters as `-P`. -/
theorem convertOne_spec (g : MG Name) (v w : Var) (h : convertOne g v = .ok w) :
    w.name = v.name ∧ w.star = none ∧ w.isIv = false ∧ ExactFactorForm g w ∧
    (∀ i, i ∈ w.ivs ↔ g.DiEdge i.name v.name ∧
      (i ∈ v.ivs ∨ (i.star = false ∧ ∀ j ∈ v.ivs, j.name ≠ i.name))) :=
  convertOne_spec' g v w h

/-- the result of the conversion passes y0's own test (on a graph without self-loops) -/
theorem convertOne_factorForm (g : MG Name) (v w : Var) (hloop : ¬ g.DiEdge v.name v.name)
    (h : convertOne g v = .ok w) : FactorForm g w := by
  obtain ⟨hn, _, _, hex, _⟩ := convertOne_spec g v w h
  refine ⟨fun p hp => (hex p).2 hp, fun hself => ?_⟩
  rw [hn] at hself
  exact hloop (by simpa [hn] using (hex v.name).1 hself)

/-- **why ctf-factor form is harmless (composition + exclusion restriction, Eq. 12-13).**  Let `W_{pa_W}` be the ctf-factor
form of `W_s`.  In every compatible functional SCM, at every noise point, `W` in the world that fixes every parent of
`W` to the value that parent takes in the world `s` has the value of `W_s`.  (So replacing each member of `An(Y_*)` by its
ctf-factor form and binding the subscripts to the values of `d_*` does not change the event.) -/
theorem convert_same_value (g : MG Name) (v c : Var) (h : convertOne g v = .ok c)
    (hself : v.name ∉ subNames v) (hloop : ¬ g.DiEdge v.name v.name)
    (M : Fscm.Model) (hM : Fscm.Compatible M g) (ν : Fscm.BaseValues) (u : Fscm.NoisePoint) :
    Fscm.solve M u ((subNames c).map (fun p => (p, Fscm.solve M u (Fscm.worldOf ν v.ivs) p))) v.name =
      Fscm.solve M u (Fscm.worldOf ν v.ivs) v.name := by
  obtain ⟨hn, _, _, hex, _⟩ := convertOne_spec g v c h
  have hnode : v.name ∈ g.nodes := by
    unfold convertOne at h
    by_contra hv
    simp only [predecessors, hv, ↓reduceIte, bind, Except.bind] at h
    cases h
  apply parents_fix_value M u _ v.name (subNames c) hM.nodup hM.topo
  · exact (hM.perm.mem_iff).2 hnode
  · exact forced_worldOf_none ν v.ivs v.name hself
  · intro p hp
    rw [hex p, hn]
    exact hM.pa_sub v.name p hp
  · intro hmem
    rw [hex v.name, hn] at hmem
    exact hloop hmem

/-- the accumulated ancestral set `D_* = An(Y_*)` -/
theorem ancFold_mem (g : MG Name) (q : Event) (acc anc : List Var) (h : q.foldlM (ancStep g) acc = .ok anc)
    (w : Var) : w ∈ anc ↔ w ∈ acc ∨ ∃ p ∈ q, ∃ A, ctfAncestors g p.1 = .ok A ∧ w ∈ A :=
  ancFold_mem' g q acc anc h w

/-- **shape of the factorisation (Eq. 11-15).**  `do_counterfactual_factor_factorization` returns
`Σ_{V(D_*) ∖ V(Y_*)} Π_j P(c_j)` where `D_* = An(Y_*)` is the union of the counterfactual ancestors (Def. 2.1) of the
query variables, `C_*` consists of every member of `D_*` in ctf-factor form `W_{pa_W}` (Def. 3.4), and the factors `c_j`
partition `C_*` by the districts (c-components) of the subgraph induced by the vertices of `C_*`; the returned event is
the query in ctf-factor form. -/
theorem factorisation_shape (g : MG Name) (q : Event) (e : Expr) (ev : Event)
    (h : factorize g q = .ok (e, ev)) :
    ∃ (D C : List Var) (factors : List (List Var)),
      (∀ w, w ∈ D ↔ ∃ p ∈ q, ∃ A, ctfAncestors g p.1 = .ok A ∧ w ∈ A) ∧
      (∀ c, c ∈ C ↔ ∃ w ∈ D, convertOne g w = .ok c) ∧
      (∀ c, (∃ f ∈ factors, c ∈ f) ↔ c ∈ C) ∧
      (∀ f ∈ factors, ∀ a ∈ f, ∀ b, b ∈ f ↔
        b ∈ C ∧ (g.subgraph (dedup' (C.map (·.name)))).SameDistrict a.name b.name) ∧
      e = sumSafe (productSafe (factors.map probOf))
            ((dedup' (C.map (·.name))).filter (fun n => decide (n ∉ dedup' (q.map (·.1.name))))) ∧
      convertEvent g q = .ok ev ∧ q ≠ [] := by
  unfold factorize at h
  split at h
  · simp [bind, Except.bind, throw, throwThe, MonadExceptOf.throw] at h
  rename_i hq
  simp only [bind, Except.bind] at h
  cases hev : convertEvent g q with
  | error err => rw [hev] at h; cases h
  | ok ev' =>
    rw [hev] at h
    simp only at h
    cases hanc : q.foldlM (ancStep g) [] with
    | error err => rw [hanc] at h; cases h
    | ok anc =>
      rw [hanc] at h
      simp only at h
      cases hconv : anc.mapM (convertOne g) with
      | error err => rw [hconv] at h; cases h
      | ok cs =>
        rw [hconv] at h
        simp only at h
        cases hfac : ctfFactors (g.subgraph (dedup' ((dedup' cs).map (·.name)))) (dedup' cs) with
        | error err => rw [hfac] at h; cases h
        | ok factors =>
          rw [hfac] at h
          simp only [pure, Except.pure, Except.ok.injEq, Prod.mk.injEq] at h
          obtain ⟨he, hev'⟩ := h
          subst hev'
          refine ⟨anc, dedup' cs, factors, fun w => ?_, fun c => ?_, ?_, ?_, he.symm, rfl, ?_⟩
          · rw [ancFold_mem g q [] anc hanc w]; simp
          · rw [mem_dedup', mapM_ok_mem _ _ _ hconv]
          · -- the factors cover exactly `C_*`
            unfold ctfFactors at hfac
            simp only [bind, Except.bind] at hfac
            cases hform : isCtfFactorForm (g.subgraph (dedup' ((dedup' cs).map (·.name)))) (dedup' (dedup' cs)) with
            | error err => rw [hform] at hfac; cases hfac
            | ok b =>
              rw [hform] at hfac
              cases b with
              | false => simp [throw, throwThe, MonadExceptOf.throw] at hfac
              | true =>
                simp only [Bool.not_true, Bool.false_eq_true, ↓reduceIte] at hfac
                intro c
                rw [(groupByDistrict_spec _ _ _ _ hfac).1 c, mem_dedup']
          · unfold ctfFactors at hfac
            simp only [bind, Except.bind] at hfac
            cases hform : isCtfFactorForm (g.subgraph (dedup' ((dedup' cs).map (·.name)))) (dedup' (dedup' cs)) with
            | error err => rw [hform] at hfac; cases hfac
            | ok b =>
              rw [hform] at hfac
              cases b with
              | false => simp [throw, throwThe, MonadExceptOf.throw] at hfac
              | true =>
                simp only [Bool.not_true, Bool.false_eq_true, ↓reduceIte] at hfac
                obtain ⟨hcover, hgroup⟩ := groupByDistrict_spec _ _ _ _ hfac
                intro f hf a ha b
                rw [hgroup f hf a ha b, mem_dedup']
                have haC : a ∈ dedup' cs := by
                  have := (hcover a).1 ⟨f, hf, ha⟩
                  rwa [mem_dedup'] at this
                have hwf := wf_subgraph g (dedup' ((dedup' cs).map (·.name)))
                have hnode : ∀ x ∈ dedup' cs, x.name ∈ (g.subgraph (dedup' ((dedup' cs).map (·.name)))).nodes := by
                  intro x hx
                  rw [mem_nodes_subgraph, mem_dedup']
                  exact List.mem_map.2 ⟨x, hx, rfl⟩
                constructor
                · rintro ⟨hbC, hd⟩
                  refine ⟨hbC, ?_⟩
                  obtain ⟨da, hda⟩ := getDistrict_total _ hwf a.name (hnode a haC)
                  obtain ⟨db, hdb⟩ := getDistrict_total _ hwf b.name (hnode b hbC)
                  rw [hda, hdb] at hd
                  simp only [Except.ok.injEq] at hd
                  exact (getDistrict_eq_iff _ hwf a.name b.name da db hda hdb).1 hd.symm
                · rintro ⟨hbC, hs⟩
                  refine ⟨hbC, ?_⟩
                  obtain ⟨da, hda⟩ := getDistrict_total _ hwf a.name (hnode a haC)
                  obtain ⟨db, hdb⟩ := getDistrict_total _ hwf b.name (hnode b hbC)
                  rw [hda, hdb, (getDistrict_eq_iff _ hwf a.name b.name da db hda hdb).2 hs]
          · intro h0; rw [h0] at hq; simp at hq

/-! ### value of the factorisation

-- OPEN: factorisation_den : factorize g q = .ok (e, ev) → Compatible M g → ν.Distinct →
--         factorisedValue M ν card e ev = probEventOpt M ν q                (ALL queries)
-- This is FALSE for the model (hence for the code): the returned expression identifies counterfactual variables by
-- their graph vertex and has only two value symbols per vertex, so it cannot express
--   * a query that needs one vertex in two worlds  (P(Y = y, Y_x = y') -> both ancestors become `Y @ -X`)   `multiWorld`,
--   * an unstarred literal subscript `x` when X is also summed out (captured by the summation index)       `literalBound`,
--   * an ADDED parent subscript `-P` when P is an outcome with value `+P` or `None`                  `outcomeParentValue`.
-- These are the open findings `factorisation-value:{multi-world, literal-bound, outcome-parent-value}`.
-- What is proved (`factorisation_den_partial`): the statement for EVERY query outside these three decidable classes
-- (`factorizeClasses g q = (false, false, false)`; the harness cross-checks the Lean predicates against the Python key
-- functions on every run) that has a reading at all (`readableQuery`: no self-intervened variable — the open SIMPLIFY
-- findings — and no variable with two values for one subscript name), every compatible functional SCM whose pmfs sum
-- to one and whose variables take their values below `card`, and EVERY reading `ν` of the value symbols (distinct or
-- not).  The ingredients are mechanised, none is assumed: composition + exclusion restriction along the evaluation
-- order (`ancestral_iff_factor`), independence of the exogenous blocks of different c-components (`wsum_split_list`,
-- the counterfactual (split) lemma), marginalisation over the non-outcome ancestors (`wsum_marginals`). -/

/-- **the factorised sum-product equals the probability of the query** (Eq. 11-15), for every query outside the three
syntactic classes `multiWorld` / `literalBound` / `outcomeParentValue`:

`Σ_{d_* ∖ y_*} Π_j P(c_j)`, read as in Y0/Spec/CtfSem.lean (`factorisedValue`), is `P(⋀ Y_x = y)` in every functional
SCM compatible with the graph, for every reading of the value symbols. -/
theorem factorisation_den_partial (g : MG Name) (hg : g.WF) (q : Event) (e : Expr) (ev : Event)
    (h : factorize g q = .ok (e, ev))
    (hread : readableQuery q = true)
    (hclass : factorizeClasses g q = .ok (false, false, false))
    (M : Fscm.Model) (hM : Fscm.Compatible M g) (hnorm : ∀ pmf ∈ M.noise, pmf.sum = 1)
    (card : Name → Nat) (hcard : ∀ v pa lat, M.f v pa lat < card v) (ν : Fscm.BaseValues) :
    factorisedValue M ν card e ev = probEventOpt M ν q :=
  factorisation_value g hg q e ev h hread hclass M hM hnorm card hcard ν

/-- what the three class flags say, relationally (`D` is the accumulated `An(Y_*)`):
 * not multi-world: the members of `D` are determined by their vertex;
 * not literal-bound: an unstarred subscript of the query that names a vertex of `D` names an outcome;
 * not outcome-parent-value: a parent `P` of a member that the member does not intervene on, if it is an outcome,
   has the value `-P` in every item of the query. -/
theorem factorizeClasses_false (g : MG Name) (q : Event) (h : factorizeClasses g q = .ok (false, false, false)) :
    ∃ D, ancestralSet g q = .ok D ∧
      (∀ a ∈ D, ∀ b ∈ D, a.name = b.name → a = b) ∧
      (∀ p ∈ q, ∀ i ∈ p.1.ivs, i.star = false → i.name ∈ D.map (·.name) → i.name ∈ q.map (·.1.name)) ∧
      (∀ w ∈ D, ∀ p, g.DiEdge p w.name → p ∉ subNames w → p ∈ D.map (·.name) →
        ∀ it ∈ q, it.1.name = p → it.2 = some ⟨p, false⟩) := by
  unfold factorizeClasses at h
  simp only [bind, Except.bind] at h
  cases hD : ancestralSet g q with
  | error e => rw [hD] at h; cases h
  | ok D =>
    rw [hD] at h
    simp only [pure, Except.pure, Except.ok.injEq, Prod.mk.injEq] at h
    exact ⟨D, rfl, multiWorld_false D h.1, literalBound_false q D h.2.1, outcomeParentValue_false g q D h.2.2⟩

/-! ## 4. ancestral components (Def. 4.2) -/

/-- **Def. 4.2.**  `_compute_ancestral_components_from_ancestral_sets` returns the FINEST partition of the union of the
input sets that is closed under overlap (two sets with a common graph vertex) and under bidirected adjacency between
variables IN the sets:
 1. every returned component is the union of exactly one `SameComponent` class of input sets (so nothing is merged
    without a chain of links — the F8b defect merged `{A}` and `{B}` through a vertex outside all sets — and nothing
    that is linked is kept apart);
 2. every variable of every input set is in some component;
 3. different components have no graph vertex in common. -/
theorem ancestral_components_spec (g : MG Name) (sets : List (List Var)) :
    (∀ C ∈ componentsFromSets g sets, ∃ s ∈ sets, s ≠ [] ∧
        ∀ x, x ∈ C ↔ ∃ t ∈ sets, SameComponent g sets s t ∧ x ∈ t) ∧
    (∀ s ∈ sets, ∀ x ∈ s, ∃ C ∈ componentsFromSets g sets, x ∈ C) ∧
    (componentsFromSets g sets).Pairwise (fun C D => ∀ a ∈ C, ∀ b ∈ D, a.name ≠ b.name) := by
  refine ⟨fun C hC => ?_, fun s hs x hx => ?_, ?_⟩
  · -- (1)
    obtain ⟨S₀, hS₀n, hS₀, hchar⟩ := mergeBy_class (mergeCommon sets) (biLinked g) C hC
    obtain ⟨s₀, hcl⟩ := classOf_of_mem sets S₀ hS₀
    have hs₀ := (classOf_mem sets S₀ s₀ hcl).2.1
    have hne : s₀ ≠ [] := by
      obtain ⟨c, hc, _, hsc⟩ := hcl
      have hn : s₀ ∈ (linkGraph sets shareBase).nodes :=
        (districts_cover _ (wf_linkGraph sets shareBase) s₀).2 ⟨c, hc, hsc⟩
      obtain ⟨_, t, _, hR | hR⟩ := (mem_nodes_linkGraph sets shareBase s₀).1 hn
      · obtain ⟨a, ha, _⟩ := (shareBase_iff s₀ t).1 hR
        intro h0; rw [h0] at ha; cases ha
      · obtain ⟨_, _, b, hb, _⟩ := (shareBase_iff t s₀).1 hR
        intro h0; rw [h0] at hb; cases hb
    refine ⟨s₀, hs₀, hne, fun x => ?_⟩
    rw [hchar x]
    constructor
    · rintro ⟨S, hconn, hx⟩
      exact components_sound g sets S₀ s₀ S hcl hconn x hx
    · rintro ⟨t, _, hchain, hx⟩
      obtain ⟨S, hclS, hconn⟩ := components_complete g sets S₀ s₀ t hcl hchain
      exact ⟨S, hconn, (classOf_mem sets S t hclS).2.2.1 x hx⟩
  · -- (2)
    obtain ⟨S, hcl⟩ := classOf_exists sets s hs x hx
    have hS := (classOf_mem sets S s hcl).1
    obtain ⟨C, hC, hchar⟩ := mergeBy_of_node (mergeCommon sets) (biLinked g) S
      (mem_nodes_bidirected g (mergeCommon sets) S hS)
    exact ⟨C, hC, (hchar x).2 ⟨S, .refl, (classOf_mem sets S s hcl).2.2.1 x hx⟩⟩
  · -- (3)
    unfold componentsFromSets mergeBidirected mergeBy
    rw [List.pairwise_map]
    have hwf := wf_linkGraph (mergeCommon sets) (biLinked g)
    refine (districts_disjoint _ hwf).imp_of_mem ?_
    intro c d hc hd hdisj a ha b hb hab
    obtain ⟨S, hSc, haS⟩ := (mem_union_flatten c a).1 ha
    obtain ⟨S', hSd, hbS'⟩ := (mem_union_flatten d b).1 hb
    have hSn : S ∈ (linkGraph (mergeCommon sets) (biLinked g)).nodes := (districts_cover _ hwf S).2 ⟨c, hc, hSc⟩
    have hSn' : S' ∈ (linkGraph (mergeCommon sets) (biLinked g)).nodes := (districts_cover _ hwf S').2 ⟨d, hd, hSd⟩
    have := mergeCommon_base_disjoint sets S S' ((mem_nodes_linkGraph _ _ _).1 hSn).1
      ((mem_nodes_linkGraph _ _ _).1 hSn').1 a b haS hbS' hab
    subst this
    exact hdisj S hSc hSd

/-- `get_ancestral_components` applies the above to the ancestral sets `An(W_t)` computed in `G` with the edges out of
`X_*(W_t) = V(‖X_*‖ ∩ An(W_t))` removed, one per root variable -/
theorem ancestral_components_eq (g : MG Name) (cond roots : List Var) (out : List (List Var))
    (h : ancestralComponents g cond roots = .ok out) :
    ∃ sets, roots.mapM (ancestralSetAfter g cond) = .ok sets ∧ out = componentsFromSets g sets := by
  unfold ancestralComponents at h
  simp only [bind, Except.bind] at h
  cases hs : roots.mapM (ancestralSetAfter g cond) with
  | error e => rw [hs] at h; cases h
  | ok sets =>
    rw [hs] at h
    simp only [pure, Except.pure, Except.ok.injEq] at h
    exact ⟨sets, rfl, h.symm⟩

/-- the ancestral set of one root: `X_*(W_t)` are the vertices of the minimised conditioned variables that are
counterfactual ancestors of the root, and the set is `An(W_t)` (Def. 2.1, `ctf_ancestors_spec`) in the graph without
the edges out of `X_*(W_t)` -/
theorem ancestralSetAfter_eq (g : MG Name) (cond : List Var) (root : Var) (A : List Var)
    (h : ancestralSetAfter g cond root = .ok A) :
    ∃ c, ctfAncestors (g.removeOutEdges c) root = .ok A ∧
      ∀ n, n ∈ c ↔ ∃ m, (∃ x ∈ cond, minimize g x = .ok m) ∧ (∃ A₀, ctfAncestors g root = .ok A₀ ∧ m ∈ A₀) ∧
        m.name = n := by
  unfold ancestralSetAfter at h
  simp only [bind, Except.bind] at h
  cases hc : condInAncestralSet g cond root with
  | error e => rw [hc] at h; cases h
  | ok c =>
    rw [hc] at h
    refine ⟨c, h, fun n => ?_⟩
    unfold condInAncestralSet minimizeSet at hc
    simp only [bind, Except.bind] at hc
    cases hm : cond.mapM (minimize g) with
    | error e => rw [hm] at hc; cases hc
    | ok ms =>
      rw [hm] at hc
      simp only [pure, Except.pure] at hc
      cases ha : ctfAncestors g root with
      | error e => rw [ha] at hc; cases hc
      | ok A₀ =>
        rw [ha] at hc
        simp only [Except.ok.injEq] at hc
        subst hc
        simp only [mem_dedup', List.mem_map, List.mem_filter, mem'_iff, mapM_ok_mem _ _ _ hm]
        constructor
        · rintro ⟨m, ⟨hmm, hmA⟩, rfl⟩; exact ⟨m, hmm, ⟨A₀, rfl, hmA⟩, rfl⟩
        · rintro ⟨m, hmm, ⟨A₁, hA₁, hmA⟩, rfl⟩
          cases hA₁
          exact ⟨m, ⟨hmm, hmA⟩, rfl⟩

/-! ### Def. 4.2 in full: the two passes separately, the conditioned variables, and the whole of `get_ancestral_components` -/

/-- **first merge pass** (`_merge_frozen_sets_with_common_vertices`): the finest partition of the non-empty input sets
closed under "share a graph vertex"; the output sets are pairwise disjoint on graph vertices (the invariant under which
the second pass runs). -/
theorem merge_common_spec (sets : List (List Var)) :
    (∀ C ∈ mergeCommon sets, ∃ s ∈ sets, s ≠ [] ∧ ∀ x, x ∈ C ↔ ∃ t ∈ sets, OverlapClass sets s t ∧ x ∈ t) ∧
    (∀ s ∈ sets, ∀ x ∈ s, ∃ C ∈ mergeCommon sets, x ∈ C) ∧
    (∀ C ∈ mergeCommon sets, ∀ C' ∈ mergeCommon sets, ∀ a ∈ C, ∀ b ∈ C', a.name = b.name → C = C') := by
  refine ⟨fun C hC => ?_, fun s hs x hx => ?_, fun C hC C' hC' a ha b hb hab =>
    mergeCommon_base_disjoint sets C C' hC hC' a b ha hb hab⟩
  · obtain ⟨s, hsn, hs, hchar⟩ := mergeBy_class sets shareBase C hC
    have hne : s ≠ [] := by
      obtain ⟨_, t, _, hR | hR⟩ := (mem_nodes_linkGraph sets shareBase s).1 hsn
      · obtain ⟨a, ha, _⟩ := (shareBase_iff s t).1 hR
        intro h0; rw [h0] at ha; cases ha
      · obtain ⟨_, _, b, hb, _⟩ := (shareBase_iff t s).1 hR
        intro h0; rw [h0] at hb; cases hb
    refine ⟨s, hs, hne, fun x => ?_⟩
    rw [hchar x]
    constructor
    · rintro ⟨t, hconn, hx⟩
      exact ⟨t, ((mem_nodes_linkGraph _ _ _).1 (conn_mem_nodes sets shareBase s t hsn hconn)).1,
        (conn_common_iff sets s t).1 hconn, hx⟩
    · rintro ⟨t, _, hcl, hx⟩
      exact ⟨t, (conn_common_iff sets s t).2 hcl, hx⟩
  · obtain ⟨C, hC, hchar⟩ := mergeBy_of_node sets shareBase s (mem_nodes_common sets s hs x hx)
    exact ⟨C, hC, (hchar x).2 ⟨s, .refl, hx⟩⟩

/-- **second merge pass** (`_merge_frozen_sets_linked_by_bidirectional_edges`, after `fix:` F8b): the finest partition
of the input sets closed under "a bidirected edge of `G` joins a vertex of one to a vertex of the other" — an edge with
an endpoint outside every input set links nothing. -/
theorem merge_bidirected_spec (g : MG Name) (sets : List (List Var)) :
    (∀ C ∈ mergeBidirected g sets, ∃ s ∈ sets, ∀ x, x ∈ C ↔ ∃ t ∈ sets, BiClass g sets s t ∧ x ∈ t) ∧
    (∀ s ∈ sets, ∃ C ∈ mergeBidirected g sets, ∀ x ∈ s, x ∈ C) := by
  refine ⟨fun C hC => ?_, fun s hs => ?_⟩
  · obtain ⟨s, hsn, hs, hchar⟩ := mergeBy_class sets (biLinked g) C hC
    refine ⟨s, hs, fun x => ?_⟩
    rw [hchar x]
    constructor
    · rintro ⟨t, hconn, hx⟩
      exact ⟨t, ((mem_nodes_linkGraph _ _ _).1 (conn_mem_nodes sets (biLinked g) s t hsn hconn)).1,
        (conn_bi_iff g sets s t).1 hconn, hx⟩
    · rintro ⟨t, _, hcl, hx⟩
      exact ⟨t, (conn_bi_iff g sets s t).2 hcl, hx⟩
  · obtain ⟨C, hC, hchar⟩ := mergeBy_of_node sets (biLinked g) s (mem_nodes_bidirected g sets s hs)
    exact ⟨C, hC, fun x hx => (hchar x).2 ⟨s, .refl, hx⟩⟩

/-- what `minimize_counterfactual` returns is `‖x‖` for every kind of variable -/
theorem minimisedTo_of_minimize (g : MG Name) (x m : Var) (h : minimize g x = .ok m) : MinimisedTo g x m := by
  by_cases hcf : x.isCf = true
  · right
    refine ⟨?_, minimize_spec g x m hcf h⟩
    simpa [Var.isCf] using hcf
  · left
    have hcf' : x.isCf = false := by simpa using hcf
    refine ⟨by simpa [Var.isCf] using hcf', (minimize_wf g x m h).2.2.2.2 hcf'⟩

/-- **`X_*(W_t) = V(‖X_*‖ ∩ An(W_t))`** (`_get_conditioned_variables_in_ancestral_set`).
Soundness: every returned vertex is the vertex of a minimised conditioned variable that is a member of `An(W_t)`
(Def. 2.1).  Completeness: the vertex of every minimised conditioned variable that equals (`==`) a member of `An(W_t)` is
returned — for subscript lists in the canonical `Iv.lt` order of the line protocol, in which `==` of two Python frozensets
is structural equality of the model. -/
theorem cond_in_ancestral_set_spec (g : MG Name) (hg : g.WF) (cond : List Var) (root : Var) (c : List Name)
    (h : condInAncestralSet g cond root = .ok c) :
    (∀ n ∈ c, CondVertex g cond root n) ∧
    (∀ x ∈ cond, ∀ m, minimize g x = .ok m → (∃ w, IsCtfAncestor g root w ∧ SameVar m w) →
      x.ivs.Pairwise (fun a b => Iv.lt a b = true) → root.ivs.Pairwise (fun a b => Iv.lt a b = true) →
      m.name ∈ c) := by
  unfold condInAncestralSet minimizeSet at h
  simp only [bind, Except.bind] at h
  cases hm : cond.mapM (minimize g) with
  | error e => rw [hm] at h; cases h
  | ok ms =>
    rw [hm] at h
    simp only [pure, Except.pure] at h
    cases ha : ctfAncestors g root with
    | error e => rw [ha] at h; cases h
    | ok A₀ =>
      rw [ha] at h
      simp only [Except.ok.injEq] at h
      subst h
      obtain ⟨hsound, hcomplete⟩ := ctfAncestors_all g hg root A₀ ha
      have hms := mapM_ok_mem _ _ _ hm
      constructor
      · intro n hn
        simp only [mem_dedup', List.mem_map, List.mem_filter, mem'_iff] at hn
        obtain ⟨m, ⟨hmm, hmA⟩, rfl⟩ := hn
        obtain ⟨x, hx, hxm⟩ := (hms m).1 hmm
        exact ⟨x, hx, m, minimisedTo_of_minimize g x m hxm, ⟨m, (hsound m hmA).1, rfl, rfl, rfl, fun _ => Iff.rfl⟩, rfl⟩
      · intro x hx m hxm ⟨w, hw, hsame⟩ hsx hsr
        simp only [mem_dedup', List.mem_map, List.mem_filter, mem'_iff]
        refine ⟨m, ⟨(hms m).2 ⟨x, hx, hxm⟩, ?_⟩, rfl⟩
        obtain ⟨w', hw', hsame'⟩ := hcomplete w hw
        -- `m` and `w'` have the same members, and both subscript lists are sorted sublists
        have hmw : m = w' := by
          obtain ⟨P, hP⟩ := (hsound w' hw').2
          have hsw : w'.ivs.Pairwise (fun a b => Iv.lt a b = true) := by rw [hP]; exact hsr.filter _
          have hsm : m.ivs.Pairwise (fun a b => Iv.lt a b = true) := by
            rcases minimize_eq g x m hxm with ⟨_, rfl⟩ | ⟨_, A, _, rfl⟩
            · exact hsx
            · exact hsx.filter _
          have hivs : m.ivs = w'.ivs := sorted_ivs_ext _ _ hsm hsw (fun i => by
            rw [hsame.2.2.2 i, ← hsame'.2.2.2 i])
          have h1 : m.name = w'.name := by rw [hsame.1, hsame'.1]
          have h2 : m.star = w'.star := by rw [hsame.2.1, hsame'.2.1]
          have h3 : m.isIv = w'.isIv := by rw [hsame.2.2.1, hsame'.2.2.1]
          cases m; cases w'
          simp only at h1 h2 h3 hivs
          subst h1; subst h2; subst h3; subst hivs
          rfl
        rw [hmw]; exact hw'

/-- **Def. 4.2, all of `get_ancestral_components`.**  The ancestral sets are, root by root, `An(W_t)` of Def. 2.1 in the
graph without the edges out of `X_*(W_t)` (sound, and complete up to `==`), where `X_*(W_t)` is characterised by
`cond_in_ancestral_set_spec`; and the result is the finest partition of their union closed under overlap and bidirected
adjacency within the sets (the three clauses of `ancestral_components_spec`). -/
theorem ancestral_components_full (g : MG Name) (hg : g.WF) (cond roots : List Var) (out : List (List Var))
    (h : ancestralComponents g cond roots = .ok out) :
    ∃ sets : List (List Var),
      List.Forall₂ (fun root A => ∃ c, condInAncestralSet g cond root = .ok c ∧
          (∀ n ∈ c, CondVertex g cond root n) ∧
          (∀ w ∈ A, IsCtfAncestor (g.removeOutEdges c) root w) ∧
          (∀ w, IsCtfAncestor (g.removeOutEdges c) root w → ∃ w' ∈ A, SameVar w' w)) roots sets ∧
      (∀ C ∈ out, ∃ s ∈ sets, s ≠ [] ∧ ∀ x, x ∈ C ↔ ∃ t ∈ sets, SameComponent g sets s t ∧ x ∈ t) ∧
      (∀ s ∈ sets, ∀ x ∈ s, ∃ C ∈ out, x ∈ C) ∧
      out.Pairwise (fun C D => ∀ a ∈ C, ∀ b ∈ D, a.name ≠ b.name) := by
  obtain ⟨sets, hsets, rfl⟩ := ancestral_components_eq g cond roots out h
  obtain ⟨h1, h2, h3⟩ := ancestral_components_spec g sets
  refine ⟨sets, ?_, h1, h2, h3⟩
  -- root by root
  clear h h1 h2 h3
  induction roots generalizing sets with
  | nil =>
    simp only [List.mapM_nil, pure, Except.pure, Except.ok.injEq] at hsets
    subst hsets
    exact List.Forall₂.nil
  | cons root roots ih =>
    simp only [List.mapM_cons, bind, Except.bind] at hsets
    cases hA : ancestralSetAfter g cond root with
    | error e => rw [hA] at hsets; cases hsets
    | ok A =>
      rw [hA] at hsets
      cases hrest : roots.mapM (ancestralSetAfter g cond) with
      | error e => rw [hrest] at hsets; cases hsets
      | ok rest =>
        rw [hrest] at hsets
        simp only [pure, Except.pure, Except.ok.injEq] at hsets
        subst hsets
        refine List.Forall₂.cons ?_ (ih rest hrest)
        unfold ancestralSetAfter at hA
        simp only [bind, Except.bind] at hA
        cases hc : condInAncestralSet g cond root with
        | error e => rw [hc] at hA; cases hA
        | ok c =>
          rw [hc] at hA
          obtain ⟨hs, hcpl⟩ := ctfAncestors_all (g.removeOutEdges c) (wf_fromEdges _ _ _) root A hA
          exact ⟨c, rfl, (cond_in_ancestral_set_spec g hg cond root c hc).1, fun w hw => (hs w hw).1, hcpl⟩

/-! ## 5. SIMPLIFY (Algorithm 1): probability preserved, `None` only for probability 0

The full statement quantifies over all events.  It is FALSE for the model (hence for the code) on events that contain a
self-intervened variable `Y_y`: `simplify [(Y_y, y)] = [(Y, y)]` although `P(Y_y = y) = 1`, and
`simplify [(Y_y, y), (Y, y')] = None` although the event has probability `P(Y = y')` (open findings
`simplify-reflexive:prob` / `simplify-reflexive:none`; the pinned test-suite asserts this behaviour).  What is proved
is the statement for every event without a self-intervened variable whose values are values of the variable they are
bound to, for every compatible functional SCM and every reading of the value symbols.

-- OPEN: simplify_prob : simplify g e = .ok (some e') → Compatible M g → ν.Distinct →
--         probEventOpt M ν e = probEventOpt M ν e'                     (all events; false today, see above)
-- OPEN: simplify_none_zero : simplify g e = .ok none → Compatible M g → ν.Distinct → probEventOpt M ν e = 0
-/

/-- `minimize_event` works item by item -/
theorem minimizeEvent_mem (g : MG Name) (e me : Event) (h : minimizeEvent g e = .ok me) (k : Var) (x : Val) :
    (k, x) ∈ me ↔ ∃ v, (v, x) ∈ e ∧ minimize g v = .ok k := by
  unfold minimizeEvent at h
  rw [mapM_ok_mem _ _ _ h]
  constructor
  · rintro ⟨⟨v, y⟩, hp, hf⟩
    simp only [bind, Except.bind] at hf
    cases hm : minimize g v with
    | error err => rw [hm] at hf; cases hf
    | ok k' =>
      rw [hm] at hf
      simp only [pure, Except.pure, Except.ok.injEq, Prod.mk.injEq] at hf
      obtain ⟨rfl, rfl⟩ := hf
      exact ⟨v, hp, hm⟩
  · rintro ⟨v, hp, hm⟩
    exact ⟨(v, x), hp, by simp [bind, Except.bind, hm, pure, Except.pure]⟩

/-- pointwise content of the two SIMPLIFY theorems: at every noise point the input event fails when `None` is
answered, and holds exactly when the returned event holds -/
theorem simplify_pointwise (g : MG Name) (e : Event)
    (hrefl : ∀ p ∈ e, selfIntervened p.1 = false)
    (hval : ∀ p ∈ e, ∀ i, p.2 = some i → i.name = p.1.name)
    (M : Fscm.Model) (hM : Fscm.Compatible M g) (ν : Fscm.BaseValues) (hν : ν.Distinct) :
    (simplify g e = .ok none → ∀ u, ¬ EventHolds M ν u e) ∧
    (∀ e', simplify g e = .ok (some e') → ∀ u, EventHolds M ν u e ↔ EventHolds M ν u e') := by
  unfold simplify
  split
  · simp [bind, Except.bind, throw, throwThe, MonadExceptOf.throw]
  · simp only [bind, Except.bind]
    cases hme : minimizeEvent g e with
    | error err => simp
    | ok me =>
      simp only
      have hmem := minimizeEvent_mem g e me hme
      -- the minimised event has no self-intervened variable either
      have hrefl' : ∀ p ∈ me, selfIntervened p.1 = false := by
        rintro ⟨k, x⟩ hp
        obtain ⟨v, hv, hm⟩ := (hmem k x).1 hp
        have hwf := minimize_wf g v k hm
        have h0 := hrefl (v, x) hv
        simp only [selfIntervened, List.any_eq_false, beq_iff_eq] at h0 ⊢
        intro i hi
        rw [hwf.1]
        exact h0 i (hwf.2.2.1 i hi)
      -- the minimised event holds exactly when the event holds (`minimize_same_rv`)
      have hholds : ∀ u, EventHolds M ν u e ↔ EventHolds M ν u me := by
        intro u
        constructor
        · rintro h ⟨k, x⟩ hp i hi
          simp only at hi; subst hi
          obtain ⟨v, hv, hm⟩ := (hmem k (some i)).1 hp
          rw [← minimize_same_rv g v k hm M hM ν u]
          exact h (v, some i) hv i rfl
        · rintro h ⟨v, x⟩ hp i hi
          simp only at hi; subst hi
          -- `minimize` succeeds on every item because `minimize_event` did
          have : ∃ k, minimize g v = .ok k := by
            cases hm : minimize g v with
            | ok k => exact ⟨k, rfl⟩
            | error err =>
              exfalso
              have hlen := mapM_ok_length _ _ _ hme
              -- an item whose minimisation fails makes `mapM` fail
              have : ∀ (l : Event) (r : Event), (v, some i) ∈ l →
                  l.mapM (fun p => do pure (← minimize g p.1, p.2)) ≠ .ok r := by
                intro l
                induction l with
                | nil => intro r hin; cases hin
                | cons q l ih =>
                  intro r hin hok
                  simp only [List.mapM_cons, bind, Except.bind] at hok
                  rcases List.mem_cons.1 hin with rfl | hin'
                  · simp only [hm] at hok; cases hok
                  · cases hq : minimize g q.1 with
                    | error e2 => rw [hq] at hok; cases hok
                    | ok k2 =>
                      rw [hq] at hok
                      simp only [pure, Except.pure] at hok
                      cases hl : l.mapM (fun p => do pure (← minimize g p.1, p.2)) with
                      | error e3 =>
                        simp only [bind, Except.bind, pure, Except.pure] at hl
                        rw [hl] at hok; cases hok
                      | ok r' => exact ih r' hin' hl
              exact this e me hp hme
          obtain ⟨k, hm⟩ := this
          rw [minimize_same_rv g v k hm M hM ν u]
          exact h (k, some i) ((hmem k (some i)).2 ⟨v, hp, hm⟩) i rfl
      obtain ⟨hnone, hsome⟩ := simplifyCore_spec me hrefl'
      constructor
      · intro hc u hu
        obtain ⟨k, i, j, hij, hi, hj⟩ := hnone hc
        have hme' := (hholds u).1 hu
        have e1 := hme' (k, some i) hi i rfl
        have e2 := hme' (k, some j) hj j rfl
        obtain ⟨v₁, hv₁, hm₁⟩ := (hmem k (some i)).1 hi
        obtain ⟨v₂, hv₂, hm₂⟩ := (hmem k (some j)).1 hj
        have hn₁ : i.name = k.name := by
          rw [hval (v₁, some i) hv₁ i rfl, (minimize_wf g v₁ k hm₁).1]
        have hn₂ : j.name = k.name := by
          rw [hval (v₂, some j) hv₂ j rfl, (minimize_wf g v₂ k hm₂).1]
        have heq : Fscm.ivValue ν i = Fscm.ivValue ν j := by rw [← e1, ← e2]
        unfold Fscm.ivValue at heq
        rw [hn₁, hn₂] at heq
        have hstar : i.star ≠ j.star := by
          intro hs
          apply hij
          cases i; cases j
          simp only at hn₁ hn₂ hs
          subst hs; rw [hn₁, hn₂]
        cases hi' : i.star <;> cases hj' : j.star <;> simp only [hi', hj'] at heq hstar
        · exact hstar rfl
        · exact hν k.name heq
        · exact hν k.name heq.symm
        · exact hstar rfl
      · intro e' hc u
        rw [hholds u]
        have hiff := hsome e' hc
        constructor
        · rintro h ⟨k, x⟩ hp i hi
          simp only at hi; subst hi
          exact h (k, some i) ((hiff k i).1 hp) i rfl
        · rintro h ⟨k, x⟩ hp i hi
          simp only at hi; subst hi
          exact h (k, some i) ((hiff k i).2 hp) i rfl

/-- **SIMPLIFY answers 'impossible' only for probability zero** (events without a self-intervened variable). -/
theorem simplify_none_zero_partial (g : MG Name) (e : Event) (h : simplify g e = .ok none)
    (hrefl : ∀ p ∈ e, selfIntervened p.1 = false)
    (hval : ∀ p ∈ e, ∀ i, p.2 = some i → i.name = p.1.name)
    (M : Fscm.Model) (hM : Fscm.Compatible M g) (ν : Fscm.BaseValues) (hν : ν.Distinct) :
    probEventOpt M ν e = 0 :=
  probEventOpt_zero M ν e ((simplify_pointwise g e hrefl hval M hM ν hν).1 h)

/-- **SIMPLIFY preserves the probability of the event** (events without a self-intervened variable). -/
theorem simplify_prob_partial (g : MG Name) (e e' : Event) (h : simplify g e = .ok (some e'))
    (hrefl : ∀ p ∈ e, selfIntervened p.1 = false)
    (hval : ∀ p ∈ e, ∀ i, p.2 = some i → i.name = p.1.name)
    (M : Fscm.Model) (hM : Fscm.Compatible M g) (ν : Fscm.BaseValues) (hν : ν.Distinct) :
    probEventOpt M ν e = probEventOpt M ν e' :=
  probEventOpt_congr M ν e e' ((simplify_pointwise g e hrefl hval M hM ν hν).2 e' h)

/-- **SIMPLIFY, then factorise** (lines 1-2 of Algorithm 2, ctfTRu): for an event without a self-intervened variable,
if SIMPLIFY returns an event outside the three classes, the factorised sum-product of the SIMPLIFIED event is the
probability of the ORIGINAL event. -/
theorem simplify_factorize_den_partial (g : MG Name) (hg : g.WF) (e e' : Event) (expr : Expr) (ev : Event)
    (hs : simplify g e = .ok (some e')) (hf : factorize g e' = .ok (expr, ev))
    (hrefl : ∀ p ∈ e, selfIntervened p.1 = false)
    (hval : ∀ p ∈ e, ∀ i, p.2 = some i → i.name = p.1.name)
    (hread : readableQuery e' = true) (hclass : factorizeClasses g e' = .ok (false, false, false))
    (M : Fscm.Model) (hM : Fscm.Compatible M g) (hnorm : ∀ pmf ∈ M.noise, pmf.sum = 1)
    (card : Name → Nat) (hcard : ∀ v pa lat, M.f v pa lat < card v) (ν : Fscm.BaseValues) (hν : ν.Distinct) :
    factorisedValue M ν card expr ev = probEventOpt M ν e := by
  rw [factorisation_den_partial g hg e' expr ev hf hread hclass M hM hnorm card hcard ν]
  exact (simplify_prob_partial g e e' hs hrefl hval M hM ν hν).symm

/-! ### SIMPLIFY on ALL events, under y0's reading of self-intervened variables

The two findings `simplify-reflexive:*` are not two bugs but one READING: y0 (source comment "Y_y and Y are the same",
pinned by `test_simplify_y`) takes `Y_{..y..} = y` to be the event `Y = y`, where Algorithm 1 of the paper (and y0's own
ID*) remove it as a tautology.  `y0Read` (Y0/Spec/CtfSem.lean) rewrites an event that way.  The next theorems are the
FULL statement of the SIMPLIFY clause relative to that reading: for EVERY event (self-intervened variables included)
SIMPLIFY preserves the probability of the event as y0 reads it, and answers `None` only when the event so read is
impossible.  So the whole deviation from the property is the reading of `Y_y`. -/

/-- minimisation keeps a variable self-intervened or not -/
theorem minimize_self (g : MG Name) (v w : Var) (h : minimize g v = .ok w) :
    selfIntervened w = selfIntervened v := by
  rcases minimize_eq g v w h with ⟨_, rfl⟩ | ⟨hcf, A, hA, hw⟩
  · rfl
  · have hmin := minimize_spec g v w hcf h
    rw [Bool.eq_iff_iff, selfIntervened_iff, selfIntervened_iff, hmin.1]
    simp only [subNames, List.mem_map]
    constructor
    · rintro ⟨i, hi, hin⟩; exact ⟨i, ((hmin.2.2 i).1 hi).1, hin⟩
    · rintro ⟨i, hi, hin⟩
      exact ⟨i, (hmin.2.2 i).2 ⟨hi, by rw [hin]; exact ReflTransGen.refl⟩, hin⟩

/-- `‖Y_{..y..}‖ = Y_y`: a self-intervened variable minimises to its self-intervention alone -/
theorem minimize_self_ivs (g : MG Name) (v w : Var) (h : minimize g v = .ok w) (hs : selfIntervened v = true)
    (hnd : (subNames v).Nodup) : ∃ j, w.ivs = [j] ∧ j ∈ v.ivs ∧ j.name = v.name := by
  have hcf : v.isCf = true := selfIntervened_isCf v hs
  have hmin := minimize_spec g v w hcf h
  obtain ⟨j, hj, hjn⟩ := List.mem_map.1 ((selfIntervened_iff v).1 hs)
  have hjw : j ∈ w.ivs := (hmin.2.2 j).2 ⟨hj, by rw [hjn]; exact ReflTransGen.refl⟩
  -- every surviving subscript is on the variable itself
  have hall : ∀ i ∈ w.ivs, i.name = v.name := by
    intro i hi
    obtain ⟨_, hanc⟩ := (hmin.2.2 i).1 hi
    unfold AncBar at hanc
    rcases ReflTransGen.cases_tail hanc with heq | ⟨b, _, hbv⟩
    · exact heq.symm
    · exact absurd ((selfIntervened_iff v).1 hs) hbv.2
  -- and the subscript names are distinct
  have hsub : w.ivs.Sublist v.ivs := by
    rcases minimize_eq g v w h with ⟨hc, _⟩ | ⟨_, A, _, hw⟩
    · rw [hcf] at hc; cases hc
    · rw [hw]; exact List.filter_sublist
  have hnw : (w.ivs.map (·.name)).Nodup := hnd.sublist (hsub.map _)
  refine ⟨j, ?_, hj, hjn⟩
  match hw : w.ivs, hjw, hall, hnw with
  | [a], hjw, _, _ => simp only [List.mem_singleton] at hjw; rw [hjw]
  | a :: b :: rest, _, hall, hnw =>
    exfalso
    have ha := hall a (by simp)
    have hb := hall b (by simp)
    simp only [List.map_cons, List.nodup_cons, List.mem_cons, not_or] at hnw
    exact hnw.1.1 (by rw [ha, hb])

/-- pointwise content of the two theorems below -/
theorem simplify_pointwise_y0 (g : MG Name) (e : Event)
    (hnd : ∀ p ∈ e, (subNames p.1).Nodup)
    (hval : ∀ p ∈ e, ∀ i, p.2 = some i → i.name = p.1.name)
    (M : Fscm.Model) (hM : Fscm.Compatible M g) (ν : Fscm.BaseValues) (hν : ν.Distinct) :
    (simplify g e = .ok none → y0Read e = none ∨ ∃ e₀, y0Read e = some e₀ ∧ ∀ u, ¬ EventHolds M ν u e₀) ∧
    (∀ e', simplify g e = .ok (some e') →
      ∃ e₀, y0Read e = some e₀ ∧ ∀ u, EventHolds M ν u e₀ ↔ EventHolds M ν u e') := by
  -- what the event means once it is read
  have hread : ∀ e₀, y0Read e = some e₀ → (∀ q, q ∈ e₀ ↔ ∃ p ∈ e, y0ReadItem p = some q) := by
    intro e₀ he₀
    have hall : ∀ p ∈ e, ∃ q, y0ReadItem p = some q := by
      intro p hp
      cases hq : y0ReadItem p with
      | some q => exact ⟨q, rfl⟩
      | none =>
        have := optMapM_none y0ReadItem e ⟨p, hp, hq⟩
        unfold y0Read at he₀
        rw [this] at he₀; cases he₀
    obtain ⟨r, hr, hmem⟩ := optMapM_total y0ReadItem e hall
    unfold y0Read at he₀
    rw [hr] at he₀
    cases he₀
    exact hmem
  have hholds₀ : ∀ e₀, y0Read e = some e₀ → ∀ u, EventHolds M ν u e₀ ↔
      ∀ p ∈ e, ∀ i, p.2 = some i →
        Fscm.solve M u (if selfIntervened p.1 then [] else Fscm.worldOf ν p.1.ivs) p.1.name = Fscm.ivValue ν i := by
    intro e₀ he₀ u
    have hmem := hread e₀ he₀
    constructor
    · intro h p hp i hi
      have hq : ∃ q, y0ReadItem p = some q := by
        cases hq : y0ReadItem p with
        | some q => exact ⟨q, rfl⟩
        | none =>
          have := optMapM_none y0ReadItem e ⟨p, hp, hq⟩
          unfold y0Read at he₀
          rw [this] at he₀; cases he₀
      obtain ⟨q, hq⟩ := hq
      have hqe := (hmem q).2 ⟨p, hp, hq⟩
      unfold y0ReadItem at hq
      by_cases hs : selfIntervened p.1 = true
      · have hs' : (p.1.ivs.any fun i => i.name == p.1.name) = true := hs
        simp only [hs', ↓reduceIte, hi] at hq
        split at hq
        · simp only [Option.some.injEq] at hq
          subst hq
          have := h _ hqe i rfl
          simpa [hs, Fscm.worldOf] using this
        · cases hq
      · have hs' : (p.1.ivs.any fun i => i.name == p.1.name) = false := by simpa [selfIntervened] using hs
        simp only [hs', Bool.false_eq_true, ↓reduceIte, Option.some.injEq] at hq
        subst hq
        have := h _ hqe i hi
        simpa [hs] using this
    · intro h q hq i hi
      obtain ⟨p, hp, hpq⟩ := (hmem q).1 hq
      unfold y0ReadItem at hpq
      by_cases hs : selfIntervened p.1 = true
      · have hs' : (p.1.ivs.any fun i => i.name == p.1.name) = true := hs
        simp only [hs', ↓reduceIte] at hpq
        cases hx : p.2 with
        | none =>
          rw [hx] at hpq
          simp only [Option.some.injEq] at hpq
          subst hpq
          cases hi
        | some i' =>
          rw [hx] at hpq
          simp only at hpq
          split at hpq
          · simp only [Option.some.injEq] at hpq
            subst hpq
            simp only [Option.some.injEq] at hi
            subst hi
            have := h p hp i' hx
            simpa [hs, Fscm.worldOf] using this
          · cases hpq
      · have hs' : (p.1.ivs.any fun i => i.name == p.1.name) = false := by simpa [selfIntervened] using hs
        simp only [hs', Bool.false_eq_true, ↓reduceIte, Option.some.injEq] at hpq
        subst hpq
        have := h p hp i hi
        simpa [hs] using this
  unfold simplify
  split
  · simp [bind, Except.bind, throw, throwThe, MonadExceptOf.throw]
  · simp only [bind, Except.bind]
    cases hme : minimizeEvent g e with
    | error err => simp
    | ok me =>
      simp only
      have hmem := minimizeEvent_mem g e me hme
      have hmin_ok : ∀ p ∈ e, ∃ k, minimize g p.1 = .ok k ∧ (k, p.2) ∈ me := by
        rintro ⟨v, x⟩ hp
        cases hm : minimize g v with
        | ok k => exact ⟨k, rfl, (hmem k x).2 ⟨v, hp, hm⟩⟩
        | error err =>
          exfalso
          have : ∀ (l : Event) (r : Event), (v, x) ∈ l →
              l.mapM (fun p => do pure (← minimize g p.1, p.2)) ≠ .ok r := by
            intro l
            induction l with
            | nil => intro r hin; cases hin
            | cons q l ih =>
              intro r hin hok
              simp only [List.mapM_cons, bind, Except.bind] at hok
              rcases List.mem_cons.1 hin with rfl | hin'
              · simp only [hm] at hok; cases hok
              · cases hq : minimize g q.1 with
                | error e2 => rw [hq] at hok; cases hok
                | ok k2 =>
                  rw [hq] at hok
                  simp only [pure, Except.pure] at hok
                  cases hl : l.mapM (fun p => do pure (← minimize g p.1, p.2)) with
                  | error e3 =>
                    simp only [bind, Except.bind, pure, Except.pure] at hl
                    rw [hl] at hok; cases hok
                  | ok r' => exact ih r' hin' hl
          exact this e me hp hme
      -- the hypothesis of the combinatorial core
      have hone : ∀ p ∈ me, selfIntervened p.1 = true → ∃ j, p.1.ivs = [j] := by
        rintro ⟨k, x⟩ hp hs
        obtain ⟨v, hv, hm⟩ := (hmem k x).1 hp
        have hsv : selfIntervened v = true := by rw [← minimize_self g v k hm]; exact hs
        obtain ⟨j, hj, _⟩ := minimize_self_ivs g v k hm hsv (hnd (v, x) hv)
        exact ⟨j, hj⟩
      obtain ⟨hnone, hsome⟩ := simplifyCore_spec_gen me hone
      -- the value of an item of the event as SIMPLIFY reads it
      have hrdval : ∀ k i u, (k, some i) ∈ rd me → (∀ p ∈ e, ∀ i, p.2 = some i →
          Fscm.solve M u (if selfIntervened p.1 then [] else Fscm.worldOf ν p.1.ivs) p.1.name = Fscm.ivValue ν i) →
          Fscm.solve M u (Fscm.worldOf ν k.ivs) k.name = Fscm.ivValue ν i := by
        intro k i u hk hall
        obtain ⟨⟨w, x⟩, hp, hkw, hx⟩ := (mem_rd me k (some i)).1 hk
        simp only at hkw hx
        subst hx
        obtain ⟨v, hv, hm⟩ := (hmem w (some i)).1 hp
        have hself := minimize_self g v w hm
        have := hall (v, some i) hv i rfl
        simp only at this
        by_cases hs : selfIntervened v = true
        · rw [← hkw]
          simp only [rkey, hself, hs, ↓reduceIte, Var.base]
          simp only [hs, ↓reduceIte] at this
          rw [(minimize_wf g v w hm).1]
          simpa [Fscm.worldOf] using this
        · have hs' : selfIntervened v = false := by simpa using hs
          rw [← hkw]
          simp only [rkey, hself, hs', Bool.false_eq_true, ↓reduceIte]
          simp only [hs', Bool.false_eq_true, ↓reduceIte] at this
          rw [← minimize_same_rv g v w hm M hM ν u]
          exact this
      constructor
      · intro hc
        rcases hnone hc with ⟨⟨w, x⟩, hp, hs, i, j, hx, hj, hij⟩ | ⟨k, i, j, hij, hi, hj⟩
        · -- a self-intervened variable with a value that is not its subscript: impossible already for y0Read
          left
          simp only at hs hx hj
          subst hx
          obtain ⟨v, hv, hm⟩ := (hmem w (some i)).1 hp
          have hsv : selfIntervened v = true := by rw [← minimize_self g v w hm]; exact hs
          obtain ⟨j', hj', hjv, hjn⟩ := minimize_self_ivs g v w hm hsv (hnd (v, some i) hv)
          rw [hj] at hj'
          simp only [List.cons.injEq, and_true] at hj'
          subst hj'
          apply optMapM_none
          refine ⟨(v, some i), hv, ?_⟩
          unfold y0ReadItem
          have hs' : (v.ivs.any fun i => i.name == v.name) = true := hsv
          simp only [hs', ↓reduceIte]
          split
          · rename_i hin
            exfalso
            simp only [List.any_eq_true, decide_eq_true_eq] at hin
            obtain ⟨i', hi', rfl⟩ := hin
            -- `i'` and `j` are both subscripts of `v` on `v` itself
            have hname : i'.name = j.name := by
              rw [hval (v, some i') hv i' rfl, hjn]
            have hidx : ∀ (l : List Iv), (l.map (·.name)).Nodup → ∀ a ∈ l, ∀ b ∈ l, a.name = b.name → a = b := by
              intro l
              induction l with
              | nil => intro _ a ha; cases ha
              | cons c l ih =>
                intro hn a ha b hb hab
                simp only [List.map_cons, List.nodup_cons] at hn
                rcases List.mem_cons.1 ha with rfl | ha'
                · rcases List.mem_cons.1 hb with rfl | hb'
                  · rfl
                  · exact absurd (List.mem_map.2 ⟨b, hb', hab.symm⟩) hn.1
                · rcases List.mem_cons.1 hb with rfl | hb'
                  · exact absurd (List.mem_map.2 ⟨a, ha', hab⟩) hn.1
                  · exact ih hn.2 a ha' b hb' hab
            exact hij (hidx v.ivs (hnd (v, some i') hv) i' hi' j hjv hname)
          · rfl
        · -- two different values for one variable of the event as read
          cases he₀ : y0Read e with
          | none => exact Or.inl rfl
          | some e₀ =>
            right
            refine ⟨e₀, rfl, fun u hu => ?_⟩
            have hall := (hholds₀ e₀ he₀ u).1 hu
            have e1 := hrdval k i u hi hall
            have e2 := hrdval k j u hj hall
            -- both values are values of the vertex of `k`
            have hname : ∀ i', (k, some i') ∈ rd me → i'.name = k.name := by
              intro i' hk'
              obtain ⟨⟨w, x⟩, hp, hkw, hx⟩ := (mem_rd me k (some i')).1 hk'
              simp only at hkw hx
              subst hx
              obtain ⟨v, hv, hm⟩ := (hmem w (some i')).1 hp
              rw [hval (v, some i') hv i' rfl, ← (minimize_wf g v w hm).1, ← hkw]
              unfold rkey
              split <;> rfl
            have hn₁ := hname i hi
            have hn₂ := hname j hj
            have heq : Fscm.ivValue ν i = Fscm.ivValue ν j := by rw [← e1, ← e2]
            unfold Fscm.ivValue at heq
            rw [hn₁, hn₂] at heq
            have hstar : i.star ≠ j.star := by
              intro hs
              apply hij
              cases i; cases j
              simp only at hn₁ hn₂ hs
              subst hs; rw [hn₁, hn₂]
            cases hi' : i.star <;> cases hj' : j.star <;> simp only [hi', hj'] at heq hstar
            · exact hstar rfl
            · exact hν k.name heq
            · exact hν k.name heq.symm
            · exact hstar rfl
      · intro e' hc
        obtain ⟨hown, hiff⟩ := hsome e' hc
        -- no item is impossible, so the event has a reading
        have hall : ∀ p ∈ e, ∃ q, y0ReadItem p = some q := by
          rintro ⟨v, x⟩ hp
          unfold y0ReadItem
          by_cases hs : selfIntervened v = true
          · have hs' : (v.ivs.any fun i => i.name == v.name) = true := hs
            simp only [hs', ↓reduceIte]
            cases x with
            | none => exact ⟨_, rfl⟩
            | some i =>
              obtain ⟨w, hm, hw⟩ := hmin_ok (v, some i) hp
              have hsw : selfIntervened w = true := by rw [minimize_self g v w hm]; exact hs
              have hwi := hown (w, some i) hw hsw i rfl
              have hiv : i ∈ v.ivs := (minimize_wf g v w hm).2.2.1 i (by simp only at hwi; rw [hwi]; simp)
              have : (v.ivs.any fun j => decide (j = i)) = true := by
                simp only [List.any_eq_true, decide_eq_true_eq]; exact ⟨i, hiv, rfl⟩
              simp only [this, ↓reduceIte]
              exact ⟨_, rfl⟩
          · have hs' : (v.ivs.any fun i => i.name == v.name) = false := by simpa [selfIntervened] using hs
            simp only [hs', Bool.false_eq_true, ↓reduceIte]
            exact ⟨_, rfl⟩
        obtain ⟨e₀, he₀, _⟩ := optMapM_total y0ReadItem e hall
        refine ⟨e₀, he₀, fun u => ?_⟩
        rw [hholds₀ e₀ he₀ u]
        constructor
        · rintro h ⟨k, x⟩ hp i hi
          simp only at hi; subst hi
          exact hrdval k i u ((hiff k i).1 hp) h
        · intro h p hp i hi
          obtain ⟨w, hm, hw⟩ := hmin_ok p hp
          have hself := minimize_self g p.1 w hm
          rw [hi] at hw
          have hrd : (rkey w, some i) ∈ rd me := (mem_rd me _ _).2 ⟨(w, some i), hw, rfl, rfl⟩
          have := h (rkey w, some i) ((hiff _ i).2 hrd) i rfl
          simp only at this
          by_cases hs : selfIntervened p.1 = true
          · simp only [hs, ↓reduceIte]
            simp only [rkey, hself, hs, ↓reduceIte, Var.base] at this
            rw [(minimize_wf g p.1 w hm).1] at this
            simpa [Fscm.worldOf] using this
          · have hs' : selfIntervened p.1 = false := by simpa using hs
            simp only [hs', Bool.false_eq_true, ↓reduceIte]
            simp only [rkey, hself, hs', Bool.false_eq_true, ↓reduceIte] at this
            rw [minimize_same_rv g p.1 w hm M hM ν u]
            exact this

/-- **SIMPLIFY answers 'impossible' only for probability zero — all events, y0's reading of `Y_y`.** -/
theorem simplify_none_zero_y0reading (g : MG Name) (e : Event) (h : simplify g e = .ok none)
    (hnd : ∀ p ∈ e, (subNames p.1).Nodup)
    (hval : ∀ p ∈ e, ∀ i, p.2 = some i → i.name = p.1.name)
    (M : Fscm.Model) (hM : Fscm.Compatible M g) (ν : Fscm.BaseValues) (hν : ν.Distinct) :
    y0Read e = none ∨ ∃ e₀, y0Read e = some e₀ ∧ probEventOpt M ν e₀ = 0 := by
  rcases (simplify_pointwise_y0 g e hnd hval M hM ν hν).1 h with h0 | ⟨e₀, he₀, hnever⟩
  · exact Or.inl h0
  · exact Or.inr ⟨e₀, he₀, probEventOpt_zero M ν e₀ hnever⟩

/-- **SIMPLIFY preserves the probability of the event — all events, y0's reading of `Y_y`.** -/
theorem simplify_prob_y0reading (g : MG Name) (e e' : Event) (h : simplify g e = .ok (some e'))
    (hnd : ∀ p ∈ e, (subNames p.1).Nodup)
    (hval : ∀ p ∈ e, ∀ i, p.2 = some i → i.name = p.1.name)
    (M : Fscm.Model) (hM : Fscm.Compatible M g) (ν : Fscm.BaseValues) (hν : ν.Distinct) :
    ∃ e₀, y0Read e = some e₀ ∧ probEventOpt M ν e₀ = probEventOpt M ν e' := by
  obtain ⟨e₀, he₀, hiff⟩ := (simplify_pointwise_y0 g e hnd hval M hM ν hν).2 e' h
  exact ⟨e₀, he₀, probEventOpt_congr M ν e₀ e' hiff⟩

/-- the two defects that keep the full statement open, as facts about the model: the tautology `Y_y = y` is rewritten to
`Y = y`, and `Y_y = y ∧ Y = y'` is declared impossible -/
theorem simplify_reflexive_witness :
    simplify (MG.fromEdges [1] [] []) [({ name := 1, ivs := [⟨1, false⟩] }, some ⟨1, false⟩)] =
      .ok (some [({ name := 1 }, some ⟨1, false⟩)]) ∧
    simplify (MG.fromEdges [1] [] []) [({ name := 1, ivs := [⟨1, false⟩] }, some ⟨1, false⟩),
        ({ name := 1 }, some ⟨1, true⟩)] = .ok none := by
  constructor <;> decide

-- y0's reading of the self-intervened items of `test_simplify_y`: event_1 becomes `Y = y`, event_2 is impossible,
-- event_6 becomes `Y = y ∧ Y = y'`
example : y0Read [({ name := 1, ivs := [⟨1, false⟩] }, some ⟨1, false⟩)] = some [({ name := 1 }, some ⟨1, false⟩)] := by decide
example : y0Read [({ name := 1, ivs := [⟨1, false⟩] }, some ⟨1, true⟩)] = none := by decide
example : y0Read [({ name := 1, ivs := [⟨1, false⟩] }, some ⟨1, false⟩), ({ name := 1 }, some ⟨1, true⟩)] =
    some [({ name := 1 }, some ⟨1, false⟩), ({ name := 1 }, some ⟨1, true⟩)] := by decide

/-! ## non-vacuity: Figure 2a of Correa, Lee, Bareinboim 2022 (X=0, Y=1, W=2, Z=3) and the F8 witnesses -/

def fig2a : MG Name := MG.fromEdges [] [(3, 0), (3, 1), (0, 1), (0, 2), (2, 1)] [(3, 0), (2, 1)]
def iv (n : Name) : Iv := ⟨n, false⟩

example : fig2a.WF := wf_fromEdges _ _ _
-- ‖Y_{w,x,z}‖ keeps everything, ‖W_{y,z}‖ = W_z  (test_minimize_*), ‖Y_{w,y}‖ = Y_y
example : minimize fig2a { name := 1, ivs := [iv 0, iv 2, iv 3] } = .ok { name := 1, ivs := [iv 0, iv 2, iv 3] } := by decide
example : minimize fig2a { name := 2, ivs := [iv 1, iv 3] } = .ok { name := 2, ivs := [iv 3] } := by decide
example : minimize fig2a { name := 1, ivs := [iv 1, iv 2] } = .ok { name := 1, ivs := [iv 1] } := by decide
-- F8a witness: A -> B plus isolated C; ‖B_c‖ = B (was a ValueError)
example : minimize (MG.fromEdges [2] [(0, 1)] []) { name := 1, ivs := [iv 2] } = .ok { name := 1 } := by decide
-- Example 2.1: An(Y_x) = {Y_x, W_x, Z}, An(W_{yz}) = {W_z, X_z}, An(Y_w) = {Y_w, X, Z}
example : ctfAncestors fig2a { name := 1, ivs := [iv 0] } =
    .ok [{ name := 1, ivs := [iv 0] }, { name := 3 }, { name := 2, ivs := [iv 0] }] := by decide
example : ctfAncestors fig2a { name := 2, ivs := [iv 1, iv 3] } =
    .ok [{ name := 2, ivs := [iv 3] }, { name := 0, ivs := [iv 3] }] := by decide
example : ctfAncestors fig2a { name := 1, ivs := [iv 2] } =
    .ok [{ name := 1, ivs := [iv 2] }, { name := 3 }, { name := 0 }] := by decide
-- Example 4.2: ctf-factor form of Y_x is Y_{xwz}
example : convertOne fig2a { name := 1, ivs := [iv 0] } = .ok { name := 1, ivs := [iv 0, iv 2, iv 3] } := by decide
example : isCtfFactorForm fig2a [{ name := 1, ivs := [iv 0, iv 2, iv 3] }, { name := 2, ivs := [iv 0] },
    { name := 0, ivs := [iv 3] }, { name := 3 }] = .ok true := by decide
example : isCtfFactorForm fig2a [{ name := 1, ivs := [iv 0] }] = .ok false := by decide
-- F8b witness: A <-> C, B <-> C with C outside the sets: {A} and {B} stay apart (were merged)
example : componentsFromSets (MG.fromEdges [] [] [(0, 2), (1, 2)]) [[{ name := 0 }], [{ name := 1 }]] =
    [[{ name := 0 }], [{ name := 1 }]] := by decide
-- and a bidirected edge between members does merge
example : componentsFromSets (MG.fromEdges [] [] [(0, 1)]) [[{ name := 0 }], [{ name := 1 }]] =
    [[{ name := 0 }, { name := 1 }]] := by decide

-- conditioned variables (Def. 4.2): X is a member of An(Y) but not of An(Y_x); conditioning on X cuts the edges out of X;
-- a conditioned X_w (W is not an ancestor of X) only matches the member X after minimisation
example : condInAncestralSet fig2a [{ name := 0 }] { name := 1 } = .ok [0] := by decide
example : condInAncestralSet fig2a [{ name := 0 }] { name := 1, ivs := [iv 0] } = .ok [] := by decide
example : condInAncestralSet fig2a [{ name := 0, ivs := [iv 2] }] { name := 1 } = .ok [0] := by decide
example : ancestralSetAfter fig2a [{ name := 0 }] { name := 1 } = .ok [{ name := 1 }, { name := 3 }, { name := 2 }] := by decide
example : ancestralComponents fig2a [{ name := 0 }] [{ name := 1 }, { name := 0 }] =
    .ok [[{ name := 1 }, { name := 3 }, { name := 2 }, { name := 0 }]] := by decide
example : mergeCommon [[{ name := 0 }], [{ name := 0, ivs := [iv 1] }], [{ name := 2 }]] =
    [[{ name := 0 }, { name := 0, ivs := [iv 1] }], [{ name := 2 }]] := by decide

/-! ### the hypotheses of the semantic theorems are satisfiable: a concrete compatible functional SCM on X -> Y -/

def chain : MG Name := MG.fromEdges [] [(0, 1)] []
def chainModel : Fscm.Model where
  order := [0, 1]
  noise := [[1/2, 1/2], [1/2, 1/2]]
  pa := fun v => if v = 1 then [0] else []
  lat := fun v => [v]
  f := fun _ pa lat => (pa.sum + lat.sum) % 2

theorem chainModel_compatible : Fscm.Compatible chainModel chain where
  perm := by
    have : chain.nodes = [0, 1] := by decide
    rw [this]; exact List.Perm.refl _
  nodup := by decide
  pa_sub := by
    intro v p hp
    simp only [chainModel] at hp
    split at hp
    · rename_i hv; subst hv
      simp only [List.mem_singleton] at hp; subst hp; decide
    · cases hp
  topo := by
    intro l₁ v l₂ h p hp
    simp only [chainModel] at h hp
    match l₁, h with
    | [], h =>
      simp only [List.nil_append, List.cons.injEq] at h
      obtain ⟨rfl, _⟩ := h
      simp at hp
    | [a], h =>
      simp only [List.cons_append, List.nil_append, List.cons.injEq] at h
      obtain ⟨rfl, rfl, _⟩ := h
      simpa using hp
    | a :: b :: rest, h =>
      simp only [List.cons_append, List.cons.injEq] at h
      obtain ⟨_, _, h3⟩ := h
      cases rest <;> simp at h3
  lat_bi := by
    intro v w hvw h
    simp only [chainModel, List.mem_singleton] at h
    obtain ⟨j, rfl, rfl⟩ := h
    exact absurd rfl hvw

example : minimize chain { name := 0, ivs := [⟨1, true⟩] } = .ok { name := 0 } := by decide
/-- `X_{y'}` and `X` are the same random variable in the chain model -/
example (ν : Fscm.BaseValues) :
    Fscm.SameRV chainModel 0 (Fscm.worldOf ν [⟨1, true⟩]) 0 (Fscm.worldOf ν []) :=
  minimize_same_rv chain { name := 0, ivs := [⟨1, true⟩] } { name := 0 } (by decide) chainModel
    chainModel_compatible ν

/-- `Y_x = y ∧ Y_x = y'` has probability 0 in the chain model (SIMPLIFY answers `None`) -/
example (ν : Fscm.BaseValues) (hν : ν.Distinct) :
    probEventOpt chainModel ν [({ name := 1, ivs := [⟨0, false⟩] }, some ⟨1, false⟩),
      ({ name := 1, ivs := [⟨0, false⟩] }, some ⟨1, true⟩)] = 0 := by
  refine simplify_none_zero_partial chain _ (by decide) (by decide) ?_ chainModel chainModel_compatible ν hν
  intro p hp i hi
  simp only [List.mem_cons, List.not_mem_nil, or_false] at hp
  rcases hp with rfl | rfl <;> simp only [Option.some.injEq] at hi <;> subst hi <;> rfl

/-! ### the value theorem is not vacuous -/

theorem chainModel_normalised : ∀ pmf ∈ chainModel.noise, pmf.sum = 1 := by
  intro pmf hp
  simp only [chainModel, List.mem_cons, List.not_mem_nil, or_false, or_self] at hp
  subst hp
  norm_num

theorem chainModel_card : ∀ v pa lat, chainModel.f v pa lat < (fun _ => 2) v := by
  intro v pa lat
  exact Nat.mod_lt _ (by decide)

/-- `P(Y_x = y) = P(Y @ -X = y)`  (no summation: `X` is not an ancestor of `Y_x`) and
`P(Y = y) = Σ_X P(Y @ -X) P(X)` in the chain model, by the theorem -/
example (ν : Fscm.BaseValues) :
    factorisedValue chainModel ν (fun _ => 2) (.prob none [{ name := 1, ivs := [⟨0, false⟩] }] [])
        [({ name := 1, ivs := [⟨0, false⟩] }, some ⟨1, false⟩)] =
      probEventOpt chainModel ν [({ name := 1, ivs := [⟨0, false⟩] }, some ⟨1, false⟩)] :=
  factorisation_den_partial chain (wf_fromEdges _ _ _) _ _ _ rfl (by decide) (by decide) chainModel
    chainModel_compatible chainModel_normalised _ chainModel_card ν

example (ν : Fscm.BaseValues) :
    factorisedValue chainModel ν (fun _ => 2)
        (.sum (.prod [.prob none [{ name := 1, ivs := [⟨0, false⟩] }] [], .prob none [{ name := 0 }] []]) [{ name := 0 }])
        [({ name := 1, ivs := [⟨0, false⟩] }, some ⟨1, true⟩)] =
      probEventOpt chainModel ν [({ name := 1 }, some ⟨1, true⟩)] :=
  factorisation_den_partial chain (wf_fromEdges _ _ _) _ _ _ rfl (by decide) (by decide) chainModel
    chainModel_compatible chainModel_normalised _ chainModel_card ν

-- Example 4.2 / Eq. 16 of the paper, `P(y_x, x')` on Figure 2a, is outside the three classes …
example : factorizeClasses fig2a [({ name := 1, ivs := [iv 0] }, some ⟨1, false⟩), ({ name := 0 }, some ⟨0, true⟩)] =
    .ok (false, false, false) := by decide
-- … and the minimal inputs of the three open findings are inside
example : factorizeClasses chain [({ name := 1 }, some ⟨1, false⟩), ({ name := 1, ivs := [iv 0] }, some ⟨1, true⟩)] =
    .ok (true, true, false) := by decide
example : factorizeClasses (MG.fromEdges [] [(0, 1), (0, 2)] [])
    [({ name := 1, ivs := [iv 0] }, some ⟨1, false⟩), ({ name := 2 }, some ⟨2, false⟩)] = .ok (false, true, false) := by decide
example : factorizeClasses chain [({ name := 1 }, some ⟨1, false⟩), ({ name := 0 }, some ⟨0, true⟩)] =
    .ok (false, false, true) := by decide

end Y0.Ctf
