/-
  Property C20 — sigma-separation (work in progress: skeleton).
-/
import Y0.Model.Sigma

namespace Y0.MG

theorem triples_short {α : Type} (a b : α) : triples [a, b] = [] := rfl

end Y0.MG
