/-
  Property C20 — sigma-separation agrees with d-separation on acyclic graphs; on every mixed graph its verdict is
  symmetric in the two nodes and never separates two adjacent nodes.

  The theorems are about the executable model `Y0.Model.Sigma` (`MG.sigmaSeparated`) of
  `y0.algorithm.separation.sigma_separation.are_sigma_separated` AFTER the two `fix:` commits for defect F9
  (a directed edge with a parallel bidirected edge counts as directed; a collider is open when any descendant is
  conditioned on), which harness/props/c20.py compares with the Python on every run.

   1. what the model computes, in pure terms, and its exact error taxonomy   (`sigma_eq`, `sigma_missing_node`)
   2. symmetry on every mixed graph, cyclic or not                            (`sigma_symm`)
   3. adjacency on every mixed graph                                          (`sigma_adjacent`, `sigma_endpoint_conditioned`)
   4. agreement with m-separation / d-separation on acyclic graphs            (section 4: see the OPEN block)
-/
import Y0.Lemmas.SigmaPure
import Y0.Props.C04

namespace Y0.MG
variable {α : Type} [DecidableEq α]
open Relation

/-! ## 1. the verdict in pure terms -/

/-- the simple paths `nx.all_simple_paths(graph.disorient(), a, b)` enumerates -/
def sigmaPaths (G : MG α) (a b : α) : List (List α) :=
  simplePathsU G.disorient.biNbrs b (G.disorient.nodes.length + 1) [] a

theorem disorient_next_closed (G : MG α) :
    ∀ x ∈ G.disorient.nodes, ∀ y ∈ G.disorient.biNbrs x, y ∈ G.disorient.nodes := by
  intro x _ y hy
  have hwf : G.disorient.WF := wf_fromEdges _ _ _
  rcases (mem_biNbrs_iff G.disorient x y).1 hy with h | h
  · exact (hwf.bi_mem _ h).2
  · exact (hwf.bi_mem _ h).1

theorem disorient_next_symm (G : MG α) : ∀ x y, y ∈ G.disorient.biNbrs x → x ∈ G.disorient.biNbrs y := by
  intro x y h
  rw [mem_biNbrs_iff] at h ⊢
  exact Or.symm h

theorem mem_sigmaPaths (G : MG α) (a b : α) (ha : a ∈ G.disorient.nodes) (p : List α) :
    p ∈ G.sigmaPaths a b ↔ IsSimplePath G.disorient.biNbrs a b p := by
  constructor
  · exact isSimplePath_of_mem _ a b _ p
  · intro h
    apply mem_of_isSimplePath _ a b _ p h
    have := isSimplePath_length_le _ G.disorient.nodes (disorient_next_closed G) a b p h ha
    omega

/-- **What the model computes.**  With both nodes in the graph the test never raises; it says "separated" exactly
when no simple path of the undirected skeleton is Z-σ-open. -/
theorem sigma_eq (G : MG α) (hG : G.WF) (a b : α) (C : List α) (ha : a ∈ G.nodes) (hb : b ∈ G.nodes) :
    G.sigmaSeparated a b C = .ok (!(G.sigmaPaths a b).any (G.pOpen C)) := by
  have ha' : a ∈ G.disorient.nodes := (mem_nodes_disorient G hG a).2 ha
  have hb' : b ∈ G.disorient.nodes := (mem_nodes_disorient G hG b).2 hb
  have hpaths : G.disorient.allSimplePaths a b = .ok (G.sigmaPaths a b) := by
    simp [allSimplePaths, ha', hb', sigmaPaths]
  have hany := anyE_ok (G.isZSigmaOpen G.sigmaTable C) (G.pOpen C) (G.sigmaPaths a b) (by
    intro p hp
    have hsp := (mem_sigmaPaths G a b ha' p).1 hp
    apply isZSigmaOpen_ok G hG C p
    · rintro rfl; simp [IsSimplePath] at hsp
    · intro x hx
      exact (mem_nodes_disorient G hG x).1
        (isSimplePath_subset _ G.disorient.nodes (disorient_next_closed G) a b p hsp ha' x hx))
  simp [sigmaSeparated, equivalenceClasses_ok, hpaths, hany, bind, Except.bind, pure, Except.pure]

/-- the only failure: an endpoint that is not a node (`NodeNotFound` from `nx.all_simple_paths`); conditions
outside the graph are ignored -/
theorem sigma_missing_node (G : MG α) (hG : G.WF) (a b : α) (C : List α) (h : a ∉ G.nodes ∨ b ∉ G.nodes) :
    G.sigmaSeparated a b C = .error (.internal "NodeNotFound") := by
  have hmem := mem_nodes_disorient G hG
  by_cases ha : a ∈ G.nodes
  · have hb : b ∉ G.nodes := h.resolve_left (fun h => h ha)
    have ha' := (hmem a).2 ha
    have hb' : b ∉ G.disorient.nodes := fun h => hb ((hmem b).1 h)
    simp [sigmaSeparated, equivalenceClasses_ok, allSimplePaths, ha', hb', bind, Except.bind]
  · have ha' : a ∉ G.disorient.nodes := fun h => ha ((hmem a).1 h)
    simp [sigmaSeparated, equivalenceClasses_ok, allSimplePaths, ha', bind, Except.bind]

/-! ## 2. symmetry -/

/-- **Symmetry.**  On every mixed graph `from_edges` can build — cycles, self-loops, parallel edges included — and
for ALL arguments, the outcome (verdict or error) for `(a, b)` is the outcome for `(b, a)`. -/
theorem sigma_symm (G : MG α) (hG : G.WF) (a b : α) (C : List α) :
    G.sigmaSeparated a b C = G.sigmaSeparated b a C := by
  by_cases hab : a ∈ G.nodes ∧ b ∈ G.nodes
  · obtain ⟨ha, hb⟩ := hab
    rw [sigma_eq G hG a b C ha hb, sigma_eq G hG b a C hb ha]
    congr 2
    have ha' : a ∈ G.disorient.nodes := (mem_nodes_disorient G hG a).2 ha
    have hb' : b ∈ G.disorient.nodes := (mem_nodes_disorient G hG b).2 hb
    have key : ∀ x y, x ∈ G.disorient.nodes → y ∈ G.disorient.nodes →
        (G.sigmaPaths x y).any (G.pOpen C) = true → (G.sigmaPaths y x).any (G.pOpen C) = true := by
      intro x y hx hy h
      rw [List.any_eq_true] at h ⊢
      obtain ⟨p, hp, hopen⟩ := h
      refine ⟨p.reverse, ?_, by rw [pOpen_reverse]; exact hopen⟩
      rw [mem_sigmaPaths G y x hy]
      exact isSimplePath_reverse _ (disorient_next_symm G) x y p ((mem_sigmaPaths G x y hx p).1 hp)
    rw [Bool.eq_iff_iff]
    exact ⟨key a b ha' hb', key b a hb' ha'⟩
  · have h1 : a ∉ G.nodes ∨ b ∉ G.nodes := by
      by_contra hc; push_neg at hc; exact hab hc
    rw [sigma_missing_node G hG a b C h1, sigma_missing_node G hG b a C (Or.symm h1)]

/-! ## 3. adjacency -/

/-- **Adjacency.**  On every mixed graph, two distinct nodes joined by an edge (of either kind, either direction),
neither of them conditioned on, are never reported separated — whatever else is conditioned on. -/
theorem sigma_adjacent (G : MG α) (hG : G.WF) (a b : α) (C : List α) (hadj : G.Adj a b) (hab : a ≠ b)
    (ha : a ∉ C) (hb : b ∉ C) : G.sigmaSeparated a b C = .ok false := by
  obtain ⟨han, hbn⟩ := adj_nodes G hG hadj
  rw [sigma_eq G hG a b C han hbn]
  have ha' : a ∈ G.disorient.nodes := (mem_nodes_disorient G hG a).2 han
  have hp : [a, b] ∈ G.sigmaPaths a b := by
    rw [mem_sigmaPaths G a b ha']
    refine ⟨rfl, rfl, by simp [hab], ?_⟩
    exact List.IsChain.cons_cons ((mem_disorient_biNbrs G a b).2 hadj) (List.isChain_singleton _)
  have hopen : G.pOpen C [a, b] = true := by
    simp [pOpen, triples, ha, hb]
  have : (G.sigmaPaths a b).any (G.pOpen C) = true := List.any_eq_true.2 ⟨[a, b], hp, hopen⟩
  simp [this]

/-- the hypothesis `a ∉ C`, `b ∉ C` of `sigma_adjacent` is not silently load-bearing: with an endpoint conditioned
on, every path is closed by definition and the test answers "separated", adjacent or not -/
theorem sigma_endpoint_conditioned (G : MG α) (hG : G.WF) (a b : α) (C : List α) (ha : a ∈ G.nodes)
    (hb : b ∈ G.nodes) (h : a ∈ C ∨ b ∈ C) : G.sigmaSeparated a b C = .ok true := by
  rw [sigma_eq G hG a b C ha hb]
  have ha' : a ∈ G.disorient.nodes := (mem_nodes_disorient G hG a).2 ha
  have : (G.sigmaPaths a b).any (G.pOpen C) = false := by
    rw [List.any_eq_false]
    intro p hp
    obtain ⟨h1, h2, _, _⟩ := (mem_sigmaPaths G a b ha' p).1 hp
    rcases h with h | h <;> simp [pOpen, h1, h2, h]
  simp [this]

/-! ## non-vacuity -/

/-- a cyclic graph with a parallel pair and a self-loop: `0 → 1 → 2 → 0`, `3 → 0`, `2 ↔ 3`, `1 → 1` -/
def sigmaExample : MG Nat := fromEdges [] [(0, 1), (1, 2), (2, 0), (3, 0), (1, 1)] [(2, 3)]

example : sigmaExample.WF := wf_fromEdges _ _ _
example : sigmaExample.Adj 2 3 := Or.inr (Or.inr (Or.inl (by decide)))
example : sigmaExample.sigmaSeparated 2 3 [0, 1] = .ok false := by decide
example : sigmaExample.sigmaSeparated 3 1 [0] = sigmaExample.sigmaSeparated 1 3 [0] := by decide
/-- the F9 witnesses after the fixes: `1 → 0 → 2` with `0 ↔ 2` is open given `∅`; the collider `1 → 0 ← 2` with
`0 → 3 → 4` is open given `{4}` -/
example : (fromEdges [] [(1, 0), (0, 2)] [(0, 2)] : MG Nat).sigmaSeparated 1 2 [] = .ok false := by decide
example : (fromEdges [] [(1, 0), (2, 0), (0, 3), (3, 4)] [] : MG Nat).sigmaSeparated 1 2 [4] = .ok false := by decide
example : (fromEdges [] [(1, 0), (2, 0), (0, 3), (3, 4)] [] : MG Nat).sigmaSeparated 1 2 [] = .ok true := by decide

end Y0.MG
