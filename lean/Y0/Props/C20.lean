/-
  Property C20 — sigma-separation agrees with d-separation on acyclic graphs; on every mixed graph its verdict is
  symmetric in the two nodes and never separates two adjacent nodes.

  The theorems are about the executable model `Y0.Model.Sigma` (`MG.sigmaSeparated`) of
  `y0.algorithm.separation.sigma_separation.are_sigma_separated` AFTER the two `fix:` commits for defect F9
  (a directed edge with a parallel bidirected edge counts as directed; a collider is open when any descendant is
  conditioned on), which harness/props/c20.py compares with the Python on every run.

   1. what the model computes, in pure terms, and its exact error taxonomy   (`sigma_eq`, `sigma_missing_node`)
   2. symmetry on every mixed graph, cyclic or not                            (`sigma_symm`)
   3. adjacency on every mixed graph                                          (`sigma_adjacent`, `sigma_endpoint_conditioned`)
   4. agreement with m-separation / d-separation on acyclic graphs            (`sigma_iff_mseparated`, `sigma_iff_dsep_canonical`,
                                                                               `sigma_agrees_with_dsep`)
-/
import Y0.Lemmas.SigmaAgree
import Y0.Props.C04

namespace Y0.MG
variable {α : Type} [DecidableEq α]
open Relation

/-! ## 1. the verdict in pure terms -/

/-- the simple paths `nx.all_simple_paths(graph.disorient(), a, b)` enumerates -/
def sigmaPaths (G : MG α) (a b : α) : List (List α) :=
  simplePathsU G.disorient.biNbrs b (G.disorient.nodes.length + 1) [] a

theorem disorient_next_closed (G : MG α) :
    ∀ x ∈ G.disorient.nodes, ∀ y ∈ G.disorient.biNbrs x, y ∈ G.disorient.nodes := by
  intro x _ y hy
  have hwf : G.disorient.WF := wf_fromEdges _ _ _
  rcases (mem_biNbrs_iff G.disorient x y).1 hy with h | h
  · exact (hwf.bi_mem _ h).2
  · exact (hwf.bi_mem _ h).1

theorem disorient_next_symm (G : MG α) : ∀ x y, y ∈ G.disorient.biNbrs x → x ∈ G.disorient.biNbrs y := by
  intro x y h
  rw [mem_biNbrs_iff] at h ⊢
  exact Or.symm h

theorem mem_sigmaPaths (G : MG α) (a b : α) (ha : a ∈ G.disorient.nodes) (p : List α) :
    p ∈ G.sigmaPaths a b ↔ IsSimplePath G.disorient.biNbrs a b p := by
  constructor
  · exact isSimplePath_of_mem _ a b _ p
  · intro h
    apply mem_of_isSimplePath _ a b _ p h
    have := isSimplePath_length_le _ G.disorient.nodes (disorient_next_closed G) a b p h ha
    omega

/-- **What the model computes.**  With both nodes in the graph the test never raises; it says "separated" exactly
when no simple path of the undirected skeleton is Z-σ-open. -/
theorem sigma_eq (G : MG α) (hG : G.WF) (a b : α) (C : List α) (ha : a ∈ G.nodes) (hb : b ∈ G.nodes) :
    G.sigmaSeparated a b C = .ok (!(G.sigmaPaths a b).any (G.pOpen C)) := by
  have ha' : a ∈ G.disorient.nodes := (mem_nodes_disorient G hG a).2 ha
  have hb' : b ∈ G.disorient.nodes := (mem_nodes_disorient G hG b).2 hb
  have hpaths : G.disorient.allSimplePaths a b = .ok (G.sigmaPaths a b) := by
    simp [allSimplePaths, ha', hb', sigmaPaths]
  have hany := anyE_ok (G.isZSigmaOpen G.sigmaTable C) (G.pOpen C) (G.sigmaPaths a b) (by
    intro p hp
    have hsp := (mem_sigmaPaths G a b ha' p).1 hp
    apply isZSigmaOpen_ok G hG C p
    · rintro rfl; simp [IsSimplePath] at hsp
    · intro x hx
      exact (mem_nodes_disorient G hG x).1
        (isSimplePath_subset _ G.disorient.nodes (disorient_next_closed G) a b p hsp ha' x hx))
  simp [sigmaSeparated, equivalenceClasses_ok, hpaths, hany, bind, Except.bind, pure, Except.pure]

/-- the only failure: an endpoint that is not a node (`NodeNotFound` from `nx.all_simple_paths`); conditions
outside the graph are ignored -/
theorem sigma_missing_node (G : MG α) (hG : G.WF) (a b : α) (C : List α) (h : a ∉ G.nodes ∨ b ∉ G.nodes) :
    G.sigmaSeparated a b C = .error (.internal "NodeNotFound") := by
  have hmem := mem_nodes_disorient G hG
  by_cases ha : a ∈ G.nodes
  · have hb : b ∉ G.nodes := h.resolve_left (fun h => h ha)
    have ha' := (hmem a).2 ha
    have hb' : b ∉ G.disorient.nodes := fun h => hb ((hmem b).1 h)
    simp [sigmaSeparated, equivalenceClasses_ok, allSimplePaths, ha', hb', bind, Except.bind]
  · have ha' : a ∉ G.disorient.nodes := fun h => ha ((hmem a).1 h)
    simp [sigmaSeparated, equivalenceClasses_ok, allSimplePaths, ha', bind, Except.bind]

/-! ## 2. symmetry -/

/-- **Symmetry.**  On every mixed graph `from_edges` can build — cycles, self-loops, parallel edges included — and
for ALL arguments, the outcome (verdict or error) for `(a, b)` is the outcome for `(b, a)`. -/
theorem sigma_symm (G : MG α) (hG : G.WF) (a b : α) (C : List α) :
    G.sigmaSeparated a b C = G.sigmaSeparated b a C := by
  by_cases hab : a ∈ G.nodes ∧ b ∈ G.nodes
  · obtain ⟨ha, hb⟩ := hab
    rw [sigma_eq G hG a b C ha hb, sigma_eq G hG b a C hb ha]
    congr 2
    have ha' : a ∈ G.disorient.nodes := (mem_nodes_disorient G hG a).2 ha
    have hb' : b ∈ G.disorient.nodes := (mem_nodes_disorient G hG b).2 hb
    have key : ∀ x y, x ∈ G.disorient.nodes → y ∈ G.disorient.nodes →
        (G.sigmaPaths x y).any (G.pOpen C) = true → (G.sigmaPaths y x).any (G.pOpen C) = true := by
      intro x y hx hy h
      rw [List.any_eq_true] at h ⊢
      obtain ⟨p, hp, hopen⟩ := h
      refine ⟨p.reverse, ?_, by rw [pOpen_reverse]; exact hopen⟩
      rw [mem_sigmaPaths G y x hy]
      exact isSimplePath_reverse _ (disorient_next_symm G) x y p ((mem_sigmaPaths G x y hx p).1 hp)
    rw [Bool.eq_iff_iff]
    exact ⟨key a b ha' hb', key b a hb' ha'⟩
  · have h1 : a ∉ G.nodes ∨ b ∉ G.nodes := by
      by_contra hc; push_neg at hc; exact hab hc
    rw [sigma_missing_node G hG a b C h1, sigma_missing_node G hG b a C (Or.symm h1)]

/-! ## 3. adjacency -/

/-- **Adjacency.**  On every mixed graph, two distinct nodes joined by an edge (of either kind, either direction),
neither of them conditioned on, are never reported separated — whatever else is conditioned on. -/
theorem sigma_adjacent (G : MG α) (hG : G.WF) (a b : α) (C : List α) (hadj : G.Adj a b) (hab : a ≠ b)
    (ha : a ∉ C) (hb : b ∉ C) : G.sigmaSeparated a b C = .ok false := by
  obtain ⟨han, hbn⟩ := adj_nodes G hG hadj
  rw [sigma_eq G hG a b C han hbn]
  have ha' : a ∈ G.disorient.nodes := (mem_nodes_disorient G hG a).2 han
  have hp : [a, b] ∈ G.sigmaPaths a b := by
    rw [mem_sigmaPaths G a b ha']
    refine ⟨rfl, rfl, by simp [hab], ?_⟩
    exact List.IsChain.cons_cons ((mem_disorient_biNbrs G a b).2 hadj) (List.isChain_singleton _)
  have hopen : G.pOpen C [a, b] = true := by
    simp [pOpen, triples, ha, hb]
  have : (G.sigmaPaths a b).any (G.pOpen C) = true := List.any_eq_true.2 ⟨[a, b], hp, hopen⟩
  simp [this]

/-- the hypothesis `a ∉ C`, `b ∉ C` of `sigma_adjacent` is not silently load-bearing: with an endpoint conditioned
on, every path is closed by definition and the test answers "separated", adjacent or not -/
theorem sigma_endpoint_conditioned (G : MG α) (hG : G.WF) (a b : α) (C : List α) (ha : a ∈ G.nodes)
    (hb : b ∈ G.nodes) (h : a ∈ C ∨ b ∈ C) : G.sigmaSeparated a b C = .ok true := by
  rw [sigma_eq G hG a b C ha hb]
  have ha' : a ∈ G.disorient.nodes := (mem_nodes_disorient G hG a).2 ha
  have : (G.sigmaPaths a b).any (G.pOpen C) = false := by
    rw [List.any_eq_false]
    intro p hp
    obtain ⟨h1, h2, _, _⟩ := (mem_sigmaPaths G a b ha' p).1 hp
    rcases h with h | h <;> simp [pOpen, h1, h2, h]
  simp [this]

/-! ## 4. agreement with d-separation on acyclic graphs -/

/-- a Z-σ-open simple path is found exactly when an m-connecting path exists (acyclic graphs) -/
theorem sigma_open_iff_mconn (G : MG α) (hG : G.WF) (hA : G.Acyclic) (a b : α) (C : List α) (ha : a ∈ G.nodes)
    (hab : a ≠ b) : (G.sigmaPaths a b).any (G.pOpen C) = true ↔ G.MConnPath a b C := by
  have ha' : a ∈ G.disorient.nodes := (mem_nodes_disorient G hG a).2 ha
  rw [List.any_eq_true]
  constructor
  · rintro ⟨p, hp, hopen⟩
    obtain ⟨haC, hbC, μ, hw⟩ := mwalk_of_open_path G hG hA C a b ha p ((mem_sigmaPaths G a b ha' p).1 hp) hopen
    exact mconnPath_of_mconnWalk G C a b hab ((mconnWalk_iff_mwalk G C a b hab).2 ⟨haC, hbC, μ, hw⟩)
  · intro h
    obtain ⟨p, hp, hopen⟩ := open_path_of_mconnPath G hG C a b h
    exact ⟨p, (mem_sigmaPaths G a b ha' p).2 hp, hopen⟩

/-- **Agreement, main clause.**  On every acyclic directed mixed graph, for all distinct nodes `a`, `b` (conditioned
on or not) the sigma-separation test says "separated" exactly when there is no m-connecting path … -/
theorem sigma_iff_mseparated (G : MG α) (hG : G.WF) (hA : G.Acyclic) (a b : α) (C : List α) (ha : a ∈ G.nodes)
    (hb : b ∈ G.nodes) (hab : a ≠ b) (s : Bool) (hs : G.sigmaSeparated a b C = .ok s) :
    s = true ↔ ¬ G.MConnPath a b C := by
  rw [sigma_eq G hG a b C ha hb] at hs
  cases hs
  rw [← sigma_open_iff_mconn G hG hA a b C ha hab]
  simp

/-- … i.e. exactly when `a` and `b` are d-separated given `C` in the canonical DAG (true d-separation) -/
theorem sigma_iff_dsep_canonical (G : MG α) (hG : G.WF) (hA : G.Acyclic) (a b : α) (C : List α) (ha : a ∈ G.nodes)
    (hb : b ∈ G.nodes) (hab : a ≠ b) (s : Bool) (hs : G.sigmaSeparated a b C = .ok s) :
    s = true ↔ ¬ G.DConnCanonical a b C := by
  rw [sigma_iff_mseparated G hG hA a b C ha hb hab s hs, mconn_iff_dconn_canonical G a b C hab]

/-- the two tests of y0 return the same verdict on every query in the property's quantifier -/
theorem sigma_agrees_with_dsep (G : MG α) (hG : G.WF) (hA : G.Acyclic) (a b : α) (C : List α)
    (hq : G.ValidQuery a b C) (hab : a ≠ b) (haC : a ∉ C) (hbC : b ∉ C) :
    G.sigmaSeparated a b C = G.dSeparated a b C := by
  obtain ⟨s', hs'⟩ := dsep_total G hG a b C hq haC hbC
  have hs := sigma_eq G hG a b C hq.1 hq.2.1
  rw [hs, hs']
  congr 1
  have h1 := sigma_iff_mseparated G hG hA a b C hq.1 hq.2.1 hab _ hs
  have h2 := dsep_iff_mseparated G hG a b C hq hab haC hbC s' hs'
  have : (!(G.sigmaPaths a b).any (G.pOpen C)) = true ↔ s' = true := by rw [h1, h2]
  cases hx : (!(G.sigmaPaths a b).any (G.pOpen C)) <;> cases s' <;> simp_all

/-! ## non-vacuity -/

/-- a cyclic graph with a parallel pair and a self-loop: `0 → 1 → 2 → 0`, `3 → 0`, `2 ↔ 3`, `1 → 1` -/
def sigmaExample : MG Nat := fromEdges [] [(0, 1), (1, 2), (2, 0), (3, 0), (1, 1)] [(2, 3)]

example : sigmaExample.WF := wf_fromEdges _ _ _
example : sigmaExample.Adj 2 3 := Or.inr (Or.inr (Or.inl (by decide)))
example : sigmaExample.sigmaSeparated 2 3 [0, 1] = .ok false := by decide
example : sigmaExample.sigmaSeparated 3 1 [0] = sigmaExample.sigmaSeparated 1 3 [0] := by decide
/-- the F9 witnesses after the fixes: `1 → 0 → 2` with `0 ↔ 2` is open given `∅`; the collider `1 → 0 ← 2` with
`0 → 3 → 4` is open given `{4}` -/
example : (fromEdges [] [(1, 0), (0, 2)] [(0, 2)] : MG Nat).sigmaSeparated 1 2 [] = .ok false := by decide
example : (fromEdges [] [(1, 0), (2, 0), (0, 3), (3, 4)] [] : MG Nat).sigmaSeparated 1 2 [4] = .ok false := by decide
example : (fromEdges [] [(1, 0), (2, 0), (0, 3), (3, 4)] [] : MG Nat).sigmaSeparated 1 2 [] = .ok true := by decide

/-- the hypotheses of the agreement theorems are satisfiable: the F9a witness is a well-formed acyclic graph -/
example : (fromEdges [] [(1, 0), (0, 2)] [(0, 2)] : MG Nat).Acyclic := by
  apply acyclic_of_rank _ (fun v => if v = 1 then 0 else if v = 0 then 1 else 2)
  intro u v h
  have h' : (u, v) ∈ [(1, 0), (0, 2)] := by
    have : (fromEdges [] [(1, 0), (0, 2)] [(0, 2)] : MG Nat).di = [(1, 0), (0, 2)] := by decide
    rw [DiEdge, this] at h; exact h
  simp only [List.mem_cons, Prod.mk.injEq, List.not_mem_nil, or_false] at h'
  rcases h' with ⟨rfl, rfl⟩ | ⟨rfl, rfl⟩ <;> simp

end Y0.MG
