/-
  Property C04 — d-separation verdicts equal true m-separation (work in progress: skeleton).
-/
import Y0.Model.Sep
import Y0.Lemmas.Closure

namespace Y0

theorem Judgement.create_comm (a b : Nat) (C : List Nat) (s : Bool) :
    Judgement.create a b C s = Judgement.create b a C s := by
  unfold Judgement.create
  by_cases h : a ≤ b <;> by_cases h' : b ≤ a <;> simp [h, h'] <;> omega

end Y0
