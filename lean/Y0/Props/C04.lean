/-
  Property C04 — d-separation verdicts equal true m-separation in the mixed graph.

  Every theorem is about the executable model `Y0.Model.Sep` (`MG.dSeparated`, `MG.areDSeparated`,
  `Judgement`), which the correspondence check (harness/props/c04.py) compares with
  `y0.algorithm.conditional_independencies.are_d_separated` on every run.  The model is the model of the
  code AFTER the `fix:` for defect F2 (clique on every district of the ancestral graph with its parents).

  Reading guide.  `G.WF` is what `NxMixedGraph.from_edges` guarantees (`wf_fromEdges`).  `G.ValidQuery a b C`
  says `a`, `b` and every member of `C` are nodes.  `G.AugSeparated a b C`, `G.MConnPath a b C`,
  `G.MConnWalk a b C`, `G.DConnCanonical a b C` are the relational definitions of Y0/Spec/SepSpec.lean.

  Sections
   1. totality and the exact error taxonomy
   2. the verdict is the augmented-graph criterion           (`dsep_iff_augmented`)
   3. symmetry in (a, b)                                       (`dsep_symm`)
   4. insertion-order independence                            (`dsep_equiv_congr`)
   5. the judgement record is canonical                        (`judgement_canonical`, `areDSeparated_record`)
   6. the augmented-graph criterion is m-separation            (`augmented_iff_mconn…`), canonical DAG
-/
import Y0.Lemmas.SepVerdict
import Y0.Lemmas.SepSort
import Y0.Lemmas.SepDag

namespace Y0.MG
variable {α : Type} [DecidableEq α]
open Relation

/-! ## 1. totality and error taxonomy -/

/-- an endpoint or a condition that is not a node: `KeyError`, nothing else -/
theorem dsep_invalid (G : MG α) (a b : α) (C : List α) (h : ¬ G.ValidQuery a b C) :
    G.dSeparated a b C = .error (.invalidInput "KeyError") := dSeparated_invalid G a b C h

/-- all arguments are nodes but an endpoint is conditioned on: `nx.has_path` raises `NodeNotFound`
(outside the property's quantifier; stated so that the hypothesis `a ∉ C`, `b ∉ C` below is not
silently load-bearing) -/
theorem dsep_endpoint_conditioned (G : MG α) (hG : G.WF) (a b : α) (C : List α)
    (hq : G.ValidQuery a b C) (h : a ∈ C ∨ b ∈ C) :
    G.dSeparated a b C = .error (.internal "NodeNotFound") := dSeparated_endpoint_conditioned G hG a b C hq h

/-- on every query in the property's quantifier the test returns a verdict (it never raises) -/
theorem dsep_total (G : MG α) (hG : G.WF) (a b : α) (C : List α) (hq : G.ValidQuery a b C)
    (ha : a ∉ C) (hb : b ∉ C) : ∃ s, G.dSeparated a b C = .ok s := by
  obtain ⟨s, hs, _⟩ := dSeparated_verdict G hG a b C hq ha hb
  exact ⟨s, hs⟩

/-! ## 2. the verdict is separation in the augmented ancestral graph minus `C` -/

/-- `are_d_separated` says "separated" exactly when `b` is not reachable from `a` in the augmented graph of
the ancestral sub-graph of `{a, b} ∪ C` after deleting `C` (relational definition `AugSeparated`). -/
theorem dsep_iff_augmented (G : MG α) (hG : G.WF) (a b : α) (C : List α) (hq : G.ValidQuery a b C)
    (ha : a ∉ C) (hb : b ∉ C) (s : Bool) (hs : G.dSeparated a b C = .ok s) :
    s = true ↔ G.AugSeparated a b C := by
  obtain ⟨s', hs', h⟩ := dSeparated_verdict G hG a b C hq ha hb
  rw [hs] at hs'
  cases hs'
  exact h

/-! ## 3. symmetry -/

theorem biIn_symm (G : MG α) (P : α → Prop) {x y : α} (h : G.BiIn P x y) : G.BiIn P y x :=
  ⟨Or.symm h.1, h.2.2, h.2.1⟩

theorem rtg_symm {β : Type} {R : β → β → Prop} (hR : ∀ x y, R x y → R y x) {x y : β}
    (h : ReflTransGen R x y) : ReflTransGen R y x := by
  induction h with
  | refl => exact .refl
  | tail _ hbc ih => exact .head (hR _ _ hbc) ih

theorem augEdge_symm (G : MG α) (P : α → Prop) {u v : α} (h : G.AugEdge P u v) : G.AugEdge P v u := by
  obtain ⟨hu, hv, h | ⟨x, y, hx, hy, hc, hux, hvy⟩⟩ := h
  · refine ⟨hv, hu, Or.inl ?_⟩
    rcases h with h | h | h
    · exact Or.inr (Or.inl h)
    · exact Or.inl h
    · exact Or.inr (Or.inr (Or.symm h))
  · exact ⟨hv, hu, Or.inr ⟨y, x, hy, hx, rtg_symm (fun _ _ => biIn_symm G P) hc, hvy, hux⟩⟩

theorem anc_swap (G : MG α) (a b : α) (C : List α) (w : α) : G.Anc (a :: b :: C) w ↔ G.Anc (b :: a :: C) w := by
  simp only [Anc, List.mem_cons]
  constructor <;> rintro ⟨s, hs, h⟩ <;> exact ⟨s, by tauto, h⟩

theorem augStep_swap (G : MG α) (a b : α) (C : List α) (u v : α) :
    G.AugStep a b C u v ↔ G.AugStep b a C u v := by
  simp only [AugStep, augEdge_congr G (anc_swap G a b C)]

theorem augStep_symm (G : MG α) (a b : α) (C : List α) {u v : α} (h : G.AugStep a b C u v) :
    G.AugStep a b C v u := ⟨augEdge_symm G _ h.1, h.2.2, h.2.1⟩

/-- the specification itself is symmetric -/
theorem augSeparated_symm (G : MG α) (a b : α) (C : List α) : G.AugSeparated a b C ↔ G.AugSeparated b a C := by
  have key : ∀ a b : α, G.AugConnected a b C → G.AugConnected b a C := by
    intro a b h
    have h' := rtg_symm (fun _ _ => augStep_symm G a b C) h
    exact ReflTransGen.mono (fun u v => (augStep_swap G a b C u v).1) _ _ h'
  exact not_congr ⟨key a b, key b a⟩

theorem validQuery_swap (G : MG α) (a b : α) (C : List α) : G.ValidQuery a b C ↔ G.ValidQuery b a C := by
  simp only [ValidQuery]; tauto

/-- **Symmetry.**  For every graph the Python API can build and ALL arguments (valid or not), the outcome of
the test — verdict or error — does not depend on the order of the two nodes. -/
theorem dsep_symm (G : MG α) (hG : G.WF) (a b : α) (C : List α) :
    G.dSeparated a b C = G.dSeparated b a C := by
  by_cases hq : G.ValidQuery a b C
  · have hq' := (validQuery_swap G a b C).1 hq
    by_cases hc : a ∈ C ∨ b ∈ C
    · rw [dSeparated_endpoint_conditioned G hG a b C hq hc,
        dSeparated_endpoint_conditioned G hG b a C hq' (Or.symm hc)]
    · have ha : a ∉ C := fun h => hc (Or.inl h)
      have hb : b ∉ C := fun h => hc (Or.inr h)
      obtain ⟨s, hs, h⟩ := dSeparated_verdict G hG a b C hq ha hb
      obtain ⟨s', hs', h'⟩ := dSeparated_verdict G hG b a C hq' hb ha
      rw [hs, hs']
      congr 1
      have : s = true ↔ s' = true := by rw [h, h', augSeparated_symm]
      cases s <;> cases s' <;> simp_all
  · rw [dSeparated_invalid G a b C hq, dSeparated_invalid G b a C (fun h => hq ((validQuery_swap G b a C).1 h))]

/-! ## 4. insertion-order independence -/

theorem augSeparated_congr (G H : MG α) (hd : G.DiEdge = H.DiEdge) (hb : G.BiEdge = H.BiEdge)
    (a b : α) (C : List α) : G.AugSeparated a b C ↔ H.AugSeparated a b C := by
  have hbi : ∀ P : α → Prop, G.BiIn P = H.BiIn P := by
    intro P; funext x y; simp only [BiIn, hb]
  have hanc : ∀ S : List α, G.Anc S = H.Anc S := by
    intro S; funext w; simp only [Anc, hd]
  have hstep : G.AugStep a b C = H.AugStep a b C := by
    funext u v; simp only [AugStep, AugEdge, Adj, hanc, hd, hb, hbi]
  simp only [AugSeparated, AugConnected, hstep]

/-- **Order independence.**  Two constructions of the same graph (`NxMixedGraph.__eq__`: same node set, same
directed edges, same bidirected edges up to orientation — any insertion order, any repetition) give the same
outcome, verdict or error, on all arguments. -/
theorem dsep_equiv_congr (G H : MG α) (hG : G.WF) (hH : H.WF) (h : G.equiv H = true) (a b : α) (C : List α) :
    G.dSeparated a b C = H.dSeparated a b C := by
  rw [equiv_iff] at h
  obtain ⟨hn, hd, hb⟩ := h
  have hd' : G.DiEdge = H.DiEdge := by funext u v; exact propext (hd u v)
  have hb' : G.BiEdge = H.BiEdge := by funext u v; exact propext (hb u v)
  have hv : G.ValidQuery a b C ↔ H.ValidQuery a b C := by simp only [ValidQuery, hn]
  by_cases hq : G.ValidQuery a b C
  · have hq' := hv.1 hq
    by_cases hc : a ∈ C ∨ b ∈ C
    · rw [dSeparated_endpoint_conditioned G hG a b C hq hc, dSeparated_endpoint_conditioned H hH a b C hq' hc]
    · have ha : a ∉ C := fun h => hc (Or.inl h)
      have hb'' : b ∉ C := fun h => hc (Or.inr h)
      obtain ⟨s, hs, h1⟩ := dSeparated_verdict G hG a b C hq ha hb''
      obtain ⟨s', hs', h2⟩ := dSeparated_verdict H hH a b C hq' ha hb''
      rw [hs, hs']
      congr 1
      have : s = true ↔ s' = true := by rw [h1, h2, augSeparated_congr G H hd' hb']
      cases s <;> cases s' <;> simp_all
  · rw [dSeparated_invalid G a b C hq, dSeparated_invalid H a b C (fun h => hq (hv.2 h))]

/-! ## 6. the augmented-graph criterion is m-separation, which is d-separation in the canonical DAG

The classical theorem (Lauritzen, Dawid, Larsen & Leimer 1990 for DAGs; Richardson 2003 for ADMGs), proved here
from first principles for every directed mixed graph — acyclicity is not needed for the equivalences, only for
`dagOf G` to be a DAG (`dagOf_acyclic`).  The proof is in Y0/Lemmas/SepWalk.lean (criterion ⟺ open walk),
Y0/Lemmas/SepPath.lean (open walk ⟺ open path) and Y0/Lemmas/SepDag.lean (mixed graph ⟺ canonical DAG). -/

/-- separation in the augmented ancestral graph minus `C`  ⟺  no m-connecting path -/
theorem augmented_iff_mconn (G : MG α) (a b : α) (C : List α) (hab : a ≠ b) (ha : a ∉ C) (hb : b ∉ C) :
    G.AugSeparated a b C ↔ ¬ G.MConnPath a b C := by
  unfold AugSeparated
  rw [augConnected_iff_mwalk G C a b ha hb, mconnPath_iff_mconnWalk G C a b hab, mconnWalk_iff_mwalk G C a b hab]
  simp [ha, hb]

/-- an m-connecting path in the mixed graph  ⟺  a d-connecting path in the canonical DAG (each bidirected
edge replaced by a fresh latent common parent) -/
theorem mconn_iff_dconn_canonical (G : MG α) (a b : α) (C : List α) (hab : a ≠ b) :
    G.MConnPath a b C ↔ G.DConnCanonical a b C := mconnPath_iff_dconnCanonical G C a b hab

/-- paths and walks define the same connection relation -/
theorem mconn_path_iff_walk (G : MG α) (a b : α) (C : List α) (hab : a ≠ b) :
    G.MConnPath a b C ↔ G.MConnWalk a b C := mconnPath_iff_mconnWalk G C a b hab

theorem dag_tg_from_obs (G : MG α) (y : α) (n : LNode α) (h : TransGen G.dagOf.DiEdge (.obs y) n) :
    ∃ z, n = .obs z ∧ TransGen G.DiEdge y z := by
  induction h with
  | single h =>
    obtain ⟨v, rfl, hv⟩ := dag_di_from_obs G y _ h
    exact ⟨v, rfl, .single hv⟩
  | tail _ hbc ih =>
    obtain ⟨z, rfl, hyz⟩ := ih
    obtain ⟨v, rfl, hzv⟩ := dag_di_from_obs G z _ hbc
    exact ⟨v, rfl, hyz.tail hzv⟩

/-- the canonical DAG of an acyclic mixed graph is a DAG: no directed cycle, no bidirected edge -/
theorem dagOf_acyclic (G : MG α) (hG : G.Acyclic) : G.dagOf.Acyclic ∧ ∀ x y, ¬ G.dagOf.BiEdge x y := by
  refine ⟨?_, dag_no_bi G⟩
  intro n hn
  cases n with
  | obs v =>
    obtain ⟨z, hz, hvz⟩ := dag_tg_from_obs G v _ hn
    cases hz
    exact hG v hvz
  | lat e =>
    rcases TransGen.tail'_iff.1 hn with ⟨c, _, hc⟩
    exact dag_di_to_lat G c e hc

/-- **C04, main clause.**  For every graph the Python API can build, every pair of distinct nodes and every
conditioning set not containing them, the test reports "separated" exactly when `a` and `b` are m-separated
given `C` (no m-connecting path) … -/
theorem dsep_iff_mseparated (G : MG α) (hG : G.WF) (a b : α) (C : List α) (hq : G.ValidQuery a b C)
    (hab : a ≠ b) (ha : a ∉ C) (hb : b ∉ C) (s : Bool) (hs : G.dSeparated a b C = .ok s) :
    s = true ↔ ¬ G.MConnPath a b C := by
  rw [dsep_iff_augmented G hG a b C hq ha hb s hs, augmented_iff_mconn G a b C hab ha hb]

/-- … which is exactly d-separation of `a` and `b` given `C` in the directed acyclic graph obtained by replacing
every bidirected edge with an unobserved common parent. -/
theorem dsep_iff_dsep_canonical (G : MG α) (hG : G.WF) (a b : α) (C : List α) (hq : G.ValidQuery a b C)
    (hab : a ≠ b) (ha : a ∉ C) (hb : b ∉ C) (s : Bool) (hs : G.dSeparated a b C = .ok s) :
    s = true ↔ ¬ G.DConnCanonical a b C := by
  rw [dsep_iff_mseparated G hG a b C hq hab ha hb s hs, mconn_iff_dconn_canonical G a b C hab]

-- OPEN: the last clause of C04, "consequently every reported separation is a conditional independence of every
-- compatible model" (the global Markov property of ADMGs).  Full statement, with `Scm G` the semi-Markovian models
-- of DESIGN.md 3.3 (independent latent roots realising the bidirected edges, positive kernels) and `CI M a b C`
-- meaning  P(a, b, C) · P(C) = P(a, C) · P(b, C)  for all values:
--
--   theorem dsep_sound (G : MG Nat) (hG : G.WF) (hA : G.Acyclic) (a b : Nat) (C : List Nat)
--       (hq : G.ValidQuery a b C) (hab : a ≠ b) (ha : a ∉ C) (hb : b ∉ C)
--       (hs : G.dSeparated a b C = .ok true) : ∀ M : Scm G, CI M a b C
--
-- Not mechanised (no `Scm` development in this family's files).  What IS proved above reduces it to the textbook
-- statement "d-separation in a DAG implies conditional independence in every Bayesian network over that DAG"
-- applied to the canonical DAG (`dsep_iff_dsep_canonical`).  The harness decides the clause per case on small
-- graphs by exact-rational evaluation of a random compatible SCM (harness/oracles/sep_paths.py `ci_holds`).

end Y0.MG

namespace Y0

/-! ## 5. the judgement record -/

/-- `DSeparationJudgement.create` always yields a canonical record for two distinct nodes -/
theorem judgement_canonical (a b : Nat) (C : List Nat) (s : Bool) (hab : a ≠ b) :
    (Judgement.create a b C s).isCanonical = true := by
  by_cases h : a ≤ b
  · simp [Judgement.create, Judgement.isCanonical, sortLe_idem, h]; omega
  · simp [Judgement.create, Judgement.isCanonical, sortLe_idem, h]; omega

/-- the record carries the query: the two nodes in increasing order, the conditions as a strictly increasing
list with exactly the members of `C`, and the verdict -/
theorem judgement_fields (a b : Nat) (C : List Nat) (s : Bool) :
    let j := Judgement.create a b C s
    j.separated = s ∧ j.left = min a b ∧ j.right = max a b ∧
      (∀ c, c ∈ j.conditions ↔ c ∈ C) ∧ j.conditions.Pairwise (· < ·) := by
  refine ⟨rfl, ?_, ?_, ?_, sortLe_dedup_strict C⟩
  · simp only [Judgement.create]; split <;> omega
  · simp only [Judgement.create]; split <;> omega
  · intro c; simp [Judgement.create]

/-- the record does not depend on the order of the two nodes, nor on order/repetition inside `C` -/
theorem judgement_create_comm (a b : Nat) (C : List Nat) (s : Bool) :
    Judgement.create a b C s = Judgement.create b a C s := by
  unfold Judgement.create
  by_cases h : a ≤ b <;> by_cases h' : b ≤ a <;> simp [h, h'] <;> omega

/-- `are_d_separated` returns the judgement built from its verdict -/
theorem areDSeparated_record (G : MG Nat) (a b : Nat) (C : List Nat) (s : Bool)
    (h : G.dSeparated a b C = .ok s) : G.areDSeparated a b C = .ok (Judgement.create a b C s) := by
  simp [MG.areDSeparated, h, bind, Except.bind, pure, Except.pure]

/-- the whole returned record (not only the verdict) is symmetric in the two nodes -/
theorem areDSeparated_symm (G : MG Nat) (hG : G.WF) (a b : Nat) (C : List Nat) :
    G.areDSeparated a b C = G.areDSeparated b a C := by
  simp only [MG.areDSeparated, MG.dsep_symm G hG a b C, judgement_create_comm a b C]

/-! ## non-vacuity: the F2 witness `B → A, B ↔ A, C ↔ A` (A = 0, B = 1, C = 2) and friends -/

def f2Graph : MG Nat := MG.fromEdges [] [(1, 0)] [(1, 0), (2, 0)]

example : f2Graph.WF := MG.wf_fromEdges _ _ _
example : f2Graph.ValidQuery 1 2 [0] := ⟨by decide, by decide, by decide⟩
/-- after the fix the model answers "not separated" on the F2 witness (before: `true`) -/
example : f2Graph.dSeparated 1 2 [0] = .ok false := by decide
example : f2Graph.dSeparated 1 2 [] = .ok true := by decide
example : f2Graph.dSeparated 1 7 [] = .error (.invalidInput "KeyError") := by decide
example : f2Graph.dSeparated 1 2 [2] = .error (.internal "NodeNotFound") := by decide
example : f2Graph.areDSeparated 2 1 [0, 0] = .ok ⟨false, 1, 2, [0]⟩ := by decide

/-- the specification side is inhabited too: `1 ↔ 0 ↔ 2` is an m-connecting path given `{0}` (the collider `0`
is in `C`), so `dsep_iff_mseparated` forces the verdict `false` above -/
example : f2Graph.MConnPath 1 2 [0] := by
  refine ⟨by decide, by decide, [⟨1, .head, .head, 0⟩, ⟨0, .head, .head, 2⟩], ⟨?_, rfl, rfl, ?_⟩, by decide⟩
  · intro s hs
    simp only [List.mem_cons, List.not_mem_nil, or_false] at hs
    rcases hs with rfl | rfl
    · exact .bi (Or.inl (by decide))
    · exact .bi (Or.inr (by decide))
  · refine .cons_cons ⟨rfl, fun _ => ⟨0, by simp, .refl⟩, fun h => absurd ⟨rfl, rfl⟩ h⟩ (.singleton _)

end Y0
