/-
  Property C02, completeness clause — "ID refuses exactly when the effect is NOT identifiable from the observational
  distribution (a hedge exists)".

  `Identifiable G X Y` (Y0/Spec/Identifiable.lean): any two structural causal models compatible with `G` (Y0/Spec/Scm.lean:
  discrete, positive, independent root latents shared only across bidirected edges) whose observed variables have the
  same ranges and which induce the same observational joint `P(v)` induce the same `P(y | do(x))`.

  * `id_ok_identifiable` — an estimand is returned only when the effect is identifiable (corollary of C01's `id_sound`:
    the estimand has observational leaves only, `id_vocab`, so its value is a function of `P(v)`);
  * `hedge_not_identifiable` — **Shpitser & Pearl 2006, Theorem 4, mechanised in full**: a hedge for `P_x(y)` yields two
    positive models with the same `P(v)` and different `P(y | do(x))`.  Proof (Y0/Lemmas/HedgeNonId*.lean): the
    ε-perturbed parity construction on a spanning tree of the bidirected edges of the C-forest `F` versus `F'` alone
    (`Skel.skel_not_identifiable`; the latents are summed out by the tree-peeling lemma `peel` in Fourier
    coordinates), which makes `P_x(R)` of the root set non-identifiable (`roots_not_identifiable`); then
    non-identifiability is pushed from `R` down the directed paths to `Y` one edge at a time by the noisy-copy extension
    (`identifiable_add_parent`, `not_identifiable_child`) and closed under adding outcomes (`identifiable_mono`);
  * `id_refuses_iff_not_identifiable`, `id_ok_iff_identifiable` — **the clause itself**, for every valid query;
  * `identifiable_iff_no_hedge` — the hedge criterion: identifiable ⇔ no hedge;
  * `bow_not_identifiable` — the base case with two explicit models (no construction machinery), and
    `not_identifiable_of_subgraph` — lifting along edge-subgraphs.
-/
import Y0.Props.C01
import Y0.Props.C02
import Y0.Props.C06Id
import Y0.Lemmas.IdRank
import Y0.Lemmas.HedgeNonIdObs
import Y0.Lemmas.HedgeNonIdBow
import Y0.Lemmas.HedgeNonIdSub
import Y0.Lemmas.HedgeNonIdMain

namespace Y0
open IdDsl IdAux

/-- **C02, answer ⇒ identifiable.** If ID returns an estimand for a valid query, the effect is identifiable: any two
compatible models with the same observational joint have the same `P(y | do(x))` — both equal the value of the
estimand, which reads the model only through `P(v)`. -/
theorem id_ok_identifiable {topo : MG Name → Except Err (List Name)} (ts : TopoSound topo) (G : MG Name)
    (X Y : List Name) (hq : ValidQuery G X Y) (e : Expr) (h : identify topo G X Y = .ok e) : Identifiable G X Y := by
  intro M₁ M₂ h₁ h₂ he σ hσ
  have hv : ObsOnly G.nodes e :=
    id_vocab topo (fun H o ho v hv => (ts.nodes H o ho v).mp hv) G hq.wf X Y e h
  rw [← id_sound ts G X Y hq e h M₁ h₁ σ σ, ← id_sound ts G X Y hq e h M₂ h₂ σ σ]
  exact NonId.den_obs_congr h₁ h₂ hq.wf hq.ranked he σ e hv σ hσ

/-- **C02, hedge ⇒ not identifiable** (Shpitser & Pearl 2006, Theorem 4).  If a well-formed acyclic graph contains a
hedge for `P_x(y)`, there are two positive structural causal models compatible with it that induce the same
observational distribution and different `P(y | do(x))`. -/
theorem hedge_not_identifiable {G : MG Name} (hG : G.WF) (hac : G.Acyclic) {X Y : List Name} {F F' : Name → Prop}
    (hh : G.Hedge X Y F F') : ¬ Identifiable G X Y :=
  NonId.hedge_not_identifiable hG hac hh

/-- the same with the witnesses spelled out -/
theorem hedge_two_models {G : MG Name} (hG : G.WF) (hac : G.Acyclic) {X Y : List Name} {F F' : Name → Prop}
    (hh : G.Hedge X Y F F') :
    ∃ (M₁ M₂ : Scm) (σ : Val), M₁.Compatible G ∧ M₂.Compatible G ∧ (∀ v ∈ G.nodes, M₁.card v = M₂.card v) ∧
      (∀ τ, M₁.InRange G τ → M₁.obs G τ = M₂.obs G τ) ∧ M₁.InRange G σ ∧ M₁.doProb G X Y σ ≠ M₂.doProb G X Y σ := by
  have h := hedge_not_identifiable hG hac hh
  unfold Identifiable at h
  by_contra hno
  apply h
  intro M₁ M₂ h₁ h₂ he σ hσ
  by_contra hne
  exact hno ⟨M₁, M₂, σ, h₁, h₂, he.card_eq, he.obs_eq, hσ, hne⟩

/-- **C02: ID refuses exactly when the effect is not identifiable.** -/
theorem id_refuses_iff_not_identifiable {topo : MG Name → Except Err (List Name)} (ht : TopoGood topo)
    (ts : TopoSound topo) (G : MG Name) (X Y : List Name) (hq : ValidQuery G X Y) (hX : ∀ x ∈ X, x ∈ G.nodes) :
    identify topo G X Y = .error .unidentifiable ↔ ¬ Identifiable G X Y := by
  constructor
  · intro h
    obtain ⟨F, F', hh⟩ := id_fail_hedge ht G X Y hq hX h
    exact hedge_not_identifiable hq.wf (MG.ranked_acyclic hq.ranked) hh
  · intro h
    rcases id_total ht G X Y hq with ⟨e, he⟩ | he
    · exact absurd (id_ok_identifiable ts G X Y hq e he) h
    · exact he

/-- … and returns an estimand exactly when it is -/
theorem id_ok_iff_identifiable {topo : MG Name → Except Err (List Name)} (ht : TopoGood topo)
    (ts : TopoSound topo) (G : MG Name) (X Y : List Name) (hq : ValidQuery G X Y) (hX : ∀ x ∈ X, x ∈ G.nodes) :
    (∃ e, identify topo G X Y = .ok e) ↔ Identifiable G X Y := by
  constructor
  · rintro ⟨e, he⟩
    exact id_ok_identifiable ts G X Y hq e he
  · intro h
    rcases id_total ht G X Y hq with he | he
    · exact he
    · exact absurd h ((id_refuses_iff_not_identifiable ht ts G X Y hq hX).mp he)

/-- through the public wrapper: `identify_outcomes` returns `None` exactly when the effect is not identifiable, and
an estimand exactly when it is -/
theorem identifyOutcomes_none_iff_not_identifiable {topo : MG Name → Except Err (List Name)} (ht : TopoGood topo)
    (ts : TopoSound topo) (G : MG Name) (X Y : List Name) (hq : ValidQuery G X Y) (hX : ∀ x ∈ X, x ∈ G.nodes) :
    identifyOutcomes topo G X Y = .ok none ↔ ¬ Identifiable G X Y := by
  rw [← id_refuses_iff_not_identifiable ht ts G X Y hq hX]
  unfold identifyOutcomes
  cases h : identify topo G X Y with
  | ok e => simp
  | error e => cases e <;> simp

theorem identifyOutcomes_some_iff_identifiable {topo : MG Name → Except Err (List Name)} (ht : TopoGood topo)
    (ts : TopoSound topo) (G : MG Name) (X Y : List Name) (hq : ValidQuery G X Y) (hX : ∀ x ∈ X, x ∈ G.nodes) :
    (∃ e, identifyOutcomes topo G X Y = .ok (some e)) ↔ Identifiable G X Y := by
  rw [← id_ok_iff_identifiable ht ts G X Y hq hX]
  unfold identifyOutcomes
  cases h : identify topo G X Y with
  | ok e => simp
  | error e => cases e <;> simp

/-- **the hedge criterion** (Shpitser & Pearl 2006, Theorems 4 and 5 with the soundness of ID): on a well-formed
acyclic graph, `P(y | do(x))` is identifiable exactly when the graph contains no hedge for it -/
theorem identifiable_iff_no_hedge (G : MG Name) (X Y : List Name) (hG : G.WF) (hac : G.Acyclic)
    (hY : ∀ y ∈ Y, y ∈ G.nodes) (hne : Y ≠ []) (hdisj : ∀ y ∈ Y, y ∉ X) (hX : ∀ x ∈ X, x ∈ G.nodes) :
    Identifiable G X Y ↔ ¬ ∃ F F', G.Hedge X Y F F' := by
  have hq : ValidQuery G X Y := ⟨hG, MG.acyclic_ranked hG hac, hY, hne, hdisj⟩
  rw [← id_ok_iff_no_hedge ancTopo_good G X Y hq hX]
  exact (id_ok_iff_identifiable ancTopo_good ancTopo_sound G X Y hq hX).symm

/-- **C02, closed form**: with the executable sorter `ancTopo` no assumption about `topological_sort` is left -/
theorem id_refuses_iff_not_identifiable_acyclic (G : MG Name) (X Y : List Name) (hG : G.WF) (hac : G.Acyclic)
    (hY : ∀ y ∈ Y, y ∈ G.nodes) (hne : Y ≠ []) (hdisj : ∀ y ∈ Y, y ∉ X) (hX : ∀ x ∈ X, x ∈ G.nodes) :
    identify ancTopo G X Y = .error .unidentifiable ↔ ¬ Identifiable G X Y :=
  id_refuses_iff_not_identifiable ancTopo_good ancTopo_sound G X Y
    ⟨hG, MG.acyclic_ranked hG hac, hY, hne, hdisj⟩ hX

/-- **the bow arc**, base case with two explicit binary models (`NonId.bow1`, `NonId.bow2`: latent fair coin `U`,
`X = U` w.p. 3/4; `Y = X xor U` w.p. 3/4 versus `Y = 0` w.p. 5/8): same `P(x, y)`, `P(y = 0 | do(x)) = 1/2 ≠ 5/8` -/
theorem bow_not_identifiable : ¬ Identifiable (MG.fromEdges [0, 1] [(0, 1)] [(0, 1)]) [0] [1] :=
  NonId.bow_not_identifiable

/-- **lifting**: an effect that is not identifiable in an edge-subgraph on the same nodes is not identifiable in the
graph -/
theorem not_identifiable_of_subgraph {H G : MG Name} (hs : NonId.EdgeSub H G) {X Y : List Name}
    (h : ¬ Identifiable H X Y) : ¬ Identifiable G X Y :=
  NonId.not_identifiable_of_subgraph hs h

/-- marginals of identifiable effects are identifiable; adding outcomes keeps an effect non-identifiable -/
theorem identifiable_mono {G : MG Name} {X Y Y' : List Name} (hsub : ∀ y ∈ Y', y ∈ Y) (h : Identifiable G X Y) :
    Identifiable G X Y' :=
  NonId.identifiable_mono hsub h

/-! ### non-vacuity -/

/-- the two explicit bow-arc models are a witness in the sense of the specification: compatible, positive, same
observational joint, different effect at the assignment `0` -/
example : NonIdWitness NonId.bowG [0] [1] NonId.bow1 NonId.bow2 (fun _ => 0) := NonId.bow_witness

/-- the bow arc through the general theorem: its hedge `F = {X, Y}`, `F' = {Y}` -/
example : ¬ Identifiable (MG.fromEdges [0, 1] [(0, 1)] [(0, 1)]) [0] [1] := by
  have hh : (MG.fromEdges [0, 1] [(0, 1)] [(0, 1)]).Hedge [0] [1] (fun v => v = 0 ∨ v = 1) (fun v => v = 1) := by
    refine ⟨fun v h => Or.inr h, ?_, ⟨0, by simp, Or.inl rfl⟩, ?_, ⟨1, rfl⟩, ?_, ?_, ?_⟩
    · rintro v (rfl | rfl) <;> decide
    · rintro v rfl; decide
    · have e : (MG.fromEdges [0, 1] [(0, 1)] [(0, 1)]).BiEdge 0 1 := by unfold MG.BiEdge; decide
      rintro u v (rfl | rfl) (rfl | rfl)
      · exact .refl
      · exact .single ⟨e, Or.inl rfl, Or.inr rfl⟩
      · exact .single ⟨Or.symm e, Or.inr rfl, Or.inl rfl⟩
      · exact .refl
    · rintro u v rfl rfl; exact .refl
    · refine ⟨fun v => v = 1, fun r h => h, ?_, ?_, ?_⟩
      · rintro r rfl; exact ⟨1, by simp, .refl⟩
      · rintro v (rfl | rfl)
        · exact ⟨1, rfl, .single ⟨by unfold MG.DiEdge; decide, Or.inl rfl, Or.inr rfl⟩⟩
        · exact ⟨1, rfl, .refl⟩
      · rintro v rfl; exact ⟨1, rfl, .refl⟩
  exact hedge_not_identifiable (MG.wf_fromEdges _ _ _)
    (MG.ranked_acyclic ⟨fun v => v, by decide⟩) hh

/-- an identifiable effect: the napkin query, on which ID answers (so `Identifiable` is not the empty notion, and
`id_ok_identifiable` applies to a run through lines 3, 7, 2, 6) -/
example : Identifiable napkinG [2] [3] := by
  have h : ∃ e, identify checkedTopo napkinG [2] [3] = .ok e := ⟨_, identifyF_ok _ 8 _ _ _ _ (by rfl)⟩
  obtain ⟨e, he⟩ := h
  exact id_ok_identifiable checkedTopo_sound napkinG [2] [3]
    ⟨MG.wf_fromEdges _ _ _, ⟨fun v => v, by decide⟩, by decide, by decide, by decide⟩ e he

/-- the hypotheses of the iff are satisfiable on both sides: the bow query is valid, its treatments are nodes, and it
is refused … -/
example : identify ancTopo (MG.fromEdges [0, 1] [(0, 1)] [(0, 1)]) [0] [1] = .error .unidentifiable :=
  (id_refuses_iff_not_identifiable_acyclic _ [0] [1] (MG.wf_fromEdges _ _ _)
    (MG.ranked_acyclic ⟨fun v => v, by decide⟩) (by decide) (by decide) (by decide) (by decide)).mpr
    bow_not_identifiable

end Y0
