/-
  Property C02, completeness clause — "ID refuses exactly when the effect is NOT identifiable".
-/
import Y0.Props.C01
import Y0.Props.C02
import Y0.Props.C06Id
import Y0.Lemmas.HedgeNonIdObs

namespace Y0
open IdDsl IdAux

/-- **C02, answer ⇒ identifiable.** If ID returns an estimand for a valid query, the effect is identifiable: any two
compatible models with the same observational joint have the same `P(y | do(x))` — both equal the value of the
estimand, which reads the model only through `P(v)`. -/
theorem id_ok_identifiable {topo : MG Name → Except Err (List Name)} (ts : TopoSound topo) (G : MG Name)
    (X Y : List Name) (hq : ValidQuery G X Y) (e : Expr) (h : identify topo G X Y = .ok e) : Identifiable G X Y := by
  intro M₁ M₂ h₁ h₂ he σ hσ
  have hv : ObsOnly G.nodes e :=
    id_vocab topo (fun H o ho v hv => (ts.nodes H o ho v).mp hv) G hq.wf X Y e h
  rw [← id_sound ts G X Y hq e h M₁ h₁ σ σ, ← id_sound ts G X Y hq e h M₂ h₂ σ σ]
  exact NonId.den_obs_congr h₁ h₂ hq.wf hq.ranked he σ e hv σ hσ

end Y0
