/-
  Property C15 — implied conditional independencies are enumerated exactly.

  The theorems are about the executable model of `d_separations` / `minimal` / the two built-in policies /
  `powerset` / `get_conditional_independencies` in `Y0.Model.Sep` (after the `fix:` for defect F6: sets of exactly
  `max_conditions` elements are tried), which harness/props/c15.py compares with the Python on every run.

  They are PARAMETRIC in the separation test: `sep` is any function that, on the queries the enumeration makes
  (`QueryOn V a b C`: two different vertices, conditions among the other vertices), returns a verdict `s a b C`
  that is symmetric in `(a, b)` and depends on `C` only as a set (`GoodTest`, Y0/Lemmas/SepCI.lean; there also
  `Cand V a b k C`: `C` is an admissible conditioning set for the pair — other vertices, no repetition, at most `k`).  Section 3 instantiates them with the model of
  `are_d_separated`, for which property C04 shows `s a b C ⟺ a, b d-separated given C in the canonical DAG`.

  For every vertex list `V` without repetition (in ANY order — Python iterates a hash-ordered set), every size limit
  (`none` or `some k`), both policies, `return_all` on or off, whenever the function returns `R`:
    * `ci_sound`     every listed judgement passes the test, is canonical, names two vertices `left < right`, its
                     conditions are other vertices, no repetition, at most `k` of them;
    * `ci_complete`  every pair that some admissible set within the limit separates is listed;
    * `ci_unique`    no two listed judgements have the same `(left, right)`  (with `ci_sound`: one per unordered
                     pair, none for anything that is not a pair of vertices);
    * `ci_minimum`   no separating set of any size is smaller than the listed one;
    * `ci_total`     the function does return (for `_len_lex` always; for the topological policy when every vertex
                     occurs in the order — which `ci_total_admg` discharges for every ADMG).
-/
import Y0.Lemmas.SepCI
import Y0.Props.C04
import Y0.Lemmas.LatentKahn
import Y0.Lemmas.LatentTopo

namespace Y0
open List

/-! ## 2. `get_conditional_independencies`, for any good test -/

theorem policy_key_fst (policy : Policy) (j : Judgement) (k : Nat × List Nat) (h : policy.key j = .ok k) :
    k.1 = j.conditions.length := by
  cases policy with
  | lenLex => simp [Policy.key] at h; rw [← h]
  | topological order =>
    simp only [Policy.key, bind, Except.bind, pure, Except.pure] at h
    split at h
    · cases h
    · simp at h; rw [← h]

theorem keyFn_fst (policy : Policy) (j : Judgement) : (keyFn policy.key j).1 = j.conditions.length := by
  unfold keyFn
  split
  · rename_i k hk; exact policy_key_fst policy j k hk
  · rfl

/-- when the function returns, it returns `minimal` of the pure enumeration -/
theorem ci_result {sep : Nat → Nat → List Nat → Except Err Bool} {s : Nat → Nat → List Nat → Bool}
    {V : List Nat} (hV : V.Nodup) (ht : GoodTest sep s V) (policy : Policy) (maxC : Option Nat) (ra : Bool)
    (R : List Judgement) (h : conditionalIndependenciesWith sep V policy maxC ra = .ok R) :
    R = pureMinimal (keyFn policy.key) (pureSeps s V maxC ra) := by
  unfold conditionalIndependenciesWith at h
  rw [dSeparationsWith_ok sep s V hV maxC ra ht.agrees] at h
  exact minimalWith_eq_of_ok policy.key _ R h

section main
variable {sep : Nat → Nat → List Nat → Except Err Bool} {s : Nat → Nat → List Nat → Bool} {V : List Nat}
  (hV : V.Nodup) (ht : GoodTest sep s V) (policy : Policy) (maxC : Option Nat) (ra : Bool) (R : List Judgement)
  (h : conditionalIndependenciesWith sep V policy maxC ra = .ok R)
include hV ht h

/-- **Sound.**  Every listed judgement is a separation according to the test, in canonical form, between two
vertices, with an admissible conditioning set within the requested limit. -/
theorem ci_sound : ∀ j ∈ R, j.separated = true ∧ j.left < j.right ∧ j.left ∈ V ∧ j.right ∈ V ∧
    Cand V j.left j.right maxC j.conditions ∧ s j.left j.right j.conditions = true ∧ j.isCanonical = true := by
  intro j hj
  rw [ci_result hV ht policy maxC ra R h] at hj
  exact pureSeps_sound hV ht ((pureMinimal_spec _ _).1 j hj)

/-- **Complete.**  Every pair of vertices that some admissible set within the limit separates is listed. -/
theorem ci_complete (a b : Nat) (ha : a ∈ V) (hb : b ∈ V) (hab : a < b) (C : List Nat) (hC : Cand V a b maxC C)
    (hs : s a b C = true) : ∃ j ∈ R, j.left = a ∧ j.right = b := by
  rw [ci_result hV ht policy maxC ra R h]
  obtain ⟨j, hj, hk, _⟩ := pureSeps_complete hV ht maxC ra ha hb hab hC hs
  obtain ⟨r, hr, hrk⟩ := (pureMinimal_spec (keyFn policy.key) _).2.2.1 j hj
  refine ⟨r, hr, ?_⟩
  have : keyOf r = (a, b) := hrk.trans hk
  simpa [keyOf] using this

/-- **Unique.**  No two listed judgements concern the same pair. -/
theorem ci_unique : (R.map (fun j => (j.left, j.right))).Nodup := by
  rw [ci_result hV ht policy maxC ra R h]
  exact (pureMinimal_spec (keyFn policy.key) _).2.1

/-- **Minimum.**  No admissible separating set of ANY size is smaller than the listed one. -/
theorem ci_minimum : ∀ j ∈ R, ∀ C, Cand V j.left j.right none C → s j.left j.right C = true →
    j.conditions.length ≤ C.length := by
  intro j hj C hC hs
  have hsound := ci_sound hV ht policy maxC ra R h j hj
  rw [ci_result hV ht policy maxC ra R h] at hj
  -- beyond the limit there is nothing to show
  by_cases hlim : ∀ kk, maxC = some kk → C.length ≤ kk
  · obtain ⟨j', hj', hk', hle⟩ := pureSeps_complete hV ht maxC ra hsound.2.2.1 hsound.2.2.2.1 hsound.2.1
      (C := C) ⟨hC.1, hC.2.1, hlim⟩ hs
    have := (pureMinimal_spec (keyFn policy.key) _).2.2.2 j hj j' hj' hk'
    rw [keyFn_fst, keyFn_fst] at this
    omega
  · push_neg at hlim
    obtain ⟨kk, hkk, hlt⟩ := hlim
    have := hsound.2.2.2.2.1.2.2 kk hkk
    omega

end main

/-- **Total.**  With `_len_lex` the function always returns; with the topological policy it returns whenever
every vertex occurs in the order (as it does for the order of `graph.topological_sort()`). -/
theorem ci_total {sep : Nat → Nat → List Nat → Except Err Bool} {s : Nat → Nat → List Nat → Bool}
    {V : List Nat} (hV : V.Nodup) (ht : GoodTest sep s V) (policy : Policy) (maxC : Option Nat) (ra : Bool)
    (hpol : ∀ order, policy = .topological order → ∀ v ∈ V, v ∈ order) :
    ∃ R, conditionalIndependenciesWith sep V policy maxC ra = .ok R := by
  unfold conditionalIndependenciesWith
  rw [dSeparationsWith_ok sep s V hV maxC ra ht.agrees]
  simp only [bind, Except.bind]
  have hkey : ∀ j ∈ pureSeps s V maxC ra, policy.key j = .ok (keyFn policy.key j) := by
    intro j hj
    cases policy with
    | lenLex => simp [Policy.key, keyFn]
    | topological order =>
      have hVo := hpol order rfl
      have hcond : ∀ c ∈ j.conditions, c ∈ order := fun c hc =>
        hVo c ((pureSeps_sound hV ht hj).2.2.2.2.1.2.1 c hc).1
      have hidx : ∀ c ∈ j.conditions, ∃ i, indexOf? order c = some i := by
        intro c hc
        have := hcond c hc
        clear hcond hj hVo hpol
        induction order with
        | nil => simp at this
        | cons x xs ih =>
          simp only [indexOf?]
          split
          · exact ⟨0, rfl⟩
          · rename_i hne
            rcases List.mem_cons.1 this with rfl | h'
            · exact absurd rfl hne
            · obtain ⟨i, hi⟩ := ih h'
              exact ⟨i + 1, by simp [hi]⟩
      have hm := mapM_ok_of_forall
        (fun v => match indexOf? order v with | some i => Except.ok i | none => .error (.internal "ValueError"))
        (fun v => (indexOf? order v).getD 0) j.conditions (by
          intro c hc
          obtain ⟨i, hi⟩ := hidx c hc
          simp [hi])
      simp only [Policy.key, keyFn, bind, Except.bind, pure, Except.pure]
      generalize hx : List.mapM (m := Except Err) _ j.conditions = r
      have hr : r = .ok _ := hx.symm.trans hm
      subst hr
      rfl
  exact ⟨_, minimalWith_ok policy.key (keyFn policy.key) _ hkey⟩

/-! ## 3. the instance y0 ships: the test is `are_d_separated`

`sepVerdict` is the verdict of the C04 model; by C04 (`dsep_iff_dsep_canonical`) it is `true` exactly when the two
nodes are d-separated given `C` in the canonical DAG.  So "true separation in the graph" below is the textbook notion. -/

namespace MG

/-- the verdict of the `are_d_separated` model as a Boolean (an error counts as "not separated"; on the queries
made by the enumeration the model never errs: `dsep_total`) -/
def sepVerdict (G : MG Nat) (a b : Nat) (C : List Nat) : Bool :=
  match G.dSeparated a b C with
  | .ok v => v
  | .error _ => false

theorem mem_vertexList (G : MG Nat) (v : Nat) : v ∈ G.vertexList ↔ v ∈ G.nodes := by
  simp [vertexList]

theorem nodup_vertexList (G : MG Nat) : G.vertexList.Nodup := sortLe_nodup _ (nodup_dedup' _)

theorem validQuery_of_queryOn (G : MG Nat) {a b : Nat} {C : List Nat} (h : QueryOn G.vertexList a b C) :
    G.ValidQuery a b C ∧ a ≠ b ∧ a ∉ C ∧ b ∉ C := by
  obtain ⟨ha, hb, hab, hC⟩ := h
  refine ⟨⟨(mem_vertexList G a).1 ha, (mem_vertexList G b).1 hb, fun c hc => (mem_vertexList G c).1 (hC c hc).1⟩,
    hab, fun h => (hC a h).2.1 rfl, fun h => (hC b h).2.2 rfl⟩

/-- the C04 model is a good test on the vertex list of any graph `from_edges` can build -/
theorem goodTest_dSeparated (G : MG Nat) (hG : G.WF) : GoodTest G.dSeparated G.sepVerdict G.vertexList where
  agrees := by
    intro a b C h
    obtain ⟨hq, _, ha, hb⟩ := validQuery_of_queryOn G h
    obtain ⟨v, hv⟩ := dsep_total G hG a b C hq ha hb
    simp [sepVerdict, hv]
  symm := by intro a b C; simp only [sepVerdict, dsep_symm G hG a b C]
  set_valued := by intro a b C C' h; simp only [sepVerdict, dsep_cond_congr G hG a b C C' h]

/-- for a query of the enumeration: the verdict is d-separation in the canonical DAG (property C04) -/
theorem sepVerdict_iff (G : MG Nat) (hG : G.WF) {a b : Nat} {C : List Nat} (h : QueryOn G.vertexList a b C) :
    G.sepVerdict a b C = true ↔ ¬ G.DConnCanonical a b C := by
  obtain ⟨hq, hab, ha, hb⟩ := validQuery_of_queryOn G h
  obtain ⟨v, hv⟩ := dsep_total G hG a b C hq ha hb
  rw [← dsep_iff_dsep_canonical G hG a b C hq hab ha hb v hv]
  simp [sepVerdict, hv]

theorem conditionalIndependencies_policy (G : MG Nat) (topological : Bool) (maxC : Option Nat) (ra : Bool)
    (R : List Judgement) (h : G.conditionalIndependencies topological maxC ra = .ok R) :
    ∃ policy, conditionalIndependenciesWith G.dSeparated G.vertexList policy maxC ra = .ok R := by
  unfold conditionalIndependencies at h
  cases topological with
  | false => exact ⟨.lenLex, by simpa [bind, Except.bind, pure, Except.pure] using h⟩
  | true =>
    cases ho : G.topologicalSort with
    | error e => simp [ho, bind, Except.bind] at h
    | ok o => exact ⟨.topological o, by simpa [ho, bind, Except.bind, pure, Except.pure] using h⟩

theorem queryOn_of_cand (G : MG Nat) {a b : Nat} {k : Option Nat} {C : List Nat} (ha : a ∈ G.vertexList)
    (hb : b ∈ G.vertexList) (hab : a ≠ b) (hC : Cand G.vertexList a b k C) : QueryOn G.vertexList a b C :=
  ⟨ha, hb, hab, hC.2.1⟩

/-- **C15 for y0's own test.**  Whenever `get_conditional_independencies(graph, policy, max_conditions=k)` returns
(either built-in policy, any `k` or none, `return_all` on or off), its result `R` contains exactly one judgement for
every unordered pair of nodes that some conditioning set within the limit d-separates (in the canonical DAG), none
for any other pair, and every listed judgement is such a d-separation, canonical, with a conditioning set of
minimum size. -/
theorem ci_exact (G : MG Nat) (hG : G.WF) (topological : Bool) (maxC : Option Nat) (ra : Bool)
    (R : List Judgement) (h : G.conditionalIndependencies topological maxC ra = .ok R) :
    -- sound, canonical, within the limit
    (∀ j ∈ R, j.separated = true ∧ j.left < j.right ∧ j.left ∈ G.nodes ∧ j.right ∈ G.nodes ∧
        Cand G.vertexList j.left j.right maxC j.conditions ∧ j.isCanonical = true ∧
        ¬ G.DConnCanonical j.left j.right j.conditions) ∧
    -- complete
    (∀ a b, a ∈ G.nodes → b ∈ G.nodes → a < b → ∀ C, Cand G.vertexList a b maxC C → ¬ G.DConnCanonical a b C →
        ∃ j ∈ R, j.left = a ∧ j.right = b) ∧
    -- one judgement per pair
    (R.map (fun j => (j.left, j.right))).Nodup ∧
    -- minimum size
    (∀ j ∈ R, ∀ C, Cand G.vertexList j.left j.right none C → ¬ G.DConnCanonical j.left j.right C →
        j.conditions.length ≤ C.length) := by
  obtain ⟨policy, hp⟩ := conditionalIndependencies_policy G topological maxC ra R h
  have hV := nodup_vertexList G
  have ht := goodTest_dSeparated G hG
  have hsound := ci_sound hV ht policy maxC ra R hp
  refine ⟨?_, ?_, ci_unique hV ht policy maxC ra R hp, ?_⟩
  · intro j hj
    obtain ⟨h1, h2, h3, h4, h5, h6, h7⟩ := hsound j hj
    refine ⟨h1, h2, (mem_vertexList G _).1 h3, (mem_vertexList G _).1 h4, h5, h7, ?_⟩
    exact (sepVerdict_iff G hG (queryOn_of_cand G h3 h4 (Nat.ne_of_lt h2) h5)).1 h6
  · intro a b ha hb hab C hC hsep
    have ha' := (mem_vertexList G a).2 ha
    have hb' := (mem_vertexList G b).2 hb
    exact ci_complete hV ht policy maxC ra R hp a b ha' hb' hab C hC
      ((sepVerdict_iff G hG (queryOn_of_cand G ha' hb' (Nat.ne_of_lt hab) hC)).2 hsep)
  · intro j hj C hC hsep
    obtain ⟨_, h2, h3, h4, _⟩ := hsound j hj
    exact ci_minimum hV ht policy maxC ra R hp j hj C hC
      ((sepVerdict_iff G hG (queryOn_of_cand G h3 h4 (Nat.ne_of_lt h2) hC)).2 hsep)

/-- with `_len_lex` the enumeration always returns on a graph `from_edges` can build -/
theorem ci_total_lenLex (G : MG Nat) (hG : G.WF) (maxC : Option Nat) (ra : Bool) :
    ∃ R, G.conditionalIndependencies false maxC ra = .ok R := by
  obtain ⟨R, hR⟩ := ci_total (nodup_vertexList G) (goodTest_dSeparated G hG) .lenLex maxC ra
    (fun _ h => by cases h)
  exact ⟨R, by simpa [conditionalIndependencies, bind, Except.bind, pure, Except.pure] using hR⟩

/-- **Total.**  On every ADMG `from_edges` can build, with either built-in policy, any limit, `return_all` on or off,
`get_conditional_independencies` returns (it never raises).  Uses the facts about the shared model of networkx's
topological sort proved by the `latent` family: it succeeds on acyclic graphs and lists every node. -/
theorem ci_total_admg (G : MG Nat) (hG : G.WF) (hA : G.Acyclic) (topological : Bool) (maxC : Option Nat)
    (ra : Bool) : ∃ R, G.conditionalIndependencies topological maxC ra = .ok R := by
  cases topological with
  | false => exact ci_total_lenLex G hG maxC ra
  | true =>
    obtain ⟨o, ho⟩ := topologicalSort_total G hG hA
    obtain ⟨R, hR⟩ := ci_total (nodup_vertexList G) (goodTest_dSeparated G hG) (.topological o) maxC ra
      (fun order h v hv => by
        cases h
        exact topologicalSort_complete G hG o ho v ((mem_vertexList G v).1 hv))
    exact ⟨R, by simpa [conditionalIndependencies, ho, bind, Except.bind, pure, Except.pure] using hR⟩

end MG

/-! ## non-vacuity -/

/-- chain `0 → 1 → 2` (the F6 witness): with `max_conditions = 1` the model lists `0 ⟂ 2 | 1` (before the fix: nothing) -/
example : (MG.fromEdges [] [(0, 1), (1, 2)] []).conditionalIndependencies true (some 1) false
    = .ok [⟨true, 0, 2, [1]⟩] := by decide
example : (MG.fromEdges [] [(0, 1), (1, 2)] []).conditionalIndependencies true (some 0) false = .ok [] := by decide
/-- `1 ↔ 0 ↔ 2` (the F2 witness): only the empty set separates `1` and `2` -/
example : (MG.fromEdges [] [] [(1, 0), (2, 0)]).conditionalIndependencies false none true
    = .ok [⟨true, 1, 2, []⟩] := by decide
example : powerset [3, 1, 2] 1 (some 3) = [[3], [1], [2], [3, 1], [3, 2], [1, 2]] := by decide

end Y0
