/-
  Property C15 — implied conditional independencies are enumerated exactly (work in progress: skeleton).
-/
import Y0.Model.Sep

namespace Y0

theorem combinations_zero {α : Type} (l : List α) : combinations l 0 = [[]] := by
  cases l <;> rfl

end Y0
