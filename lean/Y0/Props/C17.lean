/-
  Property C17 — Tian–Pearl c-factor identification returns the true c-factor.

  "Given a district T of a graph, an expression for its c-factor Q[T], and a subset C of T that is itself
   bidirected-connected, the identification routine returns an expression whose value equals Q[C] in every
   compatible model, or reports failure; the c-factor routines it relies on likewise compute Q of each district from
   the distribution of the enclosing ancestral set."

  Only property theorems and non-vacuity examples live here; the proofs are in Y0/Lemmas/Tian*.lean and
  Y0/Lemmas/QFactor.lean.  Every theorem is about the executable model `Y0.Model.Tian` (branch-for-branch model of
  src/y0/algorithm/tian_id.py after the fix "Lemma 1 keeps the intervention subscripts"), which the correspondence
  check (harness/props/c17.py) compares with the real code on every run.

  Reading guide.
  * `M : Scm`, `M.Compatible G`  a positive discrete semi-Markovian model inducing (a subgraph of) `G` (Y0/Spec/Scm.lean);
    `M.Q S σ` is Tian's c-factor Q[S] at the assignment `σ`, i.e. the distribution of `S` under `do(V ∖ S)`;
    `den (M.env G) σ' e σ` is the value of the expression `e` on the model (Y0/Spec/Sem.lean).
  * `G.Ranked` is acyclicity (a rank function increasing along directed edges); `TopoOrdered G topo`: no element of
    `topo` is a parent of an earlier one (Y0/Spec/TianSpec.lean).
  * `ProbShape q T`: when the given expression is a `Probability` it is `P_w(T | Z)` — see
    Y0/Spec/TianSpec.lean for why the Lemma-1 branch (which dispatches on the TYPE of the expression and never reads
    its children) needs that; every other constructor carries no condition.  `ProbShapeIn G q T` is the weaker
    form that constrains only the occurrences of the members of `T`.  Neither is needed when the hypothesis "q denotes
    Q[T]" is made for every compatible model: `tian_sound_semantic` (section 1c) has no syntactic hypothesis.
  * The preconditions "C ⊆ T", "T ⊆ topo", "G[T] is a single district" are CHECKED by the routine itself (it raises
    otherwise), so `tian_sound` does not need them as hypotheses: every expression it returns is right.
-/
import Y0.Lemmas.TianTotal
import Y0.Lemmas.TianCallers
import Y0.Lemmas.IdRank
import Y0.Lemmas.TianSemSound
import Y0.Lemmas.TianSemSep

namespace Y0
open Tian TianSpec

/-! ## 1. IDENTIFY -/

/-- the routine only answers after its own validation succeeded -/
theorem tian_checks (G : MG Name) (C T topo : List Name) (q : Expr) (r : Option Expr)
    (h : identify G C T q topo = .ok r) :
    (∀ c ∈ C, c ∈ T) ∧ (∀ t ∈ T, t ∈ topo) ∧ (G.subgraph T).districts.length ≤ 1 := by
  unfold identify at h
  simp only [identifyAux] at h
  split at h
  · cases h
  · rename_i h1
    split at h
    · cases h
    · rename_i h2
      split at h
      · cases h
      · rename_i h3
        exact ⟨TianGraph.subset'_iff.mp (by simpa using h1), TianGraph.subset'_iff.mp (by simpa using h2), by omega⟩

/-- **C17, main clause.**  In every positive semi-Markovian model compatible with the acyclic graph `G`, for every
topological listing `topo`, every `C`, `T` and every expression `q` that denotes `Q[T]`: whatever expression
`identify_district_variables` returns denotes `Q[C]`, at every value assignment. -/
theorem tian_sound (M : Scm) (G : MG Name) (hM : M.Compatible G) (hG : G.WF) (hrank : G.Ranked)
    (topo : List Name) (htnd : topo.Nodup) (hord : TopoOrdered G topo)
    (C T : List Name) (hCnd : C.Nodup) (hTnd : T.Nodup) (hT : ∀ t ∈ T, t ∈ G.nodes)
    (q : Expr) (hshape : ProbShape q T) (σ' : Val)
    (hq : ∀ σ, den (M.env G) σ' q σ = M.Q T σ)
    (e : Expr) (h : identify G C T q topo = .ok (some e)) :
    ∀ σ, den (M.env G) σ' e σ = M.Q C σ := by
  obtain ⟨hCT, hTt, _⟩ := tian_checks G C T topo q _ h
  have hpT : (topo.filter (· ∈ T)).Perm T := TianGraph.filter_perm_of_nodup hTnd htnd hTt
  have hpC : (topo.filter (· ∈ C)).Perm C :=
    TianGraph.filter_perm_of_nodup hCnd htnd (fun c hc => hTt c (hCT c hc))
  intro σ
  rw [← Scm.Q_perm M hpC]
  exact TianIdentify.identifyAux_sound hM hG hrank σ' topo htnd hord C _ T q hT
    (TianSound.probShape_congr hpT.symm hshape) (fun τ => by rw [hq τ, Scm.Q_perm M hpT]) e h σ

/-- **C17, totality.**  Under the preconditions of Tian & Pearl's IDENTIFY — `C ⊆ T ⊆ topo`, `G[T]` a single
district, `C` bidirected-connected in `G[C]`, `Q[T]` given as a Sum / Product / Fraction / Probability — the routine
terminates with an expression or with FAIL (`none`): no exception, and the recursion (on a strictly smaller `T` at
every step, `TianTotal.dedup_length_lt`) never exhausts its fuel `|T| + 1`. -/
theorem tian_total (G : MG Name) (C T topo : List Name) (q : Expr)
    (hCT : ∀ c ∈ C, c ∈ T) (hTt : ∀ t ∈ T, t ∈ topo) (hdist : (G.subgraph T).districts.length ≤ 1)
    (hconn : ∀ c1 ∈ C, ∀ c2 ∈ C, (G.subgraph C).SameDistrict c1 c2)
    (hq : isFracProdSum q = true ∨ isProb q = true) :
    ∃ r : Option Expr, identify G C T q topo = .ok r :=
  TianTotal.identifyAux_total G topo C hconn _ T q (Nat.lt_succ_self _) hCT hTt hdist hq

/-- the validation errors are exactly the documented ones, in the documented order -/
theorem tian_rejects_C_outside_T (G : MG Name) (C T topo : List Name) (q : Expr) (h : ¬ ∀ c ∈ C, c ∈ T) :
    identify G C T q topo = .error (.invalidInput "KeyError") := by
  have : subset' C T = false := by
    apply Bool.eq_false_iff.mpr
    exact fun hs => h (TianGraph.subset'_iff.mp hs)
  simp [identify, identifyAux, this]

theorem tian_rejects_T_outside_topo (G : MG Name) (C T topo : List Name) (q : Expr) (h1 : ∀ c ∈ C, c ∈ T)
    (h : ¬ ∀ t ∈ T, t ∈ topo) : identify G C T q topo = .error (.invalidInput "KeyError") := by
  have e1 : subset' C T = true := TianGraph.subset'_iff.mpr h1
  have e2 : subset' T topo = false := by
    apply Bool.eq_false_iff.mpr
    exact fun hs => h (TianGraph.subset'_iff.mp hs)
  simp [identify, identifyAux, e1, e2]

theorem tian_rejects_several_districts (G : MG Name) (C T topo : List Name) (q : Expr) (h1 : ∀ c ∈ C, c ∈ T)
    (h2 : ∀ t ∈ T, t ∈ topo) (h : (G.subgraph T).districts.length > 1) :
    identify G C T q topo = .error (.invalidInput "TypeError") := by
  have e1 : subset' C T = true := TianGraph.subset'_iff.mpr h1
  have e2 : subset' T topo = true := TianGraph.subset'_iff.mpr h2
  simp [identify, identifyAux, e1, e2, h]

theorem tian_rejects_other_expressions (G : MG Name) (C T topo : List Name) (q : Expr) (h1 : ∀ c ∈ C, c ∈ T)
    (h2 : ∀ t ∈ T, t ∈ topo) (h3 : (G.subgraph T).districts.length ≤ 1)
    (h : isFracProdSum q = false ∧ isProb q = false) :
    identify G C T q topo = .error (.invalidInput "TypeError") := by
  have e1 : subset' C T = true := TianGraph.subset'_iff.mpr h1
  have e2 : subset' T topo = true := TianGraph.subset'_iff.mpr h2
  have e3 : ¬ (G.subgraph T).districts.length > 1 := by omega
  simp [identify, identifyAux, e1, e2, e3, h.1, h.2]

/-- `tian_sound` with acyclicity in its relational form (`MG.Acyclic`, Y0/Spec/GraphSpec.lean) -/
theorem tian_sound_acyclic (M : Scm) (G : MG Name) (hM : M.Compatible G) (hG : G.WF) (hac : G.Acyclic)
    (topo : List Name) (htnd : topo.Nodup) (hord : TopoOrdered G topo)
    (C T : List Name) (hCnd : C.Nodup) (hTnd : T.Nodup) (hT : ∀ t ∈ T, t ∈ G.nodes)
    (q : Expr) (hshape : ProbShape q T) (σ' : Val)
    (hq : ∀ σ, den (M.env G) σ' q σ = M.Q T σ)
    (e : Expr) (h : identify G C T q topo = .ok (some e)) :
    ∀ σ, den (M.env G) σ' e σ = M.Q C σ :=
  tian_sound M G hM hG (MG.acyclic_ranked hG hac) topo htnd hord C T hCnd hTnd hT q hshape σ' hq e h

/-! ## 1b. the shape hypothesis: where it comes from, and why y0's own caller satisfies it -/

/-- **`compute_c_factor` establishes the shape.**  Whatever `compute_c_factor` returns for a district `D` satisfies
`ProbShape … D` (Lemma 4 never returns a bare probability; Lemma 1 returns one only for a one-variable district,
`P_w(v | Z ∪ pred(v))`).  So a c-factor obtained from `compute_c_factor` — the only way y0 obtains the `Q[T]` it
passes to IDENTIFY — can be fed to `tian_sound` without further thought. -/
theorem cfactor_output_shape (G : MG Name) (topo S D : List Name) (q e : Expr)
    (hsub : ∀ v ∈ topo.filter (· ∈ S), v ∈ G.nodes)
    (hDH : ∀ v ∈ D, v ∈ topo.filter (· ∈ S)) (hDnd : D.Nodup)
    (hshape : ProbShape q (topo.filter (· ∈ S)))
    (h : computeCFactor D S q topo = .ok e) : ProbShape e D :=
  TianCallers.computeCFactor_probShape (G := G) hsub hDH hDnd hshape h D (List.Perm.refl D)

/-- **C17 for the caller inside y0** (`transport_district_intervening_on_parents`, one domain of Algorithm 4 of
Correa, Lee & Bareinboim 2022 — the only place y0 calls `tian_id.py`; model `CtfTr.sigmaTRDomain`):
`Q[B] := compute_c_factor(B, V, P^k(V), topo)`, then `identify_district_variables(C, B, Q[B], G^k, topo)`.
If the distribution `d.pop` given for the domain denotes `Q[V] = P^k(V)` (`V` the non-transport nodes, listed by
`d.topo`) — with the shape hypothesis on THAT input only, e.g. the documented `PP[π^k](V)` — every expression the
caller obtains denotes `Q[C]`.  No shape hypothesis on the intermediate `Q[B]` is needed: `cfactor_output_shape`. -/
theorem tian_sound_ctftr_caller (M : Scm) (d : CtfTr.Domain) (hM : M.Compatible d.graph) (hG : d.graph.WF)
    (hrank : d.graph.Ranked) (htnd : d.topo.Nodup) (hord : TopoOrdered d.graph d.topo)
    (hreg : ∀ v ∈ d.topo, v ∈ CtfTr.regular d.graph)
    (district : List Name) (σ' : Val)
    (hshape : ProbShape d.pop (d.topo.filter (· ∈ CtfTr.regular d.graph)))
    (hq : ∀ σ, den (M.env d.graph) σ' d.pop σ = M.Q (d.topo.filter (· ∈ CtfTr.regular d.graph)) σ)
    (e : Expr) (h : CtfTr.sigmaTRDomain district d = .ok (some e)) :
    ∀ σ, den (M.env d.graph) σ' e σ = M.Q (Trso.nsort district) σ := by
  obtain ⟨B, q, hBnd, hBclosed, hcf, hid⟩ := TianCallers.sigmaTRDomain_inv hG h
  obtain ⟨_, hBt, _⟩ := tian_checks _ _ _ _ _ _ hid
  have hregn : ∀ v ∈ CtfTr.regular d.graph, v ∈ d.graph.nodes := fun v hv => (List.mem_filter.mp hv).1
  have hsub : ∀ v ∈ d.topo.filter (· ∈ CtfTr.regular d.graph), v ∈ d.graph.nodes := fun v hv =>
    hregn v (by simpa using (List.mem_filter.mp hv).2)
  have hDH : ∀ v ∈ B, v ∈ d.topo.filter (· ∈ CtfTr.regular d.graph) := fun v hv =>
    List.mem_filter.mpr ⟨hBt v hv, by simpa using hreg v (hBt v hv)⟩
  have hqB : ∀ σ, den (M.env d.graph) σ' q σ = M.Q B σ :=
    TianSound.computeCFactor_sound hM hG hrank σ' d.topo _ htnd hord hsub B hBnd hDH (hBclosed _) d.pop q hshape hq hcf
  exact tian_sound M d.graph hM hG hrank d.topo htnd hord _ B (TianCallers.nsort_nodup _) hBnd
    (fun t ht => hregn t (hreg t (hBt t ht))) q
    (cfactor_output_shape d.graph d.topo _ B d.pop q hsub hDH hBnd hshape hcf) σ' hqB e hid

/-! ## 1c. no syntactic hypothesis: the semantic version -/

/-- **`tian_sound` under the weaker shape** `ProbShapeIn` (Y0/Spec/TianSpec.lean), which constrains only how the
members of `T` occur in a bare `Probability`: each is an un-starred child, none is a parent or intervened on; all
variables carry the same subscripts `w`; a further child is a parent, intervened on, or not a node.  Starred
subscripts (`+X`), starred parents and starred redundant children are allowed — that the probability denotes `Q[T]`
in the model at hand is the hypothesis `hq`, as before.  (`ProbShape q T → ProbShapeIn G q T`.) -/
theorem tian_sound_in (M : Scm) (G : MG Name) (hM : M.Compatible G) (hG : G.WF) (hrank : G.Ranked)
    (topo : List Name) (htnd : topo.Nodup) (hord : TopoOrdered G topo)
    (C T : List Name) (hCnd : C.Nodup) (hTnd : T.Nodup) (hT : ∀ t ∈ T, t ∈ G.nodes)
    (q : Expr) (hshape : ProbShapeIn G q T) (σ' : Val)
    (hq : ∀ σ, den (M.env G) σ' q σ = M.Q T σ)
    (e : Expr) (h : identify G C T q topo = .ok (some e)) :
    ∀ σ, den (M.env G) σ' e σ = M.Q C σ := by
  obtain ⟨hCT, hTt, _⟩ := tian_checks G C T topo q _ h
  have hpT : (topo.filter (· ∈ T)).Perm T := TianGraph.filter_perm_of_nodup hTnd htnd hTt
  have hpC : (topo.filter (· ∈ C)).Perm C :=
    TianGraph.filter_perm_of_nodup hCnd htnd (fun c hc => hTt c (hCT c hc))
  intro σ
  rw [← Scm.Q_perm M hpC]
  exact TianSem.identifyAux_sound hM hG hrank σ' topo htnd hord C _ T q hT
    (TianSem.probShapeIn_congr hpT.symm hshape) (fun τ => by rw [hq τ, Scm.Q_perm M hpT]) e h σ

/-- **The shape is forced by the meaning.**  If a bare `Probability` denotes `Q[T]` in EVERY positive model compatible
with `G` (at one fixed reading `σ'` of the starred values, every `σ`), then it has the shape `ProbShapeIn`.
Separating models: independent fair coins and the same with one coin biased (Y0/Lemmas/TianSemSep.lean); a
conjunction across worlds, or one that gives a variable two values, has probability 0 in `M.env G` while `Q[T] > 0`. -/
theorem tian_semantic_shape (G : MG Name) (hG : G.WF) (T : List Name) (hTnd : T.Nodup)
    (hT : ∀ t ∈ T, t ∈ G.nodes) (q : Expr) (σ' : Val)
    (hq : ∀ M : Scm, M.Compatible G → ∀ σ, den (M.env G) σ' q σ = M.Q T σ) : ProbShapeIn G q T := by
  cases q with
  | prob pop ch pa => exact TianSem.probShapeIn_of_semantic hG hTnd hT pop ch pa σ' hq
  | _ => trivial

/-- **C17, main clause, with NO syntactic hypothesis.**  For every acyclic graph `G`, every topological listing, every
`C`, `T` and every expression `q` — a bare `Probability` included — that denotes `Q[T]` in every positive
semi-Markovian model compatible with `G`: whatever expression `identify_district_variables` returns denotes `Q[C]` in
every such model, at every value assignment.  (A single-model hypothesis cannot suffice for a bare `Probability`: in a
uniform model unrelated probabilities coincide with `Q[T]`, and the Lemma-1 branch never reads the children outside
`T`; for `Sum` / `Product` / `Fraction` inputs `tian_sound` needs one model only.) -/
theorem tian_sound_semantic (G : MG Name) (hG : G.WF) (hrank : G.Ranked)
    (topo : List Name) (htnd : topo.Nodup) (hord : TopoOrdered G topo)
    (C T : List Name) (hCnd : C.Nodup) (hTnd : T.Nodup) (hT : ∀ t ∈ T, t ∈ G.nodes)
    (q : Expr) (σ' : Val)
    (hq : ∀ M : Scm, M.Compatible G → ∀ σ, den (M.env G) σ' q σ = M.Q T σ)
    (e : Expr) (h : identify G C T q topo = .ok (some e)) :
    ∀ M : Scm, M.Compatible G → ∀ σ, den (M.env G) σ' e σ = M.Q C σ := fun M hM =>
  tian_sound_in M G hM hG hrank topo htnd hord C T hCnd hTnd hT q
    (tian_semantic_shape G hG T hTnd hT q σ' hq) σ' (hq M hM) e h

/-! ## 2. the c-factor routines -/

/-- **Lemma 4 (ii)** (`compute_c_factor_marginalizing_over_topological_successors`): from an expression for `Q[H]`,
`H` listed topologically, and a district `D` of `G[H]` (no bidirected edge joins `D` to the rest of `H`), the
returned expression denotes `Q[D]`. -/
theorem cfactor_lemma4_sound (M : Scm) (G : MG Name) (hM : M.Compatible G) (hG : G.WF) (hrank : G.Ranked)
    (H : List Name) (hnd : H.Nodup) (hsub : ∀ v ∈ H, v ∈ G.nodes) (htopo : TopoOrdered G H)
    (D : List Name) (hDnd : D.Nodup) (hDH : ∀ v ∈ D, v ∈ H) (hclosed : BiClosedIn G D H)
    (q e : Expr) (σ' : Val) (hq : ∀ σ, den (M.env G) σ' q σ = M.Q H σ)
    (h : lemma4 D q H = .ok e) : ∀ σ, den (M.env G) σ' e σ = M.Q D σ :=
  TianSound.lemma4_sound hM hG hrank σ' H hnd hsub htopo D hDnd hDH hclosed q e hq h

/-- **Lemma 1 (i)** (`compute_c_factor_conditioning_on_topological_predecessors`), including the population-tagged
variant and probabilities given in an intervened world: for `P_w(H | Z)` denoting `Q[H]` the product of
`P_w(v | Z ∪ pred(v))` over the district denotes `Q[D]`. -/
theorem cfactor_lemma1_sound (M : Scm) (G : MG Name) (hM : M.Compatible G) (hG : G.WF) (hrank : G.Ranked)
    (H : List Name) (hnd : H.Nodup) (hsub : ∀ v ∈ H, v ∈ G.nodes) (htopo : TopoOrdered G H)
    (D : List Name) (hDnd : D.Nodup) (hDH : ∀ v ∈ D, v ∈ H) (hclosed : BiClosedIn G D H)
    (pop : Option Var) (ch pa : List Var) (e : Expr) (σ' : Val)
    (hshape : ProbShape (.prob pop ch pa) H)
    (hq : ∀ σ, den (M.env G) σ' (.prob pop ch pa) σ = M.Q H σ)
    (h : lemma1 D (.prob pop ch pa) H = .ok e) : ∀ σ, den (M.env G) σ' e σ = M.Q D σ :=
  TianSound.lemma1_sound hM hG hrank σ' H hnd hsub htopo D hDnd hDH hclosed pop ch pa e hshape hq h

/-- **`compute_c_factor`**: whichever lemma the type of the expression selects, the result denotes `Q[D]`
(`S` = `subgraph_variables`, read through the order `topo`). -/
theorem cfactor_sound (M : Scm) (G : MG Name) (hM : M.Compatible G) (hG : G.WF) (hrank : G.Ranked)
    (topo S : List Name) (htnd : topo.Nodup) (hord : TopoOrdered G topo)
    (hsub : ∀ v ∈ topo.filter (· ∈ S), v ∈ G.nodes)
    (D : List Name) (hDnd : D.Nodup) (hDH : ∀ v ∈ D, v ∈ topo.filter (· ∈ S))
    (hclosed : BiClosedIn G D (topo.filter (· ∈ S)))
    (q e : Expr) (σ' : Val) (hshape : ProbShape q (topo.filter (· ∈ S)))
    (hq : ∀ σ, den (M.env G) σ' q σ = M.Q (topo.filter (· ∈ S)) σ)
    (h : computeCFactor D S q topo = .ok e) : ∀ σ, den (M.env G) σ' e σ = M.Q D σ :=
  TianSound.computeCFactor_sound hM hG hrank σ' topo S htnd hord hsub D hDnd hDH hclosed q e hshape hq h

/-- **Lemma 1 (i) with NO syntactic hypothesis**: a probability that denotes `Q[H]` in every compatible positive
model (see `tian_semantic_shape`) -/
theorem cfactor_lemma1_sound_semantic (G : MG Name) (hG : G.WF) (hrank : G.Ranked)
    (H : List Name) (hnd : H.Nodup) (hsub : ∀ v ∈ H, v ∈ G.nodes) (htopo : TopoOrdered G H)
    (D : List Name) (hDnd : D.Nodup) (hDH : ∀ v ∈ D, v ∈ H) (hclosed : BiClosedIn G D H)
    (pop : Option Var) (ch pa : List Var) (e : Expr) (σ' : Val)
    (hq : ∀ M : Scm, M.Compatible G → ∀ σ, den (M.env G) σ' (.prob pop ch pa) σ = M.Q H σ)
    (h : lemma1 D (.prob pop ch pa) H = .ok e) :
    ∀ M : Scm, M.Compatible G → ∀ σ, den (M.env G) σ' e σ = M.Q D σ := fun M hM =>
  TianSem.lemma1_sound hM hG hrank σ' H hnd hsub htopo D hDnd hDH hclosed pop ch pa e
    (tian_semantic_shape G hG H hnd hsub _ σ' hq) (hq M hM) h

/-- **`compute_c_factor` with NO syntactic hypothesis** -/
theorem cfactor_sound_semantic (G : MG Name) (hG : G.WF) (hrank : G.Ranked)
    (topo S : List Name) (htnd : topo.Nodup) (hord : TopoOrdered G topo)
    (hsub : ∀ v ∈ topo.filter (· ∈ S), v ∈ G.nodes)
    (D : List Name) (hDnd : D.Nodup) (hDH : ∀ v ∈ D, v ∈ topo.filter (· ∈ S))
    (hclosed : BiClosedIn G D (topo.filter (· ∈ S)))
    (q e : Expr) (σ' : Val)
    (hq : ∀ M : Scm, M.Compatible G → ∀ σ, den (M.env G) σ' q σ = M.Q (topo.filter (· ∈ S)) σ)
    (h : computeCFactor D S q topo = .ok e) :
    ∀ M : Scm, M.Compatible G → ∀ σ, den (M.env G) σ' e σ = M.Q D σ := fun M hM =>
  TianSem.computeCFactor_sound hM hG hrank σ' topo S htnd hord hsub D hDnd hDH hclosed q e
    (tian_semantic_shape G hG _ (htnd.filter _) hsub q σ' hq) (hq M hM) h

/-- **Lemma 3** (`compute_ancestral_set_q_value`): marginalising an expression for `Q[H]` over `H ∖ A` gives `Q[A]`
when `A` is an ancestral set of `G[H]`. -/
theorem ancestral_q_sound (M : Scm) (G : MG Name) (hM : M.Compatible G) (hrank : G.Ranked)
    (A H topo : List Name) (hHnd : H.Nodup) (hAnd : A.Nodup) (hAH : ∀ v ∈ A, v ∈ H)
    (hsub : ∀ v ∈ H, v ∈ G.nodes) (hanc : AncestralIn G A H) (htnd : topo.Nodup) (hHt : ∀ v ∈ H, v ∈ topo)
    (q e : Expr) (σ' : Val) (hq : ∀ σ, den (M.env G) σ' q σ = M.Q H σ)
    (h : ancestralQ A H q topo = .ok e) : ∀ σ, den (M.env G) σ' e σ = M.Q A σ :=
  TianSound.ancestralQ_sound hM hrank σ' A H topo hHnd hAnd hAH hsub hanc htnd hHt q e hq h

/-- **Equation 72** (`compute_q_value_of_variables_with_low_topological_ordering_indices`):
`Σ_{h ∖ h^(i)} Q[H] = Q[H^(i)]` for a topological listing `H = p ++ v :: s`. -/
theorem lowindex_sound (M : Scm) (G : MG Name) (hM : M.Compatible G) (hrank : G.Ranked)
    (p s : List Name) (v : Name) (hnd : (p ++ v :: s).Nodup) (hsub : ∀ x ∈ p ++ v :: s, x ∈ G.nodes)
    (htopo : TopoOrdered G (p ++ v :: s))
    (q e : Expr) (σ' : Val) (hq : ∀ σ, den (M.env G) σ' q σ = M.Q (p ++ v :: s) σ)
    (h : lowIndex (some v) q (p ++ v :: s) = .ok e) : ∀ σ, den (M.env G) σ' e σ = M.Q (p ++ [v]) σ :=
  TianSound.lowIndex_sound hM hrank σ' p s v hnd hsub htopo q e hq h

/-- `Q[H^(0)] = Q[∅] = 1` -/
theorem lowindex_none (q : Expr) (topo : List Name) : lowIndex none q topo = .ok .one := rfl

/-- the Lemma-3 and Lemma-4 routines never fail on plain variables and a non-`Zero` expression -/
theorem ancestral_q_total (A H : List Name) (q : Expr) (topo : List Name) : ∃ e, ancestralQ A H q topo = .ok e :=
  TianDen.ancestralQ_ok A H q topo

theorem cfactor_lemma4_total (q : Expr) (district topo : List Name) (hsub : ∀ v ∈ district, v ∈ topo)
    (hq : TianDsl.isZero q = false) : ∃ e, lemma4 district q topo = .ok e :=
  TianDen.lemma4_ok hsub hq

/-! ## 3. non-vacuity: the theorems' hypotheses are satisfiable and the model computes -/

namespace C17Example
open TianDsl

/-- `0 → 1 → 2`, `0 → 2`, `1 ↔ 3`, `3 ↔ 2`  (Z = 0, A = 1, B = 2, D = 3): the witness of the fixed defect -/
def g : MG Name := MG.fromEdges [] [(0, 1), (0, 2), (1, 2)] [(1, 3), (3, 2)]

def pl (n : Name) : Var := Var.plain n
def inZ (n : Name) : Var := { name := n, ivs := [⟨0, false⟩] }

/-- `Q[{A,B,D}] = P_z(A,B,D)` given in interventional form; `C = {B}`: the answer keeps the subscript -/
example : identify g [2] [1, 2, 3] (.prob none [inZ 1, inZ 2, inZ 3] []) [0, 3, 1, 2]
    = .ok (some (.prob none [inZ 2] [inZ 1])) := by rfl

/-- the same c-factor given as the conditional `P(A,B,D | Z)` -/
example : identify g [2] [1, 2, 3] (.prob none [pl 1, pl 2, pl 3] [pl 0]) [0, 3, 1, 2]
    = .ok (some (.prob none [pl 2] [pl 0, pl 1])) := by rfl

/-- `A = T`: FAIL -/
example : identify g [2, 3] [1, 2, 3] (.prob none [pl 1, pl 2, pl 3] [pl 0]) [0, 3, 1, 2] = .ok none := by rfl

/-- validation: `C` not inside `T` -/
example : identify g [0] [1, 2, 3] (.prob none [pl 1, pl 2, pl 3] [pl 0]) [0, 3, 1, 2]
    = .error (.invalidInput "KeyError") := by rfl

/-- the shape hypothesis of `tian_sound` holds for the interventional input -/
example : ProbShape (.prob none [inZ 1, inZ 2, inZ 3] []) [1, 2, 3] :=
  ⟨[⟨0, false⟩], by decide, by decide, by decide, by decide, by decide⟩

/-- redundant children are inside the shape hypothesis: `P(A, B, D, Z | Z)` given as `Q[{A,B,D}]` -/
example : ProbShape (.prob none [pl 1, pl 2, pl 3, pl 0] [pl 0]) [1, 2, 3] :=
  ⟨[], by decide, by decide, by decide, by decide, by decide⟩

/-- … and IDENTIFY ignores them -/
example : identify g [2] [1, 2, 3] (.prob none [pl 1, pl 2, pl 3, pl 0] [pl 0]) [0, 3, 1, 2]
    = .ok (some (.prob none [pl 2] [pl 0, pl 1])) := by rfl

/-- the hypothesis of `tian_sound_semantic` is satisfiable: `P_z(A,B,D)` denotes `Q[{A,B,D}]` in EVERY model
compatible with `g` (truncated factorisation) -/
example (σ' : Val) : ∀ M : Scm, M.Compatible g → ∀ σ,
    den (M.env g) σ' (.prob none [inZ 1, inZ 2, inZ 3] []) σ = M.Q [1, 2, 3] σ := by
  intro M hM σ
  rw [TianProb.den_prob_world hM (MG.wf_fromEdges _ _ _) σ σ' [⟨0, false⟩] (by decide) none _ _ (by simp)
    (by unfold TianProb.InWorld; decide)]
  simp only [↓reduceIte, div_one]
  rfl

/-- `+X` (a starred variable) -/
def st (n : Name) : Var := { name := n, star := some true }

/-- the weaker shape of `tian_sound_in` admits starred parents and non-nodes: `P(A, B, D | Z, +X9)` -/
example : ProbShapeIn g (.prob none [pl 1, pl 2, pl 3] [pl 0, st 9]) [1, 2, 3] :=
  ⟨[], by decide, by decide, by decide, by decide, by decide, by decide⟩

/-- … IDENTIFY carries them along -/
example : identify g [2] [1, 2, 3] (.prob none [pl 1, pl 2, pl 3] [pl 0, st 9]) [0, 3, 1, 2]
    = .ok (some (.prob none [pl 2] [pl 0, pl 1, st 9])) := by rfl

/-- the order used above is topological for `g` -/
example : TopoOrdered g [0, 3, 1, 2] := by
  intro l1 l2 e a ha r hr
  have : ∀ l1 l2 : List Name, l1 ++ l2 = [0, 3, 1, 2] → ∀ a ∈ l1, ∀ r ∈ l2, r ∉ g.parents a := by
    intro l1 l2 e
    have hl : l1.length ≤ 4 := by
      have := congrArg List.length e; simp at this; omega
    match l1, e with
    | [], _ => intro a ha; cases ha
    | [x0], e => simp at e; obtain ⟨rfl, rfl⟩ := e; decide
    | [x0, x1], e => simp at e; obtain ⟨rfl, rfl, rfl⟩ := e; decide
    | [x0, x1, x2], e => simp at e; obtain ⟨rfl, rfl, rfl, rfl⟩ := e; decide
    | [x0, x1, x2, x3], e => simp at e; obtain ⟨rfl, rfl, rfl, rfl, rfl⟩ := e; decide
    | _ :: _ :: _ :: _ :: _ :: _, e => simp at hl
  exact this l1 l2 e.symm a ha r hr

/-- the graph hypotheses of `tian_sound` hold for `g` -/
example : g.WF := MG.wf_fromEdges _ _ _
example : g.Ranked := ⟨fun v => if v = 0 then 0 else if v = 3 then 1 else if v = 1 then 2 else 3, by decide⟩

/-- a positive model compatible with `g` exists (fair binary variables, no latent) -/
def coins : Scm :=
  { card := fun _ => 2, lat := [], prior := fun _ _ => 1, latOf := fun _ => [], kern := fun _ _ => 1 / 2 }

example : coins.Compatible g := by
  refine ⟨fun _ => by simp [coins], by simp [coins], by simp [coins], by simp [coins], by simp [coins],
    by simp [coins], ?_, ?_, ?_, ?_⟩
  · intro v _ σ τ _; rfl
  · intro v _ σ; simp [coins]
  · intro v _ σ
    rw [sumVar_const _ _ _ _ (fun _ _ => rfl)]
    simp [coins]
  · intro v _ w _ _ h
    obtain ⟨u, hu, _⟩ := h
    simp [coins] at hu

/-- the hypotheses of `tian_total` hold for this input -/
example : ∃ r, identify g [2] [1, 2, 3] (.prob none [pl 1, pl 2, pl 3] [pl 0]) [0, 3, 1, 2] = .ok r :=
  tian_total g [2] [1, 2, 3] [0, 3, 1, 2] _ (by decide) (by decide) (by decide)
    (by
      intro c1 h1 c2 h2
      rw [List.mem_singleton.mp h1, List.mem_singleton.mp h2]
      exact .refl)
    (Or.inr rfl)

/-- the caller inside y0 (`tian_sound_ctftr_caller`): one domain with the graph `g`, no transport node, the
distribution `P(V)`; the district `{B}` of the target -/
def dom : CtfTr.Domain :=
  { graph := g, topo := [0, 3, 1, 2], policy := [], pop := .prob none [pl 0, pl 3, pl 1, pl 2] [] }

example : (CtfTr.sigmaTRDomain [2] dom).toOption.isSome = true := by decide
example : ∀ v ∈ dom.topo, v ∈ CtfTr.regular dom.graph := by decide
example : ProbShape dom.pop (dom.topo.filter (· ∈ CtfTr.regular dom.graph)) :=
  ⟨[], by decide, by decide, by decide, by decide, by decide⟩

/-- Lemma 4 on `Σ_D P(A,B,D | Z)`: the product of ratios for the district `{B}` of `G[{A,B}]` -/
example : (lemma4 [2] (.sum (.prob none [pl 1, pl 2, pl 3] [pl 0]) [pl 3]) [1, 2]).toOption.isSome = true := by decide

end C17Example
end Y0
