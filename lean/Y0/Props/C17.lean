/-
  Property C17 — Tian-Pearl c-factor identification returns the true c-factor (work in progress).
-/
import Y0.Model.Tian

namespace Y0
open Tian

/-- `Q[H^(0)] = Q[∅] = 1` -/
theorem lowIndex_none (q : Expr) (topo : List Name) : lowIndex none q topo = .ok .one := rfl

end Y0
