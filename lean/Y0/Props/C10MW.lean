/-
  Property C10, widened — canonicalisation never changes what an expression means, ALSO on multi-world joints.

  `WellScoped` (Props/C10.lean) keeps every leaf inside one world with pairwise distinct names; `Sum.simplify`'s own FIXME
  lived exactly outside it: the dict `{child.get_base(): child}` kept only the last child per base variable, so a sum over
  a joint such as P(Y @ +X, Y @ -X, Z) silently dropped children (canonicalize(Sum[Z](P(Y @ +X, Y @ -X, Z))) = P[+X](Y)).
  After `fix:` d517ad1 (such a sum is left alone) the theorems hold on the WIDENED class

    `WellScopedW e`  (Y0/Lemmas/SemScopeW.lean): every leaf has a child — nothing is required of the worlds or names of a
                     leaf (children in different worlds, several children on one base variable, with the same or with
                     different value marks); an unstarred subscript `-X` never names a variable of its own leaf that a
                     Sum of the expression binds; no `+X` event value bound by a Sum; no Q-factor; Sum ranges are sets of
                     plain variables.

  for every family of distributions satisfying the probability laws (`ProbFamily`: a probability measure on the joint
  values of ALL counterfactual variables, so multi-world conjunctions have a meaning; `pr_marg` marginalises one variable
  of one world) — in particular for every well-formed functional SCM (`fscmEnv`, shared noise across worlds).
  Positivity no longer implies `DenNZ` on this class (P(Y @ +X, +Y @ -X) vanishes at x* = x, y* ≠ y even in a positive
  family), so `DenNZ` stays an explicit hypothesis and there is no `_positive` corollary.
-/
import Y0.Lemmas.CanonTotalW
import Y0.Lemmas.CanonDefault
import Y0.Lemmas.FscmEnvLaws

namespace Y0

variable {env : Env} {σ' : Val}

/-! ## 1. the widened class contains the old one -/

/-- every well-scoped expression is in the widened class -/
theorem wellScoped_imp_W {e : Expr} (h : WellScoped e = true) : WellScopedW e = true := wssW_of_wss e h

/-! ## 2. meaning preservation -/

/-- **C10 on multi-world joints.**  For every expression of the widened class, every ordering, every family of distributions
satisfying the probability laws and every in-range valuation: if canonicalisation returns `e'` then `e'` denotes what `e`
denotes (provided no denominator of `e` vanishes). -/
theorem canon_den_mw (hF : ProbFamily env) {o : List Var} {e e' : Expr} (hws : WellScopedW e = true)
    (hz : DenNZ env σ' e) (h : canon o e = .ok e') {σ : Val} (hσ : InRange env σ) :
    den env σ' e' σ = den env σ' e σ :=
  (canonL_denW hF e e' hws hz h).1 σ hσ

/-- the canonical form has no vanishing denominator either -/
theorem canon_denNZ_mw (hF : ProbFamily env) {o : List Var} {e e' : Expr} (hws : WellScopedW e = true)
    (hz : DenNZ env σ' e) (h : canon o e = .ok e') : DenNZ env σ' e' :=
  (canonL_denW hF e e' hws hz h).2

/-- the public entry point `canonicalize(expression, ordering)` -/
theorem canonicalize_den_mw (hF : ProbFamily env) {ordering : Option (List Var)} {e e' : Expr}
    (hws : WellScopedW e = true) (hz : DenNZ env σ' e) (h : canonicalize e ordering = .ok e')
    {σ : Val} (hσ : InRange env σ) : den env σ' e' σ = den env σ' e σ :=
  canon_den_mw hF hws hz h hσ

/-- the canonical form stays in the widened class (w.r.t. the same bound names) -/
theorem canon_wellScopedW {o : List Var} {e e' : Expr} (hws : WellScopedW e = true) (h : canon o e = .ok e') :
    e'.wssW e.rangeNames = true :=
  wssW_canonL e e' hws h

/-- **in every functional SCM** (one noise space shared by all worlds: the semantics of multi-world joints) -/
theorem canon_den_mw_fscm {M : Fscm.Model} {card : Name → Nat} (hM : Fscm.WellFormed M card) {o : List Var} {e e' : Expr}
    (hws : WellScopedW e = true) (hz : DenNZ (M.fscmEnv card) σ' e) (h : canon o e = .ok e') {σ : Val}
    (hσ : InRange (M.fscmEnv card) σ) : den (M.fscmEnv card) σ' e' σ = den (M.fscmEnv card) σ' e σ :=
  canon_den_mw (Fscm.fscmEnv_probFamily hM) hws hz h hσ

/-! ## 3. totality -/

/-- on the widened class, with a covering ordering and non-vanishing denominators, canonicalisation returns an expression -/
theorem canon_total_mw (hF : ProbFamily env) {o : List Var} {e : Expr} (hws : WellScopedW e = true)
    (hcov : Covers (levelOf o) e) (hz : DenNZ env σ' e) : ∃ e', canon o e = .ok e' :=
  canonL_totalW hF e hws hcov hz

/-- the default ordering always covers the expression -/
theorem canonicalize_default_total_mw (hF : ProbFamily env) {e : Expr} (hws : WellScopedW e = true)
    (hz : DenNZ env σ' e) : ∃ e', canonicalize e none = .ok e' :=
  canonL_totalW hF e hws (covers_default e) hz

/-! ## 4. canonical equality is sound -/

/-- two expressions of the widened class that `canonical_expr_equal` declares equal denote the same function -/
theorem canonical_equal_sound_mw (hF : ProbFamily env) {l r : Expr} (hl : WellScopedW l = true)
    (hr : WellScopedW r = true) (hzl : DenNZ env σ' l) (hzr : DenNZ env σ' r)
    (h : canonicalExprEqual l r = .ok true) {σ : Val} (hσ : InRange env σ) : den env σ' l σ = den env σ' r σ := by
  unfold canonicalExprEqual at h
  obtain ⟨a, ha, h⟩ := bind_ok h
  obtain ⟨b, hb, h⟩ := bind_ok h
  have hab : a = b := Expr.eqb_sound a b (pure_ok h)
  rw [← canon_den_mw hF hl hzl ha hσ, ← canon_den_mw hF hr hzr hb hσ, hab]

/-! ## 5. what the repaired `Sum.simplify` does on a shared base variable, and non-vacuity -/

/-- a base variable with several children: the sum is returned as it is (the repaired branch) -/
theorem sum_simplify_shared_base {pop : Option Var} {c rs : List Var} (h : ¬ (c.map (·.name)).Nodup) :
    sumSimplify (.prob pop c []) rs = .sum (.prob pop c []) rs :=
  sumSimplify_dup (dupBase_of_not_nodup h)

/-- why positivity does not discharge `DenNZ` on the widened class: the multi-world leaf `P(Y @ +X, +Y @ -X)` — "Y under x* is
y and Y under x is y*" — denotes 0 at every valuation with x* = x and y* ≠ y, in EVERY family satisfying the probability
laws (a variable takes one value per world, `pr_conflict`), positive or not.  As a denominator it violates `DenNZ`. -/
theorem mw_leaf_vanishes (hF : ProbFamily env) (σ σ' : Val) (hx : σ' 0 = σ 0) (hy : σ 1 ≠ σ' 1) :
    den env σ' (.prob none [{ name := 1, ivs := [⟨0, true⟩] }, { name := 1, star := some true, ivs := [⟨0, false⟩] }] []) σ = 0 := by
  have hc : Atom.conflicts (Var.atom σ σ' { name := 1, ivs := [⟨0, true⟩] })
      (Var.atom σ σ' { name := 1, star := some true, ivs := [⟨0, false⟩] }) = true := by
    simp [Atom.conflicts, Var.atom, Var.value, Iv.eval, hx, hy]
  simp only [den, List.append_nil, List.map_cons, List.map_nil]
  rw [hF.pr_conflict _ _ _ _ hc]
  simp

section examples
open Var

/-- `Y_{x'}`, `Y_x`, `Z` with X=0, Y=1, Z=2 -/
def yx' : Var := { name := 1, ivs := [⟨0, true⟩] }
def yx : Var := { name := 1, ivs := [⟨0, false⟩] }

/-- the adversary's input `Sum[Z](P(Y @ +X, Y @ -X, Z))` -/
def exMW : Expr := .sum (.prob none [yx', yx, plain 2] []) [plain 2]

example : WellScopedW exMW = true := by decide
example : WellScoped exMW = false := by decide
/-- its canonical form keeps both worlds (the pinned code returned `P[+X](Y)`) -/
example : canon [plain 0, plain 1, plain 2] exMW = .ok (.sum (.prob none [yx, yx', plain 2] []) [plain 2]) := by rfl
/-- `Sum[Y](P(Y @ +X, Y @ -X))` stays a sum (the pinned code returned `One()`; the true value is P(Y_x' = Y_x)) -/
example : canon [plain 0, plain 1] (.sum (.prob none [yx', yx] []) [plain 1]) =
    .ok (.sum (.prob none [yx, yx'] []) [plain 1]) := by rfl
/-- children in different worlds with DISTINCT base variables are still marginalised: `Sum[Z](P(Y @ -X, Z @ -W))` -/
example : canon [plain 0, plain 1, plain 2, plain 3]
      (.sum (.prob none [yx, { name := 2, ivs := [⟨3, false⟩] }] []) [plain 2]) = .ok (.prob none [yx] []) := by rfl
example : WellScopedW (.sum (.prob none [yx, { name := 2, ivs := [⟨3, false⟩] }] []) [plain 2]) = true := by decide
example : WellScoped (.sum (.prob none [yx, { name := 2, ivs := [⟨3, false⟩] }] []) [plain 2]) = false := by decide
/-- outside the widened class: the Sum would bind the subscript together with the event value, `Sum[X](P(Y @ -X, X))` -/
example : WellScopedW (.sum (.prob none [yx, plain 0] []) [plain 0]) = false := by decide
/-- ... but `P(Y @ -X, X)` itself, with `X` not summed, is inside -/
example : WellScopedW (.prod [.prob none [yx, plain 0] [], .sum (.prob none [plain 2] [plain 1]) [plain 1]]) = true := by
  decide

end examples

end Y0
