/-
  Property C07 — ID* estimands equal the probability of the counterfactual event.

  Statement (properties.jsonl): whenever ID* returns an expression for a conjunction of counterfactual events, then in
  every SCM compatible with the graph the expression — read with the event's own values for its outcome variables and
  literal values for intervention subscripts — equals the probability of that conjunction; it returns zero only for
  events that have probability zero in every compatible model, and otherwise refuses with 'unidentifiable'.

  Everything below is about the executable model `Y0.Cf.idStar` (Y0/Model/IdStar.lean, built on Y0/Model/Cg.lean), which
  the correspondence check (harness/props/c07.py) compares with the real `id_star` on every run under every iteration
  order of the sets the Python iterates over (`ordf`, `dordf`; all theorems hold for every choice).
  Semantics: functional SCMs with shared noise, Y0/Spec/Fscm.lean.

  PROVED (all inputs, all orders, all functional SCMs):
    * `idstar_line1`, `idstar_line2`, `idstar_line3`           what the first three lines return
    * `idstar_line2_sound`      an event that violates effectiveness has probability 0 in every functional SCM
    * `idstar_line3_sound`      removing tautologies does not change the probability in any functional SCM
    * `removeTautologies_shrinks`, `removeTautologies_idem`, `idstar_line3_once`
                                the line-3 recursion strictly shrinks the event and is taken at most once
    * `idstar_zero_line2_sound_partial`   Zero returned by line 2 (possibly after line 3) is a sound answer
    * `idstar_zero_line5_sound`           Zero returned by line 5 ('inconsistent' counterfactual graph) is a sound answer
    * `districts_ge_two`, `idstar_no_runtime_error`   the `RuntimeError` of line 6 is unreachable
    * `idstar_error_taxonomy`   with an acyclic input graph the only outcomes are an estimand, Zero, 'unidentifiable',
                                or the two internal conditions `fuel` / null counterfactual graph
    * `idstar_error_taxonomy_wf`, `idstar_nonempty_graph`
                                for a well-formed event dict the null-graph condition is excluded too: estimand, Zero,
                                'unidentifiable' or `fuel` (the latter excluded by `idstar_terminates`), nothing else
    * `idstar_fuel_mono`        more fuel never changes an answer that was reached
    * `idstar_terminates`       TERMINATION: for every well-formed graph without self-loop edges and every well-formed event
                                (`GoodEv`: a dict whose keys are variables of the graph with consistent subscript sets),
                                `2·|V| + 3` units of fuel are never exhausted, for every iteration order of the worlds and of
                                the district nodes; `idstar_never_out_of_fuel` (the model's own bound `2|V| + |event| + 4`),
                                `idstar_outcomes`: on an acyclic graph the outcome is an estimand / Zero or `unidentifiable`,
                                NOTHING else (no fuel clause).  Measure (Lemmas/CfTermA–C): every event line 6 recurses on is a
                                "district event" (all keys in one world, key names closed under parents up to that world's
                                names: `sw_of_district`); on a district event the non-self-intervened part of the
                                counterfactual graph has at most one node per key name (`sw_structure`), so every further
                                district event has strictly fewer keys (`district_smaller`); line 3 never adds keys and fires
                                at most once per level.
    * `idstar_depth_sw`         on a district event with k keys, `2k + 1` units suffice
    * `idstar_sound_fragment`   SOUNDNESS ON A NAMED FRAGMENT (`InFragment`, decidable by `inFragmentB`): events all of whose
                                keys carry one subscript set, with unstarred values and subscripts — the interventional
                                queries P(y_x), conjunctions allowed.  For every functional SCM compatible with the graph
                                (normalised noise, bounded values) the returned expression, under the reading of the property
                                (`cden`, Lemmas/CfDen.lean), EQUALS P(event); `idstar_answers_fragment`: inside the fragment ID*
                                always answers (never 'unidentifiable').  Proof (Lemmas/CfProb, CfLocal, CfDen, CfFragA–C): the
                                noise space is a product measure (independence of events over disjoint coordinates,
                                marginalisation); the joint distribution of a parent-closed set of variables in one world is
                                the mass of "local mechanism" events (so the world only matters through what it forces); the
                                districts of the counterfactual graph share no noise (c-component factorisation, line 6);
                                line 9 and the outer Sum are marginalisations; induction over the recursion.
    * `idstar_sound_oneworld_conflating`   EVERY SINGLE-WORLD EVENT (`OneWorld`: all keys carry one subscript set; values and
                                subscripts of ANY polarity): the estimand equals P(event) under the CONFLATING reading `cden`, in which
                                an unstarred subscript `-X` denotes the value the event gives `X`.  So on single-world events the
                                only thing wrong with ID*'s answers is the polarity of the subscripts line 6 writes (F10/M1, F10/M2).
    * `idstar_sound_fragment2`  SOUNDNESS ON FRAGMENT 2 (`InFragment2`, decidable by `inFragment2B`; contains fragment 1:
                                `inFragment_subset`), UNDER THE READING OF THE PROPERTY (`cden2`, Lemmas/CfStarLit.lean: outcome
                                variables take the event's values, `-X` is the literal `x` unless an enclosing `Sum` binds `X`, `+X`
                                is the literal `x'`): single-world events of any polarity such that, when line 6 fires, no key with
                                a starred value is a parent (in `G`) of a non-self-intervened node of the counterfactual graph and no
                                node of the graph is self-intervened on a starred subscript (`Clean2`).  Measured boundary
                                (tools/c07_boundary.py, 39 906 in-domain events): on single-world events the real code fails exactly
                                when one of these two conditions fails (F10/M1 resp. F10/M2) — outside `Clean2` 87% of the events fail.
    * `idstar_sound_fragment2R` … and on FRAGMENT 2R (`InFragment2R`, decidable by `inFragment2RB`): events with ANY number of worlds
                                that violate effectiveness, consist of tautologies, or are reduced to fragment 2 by line 3.
    * `idstar_sound_fragment3`  … and on FRAGMENT 3 (`InFragment3`, decidable by `inFragment3B`): events that are STILL MULTI-WORLD after line 3
                                and whose counterfactual graph has at most one non-self-intervened node per variable, no
                                non-self-intervened node named like a subscript, consistent subscripts, represented bidirected edges, and
                                keeps the polarities (`Frag3At`, Lemmas/CfMwC.lean).  Proof (Lemmas/CfMwA–D): the invariants of C18's
                                merge loop read off for the model at hand (every parent of a node is represented by a parent node of
                                equal value wherever the earlier conjuncts hold), `mw_local` (the joint event of the nodes, each in
                                its own world, is the joint local-mechanism event — induction along the processing order),
                                `mw_marginal`, the c-component factorisation, and the single-world theorem for the recursive calls.
                                Measured: 87.5% of 39 906 generated events lie in fragments 1–3 (none answered wrongly); outside them
                                86% of the single-world events and 88% of the multi-world events that get an estimand are answered
                                wrongly: the proved boundary is the measured one.
    * `idstar_answers_oneworld` on a single-world event ID* never refuses
    * `idstar_zero_iff_line2_oneworld`, `idstar_zero_sound_oneworld`, `idstar_never_zero_fragment`
                                ZERO on single-world events (fragments 1, 2 included): ID* returns Zero IFF the event violates the
                                axiom of effectiveness (line 2) — then P(event) = 0 in every functional SCM; no other line returns Zero,
                                no recursive call returns Zero; inside fragment 1 Zero is never returned.
    * `idstar_zero_origin`, `idstar_zero_sound_partial`
                                ZERO on EVERY well-formed event: it comes from line 2, from line 5, or from line 6 with a district event
                                that violates effectiveness (line 2 of a recursive call, depth one); the first two are sound, so Zero is
                                sound unless it is of the third kind (that is where the open findings of kind 'zero' live).
    * `idstar_refusal_iff_conflict`, `idstar_refuses_sound`
                                REFUSALS on every well-formed event (acyclic graph): ID* refuses IFF after lines 1–3 the counterfactual
                                graph is connected and line 8's conflict test fires; the recursive calls of line 6 never refuse.
    * vocabulary (C06 part): Props/C06Cf.lean

  -- OPEN (stated in full, NOT proved; on the current tree the first one is FALSE outside fragments 1–3 — F10, see known_findings.jsonl):
  --   theorem idstar_sound : idStar ordf dordf G ev = .ok e → e ≠ .zero → M.Compatible G → EventWF M ev → ν.Distinct →
  --       cden2 M ν dom e (values of the event) (fun n => ν n false) = probEvent M ν ev
  --     proved on fragments 1, 2, 2R, 3.  FALSE of the code: (a) single-world events outside `Clean2` (F10/M1, M2: the estimand is
  --     right only under the conflating reading, `idstar_sound_oneworld_conflating`); (b) events that are still multi-world after
  --     line 3 and violate `Frag3At` (F10/M3a, M3b, D1, D2 and M1/M2 again): 5–6% of the stream, 88% of them wrong
  --   theorem idstar_zero_sound : idStar ordf dordf G ev = .ok .zero → M.Compatible G → EventWF M ev → ν.Distinct →
  --       probEvent M ν ev = 0
  --     proved for single-world events (`idstar_zero_sound_oneworld`) and, for every event, for Zero from lines 2 and 5
  --     (`idstar_zero_sound_partial`); Zero from line 2 of a recursive call on a district event (multi-world top events only) is
  --     open and false today (F10: keys ["zero", "line6", …])
-/
import Y0.Model.IdStar
import Y0.Lemmas.CfFscm
import Y0.Lemmas.CfIdStar
import Y0.Lemmas.CfNsi
import Y0.Lemmas.CfTermC
import Y0.Lemmas.CfFragC
import Y0.Lemmas.CfStarZero
import Y0.Lemmas.CfMwD
import Mathlib.Tactic.NormNum
import Mathlib.Algebra.Order.Field.Rat

namespace Y0.Cf
open Fscm

variable (ordf : List World → List World) (dordf : List Var → List Var) (G : MG Name)

/-! ## 1. the first three lines -/

theorem idstar_line1 (fuel : Nat) : idStarFuel ordf dordf G (fuel + 1) [] = .ok .one := by
  simp [idStarFuel, idStarBody]

theorem idstar_line2 (fuel : Nat) (ev : Event) (hne : ev ≠ []) (h : violatesEffectiveness ev = true) :
    idStarFuel ordf dordf G (fuel + 1) ev = .ok .zero := by
  cases ev with
  | nil => exact absurd rfl hne
  | cons p ps => simp [idStarFuel, idStarBody, h]

theorem idstar_line3 (fuel : Nat) (ev : Event) (hne : ev ≠ []) (h2 : violatesEffectiveness ev = false)
    (h3 : Event.eqv (removeTautologies ev) ev = false) :
    idStarFuel ordf dordf G (fuel + 1) ev = idStarFuel ordf dordf G fuel (removeTautologies ev) := by
  cases ev with
  | nil => exact absurd rfl hne
  | cons p ps => simp [idStarFuel, idStarBody, h2, h3]

/-- **Line 2 is sound.**  An event that violates the axiom of effectiveness has probability 0 in every functional SCM
(whatever graph it is compatible with) and under every base value assignment with `x ≠ x'`. -/
theorem idstar_line2_sound (M : Model) (ν : BaseValues) (hν : ν.Distinct) (ev : Event) (hwf : EventWF M ev)
    (h : violatesEffectiveness ev = true) : probEvent M ν ev = 0 := by
  unfold violatesEffectiveness at h
  rw [List.any_eq_true] at h
  obtain ⟨p, hp, hcond⟩ := h
  simp only [Bool.and_eq_true, List.any_eq_true, beq_iff_eq, bne_iff_ne, ne_eq] at hcond
  obtain ⟨_, i, hi, hname, hstar⟩ := hcond
  unfold probEvent
  apply prob_zero_of_impossible_conjunct M _ (conjunctOf ν p) (List.mem_map.2 ⟨p, hp, rfl⟩)
  intro u
  exact holds_false_of_effectiveness M ν hν p i hi hname hstar (hwf.names p hp) (hwf.inModel p hp) (hwf.subs p hp) u

/-- **Line 3 is sound.**  Removing the tautological conjuncts does not change the probability, in every functional SCM. -/
theorem idstar_line3_sound (M : Model) (ν : BaseValues) (ev : Event) (hwf : EventWF M ev) :
    probEvent M ν (removeTautologies ev) = probEvent M ν ev := by
  unfold probEvent removeTautologies
  apply prob_map_filter
  intro p hp hk u
  simp only [Bool.not_eq_eq_eq_not, Bool.not_false] at hk
  unfold isRedundant at hk
  simp only [Bool.and_eq_true, List.any_eq_true, beq_iff_eq] at hk
  obtain ⟨_, i, hi, hname, hstar⟩ := hk
  exact holds_true_of_tautology M ν p i hi hname hstar (hwf.names p hp) (hwf.inModel p hp) (hwf.subs p hp) u

/-- the sub-event keeps the well-formedness the semantic theorems need -/
theorem eventWF_removeTautologies (M : Model) (ev : Event) (hwf : EventWF M ev) : EventWF M (removeTautologies ev) := by
  unfold removeTautologies
  exact ⟨fun p hp => hwf.names p (List.mem_filter.1 hp).1, fun p hp => hwf.inModel p (List.mem_filter.1 hp).1,
    fun p hp => hwf.subs p (List.mem_filter.1 hp).1⟩

/-! ## 2. the line-3 recursion -/

theorem removeTautologies_shrinks (ev : Event) :
    removeTautologies ev = ev ∨ (removeTautologies ev).length < ev.length := by
  unfold removeTautologies
  by_cases h : ∀ p ∈ ev, (fun (x : Var × Iv) => !isRedundant x.1 x.2) p = true
  · exact Or.inl (List.filter_eq_self.2 h)
  · right
    have hle := List.length_filter_le (fun (x : Var × Iv) => !isRedundant x.1 x.2) ev
    rcases Nat.lt_or_ge (List.length (List.filter (fun (x : Var × Iv) => !isRedundant x.1 x.2) ev)) ev.length with hlt | hge
    · exact hlt
    · exact absurd (List.length_filter_eq_length_iff.1 (Nat.le_antisymm hle hge)) h

theorem removeTautologies_idem (ev : Event) : removeTautologies (removeTautologies ev) = removeTautologies ev := by
  unfold removeTautologies
  rw [List.filter_filter]
  congr 1
  funext p
  simp

theorem violates_removeTautologies (ev : Event) (h : violatesEffectiveness ev = false) :
    violatesEffectiveness (removeTautologies ev) = false := by
  unfold violatesEffectiveness removeTautologies at *
  rw [List.any_eq_false] at h ⊢
  intro p hp
  exact h p (List.mem_filter.1 hp).1

/-- Zero returned by line 2 — directly, or after the line-3 reduction — is a sound answer -/
theorem idstar_zero_line2_sound_partial (M : Model) (ν : BaseValues) (hν : ν.Distinct) (ev : Event) (hwf : EventWF M ev)
    (h : violatesEffectiveness ev = true ∨ violatesEffectiveness (removeTautologies ev) = true) :
    probEvent M ν ev = 0 := by
  rcases h with h | h
  · exact idstar_line2_sound M ν hν ev hwf h
  · rw [← idstar_line3_sound M ν ev hwf]
    exact idstar_line2_sound M ν hν _ (eventWF_removeTautologies M ev hwf) h

/-! ## 3. totality, error taxonomy, fuel -/

/-- **the `RuntimeError` of line 6 is unreachable**: a counterfactual graph whose non-self-intervened part is not connected
has at least two districts, so `len(events_of_each_district) <= 1` never holds there -/
theorem idstar_no_runtime_error (g : MG Var) (hg : g.WF) (hne : g.nodes ≠ []) (h1 : g.districts.length ≠ 1) :
    2 ≤ g.districts.length := districts_ge_two g hg hne h1

/-- **Error taxonomy.**  On an acyclic input graph, for every fuel and every event, the model never raises anything but
`unidentifiable` (the documented refusal), `internal fuel` (the recursion bound of the MODEL, see OPEN `idstar_terminates`)
or `internal NetworkXPointlessConcept` (null counterfactual graph, see OPEN `idstar_nonempty_graph`).  In particular the
`RuntimeError` of line 6, the `ValueError` of an empty `Probability`, the `NetworkXError` of `get_markov_pillow` /
`ancestors_inclusive` are excluded for all inputs.  `dordf` is only assumed to return members of the district it is given. -/
theorem idstar_error_taxonomy {dordf : List Var → List Var} (hdo : SubsetOrder dordf) (topo : List Name)
    (hG : G.topologicalSort = .ok topo) (ev : Event) (e : Err) (h : idStar ordf dordf G ev = .error e) :
    e = .unidentifiable ∨ e = .internal "fuel" ∨ e = .internal "NetworkXPointlessConcept" :=
  idStarFuel_error ordf G hdo topo hG _ ev e h

/-- more fuel never changes an answer that was reached -/
theorem idstar_fuel_mono (fuel k : Nat) (ev : Event) (x : Expr) (h : idStarFuel ordf dordf G fuel ev = .ok x) :
    idStarFuel ordf dordf G (fuel + k) ev = .ok x := by
  induction k with
  | zero => exact h
  | succ k ih => exact idStarFuel_mono ordf dordf G (fuel + k) ev x ih

/-- the line-3 recursion is taken at most once: after it, lines 1–2 or lines 4–9 answer -/
theorem idstar_line3_once (rec : Event → Except Err Expr) (ev : Event) (h2 : violatesEffectiveness ev = false)
    (hself : ∀ e : Event, Event.eqv e e = true) :
    idStarBody ordf dordf G rec (removeTautologies ev) =
      if (removeTautologies ev).isEmpty then .ok .one
      else idStarLines4to9 ordf dordf G rec (removeTautologies ev) := by
  unfold idStarBody
  rw [violates_removeTautologies ev h2, removeTautologies_idem, hself]
  simp

/-- **Sharpened error taxonomy** for well-formed input: on an acyclic graph, for an event dict without repeated keys whose
values are named after their variables (`EvOK`), with the worlds iterated as a duplicate-free list of non-empty subscript
sets (`GoodOrder`), ID* returns an estimand / Zero, refuses with `unidentifiable`, or exhausts the model's fuel —
nothing else, for every fuel.  In particular the counterfactual graph handed to `nx.is_connected` is never null
(`idstar_nonempty_graph`). -/
theorem idstar_error_taxonomy_wf {ordf : List World → List World} (hord : GoodOrder ordf) {dordf : List Var → List Var}
    (hdo : SubsetOrder dordf) (topo : List Name) (hG : G.topologicalSort = .ok topo) (ev : Event) (hok : EvOK ev)
    (e : Err) (h : idStar ordf dordf G ev = .error e) : e = .unidentifiable ∨ e = .internal "fuel" :=
  idStarFuel_error' hord hdo G topo hG _ ev hok e h

/-- after lines 1–3 the non-self-intervened part of the counterfactual graph contains an event variable: `nx.is_connected`
is never called on the null graph -/
theorem idstar_nonempty_graph {ordf : List World → List World} (hord : GoodOrder ordf) (ev nev : Event) (g : MG Var)
    (hne : ev ≠ []) (h2 : violatesEffectiveness ev = false) (h3 : Event.eqv (removeTautologies ev) ev = true)
    (hok : EvOK ev) (h : makeCounterfactualGraph ordf G ev = .ok (g, some nev)) : (nsiSubgraph g).nodes ≠ [] :=
  cg_nsi_nonempty hord h (keysNSI_of_lines123 ev hne h2 h3 hok) hok

/-- `GoodOrder` is satisfiable: the identity order (the worlds in order of first occurrence) -/
example : GoodOrder id := fun vs => extractInterventions_ok vs

/-- **Zero from line 5 is sound** (by C18's `cg_prob`): when `make_counterfactual_graph` reports 'inconsistent' the event has
probability 0 in every functional SCM compatible with the graph (hypotheses as in `cg_prob`) -/
theorem idstar_zero_line5_sound (M : Model) (ν : BaseValues) (hν : ν.Distinct) (hM : Compatible M G) (hG : G.WF)
    (hdl : ∀ e ∈ G.di, e.1 ≠ e.2) (hbl : ∀ e ∈ G.bi, e.1 ≠ e.2) (ev : Event) (hev : EvOK ev)
    (hws : (ordf (extractInterventions ev.keys)).Nodup) (hwne : ∀ w ∈ ordf (extractInterventions ev.keys), w ≠ [])
    (hwcs : ∀ w ∈ ordf (extractInterventions ev.keys), ConsistentSubs w) (g : MG Var)
    (h : makeCounterfactualGraph ordf G ev = .ok (g, none)) : probEvent M ν ev = 0 :=
  (cg_prob M ν hν G hM hG hdl hbl ordf ev hev hws hwne hwcs).2 g h

/-! ## 3b. termination -/

/-- **ID\* terminates** (the fuel of the model is never exhausted).  For every well-formed graph without self-loop edges, every
well-formed event (`GoodEv G ev`: no repeated key, values named after their variables, every key `Variable(n)` or
`CounterfactualVariable(n, S)` with `n` a node of `G` and `S` a consistent subscript set), every iteration order of the worlds
(`PermOrder`) and of the district nodes (`SubsetOrder`): every fuel `≥ 2·|V| + 3` gives an outcome other than `internal fuel`. -/
theorem idstar_terminates {ordf : List World → List World} (hord : PermOrder ordf) {dordf : List Var → List Var}
    (hdo : SubsetOrder dordf) (hG : G.WF) (hdl : ∀ e ∈ G.di, e.1 ≠ e.2) (hbl : ∀ e ∈ G.bi, e.1 ≠ e.2)
    (ev : Event) (hev : GoodEv G ev) :
    ∃ n, n = 2 * G.nodes.length + 3 ∧ ∀ fuel, n ≤ fuel → idStarFuel ordf dordf G fuel ev ≠ .error (.internal "fuel") :=
  ⟨_, rfl, fun fuel hf => idStarFuel_terminates hord hdo hG hdl hbl ev hev fuel hf⟩

/-- … in particular the bound the model itself uses is enough -/
theorem idstar_never_out_of_fuel {ordf : List World → List World} (hord : PermOrder ordf) {dordf : List Var → List Var}
    (hdo : SubsetOrder dordf) (hG : G.WF) (hdl : ∀ e ∈ G.di, e.1 ≠ e.2) (hbl : ∀ e ∈ G.bi, e.1 ≠ e.2)
    (ev : Event) (hev : GoodEv G ev) : idStar ordf dordf G ev ≠ .error (.internal "fuel") := by
  unfold idStar idStarFuelBound
  exact idStarFuel_terminates hord hdo hG hdl hbl ev hev _ (by omega)

/-- on a district event (what line 6 recurses on) with at most `k` keys, `2k + 1` units of fuel suffice -/
theorem idstar_depth_sw {ordf : List World → List World} (hord : PermOrder ordf) {dordf : List Var → List Var}
    (hdo : SubsetOrder dordf) (hG : G.WF) (hdl : ∀ e ∈ G.di, e.1 ≠ e.2) (hbl : ∀ e ∈ G.bi, e.1 ≠ e.2)
    (topo : List Name) (ht : G.topologicalSort = .ok topo) (k : Nat) (ev : Event) (hsw : SW G ev) (hk : ev.length ≤ k)
    (fuel : Nat) (hf : 2 * k + 1 ≤ fuel) : idStarFuel ordf dordf G fuel ev ≠ .error (.internal "fuel") :=
  idStarFuel_sw_terminates hord hdo hG hdl hbl topo ht k ev hsw hk fuel hf

/-- **The outcomes of ID\***, without any fuel clause: on an acyclic well-formed graph and a well-formed event, ID* returns an
expression (an estimand or Zero) or refuses with `unidentifiable` — nothing else. -/
theorem idstar_outcomes {ordf : List World → List World} (hord : PermOrder ordf) {dordf : List Var → List Var}
    (hdo : SubsetOrder dordf) (hG : G.WF) (hA : G.Acyclic) (hdl : ∀ e ∈ G.di, e.1 ≠ e.2) (hbl : ∀ e ∈ G.bi, e.1 ≠ e.2)
    (ev : Event) (hev : GoodEv G ev) :
    (∃ e, idStar ordf dordf G ev = .ok e) ∨ idStar ordf dordf G ev = .error .unidentifiable := by
  obtain ⟨topo, ht⟩ := MG.topologicalSort_total G hG hA
  cases h : idStar ordf dordf G ev with
  | ok e => exact Or.inl ⟨e, rfl⟩
  | error e =>
    right
    rcases idstar_error_taxonomy_wf G hord.good hdo topo ht ev hev.ok e h with he | he
    · rw [he]
    · exact absurd (he ▸ h) (idstar_never_out_of_fuel G hord hdo hG hdl hbl ev hev)

/-- the hypotheses are satisfiable: the orders used by the correspondence check -/
example (rev : Bool) (rot : Nat) : PermOrder (orderWorlds rev rot) := permOrder_orderWorlds rev rot
example (rev : Bool) : SubsetOrder (orderDistrict rev) := subsetOrder_orderDistrict rev

/-! ## 3c. soundness on a named fragment -/

/-- **The fragment** `InFragment G ev`: the event is a dict over variables of `G`; all its keys carry ONE subscript set `w`
(possibly empty: all factual); every value is the UNSTARRED value of its own variable and every subscript is unstarred —
the interventional queries `P(y_x)` (`x`, `y` the unstarred values), conjunctions allowed.  None of the F10 defect patterns
(a starred symbol turned into an unstarred subscript, two copies of one variable) can occur inside it. -/
def InFragment (G : MG Name) (ev : Event) : Prop := ∃ w, Frag G w ev

/- the fragment is decidable: the executable test `inFragmentB` (Y0/Model/IdStar.lean) -/

theorem inFragmentB_sound (ev : Event) (h : inFragmentB G ev = true) : InFragment G ev := by
  cases ev with
  | nil =>
    refine ⟨[], ⟨⟨?_, ?_⟩, ?_⟩, ?_, ?_, ?_⟩
    · simp [Event.keys]
    · intro p hp; cases hp
    · intro k hk; simp [Event.keys] at hk
    · intro p hp; cases hp
    · intro k hk; simp [Event.keys] at hk
    · intro i hi; cases hi
  | cons p ps =>
    simp only [inFragmentB, Bool.and_eq_true, decide_eq_true_eq, List.all_eq_true, Bool.not_eq_eq_eq_not, Bool.not_true] at h
    obtain ⟨⟨hnd, hall⟩, hw⟩ := h
    have hwU : ∀ i ∈ p.1.ivs, i.star = false := hw
    refine ⟨p.1.ivs, ⟨⟨hnd, ?_⟩, ?_⟩, ?_, ?_, hwU⟩
    · intro q hq
      obtain ⟨⟨⟨⟨hv, _⟩, _⟩, _⟩, _⟩ := hall q hq
      rw [hv]
    · intro k hk
      obtain ⟨v, hv⟩ := (mem_keys_iff _ k).1 hk
      obtain ⟨⟨⟨⟨_, hs⟩, hiv⟩, hin⟩, hivs⟩ := hall (k, v) hv
      simp only at hs hiv hin hivs
      exact ⟨hs, hiv, hin, by rw [hivs]; exact consistent_of_unst _ hwU⟩
    · intro q hq
      exact (hall q hq).1.1.1.1
    · intro k hk
      obtain ⟨v, hv⟩ := (mem_keys_iff _ k).1 hk
      obtain ⟨⟨⟨⟨_, hs⟩, hiv⟩, _⟩, hivs⟩ := hall (k, v) hv
      simp only at hs hiv hivs
      rcases k with ⟨n, s, i, vs⟩
      simp only at hs hiv hivs
      subst hs hiv hivs
      rfl

/-- **ID\* is sound on the fragment.**  Let `M` be any functional SCM compatible with the (well-formed, loop-free) graph `G`,
with normalised noise, `dom` a bound on the values every mechanism returns, `ν` any base values.  If `ev` is in the fragment and
`id_star` returns the expression `e`, then `e` — read with the event's own values for its outcome variables (`ν X false`),
a `Sum` binding the summed variable both as an outcome and in unstarred subscripts — EQUALS the probability of the event in
`M`.  For every iteration order of the worlds and of the district nodes. -/
theorem idstar_sound_fragment (M : Model) (ν : BaseValues) (dom : Name → Nat) (hM : Compatible M G) (hnorm : M.Normalised)
    (hdom : ∀ v ps us, M.f v ps us < dom v) (hG : G.WF) (hdl : ∀ e ∈ G.di, e.1 ≠ e.2) (hbl : ∀ e ∈ G.bi, e.1 ≠ e.2)
    {ordf : List World → List World} (hord : PermOrder ordf) {dordf : List Var → List Var} (hdo : PermDistrict dordf)
    (ev : Event) (hfr : InFragment G ev) (e : Expr) (h : idStar ordf dordf G ev = .ok e) :
    cden M ν dom e (fun n => ν n false) = probEvent M ν ev := by
  obtain ⟨w, hw⟩ := hfr
  have := idStarFuel_sound_frag M ν dom hM (fun pmf hp => (hnorm pmf hp).2) hdom hG hdl hbl hord hdo _ w ev e hw h
    (fun n => ν n false)
  rw [this]
  congr 1
  funext n b
  cases b <;> rfl

/-- … and inside the fragment ID* always answers (on an acyclic graph): it never refuses and never fails -/
theorem idstar_answers_fragment (hG : G.WF) (hA : G.Acyclic) (hdl : ∀ e ∈ G.di, e.1 ≠ e.2) (hbl : ∀ e ∈ G.bi, e.1 ≠ e.2)
    {ordf : List World → List World} (hord : PermOrder ordf) {dordf : List Var → List Var} (hdo : PermDistrict dordf)
    (ev : Event) (hfr : InFragment G ev) : ∃ e, idStar ordf dordf G ev = .ok e := by
  obtain ⟨w, hw⟩ := hfr
  rcases idstar_outcomes G hord hdo.subset hG hA hdl hbl ev hw.good with h | h
  · exact h
  · exact absurd h (idStarFuel_not_unid_frag hG hdl hbl hord hdo _ w ev hw)

/-- the orders used by the correspondence check are permutations of the district -/
theorem permDistrict_orderDistrict (rev : Bool) : PermDistrict (orderDistrict rev) := by
  intro d
  unfold orderDistrict
  simp only
  split
  · exact (List.reverse_perm _).trans (perm_sortBy' _ _)
  · exact perm_sortBy' _ _

/-! ## 3d. single-world events of ANY polarity: fragment 2, Zero, refusals -/

/-- **single-world events**: a well-formed event over variables of `G` all of whose keys carry ONE subscript set (possibly empty);
values and subscripts of any polarity.  (`starOf ev V`: the polarity of the value the event gives `V`.) -/
def OneWorld (G : MG Name) (ev : Event) : Prop := Frag2 G (worldB ev) (starOf ev) ev

/-- **Fragment 2** `InFragment2 ordf G ev`: a single-world event (ANY polarity of values and subscripts) that either violates
effectiveness (line 2 answers Zero) or is such that, if line 6 fires on the event without its tautologies (the counterfactual
graph has several districts), then
  * no key with a STARRED value is a parent (in `G`) of a non-self-intervened node of the counterfactual graph, and
  * no node of the counterfactual graph is self-intervened on a STARRED subscript
(`Clean2`, Lemmas/CfStarTop.lean).  These are exactly the situations in which line 6 would turn a starred symbol into an unstarred
subscript (F10/M1, F10/M2).  Decidable: `inFragment2B`.  Fragment 1 is contained in it (`inFragment_subset`). -/
def InFragment2 (ordf : List World → List World) (G : MG Name) (ev : Event) : Prop :=
  OneWorld G ev ∧
    (violatesEffectiveness ev = true ∨ Clean2 ordf G (worldB ev) (starOf ev) (removeTautologies ev))

theorem idStarFuelBound_ge (ev : Event) : ∃ b, idStarFuelBound G ev = b + 2 := ⟨2 * G.nodes.length + ev.length + 2, rfl⟩

/-- **ID\* is sound on EVERY single-world event under the conflating reading `cden`**, in which an unstarred subscript `-X` denotes
the current value of `X` — the value the event gives `X` (`evVal`: `x'` for a starred-valued key or a variable with a starred
subscript), or the value bound by an enclosing `Sum`.  So on single-world events the only thing wrong with ID*'s estimands is the
polarity of the subscripts line 6 writes (F10/M1, F10/M2): read with the polarities restored, they are P(event). -/
theorem idstar_sound_oneworld_conflating (M : Model) (ν : BaseValues) (dom : Name → Nat) (hM : Compatible M G)
    (hnorm : M.Normalised) (hdom : ∀ v ps us, M.f v ps us < dom v) (hG : G.WF) (hdl : ∀ e ∈ G.di, e.1 ≠ e.2)
    (hbl : ∀ e ∈ G.bi, e.1 ≠ e.2) {ordf : List World → List World} (hord : PermOrder ordf) {dordf : List Var → List Var}
    (hdo : PermDistrict dordf) (ev : Event) (hne : ev ≠ []) (hfr : OneWorld G ev) (hviol : violatesEffectiveness ev = false)
    (e : Expr) (h : idStar ordf dordf G ev = .ok e) :
    cden M ν dom e (evVal ν (starOf ev) (worldB ev)) = probEvent M ν ev := by
  have hwc := frag2_consistent hfr hne
  have hsk := sKeys_starOf ev
  obtain ⟨_, hst, hkv⟩ := evVal_facts ν hfr hsk hviol hwc
  have hA := idStarFuel_sound_sw M ν dom hM (fun pmf hp => (hnorm pmf hp).2) hdom hG hdl hbl hord hdo _ _ _ ev e hfr hsk hviol h
    (evVal ν (starOf ev) (worldB ev)) (fun k hk hs => by rw [hkv k hk, hs]) hst
  rw [probEvent_evVal M ν hfr hsk hviol hwc] at hA
  exact hA

/-- **ID\* is sound on fragment 2, under the reading of the property** (`cden2`, Lemmas/CfStarLit.lean): outcome variables take
the values the event gives them (`evVal`), an unstarred subscript `-X` is the literal `x` unless an enclosing `Sum` binds `X`, a
starred subscript `+X` is the literal `x'`.  For every functional SCM compatible with the graph (normalised noise, bounded values),
all base values with `x ≠ x'`, every iteration order. -/
theorem idstar_sound_fragment2 (M : Model) (ν : BaseValues) (hν : ν.Distinct) (dom : Name → Nat) (hM : Compatible M G)
    (hnorm : M.Normalised) (hdom : ∀ v ps us, M.f v ps us < dom v) (hG : G.WF) (hdl : ∀ e ∈ G.di, e.1 ≠ e.2)
    (hbl : ∀ e ∈ G.bi, e.1 ≠ e.2) {ordf : List World → List World} (hord : PermOrder ordf) {dordf : List Var → List Var}
    (hdo : PermDistrict dordf) (ev : Event) (hne : ev ≠ []) (hfr : InFragment2 ordf G ev) (e : Expr)
    (h : idStar ordf dordf G ev = .ok e) :
    cden2 M ν dom e (evVal ν (starOf ev) (worldB ev)) (fun n => ν n false) = probEvent M ν ev := by
  obtain ⟨hone, hcl⟩ := hfr
  cases hviol : violatesEffectiveness ev with
  | true =>
    obtain ⟨b, hb⟩ := idStarFuelBound_ge G ev
    unfold idStar at h
    rw [hb, idstar_line2 ordf dordf G (b + 1) ev hne hviol] at h
    simp only [Except.ok.injEq] at h
    subst h
    rw [idstar_line2_sound M ν hν ev (frag2_eventWF M hM hone) hviol]
    simp [cden2]
  | false =>
    rcases hcl with hcl | hcl
    · rw [hcl] at hviol; cases hviol
    · exact idStarFuel_sound_lit M ν dom hM (fun pmf hp => (hnorm pmf hp).2) hdom hG hdl hbl hord hdo _ _ ev hne hone
        (sKeys_starOf ev) hviol hcl _ e h

/-- the reading used by `idstar_sound_fragment2` gives every outcome variable of the event the event's own value, and every
variable of the event's world the value the world sets it to -/
theorem evVal_is_event_value (ν : BaseValues) (ev : Event) (hne : ev ≠ []) (hfr : OneWorld G ev)
    (hviol : violatesEffectiveness ev = false) :
    (∀ p ∈ ev, evVal ν (starOf ev) (worldB ev) p.1.name = ivValue ν p.2) ∧
    (∀ i ∈ worldB ev, evVal ν (starOf ev) (worldB ev) i.name = ivValue ν i) := by
  obtain ⟨hu, hst, hkv⟩ := evVal_facts ν hfr (sKeys_starOf ev) hviol (frag2_consistent hfr hne)
  constructor
  · intro p hp
    rw [hkv p.1 ((mem_keys_iff ev p.1).2 ⟨p.2, hp⟩), hfr.vals p hp]
    rfl
  · intro i hi
    unfold ivValue
    cases hs : i.star with
    | false => exact hu i hi hs
    | true => exact hst i hi hs

/-- **on a single-world event ID\* never refuses** (any polarity; acyclic graph): it returns an estimand, One or Zero -/
theorem idstar_answers_oneworld (hG : G.WF) (hA : G.Acyclic) (hdl : ∀ e ∈ G.di, e.1 ≠ e.2) (hbl : ∀ e ∈ G.bi, e.1 ≠ e.2)
    {ordf : List World → List World} (hord : PermOrder ordf) {dordf : List Var → List Var} (hdo : PermDistrict dordf)
    (ev : Event) (hfr : OneWorld G ev) : ∃ e, idStar ordf dordf G ev = .ok e := by
  rcases idstar_outcomes G hord hdo.subset hG hA hdl hbl ev hfr.good with h | h
  · exact h
  · exfalso
    cases hviol : violatesEffectiveness ev with
    | false => exact idStarFuel_not_unid_sw hG hdl hbl hord hdo _ _ _ ev hfr hviol h
    | true =>
      obtain ⟨b, hb⟩ := idStarFuelBound_ge G ev
      unfold idStar at h
      have hne : ev ≠ [] := by intro h0; rw [h0] at hviol; cases hviol
      rw [hb, idstar_line2 ordf dordf G (b + 1) ev hne hviol] at h
      cases h

/-! ### the fragments are decidable -/

theorem consistentB_sound (S : List Iv) (h : consistentB S = true) : ConsistentSubs S := by
  unfold consistentB at h
  simp only [List.all_eq_true, decide_eq_true_eq] at h
  exact fun i hi j hj hij => h i hi j hj hij

theorem oneWorldB_sound (ev : Event) (h : oneWorldB G ev = true) : OneWorld G ev := by
  unfold oneWorldB at h
  simp only [Bool.and_eq_true, decide_eq_true_eq, List.all_eq_true] at h
  obtain ⟨⟨hnd, hall⟩, hcons⟩ := h
  have hwc := consistentB_sound _ hcons
  refine ⟨⟨⟨hnd, ?_⟩, ?_⟩, ?_, ?_⟩
  · intro q hq
    rw [(hall q hq).1.1]
  · intro k hk
    obtain ⟨v, hv⟩ := (mem_keys_iff _ k).1 hk
    obtain ⟨⟨_, hat⟩, hin⟩ := hall (k, v) hv
    simp only at hat hin
    refine ⟨by rw [hat]; rfl, by rw [hat]; rfl, hin, ?_⟩
    rw [hat]
    exact hwc
  · intro q hq
    exact (hall q hq).1.1
  · intro k hk
    obtain ⟨v, hv⟩ := (mem_keys_iff _ k).1 hk
    exact (hall (k, v) hv).1.2

theorem cleanB_sound {ordf : List World → List World} (w : World) (s : Name → Bool) (ev : Event)
    (h : cleanB ordf G w s ev = true) : Clean2 ordf G w s ev := by
  intro g nev hcg hconn
  unfold cleanB at h
  rw [hcg] at h
  simp only at h
  rw [hconn] at h
  simp only [Bool.and_eq_true, List.all_eq_true, Bool.or_eq_true, Bool.not_eq_eq_eq_not, Bool.not_true, decide_eq_true_eq] at h
  obtain ⟨h1, h2⟩ := h
  constructor
  · intro k hk hs n hn
    obtain ⟨v, hv⟩ := (mem_keys_iff nev k).1 hk
    rcases h1 (k, v) hv with h' | h'
    · simp only at h'
      rw [hs] at h'
      cases h'
    · exact h' n hn
  · intro n hn hnsi i hi hin
    rcases h2 n hn with h' | h'
    · rw [hnsi] at h'
      cases h'
    · exact h' i hi hin

/-- fragment 2 is decidable: the executable test `inFragment2B` (Y0/Model/IdStar.lean; what the harness asks the driver) -/
theorem inFragment2B_sound {ordf : List World → List World} (ev : Event) (h : inFragment2B ordf G ev = true) :
    InFragment2 ordf G ev := by
  have h1 : oneWorldB G ev = true := by
    unfold inFragment2B at h
    unfold oneWorldB
    simp only [Bool.and_eq_true] at h ⊢
    exact h.1
  refine ⟨oneWorldB_sound G ev h1, ?_⟩
  unfold inFragment2B at h
  simp only [Bool.and_eq_true, Bool.or_eq_true] at h
  rcases h.2 with h2 | h2
  · exact Or.inl h2
  · exact Or.inr (cleanB_sound G _ _ _ h2)

/-- fragment 1 is contained in fragment 2 -/
theorem inFragment_subset {ordf : List World → List World} (ev : Event) (hne : ev ≠ []) (h : InFragment G ev) :
    InFragment2 ordf G ev := by
  obtain ⟨w, hw⟩ := h
  have hww : worldB ev = w := by
    cases ev with
    | nil => exact absurd rfl hne
    | cons p ps =>
      have hk : p.1 ∈ Event.keys (p :: ps) := (mem_keys_iff _ p.1).2 ⟨p.2, by simp⟩
      show p.1.ivs = w
      rw [hw.keysIn p.1 hk]
      rfl
  have hs : ∀ n, starOf ev n = false := by
    intro n
    unfold starOf
    rw [List.any_eq_false]
    intro p hp
    rw [hw.unst p hp]
    simp
  refine ⟨⟨hw.good, valBy_starOf hw.good.ok hw.keysIn, by rw [hww]; exact hw.keysIn⟩, Or.inr ?_⟩
  intro g nev _ _
  constructor
  · intro k _ hsk
    rw [hs k.name] at hsk
    cases hsk
  · intro n _ _ i hi _
    rw [hww] at hi
    exact hw.wUnst i hi

/-! ### fragment 2R: events that lines 2–3 reduce to fragment 2 -/

/-- **Fragment 2R**: a well-formed event (ANY number of worlds) that violates effectiveness (line 2), or all of whose conjuncts are
tautologies (line 3, then line 1), or that line 3 reduces to an event of fragment 2.  Decidable: `inFragment2RB`. -/
def InFragment2R (ordf : List World → List World) (G : MG Name) (ev : Event) : Prop :=
  GoodEv G ev ∧ (violatesEffectiveness ev = true ∨ removeTautologies ev = [] ∨ InFragment2 ordf G (removeTautologies ev))

theorem goodEvB_sound (ev : Event) (h : goodEvB G ev = true) : GoodEv G ev := by
  unfold goodEvB at h
  simp only [Bool.and_eq_true, decide_eq_true_eq, List.all_eq_true, Bool.not_eq_eq_eq_not, Bool.not_true] at h
  obtain ⟨hnd, hall⟩ := h
  refine ⟨⟨hnd, fun q hq => (hall q hq).1.1.1.1⟩, ?_⟩
  intro k hk
  obtain ⟨v, hv⟩ := (mem_keys_iff _ k).1 hk
  obtain ⟨⟨⟨⟨_, hs⟩, hiv⟩, hin⟩, hc⟩ := hall (k, v) hv
  exact ⟨hs, hiv, hin, consistentB_sound _ hc⟩

theorem inFragment2RB_sound {ordf : List World → List World} (ev : Event) (h : inFragment2RB ordf G ev = true) :
    InFragment2R ordf G ev := by
  unfold inFragment2RB at h
  simp only [Bool.and_eq_true, Bool.or_eq_true, List.isEmpty_iff] at h
  refine ⟨goodEvB_sound G ev h.1, ?_⟩
  rcases h.2 with (h2 | h2) | h2
  · exact Or.inl h2
  · exact Or.inr (Or.inl h2)
  · exact Or.inr (Or.inr (inFragment2B_sound G _ h2))

/-- past lines 1–3 an event without tautologies goes straight to lines 4–9 -/
theorem idStarFuel_reduced (ev : Event) (hviol : violatesEffectiveness ev = false) (hok : EvOK ev)
    (hne : removeTautologies ev ≠ []) (f : Nat) :
    idStarFuel ordf dordf G (f + 1) (removeTautologies ev) =
      idStarLines4to9 ordf dordf G (idStarFuel ordf dordf G f) (removeTautologies ev) := by
  have hemp : (removeTautologies ev).isEmpty = false := by
    cases h : removeTautologies ev with
    | nil => exact absurd h hne
    | cons _ _ => rfl
  simp only [idStarFuel]
  unfold idStarBody
  rw [hemp, violates_removeTautologies ev hviol, removeTautologies_idem, eqv_self _ (evOK_removeTautologies ev hok).nodup]
  simp

/-- **ID\* is sound on fragment 2R, under the reading of the property** (`cden2`), the outcome variables taking the values the
event WITHOUT ITS TAUTOLOGIES gives them -/
theorem idstar_sound_fragment2R (M : Model) (ν : BaseValues) (hν : ν.Distinct) (dom : Name → Nat) (hM : Compatible M G)
    (hnorm : M.Normalised) (hdom : ∀ v ps us, M.f v ps us < dom v) (hG : G.WF) (hdl : ∀ e ∈ G.di, e.1 ≠ e.2)
    (hbl : ∀ e ∈ G.bi, e.1 ≠ e.2) {ordf : List World → List World} (hord : PermOrder ordf) {dordf : List Var → List Var}
    (hdo : PermDistrict dordf) (ev : Event) (hne : ev ≠ []) (hfr : InFragment2R ordf G ev) (e : Expr)
    (h : idStar ordf dordf G ev = .ok e) :
    cden2 M ν dom e (evVal ν (starOf (removeTautologies ev)) (worldB (removeTautologies ev))) (fun n => ν n false) =
      probEvent M ν ev := by
  obtain ⟨hev, hcases⟩ := hfr
  have hwf : EventWF M ev := ⟨hev.ok.names,
    fun p hp => (hM.perm.mem_iff).2 (hev.keys p.1 ((mem_keys_iff ev p.1).2 ⟨p.2, hp⟩)).inG,
    fun p hp => (hev.keys p.1 ((mem_keys_iff ev p.1).2 ⟨p.2, hp⟩)).subs⟩
  obtain ⟨b, hb⟩ := idStarFuelBound_ge G ev
  unfold idStar at h
  rw [hb] at h
  cases hviol : violatesEffectiveness ev with
  | true =>
    rw [idstar_line2 ordf dordf G (b + 1) ev hne hviol] at h
    simp only [Except.ok.injEq] at h
    subst h
    rw [idstar_line2_sound M ν hν ev hwf hviol]
    simp [cden2]
  | false =>
    rcases idStarFuel_top_shape2 ordf dordf G ev hviol hev.ok hne b with ⟨h0, h1⟩ | ⟨f, hne', hrun⟩
    · rw [h1] at h
      simp only [Except.ok.injEq] at h
      subst h
      rw [← idstar_line3_sound M ν ev hwf, h0]
      simp only [cden2, probEvent, List.map_nil]
      exact (prob_nil M (fun pmf hp => (hnorm pmf hp).2)).symm
    · rcases hcases with hc | hc | hc
      · rw [hc] at hviol; cases hviol
      · exact absurd hc hne'
      · rw [hrun, ← idStarFuel_reduced ordf dordf G ev hviol hev.ok hne' f] at h
        obtain ⟨hone, hcl⟩ := hc
        have hviol' := violates_removeTautologies ev hviol
        rw [← idstar_line3_sound M ν ev hwf]
        rcases hcl with hcl | hcl
        · rw [hcl] at hviol'; cases hviol'
        · exact idStarFuel_sound_lit M ν dom hM (fun pmf hp => (hnorm pmf hp).2) hdom hG hdl hbl hord hdo _ _ _ hne' hone
            (sKeys_starOf _) hviol' hcl _ e h

/-! ### fragment 3: events that are still multi-world after line 3 -/

/-- **Fragment 3** `InFragment3 ordf G ev`: a well-formed event (any number of worlds) that does not violate effectiveness, keeps a
conjunct after line 3, and whose counterfactual graph `g` (built by line 4 from the event without its tautologies) satisfies
`Frag3At` (Lemmas/CfMwC.lean): (a) at most one non-self-intervened node per variable; (b) no non-self-intervened node named like a
subscript of a node of `g`; (c) the subscripts of the nodes of `g` are mutually consistent; (d) bidirected edges of `G` between
non-self-intervened nodes are edges of `g`; (e) if line 9 answers, the subscript by which a self-intervened node is intervened is a
subscript of a non-self-intervened node; if line 6 answers, no starred-valued key is a parent of a non-self-intervened node and no node
is self-intervened on a starred subscript.  Decidable: `inFragment3B`.  (a), (b) exclude F10/M3a, M3b, M5, D1, D2; (e) excludes F10/M1, M2.
Measured (tools/c07_boundary.py): no event inside fragment 3 is answered wrongly; of the events that are still multi-world after
line 3, get an estimand and are outside it, 88% are answered wrongly. -/
def InFragment3 (ordf : List World → List World) (G : MG Name) (ev : Event) : Prop :=
  GoodEv G ev ∧ violatesEffectiveness ev = false ∧ removeTautologies ev ≠ [] ∧
    ∃ g nev, makeCounterfactualGraph ordf G (removeTautologies ev) = .ok (g, some nev) ∧ Frag3At G g nev

theorem frag3AtB_sound (g : MG Var) (nev : Event) (h : frag3AtB G g nev = true) : Frag3At G g nev := by
  unfold frag3AtB at h
  simp only [Bool.and_eq_true, List.all_eq_true, decide_eq_true_eq, Bool.or_eq_true, Bool.not_eq_eq_eq_not, Bool.not_true,
    ne_eq] at h
  obtain ⟨⟨⟨⟨hinj, hsep⟩, hcons⟩, hbi⟩, hroute⟩ := h
  refine ⟨hinj, hsep, consistentB_sound _ hcons, ?_, ?_, ?_⟩
  · intro a ha b hb hna hnb hab hbiG
    rcases hbi a ha b hb with (((h' | h') | h') | h') | h'
    · rw [hna] at h'; cases h'
    · rw [hnb] at h'; cases h'
    · exact absurd h' hab
    · exfalso
      rcases hbiG with h1 | h1
      · simp [h1] at h'
      · simp [h1] at h'
    · unfold MG.hasBi at h'
      simp only [Bool.or_eq_true, decide_eq_true_eq] at h'
      exact h'
  · intro hc x hx hxn i hi hin
    rw [hc] at hroute
    simp only [List.all_eq_true, Bool.or_eq_true, decide_eq_true_eq] at hroute
    rcases hroute x hx with h' | h'
    · rw [hxn] at h'; cases h'
    · rcases h' i hi with h'' | h''
      · exact absurd hin h''
      · exact (elem'_iff _ _).1 h''
  · intro hc
    rw [hc] at hroute
    simp only [Bool.and_eq_true, List.all_eq_true, Bool.or_eq_true, Bool.not_eq_eq_eq_not, Bool.not_true,
      decide_eq_true_eq] at hroute
    obtain ⟨h1, h2⟩ := hroute
    constructor
    · intro k hk hs n hn
      obtain ⟨v, hv⟩ := (mem_keys_iff nev k).1 hk
      rcases h1 (k, v) hv with h' | h'
      · simp only at h'
        rw [hs] at h'
        cases h'
      · exact h' n hn
    · intro x hx hxn i hi hin
      rcases h2 x hx with h' | h'
      · rw [hxn] at h'; cases h'
      · rcases h' i hi with h'' | h''
        · exact absurd hin h''
        · exact h''

theorem inFragment3B_sound {ordf : List World → List World} (ev : Event) (h : inFragment3B ordf G ev = true) :
    InFragment3 ordf G ev := by
  unfold inFragment3B at h
  simp only [Bool.and_eq_true, Bool.not_eq_eq_eq_not, Bool.not_true, List.isEmpty_eq_false_iff] at h
  obtain ⟨⟨⟨hgood, hviol⟩, hne⟩, hm⟩ := h
  refine ⟨goodEvB_sound G ev hgood, hviol, hne, ?_⟩
  cases hcg : makeCounterfactualGraph ordf G (removeTautologies ev) with
  | error err => rw [hcg] at hm; cases hm
  | ok v =>
    rcases v with ⟨g, o⟩
    rw [hcg] at hm
    cases o with
    | none => cases hm
    | some nev => exact ⟨g, nev, rfl, frag3AtB_sound G g nev hm⟩

/-- **ID\* is sound on fragment 3, under the reading of the property** (`cden2`; the outcome variables take the values `sigma0` of
the relabelled event: the event's values, `x'` for a variable with a starred subscript) -/
theorem idstar_sound_fragment3 (M : Model) (ν : BaseValues) (hν : ν.Distinct) (dom : Name → Nat) (hM : Compatible M G)
    (hnorm : M.Normalised) (hdom : ∀ v ps us, M.f v ps us < dom v) (hG : G.WF) (hdl : ∀ e ∈ G.di, e.1 ≠ e.2)
    (hbl : ∀ e ∈ G.bi, e.1 ≠ e.2) {ordf : List World → List World} (hord : PermOrder ordf) {dordf : List Var → List Var}
    (hdo : PermDistrict dordf) (ev : Event) (hfr : InFragment3 ordf G ev) (e : Expr)
    (h : idStar ordf dordf G ev = .ok e) :
    ∃ g nev, makeCounterfactualGraph ordf G (removeTautologies ev) = .ok (g, some nev) ∧
      cden2 M ν dom e (sigma0 ν g nev) (fun n => ν n false) = probEvent M ν ev := by
  obtain ⟨hev, hviol, hne', g, nev, hcg, h3⟩ := hfr
  refine ⟨g, nev, hcg, ?_⟩
  have hwf : EventWF M ev := ⟨hev.ok.names,
    fun p hp => (hM.perm.mem_iff).2 (hev.keys p.1 ((mem_keys_iff ev p.1).2 ⟨p.2, hp⟩)).inG,
    fun p hp => (hev.keys p.1 ((mem_keys_iff ev p.1).2 ⟨p.2, hp⟩)).subs⟩
  have hne : ev ≠ [] := by
    intro h0
    rw [h0] at hne'
    exact hne' rfl
  obtain ⟨b, hb⟩ := idStarFuelBound_ge G ev
  unfold idStar at h
  rw [hb] at h
  rcases idStarFuel_top_shape2 ordf dordf G ev hviol hev.ok hne b with ⟨h0, _⟩ | ⟨f, _, hrun⟩
  · exact absurd h0 hne'
  · rw [hrun] at h
    have hk' : KeysNSI (removeTautologies ev) := keysNSI_of_lines123 _ hne' (violates_removeTautologies ev hviol)
      (by rw [removeTautologies_idem]; exact eqv_self _ (evOK_removeTautologies ev hev.ok).nodup)
      (evOK_removeTautologies ev hev.ok)
    rw [← idstar_line3_sound M ν ev hwf]
    exact lines4to9_sound_mw_lit M ν dom hM (fun pmf hp => (hnorm pmf hp).2) hν hdom hG hdl hbl hord hdo _
      (goodEv_removeTautologies hev) hk' f e h g nev hcg h3

/-! ### Zero -/

/-- **on a single-world event Zero comes from line 2 and from nowhere else**: ID* returns Zero iff the event violates the axiom
of effectiveness -/
theorem idstar_zero_iff_line2_oneworld (hG : G.WF) (hdl : ∀ e ∈ G.di, e.1 ≠ e.2) (hbl : ∀ e ∈ G.bi, e.1 ≠ e.2)
    {ordf : List World → List World} (hord : PermOrder ordf) {dordf : List Var → List Var} (hdo : PermDistrict dordf)
    (ev : Event) (hfr : OneWorld G ev) :
    idStar ordf dordf G ev = .ok .zero ↔ violatesEffectiveness ev = true := by
  constructor
  · intro h
    cases hviol : violatesEffectiveness ev with
    | true => rfl
    | false => exact absurd h (idStarFuel_ne_zero_sw hG hdl hbl hord hdo _ _ _ ev hfr hviol)
  · intro hviol
    obtain ⟨b, hb⟩ := idStarFuelBound_ge G ev
    have hne : ev ≠ [] := by intro h0; rw [h0] at hviol; cases hviol
    unfold idStar
    rw [hb]
    exact idstar_line2 ordf dordf G (b + 1) ev hne hviol

/-- **`idstar_zero_sound` on single-world events** (fragments 1 and 2 included): ID* returns Zero only for events of probability
zero in every functional SCM (whatever graph it is compatible with) -/
theorem idstar_zero_sound_oneworld (M : Model) (ν : BaseValues) (hν : ν.Distinct) (hM : Compatible M G) (hG : G.WF)
    (hdl : ∀ e ∈ G.di, e.1 ≠ e.2) (hbl : ∀ e ∈ G.bi, e.1 ≠ e.2) {ordf : List World → List World} (hord : PermOrder ordf)
    {dordf : List Var → List Var} (hdo : PermDistrict dordf) (ev : Event) (hfr : OneWorld G ev)
    (h : idStar ordf dordf G ev = .ok .zero) : probEvent M ν ev = 0 :=
  idstar_line2_sound M ν hν ev (frag2_eventWF M hM hfr) ((idstar_zero_iff_line2_oneworld G hG hdl hbl hord hdo ev hfr).1 h)

/-- inside fragment 1 ID* never returns Zero at all (and by `idstar_answers_fragment` it never refuses): it always returns an
estimand or One -/
theorem idstar_never_zero_fragment (hG : G.WF) (hdl : ∀ e ∈ G.di, e.1 ≠ e.2) (hbl : ∀ e ∈ G.bi, e.1 ≠ e.2)
    {ordf : List World → List World} (hord : PermOrder ordf) {dordf : List Var → List Var} (hdo : PermDistrict dordf)
    (ev : Event) (hfr : InFragment G ev) : idStar ordf dordf G ev ≠ .ok .zero := by
  obtain ⟨w, hw⟩ := hfr
  exact idStarFuel_ne_zero_sw hG hdl hbl hord hdo _ w _ ev hw.to2 (frag_no_violation hw)

/-- **where Zero comes from, for EVERY well-formed event** (any number of worlds): from line 2 (possibly after line 3), from line 5,
or from line 6 with a district event that violates the axiom of effectiveness — i.e. from line 2 of a recursive call, at depth
one.  The first two are sound (`idstar_zero_line2_sound_partial`, `idstar_zero_line5_sound`); the third is where the open
findings of kind 'zero' live (the district event `V_{…v…} = v'` is made of two different copies of `V`). -/
theorem idstar_zero_origin (hG : G.WF) (hdl : ∀ e ∈ G.di, e.1 ≠ e.2) (hbl : ∀ e ∈ G.bi, e.1 ≠ e.2)
    {ordf : List World → List World} (hord : PermOrder ordf) {dordf : List Var → List Var} (hdo : PermDistrict dordf)
    (ev : Event) (hev : GoodEv G ev) (h : idStar ordf dordf G ev = .ok .zero) :
    violatesEffectiveness ev = true ∨
    (∃ g, makeCounterfactualGraph ordf G (removeTautologies ev) = .ok (g, none)) ∨
    (∃ g nev evs x, makeCounterfactualGraph ordf G (removeTautologies ev) = .ok (g, some nev) ∧
      isConnected (nsiSubgraph g) = .ok false ∧ eventsOfEachDistrict dordf g nev = .ok evs ∧ x ∈ evs ∧
      violatesEffectiveness x = true) := by
  cases hviol : violatesEffectiveness ev with
  | true => exact Or.inl rfl
  | false =>
    right
    have hne : ev ≠ [] := by
      intro h0
      subst h0
      simp [idStar, idStarFuelBound, idStarFuel, idStarBody] at h
    obtain ⟨b, hb⟩ := idStarFuelBound_ge G ev
    unfold idStar at h
    rw [hb] at h
    rcases idStarFuel_top_shape2 ordf dordf G ev hviol hev.ok hne b with ⟨_, h1⟩ | ⟨f, hne', hrun⟩
    · rw [h1] at h; cases h
    · rw [hrun] at h
      have hk' : KeysNSI (removeTautologies ev) := keysNSI_of_lines123 _ hne' (violates_removeTautologies ev hviol)
        (by rw [removeTautologies_idem]; exact eqv_self _ (evOK_removeTautologies ev hev.ok).nodup)
        (evOK_removeTautologies ev hev.ok)
      exact lines4to9_zero_origin hG hdl hbl hord hdo _ (goodEv_removeTautologies hev) hk' f h

/-- **Zero is sound unless it comes from line 2 of a recursive call**: for every well-formed event, if ID* returns Zero then the
event has probability 0 in every compatible functional SCM, OR line 6 fired at the top and one of the district events violates
the axiom of effectiveness (the open findings of kind 'zero') -/
theorem idstar_zero_sound_partial (M : Model) (ν : BaseValues) (hν : ν.Distinct) (hM : Compatible M G) (hG : G.WF)
    (hdl : ∀ e ∈ G.di, e.1 ≠ e.2) (hbl : ∀ e ∈ G.bi, e.1 ≠ e.2) {ordf : List World → List World} (hord : PermOrder ordf)
    {dordf : List Var → List Var} (hdo : PermDistrict dordf) (ev : Event) (hev : GoodEv G ev)
    (h : idStar ordf dordf G ev = .ok .zero) :
    probEvent M ν ev = 0 ∨
    (∃ g nev evs x, makeCounterfactualGraph ordf G (removeTautologies ev) = .ok (g, some nev) ∧
      isConnected (nsiSubgraph g) = .ok false ∧ eventsOfEachDistrict dordf g nev = .ok evs ∧ x ∈ evs ∧
      violatesEffectiveness x = true) := by
  have hwf : EventWF M ev := ⟨hev.ok.names,
    fun p hp => (hM.perm.mem_iff).2 (hev.keys p.1 ((mem_keys_iff ev p.1).2 ⟨p.2, hp⟩)).inG,
    fun p hp => (hev.keys p.1 ((mem_keys_iff ev p.1).2 ⟨p.2, hp⟩)).subs⟩
  rcases idstar_zero_origin G hG hdl hbl hord hdo ev hev h with h2 | ⟨g, h5⟩ | h6
  · exact Or.inl (idstar_line2_sound M ν hν ev hwf h2)
  · left
    rw [← idstar_line3_sound M ν ev hwf]
    have hev' := goodEv_removeTautologies hev
    have hgood := hord.good (removeTautologies ev).keys
    refine idstar_zero_line5_sound _ G M ν hν hM hG hdl hbl _ hev'.ok hgood.1 hgood.2 ?_ g h5
    intro w hw
    obtain ⟨k, hkk, _, rfl⟩ := (mem_extractInterventions _ w).1 ((hord _).mem_iff.1 hw)
    exact (hev'.keys k hkk).subs
  · exact Or.inr h6

/-! ### refusals -/

/-- **`idstar_refusal_iff_conflict`**: for every well-formed event on an acyclic graph, ID* refuses ('unidentifiable') exactly when,
after lines 1–3, the counterfactual graph of the event (without its tautologies) is connected and line 8's conflict test fires: a
subscript of a node of the graph and a value or subscript of the relabelled event give one variable different polarities.  The
recursive calls of line 6 never refuse (they are calls on single-world events). -/
theorem idstar_refusal_iff_conflict (hG : G.WF) (hA : G.Acyclic) (hdl : ∀ e ∈ G.di, e.1 ≠ e.2) (hbl : ∀ e ∈ G.bi, e.1 ≠ e.2)
    {ordf : List World → List World} (hord : PermOrder ordf) {dordf : List Var → List Var} (hdo : PermDistrict dordf)
    (ev : Event) (hev : GoodEv G ev) :
    idStar ordf dordf G ev = .error .unidentifiable ↔
      violatesEffectiveness ev = false ∧ removeTautologies ev ≠ [] ∧
        ∃ g nev, makeCounterfactualGraph ordf G (removeTautologies ev) = .ok (g, some nev) ∧
          isConnected (nsiSubgraph g) = .ok true ∧ conflicts (nsiSubgraph g) nev ≠ [] := by
  obtain ⟨b, hb⟩ := idStarFuelBound_ge G ev
  cases hviol : violatesEffectiveness ev with
  | true =>
    have hne : ev ≠ [] := by intro h0; rw [h0] at hviol; cases hviol
    unfold idStar
    rw [hb, idstar_line2 ordf dordf G (b + 1) ev hne hviol]
    constructor
    · intro h; cases h
    · rintro ⟨h, _⟩; cases h
  | false =>
    by_cases hne : ev = []
    · subst hne
      constructor
      · intro h; simp [idStar, idStarFuelBound, idStarFuel, idStarBody] at h
      · rintro ⟨_, h, _⟩; exact absurd rfl h
    · unfold idStar
      rw [hb]
      rcases idStarFuel_top_shape2 ordf dordf G ev hviol hev.ok hne b with ⟨h0, h1⟩ | ⟨f, hne', hrun⟩
      · rw [h1]
        constructor
        · intro h; cases h
        · rintro ⟨_, h, _⟩; exact absurd h0 h
      · rw [hrun]
        have hk' : KeysNSI (removeTautologies ev) := keysNSI_of_lines123 _ hne' (violates_removeTautologies ev hviol)
          (by rw [removeTautologies_idem]; exact eqv_self _ (evOK_removeTautologies ev hev.ok).nodup)
          (evOK_removeTautologies ev hev.ok)
        rw [lines4to9_unid_iff hG hA hdl hbl hord hdo _ (goodEv_removeTautologies hev) hk' f]
        constructor
        · intro h; exact ⟨rfl, hne', h⟩
        · rintro ⟨_, _, h⟩; exact h

/-- **`idstar_refuses_sound`**: whenever ID* refuses, the refusal was raised by line 8's conflict test of the top-level call (after
lines 1–3) — never by a recursive call, never by anything else -/
theorem idstar_refuses_sound (hG : G.WF) (hA : G.Acyclic) (hdl : ∀ e ∈ G.di, e.1 ≠ e.2) (hbl : ∀ e ∈ G.bi, e.1 ≠ e.2)
    {ordf : List World → List World} (hord : PermOrder ordf) {dordf : List Var → List Var} (hdo : PermDistrict dordf)
    (ev : Event) (hev : GoodEv G ev) (h : idStar ordf dordf G ev = .error .unidentifiable) :
    ∃ g nev, makeCounterfactualGraph ordf G (removeTautologies ev) = .ok (g, some nev) ∧
      isConnected (nsiSubgraph g) = .ok true ∧ conflicts (nsiSubgraph g) nev ≠ [] :=
  ((idstar_refusal_iff_conflict G hG hA hdl hbl hord hdo ev hev).1 h).2.2

/-! ## 4. non-vacuity: concrete runs of the model (kernel-evaluated) -/

namespace Example07
def gBA : MG Name := MG.fromEdges [0, 1] [(1, 0)] []      -- B → A, A = 0, B = 1
def A : Var := Var.plain 0
def B : Var := Var.plain 1
def A_b : Var := { name := 0, ivs := [⟨1, false⟩] }
def leafIs (e : Expr) (c : List Var) : Bool := match e with | .prob none c' [] => decide (c' = c) | _ => false
def okLeaf (r : Except Err Expr) (c : List Var) : Bool := match r with | .ok x => leafIs x c | _ => false
def okProd2 (r : Except Err Expr) (c1 c2 : List Var) : Bool :=
  match r with | .ok (.prod [x, y]) => leafIs x c1 && leafIs y c2 | _ => false
def isZero (r : Except Err Expr) : Bool := match r with | .ok .zero => true | _ => false
def isUnid (r : Except Err Expr) : Bool := match r with | .error .unidentifiable => true | _ => false

/-- `P(A_b = a)` on `B → A` is `P[B](A)` -/
example : okLeaf (idStar sortWorlds (sortBy Var.keyLt) gBA [(A_b, ⟨0, false⟩)]) [A_b] = true := by decide
/-- line 2 fires: `B_b = b'` -/
example : isZero (idStar sortWorlds (sortBy Var.keyLt) gBA [({ name := 1, ivs := [⟨1, false⟩] }, ⟨1, true⟩)]) = true := by decide
/-- lines 7-8 fire: `A_b = a ∧ A_{b'} = a'` is refused as unidentifiable -/
example : isUnid (idStar sortWorlds (sortBy Var.keyLt) gBA
    [(A_b, ⟨0, false⟩), ({ name := 0, ivs := [⟨1, true⟩] }, ⟨0, true⟩)]) = true := by decide
/-- the model reproduces the open finding F10/M1: for `B = b' ∧ A = a` it answers `P(B) · P[B](A)` with the UNSTARRED subscript
(the harness shows on functional SCMs that this is not `P(B = b', A = a)`) -/
example : okProd2 (idStar sortWorlds (sortBy Var.keyLt) gBA [(B, ⟨1, true⟩), (A, ⟨0, false⟩)]) [B] [A_b] = true := by decide
/-- `GoodEv` is satisfiable: the event `A_b = a ∧ B = b` on `B → A` -/
example : GoodEv gBA [(A_b, ⟨0, false⟩), (B, ⟨1, false⟩)] := by
  refine ⟨⟨by decide, by decide⟩, ?_⟩
  intro k hk
  simp only [Event.keys, List.map_cons, List.map_nil, List.mem_cons, List.not_mem_nil, or_false] at hk
  rcases hk with rfl | rfl
  · exact ⟨rfl, rfl, by decide, by intro i hi j hj _; simp [A_b] at hi hj; rw [hi, hj]⟩
  · exact ⟨rfl, rfl, by decide, by intro i hi; simp [B, Var.plain] at hi⟩
/-- the fragment is not empty: `P(A_b = a)` and `P(A = a, B = b)` on `B → A` -/
example : inFragmentB gBA [(A_b, ⟨0, false⟩)] = true := by decide
example : inFragmentB gBA [(A, ⟨0, false⟩), (B, ⟨1, false⟩)] = true := by decide
/-- … and the F10 witness is outside it (a starred value) -/
example : inFragmentB gBA [(B, ⟨1, true⟩), (A, ⟨0, false⟩)] = false := by decide

/-- fragment 2 is strictly larger: `P(A_{b'} = a')` (starred subscript and value, line 9 answers) and `A = a' ∧ B = b` on `B → A`
(line 6 fires; the starred-valued key `A` has no child) are inside it, not inside fragment 1 -/
example : inFragment2B sortWorlds gBA [({ name := 0, ivs := [⟨1, true⟩] }, ⟨0, true⟩)] = true := by decide
example : inFragmentB gBA [({ name := 0, ivs := [⟨1, true⟩] }, ⟨0, true⟩)] = false := by decide
example : inFragment2B sortWorlds gBA [(A, ⟨0, true⟩), (B, ⟨1, false⟩)] = true := by decide
/-- … and the F10/M1 witness `B = b' ∧ A = a` is outside it (the starred-valued key `B` is a parent of `A`, two districts),
so is the F10/M2 witness `B = b ∧ A_{b'} = a` … -/
example : inFragment2B sortWorlds gBA [(B, ⟨1, true⟩), (A, ⟨0, false⟩)] = false := by decide
/-- the hypothesis `InFragment2` of `idstar_sound_fragment2` is satisfiable by an event outside fragment 1 (with `PermOrder sortWorlds`:
`permOrder_sortWorlds`) -/
example : InFragment2 sortWorlds gBA [(A, ⟨0, true⟩), (B, ⟨1, false⟩)] := inFragment2B_sound gBA _ (by decide)
/-- fragment 3 is not empty: the two-world event `B = b ∧ A_{c} = a` on `B → A ← C` (worlds `{}` and `{c}`; `C` is
not an ancestor of `B`) is still multi-world after line 3 and satisfies `Frag3At` -/
example : inFragment3B sortWorlds (MG.fromEdges [0, 1, 2] [(1, 0), (2, 0)] [])
    [(B, ⟨1, false⟩), ({ name := 0, ivs := [⟨2, false⟩] }, ⟨0, false⟩)] = true := by decide
/-- … `B_b = b'` is inside (line 2 answers Zero, soundly) -/
example : inFragment2B sortWorlds gBA [({ name := 1, ivs := [⟨1, false⟩] }, ⟨1, true⟩)] = true := by decide

/-- the semantic hypotheses of `idstar_sound_fragment` are satisfiable: a functional SCM compatible with `B → A` with normalised
noise and mechanisms bounded by `dom = 2` -/
def mBA2 : Model where
  order := [1, 0]
  noise := [[1/3, 2/3], [1/4, 3/4]]
  pa := fun v => if v = 0 then [1] else []
  lat := fun v => if v = 0 then [1] else if v = 1 then [0] else []
  f := fun v ps us => if v = 1 then us.getD 0 0 % 2 else (ps.getD 0 0 + us.getD 0 0) % 2

example : ∀ v ps us, mBA2.f v ps us < 2 := by
  intro v ps us
  simp only [mBA2]
  split <;> omega

example : mBA2.Normalised := by
  intro pmf hp
  simp only [mBA2, List.mem_cons, List.not_mem_nil, or_false] at hp
  rcases hp with rfl | rfl
  · refine ⟨?_, by norm_num⟩
    intro p hp
    simp only [List.mem_cons, List.not_mem_nil, or_false] at hp
    rcases hp with rfl | rfl <;> norm_num
  · refine ⟨?_, by norm_num⟩
    intro p hp
    simp only [List.mem_cons, List.not_mem_nil, or_false] at hp
    rcases hp with rfl | rfl <;> norm_num

example : Compatible mBA2 gBA := by
  refine ⟨by decide, by decide, ?_, ?_, ?_⟩
  · intro v p hp
    by_cases hv : v = 0
    · subst hv
      simp only [mBA2, if_true, List.mem_singleton] at hp
      subst hp
      decide
    · simp [mBA2, hv] at hp
  · intro l₁ v l₂ h p hp
    by_cases hv : v = 0
    · subst hv
      simp only [mBA2, if_true, List.mem_singleton] at hp
      subst hp
      have h' : [1, 0] = l₁ ++ 0 :: l₂ := h
      rcases l₁ with _ | ⟨x, l₁⟩
      · simp at h'
      · simp only [List.cons_append, List.cons.injEq] at h'
        rw [← h'.1]; simp
    · simp [mBA2, hv] at hp
  · intro v w hvw hsh
    obtain ⟨j, hj1, hj2⟩ := hsh
    exfalso
    by_cases hv : v = 0
    · subst hv
      simp only [mBA2, if_true, List.mem_singleton] at hj1
      subst hj1
      by_cases hw : w = 0
      · exact hvw hw.symm
      · by_cases hw1 : w = 1 <;> simp [mBA2, hw, hw1] at hj2
    · by_cases hv1 : v = 1
      · subst hv1
        simp only [mBA2] at hj1
        simp at hj1
        subst hj1
        by_cases hw : w = 0
        · subst hw; simp [mBA2] at hj2
        · by_cases hw1 : w = 1
          · exact hvw hw1.symm
          · simp [mBA2, hw, hw1] at hj2
      · simp [mBA2, hv, hv1] at hj1
end Example07

end Y0.Cf
