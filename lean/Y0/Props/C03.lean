/-
  Property C03 — IDC.  Theorems about the executable model `Y0.idc` (Y0/Model/Idc.lean); the separation test is a
  parameter `sep` (instantiated by the model `MG.dSeparated` of `are_d_separated`, Y0/Model/Sep.lean, in the driver).

  * `idc_total`: on a valid conditional query (`X`, `Y`, `Z` pairwise disjoint subsets of the nodes of a well-formed
    acyclic graph, `Y ≠ ∅`) IDC terminates (the loop's fuel `|Z|` is never exhausted) with an estimand or with
    `unidentifiable` — no other failure; in particular the final normalisation cannot divide by `Zero()`.
    Needs from the separation test only that it does not fail on valid arguments (`SepTotal`; true of the model
    of `are_d_separated`: `dsep_sepTotal`, from C04's `dsep_total`).
  * `rule2_sound`: **rule 2 of the do-calculus** for the model of `are_d_separated` and every compatible positive
    semi-Markovian model: if every outcome is reported separated from the condition `c` given `X ∪ (Z − c)` in `G` with
    the edges into `X` and out of `c` removed, then `P(y | do x, z) = P(y | do x, do c, z − c)`.  Proved from the
    c-factor calculus (Y0/Lemmas/IdcRule2.lean) and the moralisation theorem of C04 lifted from pairs to a set of
    targets (Y0/Lemmas/IdcSepSet.lean).
  * `idc_sound`: **C03** — whenever IDC (with the model of `are_d_separated`) returns an estimand `e`, for every
    compatible model `M`, `den e σ = P(y, z | do x) / P(z | do x)` at every assignment.  No hypothesis besides the
    property's quantifier (valid query on a well-formed acyclic graph, compatible model) and `TopoSound topo` (what
    networkx' `topological_sort` is assumed to return, as in C01; `idc_sound_acyclic` removes it with an executable
    sorter).  It rests on `idAlg_sound` (C01) and `rule2_sound`.
  * `idc_sound_of_rule2`: the same for an arbitrary separation test satisfying rule 2 in `M` (`Rule2Sound sep M G`).
-/
import Y0.Lemmas.IdcSound
import Y0.Lemmas.IdcRule2
import Y0.Lemmas.IdcFuel
import Y0.Lemmas.IdZeroFree
import Y0.Props.C04
import Y0.Props.C02

namespace Y0
open IdDsl IdAux MG

/-- the two admissible outcomes of IDC (the same as for ID) -/
abbrev IdcOutcomeOk (r : Except Err Expr) : Prop := IdOutcomeOk r

/-- the separation test does not fail on valid arguments -/
def SepTotal (sep : SepTest) : Prop :=
  ∀ (H : MG Name) (a b : Name) (C : List Name), H.WF → a ∈ H.nodes → b ∈ H.nodes → (∀ c ∈ C, c ∈ H.nodes) →
    a ∉ C → b ∉ C → ∃ r, sep H a b C = .ok r

/-- the model of `are_d_separated` does not fail on valid arguments (C04) -/
theorem dsep_sepTotal : SepTotal (fun G a b C => G.dSeparated a b C) :=
  fun H a b C hH ha hb hC haC hbC => dsep_total H hH a b C ⟨ha, hb, hC⟩ haC hbC

section
variable {sep : SepTest} {topo : MG Name → Except Err (List Name)} {G : MG Name}

theorem allSep_total (hs : SepTotal sep) {Gm : MG Name} (hGm : Gm.WF) {c : Name} {conds : List Name}
    (hc : c ∈ Gm.nodes) (hconds : ∀ x ∈ conds, x ∈ Gm.nodes) (hcc : c ∉ conds) (Y : List Name)
    (hY : ∀ y ∈ Y, y ∈ Gm.nodes ∧ y ∉ conds) : ∃ b, allSep sep Gm c conds Y = .ok b := by
  induction Y with
  | nil => exact ⟨true, rfl⟩
  | cons y ys ih =>
    unfold allSep
    obtain ⟨r, hr⟩ := hs Gm y c conds hGm (hY y List.mem_cons_self).1 hc hconds (hY y List.mem_cons_self).2 hcc
    rw [hr]
    cases r with
    | true =>
      obtain ⟨b, hb⟩ := ih (fun y' hy' => hY y' (List.mem_cons_of_mem _ hy'))
      exact ⟨b, by simpa [bind, Except.bind] using hb⟩
    | false => exact ⟨false, by simp [bind, Except.bind, pure, Except.pure]⟩

theorem rule2Applies_total (hs : SepTotal sep) (hG : G.WF) {X Y Z : List Name} (hd : CondDisj G X Y Z)
    (hX : ∀ x ∈ X, x ∈ G.nodes) {c : Name} (hc : c ∈ Z) : ∃ b, rule2Applies sep G X Y Z c = .ok b := by
  unfold rule2Applies
  have hwf1 : (G.removeInEdges X).WF := wf_fromEdges _ _ _
  have hwf2 : ((G.removeInEdges X).removeOutEdges [c]).WF := wf_fromEdges _ _ _
  have hn : ∀ v, v ∈ ((G.removeInEdges X).removeOutEdges [c]).nodes ↔ v ∈ G.nodes := fun v => by
    rw [mem_nodes_removeOutEdges _ hwf1, mem_nodes_removeInEdges _ hG]
  apply allSep_total hs hwf2 ((hn c).mpr (hd.zsub c hc))
  · intro x hx
    rcases mem_union'.mp hx with h | h
    · exact (hn x).mpr (hX x h)
    · exact (hn x).mpr (hd.zsub x (List.mem_filter.mp h).1)
  · intro hcc
    rcases mem_union'.mp hcc with h | h
    · exact hd.zx c hc h
    · simpa using (List.mem_filter.mp h).2
  · intro y hy
    refine ⟨(hn y).mpr (hd.ysub y hy), fun hyc => ?_⟩
    rcases mem_union'.mp hyc with h | h
    · exact hd.yx y hy h
    · exact hd.yz y hy (List.mem_filter.mp h).1

theorem firstApplicable_total (hs : SepTotal sep) (hG : G.WF) {X Y Z : List Name} (hd : CondDisj G X Y Z)
    (hX : ∀ x ∈ X, x ∈ G.nodes) (todo : List Name) (htodo : ∀ c ∈ todo, c ∈ Z) :
    ∃ r, firstApplicable sep G X Y Z todo = .ok r := by
  induction todo with
  | nil => exact ⟨none, rfl⟩
  | cons c cs ih =>
    unfold firstApplicable
    obtain ⟨b, hb⟩ := rule2Applies_total hs hG hd hX (htodo c List.mem_cons_self)
    rw [hb]
    cases b with
    | true => exact ⟨some c, by simp [bind, Except.bind, pure, Except.pure]⟩
    | false =>
      obtain ⟨r, hr⟩ := ih (fun c' hc' => htodo c' (List.mem_cons_of_mem _ hc'))
      exact ⟨r, by simpa [bind, Except.bind] using hr⟩

/-- totality of the IDC loop -/
theorem idcAlg_total (hs : SepTotal sep) (ht : TopoGood topo) (hG : G.WF) (hrank : G.Ranked) {est : Expr}
    (hest : EstPlain est) (hzf : ZF est) (Y : List Name) :
    ∀ (fuel : Nat) (X Z : List Name), CondDisj G X Y Z → (∀ x ∈ X, x ∈ G.nodes) → Z.Nodup → Z.length ≤ fuel →
      IdcOutcomeOk (idcAlg sep topo G est fuel X Y Z) := by
  intro fuel
  induction fuel with
  | zero =>
    intro X Z hd hX _ hlen
    have hZ : Z = [] := List.length_eq_zero_iff.mp (Nat.le_zero.mp hlen)
    subst hZ
    unfold idcAlg
    simp only [firstApplicable, bind, Except.bind]
    have hv : Valid { G := G, X := X, Y := union' Y [], est := est } :=
      ⟨hG, hrank, fun y hy => hd.ysub y (by simpa [union'] using hy), by
        obtain ⟨y, hy⟩ := List.exists_mem_of_ne_nil _ hd.yne
        exact List.ne_nil_of_mem (mem_union'.mpr (Or.inl hy)),
        fun y hy => hd.yx y (by simpa [union'] using hy), hest⟩
    rcases idAlg_total ht _ hv with ⟨e0, he0⟩ | he0
    · rw [he0]
      obtain ⟨e, he, _⟩ := div_zf e0 (sumSafe e0 Y) (idAlg_zf topo _ e0 he0 hzf)
        (zf_sumSafe (idAlg_zf topo _ e0 he0 hzf) Y)
      exact Or.inl ⟨e, he⟩
    · rw [he0]; exact Or.inr rfl
  | succ n ih =>
    intro X Z hd hX hZnd hlen
    unfold idcAlg
    obtain ⟨r, hr⟩ := firstApplicable_total hs hG hd hX Z (fun _ h => h)
    simp only [hr, bind, Except.bind]
    cases r with
    | some c =>
      obtain ⟨hcZ, _⟩ := firstApplicable_some hr
      simp only
      apply ih
      · refine ⟨?_, ?_, ?_, hd.ysub, ?_, hd.yne⟩
        · intro y hy hc
          rcases mem_union'.mp hc with h1 | h1
          · exact hd.yx y hy h1
          · simp only [List.mem_singleton] at h1
            exact hd.yz y hy (h1 ▸ hcZ)
        · intro z hz hc
          obtain ⟨hz1, hz2⟩ := List.mem_filter.mp hz
          rcases mem_union'.mp hc with h1 | h1
          · exact hd.zx z hz1 h1
          · simp only [List.mem_singleton] at h1
            simp [h1] at hz2
        · intro y hy hc
          exact hd.yz y hy (List.mem_filter.mp hc).1
        · intro z hz
          exact hd.zsub z (List.mem_filter.mp hz).1
      · intro x hx
        rcases mem_union'.mp hx with h | h
        · exact hX x h
        · simp only [List.mem_singleton] at h
          exact h ▸ hd.zsub c hcZ
      · exact hZnd.filter _
      · have : (Z.filter (· ≠ c)).length < Z.length := by
          apply length_lt_of_subset (hZnd.filter _) (fun a ha => (List.mem_filter.mp ha).1) hcZ
          simp
        omega
    | none =>
      simp only
      have hv : Valid { G := G, X := X, Y := union' Y Z, est := est } :=
        ⟨hG, hrank, fun y hy => by
          rcases mem_union'.mp hy with h | h
          · exact hd.ysub y h
          · exact hd.zsub y h, by
          obtain ⟨y, hy⟩ := List.exists_mem_of_ne_nil _ hd.yne
          exact List.ne_nil_of_mem (mem_union'.mpr (Or.inl hy)),
          fun y hy => by
            rcases mem_union'.mp hy with h | h
            · exact hd.yx y h
            · exact hd.zx y h, hest⟩
      rcases idAlg_total ht _ hv with ⟨e0, he0⟩ | he0
      · rw [he0]
        obtain ⟨e, he, _⟩ := div_zf e0 (sumSafe e0 Y) (idAlg_zf topo _ e0 he0 hzf)
          (zf_sumSafe (idAlg_zf topo _ e0 he0 hzf) Y)
        exact Or.inl ⟨e, he⟩
      · rw [he0]; exact Or.inr rfl

end

/-- a valid conditional query: well-formed acyclic graph, pairwise disjoint `X`, `Y`, `Z` inside it, `Y ≠ ∅`,
`Z` without repetitions (it is a set in the Python) -/
structure ValidCondQuery (G : MG Name) (X Y Z : List Name) : Prop where
  wf : G.WF
  ranked : G.Ranked
  disj : CondDisj G X Y Z
  xsub : ∀ x ∈ X, x ∈ G.nodes
  znodup : Z.Nodup

/-- **C03, totality.** On a valid conditional query IDC terminates with an estimand or the `unidentifiable`
refusal and never fails in another way. -/
theorem idc_total {sep : SepTest} {topo : MG Name → Except Err (List Name)} (hs : SepTotal sep)
    (ht : TopoGood topo) (G : MG Name) (X Y Z : List Name) (hq : ValidCondQuery G X Y Z) :
    IdcOutcomeOk (idc sep topo G X Y Z) := by
  unfold idc
  have hne : G.nodes ≠ [] := by
    obtain ⟨y, hy⟩ := List.exists_mem_of_ne_nil _ hq.disj.yne
    exact List.ne_nil_of_mem (hq.disj.ysub y hy)
  have hj : ∃ c, pJoint G.nodes = .ok (.prob none c []) := by
    unfold pJoint
    cases hsn : sortNames G.nodes with
    | nil => exact absurd hsn (sortNames_ne_nil hne)
    | cons a l => exact ⟨_, rfl⟩
  obtain ⟨c, hc⟩ := hj
  rw [hc]
  exact idcAlg_total hs ht hq.wf hq.ranked (est := .prob none c []) (by trivial) (.prob _ _ _) Y Z.length X Z hq.disj hq.xsub hq.znodup
    (Nat.le_refl _)

/-- with the model of `are_d_separated` as the separation test -/
theorem idc_total_dsep {topo : MG Name → Except Err (List Name)} (ht : TopoGood topo) (G : MG Name)
    (X Y Z : List Name) (hq : ValidCondQuery G X Y Z) :
    IdcOutcomeOk (idc (fun G a b C => G.dSeparated a b C) topo G X Y Z) :=
  idc_total dsep_sepTotal ht G X Y Z hq

/-- **C03, soundness relative to rule 2.** Whenever IDC returns an estimand for `P(Y | do(X), Z)`, its value on the
observational distribution of any compatible model in which rule 2 of the do-calculus holds for the separation
test equals `P(Y, Z | do(X)) / P(Z | do(X))` in that model, for every assignment of values. -/
theorem idc_sound_of_rule2 {sep : SepTest} {topo : MG Name → Except Err (List Name)} (ts : TopoSound topo)
    (G : MG Name) (X Y Z : List Name) (hq : ValidCondQuery G X Y Z) (e : Expr)
    (h : idc sep topo G X Y Z = .ok e) (M : Scm) (hM : M.Compatible G) (hr2 : Rule2Sound sep M G)
    (σ' σ : Val) : den (M.env G) σ' e σ = M.condDo G X Y Z σ := by
  unfold idc at h
  obtain ⟨est, hest, h⟩ := bind_ok h
  exact idcAlg_sound ⟨hM, hq.wf, hq.ranked⟩ ts hr2 hest Y _ X Z e hq.disj h σ

theorem firstApplicable_const_false (G : MG Name) (X Y Zp : List Name) (hY : Y ≠ []) (todo : List Name) :
    firstApplicable (fun _ _ _ _ => .ok false) G X Y Zp todo = .ok none := by
  obtain ⟨a, l, rfl⟩ : ∃ a l, Y = a :: l := by
    cases Y with
    | nil => exact absurd rfl hY
    | cons a l => exact ⟨a, l, rfl⟩
  induction todo with
  | nil => rfl
  | cons c cs ih =>
    unfold firstApplicable rule2Applies
    simp [allSep, bind, Except.bind, pure, Except.pure, ih]

/-- when no condition is exchangeable (in particular when rule 2 never applies) IDC is sound unconditionally:
the estimand is `e₀ / Σ_Y e₀` for the ID estimand `e₀` of `P(Y, Z | do(X))` -/
theorem idc_sound_no_exchange {sep : SepTest} {topo : MG Name → Except Err (List Name)} (ts : TopoSound topo)
    (G : MG Name) (X Y Z : List Name) (hq : ValidCondQuery G X Y Z) (e : Expr)
    (h : idc sep topo G X Y Z = .ok e) (hno : firstApplicable sep G X Y Z Z = .ok none)
    (M : Scm) (hM : M.Compatible G) (σ' σ : Val) : den (M.env G) σ' e σ = M.condDo G X Y Z σ := by
  -- rule 2 is never invoked on this run: run the loop with a separation test for which it never applies
  unfold idc at h
  obtain ⟨est, hest, h⟩ := bind_ok h
  have hr2 : Rule2Sound (fun _ _ _ _ => .ok false) M G := by
    intro X' Y' Z' c hd _ hr
    exfalso
    unfold rule2Applies at hr
    obtain ⟨y, hy⟩ := List.exists_mem_of_ne_nil _ hd.yne
    cases hY : Y' with
    | nil => rw [hY] at hy; cases hy
    | cons a l => rw [hY] at hr; simp [allSep, bind, Except.bind, pure, Except.pure] at hr
  -- the run with `sep` and the run with the constant test coincide when nothing is exchanged
  rcases idcAlg_ok h with ⟨c, f', hfa, _, _⟩ | ⟨_, e0, he0, hn⟩
  · rw [hno] at hfa; cases hfa
  · have hrun : idcAlg (fun _ _ _ _ => .ok false) topo G est 0 X Y Z = .ok e := by
      unfold idcAlg
      have hf : firstApplicable (fun _ _ _ _ => .ok false) G X Y Z Z = .ok none :=
        firstApplicable_const_false G X Y Z hq.disj.yne Z
      simp [hf, he0, hn, bind, Except.bind]
    exact idcAlg_sound ⟨hM, hq.wf, hq.ranked⟩ ts hr2 hest Y 0 X Z e hq.disj hrun σ

/-- `P(y | do(x))` depends on the outcome list only through its members -/
theorem doProb_congr (M : Scm) (G : MG Name) (X : List Name) {Y Y' : List Name} (h : ∀ v, v ∈ Y ↔ v ∈ Y') :
    M.doProb G X Y = M.doProb G X Y' := by
  unfold Scm.doProb
  congr 1
  apply List.filter_congr
  intro v _
  simp [h v]

/-- **the order in which the conditions are met is irrelevant** (relative to rule 2): two successful runs of IDC
on the same query with the conditions listed in different orders return estimands with the same value. -/
theorem idc_order_irrelevant_of_rule2 {sep : SepTest} {topo : MG Name → Except Err (List Name)} (ts : TopoSound topo)
    (G : MG Name) (X Y Z Z' : List Name) (hq : ValidCondQuery G X Y Z) (hq' : ValidCondQuery G X Y Z')
    (hZ : ∀ v, v ∈ Z ↔ v ∈ Z') (e e' : Expr) (h : idc sep topo G X Y Z = .ok e) (h' : idc sep topo G X Y Z' = .ok e')
    (M : Scm) (hM : M.Compatible G) (hr2 : Rule2Sound sep M G) (σ' σ : Val) :
    den (M.env G) σ' e σ = den (M.env G) σ' e' σ := by
  rw [idc_sound_of_rule2 ts G X Y Z hq e h M hM hr2, idc_sound_of_rule2 ts G X Y Z' hq' e' h' M hM hr2]
  unfold Scm.condDo
  rw [doProb_congr M G X (Y := union' Y Z) (Y' := union' Y Z') (fun v => by simp [mem_union', hZ v]),
    doProb_congr M G X hZ]

theorem allSep_true {sep : SepTest} {Gm : MG Name} {c : Name} {conds : List Name} :
    ∀ Y : List Name, allSep sep Gm c conds Y = .ok true → ∀ y ∈ Y, sep Gm y c conds = .ok true := by
  intro Y
  induction Y with
  | nil => intro _ y hy; cases hy
  | cons a l ih =>
    intro h y hy
    unfold allSep at h
    obtain ⟨b, hb, h⟩ := bind_ok h
    cases b with
    | true =>
      rcases List.mem_cons.1 hy with rfl | hy
      · exact hb
      · exact ih (by simpa using h) y hy
    | false => simp [pure, Except.pure] at h

/-- **rule 2 of the do-calculus** (action/observation exchange) holds for the model of `are_d_separated` in every
positive semi-Markovian model compatible with a well-formed acyclic graph: the hypothesis `Rule2Sound` of
`idc_sound_of_rule2` is a theorem.  `X`, `Y`, `Z` are arbitrary lists (`CondDisj`). -/
theorem rule2_sound (G : MG Name) (hG : G.WF) (hR : G.Ranked) (M : Scm) (hM : M.Compatible G) :
    Rule2Sound (fun G a b C => G.dSeparated a b C) M G := by
  intro X Y Z c hd hcZ hr σ
  unfold rule2Applies at hr
  have hH : ((G.removeInEdges X).removeOutEdges [c]).WF := wf_fromEdges _ _ _
  have hcC : c ∉ union' X (Z.filter (· ≠ c)) := by
    intro h
    rcases mem_union'.mp h with h | h
    · exact hd.zx c hcZ h
    · simpa using (List.mem_filter.mp h).2
  apply rule2_of_augSeparated hM hG hR X Y Z c (hd.zsub c hcZ) hcZ (hd.zx c hcZ) hd.yx hd.yz
  intro y hy
  have hyC : y ∉ union' X (Z.filter (· ≠ c)) := by
    intro h
    rcases mem_union'.mp h with h | h
    · exact hd.yx y hy h
    · exact hd.yz y hy (List.mem_filter.mp h).1
  have hs := allSep_true Y hr y hy
  by_cases hq : ((G.removeInEdges X).removeOutEdges [c]).ValidQuery y c (union' X (Z.filter (· ≠ c)))
  · exact (augSeparated_symm _ _ _ _).1 ((dsep_iff_augmented _ hH y c _ hq hyC hcC true hs).1 rfl)
  · rw [dsep_invalid _ y c _ hq] at hs
    cases hs

/-- **C03.** Whenever IDC returns an estimand for `P(Y | do(X), Z)` on an acyclic directed mixed graph, its value on the
observational distribution of any structural causal model compatible with the graph equals that model's
`P(Y, Z | do(X)) / P(Z | do(X))`, for every assignment of values. -/
theorem idc_sound {topo : MG Name → Except Err (List Name)} (ts : TopoSound topo)
    (G : MG Name) (X Y Z : List Name) (hq : ValidCondQuery G X Y Z) (e : Expr)
    (h : idc (fun G a b C => G.dSeparated a b C) topo G X Y Z = .ok e) (M : Scm) (hM : M.Compatible G)
    (σ' σ : Val) : den (M.env G) σ' e σ = M.condDo G X Y Z σ :=
  idc_sound_of_rule2 ts G X Y Z hq e h M hM (rule2_sound G hq.wf hq.ranked M hM) σ' σ

/-- **C03, closed form**: with the executable sorter `ancTopo` (which provably returns linear extensions) and
acyclicity in its relational form, no assumption about `topological_sort` is left. -/
theorem idc_sound_acyclic (G : MG Name) (X Y Z : List Name) (hG : G.WF) (hac : G.Acyclic)
    (hd : CondDisj G X Y Z) (hX : ∀ x ∈ X, x ∈ G.nodes) (hZ : Z.Nodup) (e : Expr)
    (h : idc (fun G a b C => G.dSeparated a b C) ancTopo G X Y Z = .ok e) (M : Scm) (hM : M.Compatible G)
    (σ' σ : Val) : den (M.env G) σ' e σ = M.condDo G X Y Z σ :=
  idc_sound ancTopo_sound G X Y Z ⟨hG, MG.acyclic_ranked hG hac, hd, hX, hZ⟩ e h M hM σ' σ

/-- the public wrapper `identify_outcomes(…, conditions=…)` -/
theorem identifyOutcomesC_sound {topo : MG Name → Except Err (List Name)} (ts : TopoSound topo)
    (G : MG Name) (X Y Z : List Name) (hq : ValidCondQuery G X Y Z) (e : Expr)
    (h : identifyOutcomesC (fun G a b C => G.dSeparated a b C) topo G X Y Z = .ok (some e)) (M : Scm)
    (hM : M.Compatible G) (σ' σ : Val) : den (M.env G) σ' e σ = M.condDo G X Y Z σ := by
  unfold identifyOutcomesC at h
  split at h
  · rename_i e' he
    simp only [Except.ok.injEq, Option.some.injEq] at h
    subst h
    exact idc_sound ts G X Y Z hq _ he M hM σ' σ
  · cases h
  · cases h

/-- **the order in which the conditions are met is irrelevant**: two successful runs of IDC on the same query with
the conditions listed in different orders return estimands with the same value in every compatible model -/
theorem idc_order_irrelevant {topo : MG Name → Except Err (List Name)} (ts : TopoSound topo)
    (G : MG Name) (X Y Z Z' : List Name) (hq : ValidCondQuery G X Y Z) (hq' : ValidCondQuery G X Y Z')
    (hZ : ∀ v, v ∈ Z ↔ v ∈ Z') (e e' : Expr)
    (h : idc (fun G a b C => G.dSeparated a b C) topo G X Y Z = .ok e)
    (h' : idc (fun G a b C => G.dSeparated a b C) topo G X Y Z' = .ok e')
    (M : Scm) (hM : M.Compatible G) (σ' σ : Val) :
    den (M.env G) σ' e σ = den (M.env G) σ' e' σ :=
  idc_order_irrelevant_of_rule2 ts G X Y Z Z' hq hq' hZ e e' h h' M hM (rule2_sound G hq.wf hq.ranked M hM) σ' σ

/-- the public wrapper turns the refusal into `none`: it never raises `Unidentifiable` itself -/
theorem identifyOutcomesC_not_unidentifiable (sep : SepTest) (topo : MG Name → Except Err (List Name)) (G : MG Name)
    (X Y Z : List Name) : identifyOutcomesC sep topo G X Y Z ≠ .error .unidentifiable := by
  unfold identifyOutcomesC
  cases h : idc sep topo G X Y Z with
  | ok e => simp
  | error e => cases e <;> simp

/-! ### non-vacuity -/

/-- figure 6a of Shpitser–Pearl 2008 (`X → Z → Y`, `X ↔ Z`; X=0, Y=1, Z=2) with the query `P(Y | do(X), Z)` -/
example : ValidCondQuery (MG.fromEdges [0, 1, 2] [(0, 2), (2, 1)] [(0, 2)]) [0] [1] [2] :=
  ⟨MG.wf_fromEdges _ _ _, ⟨fun v => if v = 0 then 0 else if v = 2 then 1 else 2, by decide⟩,
    ⟨by decide, by decide, by decide, by decide, by decide, by decide⟩, by decide, by decide⟩

/-- on that query rule 2 applies to the condition (the exchange is made): the hypothesis of `idc_sound_of_rule2`
is used non-trivially -/
example : rule2Applies (fun G a b C => G.dSeparated a b C) (MG.fromEdges [0, 1, 2] [(0, 2), (2, 1)] [(0, 2)])
    [0] [1] [2] 2 = .ok true := by decide

/-- IDC succeeds on that query (rule 2 exchanges the condition, then ID runs on `P(Y | do(X, Z))`), with a sorter for
which `TopoSound` is proved; so `idc_sound` applies to a run on which rule 2 is really used: in every compatible model
the returned estimand equals `P(y | do(x), z)` -/
example (M : Scm) (hM : M.Compatible (MG.fromEdges [0, 1, 2] [(0, 2), (2, 1)] [(0, 2)])) (σ' σ : Val) :
    ∃ e, idc (fun G a b C => G.dSeparated a b C) checkedTopo (MG.fromEdges [0, 1, 2] [(0, 2), (2, 1)] [(0, 2)])
        [0] [1] [2] = .ok e ∧
      den (M.env (MG.fromEdges [0, 1, 2] [(0, 2), (2, 1)] [(0, 2)])) σ' e σ =
        M.condDo (MG.fromEdges [0, 1, 2] [(0, 2), (2, 1)] [(0, 2)]) [0] [1] [2] σ := by
  have h : ∃ e, idc (fun G a b C => G.dSeparated a b C) checkedTopo
      (MG.fromEdges [0, 1, 2] [(0, 2), (2, 1)] [(0, 2)]) [0] [1] [2] = .ok e :=
    ⟨_, idcF_ok _ _ 8 _ _ _ _ _ (by rfl)⟩
  obtain ⟨e, he⟩ := h
  exact ⟨e, he, idc_sound checkedTopo_sound _ [0] [1] [2]
    ⟨MG.wf_fromEdges _ _ _, ⟨fun v => if v = 0 then 0 else if v = 2 then 1 else 2, by decide⟩,
      ⟨by decide, by decide, by decide, by decide, by decide, by decide⟩, by decide, by decide⟩ e he M hM σ' σ⟩

end Y0
