/-
  Y0.Props.C03 — IDC (theorems about Y0.Model.Idc).
-/
import Y0.Model.Idc

namespace Y0

/-- the public wrapper turns the refusal into `none`: it never raises `Unidentifiable` itself -/
theorem identifyOutcomesC_not_unidentifiable (sep : SepTest) (topo : MG Name → Except Err (List Name)) (G : MG Name)
    (X Y Z : List Name) : identifyOutcomesC sep topo G X Y Z ≠ .error .unidentifiable := by
  unfold identifyOutcomesC
  cases h : idc sep topo G X Y Z with
  | ok e => simp
  | error e => cases e <;> simp

end Y0
