/-
  Y0.Spec.FscmToScm — the semi-Markovian model (`Scm`, Y0/Spec/Scm.lean) induced by a functional SCM
  (`Fscm.Model`, Y0/Spec/Fscm.lean): DESIGN.md 3.3 "Every `Fscm` induces an `Scm` (kernel = push-forward of the
  private noise)".

    * an exogenous variable `u_j` read by at least two observed variables (or by none) becomes the latent
      `base + j` of the `Scm`, with prior `noise[j]`;
    * an exogenous variable read by exactly one observed variable `v` is PRIVATE to `v` and is summed out:
          kern v σ = Σ_{private noise a of v} Π_j P(u_j = a_j) · [ f_v(σ pa(v), shared ↦ σ, private ↦ a) = σ v ] ;
    * `base` must exceed every observed name (so that latent names are fresh): `M.toScm card base`.

  Core Lean only: executable (`sem toscm_prdo` of the driver; tools/sem_crosscheck.py compares
  `(M.toScm …).prDo` with the exact evaluation of the functional model).
-/
import Y0.Spec.Scm
import Y0.Spec.FscmEnv

namespace Y0
namespace Fscm

/-- the observed variables whose mechanism reads `u_j` -/
def Model.users (M : Model) (j : Nat) : List Name := M.order.filter fun v => (M.lat v).contains j

/-- `u_j` is private: read by exactly one observed variable -/
def Model.isPriv (M : Model) (j : Nat) : Bool := (M.users j).length == 1

/-- all value tuples below the given cardinalities -/
def tuples : List Nat → List (List Nat)
  | [] => [[]]
  | c :: cs => (List.range c).flatMap fun k => (tuples cs).map fun t => k :: t

/-- position of `j` in `l` -/
def indexOf (l : List Nat) (j : Nat) : Nat :=
  match l with
  | [] => 0
  | a :: r => if a = j then 0 else indexOf r j + 1

/-- `P(v = σ v | pa, shared latents)`: the private noise of `v` pushed forward through `f_v` -/
def Model.kernOf (M : Model) (base : Nat) (v : Name) (σ : Val) : Rat :=
  let priv := (M.lat v).filter M.isPriv
  let pmfs := priv.map fun j => M.noise.getD j []
  ((tuples (pmfs.map List.length)).map fun a =>
    let w := ((List.zip pmfs a).map fun (pa : List Rat × Nat) => pa.1.getD pa.2 0).prod
    let us := (M.lat v).map fun j => if M.isPriv j then a.getD (indexOf priv j) 0 else σ (base + j)
    if M.f v ((M.pa v).map σ) us = σ v then w else 0).sum

/-- **the induced semi-Markovian model** -/
def Model.toScm (M : Model) (card : Name → Nat) (base : Nat) : Scm :=
  { card := fun n => if n < base then card n else (M.noise.getD (n - base) []).length
    lat := ((List.range M.noise.length).filter fun j => !M.isPriv j).map (base + ·)
    prior := fun n k => (M.noise.getD (n - base) []).getD k 0
    latOf := fun v => ((M.lat v).filter fun j => !M.isPriv j).map (base + ·)
    kern := fun v σ => M.kernOf base v σ }

end Fscm
end Y0
