/-
  Y0.Spec.FscmToScm — the semi-Markovian model (`Scm`, Y0/Spec/Scm.lean) induced by a functional SCM
  (`Fscm.Model`, Y0/Spec/Fscm.lean): DESIGN.md 3.3 "Every `Fscm` induces an `Scm` (kernel = push-forward of the
  private noise)".

    * an exogenous variable `u_j` read by at least two observed variables (or by none) becomes the latent
      `base + j` of the `Scm`, with prior `noise[j]`;
    * an exogenous variable read by exactly one observed variable `v` is PRIVATE to `v` and is summed out:
          kern v σ = Σ_{private noise of v} Π_j P(u_j) · [ f_v(σ pa(v), σ noise(v)) = σ v ]      (`sumVars` over the
          names `base + j` of the private noise) ;
    * `base` must exceed every observed name (so that latent names are fresh): `M.toScm card base`.

  Core Lean only: executable (`sem toscm_prdo` of the driver; tools/sem_crosscheck.py compares
  `(M.toScm …).prDo` with the exact evaluation of the functional model).
-/
import Y0.Spec.Scm
import Y0.Spec.FscmEnv

namespace Y0
namespace Fscm

/-- the observed variables whose mechanism reads `u_j` -/
def Model.users (M : Model) (j : Nat) : List Name := M.order.filter fun v => (M.lat v).contains j

/-- `u_j` is private: read by exactly one observed variable -/
def Model.isPriv (M : Model) (j : Nat) : Bool := (M.users j).length == 1

/-- cardinalities of the induced model: observed names keep theirs, the latent `base + j` has `|noise[j]|` values
(names beyond the noise: 1, so that every name has a value) -/
def Model.cardS (M : Model) (card : Name → Nat) (base : Nat) : Name → Nat :=
  fun n => if n < base then card n
    else if n - base < M.noise.length then (M.noise.getD (n - base) []).length else 1

/-- `P(u_{n - base} = k)`; 1 for `k` outside the range (never summed over; `Scm.Compatible` wants positivity at every
valuation) -/
def Model.priorS (M : Model) (base : Nat) : Name → Nat → Rat :=
  fun n k => (M.noise.getD (n - base) []).getD k 1

/-- names of the exogenous variables private to `v` -/
def Model.privOf (M : Model) (base : Nat) (v : Name) : List Name := ((M.lat v).filter M.isPriv).map (base + ·)

/-- the structural equation of `v` holds at the joint valuation `τ` of observed variables and (named) noise -/
def Model.eqn (M : Model) (base : Nat) (v : Name) (τ : Val) : Rat :=
  if M.f v ((M.pa v).map τ) ((M.lat v).map fun j => τ (base + j)) = τ v then 1 else 0

/-- `P(v = σ v | pa, shared latents)`: the private noise of `v` summed out (pushed forward through `f_v`); 1 when `σ v`
is not a value of `v` (never summed over; `Scm.Compatible` wants positivity at every valuation) -/
def Model.kernOf (M : Model) (card : Name → Nat) (base : Nat) (v : Name) : Val → Rat :=
  fun σ => if σ v < card v then
    sumVars (M.cardS card base) (M.privOf base v)
      (fun τ => ((M.privOf base v).map fun n => M.priorS base n (τ n)).prod * M.eqn base v τ) σ
  else 1

/-- **the induced semi-Markovian model** -/
def Model.toScm (M : Model) (card : Name → Nat) (base : Nat) : Scm :=
  { card := M.cardS card base
    lat := ((List.range M.noise.length).filter fun j => !M.isPriv j).map (base + ·)
    prior := M.priorS base
    latOf := fun v => ((M.lat v).filter fun j => !M.isPriv j).map (base + ·)
    kern := M.kernOf card base }

end Fscm
end Y0
