/-
  Y0.Spec.Identifiable — what "the causal effect `P(y | do(x))` is identifiable from the observational distribution
  in the graph `G`" means (Pearl 2000, Def. 3.2.4; Shpitser & Pearl 2006, Def. 2) for the model class of Y0.Spec.Scm.

  The effect is identifiable when it is a function of the observational joint `P(v)`: any two structural causal models
  compatible with `G` (positive, discrete, independent root latents shared only across bidirected edges) whose observed
  variables have the same ranges and which induce the same `P(v)` also induce the same `P(y | do(x))`.
  The two models are free to differ in everything unobserved: number, names, ranges, priors of the latents, and the
  mechanisms.  Core Lean only.  Short and meant to be read.
-/
import Y0.Spec.Scm

namespace Y0

/-- `σ` gives every observed variable a value of its range (distributions are compared there only) -/
def Scm.InRange (M : Scm) (G : MG Name) (σ : Val) : Prop := ∀ v ∈ G.nodes, σ v < M.card v

/-- two models of `G` are observationally indistinguishable: same ranges of the observed variables, same joint `P(v)` -/
structure ObsEquiv (G : MG Name) (M₁ M₂ : Scm) : Prop where
  card_eq : ∀ v ∈ G.nodes, M₁.card v = M₂.card v
  obs_eq : ∀ σ, M₁.InRange G σ → M₁.obs G σ = M₂.obs G σ

/-- `P(Y | do(X))` is identifiable in `G`: observationally indistinguishable compatible models agree on it -/
def Identifiable (G : MG Name) (X Y : List Name) : Prop :=
  ∀ M₁ M₂ : Scm, M₁.Compatible G → M₂.Compatible G → ObsEquiv G M₁ M₂ →
    ∀ σ, M₁.InRange G σ → M₁.doProb G X Y σ = M₂.doProb G X Y σ

/-- the witness of non-identifiability: two compatible, observationally indistinguishable models and an assignment
(of values in range) at which their interventional distributions differ -/
structure NonIdWitness (G : MG Name) (X Y : List Name) (M₁ M₂ : Scm) (σ : Val) : Prop where
  compat₁ : M₁.Compatible G
  compat₂ : M₂.Compatible G
  equiv : ObsEquiv G M₁ M₂
  inRange : M₁.InRange G σ
  differ : M₁.doProb G X Y σ ≠ M₂.doProb G X Y σ

theorem NonIdWitness.not_identifiable {G : MG Name} {X Y : List Name} {M₁ M₂ : Scm} {σ : Val}
    (w : NonIdWitness G X Y M₁ M₂ σ) : ¬ Identifiable G X Y :=
  fun h => w.differ (h M₁ M₂ w.compat₁ w.compat₂ w.equiv σ w.inRange)

end Y0
