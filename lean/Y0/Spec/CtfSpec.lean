/-
  Y0.Spec.CtfSpec — relational definitions of Correa, Lee, Bareinboim (ICML 2022) that property C19 names:
  minimisation ‖Y_x‖, counterfactual ancestors (Def. 2.1), ancestral components (Def. 4.2), ctf-factor form (Def. 3.4).
  Independent of the executable models (only the data types `MG`, `Var`, `Iv` are shared); short and meant to be read.
-/
import Y0.Model.Expr
import Y0.Spec.GraphSpec

namespace Y0.Ctf
open Relation

/-- `u → v` is an edge of `G_{\overline X}` (the edges INTO `X` removed) -/
def EdgeBar (g : MG Name) (X : List Name) (u v : Name) : Prop := g.DiEdge u v ∧ v ∉ X
/-- `u → v` is an edge of `G_{\underline X}` (the edges OUT OF `X` removed) -/
def EdgeUnder (g : MG Name) (X : List Name) (u v : Name) : Prop := g.DiEdge u v ∧ u ∉ X

/-- `a ∈ An(y)_{G_{\overline X}}` -/
def AncBar (g : MG Name) (X : List Name) (y a : Name) : Prop := ReflTransGen (EdgeBar g X) a y
/-- `a ∈ An(y)_{G_{\underline X}}` -/
def AncUnder (g : MG Name) (X : List Name) (y a : Name) : Prop := ReflTransGen (EdgeUnder g X) a y

/-- the names a variable intervenes on (`X` for `Y_x`) -/
def subNames (v : Var) : List Name := v.ivs.map (·.name)

/-- `==` of the Python dataclasses: same class, name and value mark, and the same SET of interventions -/
def SameVar (a b : Var) : Prop :=
  a.name = b.name ∧ a.star = b.star ∧ a.isIv = b.isIv ∧ ∀ i, i ∈ a.ivs ↔ i ∈ b.ivs

/-- `w = ‖v‖`: same name and value mark, and the subscripts `t = x ∩ T` with `T = X ∩ An(Y)_{G_{\overline X}}`
(last paragraph of Section 4) -/
def IsMinimised (g : MG Name) (v w : Var) : Prop :=
  w.name = v.name ∧ w.star = v.star ∧
  ∀ i, i ∈ w.ivs ↔ i ∈ v.ivs ∧ AncBar g (subNames v) v.name i.name

/-- Def. 2.1: `w ∈ An(Y_x)` iff `w = W_z` with `W ∈ An(Y)_{G_{\underline X}}` and `z = x ∩ An(W)_{G_{\overline X}}`;
the members of `An(Y_x)` carry no value mark -/
def IsCtfAncestor (g : MG Name) (v w : Var) : Prop :=
  AncUnder g (subNames v) v.name w.name ∧ w.star = none ∧ w.isIv = false ∧
  ∀ i, i ∈ w.ivs ↔ i ∈ v.ivs ∧ AncBar g (subNames v) w.name i.name

/-- Def. 3.4 (as used by y0): `W_s` stands for the ctf-factor variable `W_{pa_W}` when every parent of `W` is
intervened on and `W` itself is not; a variable without subscripts must have no parent -/
def FactorForm (g : MG Name) (v : Var) : Prop :=
  (∀ p, g.DiEdge p v.name → p ∈ subNames v) ∧ v.name ∉ subNames v

/-- Def. 3.4, literally: the subscript names are exactly the parents -/
def ExactFactorForm (g : MG Name) (v : Var) : Prop :=
  ∀ p, p ∈ subNames v ↔ g.DiEdge p v.name

/-- Def. 4.2: two sets of counterfactual variables are linked when they share a graph vertex or a bidirected edge of
`G` joins a vertex of one to a vertex of the other -/
def Linked (g : MG Name) (s t : List Var) : Prop :=
  (∃ a ∈ s, ∃ b ∈ t, a.name = b.name) ∨ (∃ a ∈ s, ∃ b ∈ t, g.BiEdge a.name b.name)

/-- two input sets belong to the same ancestral component: the finest partition closed under `Linked` -/
def SameComponent (g : MG Name) (sets : List (List Var)) (s t : List Var) : Prop :=
  ReflTransGen (fun a b => a ∈ sets ∧ b ∈ sets ∧ Linked g a b) s t

/-! ### Def. 4.2 in full: the conditioned variables -/

/-- `m = ‖x‖` for any variable of the conditioning set (a variable without subscripts is its own minimisation) -/
def MinimisedTo (g : MG Name) (x m : Var) : Prop :=
  (x.ivs = [] ∧ m = x) ∨ (x.ivs ≠ [] ∧ IsMinimised g x m)

/-- `n ∈ X_*(W_t) = V(‖X_*‖ ∩ An(W_t))`: the vertex of a minimised conditioned variable that is a member of `An(W_t)` -/
def CondVertex (g : MG Name) (cond : List Var) (root : Var) (n : Name) : Prop :=
  ∃ x ∈ cond, ∃ m, MinimisedTo g x m ∧ (∃ w, IsCtfAncestor g root w ∧ SameVar m w) ∧ m.name = n

/-- first pass of Def. 4.2: the two sets share a graph vertex -/
def Overlap (s t : List Var) : Prop := ∃ a ∈ s, ∃ b ∈ t, a.name = b.name

/-- closure of `Overlap` over the input sets -/
def OverlapClass (sets : List (List Var)) (s t : List Var) : Prop :=
  ReflTransGen (fun a b => a ∈ sets ∧ b ∈ sets ∧ Overlap a b) s t

/-- second pass of Def. 4.2: a bidirected edge of `G` joins a vertex of one set to a vertex of the other -/
def BiAdjacent (g : MG Name) (s t : List Var) : Prop := ∃ a ∈ s, ∃ b ∈ t, g.BiEdge a.name b.name

/-- closure of `BiAdjacent` over the input sets -/
def BiClass (g : MG Name) (sets : List (List Var)) (s t : List Var) : Prop :=
  ReflTransGen (fun a b => a ∈ sets ∧ b ∈ sets ∧ BiAdjacent g a b) s t

end Y0.Ctf
