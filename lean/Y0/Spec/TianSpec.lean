/-
  Y0.Spec.TianSpec — the preconditions of Tian & Pearl's IDENTIFY and of the c-factor routines (property C17),
  written as short list-free-in-spirit predicates over `MG Name` (lists are read as sets).  Meant to be read.
-/
import Y0.Model.Graph
import Y0.Model.Expr

namespace Y0
namespace TianSpec

/-- `l` lists variables in an order compatible with the directed edges of `G`:
no element is a parent of an earlier one -/
def TopoOrdered (G : MG Name) (l : List Name) : Prop :=
  ∀ l1 l2, l = l1 ++ l2 → ∀ a ∈ l1, ∀ r ∈ l2, r ∉ G.parents a

/-- `topo` is a valid topological order for `G`: duplicate free, contains every node (it "may contain more"),
directed edges go forward -/
structure ValidTopo (G : MG Name) (topo : List Name) : Prop where
  nodup : topo.Nodup
  covers : ∀ v ∈ G.nodes, v ∈ topo
  ordered : TopoOrdered G topo

/-- `A` is an ancestral set of the subgraph induced by `H`: it contains the parents (within `H`) of its members -/
def AncestralIn (G : MG Name) (A H : List Name) : Prop := ∀ a ∈ A, ∀ p ∈ G.parents a, p ∈ H → p ∈ A

/-- `D` is a union of districts of the subgraph induced by `H`: no bidirected edge joins `D` to the rest of `H` -/
def BiClosedIn (G : MG Name) (D H : List Name) : Prop := ∀ v ∈ D, ∀ w ∈ H, w ∉ D → G.hasBi v w = false

/-- the two lists have the same members -/
def SameSet (A B : List Name) : Prop := ∀ v, v ∈ A ↔ v ∈ B

/-- **Shape of a `Probability` given as the c-factor of `H`.**  The Lemma-1 branch of the code dispatches on the
type of the expression and reads only its parents, population tag and, for the members of `H`, the child that
carries their name (with its intervention subscripts), so a `Probability` must be `P_w(H ∪ E | Z)`:
every member of `H` is a child; any further child `E` is redundant (it is also a parent or an intervened variable:
`P(T, W | Z)` with `W ⊆ Z` denotes `P(T | Z)`); all children and parents carry the same un-starred
intervention subscripts `w` (possibly none) and are not starred themselves (`+X`); neither the parents nor the intervened variables are members of `H` (they need not
even be nodes of the graph).
Other constructors carry no shape condition. -/
def ProbShape (q : Expr) (H : List Name) : Prop :=
  match q with
  | .prob _ children parents =>
      ∃ w : List Iv,
        (∀ h ∈ H, h ∈ children.map (·.name)) ∧
        (∀ c ∈ children, c.name ∈ H ∨ c.name ∈ parents.map (·.name) ∨ c.name ∈ w.map (·.name)) ∧
        (∀ v ∈ children ++ parents, v.ivs = w ∧ v.star ≠ some true) ∧
        (∀ i ∈ w, i.star = false ∧ i.name ∉ H) ∧
        (∀ p ∈ parents, p.name ∉ H)
  | _ => True

/-- the stricter shape `P_w(H | Z)` (children exactly the members of `H`, once each) implies `ProbShape` -/
theorem probShape_of_exact (pop : Option Var) (children parents : List Var) (H : List Name)
    (w : List Iv) (h1 : (children.map (·.name)).Perm H)
    (h2 : ∀ v ∈ children ++ parents, v.ivs = w ∧ v.star ≠ some true)
    (h3 : ∀ i ∈ w, i.star = false ∧ i.name ∉ H)
    (h4 : ∀ p ∈ parents, p.name ∉ H) : ProbShape (.prob pop children parents) H :=
  ⟨w, fun _ hh => h1.mem_iff.mpr hh,
    fun c hc => Or.inl (h1.mem_iff.mp (List.mem_map.mpr ⟨c, hc, rfl⟩)), h2, h3, h4⟩

/-- **The part of `ProbShape` that concerns the members of `H` only** (relative to a graph `G`).  A `Probability`
given as the c-factor of `H` is `P_w(H ∪ E | Z)` where
* every member of `H` is a child, is NOT starred (`+X` would read the other assignment), and is neither a parent nor
  intervened on;
* all children and parents carry the same intervention subscripts `w` — which may be starred (`+X`), as may be the
  parents and the further children `E`;
* a further child is redundant: it is also a parent, or intervened on, or not a node of the graph at all.
Nothing is required about the VALUES the starred or redundant variables take (for instance `P(T, +z | -z)` satisfies
this predicate but has the value 0 whenever the two values of `z` differ): whether the probability denotes `Q[H]` is
the separate, semantic hypothesis of the theorems.  `ProbShape q H → ProbShapeIn G q H`, and `ProbShapeIn` is what
follows from "`q` denotes `Q[H]` in EVERY compatible positive model" (`Y0.TianSem.probShapeIn_of_semantic`). -/
def ProbShapeIn (G : MG Name) (q : Expr) (H : List Name) : Prop :=
  match q with
  | .prob _ children parents =>
      ∃ w : List Iv,
        (∀ h ∈ H, h ∈ children.map (·.name)) ∧
        (∀ c ∈ children, c.name ∈ H ∨ c.name ∈ parents.map (·.name) ∨ c.name ∈ w.map (·.name) ∨
          c.name ∉ G.nodes) ∧
        (∀ v ∈ children ++ parents, v.ivs = w) ∧
        (∀ c ∈ children, c.name ∈ H → c.star ≠ some true) ∧
        (∀ i ∈ w, i.name ∉ H) ∧
        (∀ p ∈ parents, p.name ∉ H)
  | _ => True

theorem probShapeIn_of_probShape (G : MG Name) {q : Expr} {H : List Name} (h : ProbShape q H) :
    ProbShapeIn G q H := by
  cases q with
  | prob pop ch pa =>
    obtain ⟨w, h1, h2, h3, h4, h5⟩ := h
    exact ⟨w, h1, fun c hc => (h2 c hc).imp id (fun h' => h'.imp id Or.inl),
      fun v hv => (h3 v hv).1, fun c hc _ => (h3 c (List.mem_append_left _ hc)).2,
      fun i hi => (h4 i hi).2, h5⟩
  | _ => trivial

end TianSpec
end Y0
