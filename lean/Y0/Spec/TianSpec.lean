/-
  Y0.Spec.TianSpec — the preconditions of Tian & Pearl's IDENTIFY and of the c-factor routines (property C17),
  written as short list-free-in-spirit predicates over `MG Name` (lists are read as sets).  Meant to be read.
-/
import Y0.Model.Graph
import Y0.Model.Expr

namespace Y0
namespace TianSpec

/-- `l` lists variables in an order compatible with the directed edges of `G`:
no element is a parent of an earlier one -/
def TopoOrdered (G : MG Name) (l : List Name) : Prop :=
  ∀ l1 l2, l = l1 ++ l2 → ∀ a ∈ l1, ∀ r ∈ l2, r ∉ G.parents a

/-- `topo` is a valid topological order for `G`: duplicate free, contains every node (it "may contain more"),
directed edges go forward -/
structure ValidTopo (G : MG Name) (topo : List Name) : Prop where
  nodup : topo.Nodup
  covers : ∀ v ∈ G.nodes, v ∈ topo
  ordered : TopoOrdered G topo

/-- `A` is an ancestral set of the subgraph induced by `H`: it contains the parents (within `H`) of its members -/
def AncestralIn (G : MG Name) (A H : List Name) : Prop := ∀ a ∈ A, ∀ p ∈ G.parents a, p ∈ H → p ∈ A

/-- `D` is a union of districts of the subgraph induced by `H`: no bidirected edge joins `D` to the rest of `H` -/
def BiClosedIn (G : MG Name) (D H : List Name) : Prop := ∀ v ∈ D, ∀ w ∈ H, w ∉ D → G.hasBi v w = false

/-- the two lists have the same members -/
def SameSet (A B : List Name) : Prop := ∀ v, v ∈ A ↔ v ∈ B

/-- **Shape of a `Probability` given as the c-factor of `H`.**  The Lemma-1 branch of the code dispatches on the
type of the expression and reads only its parents, population tag and intervention subscripts, so a `Probability`
must be `P_w(H | Z)`: one child per member of `H`, all children and parents plain or carrying the same un-starred
intervention subscripts `w`, and neither the parents nor the intervened variables are members of `H`.
Other constructors carry no shape condition. -/
def ProbShape (nodes : List Name) (q : Expr) (H : List Name) : Prop :=
  match q with
  | .prob _ children parents =>
      ∃ w : List Iv,
        (children.map (·.name)).Perm H ∧
        (∀ v ∈ children ++ parents, v.ivs = w ∧ v.star = none) ∧
        (∀ i ∈ w, i.star = false ∧ i.name ∉ H ∧ i.name ∈ nodes) ∧
        (∀ p ∈ parents, p.name ∉ H ∧ p.name ∈ nodes)
  | _ => True

end TianSpec
end Y0
