/-
  Y0.Spec.CtfSem — what an `Event` of the counterfactual-transport API (a list of pairs (counterfactual variable,
  `Intervention | None`)) denotes in a functional SCM (Y0/Spec/Fscm.lean): the conjunction of `Y_x = y` over the items
  whose value is not `None`; an item with value `None` puts no constraint.

  Second part: what the pair (expression, event) returned by `do_counterfactual_factor_factorization` denotes
  (`factorisedValue`).  Reading (the one of harness/oracles/ctf_fscm.py `eval_factorised`, ASSUMPTIONS of c19.py):
    * `Sum[R] e` sums over all values (below `card`) of the names in `R`;
    * a subscript `-N` of a factor variable whose name is bound by the enclosing `Sum` denotes the bound value; every
      other subscript (`+N`, or `-N` with `N` not bound) its literal value `ν N ·`;
    * a factor variable `W_s` whose vertex `W` is bound takes the bound value; otherwise it takes every value the
      returned event gives to `W_s` (no entry, or the value `None`: unconstrained);
    * `P(c_1, …, c_k)` is the probability of the conjunction (shared noise), a `Product` the product.
-/
import Y0.Spec.Fscm

namespace Y0.Ctf
open Y0.Fscm

/-- the conjuncts denoted by an event -/
def eventConjuncts (ν : BaseValues) (e : List (Var × Option Iv)) : List Conjunct :=
  e.filterMap (fun p => p.2.map (fun i => conjunctOf ν (p.1, i)))

/-- the probability of an event in the model `M` under the reading `ν` of the value symbols -/
def probEventOpt (M : Model) (ν : BaseValues) (e : List (Var × Option Iv)) : Rat :=
  prob M (eventConjuncts ν e)

/-- the event holds at the noise point `u` -/
def EventHolds (M : Model) (ν : BaseValues) (u : NoisePoint) (e : List (Var × Option Iv)) : Prop :=
  ∀ p ∈ e, ∀ i, p.2 = some i → solve M u (worldOf ν p.1.ivs) p.1.name = ivValue ν i

/-! ### y0's reading of self-intervened variables

The paper's Algorithm 1 (and y0's own ID*) treat `Y_y = y` as a tautology that is removed from the event and `Y_y = y'`
as impossible.  y0's SIMPLIFY (and the pinned test `test_simplify_y`) instead take `Y_y` to be "the same variable as `Y`":
`Y_{..y..} = y` is read as the event `Y = y` in the world without interventions (`Y_{..y..} = y'` stays impossible).
`y0Read` rewrites an event accordingly; `none` means "impossible by effectiveness". -/

def y0ReadItem (p : Var × Option Iv) : Option (Var × Option Iv) :=
  if p.1.ivs.any (fun i => i.name == p.1.name) then
    match p.2 with
    | none => some ({ name := p.1.name }, none)
    | some i => if p.1.ivs.any (fun j => decide (j = i)) then some ({ name := p.1.name }, some i) else none
  else some p

def y0Read (e : List (Var × Option Iv)) : Option (List (Var × Option Iv)) := e.mapM y0ReadItem

/-! ### value of a factorised expression -/

/-- `Σ` over all assignments of values below `card` to the names `xs`; the assignment is handed to the summand as an
association list (`forced r n` looks a name up) -/
def sumAssign (card : Name → Nat) : List Name → (Do → Rat) → Rat
  | [], F => F []
  | x :: xs, F => ((List.range (card x)).map fun k => sumAssign card xs (fun r => F ((x, k) :: r))).sum

/-- the value a subscript of a factor variable denotes when the names in `r` are bound by the enclosing `Sum` -/
def boundIvValue (ν : BaseValues) (r : Do) (i : Iv) : Nat :=
  if i.star then ivValue ν i else (forced r i.name).getD (ivValue ν i)

/-- the world of a factor variable -/
def boundWorld (ν : BaseValues) (r : Do) (S : List Iv) : Do := S.map fun i => (i.name, boundIvValue ν r i)

/-- the values the factor variable `w` is constrained to: the bound value of its vertex, else the values the returned
event gives it -/
def factorVarValues (ν : BaseValues) (r : Do) (ev : List (Var × Option Iv)) (w : Var) : List Nat :=
  match forced r w.name with
  | some k => [k]
  | none => ev.filterMap fun p => if p.1 = w then p.2.map (ivValue ν) else none

/-- the conjuncts of one factor `P(c_1, …, c_k)` -/
def factorConjuncts (ν : BaseValues) (r : Do) (ev : List (Var × Option Iv)) (F : List Var) : List Conjunct :=
  F.flatMap fun w => (factorVarValues ν r ev w).map fun k =>
    { var := w.name, world := boundWorld ν r w.ivs, val := k }

/-- a factor of the product: `P(c_1, …, c_k)` (no population, no conditioning), or `One` -/
def probValue (M : Model) (ν : BaseValues) (r : Do) (ev : List (Var × Option Iv)) : Expr → Rat
  | .prob none c [] => prob M (factorConjuncts ν r ev c)
  | .one => 1
  | _ => 0

/-- the body of the sum: a product of factors or a single factor -/
def prodValue (M : Model) (ν : BaseValues) (r : Do) (ev : List (Var × Option Iv)) : Expr → Rat
  | .prod fs => (fs.map (probValue M ν r ev)).foldr (· * ·) 1
  | e => probValue M ν r ev e

/-- value of the pair (expression, event) returned by `do_counterfactual_factor_factorization` in the model `M`, under
the reading `ν` of the value symbols, the variable `n` ranging over the values below `card n` -/
def factorisedValue (M : Model) (ν : BaseValues) (card : Name → Nat) (e : Expr) (ev : List (Var × Option Iv)) : Rat :=
  match e with
  | .sum body ranges => sumAssign card (ranges.map (·.name)) (fun r => prodValue M ν r ev body)
  | e => prodValue M ν [] ev e

end Y0.Ctf
