/-
  Y0.Spec.CtfSem — what an `Event` of the counterfactual-transport API (a list of pairs (counterfactual variable,
  `Intervention | None`)) denotes in a functional SCM (Y0/Spec/Fscm.lean): the conjunction of `Y_x = y` over the items
  whose value is not `None`; an item with value `None` puts no constraint.
-/
import Y0.Spec.Fscm

namespace Y0.Ctf
open Y0.Fscm

/-- the conjuncts denoted by an event -/
def eventConjuncts (ν : BaseValues) (e : List (Var × Option Iv)) : List Conjunct :=
  e.filterMap (fun p => p.2.map (fun i => conjunctOf ν (p.1, i)))

/-- the probability of an event in the model `M` under the reading `ν` of the value symbols -/
def probEventOpt (M : Model) (ν : BaseValues) (e : List (Var × Option Iv)) : Rat :=
  prob M (eventConjuncts ν e)

/-- the event holds at the noise point `u` -/
def EventHolds (M : Model) (ν : BaseValues) (u : NoisePoint) (e : List (Var × Option Iv)) : Prop :=
  ∀ p ∈ e, ∀ i, p.2 = some i → solve M u (worldOf ν p.1.ivs) p.1.name = ivValue ν i

end Y0.Ctf
