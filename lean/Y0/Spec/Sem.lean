/-
  Y0.Spec.Sem — what a probability expression of the DSL *means*.

  `den env σ' e σ` is the rational number the expression `e` denotes
    * in the family of distributions `env` (one joint distribution of atomic counterfactual events per
      population; interventional and observational distributions are the single-world special cases),
    * at the value assignment `σ` for unmarked / `-X` variables and `σ'` for `+X` ("starred") variables.

  Reading convention (part of the specification; DESIGN.md 3.3):
    * a variable `X` or `-X` in an event position has the value `σ X`; `+X` has the value `σ' X`;
    * an intervention subscript `-X` (printed `X` after `@`) sets `X := σ X`, `+X` sets `X := σ' X`;
      consequently a subscript whose name is bound by an enclosing `Sum` denotes the bound value;
    * `Sum[R] e` sums over all values (below `env.card`) of the base names in `R`, binding `σ` only;
    * `P(C | Pa)` is `pr(C ∪ Pa) / pr(Pa)`; division is field division (`x / 0 = 0`) — theorems that would
      hold only thanks to that convention carry an explicit non-zero / positivity hypothesis instead.

  Core Lean only: executable.
-/
import Y0.Model.Expr
import Y0.Spec.Prob

namespace Y0

/-- atomic event: variable `name`, in the world where the variables `dos` are set to the given values,
takes the value `val` -/
structure Atom where
  name : Name
  dos : List (Name × Nat)
  val : Nat
  deriving DecidableEq, Repr, Inhabited

/-- the distributions an expression is evaluated against -/
structure Env where
  /-- cardinality of every variable -/
  card : Name → Nat
  /-- probability of a conjunction of atomic events in population `pop` (`none`: the default/target one) -/
  pr : Option Name → List Atom → Rat
  /-- value of an (uninterpreted) Q-factor `Q[domain](codomain)` -/
  q : List Name → List (Name × Nat) → Rat := fun _ _ => 0

def Iv.eval (σ σ' : Val) (i : Iv) : Name × Nat := (i.name, if i.star then σ' i.name else σ i.name)

/-- value of a variable in event position -/
def Var.value (σ σ' : Val) (v : Var) : Nat :=
  match v.star with
  | some true => σ' v.name
  | _ => σ v.name

def Var.atom (σ σ' : Val) (v : Var) : Atom :=
  { name := v.name, dos := v.ivs.map (Iv.eval σ σ'), val := v.value σ σ' }

mutual
/-- denotation of an expression -/
def den (env : Env) (σ' : Val) : Expr → Val → Rat
  | .prob pop c p, σ =>
      env.pr (pop.map (·.name)) ((c ++ p).map (Var.atom σ σ')) / env.pr (pop.map (·.name)) (p.map (Var.atom σ σ'))
  | .prod fs, σ => denProd env σ' fs σ
  | .sum e r, σ => sumVars env.card (r.map (·.name)) (fun τ => den env σ' e τ) σ
  | .frac n d, σ => den env σ' n σ / den env σ' d σ
  | .one, _ => 1
  | .zero, _ => 0
  | .q dom cod, σ => env.q (dom.map (·.name)) (cod.map fun v => (v.name, v.value σ σ'))
/-- denotation of a list of factors: their product -/
def denProd (env : Env) (σ' : Val) : List Expr → Val → Rat
  | [], _ => 1
  | e :: es, σ => den env σ' e σ * denProd env σ' es σ
end

/-- two atoms about the same variable in the same world with different values -/
def Atom.conflicts (a b : Atom) : Bool := a.name == b.name && a.dos == b.dos && a.val != b.val

/-- The laws a family of distributions satisfies (each `pr pop` is a probability measure on the joint
values of all counterfactual variables): the hypotheses of the meaning-preservation theorems. -/
structure ProbFamily (env : Env) : Prop where
  card_pos : ∀ x, 0 < env.card x
  pr_nil : ∀ pop, env.pr pop [] = 1
  pr_nonneg : ∀ pop l, 0 ≤ env.pr pop l
  /-- a conjunction is a set of atomic events -/
  pr_perm : ∀ pop l₁ l₂, l₁.Perm l₂ → env.pr pop l₁ = env.pr pop l₂
  pr_dup : ∀ pop a l, env.pr pop (a :: a :: l) = env.pr pop (a :: l)
  /-- the order in which interventions are listed is irrelevant -/
  pr_dos_perm : ∀ pop (a : Atom) dos' l, a.dos.Perm dos' →
      env.pr pop ({ a with dos := dos' } :: l) = env.pr pop (a :: l)
  /-- a variable takes one value per world -/
  pr_conflict : ∀ pop a b l, a.conflicts b = true → env.pr pop (a :: b :: l) = 0
  /-- marginal consistency: summing out a variable of a world that the rest does not mention -/
  pr_marg : ∀ pop x dos l, (∀ a ∈ l, ¬ (a.name = x ∧ a.dos = dos)) →
      sumRange (env.card x) (fun k => env.pr pop (⟨x, dos, k⟩ :: l)) = env.pr pop l
  /-- values outside the range of a variable have probability zero -/
  pr_range : ∀ pop (a : Atom) l, env.card a.name ≤ a.val → env.pr pop (a :: l) = 0

/-- every conflict-free, in-range conjunction has positive probability -/
def Env.Positive (env : Env) : Prop :=
  ∀ pop l, (∀ a ∈ l, a.val < env.card a.name) → (∀ a ∈ l, ∀ b ∈ l, a.conflicts b = false) → 0 < env.pr pop l

end Y0
