/-
  Y0.Spec.FamilySpec — multi-domain model families compatible with selection diagrams: the class of configurations
  properties C05 (TRSO) and C09 (ctfTRu / ctfTR) quantify over.  Complements Y0.Spec.Scm (`Family`, `Family.env`).
  Short and meant to be read; independent of the executable models.

  * the target domain is population `none`; the tag "pi*" that transport estimands carry (`targetTag`) reads the same
    model;
  * a source domain `π` is given with the set `Δ_π` of variables at which it MAY DIFFER from the target (the variables its
    selection diagram marks with a selection node): its model has the same cardinalities, the same latent variables
    with the same priors and the same latent parents, and the same kernel `P(v | pa(v), latents(v))` at every variable
    outside `Δ_π`.  At the variables in `Δ_π` the kernel is arbitrary (positive, normalised, local — `Compatible`).
    (Differences in a latent's distribution are not modelled separately: a latent shared by two variables would make
    both of them differ; a private noise term is part of the kernel.)
  * `PP[π](… @ z)` leaves of an estimand are read by `Family.env` from the model of `π` under `do(z)` (Y0.Spec.Sem).
  * `MayDiffer G Z W` is where the domain derived from the surrogate experiment "do(Z), observe W" may differ
    (Tikka & Karvanen, as restated in y0's docstring): descendants of `Z` other than `W`, and the members of the
    c-components of `W` that are not ancestors of `W` once the edges into `Z` are cut.
-/
import Y0.Spec.Scm
import Y0.Spec.GraphSpec

namespace Y0

/-- the population tag "pi*" (`TARGET_DOMAIN`) in the harness's name table -/
def targetTag : Name := 1000

/-- the model of source domain `π` agrees with the target model `T` except for the mechanisms of the variables in `Δ` -/
structure AgreesExceptAt (G : MG Name) (T S : Scm) (Δ : List Name) : Prop where
  card : S.card = T.card
  lat : S.lat = T.lat
  prior : S.prior = T.prior
  latOf : S.latOf = T.latOf
  kern : ∀ v ∈ G.nodes, v ∉ Δ → S.kern v = T.kern v

/-- `F` is a family over the ADMG `G` consistent with the selection marks `Δ` (one entry per source domain) -/
structure Family.SelectionCompatible (F : Family) (G : MG Name) (Δ : List (Name × List Name)) : Prop where
  graph : ∀ pop, F.graph pop = G
  target : (F.dom none).Compatible G
  target_tag : F.dom (some targetTag) = F.dom none
  source : ∀ p ∈ Δ, (F.dom (some p.1)).Compatible G ∧ AgreesExceptAt G (F.dom none) (F.dom (some p.1)) p.2

/-- where the domain of the surrogate experiment `do(Z)` with surrogate outcomes `W` may differ from the target -/
def MayDiffer (G : MG Name) (Z W : List Name) (v : Name) : Prop :=
  (G.Desc Z v ∧ v ∉ W) ∨ ((∃ w ∈ W, G.SameDistrict w v) ∧ ¬ (G.removeInEdges Z).Anc W v)

/-- the target effect `P*(y | do(x))` as a function of the value assignment -/
def Family.targetEffect (F : Family) (G : MG Name) (X Y : List Name) : Val → Rat := (F.dom none).doProb G X Y

end Y0
