/-
  Y0.Spec.LatentSpec — relational definitions property C16 is stated with.  Independent of the
  executable rules of `Y0.Model.Latent` (only the record `LV` is shared); short and meant to be read.

  A latent-variable DAG `D` is a directed graph with a set of nodes tagged latent; the others are
  observed.  Its LATENT PROJECTION is the mixed graph on the observed nodes with

    u → v   iff  there is a directed path u → l₁ → … → lₖ → v (k ≥ 0) whose inner nodes are all latent,
    u ↔ v   iff  u ≠ v and some latent l has such latent-only directed paths to both u and v.
-/
import Y0.Model.Latent
import Y0.Spec.GraphSpec
import Mathlib.Logic.Relation

namespace Y0.LV

def Edge (D : LV) (a b : Nat) : Prop := (a, b) ∈ D.edges
def Latent (D : LV) (v : Nat) : Prop := v ∈ D.latent
def Observed (D : LV) (v : Nat) : Prop := v ∈ D.nodes ∧ v ∉ D.latent

/-- a directed path `a → l₁ → … → lₖ → b`, `k ≥ 0`, every inner node `lᵢ` latent -/
inductive LatPath (D : LV) : Nat → Nat → Prop
  | edge {a b : Nat} : D.Edge a b → LatPath D a b
  | cons {a l b : Nat} : D.Edge a l → D.Latent l → LatPath D l b → LatPath D a b

/-- directed edge of the latent projection -/
def ProjDi (D : LV) (u v : Nat) : Prop := D.Observed u ∧ D.Observed v ∧ D.LatPath u v

/-- bidirected edge of the latent projection -/
def ProjBi (D : LV) (u v : Nat) : Prop :=
  u ≠ v ∧ D.Observed u ∧ D.Observed v ∧ ∃ l, D.Latent l ∧ D.LatPath l u ∧ D.LatPath l v

/-- the mixed graph `G` is the latent projection of `D` onto its observed nodes -/
structure IsProjection (D : LV) (G : MG Nat) : Prop where
  nodes : ∀ v, v ∈ G.nodes ↔ D.Observed v
  di : ∀ u v, G.DiEdge u v ↔ D.ProjDi u v
  bi : ∀ u v, G.BiEdge u v ↔ D.ProjBi u v

/-- two LV-DAGs have the same observed nodes and the same latent projection -/
structure SameProj (D D' : LV) : Prop where
  obs : ∀ v, D'.Observed v ↔ D.Observed v
  di : ∀ u v, D'.ProjDi u v ↔ D.ProjDi u v
  bi : ∀ u v, D'.ProjBi u v ↔ D.ProjBi u v

/-- what building an `nx.DiGraph` with a boolean tag on every node guarantees -/
structure WF (D : LV) : Prop where
  nodes_nodup : D.nodes.Nodup
  edges_nodup : D.edges.Nodup
  edge_mem : ∀ e ∈ D.edges, e.1 ∈ D.nodes ∧ e.2 ∈ D.nodes
  latent_mem : ∀ l ∈ D.latent, l ∈ D.nodes
  tagged : D.untagged = []

/-- no directed cycle -/
def Acyclic (D : LV) : Prop := ∀ v, ¬ Relation.TransGen D.Edge v v

/-- the shape Evans' rules 1 and 2 establish: no edge points at a latent
(every latent is exogenous and all its children are observed) -/
def Flat (D : LV) : Prop := ∀ e ∈ D.edges, e.2 ∉ D.latent

/-- fully simplified: flat, every latent has at least two children, and no latent's child set is
contained in another's (ties broken towards the smaller name) -/
structure Simplified (D : LV) : Prop where
  flat : D.Flat
  two : ∀ l ∈ D.latent, 2 ≤ (D.children l).length
  irredundant : ∀ l ∈ D.latent, ∀ r ∈ D.latent,
    (∀ c ∈ D.children l, c ∈ D.children r) → l ≤ r ∧ ∀ c ∈ D.children r, c ∈ D.children l

end Y0.LV
