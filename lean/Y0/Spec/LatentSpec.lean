/-
  Y0.Spec.LatentSpec — relational definitions property C16 is stated with.  Independent of the
  executable rules of `Y0.Model.Latent` (only the record `LV` is shared); short and meant to be read.

  A latent-variable DAG `D` is a directed graph with a set of nodes tagged latent; the others are
  observed.  Its LATENT PROJECTION is the mixed graph on the observed nodes with

    u → v   iff  there is a directed path u → l₁ → … → lₖ → v (k ≥ 0) whose inner nodes are all latent,
    u ↔ v   iff  u ≠ v and some latent l has such latent-only directed paths to both u and v.
-/
import Y0.Model.Latent
import Y0.Spec.GraphSpec
import Mathlib.Logic.Relation

namespace Y0.LV

def Edge (D : LV) (a b : Nat) : Prop := (a, b) ∈ D.edges
def Latent (D : LV) (v : Nat) : Prop := v ∈ D.latent
def Observed (D : LV) (v : Nat) : Prop := v ∈ D.nodes ∧ v ∉ D.latent

/-- a directed path `a → l₁ → … → lₖ → b`, `k ≥ 0`, every inner node `lᵢ` latent -/
inductive LatPath (D : LV) : Nat → Nat → Prop
  | edge {a b : Nat} : D.Edge a b → LatPath D a b
  | cons {a l b : Nat} : D.Edge a l → D.Latent l → LatPath D l b → LatPath D a b

/-- directed edge of the latent projection -/
def ProjDi (D : LV) (u v : Nat) : Prop := D.Observed u ∧ D.Observed v ∧ D.LatPath u v

/-- bidirected edge of the latent projection -/
def ProjBi (D : LV) (u v : Nat) : Prop :=
  u ≠ v ∧ D.Observed u ∧ D.Observed v ∧ ∃ l, D.Latent l ∧ D.LatPath l u ∧ D.LatPath l v

/-- the mixed graph `G` is the latent projection of `D` onto its observed nodes -/
structure IsProjection (D : LV) (G : MG Nat) : Prop where
  nodes : ∀ v, v ∈ G.nodes ↔ D.Observed v
  di : ∀ u v, G.DiEdge u v ↔ D.ProjDi u v
  bi : ∀ u v, G.BiEdge u v ↔ D.ProjBi u v

/-- two LV-DAGs have the same observed nodes and the same latent projection -/
structure SameProj (D D' : LV) : Prop where
  obs : ∀ v, D'.Observed v ↔ D.Observed v
  di : ∀ u v, D'.ProjDi u v ↔ D.ProjDi u v
  bi : ∀ u v, D'.ProjBi u v ↔ D.ProjBi u v

/-- what building an `nx.DiGraph` with a boolean tag on every node guarantees -/
structure WF (D : LV) : Prop where
  nodes_nodup : D.nodes.Nodup
  edges_nodup : D.edges.Nodup
  edge_mem : ∀ e ∈ D.edges, e.1 ∈ D.nodes ∧ e.2 ∈ D.nodes
  latent_mem : ∀ l ∈ D.latent, l ∈ D.nodes
  tagged : D.untagged = []

/-- no directed cycle -/
def Acyclic (D : LV) : Prop := ∀ v, ¬ Relation.TransGen D.Edge v v

/-- the shape Evans' rules 1 and 2 establish: no edge points at a latent
(every latent is exogenous and all its children are observed) -/
def Flat (D : LV) : Prop := ∀ e ∈ D.edges, e.2 ∉ D.latent

/-- fully simplified: flat, every latent has at least two children, and no latent's child set is
contained in another's (ties broken towards the smaller name) -/
structure Simplified (D : LV) : Prop where
  flat : D.Flat
  two : ∀ l ∈ D.latent, 2 ≤ (D.children l).length
  irredundant : ∀ l ∈ D.latent, ∀ r ∈ D.latent,
    (∀ c ∈ D.children l, c ∈ D.children r) → l ≤ r ∧ ∀ c ∈ D.children r, c ∈ D.children l

/-! ### d-connection inside the LV-DAG (walk / "Bayes-ball" formulation)

`Z` is the conditioning set.  A d-connecting walk from `a` may traverse an edge in either direction;
at an inner node `x` of the walk
  * if both walk edges point into `x` (a collider) then `x` must be in `Z` or have a descendant in `Z`,
  * otherwise (chain or fork) `x` must not be in `Z`.
`Reach D Z a x down` says: some such walk from `a` has arrived at `x`, along an edge pointing into `x`
(`down = true`) or out of `x` (`down = false`).  This is the standard walk formulation of d-connection;
it agrees with the path formulation `MG.MConnPath` of Spec/SepSpec.lean (a d-connecting walk can be
shortened to a d-connecting path): `dconn_walk_iff_path` / `mconn_walk_iff_path` in Props/C16.lean. -/

/-- `x ∈ Z` or `x` has a directed path into `Z` -/
def AnZ (D : LV) (Z : Nat → Prop) (x : Nat) : Prop := ∃ z, Z z ∧ Relation.ReflTransGen D.Edge x z

inductive Reach (D : LV) (Z : Nat → Prop) (a : Nat) : Nat → Bool → Prop
  | startDown {c : Nat} : D.Edge a c → Reach D Z a c true
  | startUp {p : Nat} : D.Edge p a → Reach D Z a p false
  | chainDown {x c : Nat} : Reach D Z a x true → ¬ Z x → D.Edge x c → Reach D Z a c true
  | collider {x p : Nat} : Reach D Z a x true → D.AnZ Z x → D.Edge p x → Reach D Z a p false
  | chainUp {x p : Nat} : Reach D Z a x false → ¬ Z x → D.Edge p x → Reach D Z a p false
  | fork {x c : Nat} : Reach D Z a x false → ¬ Z x → D.Edge x c → Reach D Z a c true

/-- `a` and `b` are d-connected given `Z` -/
def DConn (D : LV) (Z : Nat → Prop) (a b : Nat) : Prop := ∃ s, Reach D Z a b s

/-- the same d-connection statements hold among the observed nodes of `D` in `D` and in `D'`,
for every observed conditioning set -/
def SameSep (D D' : LV) : Prop :=
  ∀ (Z : Nat → Prop) (a b : Nat), (∀ z, Z z → D.Observed z) → D.Observed a → D.Observed b → a ≠ b →
    (D'.DConn Z a b ↔ D.DConn Z a b)

/-! ### m-connection in the projected mixed graph (walk formulation)

The same walk discipline on a mixed graph `G` with directed and bidirected edges: an inner node is a
collider when both walk edges have an arrowhead at it (`→ x ←`, `→ x ↔`, `↔ x ←`, `↔ x ↔`).
`MixedReach G Z a x head`: a walk from `a` has arrived at `x` along an edge with an arrowhead at `x`
(`head = true`) or a tail at `x` (`head = false`).  Ancestors are taken along directed edges only. -/

def AnZMixed (G : MG Nat) (Z : Nat → Prop) (x : Nat) : Prop := ∃ z, Z z ∧ Relation.ReflTransGen G.DiEdge x z

inductive MixedReach (G : MG Nat) (Z : Nat → Prop) (a : Nat) : Nat → Bool → Prop
  | startDown {c : Nat} : G.DiEdge a c → MixedReach G Z a c true
  | startUp {p : Nat} : G.DiEdge p a → MixedReach G Z a p false
  | startBi {c : Nat} : G.BiEdge a c → MixedReach G Z a c true
  | chainDown {x c : Nat} : MixedReach G Z a x true → ¬ Z x → G.DiEdge x c → MixedReach G Z a c true
  | colliderUp {x p : Nat} : MixedReach G Z a x true → AnZMixed G Z x → G.DiEdge p x → MixedReach G Z a p false
  | colliderBi {x y : Nat} : MixedReach G Z a x true → AnZMixed G Z x → G.BiEdge x y → MixedReach G Z a y true
  | chainUp {x p : Nat} : MixedReach G Z a x false → ¬ Z x → G.DiEdge p x → MixedReach G Z a p false
  | fork {x c : Nat} : MixedReach G Z a x false → ¬ Z x → G.DiEdge x c → MixedReach G Z a c true
  | tailBi {x y : Nat} : MixedReach G Z a x false → ¬ Z x → G.BiEdge x y → MixedReach G Z a y true

/-- `a` and `b` are m-connected given `Z` in the mixed graph `G` -/
def MConnMixed (G : MG Nat) (Z : Nat → Prop) (a b : Nat) : Prop := ∃ s, MixedReach G Z a b s

end Y0.LV
