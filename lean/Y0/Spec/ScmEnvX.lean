/-
  Y0.Spec.ScmEnvX — a TOTAL family of distributions for a semi-Markovian model (`Scm`, Y0/Spec/Scm.lean).

  `M.env G` (Spec/Scm.lean) gives every conjunction of atoms that all carry literally the same `dos` list its
  interventional probability `P_{do(dos)}(…)` (truncated factorisation) and returns 0 for everything else, so it
  does NOT satisfy the laws `ProbFamily` (Spec/Sem.lean) that the meaning-preservation theorems of C10/C12/C13
  quantify over: marginal consistency fails across worlds, for ill-formed worlds and for variables outside the
  graph, and `dos` lists are compared literally.

  `M.envX G` is the extension of the same single-world distributions to ALL conjunctions:

      prX l  =  Π_{worlds D of l}  P_{do(D)}( the atoms of l that live in world D )

  i.e. the coupling in which different worlds are INDEPENDENT.  A semi-Markovian model (kernels, no mechanisms) does
  not determine a joint distribution across worlds; any coupling with the right single-world marginals is a legitimate
  member of "all families of distributions", and the product coupling is the one that needs no further data.
    * worlds are identified by their canonical form `kdos` : the bindings of `Fscm.normDo card dos`
      (out-of-range bindings ignored, least in-range value per variable) of NODES of `G`, in node order;
    * an atom about a variable that is not a node of `G` reads the constant 0;
    * an atom with an out-of-range value has probability 0.
  `Lemmas/ScmEnvXLaws.lean`: `envX_probFamily` (all laws of `ProbFamily`, for every compatible `M`, `G` well formed
  and acyclic).  `Lemmas/ScmEnvXAgree.lean`: `envX_pr_eq_env` — on conjunctions in one well-formed world about nodes
  of `G` with in-range values (what single-world, well-scoped expressions denote) `M.envX G` IS `M.env G`.

  Core Lean only: executable.
-/
import Y0.Spec.Scm
import Y0.Spec.FscmEnv

namespace Y0
namespace Scm

/-- canonical form of the world `d` relative to `G`: the bindings of nodes in `normDo card d`, in node order -/
def kdos (card : Name → Nat) (G : MG Name) (d : List (Name × Nat)) : List (Name × Nat) :=
  G.nodes.filterMap fun v => (Fscm.forced (Fscm.normDo card d) v).map fun x => (v, x)

/-- de-duplication (keeps last occurrences) -/
def udedup {α} [DecidableEq α] : List α → List α
  | [] => []
  | a :: l => if a ∈ udedup l then udedup l else a :: udedup l

/-- the events `pw` accepts: values in range; variables outside the graph read 0 -/
def evOK (M : Scm) (G : MG Name) (ev : List (Name × Nat)) : Bool :=
  ev.all fun p => decide (p.2 < M.card p.1) && (decide (p.1 ∈ G.nodes) || p.2 == 0)

/-- probability of the partial assignment `ev` in the (canonical) world `D` -/
def pw (M : Scm) (G : MG Name) (D ev : List (Name × Nat)) : Rat :=
  if evOK M G ev then M.prDo G D (ev.filter fun p => decide (p.1 ∈ G.nodes)) else 0

/-- the part of the conjunction `l` that lives in world `D`, as a partial assignment -/
def evOf (card : Name → Nat) (G : MG Name) (D : List (Name × Nat)) (l : List Atom) : List (Name × Nat) :=
  (l.filter fun a => decide (kdos card G a.dos = D)).map fun a => (a.name, a.val)

/-- product over the worlds of `l` -/
def prX (M : Scm) (G : MG Name) (l : List Atom) : Rat :=
  ((udedup (l.map fun a => kdos M.card G a.dos)).map fun D => pw M G D (evOf M.card G D l)).prod

/-- **the total environment of a semi-Markovian model** (independent worlds) -/
def envX (M : Scm) (G : MG Name) : Env := { card := M.card, pr := fun _ l => M.prX G l }

end Scm
end Y0
