/-
  Y0.Spec.Prob — finite sums over value assignments: the arithmetic every semantic specification
  (denotation of expressions, structural causal models) is written in.

  Core Lean only (`Rat` is core), so the same definitions are executable in the driver and usable with
  Mathlib's lemmas in `Y0/Lemmas/Prob.lean`.  Short and meant to be read.
-/
import Y0.Model.Basic

namespace Y0

/-- a total assignment of a value (a natural number below the variable's cardinality) to every name -/
abbrev Val := Name → Nat

/-- `σ[x ↦ k]` -/
def Val.set (σ : Val) (x : Name) (k : Nat) : Val := fun y => if y = x then k else σ y

/-- `σ[x₁ ↦ k₁, …]`, later pairs win -/
def Val.setMany (σ : Val) : List (Name × Nat) → Val
  | [] => σ
  | (x, k) :: r => Val.setMany (σ.set x k) r

/-- `Σ_{k < n} f k` -/
def sumRange (n : Nat) (f : Nat → Rat) : Rat := ((List.range n).map f).sum

/-- `Σ_x f`: sum over the values of one variable -/
def sumVar (card : Name → Nat) (x : Name) (f : Val → Rat) (σ : Val) : Rat :=
  sumRange (card x) (fun k => f (σ.set x k))

/-- `Σ_{x₁,…,xₙ} f`: iterated sum over a list of variables (first variable outermost) -/
def sumVars (card : Name → Nat) : List Name → (Val → Rat) → Val → Rat
  | [], f => f
  | x :: xs, f => sumVar card x (sumVars card xs f)

/-- `f` depends on the assignment only through the variables in `S` -/
def DependsOnly (f : Val → Rat) (S : List Name) : Prop :=
  ∀ σ τ : Val, (∀ v ∈ S, σ v = τ v) → f σ = f τ

/-- `f` does not depend on `x` -/
def IndepOf (f : Val → Rat) (x : Name) : Prop := ∀ (σ : Val) (k : Nat), f (σ.set x k) = f σ

/-- all assignments to the variables `xs` (values below their cardinalities), as override lists -/
def allAssignments (card : Name → Nat) : List Name → List (List (Name × Nat))
  | [] => [[]]
  | x :: xs => (List.range (card x)).flatMap fun k => (allAssignments card xs).map fun a => (x, k) :: a

end Y0
