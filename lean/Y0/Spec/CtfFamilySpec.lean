/-
  Y0.Spec.CtfFamilySpec — multi-domain families of FUNCTIONAL structural causal models compatible with the selection
  diagrams of a counterfactual-transportability query: the class of configurations property C09 (ctfTRu / ctfTR)
  quantifies over.  Complements Y0.Spec.Fscm (`Fscm.Model`, `prob`), Y0.Spec.FscmToScm (`toScm`) and Y0.Spec.Scm
  (`Family`, `Family.env`).  Short and meant to be read; independent of the executable models of the Python code.

  * one functional SCM for the target domain `π*` and one per source-domain tag; all share the cardinalities `card` and
    the offset `base` above which the exogenous variables are named;
  * a source domain `π` is declared with a selection diagram `G_π` (the target's variables plus selection nodes `T_v`)
    and a set `Δ_π` of variables at which it MAY DIFFER from the target: the children of its selection nodes and its
    policy variables.  `AgreesOutside`: the two models have the same exogenous variables with the same distributions,
    and every variable outside `Δ_π` has the same mechanism (same observed arguments, same exogenous arguments, same
    function).  At the variables in `Δ_π` the mechanism is arbitrary (any function of any observed and exogenous
    arguments that `Compatible` with `G_π` allows).  A source domain in which a variable of `Δ_π` has a different
    NOISE DISTRIBUTION is represented by listing the source's extra exogenous variables in the common `noise` list: the
    target model simply does not read them (an exogenous variable that no mechanism reads is allowed and does not
    change any probability), the source's mechanism at that variable reads them instead of the target's.
  * selection nodes are markers, not causes: in the model of a source domain a selection node is a constant with one
    value, and no mechanism reads it (`SelectionInert`);
  * the distributions an answer is evaluated on (`FscmFamily.env`): the population tag `π` of a leaf `P^π(…)` reads the
    single-world (observational / interventional) distributions of the semi-Markovian model induced by the functional
    model of `π` (`toScm`; `fscm_toScm_prDo` in Y0/Lemmas/FscmToScm.lean shows these ARE the distributions of the
    functional model);
  * `Model.cfactor M C τ` is Tian's c-factor `Q[C](τ) = P_{do(V ∖ C := τ)}(C = τ)` of a functional SCM.
-/
import Y0.Spec.Fscm
import Y0.Spec.FscmEnv
import Y0.Spec.FscmToScm
import Y0.Spec.Scm

namespace Y0
namespace Fscm

/-- the world in which the variables `X` are held at their values in `ρ` -/
def doAt (X : List Name) (ρ : Val) : Do := X.map fun x => (x, ρ x)

/-- **Tian's c-factor of a functional SCM**: `Q[C](τ)`, the probability that every variable of `C` takes its value in
`τ` when all other observed variables are held at their values in `τ` -/
def Model.cfactor (M : Model) (C : List Name) (τ : Val) : Rat :=
  prob M (C.map fun v => (⟨v, doAt (M.order.filter fun x => decide (x ∉ C)) τ, τ v⟩ : Conjunct))

/-- the model `S` of a source domain agrees with the target model `T` except for the mechanisms of the variables in `Δ` -/
structure AgreesOutside (T S : Model) (Δ : List Name) : Prop where
  noise : S.noise = T.noise
  pa : ∀ v ∈ T.order, v ∉ Δ → S.pa v = T.pa v
  lat : ∀ v ∈ T.order, v ∉ Δ → S.lat v = T.lat v
  f : ∀ v ∈ T.order, v ∉ Δ → S.f v = T.f v

/-- selection nodes (`sel`) are constants with a single value that no mechanism reads -/
structure SelectionInert (S : Model) (card : Name → Nat) (sel : List Name) : Prop where
  card_one : ∀ t ∈ sel, card t = 1
  no_pa : ∀ t ∈ sel, S.pa t = []
  no_lat : ∀ t ∈ sel, S.lat t = []
  unread : ∀ v, ∀ t ∈ sel, t ∉ S.pa v

/-- `M` is a positive, normalised functional SCM over the diagram `G` with cardinalities `card`, whose exogenous
variables are named `base + j` (the hypotheses under which `M.toScm card base` is a positive semi-Markovian model
compatible with `G`, Y0/Lemmas/FscmToScmCompat.lean) -/
structure Proper (M : Model) (card : Name → Nat) (base : Nat) (G : MG Name) : Prop where
  wf : WellFormed M card
  compat : Compatible M G
  base_gt : ∀ v ∈ M.order, v < base
  lat_lt : ∀ v, ∀ j ∈ M.lat v, j < M.noise.length
  lat_nodup : ∀ v, (M.lat v).Nodup
  normalised : M.Normalised
  /-- positivity: every value of every variable has positive conditional probability -/
  kern_pos : ∀ v ∈ M.order, ∀ σ, 0 < M.kernOf card base v σ

/-- what is declared about one source domain: its population tag, its selection diagram, the variables at which it
may differ from the target (children of selection nodes, policy variables) and its selection nodes -/
structure DomainDecl where
  tag : Name
  graph : MG Name
  differs : List Name
  sel : List Name

/-- a multi-domain family of functional SCMs -/
structure FscmFamily where
  /-- the model of the target domain `π*` -/
  target : Model
  /-- the model of the source domain with the given population tag -/
  source : Name → Model
  /-- cardinality of every observed variable (shared by all domains) -/
  card : Name → Nat
  /-- names `base + j` are the exogenous variables -/
  base : Nat
  /-- the tag that denotes the target domain itself (`TARGET_DOMAIN`) -/
  targetTag : Name

namespace FscmFamily

/-- the model a population tag reads (`none`: the target) -/
def model (F : FscmFamily) : Option Name → Model
  | none => F.target
  | some p => if p = F.targetTag then F.target else F.source p

/-- the induced family of semi-Markovian models, each with its (selection) diagram -/
def toFamily (F : FscmFamily) (graphs : Option Name → MG Name) : Family :=
  { dom := fun pop => (F.model pop).toScm F.card F.base, graph := graphs }

/-- **the declared domain distributions**: a leaf `P^π(…)` reads the distributions of the model of `π` -/
def env (F : FscmFamily) (graphs : Option Name → MG Name) : Env := (F.toFamily graphs).env

/-- **`F` is compatible with the target diagram `G` and the declared source domains.** -/
structure CompatibleWith (F : FscmFamily) (G : MG Name) (graphs : Option Name → MG Name) (decls : List DomainDecl) :
    Prop where
  target : Proper F.target F.card F.base G
  target_graph : graphs none = G
  source : ∀ d ∈ decls, Proper (F.model (some d.tag)) F.card F.base d.graph ∧ graphs (some d.tag) = d.graph ∧
    AgreesOutside F.target (F.model (some d.tag)) d.differs ∧ SelectionInert (F.model (some d.tag)) F.card d.sel

end FscmFamily

end Fscm
end Y0
