/-
  Y0.Spec.SepSpec — what "separated" means, independently of the executable models.
  Short and meant to be read; nothing here mentions lists of edges being folded or closures with fuel.

  1. `MG.AugSeparated`  : the graphical criterion the (fixed) code implements — no connection between `a` and `b`
                           in the augmented ancestral graph with the conditioned nodes deleted.
  2. `MG.MConnPath`      : the textbook definition — an m-connecting *path* (no repeated node): every collider on it
                           is an ancestor of `C`, every non-collider is outside `C`.  `MG.MConnWalk` drops "no
                           repeated node"; `MG.MWalk` is the same notion as an inductive predicate (proof-friendly).
  3. `MG.dagOf`          : the canonical DAG of an ADMG — every bidirected edge replaced by a fresh latent common
                           parent; d-connection in a DAG is m-connection in a graph without bidirected edges.
-/
import Y0.Spec.GraphSpec
import Mathlib.Data.List.Chain

namespace Y0.MG
variable {α : Type}

/-! ### 1. the augmented ancestral graph -/

/-- `u` and `v` are joined by some edge -/
def Adj (G : MG α) (u v : α) : Prop := G.DiEdge u v ∨ G.DiEdge v u ∨ G.BiEdge u v

/-- a bidirected edge inside the node set `P` -/
def BiIn (G : MG α) (P : α → Prop) (x y : α) : Prop := G.BiEdge x y ∧ P x ∧ P y

/-- `u` and `v` are adjacent in the augmented graph of the sub-graph induced by `P`: joined by an edge, or by a
path on which every inner node is a collider, i.e. `u (= or →) x ↔ … ↔ y (= or ←) v` inside `P` -/
def AugEdge (G : MG α) (P : α → Prop) (u v : α) : Prop :=
  P u ∧ P v ∧ (G.Adj u v ∨
    ∃ x y, P x ∧ P y ∧ Relation.ReflTransGen (G.BiIn P) x y ∧ (u = x ∨ G.DiEdge u x) ∧ (v = y ∨ G.DiEdge v y))

/-- one step in the augmented ancestral graph of `{a, b} ∪ C` with the nodes of `C` deleted -/
def AugStep (G : MG α) (a b : α) (C : List α) (u v : α) : Prop :=
  G.AugEdge (G.Anc (a :: b :: C)) u v ∧ u ∉ C ∧ v ∉ C

/-- `a` and `b` are connected in the augmented ancestral graph minus `C` -/
def AugConnected (G : MG α) (a b : α) (C : List α) : Prop := Relation.ReflTransGen (G.AugStep a b C) a b

/-- the separation criterion of Lauritzen et al. / Richardson: not connected in `((G_An)^a) ∖ C` -/
def AugSeparated (G : MG α) (a b : α) (C : List α) : Prop := ¬ G.AugConnected a b C

/-! ### 2. m-connecting paths and walks -/

/-- the mark of an edge at one of its endpoints -/
inductive Mark where
  | tail
  | head
  deriving DecidableEq, Repr

/-- `EdgeM G u mu mv v`: an edge of `G` between `u` and `v` carrying mark `mu` at `u` and `mv` at `v`
(`u → v`, `u ← v`, `u ↔ v`) -/
inductive EdgeM (G : MG α) : α → Mark → Mark → α → Prop where
  | fwd {u v : α} : G.DiEdge u v → EdgeM G u .tail .head v
  | bwd {u v : α} : G.DiEdge v u → EdgeM G u .head .tail v
  | bi {u v : α} : G.BiEdge u v → EdgeM G u .head .head v

/-- one traversed edge of a walk -/
structure Step (α : Type) where
  src : α
  ms : Mark
  md : Mark
  dst : α

/-- two consecutive steps meet at a node that does not block the walk given `C`: a collider (both marks there
are arrowheads) must be an ancestor of `C` (or in `C`), any other node must be outside `C` -/
def OpenAt (G : MG α) (C : List α) (s t : Step α) : Prop :=
  s.dst = t.src ∧ ((s.md = .head ∧ t.ms = .head → G.Anc C s.dst) ∧ (¬ (s.md = .head ∧ t.ms = .head) → s.dst ∉ C))

/-- `p` is a walk of `G` from `a` to `b` that is open given `C` -/
def IsOpenWalk (G : MG α) (C : List α) (a b : α) (p : List (Step α)) : Prop :=
  (∀ s ∈ p, G.EdgeM s.src s.ms s.md s.dst) ∧ p.head?.map Step.src = some a ∧ p.getLast?.map Step.dst = some b ∧
    List.IsChain (G.OpenAt C) p

/-- m-connected by a walk (nodes may repeat) -/
def MConnWalk (G : MG α) (a b : α) (C : List α) : Prop :=
  a ∉ C ∧ b ∉ C ∧ ∃ p, G.IsOpenWalk C a b p

/-- m-connected by a path: the walk visits no node twice.  This is the textbook definition of
"not m-separated" (for a DAG: "not d-separated"). -/
def MConnPath (G : MG α) (a b : α) (C : List α) : Prop :=
  a ∉ C ∧ b ∉ C ∧ ∃ p, G.IsOpenWalk C a b p ∧ (a :: p.map Step.dst).Nodup

/-- the same as `IsOpenWalk`, as an inductive predicate: `MWalk G C a y m` — an open walk from `a` to `y` whose last
edge has mark `m` at `y` (`none`: the empty walk at `a`) -/
inductive MWalk (G : MG α) (C : List α) (a : α) : α → Option Mark → Prop where
  | nil : MWalk G C a a none
  | snoc {y z : α} {m : Option Mark} {my mz : Mark} :
      MWalk G C a y m → G.EdgeM y my mz z →
      (m = some .head ∧ my = .head → G.Anc C y) →
      (m ≠ none → ¬ (m = some .head ∧ my = .head) → y ∉ C) →
      MWalk G C a z (some mz)

/-! ### 3. the canonical DAG -/

/-- node of the canonical DAG: an observed node, or the latent parent standing for a bidirected edge -/
inductive LNode (α : Type) where
  | obs (v : α)
  | lat (e : α × α)
  deriving DecidableEq, Repr

/-- the canonical DAG of `G`: same directed edges, and for every stored bidirected edge `e = (u, v)` a fresh
node `lat e` with `lat e → u`, `lat e → v`; no bidirected edges -/
def dagOf (G : MG α) : MG (LNode α) where
  nodes := G.nodes.map .obs ++ G.bi.map .lat
  di := G.di.map (fun e => (.obs e.1, .obs e.2)) ++ G.bi.flatMap (fun e => [(.lat e, .obs e.1), (.lat e, .obs e.2)])
  bi := []

/-- d-connection in the canonical DAG: an open path between the two observed nodes given the observed `C` -/
def DConnCanonical (G : MG α) (a b : α) (C : List α) : Prop :=
  G.dagOf.MConnPath (.obs a) (.obs b) (C.map .obs)

end Y0.MG
