/-
  Y0.Spec.FscmEnv — the family of distributions (`Env`, Y0/Spec/Sem.lean) induced by a functional structural
  causal model (`Fscm.Model`, Y0/Spec/Fscm.lean).

  `(M.fscmEnv card).pr pop atoms` is the total mass of the exogenous-noise points `u` on which EVERY atom holds,

        solve M u (world of atom.dos) atom.name = atom.val ,

  i.e. the joint distribution over ALL counterfactual variables: all worlds share the same `u`.  This is the
  environment in which the meaning-preservation theorems of C10 / C12 / C13 (stated for every `ProbFamily env`)
  speak about the distributions of actual causal models (`Lemmas/FscmEnvLaws.lean`: `fscmEnv_probFamily`).

  Worlds.  An atom carries its world as a raw list `dos : List (Name × Nat)` that comes from evaluating
  intervention subscripts at a valuation, so it may be ill formed in two ways the laws of `ProbFamily` are
  sensitive to:
    * a binding `(x, k)` with `k ≥ card x` ("set X to something that is not a value of X");
    * two bindings of the same variable with different values (`X_{x, x'}`).
  `normDo card dos` is the world such a list denotes BY CONVENTION: out-of-range bindings are ignored, and among
  several in-range bindings of one variable the smallest value wins.  The convention is invisible on well-formed
  lists: `DoValid card dos → normDo card dos = dos` (`Lemmas/FscmEnv.lean: normDo_of_valid`), where the probability
  is `Fscm.prob` verbatim (`fscmEnv_pr_valid`).  `fscmEnvRaw` is the environment WITHOUT the convention
  (first binding wins, as in `Fscm.forced`); it satisfies the laws of `ProbFamily` only on valid worlds
  (`Lemmas/FscmEnvLaws.lean`, section "raw").

  Core Lean only: executable (the driver evaluates it, `Y0/Driver/Sem.lean`).
-/
import Y0.Spec.Fscm
import Y0.Spec.Sem

namespace Y0
namespace Fscm

/-- the bindings of `d` that count: in range, and minimal among the in-range bindings of the same variable -/
def normDo (card : Name → Nat) (d : Do) : Do :=
  d.filter fun p =>
    decide (p.2 < card p.1) && d.all fun q => !(decide (q.1 = p.1) && decide (q.2 < card q.1)) || decide (p.2 ≤ q.2)

/-- a well-formed world: every binding in range, at most one value per variable -/
def DoValid (card : Name → Nat) (d : Do) : Prop :=
  (∀ p ∈ d, p.2 < card p.1) ∧ ∀ p ∈ d, ∀ q ∈ d, p.1 = q.1 → p.2 = q.2

instance (card : Name → Nat) (d : Do) : Decidable (DoValid card d) := by unfold DoValid; infer_instance

/-- the conjunct an atom denotes (world normalised) -/
def atomConj (card : Name → Nat) (a : Atom) : Conjunct :=
  { var := a.name, world := normDo card a.dos, val := a.val }

/-- the conjunct an atom denotes, world taken literally (first binding wins) -/
def atomConjRaw (a : Atom) : Conjunct := { var := a.name, world := a.dos, val := a.val }

/-- **the environment of a functional SCM**: joint distribution of all counterfactual variables; every
population tag reads the same model -/
def Model.fscmEnv (M : Model) (card : Name → Nat) : Env :=
  { card := card, pr := fun _ l => prob M (l.map (atomConj card)) }

/-- the same without normalising worlds -/
def Model.fscmEnvRaw (M : Model) (card : Name → Nat) : Env :=
  { card := card, pr := fun _ l => prob M (l.map atomConjRaw) }

/-- what makes `(M, card)` a model with the given cardinalities: every variable has at least one value, every
mechanism returns a value of its variable, the noise pmfs are non-negative and sum to one.
(No condition on `order` / `pa`: `solve` is a fold, the laws of probability do not need acyclicity.) -/
structure WellFormed (M : Model) (card : Name → Nat) : Prop where
  card_pos : ∀ x, 0 < card x
  f_range : ∀ v a b, M.f v a b < card v
  noise_nonneg : ∀ pmf ∈ M.noise, ∀ p ∈ pmf, 0 ≤ p
  noise_sum : ∀ pmf ∈ M.noise, pmf.sum = 1

/-- atoms whose world is well formed -/
def AtomValid (card : Name → Nat) (a : Atom) : Prop := DoValid card a.dos

end Fscm
end Y0
