/-
  Y0.Spec.Hedge — hedges (Shpitser & Pearl 2006, Def. 6) on vertex sets.

  A hedge for `P_x(y)` in `G` is a pair of R-rooted C-forests `F' ⊆ F` with `F ∩ X ≠ ∅`, `F' ∩ X = ∅` and
  `R ⊆ An(Y)` in `G` with the edges into `X` removed.  On vertex sets: an R-rooted C-forest with vertex set `S`
  exists iff `S` is connected by the bidirected edges inside `S`, `R ⊆ S`, and every node of `S` has a directed path
  to `R` inside `G[S]` (keep for every node outside `R` the first edge of a shortest such path — that is a forest
  whose roots are exactly `R` — and a spanning tree of the bidirected edges).  This is the definition the brute-force
  oracle harness/oracles/hedge.py enumerates.  Relational, short, meant to be read.
-/
import Y0.Spec.GraphSpec

namespace Y0
namespace MG
open Relation

/-- `S` is connected by bidirected edges of `G` between members of `S` -/
def BiConnectedOn (G : MG Name) (S : Name → Prop) : Prop :=
  ∀ u v, S u → S v → ReflTransGen (fun a b => G.BiEdge a b ∧ S a ∧ S b) u v

/-- every member of `S` reaches `R` by directed edges of `G` between members of `S` -/
def ReachesWithin (G : MG Name) (S R : Name → Prop) : Prop :=
  ∀ v, S v → ∃ r, R r ∧ ReflTransGen (fun a b => G.DiEdge a b ∧ S a ∧ S b) v r

/-- `F`, `F'` (vertex sets) form a hedge for `P_x(y)` in `G` -/
structure Hedge (G : MG Name) (X Y : List Name) (F F' : Name → Prop) : Prop where
  sub : ∀ v, F' v → F v
  nodes : ∀ v, F v → v ∈ G.nodes
  meetsX : ∃ x ∈ X, F x
  avoidsX : ∀ v, F' v → v ∉ X
  nonempty : ∃ v, F' v
  connF : G.BiConnectedOn F
  connF' : G.BiConnectedOn F'
  /-- a common root set inside `An(Y)` of the graph with the edges into `X` removed -/
  root : ∃ R : Name → Prop, (∀ r, R r → F' r) ∧
    (∀ r, R r → ∃ y ∈ Y, ReflTransGen (fun a b => G.DiEdge a b ∧ b ∉ X) r y) ∧
    G.ReachesWithin F R ∧ G.ReachesWithin F' R

end MG
end Y0
