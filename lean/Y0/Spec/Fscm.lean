/-
  Y0.Spec.Fscm — functional structural causal models with shared exogenous noise
  (the semantic universe of the counterfactual properties C18, C07, C08, C19, C09).

  SPECIFICATION, independent of the models of the Python code.  Core Lean only (`Rat` is core), so
  the same definitions are executable (`#eval`) and usable in proofs.  Meant to be read:

  * an `Fscm` has finitely many independent exogenous variables `u_0 … u_{k-1}`, each with a pmf
    (`noise : List (List Rat)`), an evaluation `order` of the observed variables, and for every
    observed variable `v` a deterministic mechanism `f v (values of pa v) (values of lat v)`;
  * a *world* is an intervention assignment `do : List (Name × Nat)`; `solve M u do` evaluates all
    observed variables along `order`, an intervened variable taking its intervention value;
  * the noise point `u` is SHARED by all worlds: the probability of a conjunction of counterfactual
    events `⋀ₖ (Vₖ under doₖ) = vₖ` is the mass of the noise points at which every conjunct holds;
  * `Compatible M G`: `order` is a topological order of the ADMG `G`, mechanisms read only parents in
    `G`, and two variables read a common exogenous variable only if they are joined by a bidirected
    edge (or are the same variable).
  * events of the DSL: `V_S = v` with `S` a set of `Intervention`s and `v` an `Intervention`; a base
    value assignment `ν : Name → Bool → Nat` reads `-X` as `ν X false` and `+X` as `ν X true`
    (`ν.Distinct`: the two are different values).
-/
import Y0.Model.Graph
import Y0.Model.Expr

namespace Y0
namespace Fscm

/-- a valuation of the observed variables -/
abbrev Valuation := Name → Nat
/-- a world: which variables are forced to which values -/
abbrev Do := List (Name × Nat)
/-- one point of the noise space: a value for each exogenous variable -/
abbrev NoisePoint := List Nat

structure Model where
  /-- evaluation order of the observed variables -/
  order : List Name
  /-- pmf of each exogenous variable (`noise[j][x] = P(u_j = x)`) -/
  noise : List (List Rat)
  /-- observed arguments of the mechanism of `v` -/
  pa : Name → List Name
  /-- exogenous arguments of the mechanism of `v` (indices into `noise`) -/
  lat : Name → List Nat
  /-- the mechanism: values of `pa v`, values of `lat v` ↦ value of `v` -/
  f : Name → List Nat → List Nat → Nat

/-- the noise space with the weight of each point -/
def space : List (List Rat) → List (NoisePoint × Rat)
  | [] => [([], 1)]
  | pmf :: rest =>
    (pmf.zipIdx).flatMap fun (p, x) => (space rest).map fun (pt, w) => (x :: pt, p * w)

def update (σ : Valuation) (v : Name) (x : Nat) : Valuation := fun w => if w = v then x else σ w

/-- value forced on `v` in the world `d`, if any (first binding wins) -/
def forced (d : Do) (v : Name) : Option Nat := (d.find? (fun p => p.1 = v)).map (·.2)

/-- one evaluation step -/
def step (M : Model) (u : NoisePoint) (d : Do) (σ : Valuation) (v : Name) : Valuation :=
  match forced d v with
  | some x => update σ v x
  | none => update σ v (M.f v ((M.pa v).map σ) ((M.lat v).map fun j => u.getD j 0))

/-- the unique solution of the (recursive) model in world `d` at noise point `u` -/
def solve (M : Model) (u : NoisePoint) (d : Do) : Valuation :=
  M.order.foldl (step M u d) (fun _ => 0)

/-- a counterfactual conjunct: variable, world, value -/
structure Conjunct where
  var : Name
  world : Do
  val : Nat

def holds (M : Model) (u : NoisePoint) (c : Conjunct) : Bool := solve M u c.world c.var == c.val

/-- mass of the noise points at which every conjunct holds -/
def prob (M : Model) (cs : List Conjunct) : Rat :=
  ((space M.noise).map fun (u, w) => if cs.all (holds M u) then w else 0).sum

/-- `a` under world `da` and `b` under world `db` are the same random variable of `M` -/
def SameRV (M : Model) (a : Name) (da : Do) (b : Name) (db : Do) : Prop :=
  ∀ u, solve M u da a = solve M u db b

/-- `M` induces (a sub-diagram of) the ADMG `G` -/
structure Compatible (M : Model) (G : MG Name) : Prop where
  perm : M.order.Perm G.nodes
  nodup : M.order.Nodup
  /-- parents come earlier in `order` and are parents in `G` -/
  pa_sub : ∀ v, ∀ p ∈ M.pa v, (p, v) ∈ G.di
  topo : ∀ l₁ v l₂, M.order = l₁ ++ v :: l₂ → ∀ p ∈ M.pa v, p ∈ l₁
  /-- shared exogenous variable ⇒ bidirected edge -/
  lat_bi : ∀ v w, v ≠ w → (∃ j, j ∈ M.lat v ∧ j ∈ M.lat w) → ((v, w) ∈ G.bi ∨ (w, v) ∈ G.bi)

/-- probabilities are probabilities: positive pmfs that sum to one -/
def Model.Normalised (M : Model) : Prop := ∀ pmf ∈ M.noise, (∀ p ∈ pmf, 0 < p) ∧ pmf.sum = 1

/-! ### events of the DSL -/

/-- a base value assignment: the two value symbols `x` (`false`) and `x'` (`true`) of every variable -/
abbrev BaseValues := Name → Bool → Nat

def BaseValues.Distinct (ν : BaseValues) : Prop := ∀ n, ν n false ≠ ν n true

def ivValue (ν : BaseValues) (i : Iv) : Nat := ν i.name i.star

/-- the world denoted by a subscript set -/
def worldOf (ν : BaseValues) (S : List Iv) : Do := S.map fun i => (i.name, ivValue ν i)

/-- `V_S = v` -/
def conjunctOf (ν : BaseValues) (p : Var × Iv) : Conjunct :=
  { var := p.1.name, world := worldOf ν p.1.ivs, val := ivValue ν p.2 }

/-- probability of an `Event` (a conjunction `⋀ V_S = v`) in `M` under the base values `ν` -/
def probEvent (M : Model) (ν : BaseValues) (ev : List (Var × Iv)) : Rat := prob M (ev.map (conjunctOf ν))

end Fscm
end Y0
