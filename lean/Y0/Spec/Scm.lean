/-
  Y0.Spec.Scm — discrete semi-Markovian structural causal models compatible with a mixed graph, their
  c-factors `Q[S]`, observational and interventional distributions (truncated factorisation), and the
  `Env` (Y0.Spec.Sem) they induce.  This is the model class the semantic properties (C01, C03, C05, C17)
  quantify over: discrete variables of any cardinality, positive rational parameters, independent root
  latents of any arity each shared by any set of observed variables that is pairwise joined by bidirected
  edges.  (Latents with parents and non-positive distributions are outside the class; DESIGN.md 7.)

  Core Lean only: executable, so the driver can evaluate estimands on concrete models.
-/
import Y0.Model.Graph
import Y0.Spec.Sem

namespace Y0

/-- raw data of a model (no invariants; see `Scm.Compatible`) -/
structure Scm where
  /-- cardinality of every variable, observed or latent -/
  card : Name → Nat
  /-- names of the latent (exogenous) variables -/
  lat : List Name
  /-- `prior u k = P(u = k)` -/
  prior : Name → Nat → Rat
  /-- latent parents of an observed variable -/
  latOf : Name → List Name
  /-- `kern v σ = P(v = σ v | pa(v) = σ pa(v), latOf(v) = σ latOf(v))` -/
  kern : Name → Val → Rat

namespace Scm

/-- `Π_u P(u) · Π_{v∈S} P(v | pa, lat)` at a full assignment of observed and latent variables -/
def weight (M : Scm) (S : List Name) (σ : Val) : Rat :=
  (M.lat.map fun u => M.prior u (σ u)).prod * (S.map fun v => M.kern v σ).prod

/-- Tian's c-factor `Q[S]`: the latents summed out of `weight` -/
def Q (M : Scm) (S : List Name) : Val → Rat := sumVars M.card M.lat (M.weight S)

/-- observational joint `P(v)` -/
def obs (M : Scm) (G : MG Name) : Val → Rat := M.Q G.nodes

/-- `P(y | do(x))` as a function of the assignment (read at `X ∪ Y`): truncated factorisation -/
def doProb (M : Scm) (G : MG Name) (X Y : List Name) : Val → Rat :=
  sumVars M.card (G.nodes.filter (fun v => v ∉ X ∧ v ∉ Y)) (M.Q (G.nodes.filter (· ∉ X)))

/-- the invariants that make `M` a positive model inducing (a subgraph of) `G` -/
structure Compatible (M : Scm) (G : MG Name) : Prop where
  card_pos : ∀ x, 0 < M.card x
  lat_nodup : M.lat.Nodup
  lat_fresh : ∀ u ∈ M.lat, u ∉ G.nodes
  prior_pos : ∀ u ∈ M.lat, ∀ k, 0 < M.prior u k
  prior_sum : ∀ u ∈ M.lat, sumRange (M.card u) (M.prior u) = 1
  latOf_sub : ∀ v, ∀ u ∈ M.latOf v, u ∈ M.lat
  kern_dep : ∀ v ∈ G.nodes, DependsOnly (M.kern v) (v :: G.parents v ++ M.latOf v)
  kern_pos : ∀ v ∈ G.nodes, ∀ σ, 0 < M.kern v σ
  kern_sum : ∀ v ∈ G.nodes, ∀ σ, sumVar M.card v (M.kern v) σ = 1
  /-- observed variables share a latent only across a bidirected edge -/
  compat : ∀ v ∈ G.nodes, ∀ w ∈ G.nodes, v ≠ w → (∃ u, u ∈ M.latOf v ∧ u ∈ M.latOf w) → G.hasBi v w = true

/-- a partial assignment is single valued -/
def consistent (l : List (Name × Nat)) : Bool :=
  l.all fun a => l.all fun b => a.1 != b.1 || a.2 == b.2

/-- `P_{do(dos)}(ev)`: probability of the partial assignment `ev` under the intervention `dos` -/
def prDo (M : Scm) (G : MG Name) (dos ev : List (Name × Nat)) : Rat :=
  if !consistent (dos ++ ev) then 0 else
  let X := dos.map (·.1)
  let E := ev.map (·.1)
  sumVars M.card (G.nodes.filter (fun v => v ∉ X ∧ v ∉ E)) (M.Q (G.nodes.filter (· ∉ X)))
    (Val.setMany (fun _ => 0) (dos ++ ev))

/-- probability of a conjunction of atoms that all live in one world (the same `dos`); conjunctions
across worlds are outside this model class (they need a functional SCM) and get 0 -/
def prAtoms (M : Scm) (G : MG Name) : List Atom → Rat
  | [] => 1
  | a :: as =>
    if as.all (fun b => b.dos == a.dos) then M.prDo G a.dos ((a :: as).map fun b => (b.name, b.val)) else 0

/-- the family of distributions of a single-domain model: every population tag reads the same model -/
def env (M : Scm) (G : MG Name) : Env := { card := M.card, pr := fun _ l => M.prAtoms G l }

end Scm

/-- a multi-domain family: one model per population (`none` is the target domain) -/
structure Family where
  dom : Option Name → Scm
  graph : Option Name → MG Name

def Family.env (F : Family) : Env :=
  { card := (F.dom none).card, pr := fun pop l => (F.dom pop).prAtoms (F.graph pop) l }

end Y0
