/-
  Y0.Spec.GraphSpec — relational (list-free) definitions the graph model is compared with.
  These are the "mathematical definitions" named by property C14; they are short and meant to be read.
-/
import Y0.Model.Graph
import Mathlib.Logic.Relation

namespace Y0.MG
variable {α : Type}

/-- `u → v` is a directed edge -/
def DiEdge (G : MG α) (u v : α) : Prop := (u, v) ∈ G.di
/-- `u ↔ v` is a bidirected edge (stored in either orientation) -/
def BiEdge (G : MG α) (u v : α) : Prop := (u, v) ∈ G.bi ∨ (v, u) ∈ G.bi

/-- every edge endpoint is a node and nodes are not repeated: what `from_edges` guarantees -/
structure WF (G : MG α) : Prop where
  nodup : G.nodes.Nodup
  di_nodup : G.di.Nodup
  di_mem : ∀ e ∈ G.di, e.1 ∈ G.nodes ∧ e.2 ∈ G.nodes
  bi_mem : ∀ e ∈ G.bi, e.1 ∈ G.nodes ∧ e.2 ∈ G.nodes

/-- `v` is an ancestor of (or a member of) `S`: reflexive-transitive closure over directed edges -/
def Anc (G : MG α) (S : List α) (v : α) : Prop := ∃ s ∈ S, Relation.ReflTransGen G.DiEdge v s
/-- `v` is a descendant of (or a member of) `S` -/
def Desc (G : MG α) (S : List α) (v : α) : Prop := ∃ s ∈ S, Relation.ReflTransGen G.DiEdge s v
/-- same district: connected by a chain of bidirected edges -/
def SameDistrict (G : MG α) (u v : α) : Prop := Relation.ReflTransGen G.BiEdge u v
/-- no directed cycle -/
def Acyclic (G : MG α) : Prop := ∀ v, ¬ Relation.TransGen G.DiEdge v v

/-- `l` lists the nodes once each and every directed edge goes forward in `l` -/
def IsTopoOrder (G : MG α) (l : List α) : Prop :=
  l.Perm G.nodes ∧ ∀ u v, G.DiEdge u v → ∃ l₁ l₂ l₃, l = l₁ ++ u :: l₂ ++ v :: l₃

/-- `G.DiPath a p b`: `p = [a, …, b]` is the node sequence of a directed walk from `a` to `b`
(`[a]` is the walk without edges from `a` to itself).  It is a *simple* path when `p.Nodup`. -/
inductive DiPath (G : MG α) : α → List α → α → Prop
  | single (a : α) : DiPath G a [a] a
  | cons {a b c : α} {p : List α} : G.DiEdge a b → DiPath G b p c → DiPath G a (a :: p) c

/-- the mathematical content of `get_nodes_in_directed_paths(G, S, T)`: `v` lies on a simple directed path with
at least one edge (`2 ≤ p.length`) from a member of `S` to a member of `T`.  A member of `S ∩ T` therefore counts
only if it lies on such a path. -/
def OnSimpleDiPath (G : MG α) (S T : List α) (v : α) : Prop :=
  ∃ s ∈ S, ∃ t ∈ T, ∃ p, G.DiPath s p t ∧ p.Nodup ∧ 2 ≤ p.length ∧ v ∈ p

end Y0.MG
