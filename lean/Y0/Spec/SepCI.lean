/-
  Y0.Spec.SepCI — conditional independence in a semi-Markovian model (Y0/Spec/Scm.lean), for the last clause of C04.
  Short and meant to be read.
-/
import Y0.Spec.Scm

namespace Y0.Scm

/-- the marginal `P(S)` of the observational distribution, as a function of the assignment (it reads the
assignment at the variables of `S` only): all other observed variables are summed out -/
def marg (M : Scm) (G : MG Name) (S : List Name) : Val → Rat :=
  sumVars M.card (G.nodes.filter (· ∉ S)) (M.obs G)

/-- `a ⟂ b | C` in the observational distribution of `M`:  `P(a, b, C) · P(C) = P(a, C) · P(b, C)` at every
assignment (the division-free form of `P(a, b | C) = P(a | C) · P(b | C)`) -/
def CondIndep (M : Scm) (G : MG Name) (a b : Name) (C : List Name) : Prop :=
  ∀ σ : Val, M.marg G (a :: b :: C) σ * M.marg G C σ = M.marg G (a :: C) σ * M.marg G (b :: C) σ

end Y0.Scm
