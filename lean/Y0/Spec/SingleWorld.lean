/-
  Y0.Spec.SingleWorld — two decidable / structural predicates on expressions used to relate the environment
  `M.env G` of a semi-Markovian model (Y0/Spec/Scm.lean) to families satisfying `ProbFamily` (Y0/Spec/Sem.lean):

    * `Expr.swOK G e`  : `e` is a SINGLE-WORLD expression over the nodes of `G` — in every leaf `P(c | p)` all variables
                         carry the same subscript list, that list names pairwise distinct variables, and every event
                         variable is a node of `G`.  (Interventional / observational / conditional probabilities, their
                         products, sums and quotients; no cross-world joint.)
    * `DenNZA env σ' e`: no fraction inside `e` has a denominator that vanishes at ANY valuation (the all-valuations
                         strengthening of `DenNZ`, Y0/Lemmas/SemCanon.lean, which only looks at in-range valuations).

  Core Lean only.  Deliberately free of the lemma libraries of the expr and id families so that both can import it.
-/
import Y0.Model.Graph
import Y0.Spec.Sem
import Y0.Lemmas.SemScope

namespace Y0

/-- leaf clause of `swOK` -/
def leafSW (G : MG Name) (c p : List Var) : Bool :=
  (c ++ p).all (fun v => (c ++ p).all (fun w => decide (v.ivs = w.ivs)))
  && (c ++ p).all (fun v => namesNodup (v.ivs.map (·.name)))
  && (c ++ p).all (fun v => decide (v.name ∈ G.nodes))

mutual
/-- single-world expressions over the nodes of `G` (decidable) -/
def Expr.swOK (G : MG Name) : Expr → Bool
  | .prob _ c p => leafSW G c p
  | .prod fs => Expr.swOKList G fs
  | .sum e _ => Expr.swOK G e
  | .frac n d => Expr.swOK G n && Expr.swOK G d
  | _ => true
def Expr.swOKList (G : MG Name) : List Expr → Bool
  | [] => true
  | e :: es => Expr.swOK G e && Expr.swOKList G es
end

mutual
/-- no denominator vanishes, at any valuation -/
def DenNZA (env : Env) (σ' : Val) : Expr → Prop
  | .frac n d => DenNZA env σ' n ∧ DenNZA env σ' d ∧ ∀ σ, den env σ' d σ ≠ 0
  | .prod fs => DenNZAList env σ' fs
  | .sum e _ => DenNZA env σ' e
  | _ => True
def DenNZAList (env : Env) (σ' : Val) : List Expr → Prop
  | [] => True
  | e :: es => DenNZA env σ' e ∧ DenNZAList env σ' es
end

end Y0
