/-
  Y0.Lemmas.TianLemma1 — the Lemma-1 branch (dispatch on a `Probability` / `PopulationProbability` given as the
  c-factor) reduces to the Lemma-4 formula: for `q = P_w(H | Z)`,

      den (P_w(v | Z ∪ pred(v)))  =  Σ_{>v} den q / Σ_{≥v} den q        (`den_lemma1Factor`, `ratio_prob`)
      den (P_w(A | Z))            =  Σ_{H ∖ A} den q                     (`den_ancestralProb`)

  in the environment of any compatible model — a fact of probability calculus inside one world, independent of
  whether `q` really is a c-factor.
-/
import Y0.Lemmas.TianProb
import Y0.Lemmas.TianExpr
import Y0.Spec.TianSpec

namespace Y0
namespace TianLemma1
open TianDsl Tian TianDen TianSpec TianProb

/-! ### `world.get(v, v)` -/

theorem find_world_some {ch : List Var} {n : Name} {p : Name × Var}
    (h : (world ch).reverse.find? (fun p => p.1 == n) = some p) : p.2 ∈ ch ∧ p.2.name = n := by
  have hm := List.mem_of_find?_eq_some h
  have hp := List.find?_some h
  rw [List.mem_reverse] at hm
  unfold world at hm
  rcases List.mem_map.mp hm with ⟨c, hc, rfl⟩
  exact ⟨hc, by simpa using hp⟩

theorem inWorld_name (ch : List Var) (n : Name) : (inWorld (world ch) n).name = n := by
  unfold inWorld
  split
  · rename_i p h; exact (find_world_some h).2
  · rfl

theorem inWorld_mem {ch : List Var} {n : Name} (h : n ∈ ch.map (·.name)) : inWorld (world ch) n ∈ ch := by
  unfold inWorld
  split
  · rename_i p hp; exact (find_world_some hp).1
  · rename_i hnone
    exfalso
    rcases List.mem_map.mp h with ⟨c, hc, rfl⟩
    have := List.find?_eq_none.mp hnone (c.name, c) (by
      rw [List.mem_reverse]; unfold world; exact List.mem_map.mpr ⟨c, hc, rfl⟩)
    simp at this

theorem map_inWorld_names (ch : List Var) (ns : List Name) : (ns.map (inWorld (world ch))).map (·.name) = ns := by
  rw [List.map_map]
  exact List.map_id'' (fun n => inWorld_name ch n) ns

/-! ### sums of quotients -/

theorem sumVars_div_right (card : Name → Nat) (ys : List Name) (f g : Val → Rat) (σ : Val)
    (hg : ∀ y ∈ ys, IndepOf g y) : sumVars card ys (fun τ => f τ / g τ) σ = sumVars card ys f σ / g σ := by
  induction ys generalizing σ with
  | nil => rfl
  | cons y ys ih =>
    simp only [sumVars]
    have : sumVars card ys (fun τ => f τ / g τ) = fun τ => sumVars card ys f τ / g τ :=
      funext fun τ => ih τ (fun z hz => hg z (List.mem_cons_of_mem _ hz))
    rw [this]
    exact sumVar_div_right card y _ g σ (hg y List.mem_cons_self)

variable {M : Scm} {G : MG Name}

/-- the normalising constant `P_X(Z)` (or 1 without parents) does not depend on a node outside `X ∪ Z` -/
theorem denom_indep (X Z : List Name) (c : Bool) {y : Name} (hy : y ∈ G.nodes) (hyX : y ∉ X) (hyZ : y ∉ Z) :
    IndepOf (fun τ => if c then (1 : Rat) else F M G X Z τ) y := by
  cases c
  · simp only [Bool.false_eq_true, ↓reduceIte]
    apply sumVars_indep_mem
    simp only [List.mem_filter, decide_eq_true_eq]
    exact ⟨hy, hyX, hyZ⟩
  · exact fun _ _ => rfl

/-- `Σ_s P_X(p, v, s | Z) = P_X(p, v | Z)` on the level of `F` -/
theorem sumVars_F_div (hG : G.WF) (X Z ys E : List Name) (c : Bool) (σ : Val) (hnd : ys.Nodup)
    (hys : ∀ y ∈ ys, y ∈ G.nodes ∧ y ∉ X ∧ y ∉ E) (hZE : ∀ z ∈ Z, z ∈ E) :
    sumVars M.card ys (fun τ => F M G X (ys ++ E) τ / (if c then 1 else F M G X Z τ)) σ =
      F M G X E σ / (if c then 1 else F M G X Z σ) := by
  rw [sumVars_div_right M.card ys (F M G X (ys ++ E)) (fun τ => if c then 1 else F M G X Z τ) σ
    (fun y hy => denom_indep X Z c (hys y hy).1 (hys y hy).2.1 (fun h => (hys y hy).2.2 (hZE y h)))]
  rw [sumVars_F hG X E ys hnd hys]

/-! ### the shape of what `lemma1Factor` and `ancestralProb` build -/

theorem mkProb_shape {pop : Option Var} {d : Dist} {e : Expr} (h : mkProb pop d = .ok e) :
    ∃ c p, e = .prob pop c p ∧ c.Perm d.children ∧ (∀ x, x ∈ p ↔ x ∈ d.parents) ∧ (p = [] ↔ d.parents = []) := by
  unfold mkProb at h
  cases pop with
  | some pp =>
    simp only [pure, Except.pure] at h
    cases h
    exact ⟨_, _, rfl, List.Perm.refl _, fun _ => Iff.rfl, Iff.rfl⟩
  | none =>
    simp only [Dist.check] at h
    split at h
    · simp [bind, Except.bind] at h
    · simp only [bind, Except.bind, pure, Except.pure] at h
      cases h
      refine ⟨_, _, rfl, sortStable_perm _ _, fun x => mem_sortedVariables _ x, ?_⟩
      constructor
      · intro h0
        have := (sortStable_perm Var.keyLt d.parents).length_eq
        unfold sortedVariables at h0
        rw [h0] at this
        exact List.length_eq_zero_iff.mp this.symm
      · intro h0; rw [h0]; rfl

theorem upgradeOrdering_eq_nil {vs : List Var} : upgradeOrdering vs = [] ↔ vs = [] := by
  constructor
  · intro h
    cases vs with
    | nil => rfl
    | cons v vs =>
      have : v ∈ upgradeOrdering (v :: vs) := (mem_upgradeOrdering _ _).mpr List.mem_cons_self
      rw [h] at this; cases this
  · intro h; subst h; rfl

/-- `P_w(v | parents ∪ pred(v))` as built by Lemma 1 -/
theorem lemma1Factor_shape {pop : Option Var} {ch pa : List Var} {p s : List Name} {v : Name} {e : Expr}
    (hv : v ∉ p) (h : lemma1Factor pop (world ch) pa (p ++ v :: s) v = .ok e) :
    ∃ P', e = .prob pop [inWorld (world ch) v] P' ∧
      (∀ x, x ∈ P' ↔ x ∈ pa ∨ x ∈ p.map (inWorld (world ch))) ∧ (P' = [] ↔ pa = [] ∧ p = []) := by
  unfold lemma1Factor at h
  rw [indexOf_of_split hv] at h
  simp only [bind, Except.bind, List.take_left'] at h
  have hmem : ∀ x, x ∈ upgradeOrdering (dedup' (pa ++ p.map (inWorld (world ch)))) ↔
      x ∈ pa ∨ x ∈ p.map (inWorld (world ch)) := by
    intro x; rw [mem_upgradeOrdering, mem_dedup', List.mem_append]
  have hnil : upgradeOrdering (dedup' (pa ++ p.map (inWorld (world ch)))) = [] ↔ pa = [] ∧ p = [] := by
    rw [upgradeOrdering_eq_nil]
    constructor
    · intro h0
      have : pa ++ p.map (inWorld (world ch)) = [] := by
        cases hl : pa ++ p.map (inWorld (world ch)) with
        | nil => rfl
        | cons a l =>
          have : a ∈ dedup' (pa ++ p.map (inWorld (world ch))) := (mem_dedup' _ _).mpr (by rw [hl]; simp)
          rw [h0] at this; cases this
      simpa using this
    · rintro ⟨rfl, rfl⟩; rfl
  cases pop with
  | some pp =>
    simp only at h
    rcases mkProb_shape h with ⟨c, P', rfl, hc, hP, hPnil⟩
    have : c = [inWorld (world ch) v] := List.perm_singleton.mp hc
    subst this
    exact ⟨P', rfl, fun x => (hP x).trans (hmem x), hPnil.trans hnil⟩
  | none =>
    simp only [Dist.ofGiven, Dist.check, List.isEmpty_cons, Bool.false_eq_true, ↓reduceIte] at h
    rcases mkProb_shape h with ⟨c, P', rfl, hc, hP, hPnil⟩
    have : c = [inWorld (world ch) v] := List.perm_singleton.mp hc
    subst this
    refine ⟨P', rfl, fun x => (hP x).trans ?_, hPnil.trans ?_⟩
    · exact hmem x
    · exact hnil

/-! ### denotations -/

/-- the data of `ProbShape` for `q = P_w(H | Z)` -/
structure Shape (G : MG Name) (ch pa : List Var) (H : List Name) (w : List Iv) : Prop where
  covers : ∀ h ∈ H, h ∈ ch.map (·.name)
  extras : ∀ c ∈ ch, c.name ∈ H ∨ c.name ∈ pa.map (·.name) ∨ c.name ∈ w.map (·.name)
  world : InWorld w (ch ++ pa)
  ivs : ∀ i ∈ w, i.star = false ∧ i.name ∉ H
  parents : ∀ p ∈ pa, p.name ∉ H

theorem shape_of_probShape {pop : Option Var} {ch pa : List Var} {H : List Name}
    (h : ProbShape (.prob pop ch pa) H) : ∃ w, Shape G ch pa H w := by
  obtain ⟨w, h1, h1', h2, h3, h4⟩ := h
  exact ⟨w, ⟨h1, h1', h2, h3, h4⟩⟩

/-- `den (P_w(H | Z)) = F X (H ∪ Z) / (1 or F X Z)` -/
theorem den_shape (hM : M.Compatible G) (hG : G.WF) (σ σ' : Val) {pop : Option Var} {ch pa : List Var}
    {H : List Name} {w : List Iv} (hs : Shape G ch pa H w) (hH : H ≠ []) :
    den (M.env G) σ' (.prob pop ch pa) σ =
      F M G (w.map (·.name)) (H ++ pa.map (·.name)) σ /
        (if pa.isEmpty then 1 else F M G (w.map (·.name)) (pa.map (·.name)) σ) := by
  have hc : ch ≠ [] := by
    intro h0; subst h0
    cases H with
    | nil => exact hH rfl
    | cons a l => have := hs.covers a List.mem_cons_self; simp at this
  rw [den_prob_world hM hG σ σ' w (fun i hi => (hs.ivs i hi).1) pop ch pa hc hs.world]
  congr 1
  · apply congrFun
    apply F_congr_mod
    intro v hvX
    simp only [List.map_append, List.mem_append]
    constructor
    · rintro (h | h)
      · rcases List.mem_map.mp h with ⟨c, hc', rfl⟩
        rcases hs.extras c hc' with h' | h' | h'
        · exact Or.inl h'
        · exact Or.inr h'
        · exact absurd h' hvX
      · exact Or.inr h
    · rintro (h | h)
      · exact Or.inl (hs.covers v h)
      · exact Or.inr h
  · cases pa <;> simp

/-- the facts about a split `H = p ++ v :: s` of the duplicate-free order used below -/
theorem split_facts {H p s : List Name} {v : Name} (e : H = p ++ v :: s) (hnd : H.Nodup) :
    v ∉ p ∧ v ∉ s ∧ (∀ y ∈ s, y ∉ p ∧ y ≠ v) ∧ s.Nodup ∧ (v :: s).Nodup := by
  subst e
  have h1 := List.nodup_append.mp hnd
  have h2 := List.nodup_cons.mp h1.2.1
  refine ⟨fun hm => h1.2.2 v hm v (by simp) rfl, h2.1, ?_, h2.2, h1.2.1⟩
  intro y hy
  exact ⟨fun hm => h1.2.2 y hm y (by simp [hy]) rfl, fun e => h2.1 (e ▸ hy)⟩

/-- **the Lemma-4 ratio of a single-world probability is a conditional probability** -/
theorem ratio_prob (hM : M.Compatible G) (hG : G.WF) (σ σ' : Val) {pop : Option Var} {ch pa : List Var}
    {H : List Name} {w : List Iv} (hs : Shape G ch pa H w) (hnd : H.Nodup) (hsub : ∀ x ∈ H, x ∈ G.nodes)
    {p s : List Name} {v : Name} (e : H = p ++ v :: s) :
    ratio M.card (den (M.env G) σ' (.prob pop ch pa)) p v s σ =
      F M G (w.map (·.name)) (v :: (p ++ pa.map (·.name))) σ /
        (if pa.isEmpty && p.isEmpty then 1 else F M G (w.map (·.name)) (p ++ pa.map (·.name)) σ) := by
  have hHne : H ≠ [] := by rw [e]; simp
  obtain ⟨hvp, hvs, hsp, hsnd, hvsnd⟩ := split_facts e hnd
  set X := w.map (·.name) with hX
  set Z := pa.map (·.name) with hZ
  have hXH : ∀ x ∈ H, x ∉ X := by
    intro x hx hxX
    rcases List.mem_map.mp hxX with ⟨i, hi, rfl⟩
    exact (hs.ivs i hi).2 hx
  have hZH : ∀ x ∈ H, x ∉ Z := by
    intro x hx hxZ
    rcases List.mem_map.mp hxZ with ⟨q, hq, rfl⟩
    exact (hs.parents q hq) hx
  have hden : den (M.env G) σ' (.prob pop ch pa) =
      fun τ => F M G X (H ++ Z) τ / (if pa.isEmpty then 1 else F M G X Z τ) :=
    funext fun τ => den_shape hM hG τ σ' hs hHne
  have hmemH : ∀ x, x ∈ H ↔ x ∈ p ∨ x = v ∨ x ∈ s := by
    intro x; rw [e]; simp only [List.mem_append, List.mem_cons]
  -- Σ_s
  have h1 : sumVars M.card s (den (M.env G) σ' (.prob pop ch pa)) σ =
      F M G X (v :: (p ++ Z)) σ / (if pa.isEmpty then 1 else F M G X Z σ) := by
    rw [hden]
    have hc : F M G X (H ++ Z) = F M G X (s ++ (v :: (p ++ Z))) := by
      apply F_congr; intro x
      simp only [List.mem_append, List.mem_cons, hmemH]; tauto
    rw [hc]
    apply sumVars_F_div hG X Z s _ pa.isEmpty σ hsnd
    · intro y hy
      have hyH : y ∈ H := (hmemH y).mpr (Or.inr (Or.inr hy))
      refine ⟨hsub y hyH, hXH y hyH, ?_⟩
      simp only [List.mem_cons, List.mem_append, not_or]
      exact ⟨(hsp y hy).2, (hsp y hy).1, hZH y hyH⟩
    · intro z hz; simp [hz]
  -- Σ_{v, s}
  have h2 : sumVars M.card (v :: s) (den (M.env G) σ' (.prob pop ch pa)) σ =
      F M G X (p ++ Z) σ / (if pa.isEmpty then 1 else F M G X Z σ) := by
    rw [hden]
    have hc : F M G X (H ++ Z) = F M G X ((v :: s) ++ (p ++ Z)) := by
      apply F_congr; intro x
      simp only [List.mem_append, List.mem_cons, hmemH]; tauto
    rw [hc]
    apply sumVars_F_div hG X Z (v :: s) _ pa.isEmpty σ hvsnd
    · intro y hy
      have hyH : y ∈ H := (hmemH y).mpr (by rcases List.mem_cons.mp hy with h | h <;> simp [h])
      refine ⟨hsub y hyH, hXH y hyH, ?_⟩
      simp only [List.mem_append, not_or]
      refine ⟨?_, hZH y hyH⟩
      rcases List.mem_cons.mp hy with rfl | h
      · exact hvp
      · exact (hsp y h).1
    · intro z hz; simp [hz]
  unfold ratio
  by_cases hp : p = []
  · subst hp
    simp only [↓reduceIte, h1, List.nil_append, List.isEmpty_nil, Bool.and_true]
  · simp only [hp, ↓reduceIte, h1, h2]
    have hpe : p.isEmpty = false := by cases p <;> simp_all
    simp only [hpe, Bool.and_false, Bool.false_eq_true, ↓reduceIte]
    have hD : (if pa.isEmpty then (1 : Rat) else F M G X Z σ) ≠ 0 := by
      split
      · exact one_ne_zero
      · exact ne_of_gt (F_pos hM X Z σ)
    rw [div_div_div_cancel_right₀ hD]

/-- what one factor of Lemma 1 denotes -/
theorem den_lemma1Factor (hM : M.Compatible G) (hG : G.WF) (σ σ' : Val) {pop : Option Var} {ch pa : List Var}
    {H : List Name} {w : List Iv} (hs : Shape G ch pa H w) {p s : List Name} {v : Name} (e : H = p ++ v :: s)
    (hvp : v ∉ p) {f : Expr} (h : lemma1Factor pop (world ch) pa H v = .ok f) :
    den (M.env G) σ' f σ =
      F M G (w.map (·.name)) (v :: (p ++ pa.map (·.name))) σ /
        (if pa.isEmpty && p.isEmpty then 1 else F M G (w.map (·.name)) (p ++ pa.map (·.name)) σ) := by
  subst e
  obtain ⟨P', rfl, hP, hPnil⟩ := lemma1Factor_shape hvp h
  have hnames : ∀ n ∈ p ++ v :: s, n ∈ ch.map (·.name) := fun n hn => hs.covers n hn
  have hvw : inWorld (world ch) v ∈ ch := inWorld_mem (hnames v (by simp))
  have hworld : InWorld w ([inWorld (world ch) v] ++ P') := by
    intro x hx
    rcases List.mem_append.mp hx with hx | hx
    · rw [List.mem_singleton.mp hx]; exact hs.world _ (List.mem_append_left _ hvw)
    · rcases (hP x).mp hx with hx | hx
      · exact hs.world _ (List.mem_append_right _ hx)
      · rcases List.mem_map.mp hx with ⟨n, hn, rfl⟩
        exact hs.world _ (List.mem_append_left _ (inWorld_mem (hnames n (by simp [hn]))))
  rw [den_prob_world hM hG σ σ' w (fun i hi => (hs.ivs i hi).1) pop _ P' (by simp) hworld]
  have hPn : ∀ x, x ∈ P'.map (·.name) ↔ x ∈ p ++ pa.map (·.name) := by
    intro x
    simp only [List.mem_map, List.mem_append]
    constructor
    · rintro ⟨y, hy, rfl⟩
      rcases (hP y).mp hy with hy | hy
      · exact Or.inr ⟨y, hy, rfl⟩
      · rcases List.mem_map.mp hy with ⟨n, hn, rfl⟩
        exact Or.inl (by rw [inWorld_name]; exact hn)
    · rintro (hx | ⟨y, hy, rfl⟩)
      · exact ⟨inWorld (world ch) x, (hP _).mpr (Or.inr (List.mem_map.mpr ⟨x, hx, rfl⟩)), inWorld_name ch x⟩
      · exact ⟨y, (hP y).mpr (Or.inl hy), rfl⟩
  congr 1
  · apply congrFun
    apply F_congr
    intro x
    simp only [List.map_cons, List.cons_append, List.nil_append, List.mem_cons, inWorld_name, hPn x]
  · by_cases h0 : P' = []
    · have := hPnil.mp h0
      simp [h0, this.1, this.2]
    · have hne : ¬ (pa = [] ∧ p = []) := fun hh => h0 (hPnil.mpr hh)
      have : (pa.isEmpty && p.isEmpty) = false := by
        cases pa <;> cases p <;> simp_all
      simp only [h0, ↓reduceIte, this, Bool.false_eq_true]
      apply congrFun
      exact F_congr _ hPn

/-- **Lemma 1 (i), expression level**: for `q = P_w(H | Z)` the product built by
`compute_c_factor_conditioning_on_topological_predecessors` denotes the same Lemma-4 product of ratios of `q`. -/
theorem den_lemma1 (hM : M.Compatible G) (hG : G.WF) (σ' : Val) {pop : Option Var} {ch pa : List Var}
    {H : List Name} (hshape : ProbShape (.prob pop ch pa) H) (hnd : H.Nodup)
    (hsub : ∀ x ∈ H, x ∈ G.nodes) {district : List Name} {e : Expr}
    (h : lemma1 district (.prob pop ch pa) H = .ok e) (σ : Val) (R : Name → Rat)
    (hR : ∀ v p s, H = p ++ v :: s → R v = ratio M.card (den (M.env G) σ' (.prob pop ch pa)) p v s σ) :
    den (M.env G) σ' e σ = (district.map R).prod := by
  obtain ⟨w, hs⟩ := shape_of_probShape hshape
  unfold lemma1 at h
  split at h
  · cases h
  · split at h
    · cases h
    · rename_i hmem
      simp only at h
      cases hm : district.mapM (lemma1Factor pop (world ch) pa H) with
      | error err => rw [hm] at h; simp [bind, Except.bind] at h
      | ok fs =>
        rw [hm] at h
        simp only [bind, Except.bind, pure, Except.pure] at h
        cases h
        rw [den_productSafe]
        apply prod_of_forall₂ R (fun e => den (M.env G) σ' e σ)
        refine (forall₂_mem (mapM_ok_forall₂ _ _ _ hm)).imp ?_
        rintro v f ⟨hvd, hvf⟩
        have hvH : v ∈ H := by
          by_contra hv
          exact hmem (List.any_eq_true.mpr ⟨v, hvd, by simpa using hv⟩)
        obtain ⟨p, s, e1, hvp⟩ := split_of_mem hvH
        rw [den_lemma1Factor hM hG σ σ' hs e1 hvp hvf, hR v p s e1, ratio_prob hM hG σ σ' hs hnd hsub e1]

/-! ### the probability of the ancestral set built by IDENTIFY -/

theorem check_ok {d d' : Dist} (h : Dist.check d = .ok d') : d' = d := by
  unfold Dist.check at h
  split at h
  · cases h
  · cases h; rfl

theorem ancestralProb_shape {pop : Option Var} {ch pa : List Var} {oA : List Name} {e : Expr}
    (h : ancestralProb pop ch pa oA = .ok e) :
    ∃ c P', e = .prob pop c P' ∧ c.Perm (dedup' (oA.map (inWorld (world ch)))) ∧ (∀ x, x ∈ P' ↔ x ∈ pa) ∧
      (P' = [] ↔ pa = []) := by
  unfold ancestralProb at h
  split at h
  · cases h
  · rename_i a as hmap
    cases h1 : Dist.ofJoint a as with
    | error err => rw [h1] at h; simp [bind, Except.bind] at h
    | ok d1 =>
      rw [h1] at h
      simp only [bind, Except.bind] at h
      have e1 := check_ok h1
      cases h2 : d1.given pa with
      | error err => rw [h2] at h; simp at h
      | ok d2 =>
        rw [h2] at h
        simp only at h
        have e2 := check_ok h2
        rcases mkProb_shape h with ⟨c, P', rfl, hc, hP, hPnil⟩
        subst e2
        subst e1
        refine ⟨c, P', rfl, ?_, ?_, ?_⟩
        · rw [hmap]; exact hc.trans (upgradeOrdering_perm _)
        · intro x; rw [hP x]; simp [mem_upgradeOrdering]
        · rw [hPnil]; simp [upgradeOrdering_eq_nil]

theorem nodup_map_inWorld (ch : List Var) {ns : List Name} (h : ns.Nodup) : (ns.map (inWorld (world ch))).Nodup := by
  refine List.Nodup.map_on ?_ h
  intro a _ b _ e
  have := congrArg Var.name e
  rwa [inWorld_name, inWorld_name] at this

/-- `P_w(A | Z)` built from `q = P_w(H | Z)` is again of the required shape, now for `A` -/
theorem ancestralProb_probShape {pop : Option Var} {ch pa : List Var} {H oA : List Name} {e : Expr} {w : List Iv}
    (hs : Shape G ch pa H w) (hoA : oA.Nodup) (hAH : ∀ a ∈ oA, a ∈ H)
    (h : ancestralProb pop ch pa oA = .ok e) :
    ∃ c P', e = .prob pop c P' ∧ Shape G c P' oA w ∧ (P'.isEmpty = pa.isEmpty) ∧
      (∀ x, x ∈ P'.map (·.name) ↔ x ∈ pa.map (·.name)) := by
  obtain ⟨c, P', rfl, hc, hP, hPnil⟩ := ancestralProb_shape h
  rw [dedup'_eq_of_nodup _ (nodup_map_inWorld ch hoA)] at hc
  have hcn : (c.map (·.name)).Perm oA := by
    have := hc.map (·.name)
    rwa [map_inWorld_names] at this
  refine ⟨c, P', rfl, ⟨?_, ?_, ?_, ?_, ?_⟩, ?_, ?_⟩
  · exact fun a ha => hcn.mem_iff.mpr ha
  · exact fun x hx => Or.inl (hcn.mem_iff.mp (List.mem_map.mpr ⟨x, hx, rfl⟩))
  · intro x hx
    rcases List.mem_append.mp hx with hx | hx
    · rcases List.mem_map.mp (hc.mem_iff.mp hx) with ⟨n, hn, rfl⟩
      exact hs.world _ (List.mem_append_left _ (inWorld_mem (hs.covers _ (hAH n hn))))
    · exact hs.world _ (List.mem_append_right _ ((hP x).mp hx))
  · intro i hi
    exact ⟨(hs.ivs i hi).1, fun hm => (hs.ivs i hi).2 (hAH _ hm)⟩
  · intro p hp
    exact fun hm => (hs.parents p ((hP p).mp hp)) (hAH _ hm)
  · cases hP' : P' with
    | nil => have := hPnil.mp hP'; simp [this]
    | cons a l =>
      cases hpa : pa with
      | nil => have := hPnil.mpr hpa; rw [hP'] at this; cases this
      | cons b m => rfl
  · intro x
    simp only [List.mem_map]
    constructor
    · rintro ⟨y, hy, rfl⟩; exact ⟨y, (hP y).mp hy, rfl⟩
    · rintro ⟨y, hy, rfl⟩; exact ⟨y, (hP y).mpr hy, rfl⟩

/-- **Lemma 3 for a single-world probability**: `P_w(A | Z) = Σ_{H ∖ A} P_w(H | Z)` -/
theorem den_ancestralProb (hM : M.Compatible G) (hG : G.WF) (σ' : Val) {pop : Option Var} {ch pa : List Var}
    {H oA R : List Name} {w : List Iv} (hs : Shape G ch pa H w) (hsub : ∀ x ∈ H, x ∈ G.nodes)
    (hoA : oA.Nodup) (hoAne : oA ≠ []) (hR : R.Nodup)
    (hcover : ∀ x, x ∈ H ↔ x ∈ oA ∨ x ∈ R) (hdisj : ∀ x ∈ R, x ∉ oA)
    {e : Expr} (h : ancestralProb pop ch pa oA = .ok e) :
    den (M.env G) σ' e = sumVars M.card R (den (M.env G) σ' (.prob pop ch pa)) := by
  have hAH : ∀ a ∈ oA, a ∈ H := fun a ha => (hcover a).mpr (Or.inl ha)
  have hHne : H ≠ [] := by
    cases oA with
    | nil => exact absurd rfl hoAne
    | cons a l => intro h0; have := hAH a List.mem_cons_self; rw [h0] at this; cases this
  obtain ⟨c, P', rfl, hs', hemp, hnames⟩ := ancestralProb_probShape hs hoA hAH h
  set X := w.map (·.name) with hX
  set Z := pa.map (·.name) with hZ
  have hXH : ∀ x ∈ H, x ∉ X := by
    intro x hx hxX
    rcases List.mem_map.mp hxX with ⟨i, hi, rfl⟩
    exact (hs.ivs i hi).2 hx
  have hZH : ∀ x ∈ H, x ∉ Z := by
    intro x hx hxZ
    rcases List.mem_map.mp hxZ with ⟨q, hq, rfl⟩
    exact (hs.parents q hq) hx
  funext σ
  rw [den_shape hM hG σ σ' hs' hoAne]
  have hden : den (M.env G) σ' (.prob pop ch pa) =
      fun τ => F M G X (H ++ Z) τ / (if pa.isEmpty then 1 else F M G X Z τ) :=
    funext fun τ => den_shape hM hG τ σ' hs hHne
  rw [hden]
  have hc : F M G X (H ++ Z) = F M G X (R ++ (oA ++ Z)) := by
    apply F_congr; intro x
    simp only [List.mem_append, hcover]; tauto
  rw [hc, sumVars_F_div hG X Z R (oA ++ Z) pa.isEmpty σ hR]
  · rw [hemp]
    congr 1
    · apply congrFun
      apply F_congr
      intro x
      simp only [List.mem_append, hnames x, hZ]
    · split
      · rfl
      · apply congrFun
        exact F_congr _ hnames
  · intro y hy
    have hyH : y ∈ H := (hcover y).mpr (Or.inr hy)
    refine ⟨hsub y hyH, hXH y hyH, ?_⟩
    simp only [List.mem_append, not_or]
    exact ⟨hdisj y hy, hZH y hyH⟩
  · intro z hz; simp [hz]

end TianLemma1
end Y0
