/-
  Y0.Lemmas.TianProb — what a `Probability` / `PopulationProbability` expression whose variables all live in one
  world `do(X)` denotes in the environment `M.env G` of a semi-Markovian model (Y0.Spec.Scm):

      den (P_X(C | Pa)) σ = F X (C ∪ Pa) σ / F X Pa σ,      F X E := Σ_{V ∖ (X ∪ E)} Q[V ∖ X]

  (`den_prob_world`), with the marginalisation law `Σ_x F X (x :: E) = F X E` (`F_marg`).  This is the single-world
  fragment of `ProbFamily`; the cross-world laws of `ProbFamily` do not hold for `M.env G` and are not used.
-/
import Y0.Lemmas.QFactor
import Y0.Spec.Sem

namespace Y0
namespace TianProb

/-! ### `DependsOnly` algebra -/

theorem dependsOnly_const (c : Rat) (S : List Name) : DependsOnly (fun _ => c) S := fun _ _ _ => rfl

theorem DependsOnly.mul {f g : Val → Rat} {S : List Name} (hf : DependsOnly f S) (hg : DependsOnly g S) :
    DependsOnly (fun τ => f τ * g τ) S := fun σ τ h => by
  show f σ * g σ = f τ * g τ
  rw [hf σ τ h, hg σ τ h]

theorem dependsOnly_listProd {ι} (l : List ι) (f : ι → Val → Rat) (S : List Name)
    (h : ∀ i ∈ l, DependsOnly (f i) S) : DependsOnly (fun τ => (l.map fun i => f i τ).prod) S := by
  induction l with
  | nil => exact fun _ _ _ => rfl
  | cons a l ih =>
    intro σ τ hστ
    have h1 := h a List.mem_cons_self σ τ hστ
    have h2 := ih (fun i hi => h i (List.mem_cons_of_mem _ hi)) σ τ hστ
    simp only [List.map_cons, List.prod_cons] at h2 ⊢
    rw [h1, h2]

theorem sumVar_dependsOnly (card : Name → Nat) (x : Name) {f : Val → Rat} {S : List Name} (h : DependsOnly f S) :
    DependsOnly (sumVar card x f) S := by
  intro σ τ hστ
  simp only [sumVar_eq_sum]
  refine Finset.sum_congr rfl fun k _ => h _ _ ?_
  intro v hv
  by_cases e : v = x
  · subst e; simp
  · simp [Val.set, e, hστ v hv]

theorem sumVars_dependsOnly (card : Name → Nat) (xs : List Name) {f : Val → Rat} {S : List Name}
    (h : DependsOnly f S) : DependsOnly (sumVars card xs f) S := by
  induction xs with
  | nil => exact h
  | cons x xs ih => exact sumVar_dependsOnly card x ih

/-- variables the function is independent of can be dropped from the dependency list -/
theorem dependsOnly_restrict {g : Val → Rat} {K : List Name} :
    ∀ N : List Name, (∀ x ∈ N, x ∉ K → IndepOf g x) → DependsOnly g (N ++ K) → DependsOnly g K
  | [], _, h => by simpa using h
  | x :: N, hind, h => by
    apply dependsOnly_restrict N (fun y hy => hind y (List.mem_cons_of_mem _ hy))
    by_cases hx : x ∈ K
    · exact h.mono (by
        intro v hv
        rcases List.mem_cons.mp hv with rfl | hv
        · exact List.mem_append_right _ hx
        · exact hv)
    · have hi := hind x List.mem_cons_self hx
      intro σ τ hστ
      have h1 : g σ = g (τ.set x (σ x)) := by
        apply h
        intro v hv
        rcases List.mem_cons.mp hv with rfl | hv
        · simp
        · by_cases e : v = x
          · subst e; simp
          · simp [Val.set, e, hστ v hv]
      rw [h1, hi]

variable {M : Scm} {G : MG Name}

/-- the weight depends only on the latents and the nodes of the graph -/
theorem weight_dependsOnly (hM : M.Compatible G) (hG : G.WF) (S : List Name) (hS : ∀ v ∈ S, v ∈ G.nodes) :
    DependsOnly (M.weight S) (M.lat ++ G.nodes) := by
  unfold Scm.weight
  apply DependsOnly.mul
  · apply dependsOnly_listProd
    intro u hu σ τ h
    show M.prior u (σ u) = M.prior u (τ u)
    rw [h u (List.mem_append_left _ hu)]
  · apply dependsOnly_listProd
    intro v hv
    apply (hM.kern_dep v (hS v hv)).mono
    intro x hx
    rcases List.mem_cons.mp hx with rfl | hx
    · exact List.mem_append_right _ (hS _ hv)
    · rcases List.mem_append.mp hx with hx | hx
      · exact List.mem_append_right _ (hG.di_mem _ (MG.mem_parents.mp hx)).1
      · exact List.mem_append_left _ (hM.latOf_sub v x hx)

/-- a c-factor depends only on the nodes of the graph -/
theorem Q_dependsOnly (hM : M.Compatible G) (hG : G.WF) (S : List Name) (hS : ∀ v ∈ S, v ∈ G.nodes) :
    DependsOnly (M.Q S) G.nodes := by
  apply dependsOnly_restrict M.lat
  · intro u hu _
    exact sumVars_indep_mem M.card M.lat _ hu
  · exact sumVars_dependsOnly M.card M.lat (weight_dependsOnly hM hG S hS)

/-! ### the single-world distribution `F X E = P_{do(X)}(E)` as a function of the assignment -/

/-- `Σ_{V ∖ (X ∪ E)} Q[V ∖ X]`: the probability, under `do(X := σ X)`, that the variables `E` take the values `σ E` -/
def F (M : Scm) (G : MG Name) (X E : List Name) : Val → Rat :=
  sumVars M.card (G.nodes.filter (fun v => v ∉ X ∧ v ∉ E)) (M.Q (G.nodes.filter (· ∉ X)))

theorem F_congr (X : List Name) {E E' : List Name} (h : ∀ v, v ∈ E ↔ v ∈ E') : F M G X E = F M G X E' := by
  unfold F
  congr 1
  apply List.filter_congr
  intro x _
  simp only [h x]

/-- members of `E` that are intervened on do not matter -/
theorem F_congr_mod (X : List Name) {E E' : List Name} (h : ∀ v, v ∉ X → (v ∈ E ↔ v ∈ E')) :
    F M G X E = F M G X E' := by
  unfold F
  congr 1
  apply List.filter_congr
  intro x _
  by_cases hx : x ∈ X
  · simp [hx]
  · simp only [h x hx]

theorem F_pos (hM : M.Compatible G) (X E : List Name) (σ : Val) : 0 < F M G X E σ :=
  Scm.sumVars_pos _ _ _ (fun x _ => hM.card_pos x)
    (fun τ => Scm.Q_pos hM _ (fun _ hv => (List.mem_filter.mp hv).1) τ) σ

theorem F_dependsOnly (hM : M.Compatible G) (hG : G.WF) (X E : List Name) : DependsOnly (F M G X E) (X ++ E) := by
  apply dependsOnly_restrict G.nodes
  · intro x hx hxK
    apply sumVars_indep_mem
    simp only [List.mem_filter, decide_eq_true_eq]
    exact ⟨hx, fun h => hxK (List.mem_append_left _ h), fun h => hxK (List.mem_append_right _ h)⟩
  · apply sumVars_dependsOnly
    exact (Q_dependsOnly hM hG _ (fun v hv => (List.mem_filter.mp hv).1)).mono
      (fun v hv => List.mem_append_left _ hv)

/-- **marginalisation inside one world** -/
theorem F_marg (hG : G.WF) (X E : List Name) (x : Name) (hx : x ∈ G.nodes) (hxX : x ∉ X) (hxE : x ∉ E) :
    sumVar M.card x (F M G X (x :: E)) = F M G X E := by
  unfold F
  have hperm : (G.nodes.filter (fun v => v ∉ X ∧ v ∉ E)).Perm
      (x :: G.nodes.filter (fun v => v ∉ X ∧ v ∉ x :: E)) := by
    apply (List.perm_ext_iff_of_nodup (hG.nodup.filter _) _).mpr
    · intro a
      simp only [List.mem_filter, List.mem_cons, decide_eq_true_eq, not_or]
      constructor
      · rintro ⟨h1, h2, h3⟩
        by_cases e : a = x
        · exact Or.inl e
        · exact Or.inr ⟨h1, h2, e, h3⟩
      · rintro (rfl | ⟨h1, h2, _, h3⟩)
        · exact ⟨hx, hxX, hxE⟩
        · exact ⟨h1, h2, h3⟩
    · rw [List.nodup_cons]
      refine ⟨?_, hG.nodup.filter _⟩
      simp [List.mem_filter]
  rw [sumVars_perm M.card hperm]
  rfl

theorem sumVars_F (hG : G.WF) (X E : List Name) :
    ∀ ys : List Name, ys.Nodup → (∀ y ∈ ys, y ∈ G.nodes ∧ y ∉ X ∧ y ∉ E) →
      sumVars M.card ys (F M G X (ys ++ E)) = F M G X E
  | [], _, _ => rfl
  | y :: ys, hnd, h => by
    have hy := h y List.mem_cons_self
    have hyys : y ∉ ys := (List.nodup_cons.mp hnd).1
    simp only [sumVars]
    -- move `y` behind `ys` inside `E`
    have hc : F M G X (y :: ys ++ E) = F M G X (ys ++ (y :: E)) := by
      apply F_congr; intro v; simp only [List.cons_append, List.mem_cons, List.mem_append]; tauto
    rw [hc, sumVars_F hG X (y :: E) ys (List.nodup_cons.mp hnd).2
      (fun z hz => ⟨(h z (List.mem_cons_of_mem _ hz)).1, (h z (List.mem_cons_of_mem _ hz)).2.1, by
        intro hm
        rcases List.mem_cons.mp hm with e | hm
        · exact hyys (e ▸ hz)
        · exact (h z (List.mem_cons_of_mem _ hz)).2.2 hm⟩)]
    exact F_marg hG X E y hy.1 hy.2.1 hy.2.2

/-! ### `prDo` at assignments read off `σ` -/

theorem setMany_agrees (σ : Val) : ∀ (L : List (Name × Nat)) (τ : Val) (n : Name), (∀ a ∈ L, a.2 = σ a.1) →
    (n ∈ L.map (·.1) ∨ τ n = σ n) → Val.setMany τ L n = σ n
  | [], τ, n, _, h => by
    rcases h with h | h
    · simp at h
    · exact h
  | (x, k) :: r, τ, n, hL, h => by
    simp only [Val.setMany]
    apply setMany_agrees σ r _ n (fun a ha => hL a (List.mem_cons_of_mem _ ha))
    have hk : k = σ x := hL (x, k) List.mem_cons_self
    by_cases e : n = x
    · right; subst e; simp [Val.set, hk]
    · rcases h with h | h
      · simp only [List.map_cons, List.mem_cons] at h
        rcases h with h | h
        · exact absurd h e
        · exact Or.inl h
      · right; simp [Val.set, e, h]

theorem consistent_of_read (σ : Val) (L : List (Name × Nat)) (hL : ∀ a ∈ L, a.2 = σ a.1) :
    Scm.consistent L = true := by
  unfold Scm.consistent
  simp only [List.all_eq_true, Bool.or_eq_true, bne_iff_ne, ne_eq, beq_iff_eq]
  intro a ha b hb
  by_cases e : a.1 = b.1
  · right; rw [hL a ha, hL b hb, e]
  · exact Or.inl e

/-- `prDo` at values read off `σ` is `F` at `σ` -/
theorem prDo_eq_F (hM : M.Compatible G) (hG : G.WF) (σ : Val) (dos ev : List (Name × Nat))
    (hd : ∀ a ∈ dos, a.2 = σ a.1) (he : ∀ a ∈ ev, a.2 = σ a.1) :
    M.prDo G dos ev = F M G (dos.map (·.1)) (ev.map (·.1)) σ := by
  have hL : ∀ a ∈ dos ++ ev, a.2 = σ a.1 := by
    intro a ha
    rcases List.mem_append.mp ha with h | h
    · exact hd a h
    · exact he a h
  unfold Scm.prDo
  rw [consistent_of_read σ _ hL]
  simp only [Bool.not_true, Bool.false_eq_true, ↓reduceIte]
  apply F_dependsOnly hM hG
  intro v hv
  apply setMany_agrees σ _ _ v hL
  left
  simpa [List.map_append] using hv

/-! ### probabilities whose variables live in one world -/

/-- all variables carry the same un-starred subscripts `w` and are not starred (`+X`) themselves; the spelling `-X`
of a variable in event position reads the same value as `X` -/
def InWorld (w : List Iv) (vs : List Var) : Prop := ∀ v ∈ vs, v.ivs = w ∧ v.star ≠ some true

theorem atom_inWorld (σ σ' : Val) {w : List Iv} {v : Var} (h : v.ivs = w ∧ v.star ≠ some true) :
    Var.atom σ σ' v = ⟨v.name, w.map (Iv.eval σ σ'), σ v.name⟩ := by
  unfold Var.atom Var.value
  rw [h.1]
  have h2 := h.2
  cases hs : v.star with
  | none => rfl
  | some b =>
    cases b with
    | true => exact absurd hs h2
    | false => rfl

theorem prAtoms_world (hM : M.Compatible G) (hG : G.WF) (σ σ' : Val) (w : List Iv)
    (hw : ∀ i ∈ w, i.star = false) (vs : List Var) (hne : vs ≠ []) (hvs : InWorld w vs) :
    M.prAtoms G (vs.map (Var.atom σ σ')) = F M G (w.map (·.name)) (vs.map (·.name)) σ := by
  have hmap : vs.map (Var.atom σ σ') = vs.map fun v => (⟨v.name, w.map (Iv.eval σ σ'), σ v.name⟩ : Atom) :=
    List.map_congr_left fun v hv => atom_inWorld σ σ' (hvs v hv)
  rw [hmap]
  cases vs with
  | nil => exact absurd rfl hne
  | cons v vs' =>
    simp only [List.map_cons, Scm.prAtoms]
    have hall : (List.map (fun v => (⟨v.name, w.map (Iv.eval σ σ'), σ v.name⟩ : Atom)) vs').all
        (fun b => b.dos == w.map (Iv.eval σ σ')) = true := by
      simp [List.all_eq_true]
    rw [hall]
    simp only [↓reduceIte]
    rw [prDo_eq_F hM hG σ]
    · congr 1
      · rw [List.map_map]
        apply List.map_congr_left
        intro i _
        simp [Iv.eval]
      · simp [List.map_map, Function.comp_def]
    · intro a ha
      rcases List.mem_map.mp ha with ⟨i, hi, rfl⟩
      simp [Iv.eval, hw i hi]
    · intro a ha
      simp only [List.map_map, List.mem_cons, List.mem_map, Function.comp_apply] at ha
      rcases ha with rfl | ⟨x, _, rfl⟩ <;> rfl

/-- **what a single-world probability denotes**: `P_X(C | Pa) = F X (C ∪ Pa) / F X Pa` (no denominator without
parents) -/
theorem den_prob_world (hM : M.Compatible G) (hG : G.WF) (σ σ' : Val) (w : List Iv)
    (hw : ∀ i ∈ w, i.star = false) (pop : Option Var) (c p : List Var) (hc : c ≠ [])
    (hcp : InWorld w (c ++ p)) :
    den (M.env G) σ' (.prob pop c p) σ =
      F M G (w.map (·.name)) ((c ++ p).map (·.name)) σ /
        (if p = [] then 1 else F M G (w.map (·.name)) (p.map (·.name)) σ) := by
  simp only [den, Scm.env]
  rw [prAtoms_world hM hG σ σ' w hw (c ++ p) (by simp [hc]) hcp]
  by_cases hp : p = []
  · subst hp
    simp [Scm.prAtoms]
  · rw [prAtoms_world hM hG σ σ' w hw p hp (fun v hv => hcp v (List.mem_append_right _ hv))]
    simp [hp]

end TianProb
end Y0
