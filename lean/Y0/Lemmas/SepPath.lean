/-
  Y0.Lemmas.SepPath — walks as lists of steps:
  * the list definition `IsOpenWalk` and the inductive definition `MWalk` describe the same walks;
  * an open walk between two different nodes can be shortened to an open *path* (no node twice):
    cutting out a closed sub-walk keeps the walk open (`cut_open`), the only delicate case being a node that
    was a non-collider on both visits and becomes a collider — it is then an ancestor of a collider inside
    the removed loop (`anc_of_tail_loop`).
-/
import Y0.Lemmas.SepWalk
import Mathlib.Data.List.Nodup

namespace Y0.MG
variable {α : Type}
open Relation

/-- the node a step list ends in, starting from `a` -/
def endOf (a : α) (p : List (Step α)) : α :=
  match p.getLast? with
  | some s => s.dst
  | none => a

@[simp] theorem endOf_nil (a : α) : endOf a [] = a := rfl
@[simp] theorem endOf_concat (a : α) (p : List (Step α)) (s : Step α) : endOf a (p ++ [s]) = s.dst := by
  simp [endOf]

theorem exists_concat_of_ne_nil {β : Type} (p : List β) (h : p ≠ []) : ∃ q s, p = q ++ [s] := by
  induction p using List.reverseRecOn with
  | nil => exact absurd rfl h
  | append_singleton q s _ => exact ⟨q, s, rfl⟩

theorem endOf_cons (a : α) (s : Step α) (p : List (Step α)) : endOf a (s :: p) = endOf s.dst p := by
  cases p with
  | nil => simp [endOf]
  | cons t p =>
    unfold endOf
    rw [List.getLast?_cons_cons]
    cases h : (t :: p).getLast? with
    | none => simp at h
    | some x => rfl

theorem endOf_append_of_ne_nil (a : α) (p q : List (Step α)) (hq : q ≠ []) : endOf a (p ++ q) = endOf a q := by
  obtain ⟨q', s, rfl⟩ := exists_concat_of_ne_nil q hq
  rw [← List.append_assoc, endOf_concat, endOf_concat]

theorem endOf_of_map_getLast? (a b : α) (p : List (Step α)) (h : p.getLast?.map Step.dst = some b) :
    endOf a p = b := by
  unfold endOf
  cases hl : p.getLast? with
  | none => simp [hl] at h
  | some s => simpa [hl] using h

theorem endOf_of_getLast? (a : α) (p : List (Step α)) (s : Step α) (h : p.getLast? = some s) :
    endOf a p = s.dst := by simp [endOf, h]

/-! ### list walks and inductive walks -/

section equiv
variable (G : MG α) (C : List α) (a : α)

theorem mwalk_of_list (p : List (Step α)) :
    (∀ s ∈ p, G.EdgeM s.src s.ms s.md s.dst) → List.IsChain (G.OpenAt C) p →
    (∀ s, p.head? = some s → s.src = a) →
    G.MWalk C a (endOf a p) (p.getLast?.map Step.md) := by
  induction p using List.reverseRecOn with
  | nil => intro _ _ _; exact .nil
  | append_singleton q s ih =>
    intro hE hCh hH
    rw [List.isChain_append] at hCh
    obtain ⟨hq, _, hjoin⟩ := hCh
    have hw := ih (fun t ht => hE t (by simp [ht])) hq (fun t ht => hH t (by
      cases q with
      | nil => simp at ht
      | cons x xs => simpa using ht))
    have hsrc : s.src = endOf a q := by
      cases hl : q.getLast? with
      | none =>
        have : q = [] := List.getLast?_eq_none_iff.1 hl
        subst this
        simpa using hH s (by simp)
      | some t =>
        rw [endOf_of_getLast? a q t hl]
        exact (hjoin t (by simp [hl]) s (by simp)).1.symm
    have he := hE s (by simp)
    rw [hsrc] at he
    have := MWalk.snoc (G := G) (C := C) hw he
      (by
        intro ⟨h1, h2⟩
        cases hl : q.getLast? with
        | none => simp [hl] at h1
        | some t =>
          simp only [hl, Option.map_some, Option.some.injEq] at h1
          rw [endOf_of_getLast? a q t hl]
          exact (hjoin t (by simp [hl]) s (by simp)).2.1 ⟨h1, h2⟩)
      (by
        intro h1 h2
        cases hl : q.getLast? with
        | none => simp [hl] at h1
        | some t =>
          rw [endOf_of_getLast? a q t hl]
          refine (hjoin t (by simp [hl]) s (by simp)).2.2 (fun hc => h2 ⟨by simp [hl, hc.1], hc.2⟩))
    simpa using this

theorem list_of_mwalk {y : α} {m : Option Mark} (hw : G.MWalk C a y m) :
    ∃ p : List (Step α), (∀ s ∈ p, G.EdgeM s.src s.ms s.md s.dst) ∧ List.IsChain (G.OpenAt C) p ∧
      (∀ s, p.head? = some s → s.src = a) ∧ endOf a p = y ∧ p.getLast?.map Step.md = m ∧
      (p = [] → m = none) := by
  induction hw with
  | nil => exact ⟨[], by simp, .nil, by simp, rfl, rfl, fun _ => rfl⟩
  | @snoc y z m my mz hw he c1 c2 ih =>
    obtain ⟨p, hE, hCh, hH, hend, hlast, hnil⟩ := ih
    refine ⟨p ++ [⟨y, my, mz, z⟩], ?_, ?_, ?_, by simp, by simp, by simp⟩
    · intro s hs
      rcases List.mem_append.1 hs with hs | hs
      · exact hE s hs
      · simp at hs; subst hs; exact he
    · rw [List.isChain_append]
      refine ⟨hCh, List.isChain_singleton _, ?_⟩
      intro t ht s hs
      simp at hs; subst hs
      have ht' : p.getLast? = some t := ht
      have hty : t.dst = y := by rw [← hend, endOf_of_getLast? a p t ht']
      have hm : m = some t.md := by rw [← hlast, ht']; rfl
      refine ⟨hty, ?_, ?_⟩
      · intro hc; rw [hty]; exact c1 ⟨by rw [hm, hc.1], hc.2⟩
      · intro hc; rw [hty]
        exact c2 (by rw [hm]; simp) (fun hc' => hc ⟨by
          have := hc'.1; rw [hm] at this; exact Option.some.inj this, hc'.2⟩)
    · intro s hs
      cases p with
      | nil =>
        simp at hs; subst hs
        have := hnil rfl
        subst this
        exact mwalk_none_eq hw
      | cons t p' => exact hH s (by simpa using hs)

end equiv

/-- for distinct endpoints outside `C`: the list definition and the inductive definition agree -/
theorem mconnWalk_iff_mwalk (G : MG α) (C : List α) (a b : α) (hab : a ≠ b) :
    G.MConnWalk a b C ↔ a ∉ C ∧ b ∉ C ∧ ∃ m, G.MWalk C a b m := by
  constructor
  · rintro ⟨ha, hb, p, hE, hH, hL, hCh⟩
    refine ⟨ha, hb, p.getLast?.map Step.md, ?_⟩
    have hend : endOf a p = b := endOf_of_map_getLast? a b p hL
    rw [← hend]
    exact mwalk_of_list G C a p hE hCh (fun s hs => by simpa [hs] using hH)
  · rintro ⟨ha, hb, m, hw⟩
    obtain ⟨p, hE, hCh, hH, hend, _, _⟩ := list_of_mwalk G C a hw
    have hne : p ≠ [] := by rintro rfl; exact hab (by simpa using hend)
    refine ⟨ha, hb, p, hE, ?_, ?_, hCh⟩
    · cases p with
      | nil => exact absurd rfl hne
      | cons s p' => simpa using hH s rfl
    · obtain ⟨q, s, rfl⟩ := exists_concat_of_ne_nil p hne
      simpa using hend

/-! ### cutting a loop out of an open walk -/

section cut
variable (G : MG α) (C : List α)

/-- a sub-walk that leaves `x` along `x → …` and comes back along `… ← x` contains a collider below `x` -/
theorem anc_of_tail_loop (L : List (Step α)) :
    ∀ s : Step α, (∀ x ∈ s :: L, G.EdgeM x.src x.ms x.md x.dst) → List.IsChain (G.OpenAt C) (s :: L) →
    s.ms = .tail → (s :: L).getLast?.map Step.md = some .tail → G.Anc C s.src := by
  induction L with
  | nil =>
    intro s hE _ hms hmd
    have he := hE s (by simp)
    rcases s with ⟨x, ms, md, y⟩
    simp only [List.getLast?_singleton, Option.map_some, Option.some.injEq] at hmd hms he
    subst hms; subst hmd
    cases he
  | cons u L ih =>
    intro s hE hCh hms hmd
    rw [List.isChain_cons_cons] at hCh
    obtain ⟨hopen, hCh'⟩ := hCh
    have he := hE s (by simp)
    have hfwd : G.DiEdge s.src s.dst ∧ s.md = .head := by
      rcases s with ⟨x, ms, md, y⟩
      simp only at hms he ⊢
      subst hms
      cases he with
      | fwd h => exact ⟨h, rfl⟩
    by_cases hu : u.ms = .head
    · exact anc_of_edge G hfwd.1 (hopen.2.1 ⟨hfwd.2, hu⟩)
    · have hu' : u.ms = .tail := by cases h : u.ms <;> simp_all
      have := ih u (fun x hx => hE x (by simp [hx])) hCh' hu' (by
        simpa [List.getLast?_cons_cons] using hmd)
      rw [← hopen.1] at this
      exact anc_of_edge G hfwd.1 this

/-- removing a closed sub-walk `p₂` (from `x` back to `x`) keeps an open walk open -/
theorem cut_open (a b : α) (hab : a ≠ b) (p₁ p₂ p₃ : List (Step α)) (h₂ : p₂ ≠ [])
    (hw : G.IsOpenWalk C a b (p₁ ++ p₂ ++ p₃)) (hloop : endOf a p₁ = endOf a (p₁ ++ p₂)) :
    G.IsOpenWalk C a b (p₁ ++ p₃) := by
  obtain ⟨hE, hH, hL, hCh⟩ := hw
  rw [List.append_assoc, List.isChain_append] at hCh
  obtain ⟨hC1, hC23, hJ12⟩ := hCh
  rw [List.isChain_append] at hC23
  obtain ⟨hC2, hC3, hJ23⟩ := hC23
  have hend2 : endOf a (p₁ ++ p₂) = endOf a p₂ := endOf_append_of_ne_nil a p₁ p₂ h₂
  have hb : endOf a (p₁ ++ p₂ ++ p₃) = b := endOf_of_map_getLast? a b _ hL
  obtain ⟨q₂, l₂, rfl⟩ := exists_concat_of_ne_nil p₂ h₂
  have hl2 : endOf a p₁ = l₂.dst := by rw [hloop, hend2]; simp
  -- the first step of the loop
  obtain ⟨f₂, r₂, hf₂⟩ : ∃ f₂ r₂, q₂ ++ [l₂] = f₂ :: r₂ := by
    cases q₂ with
    | nil => exact ⟨l₂, [], rfl⟩
    | cons x xs => exact ⟨x, xs ++ [l₂], rfl⟩
  refine ⟨fun s hs => hE s (by
      rcases List.mem_append.1 hs with hs | hs
      · simp [hs]
      · simp [hs]), ?_, ?_, ?_⟩
  · -- starts at `a`
    cases p₁ with
    | cons s p₁' => simpa using hH
    | nil =>
      cases p₃ with
      | nil =>
        exfalso; apply hab
        simp at hb hl2
        rw [← hb, ← hl2]
      | cons t p₃' =>
        have := (hJ23 l₂ (by simp) t (by simp)).1
        simp only [List.nil_append, List.head?_cons, Option.map_some, Option.some.injEq]
        simp at hl2
        rw [← this, ← hl2]
  · -- ends at `b`
    cases p₃ with
    | cons t p₃' =>
      have : (p₁ ++ t :: p₃').getLast? = (p₁ ++ (q₂ ++ [l₂]) ++ t :: p₃').getLast? := by
        rw [List.getLast?_append, List.getLast?_append]
        cases hl : (t :: p₃').getLast? with
        | none => simp at hl
        | some x => simp
      rw [this]; exact hL
    | nil =>
      simp only [List.append_nil] at hb ⊢
      rw [← hloop] at hb
      cases hl : p₁.getLast? with
      | none =>
        exfalso; apply hab
        simp [endOf, hl] at hb; exact hb
      | some s => simp [endOf, hl] at hb; simp [hb]
  · -- open at the new junction
    rw [List.isChain_append]
    refine ⟨hC1, hC3, ?_⟩
    intro s₁ hs₁ t₃ ht₃
    have hs₁' : p₁.getLast? = some s₁ := hs₁
    have ht₃' : p₃.head? = some t₃ := ht₃
    have hdst : s₁.dst = l₂.dst := by rw [← hl2, endOf_of_getLast? a p₁ s₁ hs₁']
    have h12 := hJ12 s₁ hs₁ f₂ (by rw [hf₂]; simp)
    have h23 := hJ23 l₂ (by simp) t₃ ht₃
    refine ⟨hdst.trans h23.1, ?_, ?_⟩
    · rintro ⟨hi, ho⟩
      by_cases ho1 : f₂.ms = .head
      · exact h12.2.1 ⟨hi, ho1⟩
      · by_cases hi3 : l₂.md = .head
        · rw [hdst]; exact h23.2.1 ⟨hi3, ho⟩
        · have ho1' : f₂.ms = .tail := by cases h : f₂.ms <;> simp_all
          have hi3' : l₂.md = .tail := by cases h : l₂.md <;> simp_all
          have hC2' := hC2
          rw [hf₂] at hC2'
          have := anc_of_tail_loop G C r₂ f₂
            (fun s hs => hE s (by
              rw [← hf₂] at hs
              exact List.mem_append_left _ (List.mem_append_right _ hs))) hC2' ho1' (by rw [← hf₂]; simp [hi3'])
          rw [h12.1]; exact this
    · intro hnc
      by_cases hi : s₁.md = .head
      · have ho : ¬ t₃.ms = .head := fun ho => hnc ⟨hi, ho⟩
        rw [hdst]
        exact h23.2.2 (fun hc => ho hc.2)
      · exact h12.2.2 (fun hc => hi hc.1)

end cut

/-! ### a repeated node gives a loop -/

theorem exists_loop (a : α) (p : List (Step α)) (h : ¬ (a :: p.map Step.dst).Nodup) :
    ∃ p₁ p₂ p₃, p = p₁ ++ p₂ ++ p₃ ∧ p₂ ≠ [] ∧ endOf a p₁ = endOf a (p₁ ++ p₂) := by
  induction p generalizing a with
  | nil => simp at h
  | cons s p ih =>
    by_cases ha : a ∈ (s :: p).map Step.dst
    · obtain ⟨t, ht, hta⟩ := List.mem_map.1 ha
      obtain ⟨q₁, q₃, hq⟩ := List.append_of_mem ht
      refine ⟨[], q₁ ++ [t], q₃, by simp [hq], by simp, ?_⟩
      simp [hta]
    · have : ¬ (s.dst :: p.map Step.dst).Nodup := by
        intro hn
        apply h
        rw [List.nodup_cons]
        exact ⟨ha, by simpa using hn⟩
      obtain ⟨p₁, p₂, p₃, rfl, h₂, hl⟩ := ih s.dst this
      refine ⟨s :: p₁, p₂, p₃, by simp, h₂, ?_⟩
      rw [List.cons_append, endOf_cons, endOf_cons, hl]

/-- **Walks shorten to paths.**  Between distinct nodes an open walk yields an open path. -/
theorem mconnPath_of_mconnWalk (G : MG α) (C : List α) (a b : α) (hab : a ≠ b) (h : G.MConnWalk a b C) :
    G.MConnPath a b C := by
  obtain ⟨ha, hb, p, hp⟩ := h
  refine ⟨ha, hb, ?_⟩
  -- strong induction on the number of steps
  suffices H : ∀ n (p : List (Step α)), p.length = n → G.IsOpenWalk C a b p →
      ∃ q, G.IsOpenWalk C a b q ∧ (a :: q.map Step.dst).Nodup from H p.length p rfl hp
  intro n
  induction n using Nat.strong_induction_on with
  | _ n ih =>
    intro p hn hp
    by_cases hnd : (a :: p.map Step.dst).Nodup
    · exact ⟨p, hp, hnd⟩
    · obtain ⟨p₁, p₂, p₃, rfl, h₂, hl⟩ := exists_loop a p hnd
      have hcut := cut_open G C a b hab p₁ p₂ p₃ h₂ hp hl
      refine ih (p₁ ++ p₃).length ?_ (p₁ ++ p₃) rfl hcut
      have : p₂.length > 0 := List.length_pos_iff.2 h₂
      simp only [List.length_append] at hn ⊢
      omega

theorem mconnWalk_of_mconnPath (G : MG α) (C : List α) (a b : α) (h : G.MConnPath a b C) :
    G.MConnWalk a b C := by
  obtain ⟨ha, hb, p, hp, _⟩ := h
  exact ⟨ha, hb, p, hp⟩

theorem mconnPath_iff_mconnWalk (G : MG α) (C : List α) (a b : α) (hab : a ≠ b) :
    G.MConnPath a b C ↔ G.MConnWalk a b C :=
  ⟨mconnWalk_of_mconnPath G C a b, mconnPath_of_mconnWalk G C a b hab⟩

end Y0.MG
