/-
  Y0.Lemmas.Ctf — helper lemmas for property C19: ancestors in the mutilated graphs `G_{\overline X}` / `G_{\underline X}`
  computed by the model equal the relational closures of Y0.Spec.CtfSpec.
-/
import Y0.Props.C14
import Y0.Spec.CtfSpec
import Y0.Model.Ctf
import Y0.Model.CtfFactor
import Y0.Model.CtfSimplify

namespace Y0.Ctf
open Relation Y0.MG

theorem mem'_iff {α : Type} [DecidableEq α] (x : α) (l : List α) : mem' x l = true ↔ x ∈ l := by
  simp [mem']

theorem mem_ivNames (v : Var) (x : Name) : x ∈ ivNames v ↔ x ∈ subNames v := by
  simp [ivNames, subNames, mem_dedup']

/-- ancestors computed in `G.remove_in_edges(X)` are the ancestors in `G_{\overline X}` -/
theorem mem_anc_removeIn (g : MG Name) (X : List Name) (y : Name) (A : List Name)
    (h : (g.removeInEdges X).ancestorsInclusive [y] = .ok A) (a : Name) :
    a ∈ A ↔ AncBar g X y a := by
  rw [ancestorsInclusive_spec _ (wf_fromEdges _ _ _) _ _ h]
  simp only [Anc, List.mem_singleton, exists_eq_left, AncBar]
  constructor <;> intro hh
  · exact ReflTransGen.mono (fun u v huv => (diEdge_removeInEdges g X u v).1 huv) _ _ hh
  · exact ReflTransGen.mono (fun u v huv => (diEdge_removeInEdges g X u v).2 huv) _ _ hh

/-- ancestors computed in `G.remove_out_edges(X)` are the ancestors in `G_{\underline X}` -/
theorem mem_anc_removeOut (g : MG Name) (X : List Name) (y : Name) (A : List Name)
    (h : (g.removeOutEdges X).ancestorsInclusive [y] = .ok A) (a : Name) :
    a ∈ A ↔ AncUnder g X y a := by
  rw [ancestorsInclusive_spec _ (wf_fromEdges _ _ _) _ _ h]
  simp only [Anc, List.mem_singleton, exists_eq_left, AncUnder]
  constructor <;> intro hh
  · exact ReflTransGen.mono (fun u v huv => (diEdge_removeOutEdges g X u v).1 huv) _ _ hh
  · exact ReflTransGen.mono (fun u v huv => (diEdge_removeOutEdges g X u v).2 huv) _ _ hh

/-- the closures only depend on the *set* `X` -/
theorem ancBar_congr (g : MG Name) (X X' : List Name) (hX : ∀ x, x ∈ X ↔ x ∈ X') (y a : Name) :
    AncBar g X y a ↔ AncBar g X' y a := by
  constructor <;> intro hh
  · exact ReflTransGen.mono (fun u v huv => ⟨huv.1, fun h => huv.2 ((hX v).2 h)⟩) _ _ hh
  · exact ReflTransGen.mono (fun u v huv => ⟨huv.1, fun h => huv.2 ((hX v).1 h)⟩) _ _ hh

theorem ancUnder_congr (g : MG Name) (X X' : List Name) (hX : ∀ x, x ∈ X ↔ x ∈ X') (y a : Name) :
    AncUnder g X y a ↔ AncUnder g X' y a := by
  constructor <;> intro hh
  · exact ReflTransGen.mono (fun u v huv => ⟨huv.1, fun h => huv.2 ((hX u).2 h)⟩) _ _ hh
  · exact ReflTransGen.mono (fun u v huv => ⟨huv.1, fun h => huv.2 ((hX u).1 h)⟩) _ _ hh

/-- removing fewer incoming edges keeps every ancestor -/
theorem ancBar_mono (g : MG Name) (X X' : List Name) (hX : ∀ x, x ∈ X' → x ∈ X) (y a : Name)
    (h : AncBar g X y a) : AncBar g X' y a :=
  ReflTransGen.mono (fun _ v huv => ⟨huv.1, fun hv => huv.2 (hX v hv)⟩) _ _ h

/-- membership of nodes is preserved by the two edge removals (on a well-formed graph) -/
theorem mem_nodes_removeIn (g : MG Name) (hg : g.WF) (X : List Name) (v : Name) :
    v ∈ (g.removeInEdges X).nodes ↔ v ∈ g.nodes := mem_nodes_removeInEdges g hg X v

theorem mem_nodes_removeOut (g : MG Name) (hg : g.WF) (X : List Name) (v : Name) :
    v ∈ (g.removeOutEdges X).nodes ↔ v ∈ g.nodes := mem_nodes_removeOutEdges g hg X v

/-- an ancestor of a node is a node -/
theorem ancBar_mem_nodes (g : MG Name) (hg : g.WF) (X : List Name) (y a : Name) (hy : y ∈ g.nodes)
    (h : AncBar g X y a) : a ∈ g.nodes := by
  induction h using ReflTransGen.head_induction_on with
  | refl => exact hy
  | head hab _ _ => exact (hg.di_mem _ hab.1).1

theorem ancUnder_mem_nodes (g : MG Name) (hg : g.WF) (X : List Name) (y a : Name) (hy : y ∈ g.nodes)
    (h : AncUnder g X y a) : a ∈ g.nodes := by
  induction h using ReflTransGen.head_induction_on with
  | refl => exact hy
  | head hab _ _ => exact (hg.di_mem _ hab.1).1

/-! ### parents, sorting -/

theorem mem_parents (g : MG Name) (a b : Name) : a ∈ g.parents b ↔ g.DiEdge a b := by
  simp only [MG.parents, List.mem_map, List.mem_filter, decide_eq_true_eq, DiEdge]
  constructor
  · rintro ⟨⟨x, y⟩, ⟨he, rfl⟩, rfl⟩; exact he
  · intro h; exact ⟨(a, b), ⟨h, rfl⟩, rfl⟩

theorem mem_insertBy {α : Type} (lt : α → α → Bool) (x y : α) (l : List α) :
    y ∈ insertBy lt x l ↔ y = x ∨ y ∈ l := by
  induction l with
  | nil => simp [insertBy]
  | cons a l ih =>
    simp only [insertBy]
    split
    · simp only [List.mem_cons, ih]; tauto
    · simp

theorem mem_sortBy {α : Type} (lt : α → α → Bool) (y : α) (l : List α) : y ∈ sortBy lt l ↔ y ∈ l := by
  induction l with
  | nil => simp [sortBy]
  | cons a l ih =>
    have : sortBy lt (a :: l) = insertBy lt a (sortBy lt l) := rfl
    rw [this, mem_insertBy, ih]; simp

/-- membership in the subscript list built by the conversion to ctf-factor form -/
theorem mem_convertIvs (g : MG Name) (v : Var) (i : Iv) :
    i ∈ convertIvs (g.parents v.name) v ↔
      g.DiEdge i.name v.name ∧ (i ∈ v.ivs ∨ (i.star = false ∧ ∀ j ∈ v.ivs, j.name ≠ i.name)) := by
  unfold convertIvs
  simp only
  rw [mem_sortBy, mem_dedup']
  by_cases hcf : v.isCf = true
  · simp only [hcf, ↓reduceIte, List.mem_append, List.mem_filter, decide_eq_true_eq, mem_parents, List.mem_map,
      not_exists, not_and]
    constructor
    · rintro (⟨hi, hp⟩ | ⟨p, ⟨hp, hnot⟩, rfl⟩)
      · exact ⟨hp, Or.inl hi⟩
      · refine ⟨hp, Or.inr ⟨rfl, fun j hj hjp => ?_⟩⟩
        exact hnot j ⟨hj, by simpa [hjp] using hp⟩ hjp
    · rintro ⟨hp, hi | ⟨hs, hno⟩⟩
      · exact Or.inl ⟨hi, hp⟩
      · refine Or.inr ⟨i.name, ⟨hp, fun j hj hjn => hno j hj.1 hjn⟩, ?_⟩
        cases i; simp only at hs; subst hs; rfl
  · have hnil : v.ivs = [] := by
      simp only [Var.isCf, Bool.not_eq_eq_eq_not] at hcf
      simpa using hcf
    simp only [hcf, Bool.false_eq_true, ↓reduceIte, List.nil_append, List.map_nil, List.not_mem_nil,
      not_false_eq_true, decide_true, List.filter_true, List.mem_map, mem_parents, hnil, false_or,
      IsEmpty.forall_iff, implies_true, and_true]
    constructor
    · rintro ⟨p, hp, rfl⟩; exact ⟨hp, rfl⟩
    · rintro ⟨hp, hs⟩; refine ⟨i.name, hp, ?_⟩; cases i; simp only at hs; subst hs; rfl

/-! ### `mapM` in `Except` -/

theorem mapM_ok_mem {α β : Type} (f : α → Except Err β) (l : List α) (r : List β) (h : l.mapM f = .ok r) (y : β) :
    y ∈ r ↔ ∃ x ∈ l, f x = .ok y := by
  induction l generalizing r with
  | nil =>
    simp only [List.mapM_nil, pure, Except.pure, Except.ok.injEq] at h
    subst h; simp
  | cons a l ih =>
    simp only [List.mapM_cons, bind, Except.bind] at h
    cases ha : f a with
    | error e => rw [ha] at h; cases h
    | ok b =>
      rw [ha] at h
      cases hl : l.mapM f with
      | error e => rw [hl] at h; cases h
      | ok bs =>
        rw [hl] at h
        simp only [pure, Except.pure, Except.ok.injEq] at h
        subst h
        simp only [List.mem_cons, ih bs hl]
        constructor
        · rintro (rfl | ⟨x, hx, hfx⟩)
          · exact ⟨a, Or.inl rfl, ha⟩
          · exact ⟨x, Or.inr hx, hfx⟩
        · rintro ⟨x, rfl | hx, hfx⟩
          · left; rw [ha] at hfx; cases hfx; rfl
          · right; exact ⟨x, hx, hfx⟩

theorem mapM_ok_of_forall {α β : Type} (f : α → Except Err β) (l : List α) (h : ∀ x ∈ l, ∃ y, f x = .ok y) :
    ∃ r, l.mapM f = .ok r := by
  induction l with
  | nil => exact ⟨[], rfl⟩
  | cons a l ih =>
    obtain ⟨b, hb⟩ := h a (by simp)
    obtain ⟨bs, hbs⟩ := ih (fun x hx => h x (by simp [hx]))
    exact ⟨b :: bs, by simp [List.mapM_cons, bind, Except.bind, hb, hbs, pure, Except.pure]⟩

theorem mapM_ok_length {α β : Type} (f : α → Except Err β) (l : List α) (r : List β) (h : l.mapM f = .ok r) :
    r.length = l.length := by
  induction l generalizing r with
  | nil => simp only [List.mapM_nil, pure, Except.pure, Except.ok.injEq] at h; subst h; rfl
  | cons a l ih =>
    simp only [List.mapM_cons, bind, Except.bind] at h
    cases ha : f a with
    | error e => rw [ha] at h; cases h
    | ok b =>
      rw [ha] at h
      cases hl : l.mapM f with
      | error e => rw [hl] at h; cases h
      | ok bs =>
        rw [hl] at h
        simp only [pure, Except.pure, Except.ok.injEq] at h
        subst h
        simp [ih bs hl]

end Y0.Ctf
