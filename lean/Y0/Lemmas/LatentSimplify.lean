/-
  Y0.Lemmas.LatentSimplify — `simplify_latent_dag` as a whole: its result is well formed, acyclic,
  `Simplified` and has the projection of the input; and a `Simplified` graph is a fixed point.
-/
import Y0.Lemmas.LatentRules
import Y0.Lemmas.LatentKahn

namespace Y0.LV

/-- the four rules in succession -/
theorem simplify_spec (prime : Nat → Nat) (hp : ∀ n, n < prime n) (D : LV) (hw : D.WF) (ha : D.Acyclic)
    (r : SimplifyResults) (h : D.simplify prime = .ok r) :
    r.graph.WF ∧ r.graph.Acyclic ∧ r.graph.Simplified ∧ SameProj D r.graph := by
  unfold simplify at h
  cases h1 : D.transformLatentsWithParents prime with
  | error e => simp [h1, bind, Except.bind] at h
  | ok D1 =>
    obtain ⟨w1, a1, s1, n1⟩ := transform_spec prime hp D D1 hw ha h1
    cases h2 : D1.removeWidowLatents with
    | error e => simp [h1, h2, bind, Except.bind] at h
    | ok p2 =>
      obtain ⟨D2, ws⟩ := p2
      obtain ⟨w2, a2, s2, f2, c2⟩ := removeWidowLatents_spec D1 D2 ws h2 w1 a1 n1
      cases h3 : D2.removeUnidirectionalLatents with
      | error e => simp [h1, h2, h3, bind, Except.bind] at h
      | ok p3 =>
        obtain ⟨D3, us⟩ := p3
        obtain ⟨e3, hS3, s3, t3⟩ := removeUnidirectionalLatents_spec D2 D3 us h3 w2 f2 c2
        have w3 : D3.WF := e3 ▸ wf_removeNodes D2 us w2
        have a3 : D3.Acyclic := e3 ▸ acyclic_removeNodes D2 us a2
        have f3 : D3.Flat := e3 ▸ flat_removeNodes D2 us f2
        cases h4 : D3.removeRedundantLatents with
        | error e => simp [h1, h2, h3, h4, bind, Except.bind] at h
        | ok p4 =>
          obtain ⟨D4, rs⟩ := p4
          obtain ⟨e4, s4, w4, simp4⟩ := removeRedundantLatents_spec D3 D4 rs h4 w3 f3 t3
          simp only [h1, h2, h3, h4, bind, Except.bind, pure, Except.pure, Except.ok.injEq] at h
          subst h
          exact ⟨w4, e4 ▸ acyclic_removeNodes D3 rs a3, simp4, ((s1.trans s2).trans s3).trans s4⟩

/-! ### totality: on a well-formed acyclic LV-DAG no rule raises -/

theorem iterLatents_total (D : LV) (hw : D.WF) (ha : D.Acyclic) : ∃ ls, D.iterLatents = .ok ls := by
  have hwG : D.asMG.WF :=
    ⟨hw.nodes_nodup, hw.edges_nodup, hw.edge_mem, by intro e he; simp [asMG] at he⟩
  obtain ⟨o, ho⟩ := MG.topologicalSort_ok_of_acyclic D.asMG hwG ha
  unfold iterLatents
  simp only [ho, hw.tagged, bind, Except.bind, pure, Except.pure]
  simp

theorem removeWidowsLoop_total :
    ∀ (fuel : Nat) (D : LV) (acc : List Nat), D.WF → D.Acyclic →
      ∃ r, removeWidowsLoop fuel D acc = .ok r := by
  intro fuel
  induction fuel with
  | zero => intro D acc _ _; exact ⟨_, rfl⟩
  | succ n ih =>
    intro D acc hw ha
    obtain ⟨ls, hls⟩ := iterLatents_total D hw ha
    have hws : D.widows = .ok (ls.filter (fun v => (D.children v).isEmpty)) := by
      unfold widows; simp only [hls, bind, Except.bind, pure, Except.pure]
    simp only [removeWidowsLoop, hws, bind, Except.bind, pure, Except.pure]
    split
    · exact ⟨_, rfl⟩
    · exact ih _ _ (wf_removeNodes D _ hw) (acyclic_removeNodes D _ ha)

/-- **`simplify_latent_dag` never raises on a well-formed acyclic LV-DAG** -/
theorem simplify_total' (prime : Nat → Nat) (hp : ∀ n, n < prime n) (D : LV) (hw : D.WF) (ha : D.Acyclic) :
    ∃ r, D.simplify prime = .ok r := by
  obtain ⟨ls, hls⟩ := iterLatents_total D hw ha
  have h1 : D.transformLatentsWithParents prime = .ok (ls.foldl (transformStep prime) D) := by
    unfold transformLatentsWithParents; simp only [hls, bind, Except.bind, pure, Except.pure]
  obtain ⟨w1, a1, _, n1⟩ := transform_spec prime hp D _ hw ha h1
  obtain ⟨⟨D2, ws⟩, h2⟩ := removeWidowsLoop_total ((ls.foldl (transformStep prime) D).nodes.length + 1) _ [] w1 a1
  have h2' : (ls.foldl (transformStep prime) D).removeWidowLatents = .ok (D2, ws) := h2
  obtain ⟨w2, a2, _, f2, c2⟩ := removeWidowLatents_spec _ D2 ws h2' w1 a1 n1
  obtain ⟨ls2, hls2⟩ := iterLatents_total D2 w2 a2
  have h3 : D2.removeUnidirectionalLatents =
      .ok (D2.removeNodes (ls2.filter (fun v => (D2.children v).length = 1)),
        ls2.filter (fun v => (D2.children v).length = 1)) := by
    unfold removeUnidirectionalLatents unidirectional
    simp only [hls2, bind, Except.bind, pure, Except.pure]
  have w3 := wf_removeNodes D2 (ls2.filter (fun v => (D2.children v).length = 1)) w2
  have a3 := acyclic_removeNodes D2 (ls2.filter (fun v => (D2.children v).length = 1)) a2
  obtain ⟨ls3, hls3⟩ := iterLatents_total _ w3 a3
  unfold simplify
  simp only [h1, h2', h3, bind, Except.bind, pure, Except.pure, removeRedundantLatents, redundant, hls3]
  exact ⟨_, rfl⟩

/-! ### a simplified graph is a fixed point of every rule -/

theorem foldl_fixed {α β : Type} (f : α → β → α) (a : α) (l : List β) (h : ∀ x ∈ l, f a x = a) :
    l.foldl f a = a := by
  induction l with
  | nil => rfl
  | cons x xs ih =>
    simp only [List.foldl_cons]
    rw [h x (by simp)]
    exact ih (fun y hy => h y (by simp [hy]))

theorem simplify_fixed (prime : Nat → Nat) (D : LV) (hw : D.WF) (hs : D.Simplified) (ls : List Nat)
    (hls : D.iterLatents = .ok ls) :
    D.simplify prime = .ok ⟨D, [], [], []⟩ := by
  have hmem := mem_iterLatents D hw ls hls
  have h1 : D.transformLatentsWithParents prime = .ok D := by
    unfold transformLatentsWithParents
    simp only [hls, bind, Except.bind, pure, Except.pure]
    rw [foldl_fixed]
    intro l hl
    apply transformStep_of_empty
    left
    rw [parents_eq_nil]
    intro p hp
    exact hs.flat _ hp ((hmem l).1 hl)
  have hw0 : D.widows = .ok [] := by
    unfold widows
    simp only [hls, bind, Except.bind, pure, Except.pure, Except.ok.injEq, List.filter_eq_nil_iff]
    intro l hl
    have := hs.two l ((hmem l).1 hl)
    cases hc : D.children l with
    | nil => rw [hc] at this; simp at this
    | cons c cs => simp
  have h2 : D.removeWidowLatents = .ok (D, []) := by
    unfold removeWidowLatents removeWidowsLoop
    simp [hw0, bind, Except.bind, pure, Except.pure]
  have hu0 : D.unidirectional = .ok [] := by
    unfold unidirectional
    simp only [hls, bind, Except.bind, pure, Except.pure, Except.ok.injEq, List.filter_eq_nil_iff]
    intro l hl
    have := hs.two l ((hmem l).1 hl)
    simp only [decide_eq_true_eq]
    omega
  have h3 : D.removeUnidirectionalLatents = .ok (D, []) := by
    unfold removeUnidirectionalLatents
    simp [hu0, bind, Except.bind, pure, Except.pure, removeNodes_nil]
  have hr0 : D.redundant = .ok [] := by
    have : ∃ rs, D.redundant = .ok rs := by
      unfold redundant
      simp only [hls, bind, Except.bind, pure, Except.pure]
      exact ⟨_, rfl⟩
    obtain ⟨rs, hrs⟩ := this
    have hm := mem_redundant D hw rs hrs
    have : rs = [] := by
      rw [List.eq_nil_iff_forall_not_mem]
      intro l hl
      obtain ⟨hl', r, hr, hdom⟩ := (hm l).1 hl
      rcases hdom with ⟨a1, _, a3⟩ | ⟨a1, a2⟩
      · have := (hs.irredundant l hl' r hr a1).1
        omega
      · exact a2 (hs.irredundant l hl' r hr a1).2
    rw [hrs, this]
  have h4 : D.removeRedundantLatents = .ok (D, []) := by
    unfold removeRedundantLatents
    simp [hr0, bind, Except.bind, pure, Except.pure, removeNodes_nil]
  unfold simplify
  simp [h1, h2, h3, h4, bind, Except.bind, pure, Except.pure]

end Y0.LV
