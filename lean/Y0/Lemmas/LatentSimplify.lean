/-
  Y0.Lemmas.LatentSimplify — `simplify_latent_dag` as a whole: its result is well formed, acyclic,
  `Simplified` and has the projection of the input; and a `Simplified` graph is a fixed point.
-/
import Y0.Lemmas.LatentRules

namespace Y0.LV

/-- the four rules in succession -/
theorem simplify_spec (prime : Nat → Nat) (hp : ∀ n, n < prime n) (D : LV) (hw : D.WF) (ha : D.Acyclic)
    (r : SimplifyResults) (h : D.simplify prime = .ok r) :
    r.graph.WF ∧ r.graph.Acyclic ∧ r.graph.Simplified ∧ SameProj D r.graph := by
  unfold simplify at h
  cases h1 : D.transformLatentsWithParents prime with
  | error e => simp [h1, bind, Except.bind] at h
  | ok D1 =>
    obtain ⟨w1, a1, s1, n1⟩ := transform_spec prime hp D D1 hw ha h1
    cases h2 : D1.removeWidowLatents with
    | error e => simp [h1, h2, bind, Except.bind] at h
    | ok p2 =>
      obtain ⟨D2, ws⟩ := p2
      obtain ⟨w2, a2, s2, f2, c2⟩ := removeWidowLatents_spec D1 D2 ws h2 w1 a1 n1
      cases h3 : D2.removeUnidirectionalLatents with
      | error e => simp [h1, h2, h3, bind, Except.bind] at h
      | ok p3 =>
        obtain ⟨D3, us⟩ := p3
        obtain ⟨e3, hS3, s3, t3⟩ := removeUnidirectionalLatents_spec D2 D3 us h3 w2 f2 c2
        have w3 : D3.WF := e3 ▸ wf_removeNodes D2 us w2
        have a3 : D3.Acyclic := e3 ▸ acyclic_removeNodes D2 us a2
        have f3 : D3.Flat := e3 ▸ flat_removeNodes D2 us f2
        cases h4 : D3.removeRedundantLatents with
        | error e => simp [h1, h2, h3, h4, bind, Except.bind] at h
        | ok p4 =>
          obtain ⟨D4, rs⟩ := p4
          obtain ⟨e4, s4, w4, simp4⟩ := removeRedundantLatents_spec D3 D4 rs h4 w3 f3 t3
          simp only [h1, h2, h3, h4, bind, Except.bind, pure, Except.pure, Except.ok.injEq] at h
          subst h
          exact ⟨w4, e4 ▸ acyclic_removeNodes D3 rs a3, simp4, ((s1.trans s2).trans s3).trans s4⟩

/-! ### a simplified graph is a fixed point of every rule -/

theorem foldl_fixed {α β : Type} (f : α → β → α) (a : α) (l : List β) (h : ∀ x ∈ l, f a x = a) :
    l.foldl f a = a := by
  induction l with
  | nil => rfl
  | cons x xs ih =>
    simp only [List.foldl_cons]
    rw [h x (by simp)]
    exact ih (fun y hy => h y (by simp [hy]))

theorem simplify_fixed (prime : Nat → Nat) (D : LV) (hw : D.WF) (hs : D.Simplified) (ls : List Nat)
    (hls : D.iterLatents = .ok ls) :
    D.simplify prime = .ok ⟨D, [], [], []⟩ := by
  have hmem := mem_iterLatents D hw ls hls
  have h1 : D.transformLatentsWithParents prime = .ok D := by
    unfold transformLatentsWithParents
    simp only [hls, bind, Except.bind, pure, Except.pure]
    rw [foldl_fixed]
    intro l hl
    apply transformStep_of_empty
    left
    rw [parents_eq_nil]
    intro p hp
    exact hs.flat _ hp ((hmem l).1 hl)
  have hw0 : D.widows = .ok [] := by
    unfold widows
    simp only [hls, bind, Except.bind, pure, Except.pure, Except.ok.injEq, List.filter_eq_nil_iff]
    intro l hl
    have := hs.two l ((hmem l).1 hl)
    cases hc : D.children l with
    | nil => rw [hc] at this; simp at this
    | cons c cs => simp
  have h2 : D.removeWidowLatents = .ok (D, []) := by
    unfold removeWidowLatents removeWidowsLoop
    simp [hw0, bind, Except.bind, pure, Except.pure]
  have hu0 : D.unidirectional = .ok [] := by
    unfold unidirectional
    simp only [hls, bind, Except.bind, pure, Except.pure, Except.ok.injEq, List.filter_eq_nil_iff]
    intro l hl
    have := hs.two l ((hmem l).1 hl)
    simp only [decide_eq_true_eq]
    omega
  have h3 : D.removeUnidirectionalLatents = .ok (D, []) := by
    unfold removeUnidirectionalLatents
    simp [hu0, bind, Except.bind, pure, Except.pure, removeNodes_nil]
  have hr0 : D.redundant = .ok [] := by
    have : ∃ rs, D.redundant = .ok rs := by
      unfold redundant
      simp only [hls, bind, Except.bind, pure, Except.pure]
      exact ⟨_, rfl⟩
    obtain ⟨rs, hrs⟩ := this
    have hm := mem_redundant D hw rs hrs
    have : rs = [] := by
      rw [List.eq_nil_iff_forall_not_mem]
      intro l hl
      obtain ⟨hl', r, hr, hdom⟩ := (hm l).1 hl
      rcases hdom with ⟨a1, _, a3⟩ | ⟨a1, a2⟩
      · have := (hs.irredundant l hl' r hr a1).1
        omega
      · exact a2 (hs.irredundant l hl' r hr a1).2
    rw [hrs, this]
  have h4 : D.removeRedundantLatents = .ok (D, []) := by
    unfold removeRedundantLatents
    simp [hr0, bind, Except.bind, pure, Except.pure, removeNodes_nil]
  unfold simplify
  simp [h1, h2, h3, h4, bind, Except.bind, pure, Except.pure]

end Y0.LV
