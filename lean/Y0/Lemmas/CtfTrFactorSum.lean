/-
  Y0.Lemmas.CtfTrFactorSum — the ctf-factor factorisation of C19 as a sum of products of c-factors:

      P(⋀ Y_x = y)  =  Σ_{d_* ∖ y_*}  Π_j  Q[C_j](τ)

  for a query outside the three classes of C19 in which every item has a value, under a reading `σ` of the free names
  of the answer that gives every event variable its event value and every subscript its literal value, and in which no
  STARRED literal subscript names a summed vertex (`factorisation_cfactors`).  Built on C19's
  `factorisation_value` and on `QCtx.factorConjuncts_eq_cfactor`.
-/
import Y0.Lemmas.CtfTrFactorValue

namespace Y0.Ctf
open Relation Y0.MG Y0.Fscm

/-- what the reading `σ` of the free names must satisfy for the (simplified) event `q` under the value symbols `ν` -/
structure EventReading (ν : BaseValues) (σ : Y0.Val) (q : Event) : Prop where
  /-- an event variable has its event value -/
  value : ∀ p ∈ q, ∀ i, p.2 = some i → σ p.1.name = ivValue ν i
  /-- a subscript has its literal value -/
  sub : ∀ p ∈ q, ∀ i ∈ p.1.ivs, σ i.name = ivValue ν i

theorem foldr_mul_eq_prod (l : List Rat) : l.foldr (· * ·) 1 = l.prod := by
  induction l with
  | nil => rfl
  | cons a l ih => simp [ih]

/-- **the factorisation as a sum of products of c-factors** -/
theorem factorisation_cfactors (g : MG Name) (hg : g.WF) (q : Event) (e : Expr) (ev : Event)
    (h : factorize g q = .ok (e, ev)) (hread : readableQuery q = true)
    (hcls : factorizeClasses g q = .ok (false, false, false))
    (M : Model) (hM : Compatible M g) (hnorm : ∀ pmf ∈ M.noise, pmf.sum = 1)
    (card : Name → Nat) (hcard : ∀ v pa lat, M.f v pa lat < card v) (ν : BaseValues) (σ : Y0.Val)
    (hσ : EventReading ν σ q) (hnone : ∀ p ∈ q, p.2 ≠ none)
    (hstar : ∀ D, ancestralSet g q = .ok D → ∀ p ∈ q, ∀ i ∈ p.1.ivs, i.star = true → i.name ∈ D.map (·.name) →
      i.name ∈ q.map (·.1.name)) :
    ∃ (D cs : List Var) (fs : List (List Var)),
      ancestralSet g q = .ok D ∧ D.mapM (convertOne g) = .ok cs ∧
      ctfFactors (g.subgraph (dedup' ((dedup' cs).map (·.name)))) (dedup' cs) = .ok fs ∧
      QCtx g q D ∧
      probEventOpt M ν q =
        sumVars card ((dedup' ((dedup' cs).map (·.name))).filter (fun n => decide (n ∉ dedup' (q.map (·.1.name)))))
          (fun τ => (fs.map fun F => M.cfactor ((sortBy Var.keyLt F).map (·.name)) τ).prod) σ := by
  have hval := factorisation_value g hg q e ev h hread hcls M hM hnorm card hcard ν
  obtain ⟨_, hev, D, cs, factors, hD, hconv, hfac, rfl⟩ := factorize_unfold g q e ev h
  obtain ⟨D', C⟩ := QCtx.of_classes g hg q hread hcls (fun D'' hD'' => by
    rw [hD] at hD''; cases hD''; exact factorize_noLoop g D cs factors hconv hfac)
  have hDD : D' = D := by have := C.anc; rw [hD] at this; cases this; rfl
  subst hDD
  refine ⟨D', cs, factors, hD, hconv, hfac, C, ?_⟩
  rw [← hval]
  have hconvD := mapM_ok_each _ _ _ hconv
  have hcsmem := mapM_ok_mem _ _ _ hconv
  have hnames : ∀ n, n ∈ dedup' ((dedup' cs).map (·.name)) ↔ n ∈ D'.map (·.name) := by
    intro n
    rw [mem_dedup']
    simp only [List.mem_map, mem_dedup']
    constructor
    · rintro ⟨c, hc, rfl⟩
      obtain ⟨w, hw, hwc⟩ := (hcsmem c).1 hc
      exact ⟨w, hw, ((convertOne_spec' g w c hwc).1).symm⟩
    · rintro ⟨w, hw, rfl⟩
      obtain ⟨c, hc⟩ := hconvD w hw
      exact ⟨c, (hcsmem c).2 ⟨w, hw, hc⟩, (convertOne_spec' g w c hc).1⟩
  generalize hR : (dedup' ((dedup' cs).map (·.name))).filter (fun n => decide (n ∉ dedup' (q.map (·.1.name)))) = R
  have hRmem : ∀ n, n ∈ R ↔ n ∈ D'.map (·.name) ∧ n ∉ q.map (·.1.name) := by
    intro n
    rw [← hR, List.mem_filter, hnames n]
    simp [mem_dedup']
  have hRnd : R.Nodup := by rw [← hR]; exact (nodup_dedup' _).filter _
  rw [factorisedValue_sumSafe]
  apply sumAssign_eq_sumVars card R hRnd
  intro r hr
  have hr1 : ∀ n k, forced r n = some k → n ∈ D'.map (·.name) ∧ n ∉ q.map (·.1.name) := by
    intro n k hf
    apply (hRmem n).1
    rw [← hr]
    exact List.mem_map.2 ⟨(n, k), forced_some_mem r n k hf, rfl⟩
  have hr2 : ∀ n ∈ D'.map (·.name), n ∉ q.map (·.1.name) → ∃ k, forced r n = some k := by
    intro n h1 h2
    apply forced_of_mem_keys
    rw [hr]
    exact (hRmem n).2 ⟨h1, h2⟩
  have hr3 : ∀ n ∈ D'.map (·.name), forced r n = none → n ∈ q.map (·.1.name) := by
    intro n h1 h2
    by_contra h3
    obtain ⟨k, hk⟩ := hr2 n h1 h3
    rw [hk] at h2
    cases h2
  rw [prodValue_productSafe, foldr_mul_eq_prod]
  congr 1
  apply List.map_congr_left
  intro F hF
  obtain ⟨_, hgroup⟩ := ctfFactors_unfold _ _ _ hfac
  obtain ⟨hcover, _⟩ := groupByDistrict_spec _ _ _ _ hgroup
  have hFcs : ∀ c ∈ F, c ∈ cs := by
    intro c hc
    have := (hcover c).1 ⟨F, hF, hc⟩
    rwa [mem_dedup', mem_dedup'] at this
  -- the values the event gives to the ctf-factor form of a member
  have hvals : ∀ w ∈ D', ∀ c, convertOne g w = .ok c → ∀ i, (c, some i) ∈ ev ↔ ∃ v, (v, some i) ∈ q ∧ v.name = w.name := by
    intro w hw c hc i
    rw [convertEvent_mem g q ev hev]
    constructor
    · rintro ⟨v, hv, hvc⟩
      refine ⟨v, hv, ?_⟩
      rw [← (convertOne_spec' g v c hvc).1, ← (convertOne_spec' g w c hc).1]
    · rintro ⟨v, hv, hname⟩
      refine ⟨v, hv, ?_⟩
      rw [← C.convert_query_var (v, some i) hv w hw hname.symm]
      exact hc
  apply C.factorConjuncts_eq_cfactor M hM ν r ev (sortBy Var.keyLt F) (overrideVal σ r)
  · intro c hc
    rw [mem_sortBy] at hc
    exact (hcsmem c).1 (hFcs c hc)
  · -- every factor variable has a value
    intro c hc
    rw [mem_sortBy] at hc
    obtain ⟨w, hw, hwc⟩ := (hcsmem c).1 (hFcs c hc)
    have hcn := (convertOne_spec' g w c hwc).1
    cases hf : forced r c.name with
    | some k => exact ⟨k, (factorVarValues_mem ν r ev c k).2 (Or.inl hf)⟩
    | none =>
      have hq : c.name ∈ q.map (·.1.name) := hr3 c.name (by rw [hcn]; exact List.mem_map.2 ⟨w, hw, rfl⟩) hf
      obtain ⟨p, hp, hpn⟩ := List.mem_map.1 hq
      cases hpv : p.2 with
      | none => exact absurd hpv (hnone p hp)
      | some i =>
        refine ⟨ivValue ν i, (factorVarValues_mem ν r ev c _).2 (Or.inr ⟨hf, i, ?_, rfl⟩)⟩
        rw [hvals w hw c hwc i]
        refine ⟨p.1, ?_, by rw [hpn, hcn]⟩
        have : p = (p.1, some i) := by rw [← hpv]
        rw [← this]; exact hp
  · -- and only the value the overridden reading gives its vertex
    intro c hc k hk
    rw [mem_sortBy] at hc
    obtain ⟨w, hw, hwc⟩ := (hcsmem c).1 (hFcs c hc)
    have hcn := (convertOne_spec' g w c hwc).1
    rcases (factorVarValues_mem ν r ev c k).1 hk with hf | ⟨hf, i, hi, rfl⟩
    · simp [overrideVal, hf]
    · obtain ⟨v, hv, hvn⟩ := (hvals w hw c hwc i).1 hi
      simp only [overrideVal, hf, Option.getD_none]
      rw [hcn, ← hvn]
      exact (hσ.value (v, some i) hv i rfl).symm
  · -- every subscript denotes the value of its name
    intro c hc i hi
    rw [mem_sortBy] at hc
    obtain ⟨w, hw, hwc⟩ := (hcsmem c).1 (hFcs c hc)
    obtain ⟨hcn, _, _, _, hiff⟩ := convertOne_spec' g w c hwc
    obtain ⟨hedge, hkind⟩ := (hiff i).1 hi
    obtain ⟨p, hp, hanc⟩ := C.src w hw
    unfold boundIvValue overrideVal
    rcases hkind with hkept | ⟨hst, hadded⟩
    · -- a subscript of the query variable
      have hip : i ∈ p.1.ivs := ctfAnc_ivs_sub g p.1 w hanc.1 i hkept
      have hσi := hσ.sub p hp i hip
      cases hf : forced r i.name with
      | some k =>
        -- bound: then the name is a summed vertex; excluded for literal subscripts
        exfalso
        obtain ⟨h1, h2⟩ := hr1 i.name k hf
        cases hs : i.star with
        | true => exact h2 (hstar D' hD p hp i hip hs h1)
        | false => exact h2 (C.lit p hp i hip hs h1)
      | none =>
        simp only [Option.getD_none]
        rw [hσi]
        cases hs : i.star <;> simp [ivValue, hs]
    · -- an added parent subscript `-P`
      simp only [hst, Bool.false_eq_true, ↓reduceIte]
      cases hf : forced r i.name with
      | some k => rfl
      | none =>
        simp only [Option.getD_none]
        -- `P` is the vertex of a member, not summed, hence an outcome with value `-P`
        have hnotsub : i.name ∉ subNames w := by
          intro hmem
          obtain ⟨j, hj, hjn⟩ := List.mem_map.1 hmem
          exact hadded j hj hjn
        have hnotp : i.name ∉ subNames p.1 := by
          intro hmem
          obtain ⟨j, hj, hjn⟩ := List.mem_map.1 hmem
          have : j ∈ w.ivs := parent_sub_mem g p.1 (C.self p hp) w hanc.1 j hj (by rw [hjn]; exact hedge)
          exact hnotsub (List.mem_map.2 ⟨j, this, hjn⟩)
        obtain ⟨w', hw', _, hw'n⟩ := C.parentVar p hp w hanc.1 i.name hedge hnotp
        have hinD : i.name ∈ D'.map (·.name) := List.mem_map.2 ⟨w', hw', hw'n⟩
        have hq := hr3 i.name hinD hf
        obtain ⟨it, hit, hitn⟩ := List.mem_map.1 hq
        have hitv := C.opv w hw i.name hedge hnotsub hinD it hit hitn
        have := hσ.value it hit ⟨i.name, false⟩ hitv
        rw [hitn] at this
        rw [this]
        simp only [ivValue, hst]

end Y0.Ctf
