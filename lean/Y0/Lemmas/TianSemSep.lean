/-
  Y0.Lemmas.TianSemSep — from the SEMANTIC hypothesis to the syntactic one:

      if the probability `q = P(ch | pa)` denotes `Q[T]` in EVERY positive model compatible with `G`
      then `ProbShapeIn G q T`                                                  (`probShapeIn_of_semantic`)

  The separating models are independent coins (Y0.Lemmas.TianSemModel), compatible with every graph:
  * `Q[T] > 0`, and a conjunction across worlds or a double-valued one has probability 0: all variables of `q` carry
    the same subscripts `w` (compare at an assignment that differs from `σ'` everywhere) and at every `σ` some
    assignment `ρ` reads them;
  * in closed form `den q σ = Π_{live(ch ∪ pa)} k(ρ) / Π_{live(pa)} k(ρ)` and `Q[T] σ = Π_T k(σ)`, where
    `live(vs)` are the nodes outside `w` named in `vs`; comparing the fair kernel with the one biased at `t` gives
    `tilt t live(ch ∪ pa) ρ = tilt t live(pa) ρ · tilt t T σ`;
  * for `t ∈ T` this forces `t ∈ live(ch ∪ pa) ∖ live(pa)` — `t` is a child, not a parent, not intervened on — and
    `ρ t = 0 ↔ σ t = 0`, so no child named `t` is starred; for a child `e ∉ T` that is a node, not a parent and not
    intervened on, it is contradictory (the left side is not 1, the right side is).
-/
import Y0.Lemmas.TianSemModel
import Y0.Spec.TianSpec

namespace Y0
namespace TianSem
open TianProb TianSpec

variable {G : MG Name}

/-- the nodes outside the subscripts `w` that are named in `vs` -/
def live (G : MG Name) (w : List Iv) (vs : List Var) : List Name :=
  G.nodes.filter fun v => v ∉ w.map (·.name) ∧ v ∈ vs.map (·.name)

theorem mem_live {w : List Iv} {vs : List Var} {x : Name} :
    x ∈ live G w vs ↔ x ∈ G.nodes ∧ x ∉ w.map (·.name) ∧ x ∈ vs.map (·.name) := by
  simp [live, List.mem_filter]

theorem live_nodup (hG : G.WF) (w : List Iv) (vs : List Var) : (live G w vs).Nodup := hG.nodup.filter _

theorem tilt_pos (t : Name) (L : List Name) (ρ : Val) : 0 < tilt t L ρ := by
  unfold tilt
  split
  · split <;> norm_num
  · norm_num

theorem tilt_congr_mem {t : Name} {L L' : List Name} (h : t ∈ L) (h' : t ∈ L') (ρ : Val) :
    tilt t L ρ = tilt t L' ρ := by
  simp [tilt, h, h']

section
variable {T : List Name} {pop : Option Var} {ch pa : List Var} {σ' : Val}

/-- all variables carry the same subscripts -/
theorem sem_world (hT : ∀ t ∈ T, t ∈ G.nodes)
    (hq : ∀ M : Scm, M.Compatible G → ∀ σ, den (M.env G) σ' (.prob pop ch pa) σ = M.Q T σ) :
    ∃ w : List Iv, (∀ v ∈ ch ++ pa, v.ivs = w) ∧ (ch ++ pa = [] → w = []) := by
  by_cases hcp : ch ++ pa = []
  · exact ⟨[], by simp [hcp], fun _ => rfl⟩
  · have hM := indep_compatible kern_fair G
    obtain ⟨w, hw⟩ := same_ivs_of_den_ne_zero (M := indep fair) (G := G) (σ := fun n => σ' n + 1) (σ' := σ')
      (fun n => Nat.succ_ne_self _) pop (c := ch) (p := pa) (by
        rw [hq _ hM]
        exact ne_of_gt (Scm.Q_pos hM T hT _))
    exact ⟨w, hw, fun h => absurd h hcp⟩

/-- at every `σ` some assignment reads the variables of `q` -/
theorem sem_reads (hT : ∀ t ∈ T, t ∈ G.nodes)
    (hq : ∀ M : Scm, M.Compatible G → ∀ σ, den (M.env G) σ' (.prob pop ch pa) σ = M.Q T σ)
    {w : List Iv} (hw : ∀ v ∈ ch ++ pa, v.ivs = w) (hw0 : ch ++ pa = [] → w = []) (σ : Val) :
    ∃ ρ, Reads ρ σ σ' w (ch ++ pa) := by
  by_cases hcp : ch ++ pa = []
  · refine ⟨σ, ?_, ?_⟩
    · rw [hw0 hcp]; intro i hi; cases hi
    · rw [hcp]; intro v hv; cases hv
  · have hM := indep_compatible kern_fair G
    apply den_ne_zero_reads (M := indep fair) (G := G) σ σ' pop hcp hw
    rw [hq _ hM]
    exact ne_of_gt (Scm.Q_pos hM T hT _)

/-- the hypothesis in closed form, for any kernel -/
theorem sem_equation (hG : G.WF)
    (hq : ∀ M : Scm, M.Compatible G → ∀ σ, den (M.env G) σ' (.prob pop ch pa) σ = M.Q T σ)
    {w : List Iv} (hw : ∀ v ∈ ch ++ pa, v.ivs = w) {k : Name → Nat → Rat} (hk : Kern k)
    {σ ρ : Val} (hr : Reads ρ σ σ' w (ch ++ pa)) :
    prodOn k (live G w (ch ++ pa)) ρ = prodOn k (live G w pa) ρ * prodOn k T σ := by
  have h := hq (indep k) (indep_compatible hk G) σ
  rw [Q_indep] at h
  simp only [den, Scm.env] at h
  rw [prAtoms_indep hk hG hw hr,
    prAtoms_indep hk hG (fun v hv => hw v (List.mem_append_right _ hv))
      (hr.mono fun v hv => List.mem_append_right _ hv)] at h
  have hpos : prodOn k (live G w pa) ρ ≠ 0 := ne_of_gt (prodOn_pos hk _ _)
  have := (div_eq_iff hpos).mp h
  rw [mul_comm] at this
  exact this

/-- fair coins against the coin biased at `t` -/
theorem sem_tilt (hG : G.WF) (hTnd : T.Nodup)
    (hq : ∀ M : Scm, M.Compatible G → ∀ σ, den (M.env G) σ' (.prob pop ch pa) σ = M.Q T σ)
    {w : List Iv} (hw : ∀ v ∈ ch ++ pa, v.ivs = w) (t : Name) {σ ρ : Val} (hr : Reads ρ σ σ' w (ch ++ pa)) :
    tilt t (live G w (ch ++ pa)) ρ = tilt t (live G w pa) ρ * tilt t T σ := by
  have eF := sem_equation hG hq hw kern_fair hr
  have eB := sem_equation hG hq hw (kern_bias t) hr
  rw [prodOn_bias t ρ _ (live_nodup hG _ _), prodOn_bias t ρ _ (live_nodup hG _ _), prodOn_bias t σ T hTnd] at eB
  have hA : prodOn fair (live G w (ch ++ pa)) ρ ≠ 0 := ne_of_gt (prodOn_pos kern_fair _ _)
  apply mul_right_cancel₀ hA
  rw [eB, eF]
  ring

end

/-- **the semantic hypothesis implies the syntactic one**: a probability that denotes `Q[T]` in every positive model
compatible with `G` is `P_w(T ∪ E | Z)` in the sense of `ProbShapeIn`. -/
theorem probShapeIn_of_semantic (hG : G.WF) {T : List Name} (hTnd : T.Nodup) (hT : ∀ t ∈ T, t ∈ G.nodes)
    (pop : Option Var) (ch pa : List Var) (σ' : Val)
    (hq : ∀ M : Scm, M.Compatible G → ∀ σ, den (M.env G) σ' (.prob pop ch pa) σ = M.Q T σ) :
    ProbShapeIn G (.prob pop ch pa) T := by
  obtain ⟨w, hw, hw0⟩ := sem_world hT hq
  have hreads := sem_reads hT hq hw hw0
  have htilt := fun t {σ ρ} hr => sem_tilt (σ := σ) (ρ := ρ) hG hTnd hq hw t hr
  have hsubL : ∀ x, x ∈ live G w pa → x ∈ live G w (ch ++ pa) := by
    intro x hx
    obtain ⟨h1, h2, h3⟩ := mem_live.mp hx
    exact mem_live.mpr ⟨h1, h2, by simp only [List.map_append, List.mem_append]; exact Or.inr h3⟩
  -- what the biased coin at `t ∈ T` shows, at any `σ`
  have key : ∀ t ∈ T, ∀ σ ρ, Reads ρ σ σ' w (ch ++ pa) →
      t ∉ live G w pa ∧ t ∈ live G w (ch ++ pa) ∧ (ρ t = 0 ↔ σ t = 0) := by
    intro t ht σ ρ hr
    have hD := htilt t hr
    have h1 : t ∉ live G w pa := by
      intro hm
      rw [tilt_congr_mem (hsubL t hm) hm ρ] at hD
      have hx : tilt t (live G w pa) ρ ≠ 0 := ne_of_gt (tilt_pos _ _ _)
      have : tilt t T σ = 1 := by
        have h' : tilt t (live G w pa) ρ * 1 = tilt t (live G w pa) ρ * tilt t T σ := by rw [mul_one]; exact hD
        exact (mul_left_cancel₀ hx h').symm
      exact tilt_mem_ne_one ht σ this
    rw [tilt_not_mem h1, one_mul] at hD
    have h2 : t ∈ live G w (ch ++ pa) := by
      by_contra hm
      rw [tilt_not_mem hm] at hD
      exact tilt_mem_ne_one ht σ hD.symm
    exact ⟨h1, h2, tilt_eq_iff h2 ht ρ σ hD⟩
  obtain ⟨ρ0, hr0⟩ := hreads σ'
  refine ⟨w, ?_, ?_, hw, ?_, ?_, ?_⟩
  · -- every member of `T` is a child
    intro t ht
    obtain ⟨h1, h2, _⟩ := key t ht σ' ρ0 hr0
    obtain ⟨hn, hx, hc⟩ := mem_live.mp h2
    simp only [List.map_append, List.mem_append] at hc
    rcases hc with hc | hc
    · exact hc
    · exact absurd (mem_live.mpr ⟨hn, hx, hc⟩) h1
  · -- a further child is redundant
    intro c hc
    by_cases h1 : c.name ∈ T
    · exact Or.inl h1
    by_cases h2 : c.name ∈ pa.map (·.name)
    · exact Or.inr (Or.inl h2)
    by_cases h3 : c.name ∈ w.map (·.name)
    · exact Or.inr (Or.inr (Or.inl h3))
    by_cases h4 : c.name ∈ G.nodes
    · exfalso
      have hm : c.name ∈ live G w (ch ++ pa) :=
        mem_live.mpr ⟨h4, h3, List.mem_map.mpr ⟨c, List.mem_append_left _ hc, rfl⟩⟩
      have hn : c.name ∉ live G w pa := fun h => h2 (mem_live.mp h).2.2
      have hD := htilt c.name hr0
      rw [tilt_not_mem hn, tilt_not_mem h1, one_mul] at hD
      exact tilt_mem_ne_one hm ρ0 hD
    · exact Or.inr (Or.inr (Or.inr h4))
  · -- a child named in `T` is not starred
    intro c hc ht hstar
    set t := c.name with htdef
    set σ := σ'.set t (if σ' t = 0 then 1 else 0) with hσ
    obtain ⟨ρ, hr⟩ := hreads σ
    obtain ⟨_, _, h3⟩ := key t ht σ ρ hr
    have hv := hr.vars c (List.mem_append_left _ hc)
    unfold Var.value at hv
    rw [hstar] at hv
    simp only at hv
    rw [← htdef] at hv
    rw [← hv, hσ, Val.set_same] at h3
    by_cases h0 : σ' t = 0
    · simp [h0] at h3
    · simp [h0] at h3
  · -- no member of `T` is intervened on
    intro i hi ht
    obtain ⟨_, h2, _⟩ := key i.name ht σ' ρ0 hr0
    exact (mem_live.mp h2).2.1 (List.mem_map.mpr ⟨i, hi, rfl⟩)
  · -- no member of `T` is a parent
    intro p hp ht
    obtain ⟨h1, h2, _⟩ := key p.name ht σ' ρ0 hr0
    obtain ⟨hn, hx, _⟩ := mem_live.mp h2
    exact h1 (mem_live.mpr ⟨hn, hx, List.mem_map.mpr ⟨p, hp, rfl⟩⟩)

end TianSem
end Y0
