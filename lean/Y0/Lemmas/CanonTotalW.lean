/-
  Y0.Lemmas.CanonTotalW — totality of the canonicaliser on the widened class `Expr.wssW` (multi-world joint leaves):
  same induction as CanonTotal.lean.
-/
import Y0.Lemmas.CanonTotal
import Y0.Lemmas.SemCanonW

namespace Y0
set_option linter.unusedSimpArgs false
set_option linter.unusedVariables false
set_option linter.unusedTactic false
set_option linter.unreachableTactic false

variable {env : Env} {σ' : Val}

mutual
/-- **totality** on the widened class (C10 `canon_total_mw`) -/
theorem canonL_totalW (hF : ProbFamily env) {S : List Name} {lvl : Name → Option Nat} : ∀ (e : Expr),
    Expr.wssW S e = true → Covers lvl e → DenNZ env σ' e → ∃ e', canonL lvl e = .ok e'
  | .prob pop c p, hw, hc, _ => by
    obtain ⟨c', h1⟩ := sortVars_total (lvl := lvl) c (fun v hv => hc v (by simp [Expr.eventVars, hv]))
    obtain ⟨p', h2⟩ := sortVars_total (lvl := lvl) p (fun v hv => hc v (by simp [Expr.eventVars, hv]))
    exact ⟨.prob pop c' p', by unfold canonL; rw [h1, h2]; rfl⟩
  | .sum e r, hw, hc, hz => by
    obtain ⟨x, hx⟩ := canonL_totalW hF e (wssW_sum_iff.mp hw).2 (covers_sum hc) (denNZ_sum_iff.mp hz)
    exact ⟨_, by unfold canonL; rw [hx]; rfl⟩
  | .prod fs, hw, hc, hz => by
    obtain ⟨x, hx⟩ := canonFactors_totalW hF fs (wssW_prod_iff.mp hw) (covers_prod hc) (denNZ_prod_iff.mp hz)
    exact ⟨_, by unfold canonL; rw [hx]; rfl⟩
  | .frac n d, hw, hc, hz => by
    obtain ⟨hwn, hwd⟩ := wssW_frac_iff.mp hw
    obtain ⟨hzn, hzd, hnz⟩ := denNZ_frac_iff.mp hz
    obtain ⟨n', hn⟩ := canonL_totalW hF n hwn (covers_frac hc).1 hzn
    obtain ⟨d', hd⟩ := canonL_totalW hF d hwd (covers_frac hc).2 hzd
    obtain ⟨in1, in2⟩ := canonL_denW hF n n' hwn hzn hn
    obtain ⟨id1, id2⟩ := canonL_denW hF d d' hwd hzd hd
    have hnz' : NZ env σ' d' := fun σ hσ => by rw [id1 σ hσ]; exact hnz σ hσ
    obtain ⟨rv, hrv⟩ := div_total hF n' d' in2 id2 hnz'
    unfold canonL
    rw [hn, hd]
    simp only [bind, Except.bind]
    split
    · exact ⟨_, rfl⟩
    · split
      · exact ⟨_, rfl⟩
      · rw [hrv]; exact ⟨_, rfl⟩
  | .one, _, _, _ => ⟨.one, by unfold canonL; rfl⟩
  | .zero, _, _, _ => ⟨.zero, by unfold canonL; rfl⟩
  | .q _ _, hw, _, _ => by simp [Expr.wssW] at hw
theorem canonFactors_totalW (hF : ProbFamily env) {S : List Name} {lvl : Name → Option Nat} : ∀ (fs : List Expr),
    (∀ e ∈ fs, Expr.wssW S e = true) → CoversList lvl fs → (∀ e ∈ fs, DenNZ env σ' e) →
    ∃ fs', canonFactors lvl fs = .ok fs'
  | [], _, _, _ => ⟨[], by unfold canonFactors; rfl⟩
  | .prod gs :: rest, hw, hc, hz => by
    obtain ⟨a, ha⟩ := canonFactors_totalW hF gs (wssW_prod_iff.mp (hw _ List.mem_cons_self))
      (covers_prod (coversList_cons hc).1) (denNZ_prod_iff.mp (hz _ List.mem_cons_self))
    obtain ⟨b, hb⟩ := canonFactors_totalW hF rest (fun x hx => hw x (List.mem_cons_of_mem _ hx)) (coversList_cons hc).2
      (fun x hx => hz x (List.mem_cons_of_mem _ hx))
    exact ⟨a ++ b, by unfold canonFactors; rw [ha, hb]; rfl⟩
  | .prob pop c p :: rest, hw, hc, hz => by
    obtain ⟨a, ha⟩ := canonL_totalW hF _ (hw _ List.mem_cons_self) (coversList_cons hc).1 (hz _ List.mem_cons_self)
    obtain ⟨b, hb⟩ := canonFactors_totalW hF rest (fun x hx => hw x (List.mem_cons_of_mem _ hx)) (coversList_cons hc).2
      (fun x hx => hz x (List.mem_cons_of_mem _ hx))
    exact ⟨a :: b, by unfold canonFactors; rw [ha, hb]; rfl⟩
  | .sum e0 r :: rest, hw, hc, hz => by
    obtain ⟨a, ha⟩ := canonL_totalW hF _ (hw _ List.mem_cons_self) (coversList_cons hc).1 (hz _ List.mem_cons_self)
    obtain ⟨b, hb⟩ := canonFactors_totalW hF rest (fun x hx => hw x (List.mem_cons_of_mem _ hx)) (coversList_cons hc).2
      (fun x hx => hz x (List.mem_cons_of_mem _ hx))
    exact ⟨a :: b, by unfold canonFactors; rw [ha, hb]; rfl⟩
  | .frac n d :: rest, hw, hc, hz => by
    obtain ⟨a, ha⟩ := canonL_totalW hF _ (hw _ List.mem_cons_self) (coversList_cons hc).1 (hz _ List.mem_cons_self)
    obtain ⟨b, hb⟩ := canonFactors_totalW hF rest (fun x hx => hw x (List.mem_cons_of_mem _ hx)) (coversList_cons hc).2
      (fun x hx => hz x (List.mem_cons_of_mem _ hx))
    exact ⟨a :: b, by unfold canonFactors; rw [ha, hb]; rfl⟩
  | .one :: rest, hw, hc, hz => by
    obtain ⟨a, ha⟩ := canonL_totalW hF _ (hw _ List.mem_cons_self) (coversList_cons hc).1 (hz _ List.mem_cons_self)
    obtain ⟨b, hb⟩ := canonFactors_totalW hF rest (fun x hx => hw x (List.mem_cons_of_mem _ hx)) (coversList_cons hc).2
      (fun x hx => hz x (List.mem_cons_of_mem _ hx))
    exact ⟨a :: b, by unfold canonFactors; rw [ha, hb]; rfl⟩
  | .zero :: rest, hw, hc, hz => by
    obtain ⟨a, ha⟩ := canonL_totalW hF _ (hw _ List.mem_cons_self) (coversList_cons hc).1 (hz _ List.mem_cons_self)
    obtain ⟨b, hb⟩ := canonFactors_totalW hF rest (fun x hx => hw x (List.mem_cons_of_mem _ hx)) (coversList_cons hc).2
      (fun x hx => hz x (List.mem_cons_of_mem _ hx))
    exact ⟨a :: b, by unfold canonFactors; rw [ha, hb]; rfl⟩
  | .q dd cc :: rest, hw, _, _ => by
    have := hw _ List.mem_cons_self
    simp [Expr.wssW] at this
end


end Y0
