/-
  Y0.Lemmas.CfTermA — termination of ID*, part A: graph-theoretic facts about `make_counterfactual_graph` for ALL events,
  obtained by running the loop invariants of Lemmas/CfLemma24 (`RepInv`) with the TRIVIAL functional model of the graph
  (mechanisms read exactly the parents in `G`, no noise): in the returned counterfactual graph every non-self-intervened node
  has, for every parent of its variable in `G`, a parent node carrying that variable name (`cg_rep`); every node is in
  canonical form over a variable of `G` (`cg_nodeOK`).
-/
import Y0.Props.C18
import Y0.Lemmas.CfNsi

namespace Y0.Cf
open Relation MG Fscm

/-! ## the trivial model of a graph -/

/-- mechanisms read exactly the parents in `G`; no noise at all -/
def trivModel (G : MG Name) (topo : List Name) : Model :=
  { order := topo, noise := [], pa := fun v => G.parents v, lat := fun _ => [], f := fun _ _ _ => 0 }

def trivNu : BaseValues := fun _ b => if b then 1 else 0

theorem trivNu_distinct : trivNu.Distinct := by
  intro n; simp [trivNu]

theorem mem_gparents (G : MG Name) (p v : Name) : p ∈ G.parents v ↔ (p, v) ∈ G.di := by
  simp only [MG.parents, List.mem_map, List.mem_filter, decide_eq_true_eq]
  constructor
  · rintro ⟨⟨y, z⟩, ⟨he, rfl⟩, rfl⟩; exact he
  · intro h; exact ⟨(p, v), ⟨h, rfl⟩, rfl⟩

theorem trivModel_compatible (G : MG Name) (hG : G.WF) (topo : List Name) (h : G.IsTopoOrder topo) :
    Compatible (trivModel G topo) G := by
  have hnd : topo.Nodup := h.1.nodup_iff.2 hG.nodup
  refine ⟨h.1, hnd, ?_, ?_, ?_⟩
  · intro v p hp
    exact (mem_gparents G p v).1 hp
  · intro l₁ v l₂ hl p hp
    have hb : Before topo v p := before_of_isTopoOrder hG h ((mem_gparents G p v).1 hp)
    unfold Before at hb
    have hl' : topo = l₁ ++ v :: l₂ := hl
    have hv : v ∉ l₁ := by
      intro hv
      rw [hl'] at hnd
      exact (List.nodup_append.1 hnd).2.2 v hv v (List.mem_cons_self) rfl
    rw [hl', List.takeWhile_append_of_pos (by
      intro x hx
      simp only [ne_eq, decide_eq_true_eq]
      intro hxv; subst hxv; exact hv hx)] at hb
    simpa using hb
  · rintro v w _ ⟨j, hj, _⟩
    simp [trivModel] at hj

/-- the setting of one run with the trivial model -/
def trivCtx (G : MG Name) (topo : List Name) (ev : Event) : Ctx := ⟨trivModel G topo, trivNu, G, topo, ev⟩

theorem trivCtx_ok (G : MG Name) (hG : G.WF) (topo : List Name) (ht : G.topologicalSort = .ok topo) (ev : Event) :
    (trivCtx G topo ev).OK :=
  ⟨trivModel_compatible G hG topo (topologicalSort_spec G hG topo ht), trivNu_distinct,
    parentsFirst_of_topologicalSort (trivModel_compatible G hG topo (topologicalSort_spec G hG topo ht)) hG ht⟩

/-! ## the keys of the current event -/

theorem mem_keys_iff (ev : Event) (k : Var) : k ∈ ev.keys ↔ ∃ v, (k, v) ∈ ev := by
  simp only [Event.keys, List.mem_map]
  constructor
  · rintro ⟨p, hp, rfl⟩; exact ⟨p.2, hp⟩
  · rintro ⟨v, hv⟩; exact ⟨(k, v), hv, rfl⟩

/-- a key of the updated event is the preferred node or an old key other than the eliminated node -/
theorem mem_keys_updateEvent (ev : Event) (pref elim k : Var) (hk : k ∈ (updateEvent ev pref elim).keys) :
    k = pref ∨ (k ∈ ev.keys ∧ k ≠ elim) := by
  unfold updateEvent at hk
  cases he : ev.get? elim with
  | none =>
    rw [he] at hk
    right
    refine ⟨hk, ?_⟩
    rw [mem_keys_iff] at hk
    obtain ⟨v, hv⟩ := hk
    intro hke
    exact (Event.get?_none_iff.1 he) _ hv hke
  | some v =>
    rw [he] at hk
    simp only at hk
    rw [mem_keys_iff] at hk
    obtain ⟨v', hv'⟩ := hk
    rw [Event.mem_erase, Event.mem_set] at hv'
    rcases hv' with ⟨⟨hp, _⟩ | heq, hne⟩
    · right
      exact ⟨(mem_keys_iff ev k).2 ⟨v', hp⟩, hne⟩
    · left
      simp only [Prod.mk.injEq] at heq
      exact heq.1

/-- the keys of the current event are nodes in canonical form; a key that is no longer a node of the graph is self-intervened
or a root variable -/
structure KeyInv (c : Ctx) (cf : MG Var) (ev : Event) : Prop where
  ok : ∀ k ∈ ev.keys, NodeOK c k
  inNodes : ∀ k ∈ ev.keys, k ∈ cf.nodes ∨ isNotSelfIntervened k = false ∨ c.M.pa k.name = []

def KeyInvSt (c : Ctx) : St → Prop
  | .run cf ev => KeyInv c cf ev
  | .stop _ => True

/-- a node other than the eliminated one survives the merge, unless it is self-intervened or a root variable -/
theorem kept_or (c : Ctx) (cf : MG Var) (hinv : RepInv c cf) (a b : Var) (k : Var) (hk : k ∈ cf.nodes)
    (hne : k ≠ (mergeOrder a b).2) :
    k ∈ (mergePw cf a b).1.nodes ∨ isNotSelfIntervened k = false ∨ c.M.pa k.name = [] := by
  by_cases hnsi : isNotSelfIntervened k = true
  · cases hpa : c.M.pa k.name with
    | nil => exact Or.inr (Or.inr rfl)
    | cons p ps =>
      left
      obtain ⟨x, hx, _, _⟩ := hinv.rep k hk hnsi p (by rw [hpa]; simp)
      have hwf := wf_mergePw cf a b
      by_cases hx2 : x = (mergeOrder a b).2
      · have : ((mergeOrder a b).1, k) ∈ (mergePw cf a b).1.di :=
          (mem_di_mergePw cf a b _ k).2 (Or.inr ⟨rfl, hx2 ▸ hx⟩)
        exact (hwf.di_mem _ this).2
      · have : (x, k) ∈ (mergePw cf a b).1.di := (mem_di_mergePw cf a b x k).2 (Or.inl ⟨hx, hx2, hne⟩)
        exact (hwf.di_mem _ this).2
  · exact Or.inr (Or.inl (by simpa using hnsi))

theorem keyInv_mergeStep (c : Ctx) (st : St) (a b : Var) (hab : a ≠ b) (hf : FullInv c st) (h : KeyInvSt c st) :
    KeyInvSt c (mergeStep st a b) := by
  unfold mergeStep
  cases st with
  | stop cf => exact h
  | run cf ev =>
    obtain ⟨hrep, _⟩ := hf
    simp only
    split
    · rename_i h24
      obtain ⟨ha, hb⟩ := lemma24Holds_nodes h24
      split
      · trivial
      · have hr1 : (mergePw cf a b).2.1 = (mergeOrder a b).1 := by unfold mergePw; rfl
        have hr2 : (mergePw cf a b).2.2 = (mergeOrder a b).2 := by unfold mergePw; rfl
        show KeyInv c _ _
        rw [hr1, hr2]
        obtain ⟨hm1, hm2⟩ := mergeOrder_mem a b cf ha hb
        have hne12 : (mergeOrder a b).1 ≠ (mergeOrder a b).2 := mergeOrder_ne a b hab
        constructor
        · intro k hk
          rcases mem_keys_updateEvent ev _ _ k hk with rfl | ⟨hk', _⟩
          · exact hrep.nodes _ hm1
          · exact h.ok k hk'
        · intro k hk
          rcases mem_keys_updateEvent ev _ _ k hk with rfl | ⟨hk', hkne⟩
          · exact kept_or c cf hrep a b _ hm1 hne12
          · rcases h.inNodes k hk' with hin | hrest
            · exact kept_or c cf hrep a b k hin hkne
            · exact Or.inr hrest
    · exact h

end Y0.Cf

namespace Y0.Cf
open Relation MG Fscm

def CombInv (c : Ctx) (st : St) : Prop := FullInv c st ∧ KeyInvSt c st

theorem combInv_runPairs (c : Ctx) (hc : c.OK) (hGl : ∀ e ∈ c.G.di, e.1 ≠ e.2) (ps : List (Var × Var))
    (hne : ∀ p ∈ ps, p.1 ≠ p.2) (st : St) (h : CombInv c st) : CombInv c (runPairs st ps) := by
  induction ps generalizing st with
  | nil => exact h
  | cons p ps ih =>
    unfold runPairs
    simp only [List.foldl_cons]
    exact ih (fun q hq => hne q (by simp [hq])) _
      ⟨fullInv_mergeStep c hc hGl st p.1 p.2 (hne p (by simp)) h.1,
       keyInv_mergeStep c st p.1 p.2 (hne p (by simp)) h.1 h.2⟩

/-! ## what the Python objects guarantee about the input -/

/-- an event key is `Variable(n)` or `CounterfactualVariable(n, S)` over a variable of the graph, `S` a consistent subscript set -/
structure KeyOK (G : MG Name) (k : Var) : Prop where
  star : k.star = none
  notIv : k.isIv = false
  inG : k.name ∈ G.nodes
  subs : ConsistentSubs k.ivs

/-- the worlds are iterated in SOME order: `ordf` permutes its argument -/
def PermOrder (ordf : List World → List World) : Prop := ∀ l, (ordf l).Perm l

theorem PermOrder.good {ordf : List World → List World} (h : PermOrder ordf) : GoodOrder ordf := by
  intro vs
  obtain ⟨h1, h2⟩ := extractInterventions_ok vs
  exact ⟨(h _).nodup_iff.2 h1, fun w hw => h2 w ((h _).mem_iff.1 hw)⟩

theorem mem_extractInterventions (vs : List Var) (w : World) :
    w ∈ extractInterventions vs ↔ ∃ k ∈ vs, k.isCf = true ∧ k.ivs = w := by
  unfold extractInterventions
  rw [mem_dedup']
  simp only [List.mem_map, List.mem_filter]
  constructor
  · rintro ⟨k, ⟨hk, hc⟩, rfl⟩; exact ⟨k, hk, hc, rfl⟩
  · rintro ⟨k, hk, hc, rfl⟩; exact ⟨k, ⟨hk, hc⟩, rfl⟩

theorem plain_mem_cfInit (G : MG Name) (ws : List World) (n : Name) (hn : n ∈ G.nodes) :
    Var.plain n ∈ (cfInit G ws).nodes := by
  unfold cfInit
  rw [MG.mem_nodes_fromEdges]
  left
  unfold makeParallelWorldsGraph
  rw [MG.mem_nodes_fromEdges]
  left
  simp only [List.mem_append, List.mem_map]
  exact Or.inl ⟨n, hn, rfl⟩

theorem atWorld_mem_cfInit (G : MG Name) (ws : List World) (n : Name) (hn : n ∈ G.nodes) (w : World) (hw : w ∈ ws) :
    atWorld n w ∈ (cfInit G ws).nodes := by
  unfold cfInit
  rw [MG.mem_nodes_fromEdges]
  left
  unfold makeParallelWorldsGraph
  rw [MG.mem_nodes_fromEdges]
  left
  simp only [List.mem_append, List.mem_map, List.mem_flatMap]
  exact Or.inr ⟨w, hw, n, hn, rfl⟩

theorem KeyOK.eq_atWorld {G : MG Name} {k : Var} (h : KeyOK G k) : k = atWorld k.name k.ivs := by
  rcases k with ⟨n, s, i, v⟩
  have h1 := h.star; have h2 := h.notIv
  simp only at h1 h2
  subst h1 h2
  rfl

/-- the facts about a successful run of `make_counterfactual_graph` that the termination argument uses -/
theorem cg_run_inv {ordf : List World → List World} (hord : PermOrder ordf) {G : MG Name} (hG : G.WF)
    (hdl : ∀ e ∈ G.di, e.1 ≠ e.2) (hbl : ∀ e ∈ G.bi, e.1 ≠ e.2) {ev : Event} (hev : EvOK ev)
    (hk : ∀ k ∈ ev.keys, KeyOK G k) {g : MG Var} {nev : Event}
    (h : makeCounterfactualGraph ordf G ev = .ok (g, some nev)) :
    ∃ topo cf' anc, G.topologicalSort = .ok topo ∧ RepInv (trivCtx G topo ev) cf' ∧ EvOK nev ∧
      KeyInv (trivCtx G topo ev) cf' nev ∧
      loopResult ordf G ev topo = .run cf' nev ∧
      (nev.keys.foldl MG.addNode cf').ancestorsInclusive nev.keys = .ok anc ∧
      g = (nev.keys.foldl MG.addNode cf').subgraph anc := by
  obtain ⟨topo, cf', anc, ht, hl, ha, hg⟩ := cg_some_shape h
  have hc := trivCtx_ok G hG topo ht ev
  set c := trivCtx G topo ev with hcdef
  have hgood := hord.good ev.keys
  have hmemw : ∀ w ∈ ordf (extractInterventions ev.keys), ∃ k ∈ ev.keys, k.isCf = true ∧ k.ivs = w :=
    fun w hw => (mem_extractInterventions _ w).1 ((hord _).mem_iff.1 hw)
  have hwcs : ∀ w ∈ ordf (extractInterventions ev.keys), ConsistentSubs w := by
    intro w hw
    obtain ⟨k, hkk, _, rfl⟩ := hmemw w hw
    exact (hk k hkk).subs
  have hperm : ∀ n, n ∈ G.nodes → n ∈ c.M.order := fun n hn => (hc.compat.perm.mem_iff).2 hn
  have hinit : CombInv c (.run (cf0 G (ordf (extractInterventions ev.keys))) ev) := by
    refine ⟨⟨repInv_cfInit c hc hG hdl hbl _ hgood.1 hgood.2 hwcs, ⟨fun _ _ _ => Iff.rfl, hev⟩⟩, ?_, ?_⟩
    · intro k hkk
      exact ⟨(hk k hkk).star, (hk k hkk).notIv, hperm _ (hk k hkk).inG, (hk k hkk).subs⟩
    · intro k hkk
      left
      show k ∈ (cfInit G _).nodes
      by_cases hcf : k.isCf = true
      · have hw : k.ivs ∈ ordf (extractInterventions ev.keys) :=
          (hord _).mem_iff.2 ((mem_extractInterventions _ _).2 ⟨k, hkk, hcf, rfl⟩)
        rw [(hk k hkk).eq_atWorld]
        exact atWorld_mem_cfInit G _ _ (hk k hkk).inG _ hw
      · have hivs : k.ivs = [] := by
          unfold Var.isCf at hcf
          simpa using hcf
        rw [(hk k hkk).eq_atWorld, hivs]
        exact plain_mem_cfInit G _ _ (hk k hkk).inG
  have hfin : CombInv c (loopResult ordf G ev topo) := by
    unfold loopResult
    rw [mergeLoop_eq]
    exact combInv_runPairs c hc hdl _ (allPairs_ne _ hgood.1 hgood.2 topo) _ hinit
  rw [hl] at hfin
  obtain ⟨⟨hrep, hsup⟩, hkey⟩ := hfin
  exact ⟨topo, cf', anc, ht, hrep, hsup.ok, hkey, hl, ha, hg⟩

/-- every node of the returned counterfactual graph is `Variable(n)` / `CounterfactualVariable(n, S)` over a variable of `G` -/
theorem cg_nodeOK {ordf : List World → List World} (hord : PermOrder ordf) {G : MG Name} (hG : G.WF)
    (hdl : ∀ e ∈ G.di, e.1 ≠ e.2) (hbl : ∀ e ∈ G.bi, e.1 ≠ e.2) {ev : Event} (hev : EvOK ev)
    (hk : ∀ k ∈ ev.keys, KeyOK G k) {g : MG Var} {nev : Event}
    (h : makeCounterfactualGraph ordf G ev = .ok (g, some nev)) : ∀ x ∈ g.nodes, KeyOK G x := by
  obtain ⟨topo, cf', anc, ht, hrep, _, hkey, _, ha, rfl⟩ := cg_run_inv hord hG hdl hbl hev hk h
  have hc := trivCtx_ok G hG topo ht ev
  intro x hx
  rw [MG.mem_nodes_subgraph] at hx
  have hwf'' := wf_foldl_addNode nev.keys cf' hrep.wf
  -- members of the ancestor set are nodes of the graph
  have hxn : x ∈ (nev.keys.foldl MG.addNode cf').nodes := by
    obtain ⟨s, hs, hxs⟩ := (ancestorsInclusive_spec _ hwf'' _ _ ha x).1 hx
    rcases ReflTransGen.cases_head hxs with rfl | ⟨y, hxy, _⟩
    · exact (mem_nodes_foldl_addNode _ _ _).2 (Or.inr hs)
    · exact (hwf''.di_mem _ hxy).1
  have hok : NodeOK (trivCtx G topo ev) x := by
    rcases (mem_nodes_foldl_addNode _ _ _).1 hxn with hx' | hx'
    · exact hrep.nodes x hx'
    · exact hkey.ok x hx'
  exact ⟨hok.star, hok.notIv, (hc.compat.perm.mem_iff).1 hok.inModel, hok.subs⟩

/-- **every parent variable is represented**: a non-self-intervened node `n` of the returned graph has, for every parent `m`
of its variable in `G`, a parent node named `m` -/
theorem cg_rep {ordf : List World → List World} (hord : PermOrder ordf) {G : MG Name} (hG : G.WF)
    (hdl : ∀ e ∈ G.di, e.1 ≠ e.2) (hbl : ∀ e ∈ G.bi, e.1 ≠ e.2) {ev : Event} (hev : EvOK ev)
    (hk : ∀ k ∈ ev.keys, KeyOK G k) {g : MG Var} {nev : Event}
    (h : makeCounterfactualGraph ordf G ev = .ok (g, some nev)) (n : Var) (hn : n ∈ g.nodes)
    (hnsi : isNotSelfIntervened n = true) (m : Name) (hm : (m, n.name) ∈ G.di) :
    ∃ x, (x, n) ∈ g.di ∧ x.name = m := by
  obtain ⟨topo, cf', anc, ht, hrep, _, hkey, _, ha, rfl⟩ := cg_run_inv hord hG hdl hbl hev hk h
  rw [MG.mem_nodes_subgraph] at hn
  have hwf'' := wf_foldl_addNode nev.keys cf' hrep.wf
  have spec := ancestorsInclusive_spec _ hwf'' _ _ ha
  have hmp : m ∈ (trivCtx G topo ev).M.pa n.name := (mem_gparents G m n.name).2 hm
  -- `n` is a node of the loop's graph
  have hn' : n ∈ cf'.nodes := by
    obtain ⟨s, hs, hns⟩ := (spec n).1 hn
    have hnn : n ∈ (nev.keys.foldl MG.addNode cf').nodes := by
      rcases ReflTransGen.cases_head hns with rfl | ⟨y, hxy, _⟩
      · exact (mem_nodes_foldl_addNode _ _ _).2 (Or.inr hs)
      · exact (hwf''.di_mem _ hxy).1
    rcases (mem_nodes_foldl_addNode _ _ _).1 hnn with hx' | hx'
    · exact hx'
    · rcases hkey.inNodes n hx' with h1 | h1 | h1
      · exact h1
      · rw [hnsi] at h1; cases h1
      · rw [h1] at hmp; cases hmp
  obtain ⟨x, hx, hxn, _⟩ := hrep.rep n hn' hnsi m hmp
  refine ⟨x, ?_, hxn⟩
  have hx'' : (nev.keys.foldl MG.addNode cf').DiEdge x n := (diEdge_foldl_addNode _ _ _ _).2 hx
  have hxa : x ∈ anc := by
    obtain ⟨s, hs, hns⟩ := (spec n).1 hn
    exact (spec x).2 ⟨s, hs, ReflTransGen.head hx'' hns⟩
  exact (MG.diEdge_subgraph _ _ _ _).2 ⟨hx'', hxa, hn⟩

end Y0.Cf
