/-
  Y0.Lemmas.Closure — the fuel-bounded saturation `MG.closure` computes exactly the
  reflexive-transitive closure, provided the fuel exceeds the number of elements that can be added.
-/
import Y0.Lemmas.Graph
import Mathlib.Data.Finset.Card
import Mathlib.Data.Finset.Dedup

namespace Y0.MG
variable {α : Type} [DecidableEq α]

open Relation

theorem subset_closure (next : α → List α) (fuel : Nat) (A : List α) :
    ∀ v ∈ A, v ∈ closure next fuel A := by
  induction fuel generalizing A with
  | zero => intro v hv; simpa [closure] using hv
  | succ n ih =>
    intro v hv
    simp only [closure]
    split
    · exact hv
    · exact ih _ v (by simp [hv])

theorem closure_sound (next : α → List α) (fuel : Nat) (A : List α) (v : α) :
    v ∈ closure next fuel A → ∃ s ∈ A, ReflTransGen (fun a b => b ∈ next a) s v := by
  induction fuel generalizing A with
  | zero => intro hv; exact ⟨v, by simpa [closure] using hv, .refl⟩
  | succ n ih =>
    intro hv
    simp only [closure] at hv
    split at hv
    · exact ⟨v, hv, .refl⟩
    · obtain ⟨s, hs, hsv⟩ := ih _ hv
      rcases List.mem_append.1 hs with hs | hs
      · exact ⟨s, hs, hsv⟩
      · simp only [mem_dedup', List.mem_filter, List.mem_flatMap, decide_eq_true_eq] at hs
        obtain ⟨⟨a, ha, has⟩, _⟩ := hs
        exact ⟨a, ha, ReflTransGen.head has hsv⟩

/-- with enough fuel the result is closed under `next` -/
theorem closure_closed (next : α → List α) (U : Finset α)
    (hU : ∀ a ∈ U, ∀ b ∈ next a, b ∈ U) (fuel : Nat) (A : List α) (hA : ∀ a ∈ A, a ∈ U)
    (hfuel : (U \ A.toFinset).card < fuel) :
    ∀ a ∈ closure next fuel A, ∀ b ∈ next a, b ∈ closure next fuel A := by
  induction fuel generalizing A with
  | zero => omega
  | succ n ih =>
    simp only [closure]
    split
    · rename_i hnew
      intro a ha b hb
      by_contra hbA
      have : b ∈ dedup' ((A.flatMap next).filter (· ∉ A)) := by
        simp only [mem_dedup', List.mem_filter, List.mem_flatMap, decide_eq_true_eq]
        exact ⟨⟨a, ha, hb⟩, hbA⟩
      simp only [List.isEmpty_iff] at hnew
      rw [hnew] at this
      simp at this
    · rename_i hnew
      set new := dedup' ((A.flatMap next).filter (· ∉ A)) with hnew_def
      have hnewU : ∀ x ∈ new, x ∈ U ∧ x ∉ A := by
        intro x hx
        simp only [hnew_def, mem_dedup', List.mem_filter, List.mem_flatMap, decide_eq_true_eq] at hx
        obtain ⟨⟨a, ha, hax⟩, hxA⟩ := hx
        exact ⟨hU a (hA a ha) x hax, hxA⟩
      apply ih
      · intro a ha
        rcases List.mem_append.1 ha with ha | ha
        · exact hA a ha
        · exact (hnewU a ha).1
      · obtain ⟨x, hx⟩ : ∃ x, x ∈ new := by
          cases hn : new with
          | nil => simp [hn] at hnew
          | cons x xs => exact ⟨x, by simp⟩
        have hlt : (U \ (A ++ new).toFinset).card < (U \ A.toFinset).card := by
          apply Finset.card_lt_card
          constructor
          · intro y hy
            simp only [Finset.mem_sdiff, List.mem_toFinset, List.mem_append, not_or] at hy ⊢
            exact ⟨hy.1, hy.2.1⟩
          · intro hsub
            have : x ∈ U \ (A ++ new).toFinset := hsub (by
              simp only [Finset.mem_sdiff, List.mem_toFinset]
              exact hnewU x hx)
            simp only [Finset.mem_sdiff, List.mem_toFinset, List.mem_append, not_or] at this
            exact this.2.2 hx
        omega

/-- exact characterisation of the saturation -/
theorem mem_closure_iff (next : α → List α) (U : Finset α)
    (hU : ∀ a ∈ U, ∀ b ∈ next a, b ∈ U) (fuel : Nat) (A : List α) (hA : ∀ a ∈ A, a ∈ U)
    (hfuel : U.card < fuel) (v : α) :
    v ∈ closure next fuel A ↔ ∃ s ∈ A, ReflTransGen (fun a b => b ∈ next a) s v := by
  constructor
  · exact closure_sound next fuel A v
  · rintro ⟨s, hs, hsv⟩
    have hcl := closure_closed next U hU fuel A hA
      (lt_of_le_of_lt (Finset.card_le_card Finset.sdiff_subset) hfuel)
    induction hsv with
    | refl => exact subset_closure next fuel A s hs
    | tail _ hbc ih => exact hcl _ ih _ hbc

end Y0.MG
