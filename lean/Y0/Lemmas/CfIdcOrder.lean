/-
  Y0.Lemmas.CfIdcOrder — the re-association of IDC* (`get_new_outcomes_and_conditions`) does not depend on the order in which
  Python iterates over the set `set(new_event) - set(outcomes) - set(conditions)`.

  Since `fix:` b76144c the code sorts that set with `_variable_sort_key` before it inserts the keys into the new outcome and
  condition dicts.  In the model the iteration order of the set is an arbitrary function `π` that returns a permutation of its
  argument; the code is `kordf = orderDistrict false ∘ π = sortBy Var.keyLt ∘ π`.  Proved here: on keys that `_variable_sort_key`
  tells apart (event keys: plain or counterfactual variables, no value mark — `KeyLike`) the sorted list is the same for every
  `π`, hence so are the dicts `newOutcomesAndConditions` returns (`reassoc_order_independent`) and the whole of IDC*
  (`idcStarFuel_order_independent`).

  (`List.Perm.eq_of_pairwise` is in core.)
-/
import Y0.Model.IdcStar
import Y0.Lemmas.CfBasic
import Y0.Lemmas.CfIdcTermC

namespace Y0
namespace Cf

/-! ### `listLt` is a strict total order on token lists -/

theorem listLt_irrefl : ∀ l, Var.listLt l l = false
  | [] => rfl
  | (a1, a2) :: as => by
    simp only [Var.listLt, Nat.lt_irrefl, if_false]
    exact listLt_irrefl as

theorem listLt_trans : ∀ a b c, Var.listLt a b = true → Var.listLt b c = true → Var.listLt a c = true
  | [], [], _, h, _ => by simp [Var.listLt] at h
  | [], _ :: _, [], _, h => by simp [Var.listLt] at h
  | [], _ :: _, _ :: _, _, _ => by simp [Var.listLt]
  | _ :: _, [], _, h, _ => by simp [Var.listLt] at h
  | _ :: _, _ :: _, [], _, h => by simp [Var.listLt] at h
  | (a1, a2) :: as, (b1, b2) :: bs, (c1, c2) :: cs, hab, hbc => by
    simp only [Var.listLt] at hab hbc ⊢
    rcases Nat.lt_trichotomy a1 b1 with h1 | rfl | h1
    · rcases Nat.lt_trichotomy b1 c1 with h2 | rfl | h2
      · simp [Nat.lt_trans h1 h2]
      · simp [h1]
      · simp [h2, Nat.lt_asymm h2] at hbc
    · simp only [Nat.lt_irrefl, if_false] at hab
      rcases Nat.lt_trichotomy a1 c1 with h2 | rfl | h2
      · simp [h2]
      · simp only [Nat.lt_irrefl, if_false] at hbc ⊢
        rcases Nat.lt_trichotomy a2 b2 with g1 | rfl | g1
        · rcases Nat.lt_trichotomy b2 c2 with g2 | rfl | g2
          · simp [Nat.lt_trans g1 g2]
          · simp [g1]
          · simp [g2, Nat.lt_asymm g2] at hbc
        · simp only [Nat.lt_irrefl, if_false] at hab
          rcases Nat.lt_trichotomy a2 c2 with g2 | rfl | g2
          · simp [g2]
          · simp only [Nat.lt_irrefl, if_false] at hbc ⊢
            exact listLt_trans as bs cs hab hbc
          · simp [g2, Nat.lt_asymm g2] at hbc
        · simp [g1, Nat.lt_asymm g1] at hab
      · simp [h2, Nat.lt_asymm h2] at hbc
    · simp [h1, Nat.lt_asymm h1] at hab

theorem listLt_total : ∀ a b, a ≠ b → Var.listLt a b = true ∨ Var.listLt b a = true
  | [], [], h => absurd rfl h
  | [], _ :: _, _ => Or.inl (by simp [Var.listLt])
  | _ :: _, [], _ => Or.inr (by simp [Var.listLt])
  | (a1, a2) :: as, (b1, b2) :: bs, h => by
    simp only [Var.listLt]
    rcases Nat.lt_trichotomy a1 b1 with h1 | rfl | h1
    · simp [h1]
    · simp only [Nat.lt_irrefl, if_false]
      rcases Nat.lt_trichotomy a2 b2 with g1 | rfl | g1
      · simp [g1]
      · simp only [Nat.lt_irrefl, if_false]
        exact listLt_total as bs (fun e => h (by rw [e]))
      · simp [g1, Nat.lt_asymm g1]
    · simp [h1, Nat.lt_asymm h1]

/-! ### `Var.keyLt` (the model of `_variable_sort_key`) -/

theorem keyLt_irrefl (a : Var) : Var.keyLt a a = false := by
  simp [Var.keyLt, listLt_irrefl]

theorem keyLt_trans (a b c : Var) (hab : Var.keyLt a b = true) (hbc : Var.keyLt b c = true) : Var.keyLt a c = true := by
  simp only [Var.keyLt, Bool.or_eq_true, decide_eq_true_eq, Bool.and_eq_true, beq_iff_eq] at hab hbc ⊢
  rcases hab with h1 | ⟨e1, l1⟩
  · rcases hbc with h2 | ⟨e2, _⟩
    · exact Or.inl (Nat.lt_trans h1 h2)
    · exact Or.inl (e2 ▸ h1)
  · rcases hbc with h2 | ⟨e2, l2⟩
    · exact Or.inl (e1 ▸ h2)
    · exact Or.inr ⟨e1.trans e2, listLt_trans _ _ _ l1 l2⟩

theorem keyLt_asymm (a b : Var) (hab : Var.keyLt a b = true) (hba : Var.keyLt b a = true) : False := by
  have := keyLt_trans a b a hab hba
  rw [keyLt_irrefl] at this
  cases this

/-- `_variable_sort_key` tells two variables apart as soon as their sort keys differ -/
theorem keyLt_total (a b : Var) (h : a.sortKey ≠ b.sortKey) : Var.keyLt a b = true ∨ Var.keyLt b a = true := by
  simp only [Var.keyLt, Bool.or_eq_true, decide_eq_true_eq, Bool.and_eq_true, beq_iff_eq]
  rcases Nat.lt_trichotomy a.name b.name with h1 | e | h1
  · exact Or.inl (Or.inl h1)
  · have hne : a.sortKey.2 ≠ b.sortKey.2 := by
      intro e2
      apply h
      exact Prod.ext e e2
    rcases listLt_total _ _ hne with l | l
    · exact Or.inl (Or.inr ⟨e, l⟩)
    · exact Or.inr (Or.inr ⟨e.symm, l⟩)
  · exact Or.inr (Or.inl h1)

/-- a key of an event dict: a plain or counterfactual variable without a value mark (what `_variable_sort_key` is injective on) -/
def KeyLike (v : Var) : Prop := v.star = none ∧ v.isIv = false

theorem sortKey_injective {a b : Var} (ha : KeyLike a) (hb : KeyLike b) (h : a.sortKey = b.sortKey) : a = b := by
  obtain ⟨an, as, ai, aivs⟩ := a
  obtain ⟨bn, bs, bi, bivs⟩ := b
  simp only [KeyLike] at ha hb
  obtain ⟨rfl, rfl⟩ := ha
  obtain ⟨rfl, rfl⟩ := hb
  simp only [Var.sortKey, Prod.mk.injEq] at h
  obtain ⟨rfl, hl⟩ := h
  have : aivs = bivs := by
    apply List.map_injective_iff.2 _ hl
    intro i j hij
    obtain ⟨i1, i2⟩ := i
    obtain ⟨j1, j2⟩ := j
    simp only [Prod.mk.injEq] at hij
    obtain ⟨h1, rfl⟩ := hij
    cases i2 <;> cases j2 <;> simp_all
  rw [this]

/-! ### sorting a permutation -/

section
variable {α : Type} (lt : α → α → Bool)

theorem insertBy_pairwise (htr : ∀ a b c, lt a b = true → lt b c = true → lt a c = true) (x : α) :
    ∀ (l : List α), l.Pairwise (fun a b => lt a b = true) → (∀ y ∈ l, lt x y = true ∨ lt y x = true) →
      (insertBy lt x l).Pairwise (fun a b => lt a b = true)
  | [], _, _ => by simp [insertBy]
  | y :: ys, hs, hx => by
    rw [List.pairwise_cons] at hs
    unfold insertBy
    split
    · rename_i hyx
      rw [List.pairwise_cons]
      refine ⟨?_, insertBy_pairwise htr x ys hs.2 (fun z hz => hx z (List.mem_cons_of_mem _ hz))⟩
      intro z hz
      rcases (mem_insertBy lt x z ys).1 hz with rfl | hz
      · exact hyx
      · exact hs.1 z hz
    · rename_i hyx
      have hlt : lt x y = true := by
        rcases hx y List.mem_cons_self with h | h
        · exact h
        · exact absurd h hyx
      rw [List.pairwise_cons]
      refine ⟨?_, List.pairwise_cons.2 hs⟩
      intro z hz
      rcases List.mem_cons.1 hz with rfl | hz
      · exact hlt
      · exact htr x y z hlt (hs.1 z hz)

theorem sortBy_pairwise (htr : ∀ a b c, lt a b = true → lt b c = true → lt a c = true) :
    ∀ (l : List α), l.Pairwise (fun a b => lt a b = true ∨ lt b a = true) → (sortBy lt l).Pairwise (fun a b => lt a b = true)
  | [], _ => by simp [sortBy]
  | x :: xs, h => by
    rw [List.pairwise_cons] at h
    show (insertBy lt x (sortBy lt xs)).Pairwise _
    exact insertBy_pairwise lt htr x _ (sortBy_pairwise htr xs h.2) (fun y hy => h.1 y ((mem_sortBy lt y xs).1 hy))

theorem perm_sortBy_self : ∀ (l : List α), (sortBy lt l).Perm l
  | [] => by simp [sortBy]
  | x :: xs => by
    show (insertBy lt x (sortBy lt xs)).Perm (x :: xs)
    have hins : ∀ (l : List α), (insertBy lt x l).Perm (x :: l) := by
      intro l
      induction l with
      | nil => simp [insertBy]
      | cons y ys ih =>
        unfold insertBy
        split
        · exact ((List.Perm.cons y ih).trans (List.Perm.swap x y ys))
        · exact List.Perm.refl _
    exact (hins _).trans (List.Perm.cons x (perm_sortBy_self xs))

/-- **sorting forgets the order of the input**: for a transitive, asymmetric comparison that tells any two different elements of
the list apart, every permutation of the list sorts to the same list -/
theorem sortBy_perm_eq (htr : ∀ a b c, lt a b = true → lt b c = true → lt a c = true)
    (has : ∀ a b, lt a b = true → lt b a = true → False) {l l' : List α} (hp : l'.Perm l)
    (htot : l.Pairwise (fun a b => lt a b = true ∨ lt b a = true)) : sortBy lt l' = sortBy lt l := by
  have hsym : ∀ {a b : α}, (lt a b = true ∨ lt b a = true) → (lt b a = true ∨ lt a b = true) := fun h => h.symm
  have htot' : l'.Pairwise (fun a b => lt a b = true ∨ lt b a = true) :=
    hp.symm.pairwise htot (fun h => hsym h)
  apply List.Perm.eq_of_pairwise (le := fun a b => lt a b = true)
  · intro a b _ _ hab hba
    exact absurd hba (fun h => has a b hab h)
  · exact sortBy_pairwise lt htr l' htot'
  · exact sortBy_pairwise lt htr l htot
  · exact (perm_sortBy_self lt l').trans (hp.trans (perm_sortBy_self lt l).symm)
end

/-- different event keys are told apart by `_variable_sort_key` -/
theorem keys_pairwise_comparable {l : List Var} (hn : l.Nodup) (hk : ∀ k ∈ l, KeyLike k) :
    l.Pairwise (fun a b => Var.keyLt a b = true ∨ Var.keyLt b a = true) := by
  induction l with
  | nil => exact List.Pairwise.nil
  | cons x xs ih =>
    rw [List.nodup_cons] at hn
    rw [List.pairwise_cons]
    refine ⟨?_, ih hn.2 (fun k hk' => hk k (List.mem_cons_of_mem _ hk'))⟩
    intro y hy
    apply keyLt_total
    intro e
    have : x = y := sortKey_injective (hk x List.mem_cons_self) (hk y (List.mem_cons_of_mem _ hy)) e
    exact hn.1 (this ▸ hy)

/-- **the sorted order of the re-associated keys does not depend on the iteration order of the Python set**: `π` is any function
that returns a permutation of its argument (the order in which `set(new_event) - set(outcomes) - set(conditions)` happens to be
iterated); after `fix:` b76144c the code sorts, and the sorted list is the same for every `π` -/
theorem orderDistrict_perm_invariant (π : List Var → List Var) (hπ : ∀ l, (π l).Perm l) (l : List Var) (hn : l.Nodup)
    (hk : ∀ k ∈ l, KeyLike k) : orderDistrict false (π l) = orderDistrict false l := by
  simp only [orderDistrict, Bool.false_eq_true, if_false]
  exact sortBy_perm_eq Var.keyLt keyLt_trans keyLt_asymm (hπ l) (keys_pairwise_comparable hn hk)

/-- **`get_new_outcomes_and_conditions` is independent of the set-iteration order** when the keys of the relabelled event are
event keys (no value mark, not an `Intervention`) without repetition -/
theorem reassoc_order_independent (π : List Var → List Var) (hπ : ∀ l, (π l).Perm l) (new outcomes conditions : Event)
    (hn : new.keys.Nodup) (hk : ∀ k ∈ new.keys, KeyLike k) :
    newOutcomesAndConditions (fun l => orderDistrict false (π l)) new outcomes conditions =
      newOutcomesAndConditions (orderDistrict false) new outcomes conditions := by
  have hsub : (((new.keys.filter (fun k => !outcomes.has k)).filter (fun k => !conditions.has k))).Sublist new.keys :=
    (List.filter_sublist).trans List.filter_sublist
  have h := orderDistrict_perm_invariant π hπ _ (hn.sublist hsub) (fun k hk' => hk k (hsub.subset hk'))
  unfold newOutcomesAndConditions
  simp only [h]

/-! ### the relabelled event IDC* re-associates has such keys -/

/-- the keys of the event `make_counterfactual_graph` returns for `outcomes | conditions` are pairwise different event keys
(inputs as in `idcstar_terminates_shared_names`: `IdcInv`, a well-formed loop-free graph, the worlds iterated in any order) -/
theorem cg_keys_keyLike {ordf : List World → List World} {G : MG Name} (hord : PermOrder ordf) (hG : G.WF)
    (hdl : ∀ e ∈ G.di, e.1 ≠ e.2) (hbl : ∀ e ∈ G.bi, e.1 ≠ e.2) (O C : Event) (hinv : IdcInv G O C)
    (hne : Event.ofList (O ++ C) ≠ []) {cf : MG Var} {nev : Event}
    (hcg : makeCounterfactualGraph ordf G (Event.ofList (O ++ C)) = .ok (cf, some nev)) :
    nev.keys.Nodup ∧ ∀ k ∈ nev.keys, KeyLike k := by
  have hEnd := (Event.ofList_spec (O ++ C)).1
  have hEmem := mem_keys_ofList_append O C
  have hEent := (Event.ofList_spec (O ++ C)).2
  have hEok : EvOK (Event.ofList (O ++ C)) := by
    refine ⟨hEnd, fun p hp => ?_⟩
    rcases List.mem_append.1 (hEent p hp) with h | h
    · exact hinv.onames p h
    · exact hinv.cnames p h
  have hEkey : ∀ k ∈ (Event.ofList (O ++ C)).keys, KeyOK G k := fun k hk' => hinv.keyOK k ((hEmem k).1 hk')
  have hEnsi : KeysNSI (Event.ofList (O ++ C)) :=
    ⟨hne, fun p hp => hinv.nsi p.1 ((hEmem p.1).1 ((mem_keys_iff' _ _).2 ⟨p, hp, rfl⟩))⟩
  obtain ⟨_, hnevok⟩ := cg_event_inv hord.good hcg hEnsi hEok
  have hnodeOK := cg_nodeOK hord hG hdl hbl hEok hEkey hcg
  have hnevnode := cg_event_in_nodes hcg
  refine ⟨hnevok.nodup, fun k hk => ?_⟩
  have := hnodeOK k (hnevnode k hk)
  exact ⟨this.star, this.notIv⟩

/-- **line 3 of IDC\* after `fix:` b76144c**: on the relabelled event of the real run the re-association is the same whatever
order `π` the Python set is iterated in -/
theorem reassoc_order_independent_run {ordf : List World → List World} {G : MG Name} (hord : PermOrder ordf) (hG : G.WF)
    (hdl : ∀ e ∈ G.di, e.1 ≠ e.2) (hbl : ∀ e ∈ G.bi, e.1 ≠ e.2) (O C : Event) (hinv : IdcInv G O C)
    (hne : Event.ofList (O ++ C) ≠ []) {cf : MG Var} {nev : Event}
    (hcg : makeCounterfactualGraph ordf G (Event.ofList (O ++ C)) = .ok (cf, some nev))
    (π : List Var → List Var) (hπ : ∀ l, (π l).Perm l) :
    newOutcomesAndConditions (fun l => orderDistrict false (π l)) nev O C =
      newOutcomesAndConditions (orderDistrict false) nev O C := by
  obtain ⟨hn, hk⟩ := cg_keys_keyLike hord hG hdl hbl O C hinv hne hcg
  exact reassoc_order_independent π hπ nev O C hn hk

/-! ### the whole recursion -/

theorem subsetOrder_sorted_perm (π : List Var → List Var) (hπ : ∀ l, (π l).Perm l) :
    SubsetOrder (fun l => orderDistrict false (π l)) := by
  intro d x hx
  have h1 : x ∈ π d := by
    simp only [orderDistrict, Bool.false_eq_true, if_false] at hx
    exact (mem_sortBy Var.keyLt x (π d)).1 hx
  exact (hπ d).mem_iff.1 h1

theorem reassoc_nil (kordf : List Var → List Var) (new : Event) : newOutcomesAndConditions kordf new [] [] = ([], []) := by
  simp [newOutcomesAndConditions, remainingAndMissing]

/-- **the whole line-4 recursion of IDC\* is independent of the iteration order of the Python set** (after `fix:` b76144c), on
every input of `idcstar_terminates_shared_names`: for every `π` that returns a permutation of its argument, every fuel -/
theorem idcStarO_order_independent {ordf : List World → List World} {dordf : List Var → List Var} {G : MG Name}
    (hord : PermOrder ordf) (hG : G.WF) (hdl : ∀ e ∈ G.di, e.1 ≠ e.2) (hbl : ∀ e ∈ G.bi, e.1 ≠ e.2)
    (π : List Var → List Var) (hπ : ∀ l, (π l).Perm l) :
    ∀ (fuel : Nat) (O C : Event), IdcInv G O C →
      idcStarO ordf dordf (fun l => orderDistrict false (π l)) G fuel O C =
        idcStarO ordf dordf (orderDistrict false) G fuel O C := by
  intro fuel
  induction fuel with
  | zero => intro O C _; rfl
  | succ n ih =>
    intro O C hinv
    -- the re-association of this level is the same under both orders
    have hre : ∀ cf nev, makeCounterfactualGraph ordf G (Event.ofList (O ++ C)) = .ok (cf, some nev) →
        newOutcomesAndConditions (fun l => orderDistrict false (π l)) nev O C =
          newOutcomesAndConditions (orderDistrict false) nev O C := by
      intro cf nev hcg
      by_cases hne : Event.ofList (O ++ C) = []
      · have hO : O = [] := by
          cases O with
          | nil => rfl
          | cons p ps =>
            have : p.1 ∈ (Event.ofList ((p :: ps) ++ C)).keys :=
              (mem_keys_ofList_append (p :: ps) C p.1).2 (Or.inl (by simp [Event.keys]))
            rw [hne] at this
            cases this
        have hC : C = [] := by
          cases C with
          | nil => rfl
          | cons p ps =>
            have : p.1 ∈ (Event.ofList (O ++ (p :: ps))).keys :=
              (mem_keys_ofList_append O (p :: ps) p.1).2 (Or.inr (by simp [Event.keys]))
            rw [hne] at this
            cases this
        subst hO; subst hC
        rw [reassoc_nil, reassoc_nil]
      · exact reassoc_order_independent_run hord hG hdl hbl O C hinv hne hcg π hπ
    rw [idcStarO, idcStarO]
    cases h1 : line1 (idStar ordf dordf G C) with
    | error err => rfl
    | ok u =>
      simp only
      cases hcg : makeCounterfactualGraph ordf G (Event.ofList (O ++ C)) with
      | error err => rfl
      | ok v =>
        rcases v with ⟨cf, new⟩
        cases new with
        | none => rfl
        | some nev =>
          simp only
          rw [hre cf nev hcg]
          cases hf : firstExchangeable cf (newOutcomesAndConditions (orderDistrict false) nev O C).fst.keys
              (newOutcomesAndConditions (orderDistrict false) nev O C).snd.keys with
          | error err => rfl
          | ok oc =>
            cases oc with
            | none => rfl
            | some c =>
              simp only
              cases hg : (newOutcomesAndConditions (orderDistrict false) nev O C).snd.get? c with
              | none => rfl
              | some val =>
                simp only
                cases hx : exchangeStep cf (newOutcomesAndConditions (orderDistrict false) nev O C).fst c val
                    ((newOutcomesAndConditions (orderDistrict false) nev O C).snd.filter (fun p => p.1 ≠ c)) with
                | error err => rfl
                | ok on =>
                 cases on with
                 | none => rfl
                 | some no' =>
                  simp only
                  apply ih
                  -- the invariant of the next level, from the step lemma (for the sorted order)
                  rcases idcStarO_step ordf dordf (orderDistrict false) G (subsetOrder_orderDistrict false) hord hG hdl hbl O C hinv
                    with hdone | ⟨O', C', hinv', _, ⟨cf2, nev2, c2, val2, hcg2, hf2, hg2, hx2, hC'⟩, _⟩
                  · -- impossible: with one unit of fuel this branch runs out of fuel
                    have h0 := hdone 0
                    rw [idcStarO, h1] at h0
                    simp only at h0
                    rw [hcg] at h0
                    simp only at h0
                    rw [hf] at h0
                    simp only at h0
                    rw [hg] at h0
                    simp only at h0
                    rw [hx] at h0
                    simp only [idcStarO] at h0
                    cases h0
                  · rw [hcg] at hcg2
                    simp only [Except.ok.injEq, Prod.mk.injEq, Option.some.injEq] at hcg2
                    obtain ⟨rfl, rfl⟩ := hcg2
                    rw [hf] at hf2
                    simp only [Except.ok.injEq, Option.some.injEq] at hf2
                    subst hf2
                    rw [hg] at hg2
                    simp only [Option.some.injEq] at hg2
                    subst hg2
                    rw [hx] at hx2
                    simp only [Except.ok.injEq, Option.some.injEq] at hx2
                    subst hx2
                    rw [hC'] at hinv'
                    exact hinv'

end Cf
end Y0
