/-
  Y0.Lemmas.HedgeNonIdQ — closed form of every c-factor `Q[S]` of a parity model (`PSpec.scm`):

      Q[S](σ) = (1/2)^{#edges} · (1/2)^{#(S ∖ T)} · ev (Π_{i ∈ T} g_S i) (Σ_{i ∈ T ∩ S} expo i σ)

  with `g_S i` the noise of `i` when `i ∈ S` and the constant function 1 otherwise (`Q_formula`): the latents are summed
  out by `peel`.
-/
import Y0.Lemmas.HedgeNonIdModel
import Mathlib.Algebra.BigOperators.Group.List.Lemmas

namespace Y0
namespace NonId

theorem prod_filter_split {M : Type} [CommMonoid M] (q : Name → Bool) (f : Name → M) (l : List Name) :
    (l.map f).prod = ((l.filter q).map f).prod * ((l.filter fun i => !q i).map f).prod := by
  induction l with
  | nil => simp
  | cons a l ih =>
    by_cases h : q a = true
    · simp [h, ih, mul_assoc]
    · have h' : q a = false := by simpa using h
      simp [h', ih, mul_left_comm]

theorem prod_map_ite_filter {M : Type} [CommMonoid M] (q : Name → Bool) (f : Name → M) (l : List Name) :
    (l.map fun i => if q i = true then f i else 1).prod = ((l.filter q).map f).prod := by
  induction l with
  | nil => simp
  | cons a l ih =>
    by_cases h : q a = true
    · simp [h, ih]
    · have h' : q a = false := by simpa using h
      simp [h', ih]

theorem filter_mem_perm {S T : List Name} (hS : S.Nodup) (hT : T.Nodup) :
    (S.filter fun i => decide (i ∈ T)).Perm (T.filter fun i => decide (i ∈ S)) := by
  apply (List.perm_ext_iff_of_nodup (hS.filter _) (hT.filter _)).mpr
  intro a
  simp only [List.mem_filter, decide_eq_true_eq]
  exact ⟨fun h => ⟨h.2, h.1⟩, fun h => ⟨h.2, h.1⟩⟩

/-- product over `S ∩ T` indexed by `S` or by `T` -/
theorem prod_inter_swap {M : Type} [CommMonoid M] {S T : List Name} (hS : S.Nodup) (hT : T.Nodup) (f : Name → M) :
    ((S.filter fun i => decide (i ∈ T)).map f).prod = (T.map fun i => if i ∈ S then f i else 1).prod := by
  have := prod_map_ite_filter (fun i => decide (i ∈ S)) f T
  simp only [decide_eq_true_eq] at this
  rw [this]
  exact ((filter_mem_perm hS hT).map f).prod_eq

namespace PSpec

/-- the node function of `i` inside `Q[S]`: its noise if `i ∈ S`, the constant 1 otherwise -/
def gS (P : PSpec) (S : List Name) (i : Name) : Rat × Rat := if i ∈ S then (1, P.rho i) else (2, 0)

def eS (P : PSpec) (S : List Name) (i : Name) (σ : Val) : Nat := if i ∈ S then P.expo i σ else 0

theorem kern_off_tree (P : PSpec) {v : Name} (hv : v ∉ P.T) (τ : Val) : P.scm.kern v τ = 1 / 2 := by
  simp [scm, noise, hv, ev]

theorem kern_prod (P : PSpec) {G : MG Name} (h : P.Good G) {S : List Name} (hS : S.Nodup) (τ : Val) :
    (S.map fun v => P.scm.kern v τ).prod =
      (1 / 2) ^ (S.filter fun i => !decide (i ∈ P.T)).length * treeTerm P.L P.root P.es (P.gS S) (P.eS S) τ := by
  rw [prod_filter_split (fun i => decide (i ∈ P.T)), mul_comm]
  congr 1
  · have : ((S.filter fun i => !decide (i ∈ P.T)).map fun v => P.scm.kern v τ) =
        (S.filter fun i => !decide (i ∈ P.T)).map fun _ => (1 / 2 : Rat) := by
      apply List.map_congr_left
      intro v hv
      have := (List.mem_filter.mp hv).2
      exact kern_off_tree P (by simpa using this) τ
    rw [this, List.map_const', List.prod_replicate]
  · rw [prod_inter_swap (T := P.T) hS (TreeSeq.nodup h.tree)]
    unfold treeTerm
    refine congrArg List.prod (List.map_congr_left ?_)
    intro i hi
    have hiT : i ∈ P.T := hi
    by_cases hiS : i ∈ S
    · simp only [hiS, if_true, gS, eS, scm, noise, hiT]
    · simp only [hiS, if_false, gS, ev_const]

theorem eS_indep (P : PSpec) {G : MG Name} (h : P.Good G) {S : List Name} (hSG : ∀ v ∈ S, v ∈ G.nodes) (i : Name) :
    ∀ u ∈ latsOf P.L P.es, NatIndep (P.eS S i) u := by
  intro u hu τ k
  unfold eS
  by_cases hiS : i ∈ S
  · simp only [hiS, if_true, expo]
    have h1 : i ≠ u := fun h' => h.lfresh u hu (h' ▸ hSG i hiS)
    have h2 : u ∉ P.par i := fun h' => h.lfresh u hu (h.par_nodes i u h')
    rw [Val.set_other τ k h1, map_set_of_not_mem τ u k _ h2]
  · simp only [hiS, if_false]

/-- **closed form of the c-factors of a parity model** -/
theorem Q_formula (P : PSpec) {G : MG Name} (h : P.Good G) {S : List Name} (hS : S.Nodup)
    (hSG : ∀ v ∈ S, v ∈ G.nodes) (σ : Val) :
    P.scm.Q S σ = (1 / 2) ^ P.es.length * (1 / 2) ^ (S.filter fun i => !decide (i ∈ P.T)).length *
      ev ((P.T.map (P.gS S)).prod) ((P.T.map fun i => P.eS S i σ).sum) := by
  unfold Scm.Q
  have hw : P.scm.weight S = fun τ => (1 / 2) ^ P.es.length * (1 / 2) ^ (S.filter fun i => !decide (i ∈ P.T)).length *
      treeTerm P.L P.root P.es (P.gS S) (P.eS S) τ := by
    funext τ
    unfold Scm.weight
    rw [kern_prod P h hS τ, mul_assoc]
    congr 1
    have : ((P.scm.lat).map fun u => P.scm.prior u (τ u)) = P.es.map fun _ => (1 / 2 : Rat) := by
      simp only [scm, latsOf, List.map_map]
      rfl
    rw [this, List.map_const', List.prod_replicate]
  rw [hw]
  rw [sumVars_mul_left _ _ (fun _ => (1 / 2) ^ P.es.length * (1 / 2) ^ (S.filter fun i => !decide (i ∈ P.T)).length)
    _ σ (fun _ _ _ _ => rfl)]
  congr 1
  exact peel _ P.L P.root P.es h.tree h.lnodup (fun _ _ => rfl) (P.gS S) (P.eS S) (eS_indep P h hSG) σ

end PSpec
end NonId
end Y0
