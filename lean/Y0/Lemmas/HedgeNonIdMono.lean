/-
  Y0.Lemmas.HedgeNonIdMono — identifiability is inherited by marginals: if `P_x(Y)` is identifiable so is `P_x(Y')` for
  `Y' ⊆ Y` (sum the other outcomes out).  Contrapositive: a non-identifiable effect stays non-identifiable when
  outcomes are added.
-/
import Y0.Lemmas.HedgeNonIdObs
import Mathlib.Data.List.Perm.Basic

namespace Y0
namespace NonId

theorem doProb_marginal (M : Scm) (G : MG Name) (X Y Y' : List Name) (hsub : ∀ y ∈ Y', y ∈ Y) :
    M.doProb G X Y' =
      sumVars M.card (G.nodes.filter fun v => decide (v ∉ X ∧ v ∉ Y') && decide (v ∈ Y)) (M.doProb G X Y) := by
  unfold Scm.doProb
  rw [← sumVars_append]
  apply sumVars_perm
  have hp := List.filter_append_perm (fun v => decide (v ∈ Y)) (G.nodes.filter fun v => decide (v ∉ X ∧ v ∉ Y'))
  refine hp.symm.trans ?_
  rw [List.filter_filter, List.filter_filter]
  apply List.Perm.append
  · apply List.Perm.of_eq
    apply List.filter_congr
    intro v _
    rw [Bool.and_comm]
  · apply List.Perm.of_eq
    apply List.filter_congr
    intro v _
    by_cases h1 : v ∈ X <;> by_cases h2 : v ∈ Y <;> by_cases h3 : v ∈ Y' <;> simp [h1, h2, h3]
    exact h2 (hsub v h3)

/-- marginals of identifiable effects are identifiable -/
theorem identifiable_mono {G : MG Name} {X Y Y' : List Name} (hsub : ∀ y ∈ Y', y ∈ Y) (h : Identifiable G X Y) :
    Identifiable G X Y' := by
  intro M₁ M₂ h₁ h₂ he σ hσ
  rw [doProb_marginal M₁ G X Y Y' hsub, doProb_marginal M₂ G X Y Y' hsub]
  rw [← sumVars_card_congr _ (fun x hx => he.card_eq x (List.mem_filter.mp hx).1)]
  exact sumVars_congr_inRange M₁.card G.nodes _ (h M₁ M₂ h₁ h₂ he) σ hσ

theorem not_identifiable_mono {G : MG Name} {X Y Y' : List Name} (hsub : ∀ y ∈ Y', y ∈ Y)
    (h : ¬ Identifiable G X Y') : ¬ Identifiable G X Y := fun h' => h (identifiable_mono hsub h')

end NonId
end Y0
