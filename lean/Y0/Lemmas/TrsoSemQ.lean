/-
  Y0.Lemmas.TrsoSemQ — the c-factor identities behind the lines of TRSO, stated on LISTS OF NAMES (no graphs of the
  query, no expressions): `Spec M V X Y = Σ_{V ∖ (X ∪ Y)} Q[V ∖ X]` is what a TRSO call with current regular nodes `V`
  has to return.

    spec_restrict   lines 2 and 3: restricting to a part `p` of `V ∖ X` that is closed under parents and contains `Y`
    spec_line2 / spec_line3
    spec_component  the sub-problem line 4 creates for a component `c` asks for `Q[c]`
    spec_nil        line 1
    Q_components    line 4: `Π Q[cᵢ] = Q[V ∖ X]` for a partition into parts that share no latent
  Built on Lemmas/QFactor (sink / split / ratio).
-/
import Y0.Lemmas.IdSoundA

namespace Y0
namespace Trso
open IdAux

/-- `Σ_{V ∖ (X ∪ Y)} Q[V ∖ X]`: the interventional distribution `P_X(Y)` of the sub-model on the nodes `V` -/
def Spec (M : Scm) (V X Y : List Name) : Val → Rat :=
  sumVars M.card (V.filter (fun v => v ∉ X ∧ v ∉ Y)) (M.Q (V.filter (· ∉ X)))

variable {M : Scm} {G0 : MG Name}

/-- summing `Q[T]` over the part of `T` outside a set `p` that is closed under the parents (in `G0`) within `T` -/
theorem Q_sum_closed (ctx : SCtx M G0) (T : List Name) (hT : T.Nodup) (hTV : ∀ v ∈ T, v ∈ G0.nodes) (p : Name → Bool)
    (hanc : ∀ a ∈ T, p a = true → ∀ r ∈ T, p r = false → r ∉ G0.parents a) :
    sumVars M.card (T.filter (fun v => !p v)) (M.Q T) = M.Q (T.filter p) := by
  rw [M.Q_perm (List.filter_append_perm p T).symm]
  apply Scm.Q_ancestral ctx.hM ctx.hrank
  · exact (List.filter_append_perm p T).nodup_iff.mpr hT
  · intro v hv
    rcases List.mem_append.mp hv with h | h <;> exact hTV v (List.mem_filter.mp h).1
  · intro a ha r hr
    obtain ⟨haT, hpa'⟩ := List.mem_filter.mp ha
    obtain ⟨hrT, hpr⟩ := List.mem_filter.mp hr
    exact hanc a haT hpa' r hrT (by simpa using hpr)

/-- **lines 2 and 3.**  `p` marks a part of `V ∖ X` that is closed under parents and contains the outcomes: the
interventional distribution is the one of the restricted problem. -/
theorem spec_restrict (ctx : SCtx M G0) (V X Y : List Name) (hV : V.Nodup) (hVG : ∀ v ∈ V, v ∈ G0.nodes)
    (p : Name → Bool)
    (hcl : ∀ a ∈ V, a ∉ X → p a = true → ∀ r ∈ V, r ∉ X → p r = false → r ∉ G0.parents a)
    (hY : ∀ y ∈ Y, p y = true) (σ : Val) :
    Spec M V X Y σ =
      sumVars M.card (((V.filter (· ∉ X)).filter p).filter (· ∉ Y)) (M.Q ((V.filter (· ∉ X)).filter p)) σ := by
  unfold Spec
  set T := V.filter (· ∉ X) with hTdef
  have hTnd : T.Nodup := hV.filter _
  have hTV : ∀ v ∈ T, v ∈ G0.nodes := fun v hv => hVG v (List.mem_filter.mp hv).1
  have hQT : sumVars M.card (T.filter (fun v => !p v)) (M.Q T) = M.Q (T.filter p) := by
    apply Q_sum_closed ctx T hTnd hTV p
    intro a ha hpa r hr hpr
    have ha' := List.mem_filter.mp ha
    have hr' := List.mem_filter.mp hr
    exact hcl a ha'.1 (by simpa using ha'.2) hpa r hr'.1 (by simpa using hr'.2) hpr
  rw [sumVars_filter_split M.card (V.filter (fun v => v ∉ X ∧ v ∉ Y)) p]
  have e1 : sumVars M.card ((V.filter (fun v => v ∉ X ∧ v ∉ Y)).filter (fun v => !p v)) (M.Q T) =
      sumVars M.card (T.filter (fun v => !p v)) (M.Q T) := by
    apply sumVars_congr_set M.card ((hV.filter _).filter _) (hTnd.filter _)
    intro v
    simp only [hTdef, List.mem_filter, decide_eq_true_eq, Bool.not_eq_true', Bool.and_eq_true, Bool.decide_and]
    constructor
    · rintro ⟨⟨h1, h2, _⟩, h4⟩; exact ⟨⟨h1, h2⟩, h4⟩
    · rintro ⟨⟨h1, h2⟩, h4⟩
      refine ⟨⟨h1, h2, fun hy => ?_⟩, h4⟩
      rw [hY v hy] at h4; cases h4
  show sumVars M.card _ (sumVars M.card _ (M.Q T)) σ = _
  rw [e1, hQT]
  refine congrFun (sumVars_congr_set M.card ((hV.filter _).filter _) ((hTnd.filter _).filter _) (fun v => ?_) _) σ
  simp only [hTdef, List.mem_filter, decide_eq_true_eq, Bool.and_eq_true, Bool.decide_and]
  constructor
  · rintro ⟨⟨h1, h2, h3⟩, h4⟩; exact ⟨⟨⟨h1, h2⟩, h4⟩, h3⟩
  · rintro ⟨⟨⟨h1, h2⟩, h4⟩, h3⟩; exact ⟨⟨h1, h2, h3⟩, h4⟩

/-- line 2: the problem on the nodes `V' = V ∩ p` with treatments `X' = X ∩ p` -/
theorem spec_line2 (ctx : SCtx M G0) (V X Y V' X' : List Name) (hV : V.Nodup) (hVG : ∀ v ∈ V, v ∈ G0.nodes)
    (hV' : V'.Nodup) (p : Name → Bool)
    (hcl : ∀ a ∈ V, p a = true → ∀ r ∈ V, p r = false → r ∉ G0.parents a)
    (hY : ∀ y ∈ Y, p y = true) (hmem : ∀ v, v ∈ V' ↔ v ∈ V ∧ p v = true)
    (hX' : ∀ v ∈ V', v ∈ X' ↔ v ∈ X) (σ : Val) :
    Spec M V' X' Y σ = Spec M V X Y σ := by
  rw [spec_restrict ctx V X Y hV hVG p (fun a ha _ hpa r hr _ hpr => hcl a ha hpa r hr hpr) hY σ]
  unfold Spec
  have hQ : M.Q (V'.filter (· ∉ X')) = M.Q ((V.filter (· ∉ X)).filter p) := by
    apply M.Q_congr_set (hV'.filter _) ((hV.filter _).filter _)
    intro v
    simp only [List.mem_filter, decide_eq_true_eq]
    constructor
    · rintro ⟨h1, h2⟩
      obtain ⟨h3, h4⟩ := (hmem v).1 h1
      exact ⟨⟨h3, fun hx => h2 ((hX' v h1).2 hx)⟩, h4⟩
    · rintro ⟨⟨h1, h2⟩, h3⟩
      have hv' := (hmem v).2 ⟨h1, h3⟩
      exact ⟨hv', fun hx => h2 ((hX' v hv').1 hx)⟩
  rw [hQ]
  refine congrFun (sumVars_congr_set M.card (hV'.filter _) (((hV.filter _).filter _).filter _) (fun v => ?_) _) σ
  simp only [List.mem_filter, decide_eq_true_eq, Bool.and_eq_true, Bool.decide_and]
  constructor
  · rintro ⟨h1, h2, h3⟩
    obtain ⟨h4, h5⟩ := (hmem v).1 h1
    exact ⟨⟨⟨h4, fun hx => h2 ((hX' v h1).2 hx)⟩, h5⟩, h3⟩
  · rintro ⟨⟨⟨h1, h2⟩, h3⟩, h4⟩
    have hv' := (hmem v).2 ⟨h1, h3⟩
    exact ⟨hv', fun hx => h2 ((hX' v hv').1 hx), h4⟩

/-- line 3: the nodes of `V ∖ X` outside `p` become treatments -/
theorem spec_line3 (ctx : SCtx M G0) (V X Y X' : List Name) (hV : V.Nodup) (hVG : ∀ v ∈ V, v ∈ G0.nodes)
    (p : Name → Bool)
    (hcl : ∀ a ∈ V, a ∉ X → p a = true → ∀ r ∈ V, r ∉ X → p r = false → r ∉ G0.parents a)
    (hY : ∀ y ∈ Y, p y = true) (hX' : ∀ v ∈ V, v ∈ X' ↔ v ∈ X ∨ p v = false) (σ : Val) :
    Spec M V X' Y σ = Spec M V X Y σ := by
  rw [spec_restrict ctx V X Y hV hVG p hcl hY σ]
  unfold Spec
  have hQ : M.Q (V.filter (· ∉ X')) = M.Q ((V.filter (· ∉ X)).filter p) := by
    apply M.Q_congr_set (hV.filter _) ((hV.filter _).filter _)
    intro v
    simp only [List.mem_filter, decide_eq_true_eq]
    constructor
    · rintro ⟨h1, h2⟩
      have := (hX' v h1).not.1 h2
      simp only [not_or, Bool.not_eq_false] at this
      exact ⟨⟨h1, this.1⟩, this.2⟩
    · rintro ⟨⟨h1, h2⟩, h3⟩
      refine ⟨h1, fun hx => ?_⟩
      rcases (hX' v h1).1 hx with h | h
      · exact h2 h
      · rw [h3] at h; cases h
  rw [hQ]
  refine congrFun (sumVars_congr_set M.card (hV.filter _) (((hV.filter _).filter _).filter _) (fun v => ?_) _) σ
  simp only [List.mem_filter, decide_eq_true_eq, Bool.and_eq_true, Bool.decide_and]
  constructor
  · rintro ⟨h1, h2, h3⟩
    have := (hX' v h1).not.1 h2
    simp only [not_or, Bool.not_eq_false] at this
    exact ⟨⟨⟨h1, this.1⟩, this.2⟩, h3⟩
  · rintro ⟨⟨⟨h1, h2⟩, h3⟩, h4⟩
    refine ⟨h1, fun hx => ?_, h4⟩
    rcases (hX' v h1).1 hx with h | h
    · exact h2 h
    · rw [h3] at h; cases h

/-- line 1: no treatment -/
theorem spec_nil (M : Scm) (V Y : List Name) (σ : Val) :
    Spec M V [] Y σ = sumVars M.card (V.filter (· ∉ Y)) (M.Q V) σ := by
  unfold Spec
  simp

/-- the sub-problem line 4 creates for a component `c ⊆ V` (outcomes `c`, treatments `V ∖ c`) asks for `Q[c]` -/
theorem spec_component (M : Scm) (V c Xc Yc : List Name) (hV : V.Nodup) (hc : c.Nodup) (hcV : ∀ v ∈ c, v ∈ V)
    (hXc : ∀ v ∈ V, v ∈ Xc ↔ v ∉ c) (hYc : ∀ v, v ∈ Yc ↔ v ∈ c) (σ : Val) :
    Spec M V Xc Yc σ = M.Q c σ := by
  unfold Spec
  have h1 : V.filter (fun v => v ∉ Xc ∧ v ∉ Yc) = [] := by
    apply List.filter_eq_nil_iff.mpr
    intro v hv
    simp only [decide_eq_true_eq, not_and, not_not]
    intro h
    have : v ∈ c := by
      by_contra hc'
      exact h ((hXc v hv).2 hc')
    exact (hYc v).2 this
  rw [h1]
  simp only [sumVars]
  apply congrFun
  apply M.Q_congr_set (hV.filter _) hc
  intro v
  simp only [List.mem_filter, decide_eq_true_eq]
  constructor
  · rintro ⟨h1, h2⟩
    by_contra hc'
    exact h2 ((hXc v h1).2 hc')
  · intro h
    exact ⟨hcV v h, fun hx => (hXc v (hcV v h)).1 hx h⟩

/-- line 4: the c-factors of a partition of `T` into parts that pairwise share no latent multiply to `Q[T]` -/
theorem Q_components (ctx : SCtx M G0) (T : List Name) (hT : T.Nodup) (ds : List (List Name))
    (hnd : ∀ d ∈ ds, d.Nodup) (hdisj : ds.Pairwise (fun d1 d2 => ∀ v ∈ d1, v ∉ d2))
    (hcover : ∀ v, v ∈ T ↔ ∃ d ∈ ds, v ∈ d) (hTG : ∀ v ∈ T, v ∈ G0.nodes)
    (hsep : ds.Pairwise (fun d1 d2 => ∀ v ∈ d1, ∀ w ∈ d2, ∀ u, u ∈ M.latOf v → u ∉ M.latOf w)) (σ : Val) :
    (ds.map fun d => M.Q d σ).prod = M.Q T σ := by
  rw [Q_flatten ctx ds (fun d hd v hv => hTG v ((hcover v).2 ⟨d, hd, hv⟩)) hsep σ]
  apply congrFun
  apply M.Q_congr_set _ hT
  · intro v
    rw [hcover v]
    simp only [List.mem_flatten]
  · exact List.nodup_flatten.mpr ⟨hnd, hdisj.imp (fun h x hx1 hx2 => h x hx1 hx2)⟩

end Trso
end Y0
