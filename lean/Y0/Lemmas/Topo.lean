/-
  Y0.Lemmas.Topo — correctness of the model of networkx's generation-wise Kahn algorithm
  (`MG.topoStep`, `MG.topoGen`, `MG.topoLoop`, `MG.topologicalSort`).

  Part 1: the in-degree table as an association list with distinct keys; what one decrement does
          and what a whole generation of decrements does (`topoStep_foldl`).
  Part 2: the loop invariant `TopoInv` (remaining in-degree table, current generation, emitted prefix),
          established by the initial state and preserved by one generation.
  Part 3: what the loop returns (`topoLoop_ok`), that it returns when the graph is acyclic
          (`topoLoop_total`, with the fuel bound), and that a topological order forces acyclicity.
-/
import Y0.Lemmas.Closure
import Mathlib.Data.Finset.Max
import Mathlib.Data.List.Count

namespace Y0.MG
variable {α : Type} [DecidableEq α]
open Relation

/-! ### Part 1: the in-degree table -/

omit [DecidableEq α] in
theorem assoc_unique {l : List (α × Nat)} (h : (l.map Prod.fst).Nodup) {v : α} {a b : Nat}
    (ha : (v, a) ∈ l) (hb : (v, b) ∈ l) : a = b := by
  induction l with
  | nil => cases ha
  | cons p l ih =>
    simp only [List.map_cons, List.nodup_cons, List.mem_map, not_exists, not_and] at h
    rcases List.mem_cons.1 ha with ha | ha <;> rcases List.mem_cons.1 hb with hb | hb
    · have := ha.trans hb.symm; simpa using this
    · exact absurd (by rw [← ha]) (h.1 _ hb)
    · exact absurd (by rw [← hb]) (h.1 _ ha)
    · exact ih h.2 ha hb

/-- the decrement applied to every entry (only the entry of `c` changes) -/
def decr (c : α) (p : α × Nat) : α × Nat := if p.1 = c then (p.1, p.2 - 1) else p

theorem decr_fst (c : α) (p : α × Nat) : (decr c p).1 = p.1 := by
  unfold decr; split <;> rfl

theorem map_fst_decr (c : α) (l : List (α × Nat)) : (l.map (decr c)).map Prod.fst = l.map Prod.fst := by
  rw [List.map_map]; apply List.map_congr_left; intro p _; exact decr_fst c p

theorem mem_map_decr (c : α) (l : List (α × Nat)) (v : α) (j : Nat) :
    (v, j) ∈ l.map (decr c) ↔ (v ≠ c ∧ (v, j) ∈ l) ∨ (v = c ∧ ∃ k, (c, k) ∈ l ∧ j = k - 1) := by
  simp only [List.mem_map]
  constructor
  · rintro ⟨⟨a, k⟩, hp, h⟩
    unfold decr at h
    split at h
    · rename_i hac
      simp only [Prod.mk.injEq] at h hac
      obtain ⟨rfl, rfl⟩ := h
      exact Or.inr ⟨hac, k, hac ▸ hp, rfl⟩
    · rename_i hac
      simp only [Prod.mk.injEq] at h hac
      obtain ⟨rfl, rfl⟩ := h
      exact Or.inl ⟨hac, hp⟩
  · rintro (⟨hne, h⟩ | ⟨rfl, k, h, rfl⟩)
    · exact ⟨(v, j), h, by simp [decr, hne]⟩
    · exact ⟨(v, k), h, by simp [decr]⟩

theorem find_decr (c : α) (k : Nat) : ∀ (l : List (α × Nat)), (l.map Prod.fst).Nodup → (c, k) ∈ l →
    (l.map (decr c)).find? (fun p => decide (p.1 = c)) = some (c, k - 1) := by
  intro l
  induction l with
  | nil => intro _ h; cases h
  | cons p l ih =>
    intro hnd hmem
    simp only [List.map_cons, List.nodup_cons, List.mem_map, not_exists, not_and] at hnd
    by_cases hpc : p.1 = c
    · have hp : p = (c, k) := by
        rcases List.mem_cons.1 hmem with h | h
        · exact h.symm
        · exact absurd (by simp [hpc]) (hnd.1 _ h)
      subst hp
      simp [decr]
    · have hmem' : (c, k) ∈ l := by
        rcases List.mem_cons.1 hmem with h | h
        · exact absurd (by rw [← h]) hpc
        · exact h
      simp only [List.map_cons, List.find?_cons]
      have : decide ((decr c p).1 = c) = false := by simp [decr_fst, hpc]
      rw [this]
      exact ih hnd.2 hmem'

/-- one decrement of the entry `(c, k)`, `k > 0` -/
theorem topoStep_spec (deg : List (α × Nat)) (nx : List α) (c : α) (k : Nat)
    (hnd : (deg.map Prod.fst).Nodup) (hc : (c, k) ∈ deg) (hpos : 0 < k) :
    ((topoStep (deg, nx) c).1.map Prod.fst).Nodup ∧
    (topoStep (deg, nx) c).2 = (if k = 1 then nx ++ [c] else nx) ∧
    ∀ v j, (v, j) ∈ (topoStep (deg, nx) c).1 ↔ (v ≠ c ∧ (v, j) ∈ deg) ∨ (v = c ∧ k ≠ 1 ∧ j = k - 1) := by
  have hfind := find_decr c k deg hnd hc
  have hmap : ∀ v j, (v, j) ∈ deg.map (decr c) ↔ (v ≠ c ∧ (v, j) ∈ deg) ∨ (v = c ∧ j = k - 1) := by
    intro v j
    rw [mem_map_decr]
    constructor
    · rintro (h | ⟨rfl, k', hk', rfl⟩)
      · exact Or.inl h
      · exact Or.inr ⟨rfl, by rw [assoc_unique hnd hk' hc]⟩
    · rintro (h | ⟨rfl, rfl⟩)
      · exact Or.inl h
      · exact Or.inr ⟨rfl, k, hc, rfl⟩
  obtain ⟨k, rfl⟩ : ∃ k', k = k' + 1 := ⟨k - 1, by omega⟩
  simp only [Nat.add_sub_cancel] at hfind hmap
  have hstep : ∀ r, (match (some (c, k) : Option (α × Nat)) with
      | some (_, 0) => ((deg.map (decr c)).filter (fun p : α × Nat => decide (p.1 ≠ c)), nx ++ [c])
      | _ => (deg.map (decr c), nx)) = r → topoStep (deg, nx) c = r := by
    intro r hr
    unfold topoStep
    show (match (deg.map (decr c)).find? (fun p : α × Nat => decide (p.1 = c)) with
      | some (_, 0) => ((deg.map (decr c)).filter (fun p : α × Nat => decide (p.1 ≠ c)), nx ++ [c])
      | _ => (deg.map (decr c), nx)) = _
    rw [hfind]; exact hr
  cases k with
  | zero =>
    rw [hstep ((deg.map (decr c)).filter (fun p : α × Nat => decide (p.1 ≠ c)), nx ++ [c]) rfl]
    refine ⟨?_, by simp, ?_⟩
    · have := (map_fst_decr c deg ▸ hnd : ((deg.map (decr c)).map Prod.fst).Nodup)
      exact (List.Nodup.sublist (List.Sublist.map _ List.filter_sublist) this)
    · intro v j
      simp only [List.mem_filter, hmap, decide_eq_true_eq]
      constructor
      · rintro ⟨h | ⟨rfl, _⟩, hne⟩
        · exact Or.inl h
        · exact absurd rfl hne
      · rintro (h | ⟨_, h, _⟩)
        · exact ⟨Or.inl h, h.1⟩
        · exact absurd rfl h
  | succ k =>
    rw [hstep (deg.map (decr c), nx) rfl]
    refine ⟨by rw [map_fst_decr]; exact hnd, by simp, ?_⟩
    intro v j
    rw [hmap]
    constructor
    · rintro (h | ⟨rfl, rfl⟩)
      · exact Or.inl h
      · exact Or.inr ⟨rfl, by omega, by omega⟩
    · rintro (h | ⟨rfl, _, rfl⟩)
      · exact Or.inl h
      · exact Or.inr ⟨rfl, by omega⟩

/-- a whole generation of decrements: `cs` lists the children visited (with multiplicity).  Provided every
visited child has an entry and no entry is decremented below zero, the entries end at `k - count`, those that
reach zero are deleted and emitted exactly once. -/
theorem topoStep_foldl (cs : List α) : ∀ (deg : List (α × Nat)) (nx : List α),
    (deg.map Prod.fst).Nodup →
    (∀ c ∈ cs, ∃ k, (c, k) ∈ deg) →
    (∀ v k, (v, k) ∈ deg → cs.count v ≤ k ∧ 0 < k) →
    ∃ zs, (cs.foldl topoStep (deg, nx)).2 = nx ++ zs ∧ zs.Nodup ∧
      (∀ v, v ∈ zs ↔ ∃ k, (v, k) ∈ deg ∧ k = cs.count v) ∧
      (((cs.foldl topoStep (deg, nx)).1).map Prod.fst).Nodup ∧
      (∀ v k', (v, k') ∈ (cs.foldl topoStep (deg, nx)).1 ↔
        ∃ k, (v, k) ∈ deg ∧ k' = k - cs.count v ∧ 0 < k') := by
  induction cs with
  | nil =>
    intro deg nx hnd _ hpos
    refine ⟨[], by simp, by simp, ?_, hnd, ?_⟩
    · intro v
      simp only [List.not_mem_nil, List.count_nil, false_iff, not_exists, not_and]
      intro k hk h0
      have := (hpos v k hk).2
      omega
    · intro v k'
      simp only [List.foldl_nil, List.count_nil, Nat.sub_zero]
      constructor
      · intro h; exact ⟨k', h, rfl, (hpos v k' h).2⟩
      · rintro ⟨k, h, rfl, _⟩; exact h
  | cons c cs ih =>
    intro deg nx hnd hkeys hpos
    obtain ⟨k, hck⟩ := hkeys c (by simp)
    have hk := hpos c k hck
    rw [List.count_cons_self] at hk
    obtain ⟨h1, h2, h3⟩ := topoStep_spec deg nx c k hnd hck hk.2
    simp only [List.foldl_cons]
    generalize topoStep (deg, nx) c = st at h1 h2 h3 ⊢
    rcases st with ⟨deg1, nx1⟩
    simp only at h1 h2 h3
    have hcnt : ∀ v, v ≠ c → (c :: cs).count v = cs.count v := by
      intro v hv; rw [List.count_cons_of_ne (Ne.symm hv)]
    have hkeys1 : ∀ c' ∈ cs, ∃ k', (c', k') ∈ deg1 := by
      intro c' hc'
      obtain ⟨k0, hk0⟩ := hkeys c' (List.mem_cons_of_mem _ hc')
      by_cases hcc : c' = c
      · subst hcc
        have : 0 < cs.count c' := List.count_pos_iff.2 hc'
        exact ⟨k - 1, (h3 _ _).2 (Or.inr ⟨rfl, by omega, rfl⟩)⟩
      · exact ⟨k0, (h3 _ _).2 (Or.inl ⟨hcc, hk0⟩)⟩
    have hpos1 : ∀ v j, (v, j) ∈ deg1 → cs.count v ≤ j ∧ 0 < j := by
      intro v j hvj
      rcases (h3 v j).1 hvj with ⟨hne, h⟩ | ⟨rfl, hk1, rfl⟩
      · have := hpos v j h
        rwa [hcnt v hne] at this
      · omega
    obtain ⟨zs, e1, e2, e3, e4, e5⟩ := ih deg1 nx1 h1 hkeys1 hpos1
    by_cases hk1 : k = 1
    · subst hk1
      have hcs : cs.count c = 0 := by omega
      have hd1 : ∀ v j, (v, j) ∈ deg1 ↔ v ≠ c ∧ (v, j) ∈ deg := by
        intro v j; rw [h3]; simp
      refine ⟨c :: zs, by rw [e1, h2]; simp, ?_, ?_, e4, ?_⟩
      · refine List.nodup_cons.2 ⟨?_, e2⟩
        intro hc
        obtain ⟨k', hk', _⟩ := (e3 c).1 hc
        exact ((hd1 _ _).1 hk').1 rfl
      · intro v
        rw [List.mem_cons, e3]
        constructor
        · rintro (rfl | ⟨k', hk', rfl⟩)
          · exact ⟨1, hck, by rw [List.count_cons_self, hcs]⟩
          · obtain ⟨hne, h⟩ := (hd1 _ _).1 hk'
            exact ⟨_, h, (hcnt v hne).symm⟩
        · rintro ⟨k', hk', rfl⟩
          by_cases hvc : v = c
          · exact Or.inl hvc
          · exact Or.inr ⟨_, (hd1 _ _).2 ⟨hvc, hk'⟩, hcnt v hvc⟩
      · intro v k'
        rw [e5]
        constructor
        · rintro ⟨k0, hk0, rfl, hp⟩
          obtain ⟨hne, h⟩ := (hd1 _ _).1 hk0
          exact ⟨k0, h, by rw [hcnt v hne], hp⟩
        · rintro ⟨k0, hk0, rfl, hp⟩
          by_cases hvc : v = c
          · subst hvc
            have := assoc_unique hnd hk0 hck
            rw [List.count_cons_self] at hp
            omega
          · exact ⟨k0, (hd1 _ _).2 ⟨hvc, hk0⟩, by rw [hcnt v hvc], hp⟩
    · have hd1 : ∀ v j, (v, j) ∈ deg1 ↔ (v ≠ c ∧ (v, j) ∈ deg) ∨ (v = c ∧ j = k - 1) := by
        intro v j; rw [h3]; simp [hk1]
      refine ⟨zs, by rw [e1, h2]; simp [hk1], e2, ?_, e4, ?_⟩
      · intro v
        rw [e3]
        constructor
        · rintro ⟨k', hk', rfl⟩
          rcases (hd1 _ _).1 hk' with ⟨hne, h⟩ | ⟨rfl, h⟩
          · exact ⟨_, h, (hcnt v hne).symm⟩
          · exact ⟨k, hck, by rw [List.count_cons_self]; omega⟩
        · rintro ⟨k', hk', rfl⟩
          by_cases hvc : v = c
          · subst hvc
            have := assoc_unique hnd hk' hck
            rw [List.count_cons_self] at this
            exact ⟨k - 1, (hd1 _ _).2 (Or.inr ⟨rfl, rfl⟩), by omega⟩
          · exact ⟨_, (hd1 _ _).2 (Or.inl ⟨hvc, hk'⟩), hcnt v hvc⟩
      · intro v k'
        rw [e5]
        constructor
        · rintro ⟨k0, hk0, rfl, hp⟩
          rcases (hd1 _ _).1 hk0 with ⟨hne, h⟩ | ⟨rfl, rfl⟩
          · exact ⟨k0, h, by rw [hcnt v hne], hp⟩
          · exact ⟨k, hck, by rw [List.count_cons_self]; omega, hp⟩
        · rintro ⟨k0, hk0, rfl, hp⟩
          by_cases hvc : v = c
          · subst hvc
            have := assoc_unique hnd hk0 hck
            subst this
            rw [List.count_cons_self] at hp ⊢
            exact ⟨k0 - 1, (hd1 _ _).2 (Or.inr ⟨rfl, rfl⟩), by omega, by omega⟩
          · exact ⟨k0, (hd1 _ _).2 (Or.inl ⟨hvc, hk0⟩), by rw [hcnt v hvc], hp⟩

/-! ### Part 2: counting edges; the loop invariant -/

theorem mem_children_iff (G : MG α) (a b : α) : b ∈ G.children a ↔ G.DiEdge a b := by
  simp only [children, DiEdge, List.mem_map, List.mem_filter, decide_eq_true_eq]
  constructor
  · rintro ⟨⟨x, y⟩, ⟨h, rfl⟩, rfl⟩; exact h
  · intro h; exact ⟨(a, b), ⟨h, rfl⟩, rfl⟩

/-- number of directed edges into `v` whose source is outside `A` (the remaining in-degree once the nodes
of `A` have been emitted) -/
def remDeg (G : MG α) (A : List α) (v : α) : Nat :=
  (G.di.filter (fun e => decide (e.2 = v ∧ e.1 ∉ A))).length

theorem remDeg_nil (G : MG α) (v : α) : G.remDeg [] v = G.indegree v := by
  simp [remDeg, indegree]

theorem remDeg_eq_zero (G : MG α) (A : List α) (v : α) :
    G.remDeg A v = 0 ↔ ∀ u, G.DiEdge u v → u ∈ A := by
  simp only [remDeg, List.length_eq_zero_iff, List.filter_eq_nil_iff, decide_eq_true_eq, DiEdge, not_and,
    not_not]
  constructor
  · intro h u hu; exact h (u, v) hu rfl
  · rintro h ⟨a, b⟩ he rfl; exact h a he

omit [DecidableEq α] in
theorem filter_length_add {β : Type} (l : List β) (p q r : β → Bool)
    (h : ∀ x ∈ l, r x = (p x || q x)) (hd : ∀ x ∈ l, ¬ (p x = true ∧ q x = true)) :
    (l.filter p).length + (l.filter q).length = (l.filter r).length := by
  induction l with
  | nil => rfl
  | cons x l ih =>
    have ih := ih (fun y hy => h y (List.mem_cons_of_mem _ hy)) (fun y hy => hd y (List.mem_cons_of_mem _ hy))
    have hx := h x (by simp)
    have hdx := hd x (by simp)
    simp only [List.filter_cons, hx]
    cases hp : p x <;> cases hq : q x <;> simp_all <;> omega

theorem count_children (G : MG α) (g v : α) :
    (G.children g).count v = (G.di.filter (fun e => decide (e.1 = g ∧ e.2 = v))).length := by
  unfold children
  induction G.di with
  | nil => rfl
  | cons e l ih =>
    by_cases h1 : e.1 = g <;> by_cases h2 : e.2 = v <;>
      simp_all

theorem count_flatMap_children (G : MG α) (gen : List α) (hnd : gen.Nodup) (v : α) :
    (gen.flatMap G.children).count v = (G.di.filter (fun e => decide (e.2 = v ∧ e.1 ∈ gen))).length := by
  induction gen with
  | nil => simp
  | cons g gen ih =>
    rw [List.nodup_cons] at hnd
    rw [List.flatMap_cons, List.count_append, count_children, ih hnd.2]
    apply filter_length_add
    · intro e _
      simp only [List.mem_cons, Bool.decide_and, Bool.decide_or]
      by_cases h1 : e.1 = g <;> by_cases h2 : e.2 = v <;> simp [h1, h2]
    · intro e _
      simp only [decide_eq_true_eq]
      rintro ⟨⟨h1, _⟩, _, h2⟩
      exact hnd.1 (h1 ▸ h2)

/-- emitting the generation `gen` lowers the remaining in-degree of `v` by the number of times `v` is visited
as a child -/
theorem remDeg_split (G : MG α) (acc gen : List α) (hnd : (acc ++ gen).Nodup) (v : α) :
    G.remDeg acc v = G.remDeg (acc ++ gen) v + (gen.flatMap G.children).count v := by
  rw [count_flatMap_children G gen (List.Nodup.of_append_right hnd)]
  unfold remDeg
  symm
  apply filter_length_add
  · intro e _
    have hdisj : e.1 ∈ gen → e.1 ∉ acc := fun h1 h2 => (List.nodup_append.1 hnd).2.2 _ h2 _ h1 rfl
    simp only [List.mem_append, not_or, Bool.decide_and]
    by_cases h1 : e.1 ∈ gen <;> by_cases h2 : e.2 = v <;> by_cases h3 : e.1 ∈ acc <;> simp_all
  · intro e _
    simp only [decide_eq_true_eq, List.mem_append, not_or]
    rintro ⟨⟨_, _, h1⟩, _, h2⟩
    exact h1 h2

/-- the loop invariant of `topoLoop`: `acc` has been emitted, `gen` is the current generation,
`deg` maps every other node to its remaining in-degree -/
structure TopoInv (G : MG α) (deg : List (α × Nat)) (gen acc : List α) : Prop where
  nodup : (acc ++ gen).Nodup
  sub : ∀ v ∈ acc ++ gen, v ∈ G.nodes
  keys : (deg.map Prod.fst).Nodup
  deg_iff : ∀ v k, (v, k) ∈ deg ↔ v ∈ G.nodes ∧ v ∉ acc ∧ v ∉ gen ∧ k = G.remDeg acc v
  gen_iff : ∀ v ∈ G.nodes, v ∉ acc → (v ∈ gen ↔ G.remDeg acc v = 0)
  before : ∀ u v, G.DiEdge u v → v ∈ acc → ∃ l₁ l₂ l₃, acc = l₁ ++ u :: l₂ ++ v :: l₃

theorem topoInv_init (G : MG α) (hG : G.WF) :
    TopoInv G ((G.nodes.map (fun v => (v, G.indegree v))).filter (fun p => decide (p.2 > 0)))
      (G.nodes.filter (fun v => decide (G.indegree v = 0))) [] := by
  refine ⟨?_, ?_, ?_, ?_, ?_, ?_⟩
  · simpa using hG.nodup.filter _
  · intro v hv; simp at hv; exact hv.1
  · have : ((G.nodes.map (fun v => (v, G.indegree v))).map Prod.fst) = G.nodes := by
      rw [List.map_map]; simp [Function.comp_def]
    exact List.Nodup.sublist (List.Sublist.map _ List.filter_sublist) (by rw [this]; exact hG.nodup)
  · intro v k
    simp only [List.mem_filter, List.mem_map, Prod.mk.injEq, decide_eq_true_eq, remDeg_nil,
      List.not_mem_nil, not_false_eq_true, true_and, not_and]
    constructor
    · rintro ⟨⟨w, hw, rfl, rfl⟩, hk⟩
      exact ⟨hw, fun _ => by omega, rfl⟩
    · rintro ⟨hv, h0, rfl⟩
      exact ⟨⟨v, hv, rfl, rfl⟩, Nat.pos_of_ne_zero (h0 hv)⟩
  · intro v hv _
    simp [remDeg_nil, hv]
  · intro u v _ h; cases h

theorem topoGen_eq (G : MG α) (deg : List (α × Nat)) (gen : List α) :
    G.topoGen deg gen = (gen.flatMap G.children).foldl topoStep (deg, []) := by
  unfold topoGen; rw [List.foldl_flatMap]

theorem topoInv_step (G : MG α) (hG : G.WF) (deg : List (α × Nat)) (gen acc : List α)
    (h : TopoInv G deg gen acc) :
    TopoInv G (G.topoGen deg gen).1 (G.topoGen deg gen).2 (acc ++ gen) := by
  have hsplit := remDeg_split G acc gen h.nodup
  have hgen_par : ∀ u v, G.DiEdge u v → v ∈ gen → u ∈ acc := by
    intro u v huv hv
    have hvacc : v ∉ acc := fun hv' => (List.nodup_append.1 h.nodup).2.2 _ hv' _ hv rfl
    exact (remDeg_eq_zero G acc v).1 ((h.gen_iff v (h.sub v (by simp [hv])) hvacc).1 hv) u huv
  have hacc_par : ∀ u v, G.DiEdge u v → v ∈ acc → u ∈ acc := by
    intro u v huv hv
    obtain ⟨l₁, l₂, l₃, e⟩ := h.before u v huv hv
    rw [e]; simp
  -- the children visited have an entry
  have hkeys : ∀ c ∈ gen.flatMap G.children, ∃ k, (c, k) ∈ deg := by
    intro c hc
    obtain ⟨g, hg, hgc⟩ := List.mem_flatMap.1 hc
    rw [mem_children_iff] at hgc
    have hgacc : g ∉ acc := fun hg' => (List.nodup_append.1 h.nodup).2.2 _ hg' _ hg rfl
    refine ⟨_, (h.deg_iff c _).2 ⟨(hG.di_mem _ hgc).2, ?_, ?_, rfl⟩⟩
    · exact fun hc' => hgacc (hacc_par g c hgc hc')
    · exact fun hc' => hgacc (hgen_par g c hgc hc')
  have hpos : ∀ v k, (v, k) ∈ deg → (gen.flatMap G.children).count v ≤ k ∧ 0 < k := by
    intro v k hvk
    obtain ⟨hv, hva, hvg, rfl⟩ := (h.deg_iff v k).1 hvk
    refine ⟨by rw [hsplit v]; omega, Nat.pos_of_ne_zero ?_⟩
    exact fun h0 => hvg ((h.gen_iff v hv hva).2 h0)
  obtain ⟨zs, e1, e2, e3, e4, e5⟩ := topoStep_foldl (gen.flatMap G.children) deg [] h.keys hkeys hpos
  rw [topoGen_eq]
  simp only [List.nil_append] at e1
  rw [e1]
  have hzs : ∀ v, v ∈ zs ↔ v ∈ G.nodes ∧ v ∉ acc ∧ v ∉ gen ∧ G.remDeg (acc ++ gen) v = 0 := by
    intro v
    rw [e3]
    constructor
    · rintro ⟨k, hk, rfl⟩
      obtain ⟨hv, hva, hvg, hk⟩ := (h.deg_iff v _).1 hk
      exact ⟨hv, hva, hvg, by have := hsplit v; omega⟩
    · rintro ⟨hv, hva, hvg, h0⟩
      exact ⟨_, (h.deg_iff v _).2 ⟨hv, hva, hvg, rfl⟩, by have := hsplit v; omega⟩
  refine ⟨?_, ?_, e4, ?_, ?_, ?_⟩
  · refine List.Nodup.append h.nodup e2 ?_
    intro v hv hz
    obtain ⟨_, hva, hvg, _⟩ := (hzs v).1 hz
    rcases List.mem_append.1 hv with hv | hv
    · exact hva hv
    · exact hvg hv
  · intro v hv
    rcases List.mem_append.1 hv with hv | hv
    · exact h.sub v hv
    · exact ((hzs v).1 hv).1
  · intro v k'
    rw [e5]
    constructor
    · rintro ⟨k, hk, rfl, hp⟩
      obtain ⟨hv, hva, hvg, rfl⟩ := (h.deg_iff v _).1 hk
      refine ⟨hv, by simp [hva, hvg], ?_, by have := hsplit v; omega⟩
      intro hz
      have := ((hzs v).1 hz).2.2.2
      have := hsplit v
      omega
    · rintro ⟨hv, hvag, hvz, rfl⟩
      have hva : v ∉ acc := fun hh => hvag (by simp [hh])
      have hvg : v ∉ gen := fun hh => hvag (by simp [hh])
      refine ⟨_, (h.deg_iff v _).2 ⟨hv, hva, hvg, rfl⟩, by have := hsplit v; omega, Nat.pos_of_ne_zero ?_⟩
      exact fun h0 => hvz ((hzs v).2 ⟨hv, hva, hvg, h0⟩)
  · intro v hv hvag
    have hva : v ∉ acc := fun hh => hvag (by simp [hh])
    have hvg : v ∉ gen := fun hh => hvag (by simp [hh])
    rw [hzs]
    exact ⟨fun hh => hh.2.2.2, fun hh => ⟨hv, hva, hvg, hh⟩⟩
  · intro u v huv hv
    rcases List.mem_append.1 hv with hv | hv
    · obtain ⟨l₁, l₂, l₃, e⟩ := h.before u v huv hv
      exact ⟨l₁, l₂, l₃ ++ gen, by rw [e]; simp⟩
    · obtain ⟨a, b, ea⟩ := List.append_of_mem (hgen_par u v huv hv)
      obtain ⟨c, d, eg⟩ := List.append_of_mem hv
      exact ⟨a, b ++ c, d, by rw [ea, eg]; simp⟩

/-! ### Part 3: what the loop returns -/

theorem topoInv_done (G : MG α) (hG : G.WF) (acc : List α) (h : TopoInv G [] [] acc) :
    G.IsTopoOrder acc := by
  have hall : ∀ v ∈ G.nodes, v ∈ acc := by
    intro v hv
    by_contra hva
    have := (h.deg_iff v _).2 ⟨hv, hva, by simp, rfl⟩
    simp at this
  refine ⟨?_, ?_⟩
  · rw [List.perm_ext_iff_of_nodup (by simpa using h.nodup) hG.nodup]
    intro v
    exact ⟨fun hv => h.sub v (by simp [hv]), hall v⟩
  · intro u v huv
    exact h.before u v huv (hall v (hG.di_mem _ huv).2)

theorem topoLoop_ok (G : MG α) (hG : G.WF) : ∀ (fuel : Nat) (deg : List (α × Nat)) (gen acc l : List α),
    TopoInv G deg gen acc → G.topoLoop fuel deg gen acc = .ok l → G.IsTopoOrder l := by
  intro fuel
  induction fuel with
  | zero =>
    intro deg gen acc l hinv h
    simp only [topoLoop] at h
    split at h
    · rename_i hc
      simp only [Bool.and_eq_true, List.isEmpty_iff] at hc
      obtain ⟨rfl, rfl⟩ := hc
      simp only [Except.ok.injEq] at h
      subst h
      exact topoInv_done G hG _ hinv
    · cases h
  | succ n ih =>
    intro deg gen acc l hinv h
    simp only [topoLoop] at h
    split at h
    · rename_i hgen
      rw [List.isEmpty_iff] at hgen
      subst hgen
      split at h
      · rename_i hdeg
        rw [List.isEmpty_iff] at hdeg
        subst hdeg
        simp only [Except.ok.injEq] at h
        subst h
        exact topoInv_done G hG _ hinv
      · cases h
    · have hstep := topoInv_step G hG deg gen acc hinv
      rcases hg : G.topoGen deg gen with ⟨deg', next⟩
      rw [hg] at h hstep
      exact ih _ _ _ _ hstep h

theorem topoLoop_error (G : MG α) : ∀ (fuel : Nat) (deg : List (α × Nat)) (gen acc : List α) (e : Err),
    G.topoLoop fuel deg gen acc = .error e → e = .internal "NetworkXUnfeasible" := by
  intro fuel
  induction fuel with
  | zero =>
    intro deg gen acc e h
    simp only [topoLoop] at h
    split at h
    · cases h
    · simp only [Except.error.injEq] at h; exact h.symm
  | succ n ih =>
    intro deg gen acc e h
    simp only [topoLoop] at h
    split at h
    · split at h
      · cases h
      · simp only [Except.error.injEq] at h; exact h.symm
    · rcases hg : G.topoGen deg gen with ⟨deg', next⟩
      rw [hg] at h
      exact ih _ _ _ _ h

omit [DecidableEq α] in
/-- a finite non-empty set carries a source of any relation without cycles -/
theorem exists_source (r : α → α → Prop) (hacyc : ∀ v, ¬ TransGen r v v) (R : Finset α)
    (hne : R.Nonempty) : ∃ v ∈ R, ∀ u ∈ R, ¬ r u v := by
  classical
  obtain ⟨v, hv, hmin⟩ :=
    Finset.exists_min_image R (fun v => (R.filter (fun z => TransGen r z v)).card) hne
  refine ⟨v, hv, fun u hu huv => ?_⟩
  have hlt : (R.filter (fun z => TransGen r z u)).card < (R.filter (fun z => TransGen r z v)).card := by
    apply Finset.card_lt_card
    constructor
    · intro z hz
      simp only [Finset.mem_filter] at hz ⊢
      exact ⟨hz.1, hz.2.tail huv⟩
    · intro hsub
      have : u ∈ R.filter (fun z => TransGen r z u) :=
        hsub (by simp only [Finset.mem_filter]; exact ⟨hu, TransGen.single huv⟩)
      simp only [Finset.mem_filter] at this
      exact hacyc u this.2
  exact absurd (hmin u hu) (not_le.2 hlt)

/-- when the current generation is empty and the graph is acyclic, nothing is left -/
theorem topoInv_stuck (G : MG α) (hG : G.WF) (hA : G.Acyclic) (deg : List (α × Nat)) (acc : List α)
    (h : TopoInv G deg [] acc) : deg = [] := by
  cases hd : deg with
  | nil => rfl
  | cons p ps =>
    exfalso
    obtain ⟨hv, hva, _, _⟩ := (h.deg_iff p.1 p.2).1 (by rw [hd]; simp)
    obtain ⟨s, hs, hmin⟩ := exists_source G.DiEdge hA (G.nodes.toFinset.filter (· ∉ acc))
      ⟨p.1, by simp [hv, hva]⟩
    simp only [Finset.mem_filter, List.mem_toFinset] at hs hmin
    have h0 : G.remDeg acc s = 0 := by
      rw [remDeg_eq_zero]
      intro u hu
      by_contra hua
      exact hmin u ⟨(hG.di_mem _ hu).1, hua⟩ hu
    have := (h.gen_iff s hs.1 hs.2).2 h0
    simp at this

theorem topoLoop_total (G : MG α) (hG : G.WF) (hA : G.Acyclic) :
    ∀ (fuel : Nat) (deg : List (α × Nat)) (gen acc : List α), TopoInv G deg gen acc →
      G.nodes.length + 1 ≤ fuel + acc.length → ∃ l, G.topoLoop fuel deg gen acc = .ok l := by
  intro fuel
  induction fuel with
  | zero =>
    intro deg gen acc hinv hf
    exfalso
    have : acc.length ≤ G.nodes.length :=
      List.Nodup.length_le_of_subset (List.Nodup.of_append_left hinv.nodup)
        (fun v hv => hinv.sub v (by simp [hv]))
    omega
  | succ n ih =>
    intro deg gen acc hinv hf
    simp only [topoLoop]
    split
    · rename_i hgen
      rw [List.isEmpty_iff] at hgen
      subst hgen
      rw [topoInv_stuck G hG hA deg acc hinv]
      exact ⟨acc, by simp⟩
    · rename_i hgen
      have hstep := topoInv_step G hG deg gen acc hinv
      rcases hg : G.topoGen deg gen with ⟨deg', next⟩
      rw [hg] at hstep
      have hlen : 0 < gen.length := by
        cases gen with
        | nil => simp at hgen
        | cons => simp
      exact ih _ _ _ hstep (by rw [List.length_append]; omega)

theorem idxOf_lt_of_before {l l₁ l₂ l₃ : List α} {u v : α} (hnd : l.Nodup)
    (e : l = l₁ ++ u :: l₂ ++ v :: l₃) : l.idxOf u < l.idxOf v := by
  subst e
  have hv : v ∉ l₁ ++ u :: l₂ := fun hv => (List.nodup_append.1 hnd).2.2 _ hv _ (by simp) rfl
  rw [List.idxOf_append_of_notMem hv, List.idxOf_append_of_mem (by simp : u ∈ l₁ ++ u :: l₂)]
  have := List.idxOf_lt_length_of_mem (by simp : u ∈ l₁ ++ u :: l₂)
  omega

/-- a graph that has a topological order has no directed cycle -/
theorem acyclic_of_isTopoOrder (G : MG α) (hG : G.nodes.Nodup) (l : List α) (h : G.IsTopoOrder l) :
    G.Acyclic := by
  have hnd : l.Nodup := h.1.nodup_iff.2 hG
  have key : ∀ u v, TransGen G.DiEdge u v → l.idxOf u < l.idxOf v := by
    intro u v huv
    induction huv with
    | single h1 =>
      obtain ⟨l₁, l₂, l₃, e⟩ := h.2 _ _ h1
      exact idxOf_lt_of_before hnd e
    | tail _ h2 ih =>
      obtain ⟨l₁, l₂, l₃, e⟩ := h.2 _ _ h2
      exact lt_trans ih (idxOf_lt_of_before hnd e)
  intro v hv
  exact lt_irrefl _ (key v v hv)

/-! ### `pre`: the prefix before the first member of `S` -/

theorem mem_preOf_iff (o S : List α) (x : α) :
    x ∈ preOf o S ↔ x ∈ o ∧ ∀ s ∈ S, s ∈ o → o.idxOf x < o.idxOf s := by
  unfold preOf
  induction o with
  | nil => simp
  | cons a o ih =>
    by_cases ha : a ∈ S
    · have : (a :: o).takeWhile (fun y => decide (y ∉ S)) = [] := by simp [ha]
      rw [this]
      simp only [List.not_mem_nil, false_iff, not_and, not_forall]
      intro _
      exact ⟨a, ha, by simp, by simp⟩
    · have : (a :: o).takeWhile (fun y => decide (y ∉ S)) = a :: o.takeWhile (fun y => decide (y ∉ S)) := by
        simp [ha]
      rw [this, List.mem_cons, ih]
      constructor
      · rintro (rfl | ⟨hx, h⟩)
        · refine ⟨by simp, fun s hs _ => ?_⟩
          have hsx : x ≠ s := fun e => ha (e ▸ hs)
          rw [List.idxOf_cons_self, List.idxOf_cons_ne _ hsx]
          omega
        · refine ⟨by simp [hx], fun s hs hso => ?_⟩
          have hsa : a ≠ s := fun e => ha (e ▸ hs)
          have hso' : s ∈ o := by
            rcases List.mem_cons.1 hso with e | e
            · exact absurd e.symm hsa
            · exact e
          by_cases hxa : a = x
          · subst hxa
            rw [List.idxOf_cons_self, List.idxOf_cons_ne _ hsa]
            omega
          · rw [List.idxOf_cons_ne _ hxa, List.idxOf_cons_ne _ hsa]
            have := h s hs hso'
            omega
      · rintro ⟨hx, h⟩
        by_cases hxa : x = a
        · exact Or.inl hxa
        · refine Or.inr ⟨by simpa [hxa] using hx, fun s hs hso => ?_⟩
          have hsa : a ≠ s := fun e => ha (e ▸ hs)
          have := h s hs (by simp [hso])
          rw [List.idxOf_cons_ne _ (Ne.symm hxa), List.idxOf_cons_ne _ hsa] at this
          omega

/-- a prefix of a topological order is closed under parents -/
theorem prefix_ancestral (G : MG α) (hG : G.nodes.Nodup) (l P rest : List α) (h : G.IsTopoOrder l)
    (e : l = P ++ rest) (u v : α) (huv : G.DiEdge u v) (hv : v ∈ P) : u ∈ P := by
  have hnd : l.Nodup := h.1.nodup_iff.2 hG
  obtain ⟨l₁, l₂, l₃, e'⟩ := h.2 u v huv
  have hlt := idxOf_lt_of_before hnd e'
  by_contra hu
  rw [e, List.idxOf_append_of_notMem hu, List.idxOf_append_of_mem hv] at hlt
  have := List.idxOf_lt_length_of_mem hv
  omega

end Y0.MG
