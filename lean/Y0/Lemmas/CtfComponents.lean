/-
  Y0.Lemmas.CtfComponents — the two merge passes of `_compute_ancestral_components_from_ancestral_sets`
  (Y0.Model.Ctf: `mergeCommon`, `mergeBidirected`) compute the unions of the connected components of their link graphs.
-/
import Y0.Lemmas.Ctf

namespace Y0.Ctf
open Relation Y0.MG

/-! ### the link graph of one pass -/

/-- the graph `adj_list` of one merge pass -/
def linkGraph (sets : List (List Var)) (R : List Var → List Var → Bool) : MG (List Var) :=
  MG.fromEdges [] [] (linkPairs sets R)

theorem mem_linkPairs (sets : List (List Var)) (R : List Var → List Var → Bool) (s t : List Var) :
    (s, t) ∈ linkPairs sets R ↔ s ∈ sets ∧ t ∈ sets ∧ R s t = true := by
  simp only [linkPairs, List.mem_flatMap, List.mem_map, List.mem_filter, Prod.mk.injEq]
  constructor
  · rintro ⟨a, ha, b, ⟨hb, hR⟩, rfl, rfl⟩; exact ⟨ha, hb, hR⟩
  · rintro ⟨hs, ht, hR⟩; exact ⟨s, hs, t, ⟨ht, hR⟩, rfl, rfl⟩

theorem biEdge_linkGraph (sets : List (List Var)) (R : List Var → List Var → Bool) (s t : List Var) :
    (linkGraph sets R).BiEdge s t ↔ s ∈ sets ∧ t ∈ sets ∧ (R s t = true ∨ R t s = true) := by
  unfold linkGraph
  rw [biEdge_fromEdges, mem_linkPairs, mem_linkPairs]
  tauto

theorem mem_nodes_linkGraph (sets : List (List Var)) (R : List Var → List Var → Bool) (s : List Var) :
    s ∈ (linkGraph sets R).nodes ↔ s ∈ sets ∧ ∃ t ∈ sets, R s t = true ∨ R t s = true := by
  unfold linkGraph
  rw [mem_nodes_fromEdges]
  simp only [List.not_mem_nil, false_and, exists_false, false_or]
  constructor
  · rintro ⟨⟨a, b⟩, he, rfl | rfl⟩
    · obtain ⟨ha, hb, hR⟩ := (mem_linkPairs sets R _ _).1 he
      exact ⟨ha, b, hb, Or.inl hR⟩
    · obtain ⟨ha, hb, hR⟩ := (mem_linkPairs sets R _ _).1 he
      exact ⟨hb, a, ha, Or.inr hR⟩
  · rintro ⟨hs, t, ht, hR | hR⟩
    · exact ⟨(s, t), (mem_linkPairs sets R _ _).2 ⟨hs, ht, hR⟩, Or.inl rfl⟩
    · exact ⟨(t, s), (mem_linkPairs sets R _ _).2 ⟨ht, hs, hR⟩, Or.inr rfl⟩

theorem wf_linkGraph (sets : List (List Var)) (R : List Var → List Var → Bool) : (linkGraph sets R).WF :=
  wf_fromEdges _ _ _

/-- connected in the link graph -/
def Conn (sets : List (List Var)) (R : List Var → List Var → Bool) (s t : List Var) : Prop :=
  (linkGraph sets R).SameDistrict s t

theorem conn_mem_nodes (sets : List (List Var)) (R : List Var → List Var → Bool) (s t : List Var)
    (hs : s ∈ (linkGraph sets R).nodes) (h : Conn sets R s t) : t ∈ (linkGraph sets R).nodes := by
  induction h with
  | refl => exact hs
  | tail _ hbc _ =>
    rcases hbc with hbc | hbc
    · exact ((wf_linkGraph sets R).bi_mem _ hbc).2
    · exact ((wf_linkGraph sets R).bi_mem _ hbc).1

theorem mem_union_flatten (comp : List (List Var)) (x : Var) :
    x ∈ dedup' comp.flatten ↔ ∃ S ∈ comp, x ∈ S := by
  simp [mem_dedup', List.mem_flatten]

theorem mem_mergeBy (sets : List (List Var)) (R : List Var → List Var → Bool) (C : List Var) :
    C ∈ mergeBy sets R ↔ ∃ comp ∈ (linkGraph sets R).districts, C = dedup' comp.flatten := by
  unfold mergeBy linkGraph
  simp only [List.mem_map]
  constructor
  · rintro ⟨comp, hc, rfl⟩; exact ⟨comp, hc, rfl⟩
  · rintro ⟨comp, hc, rfl⟩; exact ⟨comp, hc, rfl⟩

/-- in a list of pairwise disjoint lists two members with a common element are equal -/
theorem eq_of_common_mem {α : Type} (l : List (List α))
    (hp : l.Pairwise (fun d₁ d₂ => ∀ x, x ∈ d₁ → x ∉ d₂)) (c d : List α) (hc : c ∈ l) (hd : d ∈ l)
    (x : α) (hxc : x ∈ c) (hxd : x ∈ d) : c = d := by
  induction l with
  | nil => cases hc
  | cons a l ih =>
    rw [List.pairwise_cons] at hp
    rcases List.mem_cons.1 hc with rfl | hc'
    · rcases List.mem_cons.1 hd with rfl | hd'
      · rfl
      · exact absurd hxd (hp.1 d hd' x hxc)
    · rcases List.mem_cons.1 hd with rfl | hd'
      · exact absurd hxc (hp.1 c hc' x hxd)
      · exact ih hp.2 hc' hd'

/-- every output set of a pass is the union of the connectivity class of one of the linked input sets -/
theorem mergeBy_class (sets : List (List Var)) (R : List Var → List Var → Bool) (C : List Var)
    (hC : C ∈ mergeBy sets R) :
    ∃ s ∈ (linkGraph sets R).nodes, s ∈ sets ∧ ∀ x, x ∈ C ↔ ∃ t, Conn sets R s t ∧ x ∈ t := by
  obtain ⟨comp, hcomp, rfl⟩ := (mem_mergeBy sets R C).1 hC
  have hwf := wf_linkGraph sets R
  have hne := districts_nonempty _ hwf comp hcomp
  obtain ⟨s, hs⟩ : ∃ s, s ∈ comp := by
    cases comp with
    | nil => exact absurd rfl hne
    | cons s _ => exact ⟨s, by simp⟩
  have hsn : s ∈ (linkGraph sets R).nodes := (districts_cover _ hwf s).2 ⟨comp, hcomp, hs⟩
  refine ⟨s, hsn, ((mem_nodes_linkGraph sets R s).1 hsn).1, fun x => ?_⟩
  rw [mem_union_flatten]
  constructor
  · rintro ⟨t, ht, hx⟩; exact ⟨t, (districts_spec _ hwf comp hcomp s hs t).1 ht, hx⟩
  · rintro ⟨t, ht, hx⟩; exact ⟨t, (districts_spec _ hwf comp hcomp s hs t).2 ht, hx⟩

/-- every linked input set lies in exactly one output set, the union of its connectivity class -/
theorem mergeBy_of_node (sets : List (List Var)) (R : List Var → List Var → Bool) (s : List Var)
    (hs : s ∈ (linkGraph sets R).nodes) :
    ∃ C ∈ mergeBy sets R, ∀ x, x ∈ C ↔ ∃ t, Conn sets R s t ∧ x ∈ t := by
  have hwf := wf_linkGraph sets R
  obtain ⟨comp, hcomp, hsc⟩ := (districts_cover _ hwf s).1 hs
  refine ⟨dedup' comp.flatten, (mem_mergeBy sets R _).2 ⟨comp, hcomp, rfl⟩, fun x => ?_⟩
  rw [mem_union_flatten]
  constructor
  · rintro ⟨t, ht, hx⟩; exact ⟨t, (districts_spec _ hwf comp hcomp s hsc t).1 ht, hx⟩
  · rintro ⟨t, ht, hx⟩; exact ⟨t, (districts_spec _ hwf comp hcomp s hsc t).2 ht, hx⟩

/-- two output sets that contain members of connected input sets are the same list -/
theorem mergeBy_eq_of_conn (sets : List (List Var)) (R : List Var → List Var → Bool) (C D : List Var)
    (hC : C ∈ mergeBy sets R) (hD : D ∈ mergeBy sets R) (s t : List Var)
    (hsC : ∃ comp ∈ (linkGraph sets R).districts, C = dedup' comp.flatten ∧ s ∈ comp)
    (htD : ∃ comp ∈ (linkGraph sets R).districts, D = dedup' comp.flatten ∧ t ∈ comp)
    (hst : Conn sets R s t) : C = D := by
  have hwf := wf_linkGraph sets R
  obtain ⟨c, hc, rfl, hsc⟩ := hsC
  obtain ⟨d, hd, rfl, htd⟩ := htD
  have htc : t ∈ c := (districts_spec _ hwf c hc s hsc t).2 hst
  have : c = d := eq_of_common_mem _ (districts_disjoint _ hwf) c d hc hd t htc htd
  rw [this]

/-! ### the two link relations -/

theorem mem_bases (s : List Var) (n : Name) : n ∈ bases s ↔ ∃ a ∈ s, a.name = n := by
  simp [bases, mem_dedup']

theorem shareBase_iff (s t : List Var) :
    shareBase s t = true ↔ ∃ a ∈ s, ∃ b ∈ t, a.name = b.name := by
  simp only [shareBase, List.any_eq_true, decide_eq_true_eq, mem_bases]
  constructor
  · rintro ⟨n, ⟨a, ha, rfl⟩, b, hb, hbn⟩; exact ⟨a, ha, b, hb, hbn.symm⟩
  · rintro ⟨a, ha, b, hb, hab⟩; exact ⟨a.name, ⟨a, ha, rfl⟩, b, hb, hab.symm⟩

theorem shareBase_self (s : List Var) (x : Var) (hx : x ∈ s) : shareBase s s = true :=
  (shareBase_iff s s).2 ⟨x, hx, x, hx, rfl⟩

theorem biLinked_iff (g : MG Name) (s t : List Var) :
    biLinked g s t = true ↔ s = t ∨ ∃ a ∈ s, ∃ b ∈ t, g.BiEdge a.name b.name := by
  simp only [biLinked, Bool.or_eq_true, decide_eq_true_eq, List.any_eq_true, Bool.and_eq_true, mem_bases, BiEdge]
  constructor
  · rintro (h | ⟨⟨u, w⟩, he, (⟨⟨a, ha, rfl⟩, b, hb, rfl⟩ | ⟨⟨a, ha, hau⟩, b, hb, hbw⟩)⟩)
    · exact Or.inl h
    · exact Or.inr ⟨a, ha, b, hb, Or.inl he⟩
    · simp only at hau hbw
      exact Or.inr ⟨a, ha, b, hb, Or.inr (by rw [hau, hbw]; exact he)⟩
  · rintro (h | ⟨a, ha, b, hb, (he | he)⟩)
    · exact Or.inl h
    · exact Or.inr ⟨(a.name, b.name), he, Or.inl ⟨⟨a, ha, rfl⟩, b, hb, rfl⟩⟩
    · exact Or.inr ⟨(b.name, a.name), he, Or.inr ⟨⟨a, ha, rfl⟩, b, hb, rfl⟩⟩

theorem linked_symm (g : MG Name) (s t : List Var) (h : Linked g s t) : Linked g t s := by
  rcases h with ⟨a, ha, b, hb, hab⟩ | ⟨a, ha, b, hb, hab⟩
  · exact Or.inl ⟨b, hb, a, ha, hab.symm⟩
  · exact Or.inr ⟨b, hb, a, ha, hab.symm⟩

theorem sameComponent_symm (g : MG Name) (sets : List (List Var)) (s t : List Var)
    (h : SameComponent g sets s t) : SameComponent g sets t s := by
  induction h with
  | refl => exact .refl
  | tail _ hbc ih => exact ReflTransGen.head ⟨hbc.2.1, hbc.1, linked_symm g _ _ hbc.2.2⟩ ih

/-- connectivity of the first pass is a chain of input sets sharing a vertex -/
theorem conn_common_sameComponent (g : MG Name) (sets : List (List Var)) (s t : List Var)
    (h : Conn sets shareBase s t) : SameComponent g sets s t := by
  induction h with
  | refl => exact .refl
  | tail _ hbc ih =>
    refine ReflTransGen.tail ih ?_
    obtain ⟨hb, hc, hR⟩ := (biEdge_linkGraph sets shareBase _ _).1 hbc
    refine ⟨hb, hc, Or.inl ?_⟩
    rcases hR with hR | hR
    · exact (shareBase_iff _ _).1 hR
    · obtain ⟨a, ha, b, hb', hab⟩ := (shareBase_iff _ _).1 hR
      exact ⟨b, hb', a, ha, hab.symm⟩

theorem conn_symm (sets : List (List Var)) (R : List Var → List Var → Bool) (s t : List Var)
    (h : Conn sets R s t) : Conn sets R t s := sameDistrict_symm _ h

/-- a non-empty input set is a node of the first pass -/
theorem mem_nodes_common (sets : List (List Var)) (s : List Var) (hs : s ∈ sets) (x : Var) (hx : x ∈ s) :
    s ∈ (linkGraph sets shareBase).nodes :=
  (mem_nodes_linkGraph sets shareBase s).2 ⟨hs, s, hs, Or.inl (shareBase_self s x hx)⟩

/-- every set is a node of the second pass -/
theorem mem_nodes_bidirected (g : MG Name) (sets : List (List Var)) (s : List Var) (hs : s ∈ sets) :
    s ∈ (linkGraph sets (biLinked g)).nodes :=
  (mem_nodes_linkGraph sets (biLinked g) s).2 ⟨hs, s, hs, Or.inl ((biLinked_iff g s s).2 (Or.inl rfl))⟩

/-- the sets returned by the first pass are pairwise disjoint on graph vertices: two of them that share a vertex are
the same set -/
theorem mergeCommon_base_disjoint (sets : List (List Var)) (S S' : List Var) (hS : S ∈ mergeCommon sets)
    (hS' : S' ∈ mergeCommon sets) (a b : Var) (ha : a ∈ S) (hb : b ∈ S') (hab : a.name = b.name) : S = S' := by
  have hwf := wf_linkGraph sets shareBase
  obtain ⟨c, hc, rfl⟩ := (mem_mergeBy sets shareBase S).1 hS
  obtain ⟨c', hc', rfl⟩ := (mem_mergeBy sets shareBase S').1 hS'
  obtain ⟨s, hs, has⟩ := (mem_union_flatten c a).1 ha
  obtain ⟨s', hs', hbs'⟩ := (mem_union_flatten c' b).1 hb
  have hsn : s ∈ (linkGraph sets shareBase).nodes := (districts_cover _ hwf s).2 ⟨c, hc, hs⟩
  have hsn' : s' ∈ (linkGraph sets shareBase).nodes := (districts_cover _ hwf s').2 ⟨c', hc', hs'⟩
  have hedge : (linkGraph sets shareBase).BiEdge s s' :=
    (biEdge_linkGraph sets shareBase s s').2
      ⟨((mem_nodes_linkGraph _ _ _).1 hsn).1, ((mem_nodes_linkGraph _ _ _).1 hsn').1,
        Or.inl ((shareBase_iff s s').2 ⟨a, has, b, hbs', hab⟩)⟩
  exact mergeBy_eq_of_conn sets shareBase _ _ hS hS' s s' ⟨c, hc, rfl, hs⟩ ⟨c', hc', rfl, hs'⟩
    (ReflTransGen.single hedge)

/-! ### composing the two passes -/

/-- `S` is the output set of the first pass that contains the input set `s` -/
def ClassOf (sets : List (List Var)) (S s : List Var) : Prop :=
  ∃ comp ∈ (linkGraph sets shareBase).districts, S = dedup' comp.flatten ∧ s ∈ comp

theorem classOf_mem (sets : List (List Var)) (S s : List Var) (h : ClassOf sets S s) :
    S ∈ mergeCommon sets ∧ s ∈ sets ∧ (∀ x, x ∈ s → x ∈ S) ∧
      ∀ x, x ∈ S → ∃ t, Conn sets shareBase s t ∧ t ∈ sets ∧ x ∈ t := by
  have hwf := wf_linkGraph sets shareBase
  obtain ⟨c, hc, rfl, hs⟩ := h
  have hsn : s ∈ (linkGraph sets shareBase).nodes := (districts_cover _ hwf s).2 ⟨c, hc, hs⟩
  refine ⟨(mem_mergeBy sets shareBase _).2 ⟨c, hc, rfl⟩, ((mem_nodes_linkGraph _ _ _).1 hsn).1,
    fun x hx => (mem_union_flatten c x).2 ⟨s, hs, hx⟩, fun x hx => ?_⟩
  obtain ⟨t, ht, hxt⟩ := (mem_union_flatten c x).1 hx
  have htn : t ∈ (linkGraph sets shareBase).nodes := (districts_cover _ hwf t).2 ⟨c, hc, ht⟩
  exact ⟨t, (districts_spec _ hwf c hc s hs t).1 ht, ((mem_nodes_linkGraph _ _ _).1 htn).1, hxt⟩

/-- every non-empty input set has a class -/
theorem classOf_exists (sets : List (List Var)) (s : List Var) (hs : s ∈ sets) (x : Var) (hx : x ∈ s) :
    ∃ S, ClassOf sets S s := by
  have hwf := wf_linkGraph sets shareBase
  obtain ⟨c, hc, hsc⟩ := (districts_cover _ hwf s).1 (mem_nodes_common sets s hs x hx)
  exact ⟨_, c, hc, rfl, hsc⟩

/-- every output set of the first pass is the class of some input set -/
theorem classOf_of_mem (sets : List (List Var)) (S : List Var) (hS : S ∈ mergeCommon sets) :
    ∃ s, ClassOf sets S s := by
  have hwf := wf_linkGraph sets shareBase
  obtain ⟨c, hc, rfl⟩ := (mem_mergeBy sets shareBase S).1 hS
  have hne := districts_nonempty _ hwf c hc
  cases c with
  | nil => exact absurd rfl hne
  | cons s rest => exact ⟨s, s :: rest, hc, rfl, by simp⟩

theorem classOf_eq_of_conn (sets : List (List Var)) (S S' s s' : List Var) (h : ClassOf sets S s)
    (h' : ClassOf sets S' s') (hc : Conn sets shareBase s s') : S = S' :=
  mergeBy_eq_of_conn sets shareBase S S' (classOf_mem sets S s h).1 (classOf_mem sets S' s' h').1 s s' h h' hc

/-- (first half) everything in a final component is reached from the representative by a chain of linked input sets -/
theorem components_sound (g : MG Name) (sets : List (List Var)) (S₀ s₀ S : List Var)
    (h₀ : ClassOf sets S₀ s₀) (hconn : Conn (mergeCommon sets) (biLinked g) S₀ S) :
    ∀ x, x ∈ S → ∃ t ∈ sets, SameComponent g sets s₀ t ∧ x ∈ t := by
  induction hconn with
  | refl =>
    intro x hx
    obtain ⟨t, hct, hts, hxt⟩ := (classOf_mem sets S₀ s₀ h₀).2.2.2 x hx
    exact ⟨t, hts, conn_common_sameComponent g sets s₀ t hct, hxt⟩
  | @tail S' S _ hedge ih =>
    intro x hx
    obtain ⟨hS', hS, hR⟩ := (biEdge_linkGraph (mergeCommon sets) (biLinked g) S' S).1 hedge
    -- either the two sets are equal or a bidirected edge joins a member of `S'` to a member of `S`
    have hcases : S' = S ∨ ∃ a ∈ S', ∃ b ∈ S, g.BiEdge a.name b.name := by
      rcases hR with hR | hR
      · exact (biLinked_iff g S' S).1 hR
      · rcases (biLinked_iff g S S').1 hR with h | ⟨b, hb, a, ha, hba⟩
        · exact Or.inl h.symm
        · exact Or.inr ⟨a, ha, b, hb, biEdge_symm g hba⟩
    rcases hcases with rfl | ⟨a, ha, b, hb, hab⟩
    · exact ih x hx
    · obtain ⟨ta, hta, hsa, hata⟩ := ih a ha
      obtain ⟨s₁, hcl⟩ := classOf_of_mem sets S hS
      obtain ⟨tb, hctb, htbs, hbtb⟩ := (classOf_mem sets S s₁ hcl).2.2.2 b hb
      obtain ⟨tx, hctx, htxs, hxtx⟩ := (classOf_mem sets S s₁ hcl).2.2.2 x hx
      refine ⟨tx, htxs, ?_, hxtx⟩
      have h1 : SameComponent g sets s₀ tb :=
        ReflTransGen.tail hsa ⟨hta, htbs, Or.inr ⟨a, hata, b, hbtb, hab⟩⟩
      have h2 : SameComponent g sets tb s₁ :=
        sameComponent_symm g sets _ _ (conn_common_sameComponent g sets s₁ tb hctb)
      exact (h1.trans h2).trans (conn_common_sameComponent g sets s₁ tx hctx)

/-- (second half) an input set reached from the representative by a chain of linked input sets lies, with its whole
class, in a set connected to the representative's class in the second pass -/
theorem components_complete (g : MG Name) (sets : List (List Var)) (S₀ s₀ t : List Var)
    (h₀ : ClassOf sets S₀ s₀) (hchain : SameComponent g sets s₀ t) :
    ∃ S, ClassOf sets S t ∧ Conn (mergeCommon sets) (biLinked g) S₀ S := by
  induction hchain with
  | refl => exact ⟨S₀, h₀, .refl⟩
  | @tail t t' _ hstep ih =>
    obtain ⟨S, hcl, hconn⟩ := ih
    obtain ⟨ht, ht', hlink⟩ := hstep
    have hS := (classOf_mem sets S t hcl).1
    rcases hlink with ⟨a, ha, b, hb, hab⟩ | ⟨a, ha, b, hb, hab⟩
    · -- shared vertex: the same class
      obtain ⟨S', hcl'⟩ := classOf_exists sets t' ht' b hb
      have hedge : (linkGraph sets shareBase).BiEdge t t' :=
        (biEdge_linkGraph sets shareBase t t').2 ⟨ht, ht', Or.inl ((shareBase_iff t t').2 ⟨a, ha, b, hb, hab⟩)⟩
      have : S = S' := classOf_eq_of_conn sets S S' t t' hcl hcl' (ReflTransGen.single hedge)
      subst this
      exact ⟨S, hcl', hconn⟩
    · -- bidirected edge between members: linked in the second pass
      obtain ⟨S', hcl'⟩ := classOf_exists sets t' ht' b hb
      have hS' := (classOf_mem sets S' t' hcl').1
      have haS : a ∈ S := (classOf_mem sets S t hcl).2.2.1 a ha
      have hbS' : b ∈ S' := (classOf_mem sets S' t' hcl').2.2.1 b hb
      have hedge : (linkGraph (mergeCommon sets) (biLinked g)).BiEdge S S' :=
        (biEdge_linkGraph _ _ S S').2 ⟨hS, hS', Or.inl ((biLinked_iff g S S').2 (Or.inr ⟨a, haS, b, hbS', hab⟩))⟩
      exact ⟨S', hcl', ReflTransGen.tail hconn hedge⟩

end Y0.Ctf
