/-
  Y0.Lemmas.SigmaPure — on nodes of the graph every look-up of the sigma-separation model succeeds, so the
  `Except`-valued predicates equal pure Boolean ones (`pCollider`, `pLeft`, `pRight`, `pFork`, `pHelper`,
  `pTripleOk`, `pOpen`); these are invariant under reversing the path.
-/
import Y0.Lemmas.SepModel
import Y0.Lemmas.SigmaPaths

namespace Y0.MG
variable {α : Type} [DecidableEq α]

/-! ### `Except` plumbing -/

@[simp] theorem orE_ok (a b : Bool) : orE (.ok a) (.ok b) = .ok (a || b) := by
  cases a <;> simp [orE, bind, Except.bind, pure, Except.pure]

@[simp] theorem andE_ok (a b : Bool) : andE (.ok a) (.ok b) = .ok (a && b) := by
  cases a <;> simp [andE, bind, Except.bind, pure, Except.pure]

theorem anyE_ok {β : Type} (f : β → Except Err Bool) (g : β → Bool) (l : List β) (h : ∀ x ∈ l, f x = .ok (g x)) :
    anyE f l = .ok (l.any g) := by
  induction l with
  | nil => rfl
  | cons x xs ih =>
    simp only [anyE, h x (by simp), ih (fun y hy => h y (by simp [hy])), orE_ok, List.any_cons]

theorem allE_ok {β : Type} (f : β → Except Err Bool) (g : β → Bool) (l : List β) (h : ∀ x ∈ l, f x = .ok (g x)) :
    allE f l = .ok (l.all g) := by
  induction l with
  | nil => rfl
  | cons x xs ih =>
    simp only [allE, h x (by simp), ih (fun y hy => h y (by simp [hy])), andE_ok, List.all_cons]

/-! ### pure forms -/

/-- `descendants_inclusive(m)` -/
def descOf (G : MG α) (m : α) : List α := closure G.children (G.nodes.length + 1) (dedup' [m])

/-- `σ(v) = anc(v) ∩ desc(v)` -/
def sigmaSet (G : MG α) (v : α) : List α :=
  inter' (closure G.parents (G.nodes.length + 1) (dedup' [v])) (closure G.children (G.nodes.length + 1) (dedup' [v]))

def pCollider (G : MG α) (C : List α) (l m r : α) : Bool :=
  G.hasEither l m && G.hasEither r m && (G.descOf m).any (· ∈ C)

def pLeft (G : MG α) (C : List α) (l m r : α) : Bool :=
  G.onlyDirected m l && G.hasEither r m && (decide (m ∉ C) || decide (m ∈ G.sigmaSet l))

def pRight (G : MG α) (C : List α) (l m r : α) : Bool :=
  G.hasEither l m && G.onlyDirected m r && (decide (m ∉ C) || decide (m ∈ G.sigmaSet r))

def pFork (G : MG α) (C : List α) (l m r : α) : Bool :=
  G.onlyDirected m l && G.onlyDirected m r &&
    (decide (m ∉ C) || (decide (m ∈ C) && decide (m ∈ G.sigmaSet l) && decide (m ∈ G.sigmaSet r)))

def pHelper (G : MG α) (C : List α) (l m r : α) : Bool :=
  G.pCollider C l m r || (G.pLeft C l m r || (G.pRight C l m r || G.pFork C l m r))

def pBack (G : MG α) (C : List α) (l m r : α) (n : α) : Bool :=
  G.pHelper C l m n && (G.pHelper C m n m && G.pHelper C n m r)

def pTripleOk (G : MG α) (C : List α) (l m r : α) : Bool :=
  G.pHelper C l m r || ((G.disorient.biNbrs m).filter (· ≠ m)).any (G.pBack C l m r)

def pOpen (G : MG α) (C : List α) (path : List α) : Bool :=
  match path.head?, path.getLast? with
  | some first, some last =>
    !(decide (first ∈ C) || decide (last ∈ C)) && (triples path).all (fun t => G.pTripleOk C t.1 t.2.1 t.2.2)
  | _, _ => false

/-! ### the look-ups succeed on nodes -/

theorem ancestorsInclusive_single (G : MG α) (v : α) (hv : v ∈ G.nodes) :
    G.ancestorsInclusive [v] = .ok (closure G.parents (G.nodes.length + 1) (dedup' [v])) := by
  simp [ancestorsInclusive, checkSources, hv, bind, Except.bind, pure, Except.pure]

theorem descendantsInclusive_single (G : MG α) (v : α) (hv : v ∈ G.nodes) :
    G.descendantsInclusive [v] = .ok (G.descOf v) := by
  simp [descendantsInclusive, checkSources, hv, bind, Except.bind, pure, Except.pure, descOf]

/-- the table `get_equivalence_classes` returns -/
def sigmaTable (G : MG α) : List (α × List α) := G.nodes.map (fun v => (v, G.sigmaSet v))

theorem equivalenceClasses_ok (G : MG α) : G.equivalenceClasses = .ok G.sigmaTable := by
  unfold equivalenceClasses sigmaTable
  apply mapM_ok_of_forall
  intro v hv
  simp [ancestorsInclusive_single G v hv, descendantsInclusive_single G v hv, descOf, sigmaSet, bind, Except.bind,
    pure, Except.pure]

theorem find?_map_key {β : Type} (l : List α) (g : α → β) (v : α) (hv : v ∈ l) :
    (l.map (fun v => (v, g v))).find? (fun p => decide (p.1 = v)) = some (v, g v) := by
  induction l with
  | nil => simp at hv
  | cons x xs ih =>
    simp only [List.map_cons, List.find?_cons]
    by_cases hx : x = v
    · subst hx; simp
    · have hv' : v ∈ xs := by
        rcases List.mem_cons.1 hv with h | h
        · exact absurd h.symm hx
        · exact h
      simp only [hx, decide_false]
      exact ih hv'

theorem sigmaOf_ok (G : MG α) (v : α) (hv : v ∈ G.nodes) : sigmaOf G.sigmaTable v = .ok (G.sigmaSet v) := by
  unfold sigmaOf sigmaTable
  rw [find?_map_key G.nodes G.sigmaSet v hv]

theorem isCollider_ok (G : MG α) (C : List α) (l m r : α) (hm : m ∈ G.nodes) :
    G.isCollider C l m r = .ok (G.pCollider C l m r) := by
  unfold isCollider pCollider
  split
  · rename_i h
    simp [descendantsInclusive_single G m hm, h, bind, Except.bind, pure, Except.pure]
  · rename_i h
    simp only [Bool.not_eq_true] at h
    simp [h, pure, Except.pure]

theorem isLeftChain_ok (G : MG α) (C : List α) (l m r : α) (hl : l ∈ G.nodes) :
    G.isLeftChain G.sigmaTable C l m r = .ok (G.pLeft C l m r) := by
  unfold isLeftChain pLeft
  split
  · rename_i h
    split
    · rename_i hmC; simp [h, hmC, pure, Except.pure]
    · rename_i hmC
      simp only [Decidable.not_not] at hmC
      simp [sigmaOf_ok G l hl, h, hmC, bind, Except.bind, pure, Except.pure]
  · rename_i h
    simp only [Bool.not_eq_true] at h
    simp [h, pure, Except.pure]

theorem isRightChain_ok (G : MG α) (C : List α) (l m r : α) (hr : r ∈ G.nodes) :
    G.isRightChain G.sigmaTable C l m r = .ok (G.pRight C l m r) := by
  unfold isRightChain pRight
  split
  · rename_i h
    split
    · rename_i hmC; simp [h, hmC, pure, Except.pure]
    · rename_i hmC
      simp only [Decidable.not_not] at hmC
      simp [sigmaOf_ok G r hr, h, hmC, bind, Except.bind, pure, Except.pure]
  · rename_i h
    simp only [Bool.not_eq_true] at h
    simp [h, pure, Except.pure]

theorem isFork_ok (G : MG α) (C : List α) (l m r : α) (hl : l ∈ G.nodes) (hr : r ∈ G.nodes) :
    G.isFork G.sigmaTable C l m r = .ok (G.pFork C l m r) := by
  simp [isFork, pFork, sigmaOf_ok G l hl, sigmaOf_ok G r hr, bind, Except.bind, pure, Except.pure]

theorem tripleHelper_ok (G : MG α) (C : List α) (l m r : α) (hl : l ∈ G.nodes) (hm : m ∈ G.nodes)
    (hr : r ∈ G.nodes) : G.tripleHelper G.sigmaTable C l m r = .ok (G.pHelper C l m r) := by
  simp only [tripleHelper, isCollider_ok G C l m r hm, isLeftChain_ok G C l m r hl, isRightChain_ok G C l m r hr,
    isFork_ok G C l m r hl hr, orE_ok, pHelper]

theorem mem_biNbrs_iff (G : MG α) (a b : α) : b ∈ G.biNbrs a ↔ G.BiEdge a b := by
  simp only [biNbrs, List.mem_flatMap, List.mem_append, BiEdge]
  constructor
  · rintro ⟨⟨x, y⟩, he, h | h⟩
    · split at h
      · rename_i hx; simp at h hx; subst hx; subst h; exact Or.inl he
      · simp at h
    · split at h
      · rename_i hy; simp at h hy; subst hy; subst h; exact Or.inr he
      · simp at h
  · rintro (h | h)
    · exact ⟨(a, b), h, Or.inl (by simp)⟩
    · exact ⟨(b, a), h, Or.inr (by simp)⟩

/-- neighbours in the disoriented graph are adjacent nodes of the graph -/
theorem mem_disorient_biNbrs (G : MG α) (a b : α) : b ∈ G.disorient.biNbrs a ↔ G.Adj a b := by
  rw [mem_biNbrs_iff, edge_disorient]; rfl

theorem adj_nodes (G : MG α) (hG : G.WF) {a b : α} (h : G.Adj a b) : a ∈ G.nodes ∧ b ∈ G.nodes :=
  adj_mem_nodes G hG h

theorem tripleOk_ok (G : MG α) (hG : G.WF) (C : List α) (l m r : α) (hl : l ∈ G.nodes) (hm : m ∈ G.nodes)
    (hr : r ∈ G.nodes) : G.tripleOk G.sigmaTable C l m r = .ok (G.pTripleOk C l m r) := by
  unfold tripleOk pTripleOk
  rw [tripleHelper_ok G C l m r hl hm hr]
  have hb : G.backtrackNbrs m = .ok ((G.disorient.biNbrs m).filter (· ≠ m)) := by simp [backtrackNbrs, hm]
  have hany := anyE_ok
    (fun n => andE (G.tripleHelper G.sigmaTable C l m n) (andE (G.tripleHelper G.sigmaTable C m n m)
      (G.tripleHelper G.sigmaTable C n m r)))
    (G.pBack C l m r) ((G.disorient.biNbrs m).filter (· ≠ m)) (by
      intro n hn
      have hnn : n ∈ G.nodes :=
        (adj_nodes G hG ((mem_disorient_biNbrs G m n).1 (List.mem_filter.1 hn).1)).2
      simp only [tripleHelper_ok G C l m n hl hm hnn, tripleHelper_ok G C m n m hm hnn hm,
        tripleHelper_ok G C n m r hnn hm hr, andE_ok, pBack])
  simp only [hb, bind, Except.bind, hany, orE_ok]

theorem mem_of_mem_triples {l m r : α} {p : List α} (h : (l, m, r) ∈ triples p) : l ∈ p ∧ m ∈ p ∧ r ∈ p := by
  induction p with
  | nil => simp [triples] at h
  | cons a p ih =>
    cases p with
    | nil => simp [triples] at h
    | cons b p =>
      cases p with
      | nil => simp [triples] at h
      | cons c p =>
        simp only [triples, List.mem_cons, Prod.mk.injEq] at h
        rcases h with ⟨rfl, rfl, rfl⟩ | h
        · simp
        · have := ih (by simpa [List.mem_cons] using h)
          exact ⟨by simp [this.1], by simp [this.2.1], by simp [this.2.2]⟩

theorem isZSigmaOpen_ok (G : MG α) (hG : G.WF) (C : List α) (p : List α) (hne : p ≠ [])
    (hp : ∀ x ∈ p, x ∈ G.nodes) : G.isZSigmaOpen G.sigmaTable C p = .ok (G.pOpen C p) := by
  unfold isZSigmaOpen pOpen
  obtain ⟨f, hf⟩ : ∃ f, p.head? = some f := by
    cases p with
    | nil => exact absurd rfl hne
    | cons x xs => exact ⟨x, rfl⟩
  obtain ⟨la, hla⟩ : ∃ la, p.getLast? = some la := by
    cases hl : p.getLast? with
    | none => exact absurd (List.getLast?_eq_none_iff.1 hl) hne
    | some x => exact ⟨x, rfl⟩
  have hall := allE_ok (fun (t : α × α × α) => G.tripleOk G.sigmaTable C t.1 t.2.1 t.2.2)
    (fun t => G.pTripleOk C t.1 t.2.1 t.2.2) (triples p) (by
      rintro ⟨l, m, r⟩ ht
      obtain ⟨h1, h2, h3⟩ := mem_of_mem_triples ht
      exact tripleOk_ok G hG C l m r (hp l h1) (hp m h2) (hp r h3))
  simp only [hf, hla]
  by_cases hc : f ∈ C ∨ la ∈ C
  · rcases hc with hc | hc <;> simp [hc]
  · rw [not_or] at hc
    simp [hc.1, hc.2, hall]

/-! ### reversal -/

theorem pCollider_rev (G : MG α) (C : List α) (l m r : α) : G.pCollider C l m r = G.pCollider C r m l := by
  simp only [pCollider, Bool.and_comm (G.hasEither l m)]

theorem pLeft_rev (G : MG α) (C : List α) (l m r : α) : G.pLeft C l m r = G.pRight C r m l := by
  simp only [pLeft, pRight, Bool.and_comm (G.onlyDirected m l)]

theorem pRight_rev (G : MG α) (C : List α) (l m r : α) : G.pRight C l m r = G.pLeft C r m l := by
  rw [pLeft_rev]

theorem pFork_rev (G : MG α) (C : List α) (l m r : α) : G.pFork C l m r = G.pFork C r m l := by
  simp only [pFork, Bool.and_comm (G.onlyDirected m l), Bool.and_assoc,
    Bool.and_comm (decide (m ∈ G.sigmaSet l)) (decide (m ∈ G.sigmaSet r))]

theorem pHelper_rev (G : MG α) (C : List α) (l m r : α) : G.pHelper C l m r = G.pHelper C r m l := by
  simp only [pHelper, pCollider_rev G C l m r, pLeft_rev G C l m r, pRight_rev G C l m r, pFork_rev G C l m r]
  cases G.pCollider C r m l <;> cases G.pRight C r m l <;> cases G.pLeft C r m l <;> simp

theorem pBack_rev (G : MG α) (C : List α) (l m r n : α) : G.pBack C l m r n = G.pBack C r m l n := by
  simp only [pBack, pHelper_rev G C l m n, pHelper_rev G C n m r]
  cases G.pHelper C n m l <;> cases G.pHelper C r m n <;> simp

theorem pTripleOk_rev (G : MG α) (C : List α) (l m r : α) : G.pTripleOk C l m r = G.pTripleOk C r m l := by
  have : G.pBack C l m r = G.pBack C r m l := funext (pBack_rev G C l m r)
  simp only [pTripleOk, pHelper_rev G C l m r, this]

theorem triples_append_singleton (p : List α) (x y z : α) :
    triples (p ++ [x, y, z]) = triples (p ++ [x, y]) ++ [(x, y, z)] := by
  induction p with
  | nil => simp [triples]
  | cons a p ih =>
    cases p with
    | nil => simp [triples]
    | cons b p =>
      cases p with
      | nil => simp [triples]
      | cons c p =>
        have := ih
        simp only [List.cons_append, triples] at this ⊢
        rw [this]

theorem triples_reverse (p : List α) :
    triples p.reverse = (triples p).reverse.map (fun t => (t.2.2, t.2.1, t.1)) := by
  induction p with
  | nil => simp [triples]
  | cons a p ih =>
    cases p with
    | nil => simp [triples]
    | cons b p =>
      cases p with
      | nil => simp [triples]
      | cons c p =>
        have h1 : (a :: b :: c :: p).reverse = (c :: p).reverse.dropLast ++ [c, b, a] := by
          simp
        have h2 : (b :: c :: p).reverse = (c :: p).reverse.dropLast ++ [c, b] := by
          simp
        rw [h1, triples_append_singleton, ← h2, ih]
        simp [triples]

theorem pOpen_reverse (G : MG α) (C : List α) (p : List α) : G.pOpen C p.reverse = G.pOpen C p := by
  unfold pOpen
  simp only [List.head?_reverse, List.getLast?_reverse]
  cases hf : p.head? with
  | none =>
    have : p = [] := by cases p <;> simp_all
    simp [this]
  | some f =>
    cases hl : p.getLast? with
    | none =>
      have : p = [] := List.getLast?_eq_none_iff.1 hl
      simp [this] at hf
    | some la =>
      simp only [triples_reverse, List.all_map, List.all_reverse, Bool.or_comm (decide (la ∈ C))]
      congr 1
      apply List.all_congr rfl
      intro t
      simp only [Function.comp]
      exact (pTripleOk_rev G C t.1 t.2.1 t.2.2).symm

end Y0.MG
