/-
  Y0.Lemmas.HedgeNonIdDo — c-factors of a parity model whose observed parents form a forest (`forestPar`):
  * `Q_forest`: if `S` contains the whole tree, `Q[S]` reads the assignment only through the parity of the roots;
  * `Q_cut_const`: if `S` misses a node of the tree, `Q[S]` is constant — cutting one node out of the tree (an
    intervention) destroys all information about the root parity;
  and two facts on iterated sums.
-/
import Y0.Lemmas.HedgeNonIdForest

namespace Y0
namespace NonId

theorem sumVars_of_const (card : Name → Nat) (xs : List Name) (f : Val → Rat) (hf : ∀ σ τ, f σ = f τ) :
    ∀ σ τ, sumVars card xs f σ = sumVars card xs f τ := by
  induction xs with
  | nil => exact hf
  | cons x xs ih =>
    intro σ τ
    simp only [sumVars, sumVar, sumRange]
    refine congrArg List.sum (List.map_congr_left ?_)
    intro k _
    exact ih _ _

theorem sumVars_indep_all (card : Name → Nat) (xs : List Name) (f : Val → Rat) (hf : ∀ x ∈ xs, IndepOf f x) (σ : Val) :
    sumVars card xs f σ = (xs.map fun x => (card x : Rat)).prod * f σ := by
  induction xs generalizing σ with
  | nil => simp [sumVars]
  | cons x xs ih =>
    simp only [sumVars, List.map_cons, List.prod_cons]
    have hind : IndepOf (sumVars card xs f) x := sumVars_indep card xs f (hf x (List.mem_cons_self ..))
    rw [sumVar_const card x _ σ hind, ih (fun y hy => hf y (List.mem_cons_of_mem _ hy)), mul_assoc]

theorem prod_pair_one (l : List Name) (ρ : Name → Rat) :
    (l.map fun i => ((1 : Rat), ρ i)).prod = (1, (l.map ρ).prod) := by
  induction l with
  | nil => rfl
  | cons a l ih =>
    simp only [List.map_cons, List.prod_cons, ih]
    ext <;> simp

theorem prod_snd_zero (l : List Name) (f : Name → Rat × Rat) (a : Name) (ha : a ∈ l) (h0 : (f a).2 = 0) :
    ((l.map f).prod).2 = 0 := by
  induction l with
  | nil => cases ha
  | cons b l ih =>
    simp only [List.map_cons, List.prod_cons, Prod.snd_mul]
    rcases List.mem_cons.mp ha with rfl | h
    · rw [h0, zero_mul]
    · rw [ih h, mul_zero]

theorem ev_snd_zero (g : Rat × Rat) (h : g.2 = 0) (c d : Nat) : ev g c = ev g d := by
  unfold ev; rw [h]; simp

namespace PSpec

/-- `Q[S]` for `S ⊇ T` in a forest-shaped parity model: a constant times the noise convolution at the root parity -/
theorem Q_forest (P : PSpec) {G : MG Name} (h : P.Good G) {S : List Name} (hS : S.Nodup)
    (hSG : ∀ v ∈ S, v ∈ G.nodes) (hTS : ∀ v ∈ P.T, v ∈ S)
    (Rl : List Name) (ch : Name → Name) (hpar : P.par = forestPar P.T Rl ch) (hR : Rl.Nodup)
    (hRT : ∀ r ∈ Rl, r ∈ P.T) (hch : ∀ p ∈ P.T, p ∉ Rl → ch p ∈ P.T) (σ : Val) :
    P.scm.Q S σ = (1 / 2) ^ P.es.length * (1 / 2) ^ (S.filter fun i => !decide (i ∈ P.T)).length *
      ev (1, (P.T.map P.rho).prod) ((Rl.map σ).sum) := by
  rw [Q_formula P h hS hSG σ]
  congr 1
  have h1 : P.T.map (P.gS S) = P.T.map fun i => ((1 : Rat), P.rho i) := by
    apply List.map_congr_left
    intro i hi
    simp [gS, hTS i hi]
  have h2 : (P.T.map fun i => P.eS S i σ) = P.T.map fun i => σ i + ((forestPar P.T Rl ch i).map σ).sum := by
    apply List.map_congr_left
    intro i hi
    simp [eS, hTS i hi, expo, hpar]
  rw [h1, h2, prod_pair_one]
  exact ev_congr _ (forest_parity P.T Rl ch (TreeSeq.nodup h.tree) hR hRT hch σ)

/-- `Q[S]` is constant when `S` misses a node of the tree -/
theorem Q_cut_const (P : PSpec) {G : MG Name} (h : P.Good G) {S : List Name} (hS : S.Nodup)
    (hSG : ∀ v ∈ S, v ∈ G.nodes) {x : Name} (hxT : x ∈ P.T) (hxS : x ∉ S) (σ τ : Val) :
    P.scm.Q S σ = P.scm.Q S τ := by
  rw [Q_formula P h hS hSG σ, Q_formula P h hS hSG τ]
  congr 1
  apply ev_snd_zero
  exact prod_snd_zero _ _ x hxT (by simp [gS, hxS])

end PSpec
end NonId
end Y0
