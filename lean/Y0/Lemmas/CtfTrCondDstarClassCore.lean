/-
  Y0.Lemmas.CtfTrCondDstarClassCore — an event whose variables are all in EXACT ctf-factor form (`W_{pa_W}`: the subscript
  names are the parents of `W`, Def. 3.4), not self-intervened, with consistent subscripts, unmarked, and one variable per
  graph vertex, is in the class `ctfSoundClass` of Algorithm 2's value theorem:

    `ctfAnc_factorForm_self`        the only counterfactual ancestor of a ctf-factor-form variable is the variable itself
                                    (every edge into its vertex leaves a subscript);
    `ancestralSet_factorForm`       so `An(Y_*)` of such an event consists of variables of the event;
    `ctfSoundClass_of_factorForm`   and the five Boolean conjuncts of `ctfSoundClass` hold.

  Used by Y0/Lemmas/CtfTrCondDstarClass.lean for the simplified derived event `D_*` of Algorithm 3.
-/
import Y0.Lemmas.CtfDen
import Y0.Model.CtfTr

namespace Y0.CtfTr
open Fscm Ctf Relation Y0.MG

/-- **the only member of `An(W_{pa_W})` is `W_{pa_W}`** -/
theorem ctfAnc_factorForm_self (g : MG Name) (k w : Var) (hff : ExactFactorForm g k) (hself : k.name ∉ subNames k)
    (hstar : k.star = none) (hiv : k.isIv = false) (hw : CtfAnc g k w) : w = k := by
  obtain ⟨⟨hanc, hws, hwi, hivs⟩, P, hP⟩ := hw
  -- the vertex
  have hname : w.name = k.name := by
    unfold AncUnder at hanc
    rcases ReflTransGen.cases_tail hanc with heq | ⟨b, _, hb⟩
    · exact heq.symm
    · exact absurd ((hff b).2 hb.1) hb.2
  -- every subscript is kept
  have hall : ∀ i ∈ k.ivs, i ∈ w.ivs := by
    intro i hi
    refine (hivs i).2 ⟨hi, ?_⟩
    rw [hname]
    exact ReflTransGen.single ⟨(hff i.name).1 (List.mem_map.2 ⟨i, hi, rfl⟩), hself⟩
  have hlist : w.ivs = k.ivs := by
    rw [hP]
    apply List.filter_eq_self.2
    intro i hi
    have := hall i hi
    rw [hP] at this
    exact (List.mem_filter.1 this).2
  cases w; cases k
  simp only at hname hws hwi hlist hstar hiv
  subst hname; subst hlist; subst hws; subst hwi; subst hstar; subst hiv
  rfl

/-- `An(Y_*)` of an event of ctf-factor-form variables consists of variables of the event -/
theorem ancestralSet_factorForm (g : MG Name) (hg : g.WF) (q : Event) (D : List Var)
    (hD : ancestralSet g q = .ok D)
    (hff : ∀ p ∈ q, ExactFactorForm g p.1) (hself : ∀ p ∈ q, p.1.name ∉ subNames p.1)
    (hstar : ∀ p ∈ q, p.1.star = none) (hiv : ∀ p ∈ q, p.1.isIv = false) :
    ∀ w ∈ D, ∃ p ∈ q, w = p.1 := by
  intro w hw
  obtain ⟨p, hp, hanc⟩ := (ancestralSet_spec g hg q D hD).1 w hw
  exact ⟨p, hp, ctfAnc_factorForm_self g p.1 w (hff p hp) (hself p hp) (hstar p hp) (hiv p hp) hanc⟩

/-- **an event of ctf-factor-form variables, one per graph vertex, is in the class of Algorithm 2's value theorem** -/
theorem ctfSoundClass_of_factorForm (g : MG Name) (hg : g.WF) (q : Event) (D : List Var)
    (hD : ancestralSet g q = .ok D)
    (hff : ∀ p ∈ q, ExactFactorForm g p.1) (hself : ∀ p ∈ q, p.1.name ∉ subNames p.1)
    (hcons : ∀ p ∈ q, ConsistentSubs p.1.ivs)
    (hstar : ∀ p ∈ q, p.1.star = none) (hiv : ∀ p ∈ q, p.1.isIv = false)
    (hone : ∀ p ∈ q, ∀ p' ∈ q, p.1.name = p'.1.name → p.1 = p'.1) :
    ctfSoundClass g q = .ok true := by
  have hmem := ancestralSet_factorForm g hg q D hD hff hself hstar hiv
  -- the names of `An(Y_*)` are names of the event
  have hnames : ∀ n, n ∈ D.map (·.name) → n ∈ q.map (·.1.name) := by
    intro n hn
    obtain ⟨w, hw, rfl⟩ := List.mem_map.1 hn
    obtain ⟨p, hp, rfl⟩ := hmem w hw
    exact List.mem_map.2 ⟨p, hp, rfl⟩
  have h1 : readableQuery q = true := by
    unfold readableQuery
    rw [List.all_eq_true]
    intro p hp
    simp only [Bool.and_eq_true, Bool.not_eq_eq_eq_not, Bool.not_true, List.any_eq_false, beq_iff_eq,
      List.all_eq_true, decide_eq_true_eq]
    refine ⟨fun i hi hin => hself p hp (List.mem_map.2 ⟨i, hi, hin⟩), fun i hi j hj hij => hcons p hp i hi j hj hij⟩
  have h2 : multiWorld D = false := by
    unfold multiWorld
    rw [List.any_eq_false]
    intro a ha
    simp only [Bool.not_eq_true]
    rw [List.any_eq_false]
    intro b hb
    simp only [decide_eq_true_eq, not_and, not_not]
    intro hab
    obtain ⟨p, hp, rfl⟩ := hmem a ha
    obtain ⟨p', hp', rfl⟩ := hmem b hb
    exact hone p hp p' hp' hab
  have h3 : literalBound q D = false := by
    unfold literalBound
    rw [List.any_eq_false]
    intro p _
    simp only [Bool.not_eq_true]
    rw [List.any_eq_false]
    intro i _
    simp only [Bool.and_eq_true, Bool.not_eq_eq_eq_not, Bool.not_true, decide_eq_true_eq, not_and, not_not]
    intro ⟨_, hin⟩
    exact hnames _ hin
  have h4 : outcomeParentValue g q D = false := by
    unfold outcomeParentValue
    rw [List.any_eq_false]
    intro w hw
    simp only [Bool.not_eq_true]
    rw [List.any_eq_false]
    intro a ha
    obtain ⟨p, hp, rfl⟩ := hmem w hw
    have hsub : a ∈ p.1.ivs.map (·.name) := (hff p hp a).2 ((mem_parents g a p.1.name).1 ha)
    simp only [Bool.and_eq_true, decide_eq_true_eq, not_and, Bool.not_eq_true]
    intro hno
    exact absurd hsub hno.1
  have h5 : starBound q D = false := by
    unfold starBound
    rw [List.any_eq_false]
    intro p _
    simp only [Bool.not_eq_true]
    rw [List.any_eq_false]
    intro i _
    simp only [Bool.and_eq_true, decide_eq_true_eq, not_and, not_not]
    intro ⟨_, hin⟩
    exact hnames _ hin
  unfold ctfSoundClass
  simp only [bind, Except.bind, hD, pure, Except.pure, h1, h2, h3, h4, h5]
  rfl

end Y0.CtfTr
