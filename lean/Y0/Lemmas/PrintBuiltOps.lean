/-
  Y0.Lemmas.PrintBuiltOps — the invariant the interpreter `PyEval.eval` carries along a construction tree that is
  `namesOnce`, and its preservation by every operator / builder the interpreter dispatches to (one lemma per branch
  of `unop`, `binop`, `callVal`, `subscript`).  `Y0.Lemmas.PrintBuiltEval` composes them by induction on the tree.
-/
import Y0.Lemmas.PrintNames

namespace Y0
namespace PyEval
open Print

section
variable (lt : Expr → Expr → Bool)

/-- what a value must satisfy for the builders that consume it to produce `built` objects -/
def KOk : Val → Prop
  | .expr e => built lt e = true
  | .tuple xs => xs ≠ []
  | .pBuilder pop ivs => canonPop pop = true ∧ ∀ h, ivs = some h → ((valVars h).map Var.name).Nodup
  | .sumPartial rs => incBy Var.name rs = true ∧ ∀ r ∈ rs, canonVar r = true
  | .qPartial cod => ∀ cs, hintVars cod = .ok cs → cs ≠ [] ∧ (cs.map Var.name).Nodup ∧ ∀ v ∈ cs, canonVar v = true
  | _ => True

/-- the variables of a value are canonical, have pairwise distinct names, and their names are written in the tree -/
def VOk (a : Ast) (v : Val) : Prop :=
  (∀ w ∈ valVars v, canonVar w = true) ∧ ((valVars v).map Var.name).Nodup ∧ ∀ x ∈ (valVars v).map Var.name, x ∈ names a

/-- **the interpreter's invariant** -/
def GoodV (a : Ast) (v : Val) : Prop := VOk a v ∧ KOk lt v

/-- … for argument lists -/
def LOk (as : List Ast) (vs : List Val) : Prop :=
  (∀ w ∈ argVars vs, canonVar w = true) ∧ ((namesL as).Nodup → ((argVars vs).map Var.name).Nodup) ∧
  (∀ x ∈ (argVars vs).map Var.name, x ∈ namesL as) ∧ (∀ v ∈ vs, KOk lt v) ∧ vs.length = as.length

end

/-! ### small facts -/

theorem vok_of_novars (a : Ast) (v : Val) (h : valVars v = []) : VOk a v := by
  unfold VOk; rw [h]; simp

theorem nodup_append_of_sub {l1 l2 m1 m2 : List Name} (h1 : l1.Nodup) (h2 : l2.Nodup) (s1 : ∀ x ∈ l1, x ∈ m1)
    (s2 : ∀ x ∈ l2, x ∈ m2) (hm : (m1 ++ m2).Nodup) : (l1 ++ l2).Nodup := by
  refine List.nodup_append.mpr ⟨h1, h2, ?_⟩
  intro a ha b hb
  exact (List.nodup_append.mp hm).2.2 a (s1 a ha) b (s2 b hb)

theorem hintVars_eq {h : Val} {is : List Var} (hh : hintVars h = .ok is) : is = valVars h := by
  cases h with
  | var v => simp only [hintVars, Except.ok.injEq] at hh; subst hh; rfl
  | tuple xs =>
    simp only [hintVars] at hh
    have := mapM_asVar_ok xs is hh
    subst this
    simp [valVars]
  | dist _ _ => simp [hintVars] at hh
  | expr _ => simp [hintVars] at hh
  | pBuilder _ _ => simp [hintVars] at hh
  | ppClass => simp [hintVars] at hh
  | sumClass => simp [hintVars] at hh
  | sumPartial _ => simp [hintVars] at hh
  | qClass => simp [hintVars] at hh
  | qPartial _ => simp [hintVars] at hh
  | oneClass => simp [hintVars] at hh
  | zeroClass => simp [hintVars] at hh

theorem hintVars_ne {lt : Expr → Expr → Bool} {h : Val} {cs : List Var} (hh : hintVars h = .ok cs) (hk : KOk lt h) :
    cs ≠ [] := by
  cases h with
  | var v => simp only [hintVars, Except.ok.injEq] at hh; subst hh; simp
  | tuple xs =>
    simp only [hintVars] at hh
    have := mapM_asVar_ok xs cs hh
    intro h0
    subst h0
    exact hk (by simpa using this)
  | dist _ _ => simp [hintVars] at hh
  | expr _ => simp [hintVars] at hh
  | pBuilder _ _ => simp [hintVars] at hh
  | ppClass => simp [hintVars] at hh
  | sumClass => simp [hintVars] at hh
  | sumPartial _ => simp [hintVars] at hh
  | qClass => simp [hintVars] at hh
  | qPartial _ => simp [hintVars] at hh
  | oneClass => simp [hintVars] at hh
  | zeroClass => simp [hintVars] at hh

theorem canonVar_plain (n : Name) : canonVar (Var.plain n) = true := rfl

theorem unopVar_name (op : UOp) (v : Var) : (unopVar op v).name = v.name := by
  by_cases he : v.ivs.isEmpty = true <;> simp [unopVar, he]

/-- the variables of a tuple are among the variables of its elements taken as an argument list -/
theorem tupleVars_sublist : ∀ vs : List Val, (valVars (.tuple vs)).Sublist (argVars vs)
  | [] => by simp [valVars, argVars]
  | v :: vs => by
    have ih := tupleVars_sublist vs
    have hcons : argVars (v :: vs) = valVars v ++ argVars vs := by simp [argVars]
    rw [hcons]
    by_cases hv : ∃ w, v = .var w
    · obtain ⟨w, rfl⟩ := hv
      have e : valVars (.tuple (Val.var w :: vs)) = w :: valVars (.tuple vs) := by simp [valVars]
      rw [e]
      exact List.Sublist.cons_cons w ih
    · have e : valVars (.tuple (v :: vs)) = valVars (.tuple vs) := by
        cases v <;> first | (exact absurd ⟨_, rfl⟩ hv) | simp [valVars]
      rw [e]
      exact ih.trans (List.sublist_append_right _ _)

section
variable (lt : Expr → Expr → Bool)

/-! ### unary operators, `@` -/

theorem good_unop (op : UOp) (a : Ast) (x v : Val) (hx : GoodV lt a x) (h : unop op x = .ok v) : GoodV lt (.un op a) v := by
  cases x with
  | var w =>
    simp only [unop, Except.ok.injEq] at h
    subst h
    obtain ⟨⟨hc, _, hs⟩, _⟩ := hx
    refine ⟨⟨?_, by simp [valVars], ?_⟩, trivial⟩
    · intro u hu
      simp only [valVars, List.mem_singleton] at hu
      subst hu
      exact canonVar_unop op w (hc w (by simp [valVars]))
    · intro x hx'
      simp only [valVars, List.map_cons, List.map_nil, List.mem_singleton] at hx'
      subst hx'
      rw [unopVar_name]
      simpa [names] using hs w.name (by simp [valVars])
  | dist _ _ => simp [unop] at h
  | expr _ => simp [unop] at h
  | tuple _ => simp [unop] at h
  | pBuilder _ _ => simp [unop] at h
  | ppClass => simp [unop] at h
  | sumClass => simp [unop] at h
  | sumPartial _ => simp [unop] at h
  | qClass => simp [unop] at h
  | qPartial _ => simp [unop] at h
  | oneClass => simp [unop] at h
  | zeroClass => simp [unop] at h

theorem built_prob_parts {pop : Option Var} {c p : List Var} (h : built lt (.prob pop c p) = true) :
    c ≠ [] ∧ incBy Var.name c = true ∧ incBy Var.name p = true ∧ (∀ v ∈ c ++ p, canonVar v = true) ∧ canonPop pop = true := by
  simp only [built, Bool.and_eq_true, Bool.not_eq_true', List.all_eq_true] at h
  obtain ⟨⟨⟨⟨⟨h1, h2⟩, h3⟩, h4⟩, h5⟩, h6⟩ := h
  refine ⟨by intro h0; simp [h0] at h1, h2, h3, ?_, h6⟩
  intro v hv
  rcases List.mem_append.mp hv with h | h
  · exact h4 v h
  · exact h5 v h

/-- `x @ r` on variables, distributions and probabilities -/
theorem good_matmul (l r : Ast) (a b v : Val) (ha : GoodV lt l a) (hb : GoodV lt r b)
    (h : binop lt .matmul a b = .ok v) : GoodV lt (.bin .matmul l r) v := by
  obtain ⟨⟨hca, hna, hsa⟩, hka⟩ := ha
  obtain ⟨⟨_, hnb, _⟩, _⟩ := hb
  cases a with
  | var w =>
    simp only [binop, bind, Except.bind] at h
    cases hh : hintVars b with
    | error e => simp [hh] at h
    | ok is =>
      have his : (is.map Var.name).Nodup := by rw [hintVars_eq hh]; exact hnb
      cases hv : varIntervene w is with
      | error e => simp [hh, hv] at h
      | ok r' =>
        simp only [hh, hv, pure, Except.pure, Except.ok.injEq] at h
        subst h
        obtain ⟨h1, h2⟩ := canonVar_varIntervene_gen w r' is (hca w (by simp [valVars])) his hv
        refine ⟨⟨?_, by simp [valVars], ?_⟩, trivial⟩
        · intro u hu
          simp only [valVars, List.mem_singleton] at hu
          subst hu; exact h1
        · intro x hx
          simp only [valVars, List.map_cons, List.map_nil, List.mem_singleton] at hx
          subst hx
          rw [h2]
          simpa [names] using hsa w.name (by simp [valVars])
  | dist c p =>
    simp only [binop, bind, Except.bind] at h
    cases hh : hintVars b with
    | error e => simp [hh] at h
    | ok is =>
      have his : (is.map Var.name).Nodup := by rw [hintVars_eq hh]; exact hnb
      cases hd : distIntervene c p is with
      | error e => simp [hh, hd] at h
      | ok d =>
        obtain ⟨c', p'⟩ := d
        simp only [hh, hd, pure, Except.pure, Except.ok.injEq] at h
        subst h
        obtain ⟨_, h2, h3, h4⟩ := distIntervene_ok c p is c' p' (by simpa [valVars] using hca) his hd
        have hnm : (c' ++ p').map Var.name = (c ++ p).map Var.name := by simp [h2, h3]
        refine ⟨⟨by simpa [valVars] using h4, ?_, ?_⟩, trivial⟩
        · simp only [valVars] at hna ⊢; rw [hnm]; exact hna
        · simp only [valVars] at hsa ⊢; rw [hnm]; simpa [names] using hsa
  | expr e =>
    cases e with
    | prob pop c p =>
      simp only [binop, bind, Except.bind] at h
      cases hh : hintVars b with
      | error e => simp [hh] at h
      | ok is =>
        have his : (is.map Var.name).Nodup := by rw [hintVars_eq hh]; exact hnb
        cases hd : distIntervene c p is with
        | error e => simp [hh, hd] at h
        | ok d =>
          obtain ⟨c', p'⟩ := d
          simp only [hh, hd, pure, Except.pure, Except.ok.injEq] at h
          subst h
          obtain ⟨g1, g2, g3, g4, g5⟩ := built_prob_parts lt hka
          obtain ⟨h1, h2, h3, h4⟩ := distIntervene_ok c p is c' p' g4 his hd
          exact ⟨vok_of_novars _ _ rfl,
            built_prob_of_distOk lt pop ⟨h1, incBy_of_names_eq h2 g2, incBy_of_names_eq h3 g3, h4⟩ g5⟩
    | prod _ => simp [binop] at h
    | sum _ _ => simp [binop] at h
    | frac _ _ => simp [binop] at h
    | one => simp [binop] at h
    | zero => simp [binop] at h
    | q _ _ => simp [binop] at h
  | tuple _ => simp [binop] at h
  | pBuilder _ _ => simp [binop] at h
  | ppClass => simp [binop] at h
  | sumClass => simp [binop] at h
  | sumPartial _ => simp [binop] at h
  | qClass => simp [binop] at h
  | qPartial _ => simp [binop] at h
  | oneClass => simp [binop] at h
  | zeroClass => simp [binop] at h

/-! ### `|` and `&` -/

theorem asDist_ok {w : String} {a : Val} {c p : List Var} (h : asDist w a = .ok (c, p)) : valVars a = c ++ p := by
  cases a <;> simp [asDist] at h
  · obtain ⟨rfl, rfl⟩ := h; rfl
  · obtain ⟨rfl, rfl⟩ := h; rfl

theorem mkDist_ok {c p : List Var} {d : List Var × List Var} (h : mkDist c p = .ok d) : d = (c, p) := by
  unfold mkDist at h
  split at h
  · cases h
  · cases h; rfl

/-- `a | b` -/
theorem good_bor (l r : Ast) (a b v : Val) (ha : GoodV lt l a) (hb : GoodV lt r b) (hn : (names l ++ names r).Nodup)
    (h : orOp a b = .ok v) : GoodV lt (.bin .bor l r) v := by
  obtain ⟨⟨hca, hna, hsa⟩, _⟩ := ha
  obtain ⟨⟨hcb, hnb, hsb⟩, _⟩ := hb
  unfold orOp at h
  cases hd : asDist "unsupported operand type(s) for |" a with
  | error e => simp [hd, bind, Except.bind] at h
  | ok cp =>
    obtain ⟨c, p⟩ := cp
    have hva := asDist_ok hd
    simp only [hd, bind, Except.bind] at h
    -- all variables of both operands: canonical, names pairwise distinct and written in the tree
    have hall : ∀ w ∈ valVars a ++ valVars b, canonVar w = true := by
      intro w hw
      rcases List.mem_append.mp hw with h1 | h1
      · exact hca w h1
      · exact hcb w h1
    have hnod : ((valVars a ++ valVars b).map Var.name).Nodup := by
      rw [List.map_append]; exact nodup_append_of_sub hna hnb hsa hsb hn
    have hsub : ∀ x ∈ (valVars a ++ valVars b).map Var.name, x ∈ names (.bin .bor l r) := by
      intro x hx
      rw [List.map_append] at hx
      simp only [names, List.mem_append]
      rcases List.mem_append.mp hx with h1 | h1
      · exact Or.inl (hsa x h1)
      · exact Or.inr (hsb x h1)
    by_cases hbd : ∃ c2 p2, b = .dist c2 p2
    · obtain ⟨c2, p2, rfl⟩ := hbd
      simp only at h
      split at h
      · cases h
      · rename_i hp2
        have hp2' : p2 = [] := by simpa using hp2
        subst hp2'
        cases hm : mkDist c (p ++ c2) with
        | error e => simp [hm] at h
        | ok d =>
          have := mkDist_ok hm; subst this
          simp only [hm, pure, Except.pure, Except.ok.injEq] at h
          subst h
          have e : valVars (.dist c (p ++ c2)) = valVars a ++ valVars (.dist c2 []) := by
            rw [hva]; simp [valVars]
          refine ⟨⟨?_, ?_, ?_⟩, trivial⟩
          · rw [e]; exact hall
          · rw [e]; exact hnod
          · rw [e]; exact hsub
    · have h' : (do let ps ← hintVars b; let d ← mkDist c (upgradeOrdering (p ++ ps)); pure (Val.dist d.1 d.2)) = Except.ok v := by
        cases b <;> first | (exact absurd ⟨_, _, rfl⟩ hbd) | exact h
      clear h
      cases hh : hintVars b with
      | error e => simp [hh, bind, Except.bind] at h'
      | ok ps =>
        have hps := hintVars_eq hh
        cases hm : mkDist c (upgradeOrdering (p ++ ps)) with
        | error e => simp [hh, hm, bind, Except.bind] at h'
        | ok d =>
          have := mkDist_ok hm; subst this
          simp only [hh, hm, bind, Except.bind, pure, Except.pure, Except.ok.injEq] at h'
          subst h'
          -- the parents are re-sorted: same members, names still distinct
          have hnod' : ((c ++ (p ++ ps)).map Var.name).Nodup := by
            rw [← List.append_assoc, ← hva, hps]; exact hnod
          have hpn : ((p ++ ps).map Var.name).Nodup := by
            rw [List.map_append] at hnod'
            exact (List.nodup_append.mp hnod').2.1
          obtain ⟨hupI, hupM⟩ := incBy_upgradeOrdering (p ++ ps) hpn
          have hmem : ∀ w, w ∈ c ++ upgradeOrdering (p ++ ps) ↔ w ∈ valVars a ++ valVars b := by
            intro w
            rw [hva, ← hps, List.append_assoc]
            simp only [List.mem_append, hupM w]
          refine ⟨⟨?_, ?_, ?_⟩, trivial⟩
          · intro w hw
            exact hall w ((hmem w).mp (by simpa [valVars] using hw))
          · simp only [valVars]
            exact nodup_swap_right (p ++ ps) _ c hupI hupM hnod'
          · intro x hx
            simp only [valVars] at hx
            obtain ⟨w, hw, rfl⟩ := List.mem_map.mp hx
            exact hsub _ (List.mem_map.mpr ⟨w, (hmem w).mp hw, rfl⟩)

/-- `a & b` -/
theorem good_band (l r : Ast) (a b v : Val) (ha : GoodV lt l a) (hb : GoodV lt r b) (hn : (names l ++ names r).Nodup)
    (h : andOp a b = .ok v) : GoodV lt (.bin .band l r) v := by
  obtain ⟨⟨hca, hna, hsa⟩, _⟩ := ha
  obtain ⟨⟨hcb, hnb, hsb⟩, _⟩ := hb
  unfold andOp at h
  cases hd : asDist "unsupported operand type(s) for &" a with
  | error e => simp [hd, bind, Except.bind] at h
  | ok cp =>
    obtain ⟨c, p⟩ := cp
    have hva := asDist_ok hd
    cases hh : hintVars b with
    | error e => simp [hd, hh, bind, Except.bind] at h
    | ok cs =>
      have hcs := hintVars_eq hh
      cases hm : mkDist (upgradeOrdering (c ++ cs)) p with
      | error e => simp [hd, hh, hm, bind, Except.bind] at h
      | ok d =>
        have := mkDist_ok hm; subst this
        simp only [hd, hh, hm, bind, Except.bind, pure, Except.pure, Except.ok.injEq] at h
        subst h
        have hall : ∀ w ∈ valVars a ++ valVars b, canonVar w = true := by
          intro w hw
          rcases List.mem_append.mp hw with h1 | h1
          · exact hca w h1
          · exact hcb w h1
        have hnod : ((valVars a ++ valVars b).map Var.name).Nodup := by
          rw [List.map_append]; exact nodup_append_of_sub hna hnb hsa hsb hn
        have hsub : ∀ x ∈ (valVars a ++ valVars b).map Var.name, x ∈ names (.bin .band l r) := by
          intro x hx
          rw [List.map_append] at hx
          simp only [names, List.mem_append]
          rcases List.mem_append.mp hx with h1 | h1
          · exact Or.inl (hsa x h1)
          · exact Or.inr (hsb x h1)
        -- (c ++ p) ++ cs  ~  (c ++ cs) ++ p
        have hnod' : (((c ++ cs) ++ p).map Var.name).Nodup := by
          have hperm : (((c ++ cs) ++ p).map Var.name).Perm (((c ++ p) ++ cs).map Var.name) := by
            apply List.Perm.map
            rw [List.append_assoc, List.append_assoc]
            exact List.Perm.append_left c List.perm_append_comm
          rw [hperm.nodup_iff, ← hva, hcs]; exact hnod
        have hcn : ((c ++ cs).map Var.name).Nodup := by
          rw [List.map_append] at hnod'
          exact (List.nodup_append.mp hnod').1
        obtain ⟨hupI, hupM⟩ := incBy_upgradeOrdering (c ++ cs) hcn
        have hmem : ∀ w, w ∈ upgradeOrdering (c ++ cs) ++ p ↔ w ∈ valVars a ++ valVars b := by
          intro w
          rw [hva, ← hcs]
          simp only [List.mem_append, hupM w]
          constructor
          · rintro ((h1 | h1) | h1)
            · exact Or.inl (Or.inl h1)
            · exact Or.inr h1
            · exact Or.inl (Or.inr h1)
          · rintro ((h1 | h1) | h1)
            · exact Or.inl (Or.inl h1)
            · exact Or.inr h1
            · exact Or.inl (Or.inr h1)
        refine ⟨⟨?_, ?_, ?_⟩, trivial⟩
        · intro w hw
          exact hall w ((hmem w).mp (by simpa [valVars] using hw))
        · simp only [valVars]
          exact nodup_swap_left (c ++ cs) _ p hupI hupM hnod'
        · intro x hx
          simp only [valVars] at hx
          obtain ⟨w, hw, rfl⟩ := List.mem_map.mp hx
          exact hsub _ (List.mem_map.mpr ⟨w, (hmem w).mp hw, rfl⟩)

/-! ### `*` and `/` -/

theorem goodv_mul (hasym : Asymm lt) (l r : Ast) (a b v : Val) (ha : GoodV lt l a) (hb : GoodV lt r b)
    (h : binop lt .mul a b = .ok v) : GoodV lt (.bin .mul l r) v := by
  cases a <;> cases b <;> simp only [binop, bind, Except.bind, reduceCtorEq] at h
  rename_i x y
  cases hm : mul lt x y with
  | error e => simp [hm] at h
  | ok c =>
    simp only [hm, pure, Except.pure, Except.ok.injEq] at h
    subst h
    exact ⟨vok_of_novars _ _ rfl, built_mul lt hasym x y c ha.2 hb.2 hm⟩

theorem goodv_div (hasym : Asymm lt) (l r : Ast) (a b v : Val) (ha : GoodV lt l a) (hb : GoodV lt r b)
    (h : binop lt .div a b = .ok v) : GoodV lt (.bin .div l r) v := by
  cases a <;> cases b <;> simp only [binop, bind, Except.bind, reduceCtorEq] at h
  rename_i x y
  cases hm : div lt x y with
  | error e => simp [hm] at h
  | ok c =>
    simp only [hm, pure, Except.pure, Except.ok.injEq] at h
    subst h
    exact ⟨vok_of_novars _ _ rfl, built_div lt hasym x y c ha.2 hb.2 hm⟩

/-! ### calls: `P(…)`, `PP[π](…)`, `Sum[…](…)`, `Q[…](…)`, `One()`, `Zero()` -/

/-- `P(…)`, `P[…](…)`, `PP[π](…)`, `PP[π][…](…)`: arguments canonical with pairwise distinct names, the `[…]` subscripts
with pairwise distinct names (they may repeat subscripts the variables already carry: `intervene` checks for overlap) -/
theorem built_probSafe_gen (pop : Option Var) (ivs : Option Val) (args : List Val) (v : Val)
    (hcanon : ∀ w ∈ argVars args, canonVar w = true) (hnod : ((argVars args).map Var.name).Nodup)
    (hpop : canonPop pop = true) (hivs : ∀ h, ivs = some h → ((valVars h).map Var.name).Nodup)
    (h : probSafe pop ivs args = .ok v) : ∃ e, v = .expr e ∧ built lt e = true := by
  unfold probSafe at h
  cases hd : distSafe args with
  | error err => simp [hd, bind, Except.bind] at h
  | ok cp =>
    obtain ⟨c, p⟩ := cp
    have hok := distOk_distSafe (fun v => canonVar v = true) args c p hcanon hnod hd
    cases ivs with
    | none =>
      simp only [hd, bind, Except.bind, pure, Except.pure, Except.ok.injEq] at h
      subst h
      exact ⟨_, rfl, built_prob_of_distOk lt pop hok hpop⟩
    | some hv =>
      simp only [hd, bind, Except.bind] at h
      cases hh : hintVars hv with
      | error e => simp [hh] at h
      | ok is =>
        have his : (is.map Var.name).Nodup := by rw [hintVars_eq hh]; exact hivs hv rfl
        cases hdi : distIntervene c p is with
        | error e => simp [hh, hdi] at h
        | ok d =>
          obtain ⟨c', p'⟩ := d
          simp only [hh, hdi, pure, Except.pure, Except.ok.injEq] at h
          subst h
          obtain ⟨g1, g2, g3, g4⟩ := hok
          obtain ⟨h1, h2, h3, h4⟩ := distIntervene_ok c p is c' p' g4 his hdi
          exact ⟨_, rfl, built_prob_of_distOk lt pop ⟨h1, incBy_of_names_eq h2 g2, incBy_of_names_eq h3 g3, h4⟩ hpop⟩

/-- `Sum[rs](e)` with canonical ranges: `Sum.safe` itself rejects ranges that are not plain variables -/
theorem built_sumSafe_canon (e c : Expr) (rs : List Var) (he : built lt e = true) (hinc : incBy Var.name rs = true)
    (hcanon : ∀ r ∈ rs, canonVar r = true) (hc : sumSafe e rs = .ok c) : built lt c = true := by
  by_cases hflag : rs.any (fun r => r.isIv || !r.ivs.isEmpty) = true
  · unfold sumSafe at hc
    rw [upgradeOrdering_fix hinc] at hc
    by_cases hemp : rs.isEmpty = true
    · simp only [hemp, if_true, Except.ok.injEq] at hc; subst hc; exact he
    · have hemp' : rs.isEmpty = false := by simpa using hemp
      simp only [hemp', Bool.false_eq_true, if_false] at hc
      by_cases hz : isZero e = true
      · simp only [hz, if_true, Except.ok.injEq] at hc; subst hc; exact he
      · have hz' : isZero e = false := by simpa using hz
        simp [hz', hflag] at hc
  · have hflag' : rs.any (fun r => r.isIv || !r.ivs.isEmpty) = false := by simpa using hflag
    rw [List.any_eq_false] at hflag'
    have hplain : rs.all plainVar = true := by
      rw [List.all_eq_true]
      intro r hr
      have h1 := hflag' r hr
      have h2 := hcanon r hr
      simp only [Bool.or_eq_true, Bool.not_eq_true', not_or, Bool.not_eq_true, Bool.not_eq_false] at h1
      unfold canonVar at h2
      simp only [h1.2, if_true, Bool.and_eq_true, beq_iff_eq, h1.1] at h2
      unfold plainVar
      have : r.star.isSome = false := h2.2.symm
      cases hs : r.star with
      | none => simp [h1.1, h1.2]
      | some b => rw [hs] at this; cases this
    exact built_sumSafe lt e c rs he hinc hplain hc

theorem qSafe_ok_parts {cod : Val} {args : List Val} {v : Val} (h : qSafe cod args = .ok v) (hk : ∀ x ∈ args, KOk lt x) :
    (∃ cs, hintVars cod = .ok cs) ∧ argVars args ≠ [] ∧ ∃ e, v = .expr e := by
  cases args with
  | nil => simp [qSafe] at h
  | cons a rest =>
    cases a with
    | var w =>
      simp only [qSafe] at h
      cases hm : rest.mapM asVar with
      | error err => simp [hm, bind, Except.bind] at h
      | ok rs =>
        cases hh : hintVars cod with
        | error err => simp [hm, hh, bind, Except.bind] at h
        | ok cs =>
          simp only [hm, hh, bind, Except.bind, pure, Except.pure, Except.ok.injEq] at h
          exact ⟨⟨cs, rfl⟩, by simp [argVars, valVars], ⟨_, h.symm⟩⟩
    | tuple xs =>
      simp only [qSafe] at h
      split at h
      · cases h
      · rename_i hr
        have hrest : rest = [] := by simpa using hr
        subst hrest
        cases hm : xs.mapM asVar with
        | error err => simp [hm, bind, Except.bind] at h
        | ok ds =>
          cases hh : hintVars cod with
          | error err => simp [hm, hh, bind, Except.bind] at h
          | ok cs =>
            simp only [hm, hh, bind, Except.bind, pure, Except.pure, Except.ok.injEq] at h
            refine ⟨⟨cs, rfl⟩, ?_, ⟨_, h.symm⟩⟩
            have hxs := mapM_asVar_ok xs ds hm
            have hne : xs ≠ [] := hk (.tuple xs) (by simp)
            have hav : argVars [Val.tuple xs] = ds := by
              simp [argVars, valVars, hxs]
            rw [hav]
            intro h0
            subst h0
            exact hne (by simpa using hxs)
    | dist _ _ => simp [qSafe] at h
    | expr _ => simp [qSafe] at h
    | pBuilder _ _ => simp [qSafe] at h
    | ppClass => simp [qSafe] at h
    | sumClass => simp [qSafe] at h
    | sumPartial _ => simp [qSafe] at h
    | qClass => simp [qSafe] at h
    | qPartial _ => simp [qSafe] at h
    | oneClass => simp [qSafe] at h
    | zeroClass => simp [qSafe] at h

/-- `f(args…)` -/
theorem good_call (f : Ast) (args : List Ast) (fv : Val) (as : List Val) (v : Val) (hf : KOk lt fv) (hl : LOk lt args as)
    (hn : (namesL args).Nodup) (h : callVal fv as = .ok v) : GoodV lt (.call f args) v := by
  obtain ⟨hcanon, hnod0, hsubn, hks, hlen⟩ := hl
  have hnod := hnod0 hn
  cases fv with
  | pBuilder pop ivs =>
    simp only [callVal] at h
    obtain ⟨e, rfl, hb⟩ := built_probSafe_gen lt pop ivs as v hcanon hnod hf.1 hf.2 h
    exact ⟨vok_of_novars _ _ rfl, hb⟩
  | ppClass =>
    simp only [callVal] at h
    split at h
    · rename_i w
      cases h
      refine ⟨vok_of_novars _ _ rfl, ?_, fun h e => by cases e⟩
      exact hcanon w (by simp [argVars, valVars])
    · cases h
    · cases h
  | sumPartial rs =>
    simp only [callVal] at h
    split at h
    · rename_i e
      cases hs : sumSafe e rs with
      | error err => simp [hs, bind, Except.bind] at h
      | ok c =>
        simp only [hs, bind, Except.bind, pure, Except.pure, Except.ok.injEq] at h
        subst h
        have he : built lt e = true := hks (.expr e) (by simp)
        exact ⟨vok_of_novars _ _ rfl, built_sumSafe_canon lt e c rs he hf.1 hf.2 hs⟩
    · cases h
    · cases h
  | qPartial cod =>
    simp only [callVal] at h
    obtain ⟨⟨cs, hcs⟩, hane, e, rfl⟩ := qSafe_ok_parts lt h hks
    obtain ⟨g1, g2, g3⟩ := hf cs hcs
    exact ⟨vok_of_novars _ _ rfl, built_qSafe lt cod as cs e hcs g1 g2 g3 hcanon hnod hane h⟩
  | oneClass =>
    simp only [callVal] at h
    split at h
    · cases h; exact ⟨vok_of_novars _ _ rfl, rfl⟩
    · cases h
  | zeroClass =>
    simp only [callVal] at h
    split at h
    · cases h; exact ⟨vok_of_novars _ _ rfl, rfl⟩
    · cases h
  | sumClass => simp [callVal] at h
  | qClass => simp [callVal] at h
  | var _ => simp [callVal] at h
  | dist _ _ => simp [callVal] at h
  | expr _ => simp [callVal] at h
  | tuple _ => simp [callVal] at h

/-- `f[i]` -/
theorem good_subscript (f i : Ast) (fv iv v : Val) (hf : KOk lt fv) (hi : GoodV lt i iv)
    (h : subscript fv iv = .ok v) : GoodV lt (.sub f i) v := by
  obtain ⟨⟨hci, hni, hsi⟩, hki⟩ := hi
  cases fv with
  | pBuilder pop ivs =>
    cases ivs with
    | none =>
      simp only [subscript, Except.ok.injEq] at h
      subst h
      exact ⟨vok_of_novars _ _ rfl, hf.1, fun h e => by cases e; exact hni⟩
    | some _ => simp [subscript] at h
  | ppClass =>
    simp only [subscript] at h
    split at h
    · rename_i w
      cases h
      exact ⟨vok_of_novars _ _ rfl, hci w (by simp [valVars]), fun h e => by cases e⟩
    · cases h
  | sumClass =>
    simp only [subscript, bind, Except.bind] at h
    cases hh : hintVars iv with
    | error e => simp [hh] at h
    | ok is =>
      simp only [hh, pure, Except.pure, Except.ok.injEq] at h
      subst h
      have his := hintVars_eq hh
      obtain ⟨hupI, hupM⟩ := incBy_upgradeOrdering is (by rw [his]; exact hni)
      exact ⟨vok_of_novars _ _ rfl, hupI, fun r hr => hci r (by rw [← his]; exact (hupM r).mp hr)⟩
  | qClass =>
    simp only [subscript, Except.ok.injEq] at h
    subst h
    refine ⟨vok_of_novars _ _ rfl, fun cs hcs => ⟨hintVars_ne hcs hki, ?_, ?_⟩⟩
    · rw [hintVars_eq hcs]; exact hni
    · rw [hintVars_eq hcs]; exact hci
  | sumPartial _ => simp [subscript] at h
  | qPartial _ => simp [subscript] at h
  | oneClass => simp [subscript] at h
  | zeroClass => simp [subscript] at h
  | var _ => simp [subscript] at h
  | dist _ _ => simp [subscript] at h
  | expr _ => simp [subscript] at h
  | tuple _ => simp [subscript] at h

end

end PyEval
end Y0
