/-
  Y0.Lemmas.CtfSimplifyRefl — the combinatorial content of `simplifyCore` (Y0.Model.CtfSimplify) on ALL minimised
  events, self-intervened variables `Y_y` included: SIMPLIFY files the values of `Y_y` under the key `Y`
  (`_reduce_reflexive_counterfactual_variables_to_interventions`), i.e. it reads the item `(Y_y, y)` as `(Y, y)`, and
  answers `None` when a self-intervened variable is bound to a value other than its own subscript.
-/
import Y0.Lemmas.CtfSimplify

namespace Y0.Ctf

/-- the key under which SIMPLIFY files an item: a self-intervened variable `Y_y` goes to `Y` -/
def rkey (k : Var) : Var := if selfIntervened k then k.base else k

/-- the event as SIMPLIFY reads it -/
def rd (me : Event) : Event := me.map (fun p => (rkey p.1, p.2))

theorem selfIntervened_isCf (k : Var) (h : selfIntervened k = true) : k.isCf = true := by
  unfold selfIntervened at h
  simp only [List.any_eq_true] at h
  obtain ⟨i, hi, _⟩ := h
  simp only [Var.isCf, Bool.not_eq_eq_eq_not, Bool.not_true, List.isEmpty_eq_false_iff]
  exact List.ne_nil_of_mem hi

theorem splitReflexive_mem (me : Event) :
    (∀ p, p ∈ (splitReflexive me).1 ↔ p ∈ me ∧ (selfIntervened p.1 = true ∨ p.1.isCf = false)) ∧
    (∀ p, p ∈ (splitReflexive me).2 ↔ p ∈ me ∧ p.1.isCf = true ∧ selfIntervened p.1 = false) := by
  unfold splitReflexive
  constructor
  · intro p
    simp only [List.mem_filter, Bool.or_eq_true, Bool.and_eq_true, Bool.not_eq_eq_eq_not, Bool.not_true]
    constructor
    · rintro ⟨hp, (⟨_, hs⟩ | hc)⟩
      · exact ⟨hp, Or.inl hs⟩
      · exact ⟨hp, Or.inr hc⟩
    · rintro ⟨hp, (hs | hc)⟩
      · exact ⟨hp, Or.inl ⟨selfIntervened_isCf _ hs, hs⟩⟩
      · exact ⟨hp, Or.inr hc⟩
  · intro p
    simp only [List.mem_filter, Bool.and_eq_true, Bool.not_eq_eq_eq_not, Bool.not_true]

/-! ### `_reduce_reflexive_…` with counterfactual keys -/

/-- the key of the reduced dictionary -/
def bkey (k : Var) : Var := if k.isCf then k.base else k

/-- the pure fold computed by `_reduce_reflexive_…` when every counterfactual key is `Y_y` with a single subscript -/
def reduceGen (m : VMap) (r : VMap) : VMap := m.foldl (fun r p => VMap.update r (bkey p.1) p.2) r

theorem reduceReflexive_gen_aux (m : VMap) (r : VMap)
    (h : ∀ p ∈ m, p.1.isCf = true → p.1.ivs.length = 1 ∧ checkNonreflexive p.1 = false) :
    m.foldlM (fun r p =>
      if !p.1.isCf then (pure (VMap.update r p.1 p.2) : Except Err VMap)
      else if p.1.ivs.length ≠ 1 then throw (.invalidInput "ValueError")
      else if checkNonreflexive p.1 then throw (.invalidInput "ValueError")
      else pure (VMap.update r p.1.base p.2)) r = .ok (reduceGen m r) := by
  induction m generalizing r with
  | nil => rfl
  | cons p m ih =>
    simp only [List.foldlM_cons, reduceGen, List.foldl_cons]
    by_cases hcf : p.1.isCf = true
    · obtain ⟨h1, h2⟩ := h p (by simp) hcf
      simp only [hcf, Bool.not_true, Bool.false_eq_true, ↓reduceIte, h1, ne_eq, not_true_eq_false, h2, bind,
        Except.bind, pure, Except.pure, bkey]
      exact ih _ (fun q hq => h q (by simp [hq]))
    · have hcf' : p.1.isCf = false := by simpa using hcf
      simp only [hcf', Bool.not_false, ↓reduceIte, bind, Except.bind, pure, Except.pure, bkey, Bool.false_eq_true]
      exact ih _ (fun q hq => h q (by simp [hq]))

theorem reduceReflexive_gen (m : VMap)
    (h : ∀ p ∈ m, p.1.isCf = true → p.1.ivs.length = 1 ∧ checkNonreflexive p.1 = false) :
    reduceReflexive m = .ok (reduceGen m []) := reduceReflexive_gen_aux m [] h

theorem reduceGen_has (m r : VMap) (k : Var) (x : Val) :
    (reduceGen m r).Has k x ↔ r.Has k x ∨ ∃ p ∈ m, bkey p.1 = k ∧ x ∈ p.2 := by
  unfold reduceGen
  induction m generalizing r with
  | nil => simp
  | cons p m ih =>
    simp only [List.foldl_cons, ih, VMap.has_update, List.mem_cons, exists_eq_or_imp]
    constructor
    · rintro ((h | ⟨rfl, h⟩) | h)
      · exact Or.inl h
      · exact Or.inr (Or.inl ⟨rfl, h⟩)
      · exact Or.inr (Or.inr h)
    · rintro (h | ⟨rfl, h⟩ | h)
      · exact Or.inl (Or.inl h)
      · exact Or.inl (Or.inr ⟨rfl, h⟩)
      · exact Or.inr h

theorem reduceGen_nodup (m r : VMap) (h : r.NodupVals) : (reduceGen m r).NodupVals := by
  unfold reduceGen
  induction m generalizing r with
  | nil => exact h
  | cons p m ih => exact ih _ (VMap.nodup_update r _ p.2 h)

theorem reduceGen_key (m r : VMap) (p : Var × List Val) (hp : p ∈ reduceGen m r) :
    (∃ q ∈ r, q.1 = p.1) ∨ ∃ q ∈ m, bkey q.1 = p.1 := by
  unfold reduceGen at hp
  induction m generalizing r with
  | nil => exact Or.inl ⟨p, hp, rfl⟩
  | cons a m ih =>
    simp only [List.foldl_cons] at hp
    rcases ih _ hp with ⟨q, hq, hk⟩ | ⟨q, hq, hk⟩
    · rcases VMap.key_update r _ a.2 q hq with h | ⟨q', hq', hk'⟩
      · exact Or.inr ⟨a, by simp, by rw [← hk, h]⟩
      · exact Or.inl ⟨q', hq', by rw [hk', hk]⟩
    · exact Or.inr ⟨q, by simp [hq], hk⟩

theorem bkey_not_cf (k : Var) : (bkey k).isCf = false := by
  unfold bkey
  split
  · rfl
  · rename_i h; simpa using h

/-! ### the consistency check with counterfactual keys in the reflexive dictionary -/

theorem valSetEq_singleton (i : Iv) (vals : List Val) :
    valSetEq [some i] vals = true ↔ some i ∈ vals ∧ ∀ x ∈ vals, x = some i := by
  simp [valSetEq, seteq', subset']

theorem anyInconsistent_true_gen (n r : VMap) (h : anyInconsistent n r = .ok true) :
    (∃ p ∈ n, p.2.length > 1 ∧ mem' none p.2 = false) ∨
    (∃ p ∈ r, p.1.isCf = false ∧ p.2.length > 1 ∧ mem' none p.2 = false) ∨
    (∃ p ∈ r, p.1.isCf = true ∧ mem' none p.2 = false ∧ ∃ i ∈ p.1.ivs, valSetEq [some i] p.2 = false) := by
  unfold anyInconsistent at h
  split at h
  · cases h
  · rename_i hA
    simp only [Bool.or_eq_true, List.any_eq_true, Bool.and_eq_true, decide_eq_true_eq, Bool.not_eq_eq_eq_not,
      Bool.not_true, not_or, not_exists, not_and] at hA
    split at h
    · rename_i hB
      simp only [List.any_eq_true, decide_eq_true_eq] at hB
      obtain ⟨p, hp, hlen⟩ := hB
      left
      refine ⟨p, hp, hlen, ?_⟩
      by_contra hnone
      have hnone : mem' none p.2 = true := by simpa using hnone
      exact hA.1 p hp hlen hnone
    · split at h
      · cases h
      · rename_i hC
        simp only [List.any_eq_true, Bool.and_eq_true, not_exists, not_and, Bool.not_eq_true] at hC
        simp only [Except.ok.injEq, List.any_eq_true, Bool.or_eq_true, Bool.and_eq_true, Bool.not_eq_eq_eq_not,
          Bool.not_true, decide_eq_true_eq] at h
        obtain ⟨p, hp, hcase | hcase⟩ := h
        · right; left
          refine ⟨p, hp, hcase.1, hcase.2, ?_⟩
          by_contra hnone
          have hnone : mem' none p.2 = true := by simpa using hnone
          have := hA.2 p hp ⟨hnone, hcase.1⟩
          omega
        · right; right
          obtain ⟨hcf, i, hi, hv⟩ := hcase
          refine ⟨p, hp, hcf, ?_, i, hi, hv⟩
          by_contra hnone
          have hnone : mem' none p.2 = true := by simpa using hnone
          have := hC p hp hnone
          rw [hcf] at this; cases this

theorem anyInconsistent_false_gen (n r : VMap) (h : anyInconsistent n r = .ok false) :
    (∀ p ∈ n, p.2.length ≤ 1) ∧ (∀ p ∈ r, p.1.isCf = false → p.2.length ≤ 1) ∧
    (∀ p ∈ r, p.1.isCf = true → ∀ i ∈ p.1.ivs, valSetEq [some i] p.2 = true) := by
  unfold anyInconsistent at h
  split at h
  · cases h
  · split at h
    · cases h
    · rename_i hB
      simp only [List.any_eq_true, decide_eq_true_eq, not_exists, not_and] at hB
      split at h
      · cases h
      · simp only [Except.ok.injEq, List.any_eq_false, Bool.or_eq_true, Bool.and_eq_true, Bool.not_eq_eq_eq_not,
          Bool.not_true, decide_eq_true_eq, not_or, not_and] at h
        refine ⟨fun p hp => by have := hB p hp; omega, fun p hp hcf => by have := (h p hp).1 hcf; omega,
          fun p hp hcf i hi => ?_⟩
        have := (h p hp).2 hcf
        simp only [List.any_eq_true, not_exists, not_and, Bool.not_eq_true] at this
        simpa using this i hi

/-! ### value sets are never empty -/

theorem VMap.nonempty_add (m : VMap) (k : Var) (x : Val) (h : ∀ p ∈ m, p.2 ≠ []) :
    ∀ p ∈ VMap.add m k x, p.2 ≠ [] := by
  unfold VMap.add
  split
  · intro p hp
    simp only [List.mem_map] at hp
    obtain ⟨q, hq, rfl⟩ := hp
    split
    · simp only
      split
      · exact h q hq
      · simp
    · exact h q hq
  · intro p hp
    simp only [List.mem_append, List.mem_singleton] at hp
    rcases hp with hp | rfl
    · exact h p hp
    · simp

theorem removeRepeated_nonempty (E : Event) : ∀ p ∈ removeRepeated E, p.2 ≠ [] := by
  have hfold : ∀ (E : Event) (m : VMap), (∀ p ∈ m, p.2 ≠ []) →
      ∀ p ∈ E.foldl (fun m p => VMap.add m p.1 p.2) m, p.2 ≠ [] := by
    intro E
    induction E with
    | nil => intro m h; exact h
    | cons a E ih => intro m h; exact ih _ (VMap.nonempty_add m a.1 a.2 h)
  unfold removeRepeated
  simp only
  intro p hp
  simp only [List.mem_map] at hp
  obtain ⟨q, hq, rfl⟩ := hp
  have hne := hfold E [] (by intro p hp; cases hp) q hq
  have hnd : q.2.Nodup := VMap.nodup_foldl_add E [] (by intro p hp; cases hp) q hq
  split
  · rename_i hc
    simp only [Bool.and_eq_true, decide_eq_true_eq] at hc
    obtain ⟨x, y, hx, hy, hxy⟩ := two_of_length q.2 hnd hc.1
    simp only
    intro hnil
    by_cases hxn : x = none
    · have hyn : y ≠ none := fun h => hxy (by rw [hxn, h])
      have : y ∈ q.2.filter (fun x => decide (x ≠ none)) := List.mem_filter.2 ⟨hy, by simpa using hyn⟩
      rw [hnil] at this; cases this
    · have : x ∈ q.2.filter (fun x => decide (x ≠ none)) := List.mem_filter.2 ⟨hx, by simpa using hxn⟩
      rw [hnil] at this; cases this
  · exact hne

theorem bkey_eq_rkey (k : Var) (h : selfIntervened k = true ∨ k.isCf = false) : bkey k = rkey k := by
  unfold bkey rkey
  rcases h with h | h
  · simp [h, selfIntervened_isCf k h]
  · have hs : selfIntervened k = false := by
      by_contra hn
      have := selfIntervened_isCf k (by simpa using hn)
      rw [h] at this; cases this
    simp [h, hs]

theorem rkey_nonrefl (k : Var) (h : selfIntervened k = false) : rkey k = k := by simp [rkey, h]

theorem mem_rd (me : Event) (k : Var) (x : Val) : (k, x) ∈ rd me ↔ ∃ p ∈ me, rkey p.1 = k ∧ p.2 = x := by
  unfold rd
  simp only [List.mem_map, Prod.mk.injEq]

/-- two different proper values in a duplicate-free value list without `None` -/
theorem two_proper (vals : List Val) (hn : vals.Nodup) (hl : vals.length > 1) (hnone : mem' none vals = false) :
    ∃ i j, i ≠ j ∧ some i ∈ vals ∧ some j ∈ vals := by
  obtain ⟨x, y, hx, hy, hxy⟩ := two_of_length vals hn hl
  have hnn : ∀ z, z ∈ vals → ∃ i, z = some i := by
    intro z hz
    cases z with
    | none => exact absurd ((mem'_iff _ _).2 hz) (by simp [hnone])
    | some i => exact ⟨i, rfl⟩
  obtain ⟨i, rfl⟩ := hnn x hx
  obtain ⟨j, rfl⟩ := hnn y hy
  exact ⟨i, j, fun h => hxy (by rw [h]), hx, hy⟩

/-- **combinatorial core of SIMPLIFY, all minimised events.**  SIMPLIFY reads the item `(Y_y, x)` as `(Y, x)` (`rd`):
`None` is answered only when a self-intervened variable is bound to a value other than its own subscript, or when the
event so read binds some variable to two different proper values; a returned event binds exactly the proper
(variable, value) pairs of the event so read, and then every self-intervened variable is bound to its own subscript. -/
theorem simplifyCore_spec_gen (me : Event)
    (hone : ∀ p ∈ me, selfIntervened p.1 = true → ∃ j, p.1.ivs = [j]) :
    (simplifyCore me = .ok none →
      (∃ p ∈ me, selfIntervened p.1 = true ∧ ∃ i j, p.2 = some i ∧ p.1.ivs = [j] ∧ i ≠ j) ∨
      (∃ k i j, i ≠ j ∧ (k, some i) ∈ rd me ∧ (k, some j) ∈ rd me)) ∧
    (∀ e', simplifyCore me = .ok (some e') →
      (∀ p ∈ me, selfIntervened p.1 = true → ∀ i, p.2 = some i → p.1.ivs = [i]) ∧
      ∀ k i, (k, some i) ∈ e' ↔ (k, some i) ∈ rd me) := by
  obtain ⟨hsplit₁, hsplit₂⟩ := splitReflexive_mem me
  -- the two dictionaries
  have hRkey : ∀ p ∈ removeRepeated (splitReflexive me).1,
      ∃ q ∈ me, q.1 = p.1 ∧ (selfIntervened p.1 = true ∨ p.1.isCf = false) := by
    intro p hp
    obtain ⟨q, hq, hk⟩ := removeRepeated_key _ p hp
    obtain ⟨hqm, hq'⟩ := (hsplit₁ q).1 hq
    exact ⟨q, hqm, hk, by rw [← hk]; exact hq'⟩
  have hRcf : ∀ p ∈ removeRepeated (splitReflexive me).1, p.1.isCf = true →
      selfIntervened p.1 = true ∧ ∃ j, p.1.ivs = [j] := by
    intro p hp hcf
    obtain ⟨q, hqm, hk, hcase⟩ := hRkey p hp
    have hs : selfIntervened p.1 = true := by
      rcases hcase with h | h
      · exact h
      · rw [hcf] at h; cases h
    refine ⟨hs, ?_⟩
    rw [← hk] at hs ⊢
    exact hone q hqm hs
  have hred : reduceReflexive (removeRepeated (splitReflexive me).1) =
      .ok (reduceGen (removeRepeated (splitReflexive me).1) []) := by
    apply reduceReflexive_gen
    intro p hp hcf
    obtain ⟨hs, j, hj⟩ := hRcf p hp hcf
    refine ⟨by rw [hj]; rfl, ?_⟩
    unfold selfIntervened at hs
    unfold checkNonreflexive
    rw [hj] at hs ⊢
    simpa using hs
  have hnodn := removeRepeated_nodup (splitReflexive me).2
  have hnodr := removeRepeated_nodup (splitReflexive me).1
  have hnodr' : (dropNone (reduceGen (removeRepeated (splitReflexive me).1) [])).NodupVals :=
    dropNone_nodup _ (reduceGen_nodup _ _ (by intro p hp; cases hp))
  have hredkeys : ∀ p ∈ dropNone (reduceGen (removeRepeated (splitReflexive me).1) []), p.1.isCf = false := by
    intro p hp
    obtain ⟨p', hp', hk'⟩ := dropNone_key _ p hp
    rw [← hk']
    rcases reduceGen_key _ _ p' hp' with ⟨q, hq, _⟩ | ⟨q, _, hk⟩
    · cases hq
    · rw [← hk]; exact bkey_not_cf _
  -- where the bindings come from
  have inN : ∀ k x, (removeRepeated (splitReflexive me).2).Has k x → (k, x) ∈ rd me := by
    intro k x hh
    obtain ⟨hm, _, hs⟩ := (hsplit₂ _).1 (removeRepeated_has _ k x hh)
    exact (mem_rd me k x).2 ⟨(k, x), hm, rkey_nonrefl k hs, rfl⟩
  have inR : ∀ k x, (removeRepeated (splitReflexive me).1).Has k x → (k, x) ∈ me ∧ bkey k = rkey k := by
    intro k x hh
    obtain ⟨hm, hcase⟩ := (hsplit₁ _).1 (removeRepeated_has _ k x hh)
    exact ⟨hm, bkey_eq_rkey k hcase⟩
  have inR' : ∀ k x, (dropNone (reduceGen (removeRepeated (splitReflexive me).1) [])).Has k x → (k, x) ∈ rd me := by
    intro k x hh
    rcases (reduceGen_has _ _ k x).1 (dropNone_has _ k x hh) with h | ⟨p, hp, hk, hx⟩
    · exact absurd h (VMap.has_nil _ _)
    · obtain ⟨hm, hbk⟩ := inR p.1 x ⟨p.2, hp, hx⟩
      exact (mem_rd me k x).2 ⟨(p.1, x), hm, by rw [← hbk]; exact hk, rfl⟩
  unfold simplifyCore
  simp only [bind, Except.bind]
  cases h1 : anyInconsistent (removeRepeated (splitReflexive me).2) (removeRepeated (splitReflexive me).1) with
  | error e => simp
  | ok b1 =>
    cases b1 with
    | true =>
      simp only [↓reduceIte, pure, Except.pure, Except.ok.injEq, reduceCtorEq, false_implies, implies_true,
        and_true, true_implies]
      rcases anyInconsistent_true_gen _ _ h1 with ⟨p, hp, hlen, hnone⟩ | ⟨p, hp, _, hlen, hnone⟩ |
        ⟨p, hp, hcf, hnone, i, hi, hv⟩
      · obtain ⟨i, j, hij, hi, hj⟩ := two_proper p.2 (hnodn p hp) hlen hnone
        exact Or.inr ⟨p.1, i, j, hij, inN _ _ ⟨p.2, hp, hi⟩, inN _ _ ⟨p.2, hp, hj⟩⟩
      · obtain ⟨i, j, hij, hi, hj⟩ := two_proper p.2 (hnodr p hp) hlen hnone
        obtain ⟨hmi, hbk⟩ := inR p.1 (some i) ⟨p.2, hp, hi⟩
        obtain ⟨hmj, _⟩ := inR p.1 (some j) ⟨p.2, hp, hj⟩
        exact Or.inr ⟨rkey p.1, i, j, hij, (mem_rd me _ _).2 ⟨(p.1, some i), hmi, rfl, rfl⟩,
          (mem_rd me _ _).2 ⟨(p.1, some j), hmj, rfl, rfl⟩⟩
      · -- a self-intervened variable bound to something else than its subscript
        left
        obtain ⟨hs, j, hj⟩ := hRcf p hp hcf
        rw [hj] at hi
        simp only [List.mem_singleton] at hi
        subst hi
        have hne := removeRepeated_nonempty _ p hp
        have hex : ∃ x ∈ p.2, x ≠ some i := by
          by_contra hall
          simp only [not_exists, not_and, not_not] at hall
          obtain ⟨x, hx⟩ := List.exists_mem_of_ne_nil _ hne
          have : valSetEq [some i] p.2 = true :=
            (valSetEq_singleton i p.2).2 ⟨by rw [← hall x hx]; exact hx, hall⟩
          rw [this] at hv; cases hv
        obtain ⟨x, hx, hxi⟩ := hex
        cases x with
        | none => exact absurd ((mem'_iff _ _).2 hx) (by simp [hnone])
        | some i' =>
          obtain ⟨hm, _⟩ := inR p.1 (some i') ⟨p.2, hp, hx⟩
          exact ⟨(p.1, some i'), hm, hs, i', i, rfl, hj, fun h => hxi (by rw [h])⟩
    | false =>
      simp only [Bool.false_eq_true, ↓reduceIte, hred]
      obtain ⟨hlenN, _, hcfR⟩ := anyInconsistent_false_gen _ _ h1
      have hown : ∀ p ∈ me, selfIntervened p.1 = true → ∀ i, p.2 = some i → p.1.ivs = [i] := by
        rintro ⟨k, x⟩ hp hs i hi
        simp only at hs hi
        subst hi
        obtain ⟨vals, hpv, hx⟩ := (removeRepeated_has_some _ k i).2
          ((hsplit₁ (k, some i)).2 ⟨hp, Or.inl hs⟩)
        obtain ⟨j, hj⟩ := hone (k, some i) hp hs
        have := (valSetEq_singleton j vals).1 (hcfR (k, vals) hpv (selfIntervened_isCf k hs) j (by rw [hj]; simp))
        have hij : some i = some j := this.2 _ hx
        simp only [Option.some.injEq] at hij
        show k.ivs = [i]
        rw [hj, hij]
      cases h2 : anyInconsistent (removeRepeated (splitReflexive me).2)
          (dropNone (reduceGen (removeRepeated (splitReflexive me).1) [])) with
      | error e => simp
      | ok b2 =>
        cases b2 with
        | true =>
          simp only [↓reduceIte, pure, Except.pure, Except.ok.injEq, reduceCtorEq, false_implies, implies_true,
            and_true, true_implies]
          obtain ⟨k, i, j, hij, hcase⟩ := conflict_of_inconsistent _ _ hredkeys hnodn hnodr' h2
          rcases hcase with ⟨hi, hj⟩ | ⟨hi, hj⟩
          · exact Or.inr ⟨k, i, j, hij, inN _ _ hi, inN _ _ hj⟩
          · exact Or.inr ⟨k, i, j, hij, inR' _ _ hi, inR' _ _ hj⟩
        | false =>
          simp only [Bool.false_eq_true, ↓reduceIte]
          have hlen := anyInconsistent_false _ _ hredkeys h2
          cases ha : popAll (removeRepeated (splitReflexive me).2) with
          | error e => simp
          | ok a =>
            cases hb : popAll (dropNone (reduceGen (removeRepeated (splitReflexive me).1) [])) with
            | error e => simp
            | ok b =>
              simp only [pure, Except.pure, Except.ok.injEq, reduceCtorEq, false_implies, Option.some.injEq,
                true_and]
              intro e' he'
              subst he'
              refine ⟨hown, fun k i => ?_⟩
              rw [List.mem_append, popAll_ok _ _ ha, popAll_ok _ _ hb]
              constructor
              · rintro (⟨rest, hp⟩ | ⟨rest, hp⟩)
                · exact inN _ _ ⟨_, hp, by simp⟩
                · exact inR' _ _ ⟨_, hp, by simp⟩
              · intro hmem
                obtain ⟨p, hp, hk, hx⟩ := (mem_rd me k (some i)).1 hmem
                by_cases hnr : p.1.isCf = true ∧ selfIntervened p.1 = false
                · left
                  have hkk : p.1 = k := by rw [← hk, rkey_nonrefl _ hnr.2]
                  have hin : (k, some i) ∈ (splitReflexive me).2 := by
                    apply (hsplit₂ (k, some i)).2
                    rw [← hkk]
                    refine ⟨?_, hnr.1, hnr.2⟩
                    rw [← hx]; exact hp
                  obtain ⟨vals, hpv, hxv⟩ := (removeRepeated_has_some _ k i).2 hin
                  have := singleton_of_length vals (some i) hxv (hlen _ (Or.inl hpv))
                  subst this
                  exact ⟨[], hpv⟩
                · right
                  have hcase : selfIntervened p.1 = true ∨ p.1.isCf = false := by
                    by_cases hcf : p.1.isCf = true
                    · left
                      by_contra hs
                      exact hnr ⟨hcf, by simpa using hs⟩
                    · right; simpa using hcf
                  have hin : (p.1, some i) ∈ (splitReflexive me).1 := by
                    apply (hsplit₁ (p.1, some i)).2
                    refine ⟨?_, hcase⟩
                    rw [← hx]; exact hp
                  obtain ⟨vals0, hpv0, hxv0⟩ := (removeRepeated_has_some _ p.1 i).2 hin
                  have hhas : (dropNone (reduceGen (removeRepeated (splitReflexive me).1) [])).Has k (some i) :=
                    (dropNone_has_some _ k i).2 ((reduceGen_has _ _ k (some i)).2
                      (Or.inr ⟨(p.1, vals0), hpv0, by rw [bkey_eq_rkey _ hcase]; exact hk, hxv0⟩))
                  obtain ⟨vals, hpv, hxv⟩ := hhas
                  have := singleton_of_length vals (some i) hxv (hlen _ (Or.inr hpv))
                  subst this
                  exact ⟨[], hpv⟩

/-! ### `mapM` in `Option`, self-intervention by name -/

theorem optMapM_total {α β : Type} (f : α → Option β) (l : List α) (h : ∀ x ∈ l, ∃ y, f x = some y) :
    ∃ r, l.mapM f = some r ∧ ∀ y, y ∈ r ↔ ∃ x ∈ l, f x = some y := by
  induction l with
  | nil => exact ⟨[], rfl, by simp⟩
  | cons a l ih =>
    obtain ⟨r, hr, hmem⟩ := ih (fun x hx => h x (by simp [hx]))
    obtain ⟨b, hb⟩ := h a (by simp)
    refine ⟨b :: r, by simp [List.mapM_cons, hb, hr], fun y => ?_⟩
    simp only [List.mem_cons, hmem, exists_eq_or_imp, hb, Option.some.injEq]
    constructor
    · rintro (rfl | h') <;> [exact Or.inl rfl; exact Or.inr h']
    · rintro (h' | h') <;> [exact Or.inl h'.symm; exact Or.inr h']

theorem optMapM_none {α β : Type} (f : α → Option β) (l : List α) (h : ∃ x ∈ l, f x = none) :
    l.mapM f = none := by
  induction l with
  | nil => obtain ⟨x, hx, _⟩ := h; cases hx
  | cons a l ih =>
    obtain ⟨x, hx, hfx⟩ := h
    cases ha : f a with
    | none => simp [List.mapM_cons, ha]
    | some b =>
      rcases List.mem_cons.1 hx with rfl | hx'
      · rw [ha] at hfx; cases hfx
      · simp [List.mapM_cons, ha, ih ⟨x, hx', hfx⟩]

theorem selfIntervened_iff (v : Var) : selfIntervened v = true ↔ v.name ∈ subNames v := by
  simp only [selfIntervened, List.any_eq_true, beq_iff_eq, subNames, List.mem_map]

end Y0.Ctf
