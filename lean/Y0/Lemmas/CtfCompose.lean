/-
  Y0.Lemmas.CtfCompose — the semantic core of Eq. 11-15 of Correa, Lee, Bareinboim 2022 over the functional SCMs of
  Y0/Spec/Fscm.lean, free of any syntax of the DSL:

    * `solve_parents_forced`   a variable all of whose mechanism arguments are forced reads only its own exogenous
                               coordinates (so a ctf-factor variable `W_{pa_W}` depends on `U_W` only);
    * `ancestral_iff_factor`   (composition + exclusion restriction along the evaluation order)  for an ancestrally
                               closed family of counterfactual variables `W_n` in worlds `s n`, the event
                               "every `W_n(s n)` takes its prescribed values" holds at a noise point exactly when the
                               event "every `W_n(t n)` takes its prescribed values" holds, where `t n` forces every
                               mechanism argument of `n` to the prescribed value of that argument.
-/
import Y0.Lemmas.CtfScm
import Y0.Lemmas.CtfSplit

namespace Y0.Ctf
open Y0.Fscm

theorem mem_order_of_pa (M : Model)
    (htopo : ∀ l₁ v l₂, M.order = l₁ ++ v :: l₂ → ∀ p ∈ M.pa v, p ∈ l₁)
    (n : Name) (hn : n ∈ M.order) (p : Name) (hp : p ∈ M.pa n) : p ∈ M.order := by
  obtain ⟨l₁, l₂, hord⟩ := List.append_of_mem hn
  rw [hord]
  exact List.mem_append_left _ (htopo l₁ n l₂ hord p hp)

/-- the value of an unforced variable all of whose mechanism arguments are forced -/
theorem solve_parents_forced (M : Model) (u : NoisePoint) (t : Do) (n : Name)
    (hnodup : M.order.Nodup)
    (htopo : ∀ l₁ v l₂, M.order = l₁ ++ v :: l₂ → ∀ p ∈ M.pa v, p ∈ l₁)
    (hn : n ∈ M.order) (hunf : forced t n = none) (hpa : ∀ p ∈ M.pa n, ∃ x, forced t p = some x) :
    solve M u t n =
      M.f n ((M.pa n).map fun p => (forced t p).getD 0) ((M.lat n).map fun j => u.getD j 0) := by
  rw [solve_unforced M u t n hnodup htopo hn hunf]
  congr 1
  apply List.map_congr_left
  intro p hp
  obtain ⟨x, hx⟩ := hpa p hp
  rw [solve_forced M u t p x (mem_order_of_pa M htopo n hn p hp) hx, hx]
  rfl

/-- two worlds that give the mechanism arguments of an unforced variable the same values give it the same value -/
theorem solve_eq_of_parents_eq (M : Model) (u : NoisePoint) (s t : Do) (n : Name)
    (hnodup : M.order.Nodup)
    (htopo : ∀ l₁ v l₂, M.order = l₁ ++ v :: l₂ → ∀ p ∈ M.pa v, p ∈ l₁)
    (hn : n ∈ M.order) (hs : forced s n = none) (ht : forced t n = none)
    (hpa : ∀ p ∈ M.pa n, solve M u s p = solve M u t p) : solve M u s n = solve M u t n := by
  rw [solve_unforced M u s n hnodup htopo hn hs, solve_unforced M u t n hnodup htopo hn ht]
  congr 1
  exact List.map_congr_left hpa

/-- **composition along the evaluation order.**  `N` is a family of vertices, `s n` the world in which the member `n`
is looked at, `t n` a world that forces every mechanism argument `p` of `n` to a value `x` such that either `s n` forces
the same value, or `p` is itself a member, looked at in a world `s p` that agrees with `s n` on `p`, and constrained
(`cons p ≠ []`) to exactly the value `x`.  Then the two events coincide noise point by noise point. -/
theorem ancestral_iff_factor (M : Model) (u : NoisePoint)
    (hnodup : M.order.Nodup)
    (htopo : ∀ l₁ v l₂, M.order = l₁ ++ v :: l₂ → ∀ p ∈ M.pa v, p ∈ l₁)
    (N : List Name) (s t : Name → Do) (cons : Name → List Nat)
    (hN : ∀ n ∈ N, n ∈ M.order ∧ forced (s n) n = none ∧ forced (t n) n = none)
    (hpa : ∀ n ∈ N, ∀ p ∈ M.pa n, ∃ x, forced (t n) p = some x ∧
      (forced (s n) p = some x ∨
        (p ∈ N ∧ solve M u (s n) p = solve M u (s p) p ∧ cons p ≠ [] ∧ ∀ k ∈ cons p, k = x))) :
    (∀ n ∈ N, ∀ k ∈ cons n, solve M u (s n) n = k) ↔ (∀ n ∈ N, ∀ k ∈ cons n, solve M u (t n) n = k) := by
  have hpo : ∀ n ∈ N, ∀ p ∈ M.pa n, p ∈ M.order := fun n hn p hp => mem_order_of_pa M htopo n (hN n hn).1 p hp
  constructor
  · intro h n hn k hk
    rw [← h n hn k hk]
    symm
    apply solve_eq_of_parents_eq M u (s n) (t n) n hnodup htopo (hN n hn).1 (hN n hn).2.1 (hN n hn).2.2
    intro p hp
    obtain ⟨x, htx, hcase⟩ := hpa n hn p hp
    rw [solve_forced M u (t n) p x (hpo n hn p hp) htx]
    rcases hcase with hsx | ⟨hpN, hsame, hne, hall⟩
    · exact solve_forced M u (s n) p x (hpo n hn p hp) hsx
    · obtain ⟨k', hk'⟩ := List.exists_mem_of_ne_nil _ hne
      rw [hsame, h p hpN k' hk', hall k' hk']
  · intro h
    -- every member has the same value in both worlds, by induction on its position in the evaluation order
    have key : ∀ (m : Nat) (l₁ : List Name) (n : Name) (l₂ : List Name), M.order = l₁ ++ n :: l₂ → l₁.length = m →
        n ∈ N → solve M u (s n) n = solve M u (t n) n := by
      intro m
      induction m using Nat.strong_induction_on with
      | _ m ih =>
        intro l₁ n l₂ hord hlen hn
        apply solve_eq_of_parents_eq M u (s n) (t n) n hnodup htopo (hN n hn).1 (hN n hn).2.1 (hN n hn).2.2
        intro p hp
        obtain ⟨x, htx, hcase⟩ := hpa n hn p hp
        rw [solve_forced M u (t n) p x (hpo n hn p hp) htx]
        rcases hcase with hsx | ⟨hpN, hsame, hne, hall⟩
        · exact solve_forced M u (s n) p x (hpo n hn p hp) hsx
        · obtain ⟨k', hk'⟩ := List.exists_mem_of_ne_nil _ hne
          have hp₁ : p ∈ l₁ := htopo l₁ n l₂ hord p hp
          obtain ⟨a, b, hab⟩ := List.append_of_mem hp₁
          have hord' : M.order = a ++ p :: (b ++ n :: l₂) := by rw [hord, hab]; simp
          have hlt : a.length < m := by rw [← hlen, hab]; simp
          rw [hsame, ih a.length hlt a p _ hord' rfl hpN, h p hpN k' hk', hall k' hk']
    intro n hn k hk
    obtain ⟨l₁, l₂, hord⟩ := List.append_of_mem (hN n hn).1
    rw [key l₁.length l₁ n l₂ hord rfl hn]
    exact h n hn k hk

end Y0.Ctf
