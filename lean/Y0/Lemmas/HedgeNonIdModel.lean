/-
  Y0.Lemmas.HedgeNonIdModel — the ε-perturbed parity models of the hedge construction.

  A `PSpec` gives a tree of bidirected edges (construction sequence `es` from `root`, one fair binary latent `L c` per
  edge), for every observed node `v` a list `par v` of observed parents, and noise levels `rho v ∈ (0, 1)`.  In the model
  `P.scm` every variable is binary; a node `v` of the tree equals the parity of `par v` and of the latents of the tree
  edges at `v`, flipped with probability `(1 - rho v) / 2`; every other node is a fair coin.
  `PSpec.Good P G` collects what makes `P.scm` a positive model compatible with `G` (`scm_compatible`).
-/
import Y0.Spec.Identifiable
import Y0.Lemmas.HedgeNonIdPeel

namespace Y0
namespace NonId

structure PSpec where
  root : Name
  es : List (Name × Name)
  L : Name → Name
  par : Name → List Name
  rho : Name → Rat

namespace PSpec

/-- the nodes of the tree -/
def T (P : PSpec) : List Name := nodesOf P.es P.root

/-- Fourier coordinates of the noise of node `v`: `(1, rho v)` on the tree, the fair coin `(1, 0)` elsewhere -/
def noise (P : PSpec) (v : Name) : Rat × Rat := (1, if v ∈ P.T then P.rho v else 0)

/-- the parity a node compares itself with -/
def expo (P : PSpec) (v : Name) (σ : Val) : Nat := σ v + ((P.par v).map σ).sum

def scm (P : PSpec) : Scm :=
  { card := fun _ => 2
    lat := latsOf P.L P.es
    prior := fun _ _ => 1 / 2
    latOf := fun v => latOfT P.L P.es v
    kern := fun v σ => ev (P.noise v) (P.expo v σ + ((latOfT P.L P.es v).map σ).sum) }

structure Good (P : PSpec) (G : MG Name) : Prop where
  tree : TreeSeq P.root P.es
  sub : ∀ v ∈ P.T, v ∈ G.nodes
  lnodup : (latsOf P.L P.es).Nodup
  lfresh : ∀ u ∈ latsOf P.L P.es, u ∉ G.nodes
  bi : ∀ e ∈ P.es, G.hasBi e.1 e.2 = true
  par_sub : ∀ v, ∀ p ∈ P.par v, p ∈ G.parents v
  par_irrefl : ∀ v, v ∉ P.par v
  par_nodes : ∀ v, ∀ p ∈ P.par v, p ∈ G.nodes
  rho_pos : ∀ v, 0 < P.rho v
  rho_lt : ∀ v, P.rho v < 1

theorem ev_noise_pos (P : PSpec) (h0 : ∀ v, 0 < P.rho v) (h1 : ∀ v, P.rho v < 1) (v : Name) (c : Nat) :
    0 < ev (P.noise v) c := by
  unfold ev noise sgn
  have := h0 v
  have := h1 v
  by_cases hv : v ∈ P.T <;> by_cases hc : c % 2 = 0 <;> simp only [hv, hc, if_true, if_false] <;> linarith

theorem ev_two (g : Rat × Rat) (c : Nat) : ev g (0 + c) + ev g (1 + c) = g.1 := by
  simp only [ev, sgn_add, sgn_zero, sgn_one]
  ring

theorem hasBi_symm (G : MG Name) (u v : Name) : G.hasBi u v = G.hasBi v u := by
  unfold MG.hasBi
  rw [Bool.or_comm]

theorem scm_compatible {P : PSpec} {G : MG Name} (h : P.Good G) : P.scm.Compatible G := by
  refine ⟨fun _ => by simp [scm], h.lnodup, h.lfresh, ?_, ?_, ?_, ?_, ?_, ?_, ?_⟩
  · intro u _ k; simp [scm]
  · intro u _
    have : List.range 2 = [0, 1] := by decide
    simp [scm, sumRange, this]
    norm_num
  · intro v u hu; exact latOfT_sub P.L P.es v u hu
  · intro v _ σ τ hστ
    have h1 : σ v = τ v := hστ v (by simp)
    have h2 : (P.par v).map σ = (P.par v).map τ :=
      List.map_congr_left fun p hp => hστ p (by simp [h.par_sub v p hp])
    have h3 : (latOfT P.L P.es v).map σ = (latOfT P.L P.es v).map τ :=
      List.map_congr_left fun u hu => hστ u (by simp [scm, hu])
    simp only [scm, expo, h1, h2, h3]
  · intro v _ σ
    exact ev_noise_pos P h.rho_pos h.rho_lt v _
  · intro v hv σ
    have hr : List.range 2 = [0, 1] := by decide
    have hvl : v ∉ latOfT P.L P.es v := fun h' => h.lfresh v (latOfT_sub _ _ _ _ h') hv
    simp only [scm, sumVar, sumRange, hr, List.map_cons, List.map_nil, List.sum_cons, List.sum_nil, add_zero, expo,
      Val.set_same, map_set_of_not_mem σ v _ _ (h.par_irrefl v), map_set_of_not_mem σ v _ _ hvl]
    rw [Nat.add_assoc, Nat.add_assoc, ev_two]
    rfl
  · intro v _ w _ hne ⟨u, hu, hw⟩
    obtain ⟨e, he, rfl⟩ := List.mem_map.mp hu
    obtain ⟨e', he', hee⟩ := List.mem_map.mp hw
    have he1 := List.mem_filter.mp he
    have he2 := List.mem_filter.mp he'
    have : e' = e := List.inj_on_of_nodup_map h.lnodup he2.1 he1.1 hee
    subst this
    have hb := h.bi e' he1.1
    have c1 : e'.1 = v ∨ e'.2 = v := by simpa using he1.2
    have c2 : e'.1 = w ∨ e'.2 = w := by simpa using he2.2
    rcases c1 with c1 | c1 <;> rcases c2 with c2 | c2
    · exact absurd (c1.symm.trans c2) hne
    · rw [← c1, ← c2]; exact hb
    · rw [← c1, ← c2, hasBi_symm]; exact hb
    · exact absurd (c1.symm.trans c2) hne

end PSpec
end NonId
end Y0
