/-
  Y0.Lemmas.IdSoundC — soundness of lines 1, 2 and 3 of ID: the recursive call is made on an input that satisfies the
  invariant again and asks for the same interventional distribution.
-/
import Y0.Lemmas.IdSoundB

namespace Y0
open IdDsl IdAux MG

theorem IdAux.anc_closed {G : MG Name} (hG : G.WF) {S A : List Name} (h : G.ancestorsInclusive S = .ok A) {a r : Name}
    (ha : a ∈ A) (hra : G.DiEdge r a) : r ∈ A := by
  obtain ⟨s, hs, has⟩ := (ancestorsInclusive_spec G hG S A h a).mp ha
  exact (ancestorsInclusive_spec G hG S A h r).mpr ⟨s, hs, .head hra has⟩

theorem isObsMarginal_sumSafe {e : Expr} {r : List Name} (h : isObsMarginal (sumSafe e r) = true) :
    isObsMarginal e = true := by
  unfold sumSafe at h
  split at h
  · exact h
  · split at h
    · exact h
    · simpa [isObsMarginal] using h

section
variable {M : Scm} {G0 : MG Name} {σ' : Val} {I : IdIn}

theorem IdAux.doProb_eq (M : Scm) (G : MG Name) (X Y : List Name) (σ : Val) :
    M.doProb G X Y σ =
      sumVars M.card (G.nodes.filter (fun v => v ∉ X ∧ v ∉ Y)) (M.Q (G.nodes.filter (· ∉ X))) σ := rfl

/-- line 1: no treatment, the marginal of the carried estimand -/
theorem sound_l1 (inv : SInv M G0 σ' I) (hX : I.X = []) (σ : Val) :
    den (M.env G0) σ' (sumSafe I.est (diff' I.G.nodes I.Y)) σ = M.doProb I.G I.X I.Y σ := by
  rw [den_sumSafe, inv.est_fun, doProb_eq, hX]
  have h1 : I.G.nodes.filter (· ∉ ([] : List Name)) = I.G.nodes := by simp
  rw [h1]
  refine congrFun (sumVars_sortNames M.card (inv.valid.wf.nodup.filter _) (fun v => ?_) _) σ
  simp [diff']

/-- line 2: restriction to the ancestors of `Y` -/
theorem sound_l2 (ctx : SCtx M G0) (inv : SInv M G0 σ' I) {anc : List Name}
    (hanc : I.G.ancestorsInclusive I.Y = .ok anc) (hvJ : Valid (line2 I anc)) :
    SInv M G0 σ' (line2 I anc) ∧
      ∀ σ, M.doProb (line2 I anc).G (line2 I anc).X (line2 I anc).Y σ = M.doProb I.G I.X I.Y σ := by
  have hwf := inv.valid.wf
  have hVnd := hwf.nodup
  have hancV : ∀ v ∈ anc, v ∈ I.G.nodes := ancestorsInclusive_sub hwf hanc
  have hYanc : ∀ y ∈ I.Y, y ∈ anc := ancestorsInclusive_self hwf hanc
  have hA : ∀ v, v ∈ (I.G.subgraph anc).nodes ↔ v ∈ anc := mem_nodes_subgraph I.G anc
  have hAnd : (I.G.subgraph anc).nodes.Nodup := (wf_subgraph I.G anc).nodup
  let p : Name → Bool := fun v => decide (v ∈ anc)
  have hclosed : ∀ T : List Name, (∀ v ∈ T, v ∈ I.G.nodes) →
      ∀ a ∈ T, p a = true → ∀ r ∈ T, p r = false → ¬ I.G.DiEdge r a := by
    intro T _ a _ hpa r _ hpr hra
    have : r ∈ anc := anc_closed hwf hanc (by simpa [p] using hpa) hra
    simp [p, this] at hpr
  -- Σ_{V ∖ An} Q[V] = Q[An]
  have hQA : sumVars M.card (I.G.nodes.filter (fun v => !p v)) (M.Q I.G.nodes) = M.Q (I.G.subgraph anc).nodes := by
    rw [Q_sum_filter ctx inv.sub I.G.nodes hVnd (fun _ h => h) p (hclosed _ (fun _ h => h))]
    apply M.Q_congr_set (hVnd.filter _) hAnd
    intro v
    simp only [List.mem_filter, hA, p, decide_eq_true_eq]
    exact ⟨fun h => h.2, fun h => ⟨hancV v h, h⟩⟩
  have hest : ∀ σ, den (M.env G0) σ' (sumSafe I.est (diff' I.G.nodes anc)) σ = M.Q (I.G.subgraph anc).nodes σ := by
    intro σ
    rw [den_sumSafe, inv.est_fun, ← hQA]
    refine congrFun (sumVars_sortNames M.card (hVnd.filter _) (fun v => ?_) _) σ
    simp [diff', p]
  refine ⟨⟨hvJ, inv.sub.subgraph anc hancV, hest, ?_⟩, ?_⟩
  · -- marginals of the joint over subsets of `An` are marginals of `Q[An]`
    intro hm S hS hSA σ
    have hSanc : ∀ v ∈ S, v ∈ anc := fun v hv => (hA v).mp (hSA v hv)
    rw [inv.marg (isObsMarginal_sumSafe hm) S hS (fun v hv => hancV v (hSanc v hv)) σ]
    show _ = sumVars M.card ((I.G.subgraph anc).nodes.filter (· ∉ S)) (M.Q (I.G.subgraph anc).nodes) σ
    rw [sumVars_filter_split M.card _ p, ← hQA]
    have e1 : sumVars M.card ((I.G.nodes.filter (· ∉ S)).filter (fun v => !p v)) (M.Q I.G.nodes) =
        sumVars M.card (I.G.nodes.filter (fun v => !p v)) (M.Q I.G.nodes) := by
      apply sumVars_congr_set M.card ((hVnd.filter _).filter _) (hVnd.filter _)
      intro v
      simp only [List.mem_filter, p, decide_eq_true_eq, Bool.not_eq_true', decide_eq_false_iff_not]
      exact ⟨fun h => ⟨h.1.1, h.2⟩, fun h => ⟨⟨h.1, fun hs => h.2 (hSanc v hs)⟩, h.2⟩⟩
    rw [e1]
    refine congrFun (sumVars_congr_set M.card ((hVnd.filter _).filter _) (hAnd.filter _) (fun v => ?_) _) σ
    simp only [List.mem_filter, hA, p, decide_eq_true_eq]
    exact ⟨fun h => ⟨h.2, h.1.2⟩, fun h => ⟨⟨hancV v h.1, h.2⟩, h.1⟩⟩
  · -- the same interventional distribution
    intro σ
    rw [doProb_eq, doProb_eq]
    show sumVars M.card ((I.G.subgraph anc).nodes.filter (fun v => v ∉ inter' I.X anc ∧ v ∉ I.Y))
        (M.Q ((I.G.subgraph anc).nodes.filter (· ∉ inter' I.X anc))) σ = _
    let T := I.G.nodes.filter (· ∉ I.X)
    have hTnd : T.Nodup := hVnd.filter _
    have hTV : ∀ v ∈ T, v ∈ I.G.nodes := fun v hv => (List.mem_filter.mp hv).1
    have hQT : sumVars M.card (T.filter (fun v => !p v)) (M.Q T) = M.Q (T.filter p) :=
      Q_sum_filter ctx inv.sub T hTnd hTV p (hclosed T hTV)
    have hQ2 : M.Q (T.filter p) = M.Q ((I.G.subgraph anc).nodes.filter (· ∉ inter' I.X anc)) := by
      apply M.Q_congr_set (hTnd.filter _) (hAnd.filter _)
      intro v
      simp only [T, List.mem_filter, hA, p, decide_eq_true_eq, mem_inter', not_and]
      constructor
      · rintro ⟨⟨_, h2⟩, h3⟩; exact ⟨h3, fun hx => absurd hx h2⟩
      · rintro ⟨h1, h2⟩
        exact ⟨⟨hancV v h1, fun hx => h2 hx h1⟩, h1⟩
    rw [sumVars_filter_split M.card (I.G.nodes.filter (fun v => v ∉ I.X ∧ v ∉ I.Y)) p]
    have e1 : sumVars M.card ((I.G.nodes.filter (fun v => v ∉ I.X ∧ v ∉ I.Y)).filter (fun v => !p v)) (M.Q T) =
        sumVars M.card (T.filter (fun v => !p v)) (M.Q T) := by
      apply sumVars_congr_set M.card ((hVnd.filter _).filter _) (hTnd.filter _)
      intro v
      simp only [T, List.mem_filter, p, decide_eq_true_eq, Bool.not_eq_true', decide_eq_false_iff_not, Bool.and_eq_true,
        Bool.decide_and]
      constructor
      · rintro ⟨⟨h1, h2, _⟩, h4⟩; exact ⟨⟨h1, h2⟩, h4⟩
      · rintro ⟨⟨h1, h2⟩, h4⟩; exact ⟨⟨h1, h2, fun hy => h4 (hYanc v hy)⟩, h4⟩
    show _ = sumVars M.card _ (sumVars M.card _ (M.Q T)) σ
    rw [e1, hQT, hQ2]
    refine congrFun (sumVars_congr_set M.card (hAnd.filter _) ((hVnd.filter _).filter _) (fun v => ?_) _) σ
    simp only [List.mem_filter, hA, p, decide_eq_true_eq, mem_inter', not_and, Bool.and_eq_true, Bool.decide_and]
    constructor
    · rintro ⟨h1, h2, h3⟩; exact ⟨⟨hancV v h1, fun hx => h2 hx h1, h3⟩, h1⟩
    · rintro ⟨⟨_, h2, h3⟩, h4⟩; exact ⟨h4, fun hx => absurd hx h2, h3⟩

/-- line 3: intervening additionally on the nodes that have no effect on `Y` once `X` is fixed -/
theorem sound_l3 (ctx : SCtx M G0) (inv : SInv M G0 σ' I) {anc' : List Name}
    (hanc' : (I.G.removeInEdges I.X).ancestorsInclusive I.Y = .ok anc')
    (hvJ : Valid (line3 I (diff' (diff' I.G.nodes I.X) anc'))) :
    SInv M G0 σ' (line3 I (diff' (diff' I.G.nodes I.X) anc')) ∧
      ∀ σ, M.doProb I.G (union' I.X (diff' (diff' I.G.nodes I.X) anc')) I.Y σ = M.doProb I.G I.X I.Y σ := by
  refine ⟨⟨hvJ, inv.sub, inv.est, inv.marg⟩, ?_⟩
  have hwf := inv.valid.wf
  have hVnd := hwf.nodup
  have hwf' : (I.G.removeInEdges I.X).WF := wf_fromEdges _ _ _
  have hYanc : ∀ y ∈ I.Y, y ∈ anc' := ancestorsInclusive_self hwf' hanc'
  let p : Name → Bool := fun v => decide (v ∈ anc')
  let T := I.G.nodes.filter (· ∉ I.X)
  have hTnd : T.Nodup := hVnd.filter _
  have hTV : ∀ v ∈ T, v ∈ I.G.nodes := fun v hv => (List.mem_filter.mp hv).1
  have hQT : sumVars M.card (T.filter (fun v => !p v)) (M.Q T) = M.Q (T.filter p) := by
    apply Q_sum_filter ctx inv.sub T hTnd hTV p
    intro a ha hpa r _ hpr hra
    have haX : a ∉ I.X := by simpa [T] using (List.mem_filter.mp ha).2
    have : r ∈ anc' := anc_closed hwf' hanc' (by simpa [p] using hpa)
      ((diEdge_removeInEdges I.G I.X r a).mpr ⟨hra, haX⟩)
    simp [p, this] at hpr
  intro σ
  rw [doProb_eq, doProb_eq]
  have hQ2 : M.Q (T.filter p) =
      M.Q (I.G.nodes.filter (· ∉ union' I.X (diff' (diff' I.G.nodes I.X) anc'))) := by
    apply M.Q_congr_set (hTnd.filter _) (hVnd.filter _)
    intro v
    simp only [T, List.mem_filter, p, decide_eq_true_eq, mem_union', mem_diff', not_or, not_and, not_not]
    constructor
    · rintro ⟨⟨h1, h2⟩, h3⟩; exact ⟨h1, h2, fun _ => h3⟩
    · rintro ⟨h1, h2, h3⟩; exact ⟨⟨h1, h2⟩, h3 ⟨h1, h2⟩⟩
  rw [sumVars_filter_split M.card (I.G.nodes.filter (fun v => v ∉ I.X ∧ v ∉ I.Y)) p]
  have e1 : sumVars M.card ((I.G.nodes.filter (fun v => v ∉ I.X ∧ v ∉ I.Y)).filter (fun v => !p v)) (M.Q T) =
      sumVars M.card (T.filter (fun v => !p v)) (M.Q T) := by
    apply sumVars_congr_set M.card ((hVnd.filter _).filter _) (hTnd.filter _)
    intro v
    simp only [T, List.mem_filter, p, decide_eq_true_eq, Bool.not_eq_true', decide_eq_false_iff_not, Bool.and_eq_true,
      Bool.decide_and]
    constructor
    · rintro ⟨⟨h1, h2, _⟩, h4⟩; exact ⟨⟨h1, h2⟩, h4⟩
    · rintro ⟨⟨h1, h2⟩, h4⟩; exact ⟨⟨h1, h2, fun hy => h4 (hYanc v hy)⟩, h4⟩
  show _ = sumVars M.card _ (sumVars M.card _ (M.Q T)) σ
  rw [e1, hQT, hQ2]
  refine congrFun (sumVars_congr_set M.card (hVnd.filter _) ((hVnd.filter _).filter _) (fun v => ?_) _) σ
  simp only [List.mem_filter, p, decide_eq_true_eq, mem_union', mem_diff', not_or, not_and, not_not, Bool.and_eq_true,
    Bool.decide_and]
  constructor
  · rintro ⟨h1, ⟨h2, h3⟩, h4⟩; exact ⟨⟨h1, h2, h4⟩, h3 ⟨h1, h2⟩⟩
  · rintro ⟨⟨h1, h2, h4⟩, h3⟩; exact ⟨h1, ⟨h2, fun _ => h3⟩, h4⟩

end
end Y0
