/-
  Y0.Lemmas.CtfTrAlg3QGood — the hypothesis `QGood` of the totality theorem of Algorithm 3 is discharged: the
  expression `Q` that Algorithm 2 returns for `D*` is a `Sum.safe` of a `Product.safe` of expressions built by Tian's
  IDENTIFY from the domains' distributions, hence (Y0.Lemmas.CtfTrAlg3Q) never `Zero()`, and it mentions only variables
  of those distributions and plain graph vertices.
-/
import Y0.Lemmas.CtfTrAlg3Q
import Y0.Lemmas.CtfTrAlg3Total

namespace Y0.CtfTr
open Ctf Relation Y0.MG TianVoc
open Trso (isTnode tnode targetPop nsort mem_nsort)

/-! ### Algorithm 4 -/

/-- the expression one domain returns for a district is a Q-expression over the vocabulary of that domain -/
theorem sigmaTRDomain_good (district : List Name) (d : Domain) (r : Expr) (hwf : d.graph.WF)
    (hreg : ∀ v ∈ district, v ∈ regular d.graph) (biT : ∀ a b, d.graph.BiEdge a b → isTnode a = false)
    (hpop : Tian.isProb d.pop = true) (h : sigmaTRDomain district d = .ok (some r)) :
    Good d.pop (regular d.graph) r := by
  unfold sigmaTRDomain at h
  simp only [bind, Except.bind] at h
  cases hdsl : district.mapM d.graph.getDistrict with
  | error e => rw [hdsl] at h; cases h
  | ok dsl =>
    rw [hdsl] at h
    simp only at h
    split at h
    · cases h
    · have hB : ∀ v ∈ nsort dsl.flatten, v ∈ regular d.graph := by
        intro v hv
        rw [mem_nsort, List.mem_flatten] at hv
        obtain ⟨x, hx, hvx⟩ := hv
        obtain ⟨u, hu, hux⟩ := (Ctf.mapM_ok_mem _ _ _ hdsl x).1 hx
        obtain ⟨hxd, hux'⟩ := Ctf.getDistrict_ok _ _ _ hux
        have hsd : d.graph.SameDistrict u v := (districts_spec _ hwf x hxd u hux' v).mp hvx
        have huT : isTnode u = false := by simpa using (List.mem_filter.1 (hreg u hu)).2
        have hvT := notT_of_sameDistrict _ biT huT hsd
        have hvn : v ∈ d.graph.nodes := (districts_cover _ hwf v).mpr ⟨x, hxd, hvx⟩
        exact List.mem_filter.2 ⟨hvn, by simp [hvT]⟩
      cases hq : Tian.computeCFactor (nsort dsl.flatten) (regular d.graph) d.pop d.topo with
      | error e => rw [hq] at h; cases h
      | ok q =>
        rw [hq] at h
        simp only at h
        have hgq := computeCFactor_good (pop0 := d.pop) (N := regular d.graph) (Or.inr hpop) (fun v hv => Or.inl hv)
          (fun hf => by cases hp : d.pop <;> simp_all [Tian.isProb, Tian.isFracProdSum]) (fun n _ hn => hn) hq
        exact identify_good _ _ _ _ _ _ ⟨hgq.1, hgq.2⟩ hB h

theorem sigmaTR_good (district : List Name) : ∀ (ds : List Domain) (r : Expr),
    (∀ d ∈ ds, d.graph.WF ∧ (∀ v ∈ district, v ∈ regular d.graph) ∧
      (∀ a b, d.graph.BiEdge a b → isTnode a = false) ∧ Tian.isProb d.pop = true) →
    sigmaTR district ds = .ok (some r) → ∃ d ∈ ds, Good d.pop (regular d.graph) r
  | [], r, _, h => by simp [sigmaTR] at h
  | d :: ds, r, hall, h => by
    have hrec : sigmaTR district ds = .ok (some r) → ∃ d' ∈ d :: ds, Good d'.pop (regular d'.graph) r := by
      intro h'
      obtain ⟨d', hd', hg⟩ := sigmaTR_good district ds r (fun d' hd' => hall d' (List.mem_cons_of_mem _ hd')) h'
      exact ⟨d', List.mem_cons_of_mem _ hd', hg⟩
    unfold sigmaTR at h
    split at h
    · split at h
      · cases h
      · rename_i e he
        cases h
        obtain ⟨h1, h2, h3, h4⟩ := hall d List.mem_cons_self
        exact ⟨d, List.mem_cons_self, sigmaTRDomain_good district d r h1 h2 h3 h4 he⟩
      · exact hrec h
    · exact hrec h

theorem validateDistrict_reg (district : List Name) (ds : List Domain) (h : validateDistrict district ds = .ok ()) :
    ∀ d ∈ ds, ∀ v ∈ district, v ∈ regular d.graph := by
  unfold validateDistrict at h
  split at h
  · cases h
  · split at h
    · cases h
    · rename_i hany
      intro d hd v hv
      have : ¬ (ds.any fun d => !district.all (· ∈ regular d.graph)) = true := hany
      simp only [List.any_eq_true, not_exists, not_and, Bool.not_eq_eq_eq_not, Bool.not_true,
        Bool.not_eq_false, List.all_eq_true, decide_eq_true_eq] at this
      exact this d hd v hv

/-- every expression of an answered transport loop comes from some domain and is good for it -/
theorem transportFactors_good (ds : List Domain)
    (hds : ∀ d ∈ ds, d.graph.WF ∧ (∀ a b, d.graph.BiEdge a b → isTnode a = false) ∧ Tian.isProb d.pop = true) :
    ∀ (fs : List Event) (qs : List Expr), transportFactors ds fs = .ok (some qs) →
      ∀ q ∈ qs, ∃ d ∈ ds, Good d.pop (regular d.graph) q
  | [], qs, h => by
    simp [transportFactors] at h; subst h; intro q hq; cases hq
  | f :: fs, qs, h => by
    simp only [transportFactors, bind, Except.bind] at h
    split at h
    · cases h
    · rename_i u hvd
      split at h
      · cases h
      · rename_i r hr
        cases r with
        | none => simp [pure, Except.pure] at h
        | some q0 =>
          simp only [] at h
          split at h
          · cases h
          · rename_i r' hr'
            cases r' with
            | none => simp [pure, Except.pure] at h
            | some qs' =>
              simp [pure, Except.pure] at h; subst h
              have hreg := validateDistrict_reg _ ds hvd
              intro q hq
              rcases List.mem_cons.1 hq with rfl | hq
              · exact sigmaTR_good _ ds q (fun d hd => ⟨(hds d hd).1, hreg d hd, (hds d hd).2.1, (hds d hd).2.2⟩) hr
              · exact transportFactors_good ds hds fs qs' hr' q hq

/-! ### `Product.safe` / `Sum.safe` of the transport model -/

theorem trIsZero_of_qexpr {e : Expr} (h : TianTotal.IsQExpr e) : TrDsl.isZero e = false ∧ TrDsl.isOne e = false := by
  cases e <;> simp_all [TianTotal.IsQExpr, Tian.isFracProdSum, Tian.isProb, TrDsl.isZero, TrDsl.isOne]

theorem trProductSafe_facts (qs : List Expr) (hq : ∀ q ∈ qs, TianTotal.IsQExpr q) :
    TrDsl.isZero (TrDsl.productSafe qs) = false ∧
      ∀ v ∈ Expr.iterVars (TrDsl.productSafe qs), ∃ q ∈ qs, v ∈ Expr.iterVars q := by
  have hfilter : qs.filter (fun e => !TrDsl.isOne e) = qs := by
    apply List.filter_eq_self.mpr
    intro f hf
    simp [(trIsZero_of_qexpr (hq f hf)).2]
  have hnz : qs.any TrDsl.isZero = false := by
    apply Bool.eq_false_iff.mpr
    intro hany
    rcases List.any_eq_true.mp hany with ⟨f, hf, hz⟩
    rw [(trIsZero_of_qexpr (hq f hf)).1] at hz
    cases hz
  unfold TrDsl.productSafe
  simp only [hfilter, hnz, Bool.false_eq_true, ↓reduceIte]
  match qs, hq with
  | [], _ => exact ⟨rfl, fun v hv => by simp [Expr.iterVars] at hv⟩
  | [f], hq => exact ⟨(trIsZero_of_qexpr (hq f List.mem_cons_self)).1, fun v hv => ⟨f, List.mem_cons_self, hv⟩⟩
  | f :: g :: rest, _ =>
    refine ⟨rfl, fun v hv => ?_⟩
    rw [iterVars_prod, mem_iterVarsList] at hv
    obtain ⟨x, hx, hvx⟩ := hv
    exact ⟨x, (ssort_perm _ _).mem_iff.1 hx, hvx⟩

/-! ### Algorithm 2: where the answer comes from -/

theorem ctfTRu_answer_inv (target : MG Name) (ds : List Domain) (e ev : Event) (x : Expr)
    (h : ctfTRu target ds e = .ok (some (x, some ev))) :
    validateU target ds e = .ok () ∧ simplify target e = .ok (some ev) ∧
    ∃ anc factors qs, line2 target ev = .ok (anc, factors) ∧ transportFactors ds factors = .ok (some qs) ∧
      ∃ summed : List Name, (∀ n ∈ summed, ∃ p ∈ anc, p.1.name = n) ∧
        x = TrDsl.sumSafe (TrDsl.productSafe qs) (summed.map Var.plain) := by
  unfold ctfTRu at h
  split at h
  · cases h
  · rename_i hv
    refine ⟨hv, ?_⟩
    have h' := afterValidation_ok' h
    simp only [bind, Except.bind] at h'
    cases hs : simplify target e with
    | error err => rw [hs] at h'; cases h'
    | ok o =>
      rw [hs] at h'
      cases o with
      | none => simp [pure, Except.pure] at h'
      | some ev' =>
        simp only [] at h'
        split at h'
        · cases h'
        · rename_i l2 hl2
          obtain ⟨anc, factors⟩ := l2
          simp only [] at h'
          split at h'
          · simp [pure, Except.pure] at h'
          · split at h'
            · cases h'
            · rename_i t ht
              cases t with
              | none => simp [pure, Except.pure] at h'
              | some qs =>
                simp [pure, Except.pure] at h'
                obtain ⟨hx, hev⟩ := h'
                subst hev
                refine ⟨rfl, anc, factors, qs, hl2, ht, _, ?_, hx.symm⟩
                intro n hn
                obtain ⟨p, hp, rfl⟩ := List.mem_map.1 (mem_dedup'.1 hn)
                exact ⟨p, (List.mem_filter.1 hp).1, rfl⟩

/-- the ancestors computed by line 2 of Algorithm 2 are named after nodes -/
theorem line2_anc_nodes (g : MG Name) (hg : g.WF) (ev : Event) (hev : EventOK g ev) (anc : Event) (factors : List Event)
    (h : line2 g ev = .ok (anc, factors)) : ∀ p ∈ anc, p.1.name ∈ g.nodes := by
  obtain ⟨anc0, hanc0, hn⟩ := ancFold_total g hg ev hev [] (by intro w hw; cases hw)
  rw [line2_eq, hanc0] at h
  simp only [Except.bind] at h
  split at h
  · cases h
  · split at h
    · cases h
    · simp only [Except.ok.injEq, Prod.mk.injEq] at h
      obtain ⟨rfl, _⟩ := h
      intro p hp
      exact hn p.1 (withValues_fst ev anc0 p hp)

/-! ### `QGood` -/

/-- **the expression of Algorithm 2 for `D*` is never `Zero()` and has the expected vocabulary**: for an accepted input
on well-formed graphs whose selection nodes carry no bidirected edge, with plain query variables -/
theorem qGood_holds (target : MG Name) (ds : List Domain) (o c : Event)
    (hv : validateC target ds o c = .ok ()) (hwf : target.WF) (hds : ∀ d ∈ ds, d.graph.WF)
    (hbiT : ∀ d ∈ ds, ∀ a b, d.graph.BiEdge a b → isTnode a = false) (hplain : EventVarsPlain (o ++ c)) :
    QGood target ds o c := by
  intro dstar dNames q simplified h2 hu
  obtain ⟨_, _, _, hnodes, _, _, _⟩ := validateC_facts target ds o c hv
  have hok : ∀ p ∈ o ++ c, VarOK target p.1 := by
    intro p hp
    refine ⟨hnodes p ?_, Or.inr ⟨(hplain p hp).2.1, (hplain p hp).1⟩⟩
    rcases List.mem_append.1 hp with h | h
    · exact List.mem_append_right _ h
    · exact List.mem_append_left _ h
  obtain ⟨lk, D, dstar', dNames', _, _, _, _, h2', hDn, hfacts⟩ := line2C_ok target hwf o c
    (fun p hp => hok p (List.mem_append_left _ hp)) (fun p hp => hok p (List.mem_append_right _ hp))
    (fun p hp => (hplain p (List.mem_append_left _ hp)).1)
  rw [h2] at h2'
  simp only [Except.ok.injEq, Prod.mk.injEq] at h2'
  obtain ⟨rfl, rfl⟩ := h2'
  obtain ⟨hvU, hsimp, anc, factors, qs, hl2, htf, summed, hsummed, hq⟩ := ctfTRu_answer_inv target ds dstar simplified q hu
  obtain ⟨hne, _, hnodesU, hseq, hvd⟩ := validateU_facts target ds dstar hvU
  -- every factor expression is good for some domain
  have hdsOK : ∀ d ∈ ds, d.graph.WF ∧ (∀ a b, d.graph.BiEdge a b → isTnode a = false) ∧ Tian.isProb d.pop = true := by
    intro d hd
    refine ⟨hds d hd, hbiT d hd, ?_⟩
    obtain ⟨_, hpop⟩ := validateDomain_facts target d (hvd d hd)
    obtain ⟨v, hv⟩ := List.exists_mem_of_ne_nil _ hne
    have hvr : v ∈ regular d.graph := (TianGraph.seteq'_iff.1 (hseq d hd) v).1 hv
    simp only [List.all_eq_true] at hpop
    exact isProb_of_exprVarNames d.pop v (hpop v hvr)
  have hgood := transportFactors_good ds hdsOK factors qs htf
  obtain ⟨hpz, hpv⟩ := trProductSafe_facts qs (fun q hq => by obtain ⟨d, _, hg⟩ := hgood q hq; exact hg.1)
  refine ⟨by rw [hq]; exact isZero_sumSafe _ _ hpz, ?_⟩
  -- vocabulary
  have hev : EventOK target simplified := by
    intro p hp
    obtain ⟨⟨r, hr, hrn⟩, hk⟩ := simplify_output target dstar simplified
      (fun p hp => ⟨(hfacts.var hDn p hp).2.1, (hfacts.var hDn p hp).2.2.1⟩) hsimp p hp
    exact ⟨by rw [← hrn]; exact hnodesU r hr, hk⟩
  have hancn := line2_anc_nodes target hwf simplified hev anc factors hl2
  intro v hvq
  rw [hq] at hvq
  rcases mem_iterVars_sumSafe _ _ v hvq with hvp | hvr
  · obtain ⟨qi, hqi, hvqi⟩ := hpv v hvp
    obtain ⟨d, hd, hg⟩ := hgood qi hqi
    rcases hg.2 v hvqi with hin | ⟨n, hn, rfl⟩
    · exact Or.inr ⟨d, hd, hin⟩
    · exact Or.inl ⟨n, (TianGraph.seteq'_iff.1 (hseq d hd) n).2 hn, rfl⟩
  · obtain ⟨n, hn, rfl⟩ := List.mem_map.1 hvr
    obtain ⟨p, hp, rfl⟩ := hsummed n hn
    exact Or.inl ⟨_, hancn p hp, rfl⟩

/-! ### every vertex is a variable of every domain's distribution (what check 15 of the validators establishes) -/

theorem exprVars_eq_iterVars (q : Expr) (v : Var) (h : v ∈ exprVars q) : v ∈ Expr.iterVars q := by
  cases q with
  | prob p c pa => simpa [exprVars, Expr.iterVars] using h
  | _ => simp [exprVars] at h

theorem popsCover_of_validateC (target : MG Name) (ds : List Domain) (o c : Event)
    (hv : validateC target ds o c = .ok ()) : PopsCoverNodes target ds := by
  obtain ⟨_, _, _, _, _, _, h⟩ := validateC_facts target ds o c hv
  unfold validateCommon vErr at h
  obtain ⟨_, h⟩ := ite_error_ok h
  obtain ⟨_, h⟩ := ite_error_ok h
  obtain ⟨_, h⟩ := ite_error_ok h
  obtain ⟨_, h⟩ := ite_error_ok h
  obtain ⟨h4, h⟩ := ite_error_ok h
  obtain ⟨_, h⟩ := ite_error_ok h
  obtain ⟨_, h⟩ := ite_error_ok h
  obtain ⟨_, h⟩ := ite_error_ok h
  obtain ⟨_, h⟩ := ite_error_ok h
  obtain ⟨h9, h⟩ := ite_error_ok h
  obtain ⟨_, h⟩ := ite_error_ok h
  obtain ⟨_, h⟩ := ite_error_ok h
  have hne : ds ≠ [] := by intro h0; rw [h0] at h4; exact h4 rfl
  obtain ⟨d, hd⟩ := List.exists_mem_of_ne_nil _ hne
  have hseq : seteq' target.nodes (regular d.graph) = true := by
    simp only [List.any_eq_true, not_exists, not_and, Bool.not_eq_eq_eq_not, Bool.not_true,
      Bool.not_eq_false] at h9
    exact h9 d hd
  obtain ⟨_, hpop⟩ := validateDomain_facts target d (validateDomains_mem target ds h d hd)
  intro n hn
  have hnr : n ∈ regular d.graph := (TianGraph.seteq'_iff.1 hseq n).1 hn
  simp only [List.all_eq_true] at hpop
  exact ⟨d, hd, exprVars_eq_iterVars d.pop _ ((mem'_iff _ _).1 (hpop n hnr))⟩

end Y0.CtfTr
