/-
  Y0.Lemmas.TrsoSoundNoSurr — when no source domain declares an experiment, every estimand TRSO returns denotes the
  interventional distribution `P*(Y | do(X))` of every positive model compatible with the graph
  (`trso_sound_no_surrogate`, the denotation half of the "no usable surrogate" clause of C05).

  Instance of the soundness engine (Lemmas/TrsoSemAll) for the class of target contexts of single-model families: the
  stable side condition is "no experiment is declared and the run is in the target domain", under which lines 6/7
  return nothing.
-/
import Y0.Lemmas.TrsoFamEnv
import Y0.Lemmas.TrsoInit

namespace Y0
namespace Trso
open TrDsl MG IdAux

/-- no experiment is declared and the run is in the target domain -/
def KNoSurr (q : Query) : Prop := NoSurr q ∧ q.active = []

theorem kNoSurr_stable : Stable KNoSurr := by
  intro q q' ⟨hs, ha⟩ hact _ hsurr
  refine ⟨?_, hact.trans ha⟩
  rcases hsurr with h | h
  · intro p hp; rw [h] at hp; exact hs p hp
  · intro p hp; rw [h] at hp; cases hp

/-- without a declared experiment lines 6/7 return nothing -/
theorem step67_none_q {Mb : Nat} {q : Query} {G : MG Name} (sep : SepTest) (rec : Rec) (hq : QInv Mb q G)
    (hk : KNoSurr q) : step67 sep rec q = .ok none := by
  unfold step67
  split
  · rename_i hguard
    have hne : q.surr ≠ [] := by
      intro h0
      simp [h0] at hguard
    obtain ⟨_, _, hkeys, _⟩ := hq.phaseT0 hk.2 hne
    have hl : line6 sep q = .ok [] := by
      apply line6_nil
      intro p hp hpt
      obtain ⟨Z, hZ⟩ := hkeys p hp hpt
      have : Z = [] := hk.1 _ (lookup_key hZ)
      rw [hZ, this]
    rw [hl]
    rfl
  · rfl

theorem h67_noSurr (sep : SepTest) (C : Ctx → Prop) (Mb : Nat) : H67 sep C KNoSurr Mb := by
  intro fuel q G hq _ hk _ _ _ _ _ _ _ _ e he
  rw [step67_none_q sep _ hq hk] at he
  cases he

/-- every population tag reads the same model -/
def constFam (M : Scm) (G : MG Name) : Family := { dom := fun _ => M, graph := fun _ => G }

theorem constFam_ok {M : Scm} {G : MG Name} (hM : M.Compatible G) (hG : G.WF) (hr : G.Ranked) (pops : List Name) :
    FamOK (constFam M G) G pops :=
  ⟨fun _ => rfl, hM, fun _ _ => hM, fun _ _ => rfl, hG, hr⟩

/-- the target contexts of the single-model families over `G` -/
def TargetClass (G : MG Name) (hG : G.WF) (hr : G.Ranked) (pops : List Name) (σ' : Val) : Ctx → Prop := fun ctx =>
  ∃ (M : Scm) (hM : M.Compatible G), ctx = famCtx (constFam M G) G pops σ' (constFam_ok hM hG hr _)

/-- the specification of the top-level query is the interventional distribution -/
theorem spec_eq_doProb (M : Scm) (G : MG Name) (hnoT : ∀ v ∈ G.nodes, isTnode v = false) (X Y : List Name) (σ : Val) :
    Spec M (regularNodes G) (nsort X) (nsort Y) σ = M.doProb G X Y σ := by
  unfold Spec Scm.doProb
  rw [regularNodes_eq_of_noT hnoT]
  have e1 : G.nodes.filter (fun v => v ∉ nsort X ∧ v ∉ nsort Y) = G.nodes.filter (fun v => v ∉ X ∧ v ∉ Y) := by
    apply List.filter_congr; intro x _; simp [mem_nsort]
  have e2 : G.nodes.filter (· ∉ nsort X) = G.nodes.filter (· ∉ X) := by
    apply List.filter_congr; intro x _; simp [mem_nsort]
  rw [e1, e2]

/-- **TRSO without declared experiments is sound**: the estimand denotes `P(Y | do(X))` in every positive model
compatible with the graph, at every value assignment -/
theorem trso_sound_no_surrogate_core (sep : SepTest) (G : MG Name) (hG : G.WF) (hA : G.Acyclic)
    (hsmall : ∀ v ∈ G.nodes, v < 100) (Y X : List Name) (outcomes interventions : List (Pop × List Name))
    (hv : validInput G Y X outcomes interventions = true) (hY : Y ≠ []) (hZ : ∀ p ∈ interventions, p.2 = [])
    (e : Expr) (h : identifyTargetOutcomes sep G Y X outcomes interventions = .ok (some e))
    (M : Scm) (hM : M.Compatible G) (σ' σ : Val) :
    den (M.env G) σ' e σ = M.doProb G X Y σ := by
  obtain ⟨graphs, hg⟩ := surrogateToTransport_ok hG hv
  obtain ⟨hinv, _, _, _⟩ := qinitial_inv hG hA hsmall hv hY hg
  rw [identify_eq_trso hv hg] at h
  have hr : G.Ranked := MG.acyclic_ranked hG hA
  have hsmall' : ∀ v ∈ G.nodes, v < 200 := fun v hv => Nat.lt_trans (hsmall v hv) (by decide)
  have hnoT : ∀ v ∈ G.nodes, isTnode v = false := noT_of_small hsmall'
  set q := initialQuery G Y X graphs interventions with hqdef
  let pops : List Name := targetPop :: graphs.map (fun p => p.1)
  -- the class, its coin member, the initial invariant
  have hcoinMem : TargetClass G hG hr pops σ' (famCtx (constFam coinScm G) G pops σ'
      (constFam_ok (coinScm_compatible G) hG hr _)) := ⟨coinScm, coinScm_compatible G, rfl⟩
  have hcoin : Coin (famCtx (constFam coinScm G) G pops σ' (constFam_ok (coinScm_compatible G) hG hr _)) :=
    coin_famCtx G hG hr pops σ'
  have hsub : ∀ p ∈ graphs, RSub G p.2 := by
    intro p hp
    rcases (surrogateToTransport_spec hG hv hg).2 p hp with rfl | ⟨_, ns, hns, hp2⟩
    · exact rsub_self
    · rw [hp2]; exact rsub_ctd hsmall hns
  have hI : Inv (TargetClass G hG hr pops σ') q G := by
    rintro ctx ⟨M', hM', rfl⟩
    exact famCtx_initial σ' (constFam_ok hM' hG hr _) (List.mem_cons_self) rfl hnoT Y X graphs interventions hsub
      (fun p _ v hne => absurd rfl hne) (fun p hp => List.mem_cons_of_mem _ (List.mem_map_of_mem hp))
  have hK : KNoSurr q := ⟨fun p hp => hZ p hp, rfl⟩
  obtain ⟨hgood, _, hden⟩ := trsoF_sound_engine sep (TargetClass G hG hr pops σ') hcoinMem hcoin KNoSurr kNoSurr_stable _
    (h67_noSurr sep _ _) q.fuel q G hinv hI hK e h _ ⟨M, hM, rfl⟩
  rw [show M.env G = (constFam M G).env from rfl, den_eq_denL_of_clean _ σ' hgood.1 σ]
  exact (hden σ).trans (spec_eq_doProb M G hnoT X Y σ)

end Trso
end Y0
