/-
  Y0.Lemmas.TianDen — what the DSL constructors used by tian_id.py (Y0.Model.TianDsl) denote (Y0.Spec.Sem), and
  from that the denotation of the expressions built by `lowIndex`, `lemma4`, `ancestralQ` (Y0.Model.Tian).
  Valid for every environment: no probability law is used here, only the algebra of finite sums and products.
-/
import Y0.Model.Tian
import Y0.Spec.Sem
import Y0.Lemmas.Prob
import Mathlib.Algebra.BigOperators.Group.List.Basic

namespace Y0
namespace TianDen
open TianDsl Tian

variable (env : Env) (σ' : Val)

/-! ### `den` equations -/

theorem den_sum (e : Expr) (r : List Var) :
    den env σ' (.sum e r) = sumVars env.card (r.map (·.name)) (den env σ' e) := by
  funext σ; simp only [den]

theorem den_frac (n d : Expr) (σ : Val) : den env σ' (.frac n d) σ = den env σ' n σ / den env σ' d σ := by
  simp only [den]

theorem den_one (σ : Val) : den env σ' .one σ = 1 := by simp only [den]
theorem den_zero (σ : Val) : den env σ' .zero σ = 0 := by simp only [den]

theorem denProd_eq (fs : List Expr) (σ : Val) : denProd env σ' fs σ = (fs.map fun e => den env σ' e σ).prod := by
  induction fs with
  | nil => simp only [denProd, List.map_nil, List.prod_nil]
  | cons e es ih => simp only [denProd, List.map_cons, List.prod_cons, ih]

theorem den_prod (fs : List Expr) (σ : Val) : den env σ' (.prod fs) σ = (fs.map fun e => den env σ' e σ).prod := by
  simp only [den]; exact denProd_eq env σ' fs σ

/-! ### stable sorting is a permutation -/

theorem insertStable_perm {α} (lt : α → α → Bool) (x : α) (l : List α) : (insertStable lt x l).Perm (x :: l) := by
  induction l with
  | nil => exact List.Perm.refl _
  | cons y ys ih =>
    simp only [insertStable]
    split
    · exact ((List.Perm.cons y ih).trans (List.Perm.swap x y ys))
    · exact List.Perm.refl _

theorem sortStable_perm {α} (lt : α → α → Bool) (l : List α) : (sortStable lt l).Perm l := by
  induction l with
  | nil => exact List.Perm.refl _
  | cons x xs ih =>
    show (insertStable lt x (sortStable lt xs)).Perm (x :: xs)
    exact (insertStable_perm lt x _).trans (List.Perm.cons x ih)

theorem dedup'_eq_of_nodup {α} [DecidableEq α] : ∀ (l : List α), l.Nodup → dedup' l = l
  | [], _ => rfl
  | x :: xs, h => by
    have hx : x ∉ xs := (List.nodup_cons.mp h).1
    have hxs := (List.nodup_cons.mp h).2
    simp only [dedup']
    rw [dedup'_eq_of_nodup xs hxs]
    congr 1
    apply List.filter_eq_self.mpr
    intro a ha
    simp only [ne_eq, decide_not, Bool.not_eq_eq_eq_not, Bool.not_true, decide_eq_false_iff_not]
    exact fun e => hx (e ▸ ha)

theorem mem_dedup' {α} [DecidableEq α] (l : List α) (a : α) : a ∈ dedup' l ↔ a ∈ l := by
  induction l with
  | nil => simp [dedup']
  | cons x xs ih =>
    simp only [dedup', List.mem_cons, List.mem_filter, ih, ne_eq, decide_not, Bool.not_eq_eq_eq_not, Bool.not_true,
      decide_eq_false_iff_not]
    constructor
    · rintro (h | ⟨h, _⟩)
      · exact Or.inl h
      · exact Or.inr h
    · intro h
      by_cases e : a = x
      · exact Or.inl e
      · rcases h with h | h
        · exact absurd h e
        · exact Or.inr ⟨h, e⟩

theorem upgradeOrdering_perm (vs : List Var) : (upgradeOrdering vs).Perm (dedup' vs) := sortStable_perm _ _

theorem mem_upgradeOrdering (vs : List Var) (v : Var) : v ∈ upgradeOrdering vs ↔ v ∈ vs := by
  rw [(upgradeOrdering_perm vs).mem_iff, mem_dedup']

theorem mem_sortedVariables (vs : List Var) (v : Var) : v ∈ sortedVariables vs ↔ v ∈ vs :=
  (sortStable_perm _ _).mem_iff

theorem vars_nodup {ns : List Name} (h : ns.Nodup) : (vars ns).Nodup := by
  unfold vars
  refine List.Nodup.map ?_ h
  intro a b e
  have : (Var.plain a).name = (Var.plain b).name := by rw [e]
  exact this

theorem vars_names (ns : List Name) : (vars ns).map (·.name) = ns := by
  unfold vars
  rw [List.map_map]
  exact List.map_id'' (fun _ => rfl) ns

/-- the names of `_upgrade_ordering` of duplicate-free plain variables are a permutation of the names -/
theorem upgradeOrdering_vars_names {ns : List Name} (h : ns.Nodup) :
    ((upgradeOrdering (vars ns)).map (·.name)).Perm ns := by
  have h1 := upgradeOrdering_perm (vars ns)
  rw [dedup'_eq_of_nodup _ (vars_nodup h)] at h1
  have h2 := h1.map (·.name)
  rw [vars_names] at h2
  exact h2

/-! ### `Sum.safe` -/

theorem sumVars_zero (card : Name → Nat) (xs : List Name) (σ : Val) : sumVars card xs (fun _ => (0 : Rat)) σ = 0 := by
  induction xs generalizing σ with
  | nil => rfl
  | cons x xs ih =>
    simp only [sumVars]
    have : sumVars card xs (fun _ => (0 : Rat)) = fun _ => 0 := funext ih
    rw [this, sumVar_eq_sum]
    simp

theorem isZero_eq {e : Expr} (h : isZero e = true) : e = .zero := by
  cases e <;> simp_all [isZero]

theorem isOne_eq {e : Expr} (h : isOne e = true) : e = .one := by
  cases e <;> simp_all [isOne]

/-- `Sum.safe(e, ranges)` denotes the sum of `e` over the (de-duplicated) ranges -/
theorem den_sumSafe {e e' : Expr} {rs : List Var} (h : sumSafe e rs = .ok e') :
    den env σ' e' = sumVars env.card ((upgradeOrdering rs).map (·.name)) (den env σ' e) := by
  unfold sumSafe at h
  simp only at h
  split at h
  · rename_i hempty
    cases h
    have : upgradeOrdering rs = [] := by simpa using hempty
    rw [this]; rfl
  · split at h
    · rename_i hz
      cases h
      have := isZero_eq hz
      subst this
      funext σ
      have : den env σ' .zero = fun _ => 0 := funext fun τ => den_zero env σ' τ
      rw [this, sumVars_zero]
    · split at h
      · cases h
      · cases h
        exact den_sum env σ' e _

/-- for duplicate-free plain variables the sum is the iterated sum over the names, in any order -/
theorem den_sumSafe_vars {e e' : Expr} {ns : List Name} (hn : ns.Nodup) (h : sumSafe e (vars ns) = .ok e') :
    den env σ' e' = sumVars env.card ns (den env σ' e) := by
  rw [den_sumSafe env σ' h]
  exact sumVars_perm env.card (upgradeOrdering_vars_names hn) _

/-- `Sum.safe` never fails on plain variables -/
theorem sumSafe_vars_ok (e : Expr) (ns : List Name) : ∃ e', sumSafe e (vars ns) = .ok e' := by
  unfold sumSafe
  simp only
  split
  · exact ⟨_, rfl⟩
  · split
    · exact ⟨_, rfl⟩
    · split
      · rename_i h
        exfalso
        rcases List.any_eq_true.mp h with ⟨r, hr, hbad⟩
        rw [mem_upgradeOrdering] at hr
        unfold vars at hr
        rcases List.mem_map.mp hr with ⟨n, _, rfl⟩
        simp [Var.plain, Var.isCf] at hbad
      · exact ⟨_, rfl⟩

/-! ### `Product.safe` -/

theorem prod_filter_notOne (es : List Expr) (σ : Val) :
    ((es.filter fun e => !isOne e).map fun e => den env σ' e σ).prod = (es.map fun e => den env σ' e σ).prod := by
  induction es with
  | nil => rfl
  | cons e es ih =>
    by_cases h : isOne e = true
    · have he := isOne_eq h
      rw [List.filter_cons]
      simp only [h, Bool.not_true, Bool.false_eq_true, ↓reduceIte, List.map_cons, List.prod_cons]
      rw [ih, he, den_one, one_mul]
    · rw [List.filter_cons]
      simp only [h, Bool.not_false, ↓reduceIte, List.map_cons, List.prod_cons, ih]

/-- `Product.safe(es)` denotes the product of the factors -/
theorem den_productSafe (es : List Expr) (σ : Val) :
    den env σ' (productSafe es) σ = (es.map fun e => den env σ' e σ).prod := by
  rw [← prod_filter_notOne env σ' es σ]
  unfold productSafe
  simp only
  generalize (es.filter fun e => !isOne e) = fs
  split
  · rename_i hz
    rcases List.any_eq_true.mp hz with ⟨z, hz1, hz2⟩
    have := isZero_eq hz2
    subst this
    rw [den_zero]
    symm
    apply List.prod_eq_zero
    exact List.mem_map.mpr ⟨.zero, hz1, den_zero env σ' σ⟩
  · split
    · simp [den_one]
    · simp
    · rw [den_prod]
      exact ((sortStable_perm keyLt fs).map _).prod_eq

/-! ### `Fraction` -/

theorem den_mkFraction {n d e : Expr} (h : mkFraction n d = .ok e) (σ : Val) :
    den env σ' e σ = den env σ' n σ / den env σ' d σ := by
  unfold mkFraction at h
  split at h
  · cases h
  · cases h; exact den_frac env σ' n d σ

end TianDen
end Y0
