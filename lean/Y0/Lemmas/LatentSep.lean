/-
  Y0.Lemmas.LatentSep — d-connection among observed nodes inside the LV-DAG is preserved by the
  node-removing rules (2: widows, 3: single-child latents, 4: redundant latents).
-/
import Y0.Lemmas.LatentRules

namespace Y0.LV
open Relation

/-! ### generic facts -/

theorem SameSep.refl (D : LV) : SameSep D D := fun _ _ _ _ _ _ _ => Iff.rfl

theorem SameSep.trans {D D' D'' : LV} (h : SameSep D D') (hobs : ∀ v, D'.Observed v ↔ D.Observed v)
    (h' : SameSep D' D'') : SameSep D D'' := by
  intro Z a b hZ ha hb hab
  exact (h' Z a b (fun z hz => (hobs z).2 (hZ z hz)) ((hobs a).2 ha) ((hobs b).2 hb) hab).trans
    (h Z a b hZ ha hb hab)

/-- arriving "upwards" means arriving from a child -/
theorem Reach.up_has_child {D : LV} {Z : Nat → Prop} {a x : Nat} (h : D.Reach Z a x false) :
    ∃ c, D.Edge x c := by
  cases h with
  | startUp h => exact ⟨_, h⟩
  | collider _ _ h => exact ⟨_, h⟩
  | chainUp _ _ h => exact ⟨_, h⟩

/-- arriving "downwards" means arriving from a parent -/
theorem Reach.down_has_parent {D : LV} {Z : Nat → Prop} {a x : Nat} (h : D.Reach Z a x true) :
    ∃ p, D.Edge p x := by
  cases h with
  | startDown h => exact ⟨_, h⟩
  | chainDown _ _ h => exact ⟨_, h⟩
  | fork _ _ h => exact ⟨_, h⟩

theorem AnZ.mono {D D' : LV} {Z : Nat → Prop} {x : Nat} (he : ∀ a b, D'.Edge a b → D.Edge a b)
    (h : D'.AnZ Z x) : D.AnZ Z x := by
  obtain ⟨z, hz, hp⟩ := h
  exact ⟨z, hz, ReflTransGen.mono he _ _ hp⟩

/-- walks of a subgraph are walks of the graph -/
theorem Reach.mono {D D' : LV} {Z : Nat → Prop} {a x : Nat} {s : Bool}
    (he : ∀ a b, D'.Edge a b → D.Edge a b) (h : D'.Reach Z a x s) : D.Reach Z a x s := by
  induction h with
  | startDown h => exact .startDown (he _ _ h)
  | startUp h => exact .startUp (he _ _ h)
  | chainDown _ hz h ih => exact .chainDown ih hz (he _ _ h)
  | collider _ hz h ih => exact .collider ih (AnZ.mono he hz) (he _ _ h)
  | chainUp _ hz h ih => exact .chainUp ih hz (he _ _ h)
  | fork _ hz h ih => exact .fork ih hz (he _ _ h)

theorem removeNodes_edge_sub (D : LV) (S : List Nat) : ∀ a b, (D.removeNodes S).Edge a b → D.Edge a b :=
  fun a b h => ((edge_removeNodes D S a b).1 h).1

/-- a descending path from a kept node into `Z` survives when no node with an incoming edge and no
member of `Z` is removed… stated with the two facts that are used: removed nodes have no incoming
edge from a kept node on such a path -/
theorem anZ_removeNodes (D : LV) (S : List Nat) (Z : Nat → Prop) (x : Nat) (hx : x ∉ S)
    (hS : ∀ a b, D.Edge a b → a ∉ S → (∃ z, Z z ∧ ReflTransGen D.Edge b z) → b ∉ S)
    (h : D.AnZ Z x) : (D.removeNodes S).AnZ Z x := by
  obtain ⟨z, hz, hp⟩ := h
  refine ⟨z, hz, ?_⟩
  induction hp using ReflTransGen.head_induction_on with
  | refl => exact .refl
  | head hab hbz ih =>
    rename_i a b
    have hb : b ∉ S := hS a b hab hx ⟨z, hz, hbz⟩
    exact ReflTransGen.head ((edge_removeNodes D S a b).2 ⟨hab, hx, hb⟩) (ih hb)

/-! ### rule 2: widows -/

theorem removeWidows_sameSep (D : LV) (S : List Nat) (hS : ∀ s ∈ S, s ∈ D.latent)
    (hW : ∀ s ∈ S, ∀ c, ¬ D.Edge s c) : SameSep D (D.removeNodes S) := by
  intro Z a b hZ ha hb _
  have hobsS : ∀ x, D.Observed x → x ∉ S := fun x h hs => h.2 (hS x hs)
  have hZS : ∀ x, x ∈ S → ¬ Z x := fun x hs hz => (hZ x hz).2 (hS x hs)
  have hAn : ∀ x, x ∉ S → D.AnZ Z x → (D.removeNodes S).AnZ Z x := by
    intro x hx h
    apply anZ_removeNodes D S Z x hx _ h
    intro p q _ _ ⟨z, hz, hqz⟩ hq
    cases hqz using ReflTransGen.head_induction_on with
    | refl => exact hZS _ hq hz
    | head h _ => exact hW _ hq _ h
  have hAnS : ∀ x, x ∈ S → ¬ D.AnZ Z x := by
    rintro x hs ⟨z, hz, hp⟩
    cases hp using ReflTransGen.head_induction_on with
    | refl => exact hZS _ hs hz
    | head h _ => exact hW _ hs _ h
  constructor
  · rintro ⟨s, h⟩; exact ⟨s, h.mono (removeNodes_edge_sub D S)⟩
  · rintro ⟨s, h⟩
    refine ⟨s, ?_⟩
    have key : ∀ x s, D.Reach Z a x s → x ∉ S → (D.removeNodes S).Reach Z a x s := by
      intro x s h
      induction h with
      | startDown h => intro hc; exact .startDown ((edge_removeNodes D S _ _).2 ⟨h, hobsS a ha, hc⟩)
      | startUp h => intro hp; exact .startUp ((edge_removeNodes D S _ _).2 ⟨h, hp, hobsS a ha⟩)
      | @chainDown x c _ hz h ih =>
        intro hc
        have hx : x ∉ S := fun hs => hW x hs c h
        exact .chainDown (ih hx) hz ((edge_removeNodes D S _ _).2 ⟨h, hx, hc⟩)
      | @collider x p _ hz h ih =>
        intro hp
        have hx : x ∉ S := fun hs => hAnS x hs hz
        exact .collider (ih hx) (hAn x hx hz) ((edge_removeNodes D S _ _).2 ⟨h, hp, hx⟩)
      | @chainUp x p hr hz h ih =>
        intro hp
        obtain ⟨c, hc⟩ := hr.up_has_child
        have hx : x ∉ S := fun hs => hW x hs c hc
        exact .chainUp (ih hx) hz ((edge_removeNodes D S _ _).2 ⟨h, hp, hx⟩)
      | @fork x c _ hz h ih =>
        intro hc
        have hx : x ∉ S := fun hs => hW x hs c h
        exact .fork (ih hx) hz ((edge_removeNodes D S _ _).2 ⟨h, hx, hc⟩)
    exact key b s h (hobsS b hb)

/-! ### rules 3 and 4: removing exogenous latents of a flat graph -/

theorem removeLatents_sameSep_flat (D : LV) (hf : D.Flat) (S : List Nat) (hS : ∀ s ∈ S, s ∈ D.latent)
    (hcover : ∀ s ∈ S, ∀ u w, u ≠ w → D.Edge s u → D.Edge s w →
      ∃ r, r ∈ D.latent ∧ r ∉ S ∧ D.Edge r u ∧ D.Edge r w) :
    SameSep D (D.removeNodes S) := by
  intro Z a b hZ ha hb hab
  have hobsS : ∀ x, D.Observed x → x ∉ S := fun x h hs => h.2 (hS x hs)
  have hlatZ : ∀ x, x ∈ D.latent → ¬ Z x := fun x hl hz => (hZ x hz).2 hl
  have htgt : ∀ p q, D.Edge p q → q ∉ S := fun p q h hs => hf _ h (hS q hs)
  have hAn : ∀ x, x ∉ S → D.AnZ Z x → (D.removeNodes S).AnZ Z x := by
    intro x hx h
    exact anZ_removeNodes D S Z x hx (fun p q hpq _ _ => htgt p q hpq) h
  constructor
  · rintro ⟨s, h⟩; exact ⟨s, h.mono (removeNodes_edge_sub D S)⟩
  · rintro ⟨s, h⟩
    set D' := D.removeNodes S with hD'
    have hE : ∀ p q, D.Edge p q → p ∉ S → D'.Edge p q := fun p q h hp =>
      (edge_removeNodes D S _ _).2 ⟨h, hp, htgt p q h⟩
    -- what "arrived at x going down" is weakened to
    let GoodDown : Nat → Prop := fun x => D'.Reach Z a x true ∨ x = a ∨ (D'.Reach Z a x false ∧ ¬ Z x)
    -- from c one may legally step up to any parent of c in D'
    let CanUp : Nat → Prop := fun c =>
      c = a ∨ (D'.Reach Z a c false ∧ ¬ Z c) ∨ (D'.Reach Z a c true ∧ D'.AnZ Z c)
    have stepDown : ∀ x c, GoodDown x → ¬ Z x → D'.Edge x c → D'.Reach Z a c true := by
      rintro x c (h | rfl | ⟨h, _⟩) hz he
      · exact .chainDown h hz he
      · exact .startDown he
      · exact .fork h hz he
    have canUpOfGood : ∀ x, GoodDown x → D'.AnZ Z x → CanUp x := by
      rintro x (h | rfl | ⟨h, hz⟩) han
      · exact Or.inr (Or.inr ⟨h, han⟩)
      · exact Or.inl rfl
      · exact Or.inr (Or.inl ⟨h, hz⟩)
    have stepUp : ∀ c q, CanUp c → D'.Edge q c → D'.Reach Z a q false := by
      rintro c q (rfl | ⟨h, hz⟩ | ⟨h, han⟩) he
      · exact .startUp he
      · exact .chainUp h hz he
      · exact .collider h han he
    have goodOfCanUp : ∀ c, CanUp c → GoodDown c := by
      rintro c (rfl | ⟨h, hz⟩ | ⟨h, _⟩)
      · exact Or.inr (Or.inl rfl)
      · exact Or.inr (Or.inr ⟨h, hz⟩)
      · exact Or.inl h
    have key : ∀ x s, D.Reach Z a x s →
        (x ∉ S → (s = true → GoodDown x) ∧ (s = false → D'.Reach Z a x false)) ∧
        (x ∈ S → s = false ∧ ∃ c, D.Edge x c ∧ CanUp c) := by
      intro x s h
      induction h with
      | @startDown c h =>
        have hc := htgt _ _ h
        exact ⟨fun _ => ⟨fun _ => Or.inl (.startDown (hE _ _ h (hobsS a ha))), (fun e => by cases e)⟩,
          fun hs => absurd hs hc⟩
      | @startUp p h =>
        refine ⟨fun hp => ⟨(fun e => by cases e), fun _ => .startUp (hE _ _ h hp)⟩, fun _ => ⟨rfl, a, h, Or.inl rfl⟩⟩
      | @chainDown x c _ hz h ih =>
        have hc := htgt _ _ h
        have hx : x ∉ S := fun hs => by have := (ih.2 hs).1; cases this
        have hg := (ih.1 hx).1 rfl
        exact ⟨fun _ => ⟨fun _ => Or.inl (stepDown x c hg hz (hE _ _ h hx)), (fun e => by cases e)⟩,
          fun hs => absurd hs hc⟩
      | @collider x p _ hz h ih =>
        have hx : x ∉ S := fun hs => by have := (ih.2 hs).1; cases this
        have hg := (ih.1 hx).1 rfl
        have hcu := canUpOfGood x hg (hAn x hx hz)
        exact ⟨fun hp => ⟨(fun e => by cases e), fun _ => stepUp x p hcu (hE _ _ h hp)⟩,
          fun _ => ⟨rfl, x, h, hcu⟩⟩
      | @chainUp x p _ hz h ih =>
        have hx : x ∉ S := htgt _ _ h
        have hr := (ih.1 hx).2 rfl
        have hcu : CanUp x := Or.inr (Or.inl ⟨hr, hz⟩)
        exact ⟨fun hp => ⟨(fun e => by cases e), fun _ => stepUp x p hcu (hE _ _ h hp)⟩,
          fun _ => ⟨rfl, x, h, hcu⟩⟩
      | @fork x c _ hz h ih =>
        have hc := htgt _ _ h
        refine ⟨fun _ => ⟨fun _ => ?_, (fun e => by cases e)⟩, fun hs => absurd hs hc⟩
        by_cases hx : x ∈ S
        · obtain ⟨_, c0, hc0, hcu⟩ := ih.2 hx
          by_cases hcc : c0 = c
          · subst hcc; exact goodOfCanUp c0 hcu
          · obtain ⟨r, hr, hrS, hr0, hrc⟩ := hcover x hx c0 c hcc hc0 h
            have h1 : D'.Reach Z a r false := stepUp c0 r hcu (hE _ _ hr0 hrS)
            exact Or.inl (.fork h1 (hlatZ r hr) (hE _ _ hrc hrS))
        · exact Or.inl (.fork ((ih.1 hx).2 rfl) hz (hE _ _ h hx))
    obtain ⟨k1, _⟩ := key b s h
    obtain ⟨kd, ku⟩ := k1 (hobsS b hb)
    cases s with
    | false => exact ⟨false, ku rfl⟩
    | true =>
      rcases kd rfl with h | h | ⟨h, _⟩
      · exact ⟨true, h⟩
      · exact absurd h.symm hab
      · exact ⟨false, h⟩

end Y0.LV
