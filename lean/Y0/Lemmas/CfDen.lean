/-
  Y0.Lemmas.CfDen — the READING of an ID* estimand in a functional SCM (the reading fixed by property C07: "read with the
  event's own values for its outcome variables and literal values for intervention subscripts"), for the estimands ID* builds
  (`P[S](V…)`, products, sums, One, Zero), and the marginalisation lemma for `Sum`.

  `cden M ν dom e σ`:  `σ` gives the current value of every variable (initially the event's values; a `Sum` over `Z` re-binds
  `σ Z`); a leaf `P(V_S, …)` is the probability that every child `V` takes the value `σ V` in the world `S`, where an unstarred
  subscript `-X` is read as `σ X` and a starred one `+X` as the literal `ν X true`.
-/
import Y0.Lemmas.CfLocal
import Y0.Lemmas.CfIdStar

namespace Y0.Cf
open Fscm

/-- base values under which `-X` reads as `σ X` -/
def nuOf (ν : BaseValues) (σ : Valuation) : BaseValues := fun n b => if b then ν n true else σ n

/-- the conjunct a child of a leaf stands for -/
def leafConj (ν : BaseValues) (σ : Valuation) (c : Var) : Conjunct := conjunctOf (nuOf ν σ) (c, ⟨c.name, false⟩)

/-- all assignments of values below `dom` to the variables `rs`, on top of `σ` -/
def assignments (dom : Name → Nat) : List Name → Valuation → List Valuation
  | [], σ => [σ]
  | r :: rs, σ => (List.range (dom r)).flatMap fun x => assignments dom rs (update σ r x)

/-- `Σ_{rs} F` -/
def sumOver (dom : Name → Nat) (rs : List Name) (F : Valuation → Rat) (σ : Valuation) : Rat :=
  ((assignments dom rs σ).map F).sum

mutual
/-- the reading of an estimand -/
def cden (M : Model) (ν : BaseValues) (dom : Name → Nat) : Expr → Valuation → Rat
  | .prob _ cs _, σ => prob M (cs.map (leafConj ν σ))
  | .prod fs, σ => cdenProd M ν dom fs σ
  | .sum e rs, σ => sumOver dom (rs.map (·.name)) (fun τ => cden M ν dom e τ) σ
  | .frac n d, σ => cden M ν dom n σ / cden M ν dom d σ
  | .one, _ => 1
  | .zero, _ => 0
  | .q _ _, _ => 0
def cdenProd (M : Model) (ν : BaseValues) (dom : Name → Nat) : List Expr → Valuation → Rat
  | [], _ => 1
  | e :: es, σ => cden M ν dom e σ * cdenProd M ν dom es σ
end

theorem sumOver_nil (dom : Name → Nat) (F : Valuation → Rat) (σ : Valuation) : sumOver dom [] F σ = F σ := by
  simp [sumOver, assignments]

theorem sumOver_cons (dom : Name → Nat) (r : Name) (rs : List Name) (F : Valuation → Rat) (σ : Valuation) :
    sumOver dom (r :: rs) F σ = ((List.range (dom r)).map fun x => sumOver dom rs F (update σ r x)).sum := by
  unfold sumOver
  simp only [assignments]
  rw [sum_map_flatMap']

theorem sumOver_congr (dom : Name → Nat) (rs : List Name) (F F' : Valuation → Rat) (h : ∀ τ, F τ = F' τ) (σ : Valuation) :
    sumOver dom rs F σ = sumOver dom rs F' σ := by
  have : F = F' := funext h
  rw [this]

theorem sumOver_zero (dom : Name → Nat) (rs : List Name) (σ : Valuation) : sumOver dom rs (fun _ => 0) σ = 0 := by
  unfold sumOver
  simp

theorem cdenProd_eq (M : Model) (ν : BaseValues) (dom : Name → Nat) (fs : List Expr) (σ : Valuation) :
    cdenProd M ν dom fs σ = (fs.map fun f => cden M ν dom f σ).prod := by
  induction fs with
  | nil => simp [cdenProd]
  | cons f fs ih => simp [cdenProd, ih]

/-- `Product.safe` denotes the product -/
theorem cden_productSafe (M : Model) (ν : BaseValues) (dom : Name → Nat) (fs : List Expr) (σ : Valuation) :
    cden M ν dom (productSafe fs) σ = (fs.map fun f => cden M ν dom f σ).prod := by
  have hfilter : ((fs.filter fun e => !isOneE e).map fun f => cden M ν dom f σ).prod =
      (fs.map fun f => cden M ν dom f σ).prod := by
    induction fs with
    | nil => rfl
    | cons f fs ih =>
      simp only [List.filter_cons]
      cases hf : isOneE f with
      | true =>
        simp only [Bool.not_true, Bool.false_eq_true, ↓reduceIte, List.map_cons, List.prod_cons, ih]
        cases f <;> simp [isOneE] at hf
        simp [cden]
      | false =>
        simp only [Bool.not_false, ↓reduceIte, List.map_cons, List.prod_cons, ih]
  unfold productSafe
  simp only
  rw [← hfilter]
  generalize fs.filter (fun e => !isOneE e) = es
  split
  · rename_i hz
    rw [List.any_eq_true] at hz
    obtain ⟨z, hz, hzz⟩ := hz
    have hz0 : cden M ν dom z σ = 0 := by
      cases z <;> simp [isZeroE] at hzz
      simp [cden]
    have : (0 : Rat) ∈ es.map fun f => cden M ν dom f σ := List.mem_map.2 ⟨z, hz, hz0⟩
    simp only [cden]
    exact (List.prod_eq_zero this).symm
  · split
    · simp [cden]
    · simp
    · simp only [cden]
      exact cdenProd_eq M ν dom _ σ

/-- `Sum.safe` denotes the sum over the (sorted, de-duplicated) ranges -/
theorem cden_sumSafe (M : Model) (ν : BaseValues) (dom : Name → Nat) (e : Expr) (ranges : List Name) (σ : Valuation) :
    cden M ν dom (sumSafe e ranges) σ =
      sumOver dom ((upgradeOrdering (ranges.map Var.plain)).map (·.name)) (fun τ => cden M ν dom e τ) σ := by
  unfold sumSafe
  simp only
  split
  · rename_i hemp
    have : upgradeOrdering (ranges.map Var.plain) = [] := by simpa using hemp
    rw [this]
    simp [sumOver_nil]
  · split
    · rename_i hz
      have he : e = .zero := by cases e <;> simp [isZeroE] at hz; rfl
      subst he
      simp only [cden]
      exact (sumOver_zero dom _ σ).symm
    · simp only [cden]

end Y0.Cf

namespace Y0.Cf
open Fscm

/-! ## marginalisation -/

theorem holds_iff (M : Model) (u : NoisePoint) (c : Conjunct) : holds M u c = true ↔ solve M u c.world c.var = c.val := by
  simp [holds]

/-- summing out ONE variable of a joint event -/
theorem sum_prob_single (M : Model) (dom : Name → Nat) (T : List Name)
    (d : Valuation → Do) (σ : Valuation) (r : Name) (hdom : ∀ u, solve M u (d σ) r < dom r) (hr : r ∈ T)
    (hdr : ∀ x, d (update σ r x) = d σ) :
    ((List.range (dom r)).map fun x => prob M (T.map fun V => ⟨V, d (update σ r x), (update σ r x) V⟩)).sum =
      prob M ((T.filter (· ≠ r)).map fun V => ⟨V, d σ, σ V⟩) := by
  have hterm : ∀ x, prob M (T.map fun V => ⟨V, d (update σ r x), (update σ r x) V⟩) =
      mass M.noise (fun u => ((T.filter (· ≠ r)).all fun V => holds M u ⟨V, d σ, σ V⟩) &&
        decide (solve M u (d σ) r = x)) := by
    intro x
    rw [prob_eq_mass, hdr x]
    apply mass_congr
    intro u
    apply Bool.eq_iff_iff.2
    simp only [List.all_eq_true, List.mem_map, forall_exists_index, and_imp, forall_apply_eq_imp_iff₂, Bool.and_eq_true,
      List.mem_filter, decide_eq_true_eq, holds_iff]
    constructor
    · intro h
      refine ⟨fun V hV hVr => ?_, ?_⟩
      · have := h V hV
        simp only [update, if_neg hVr] at this
        exact this
      · have := h r hr
        simpa [update] using this
    · rintro ⟨h1, h2⟩ V hV
      by_cases hVr : V = r
      · subst hVr
        simpa [update] using h2
      · have := h1 V hV hVr
        simp only [update, if_neg hVr]
        exact this
  rw [List.map_congr_left (fun x _ => hterm x)]
  rw [mass_sum_values M.noise _ (fun u => solve M u (d σ) r) (dom r) hdom, prob_eq_mass]
  apply mass_congr
  intro u
  simp [List.all_map]

/-- **marginalisation**: summing a joint event over the variables `rs` (part of the event, not mentioned by the world) leaves
the joint event of the other variables -/
theorem sumOver_prob (M : Model) (dom : Name → Nat) (T : List Name)
    (d : Valuation → Do) (rs : List Name) (hdom : ∀ r ∈ rs, ∀ σ u, solve M u (d σ) r < dom r) (hrs : rs.Nodup)
    (hsub : ∀ r ∈ rs, r ∈ T)
    (hd : ∀ r ∈ rs, ∀ σ x, d (update σ r x) = d σ) (σ : Valuation) :
    sumOver dom rs (fun τ => prob M (T.map fun V => ⟨V, d τ, τ V⟩)) σ =
      prob M ((T.filter (· ∉ rs)).map fun V => ⟨V, d σ, σ V⟩) := by
  induction rs generalizing σ with
  | nil => simp [sumOver_nil]
  | cons r rs ih =>
    rw [sumOver_cons]
    rw [List.nodup_cons] at hrs
    have ih' := fun τ => ih (fun r' hr' => hdom r' (by simp [hr'])) hrs.2 (fun r' hr' => hsub r' (by simp [hr']))
      (fun r' hr' => hd r' (by simp [hr'])) τ
    rw [List.map_congr_left (fun x _ => ih' (update σ r x))]
    have hrT' : r ∈ T.filter (· ∉ rs) := by
      rw [List.mem_filter]
      exact ⟨hsub r (by simp), by simpa using hrs.1⟩
    rw [sum_prob_single M dom (T.filter (· ∉ rs)) d σ r (hdom r (by simp) σ) hrT' (hd r (by simp) σ)]
    congr 2
    rw [List.filter_filter]
    apply List.filter_congr
    intro V _
    by_cases h1 : V = r <;> by_cases h2 : V ∈ rs <;> simp [h1, h2]

/-! ## worlds as sets of subscripts -/

theorem forced_worldOf_none' (ν : BaseValues) (S : List Iv) (a : Name) (ha : a ∉ S.map (·.name)) :
    forced (worldOf ν S) a = none := by
  unfold forced worldOf
  simp only [Option.map_eq_none_iff, List.find?_eq_none, List.mem_map, decide_eq_true_eq]
  rintro _ ⟨i, hi, rfl⟩ hia
  exact ha (List.mem_map.2 ⟨i, hi, hia⟩)

/-- a consistent subscript set matters only as a set -/
theorem forced_worldOf_congr (ν : BaseValues) (S₁ S₂ : List Iv) (hmem : ∀ i, i ∈ S₁ ↔ i ∈ S₂) (h1 : ConsistentSubs S₁)
    (h2 : ConsistentSubs S₂) (v : Name) : forced (worldOf ν S₁) v = forced (worldOf ν S₂) v := by
  by_cases hv : v ∈ S₁.map (·.name)
  · obtain ⟨i, hi, rfl⟩ := List.mem_map.1 hv
    rw [forced_worldOf ν S₁ i hi h1, forced_worldOf ν S₂ i ((hmem i).1 hi) h2]
  · have hv2 : v ∉ S₂.map (·.name) := by
      intro h
      obtain ⟨i, hi, rfl⟩ := List.mem_map.1 h
      exact hv (List.mem_map.2 ⟨i, (hmem i).2 hi, rfl⟩)
    rw [forced_worldOf_none' ν S₁ v hv, forced_worldOf_none' ν S₂ v hv2]

/-- two lists of conjuncts that are pointwise equivalent have the same probability -/
theorem prob_congr_conj (M : Model) (L₁ L₂ : List Conjunct)
    (h12 : ∀ c ∈ L₁, ∃ c' ∈ L₂, ∀ u, holds M u c' = holds M u c)
    (h21 : ∀ c ∈ L₂, ∃ c' ∈ L₁, ∀ u, holds M u c' = holds M u c) : prob M L₁ = prob M L₂ := by
  apply prob_congr
  intro u
  apply Bool.eq_iff_iff.2
  simp only [List.all_eq_true]
  constructor
  · intro h c hc
    obtain ⟨c', hc', he⟩ := h21 c hc
    rw [← he u]; exact h c' hc'
  · intro h c hc
    obtain ⟨c', hc', he⟩ := h12 c hc
    rw [← he u]; exact h c' hc'

/-- conjuncts about the same variable and value in worlds that force the same things hold together -/
theorem holds_congr_world (M : Model) (u : NoisePoint) (V : Name) (d₁ d₂ : Do) (x : Nat)
    (h : ∀ v, forced d₁ v = forced d₂ v) : holds M u ⟨V, d₁, x⟩ = holds M u ⟨V, d₂, x⟩ := by
  unfold holds
  simp only
  rw [solve_congr_forced M u d₁ d₂ h]

end Y0.Cf
