/-
  Y0.Lemmas.SepWalk — the classical theorem behind the moralisation criterion (Lauritzen et al. 1990 for DAGs,
  Richardson 2003 for mixed graphs), here for arbitrary directed mixed graphs and *walks*:

      a, b connected in the augmented ancestral graph of {a, b} ∪ C minus C
        ⟺  there is a walk from a to b on which every collider is an ancestor of C and every
            non-collider is outside C                                        (`augConnected_iff_mwalk`)

  (⇒) grows an open walk along the connection, re-routing through `a` or straight down to `b` whenever a
      collider is not an ancestor of `C`;  (⇐) cuts an open walk at its non-colliders, each piece being a
      collider path, i.e. an edge of the augmented graph.  No acyclicity is needed.
-/
import Y0.Spec.SepSpec

namespace Y0.MG
variable {α : Type}
open Relation

/-! ### ancestors -/

theorem anc_of_mem (G : MG α) {S : List α} {s : α} (h : s ∈ S) : G.Anc S s := ⟨s, h, .refl⟩

theorem anc_of_edge (G : MG α) {S : List α} {u v : α} (h : G.DiEdge u v) (hv : G.Anc S v) : G.Anc S u := by
  obtain ⟨s, hs, hvs⟩ := hv
  exact ⟨s, hs, .head h hvs⟩

theorem anc_of_rtg (G : MG α) {S : List α} {u v : α} (h : ReflTransGen G.DiEdge u v) (hv : G.Anc S v) :
    G.Anc S u := by
  obtain ⟨s, hs, hvs⟩ := hv
  exact ⟨s, hs, h.trans hvs⟩

theorem anc_trans (G : MG α) {S T : List α} (h : ∀ s ∈ S, G.Anc T s) {v : α} (hv : G.Anc S v) : G.Anc T v := by
  obtain ⟨s, hs, hvs⟩ := hv
  exact anc_of_rtg G hvs (h s hs)

theorem anc_subset (G : MG α) {S T : List α} (h : ∀ s ∈ S, s ∈ T) {v : α} (hv : G.Anc S v) : G.Anc T v :=
  anc_trans G (fun s hs => anc_of_mem G (h s hs)) hv

theorem not_mem_of_not_anc (G : MG α) {C : List α} {u : α} (h : ¬ G.Anc C u) : u ∉ C :=
  fun hu => h (anc_of_mem G hu)

theorem mwalk_none_eq {G : MG α} {C : List α} {a y : α} (h : G.MWalk C a y none) : y = a := by
  cases h; rfl

/-! ### (⇒)  from a connection in the augmented graph to an open walk -/

section forward
variable (G : MG α) (C : List α) (a b : α)

/-- follow a directed path downwards from a node that is not an ancestor of `C` -/
theorem mwalk_down {u t : α} (h : ReflTransGen G.DiEdge u t) :
    ∀ m, G.MWalk C a u m → ¬ G.Anc C u → ∃ m', G.MWalk C a t m' := by
  induction h using ReflTransGen.head_induction_on with
  | refl => intro m hw _; exact ⟨m, hw⟩
  | head huw _ ih =>
    intro m hw hnu
    refine ih (some .head) (.snoc hw (.fwd huw) (fun h => by cases h.2) (fun _ _ => not_mem_of_not_anc G hnu)) ?_
    exact fun hw' => hnu (anc_of_edge G huw hw')

/-- walk from `a` up a directed path `u → … → a` (traversed against the arrows) -/
theorem mwalk_up {u : α} (h : ReflTransGen G.DiEdge u a) :
    ¬ G.Anc C u → ∃ m, G.MWalk C a u m ∧ m ≠ some .head := by
  induction h using ReflTransGen.head_induction_on with
  | refl => intro _; exact ⟨none, .nil, by simp⟩
  | @head u w huw _ ih =>
    intro hnu
    have hnw : ¬ G.Anc C w := fun hw' => hnu (anc_of_edge G huw hw')
    obtain ⟨m, hw, hm⟩ := ih hnw
    exact ⟨some .tail, .snoc hw (.bwd huw) (fun h => absurd h.1 hm) (fun _ _ => not_mem_of_not_anc G hnw), by simp⟩

/-- an open walk to `u` that may be continued from `u` with an arrowhead at `u`, and — when `u ∉ C` — with any edge -/
def Ready (u : α) : Prop :=
  ∃ m, G.MWalk C a u m ∧ (m = some .head → G.Anc C u) ∧ (m ≠ some .head → u ∉ C)

/-- either `b` has been reached by an open walk, or `u` has been reached and can be left -/
def Q (u : α) : Prop := (∃ m, G.MWalk C a b m) ∨ Ready G C a u

theorem anc_cases {u : α} (h : G.Anc (a :: b :: C) u) :
    G.Anc C u ∨ ReflTransGen G.DiEdge u a ∨ ReflTransGen G.DiEdge u b := by
  obtain ⟨s, hs, hus⟩ := h
  rcases List.mem_cons.1 hs with rfl | hs
  · exact Or.inr (Or.inl hus)
  · rcases List.mem_cons.1 hs with rfl | hs
    · exact Or.inr (Or.inr hus)
    · exact Or.inl ⟨s, hs, hus⟩

theorem q_normalize {u : α} {m : Option Mark} (hw : G.MWalk C a u m) (hP : G.Anc (a :: b :: C) u)
    (hm : m ≠ some .head → u ∉ C) : Q G C a b u := by
  by_cases hA : G.Anc C u
  · by_cases hh : m = some .head
    · exact Or.inr ⟨m, hw, fun _ => hA, fun h => absurd hh h⟩
    · exact Or.inr ⟨m, hw, fun h => absurd h hh, hm⟩
  · by_cases hh : m = some .head
    · rcases anc_cases G C a b hP with h | h | h
      · exact absurd h hA
      · obtain ⟨m', hw', hm'⟩ := mwalk_up G C a h hA
        exact Or.inr ⟨m', hw', fun h' => absurd h' hm', fun _ => not_mem_of_not_anc G hA⟩
      · exact Or.inl (mwalk_down G C a h m hw hA)
    · exact Or.inr ⟨m, hw, fun h => absurd h hh, hm⟩

theorem ready_extend {u z : α} {mu mz : Mark} (hr : Ready G C a u) (he : G.EdgeM u mu mz z)
    (h : mu = .head ∨ u ∉ C) : G.MWalk C a z (some mz) := by
  obtain ⟨m, hw, h1, h2⟩ := hr
  refine .snoc hw he (fun hc => h1 hc.1) (fun _ hnc => ?_)
  by_cases hh : m = some .head
  · rcases h with h | h
    · exact absurd ⟨hh, h⟩ hnc
    · exact h
  · exact h2 hh

theorem q_bi {c c' : α} (hq : Q G C a b c) (he : G.BiEdge c c') (hP : G.Anc (a :: b :: C) c') :
    Q G C a b c' := by
  rcases hq with hq | hq
  · exact Or.inl hq
  · exact q_normalize G C a b (ready_extend G C a hq (.bi he) (Or.inl rfl)) hP (fun h => absurd rfl h)

theorem q_in {u x : α} (hq : Q G C a b u) (hu : u ∉ C) (he : G.DiEdge u x) (hP : G.Anc (a :: b :: C) x) :
    Q G C a b x := by
  rcases hq with hq | hq
  · exact Or.inl hq
  · exact q_normalize G C a b (ready_extend G C a hq (.fwd he) (Or.inr hu)) hP (fun h => absurd rfl h)

theorem q_out {y v : α} (hq : Q G C a b y) (he : G.DiEdge v y) (hv : v ∉ C) : Q G C a b v := by
  rcases hq with hq | hq
  · exact Or.inl hq
  · exact Or.inr ⟨some .tail, ready_extend G C a hq (.bwd he) (Or.inl rfl), (fun h => by cases h), fun _ => hv⟩

theorem q_chain {x y : α} (hq : Q G C a b x) (h : ReflTransGen (G.BiIn (G.Anc (a :: b :: C))) x y) :
    Q G C a b y := by
  induction h with
  | refl => exact hq
  | tail _ hbc ih => exact q_bi G C a b ih hbc.1 hbc.2.2

theorem q_step {u v : α} (hq : Q G C a b u) (h : G.AugStep a b C u v) : Q G C a b v := by
  obtain ⟨⟨_, hPv, h | ⟨x, y, hPx, _, hc, hux, hvy⟩⟩, hu, hv⟩ := h
  · rcases h with h | h | h
    · exact q_in G C a b hq hu h hPv
    · exact q_out G C a b hq h hv
    · exact q_bi G C a b hq h hPv
  · have hqx : Q G C a b x := by
      rcases hux with rfl | hux
      · exact hq
      · exact q_in G C a b hq hu hux hPx
    have hqy := q_chain G C a b hqx hc
    rcases hvy with rfl | hvy
    · exact hqy
    · exact q_out G C a b hqy hvy hv

/-- (⇒) -/
theorem mwalk_of_augConnected (ha : a ∉ C) (h : G.AugConnected a b C) : ∃ m, G.MWalk C a b m := by
  have key : ∀ v, ReflTransGen (G.AugStep a b C) a v → Q G C a b v := by
    intro v hv
    induction hv with
    | refl => exact Or.inr ⟨none, .nil, (fun h => by cases h), fun _ => ha⟩
    | tail _ hbc ih => exact q_step G C a b ih hbc
  have hq : Q G C a b b := key b h
  rcases hq with hq | ⟨m, hw, _⟩
  · exact hq
  · exact ⟨m, hw⟩

end forward

/-! ### (⇐)  from an open walk to a connection in the augmented graph -/

theorem biIn_mono (G : MG α) {P P' : α → Prop} (h : ∀ w, P w → P' w) {x y : α}
    (hc : ReflTransGen (G.BiIn P) x y) : ReflTransGen (G.BiIn P') x y :=
  ReflTransGen.mono (fun _ _ hxy => ⟨hxy.1, h _ hxy.2.1, h _ hxy.2.2⟩) _ _ hc

theorem augEdge_mono (G : MG α) {P P' : α → Prop} (h : ∀ w, P w → P' w) {u v : α}
    (he : G.AugEdge P u v) : G.AugEdge P' u v := by
  obtain ⟨hu, hv, he | ⟨x, y, hx, hy, hc, hux, hvy⟩⟩ := he
  · exact ⟨h _ hu, h _ hv, Or.inl he⟩
  · exact ⟨h _ hu, h _ hv, Or.inr ⟨x, y, h _ hx, h _ hy, biIn_mono G h hc, hux, hvy⟩⟩

section backward
variable (G : MG α) (C : List α) (a : α)

/-- the part of the walk since the last non-collider `j`: either we sit on a candidate non-collider `y`
(already adjacent to `j` in the augmented graph, or `y = j`), or we are inside a collider section that
started at `j` -/
def Seg (j y : α) (m : Option Mark) : Prop :=
  j ∉ C ∧ G.Anc (a :: y :: C) j ∧
    ((m ≠ some .head ∧ (j = y ∨ G.AugEdge (G.Anc (a :: y :: C)) j y)) ∨
     (m = some .head ∧ ∃ x, G.Anc (a :: y :: C) x ∧ (j = x ∨ G.DiEdge j x) ∧
        ReflTransGen (G.BiIn (G.Anc (a :: y :: C))) x y))

theorem mwalk_inv (ha : a ∉ C) {y : α} {m : Option Mark} (hw : G.MWalk C a y m) :
    (m = some .tail → G.Anc (a :: C) y) ∧ ∃ j, ReflTransGen (G.AugStep a y C) a j ∧ Seg G C a j y m := by
  induction hw with
  | nil =>
    refine ⟨(fun h => by cases h), a, .refl, ha, anc_of_mem G (by simp), Or.inl ⟨by simp, Or.inl rfl⟩⟩
  | @snoc y z m my mz hw he c1 c2 ih =>
    obtain ⟨ihA, j, hreach, hj, hPj, hseg⟩ := ih
    -- `y` is an ancestor of `a` or `C` whenever the new edge has an arrowhead at `y`
    have hyA : my = .head → G.Anc (a :: C) y := by
      intro hmy
      cases m with
      | none => rw [mwalk_none_eq hw]; exact anc_of_mem G (by simp)
      | some mm =>
        cases mm with
        | tail => exact ihA rfl
        | head => exact anc_subset G (fun s hs => by simp [hs]) (c1 ⟨rfl, hmy⟩)
    -- the ancestral set only grows
    have hmono : ∀ w, G.Anc (a :: y :: C) w → G.Anc (a :: z :: C) w := by
      intro w hw'
      apply anc_trans G _ hw'
      intro s hs
      rcases List.mem_cons.1 hs with rfl | hs
      · exact anc_of_mem G (by simp)
      · rcases List.mem_cons.1 hs with rfl | hs
        · cases he with
          | fwd h => exact anc_of_edge G h (anc_of_mem G (by simp))
          | bwd h => exact anc_subset G (fun t ht => by
              rcases List.mem_cons.1 ht with rfl | ht <;> simp [*]) (hyA rfl)
          | bi h => exact anc_subset G (fun t ht => by
              rcases List.mem_cons.1 ht with rfl | ht <;> simp [*]) (hyA rfl)
        · exact anc_of_mem G (by simp [hs])
    have hreach' : ReflTransGen (G.AugStep a z C) a j :=
      ReflTransGen.mono (fun u v huv => ⟨augEdge_mono G hmono huv.1, huv.2⟩) _ _ hreach
    have hPz : G.Anc (a :: z :: C) z := anc_of_mem G (by simp)
    have hPy : G.Anc (a :: z :: C) y := hmono y (anc_of_mem G (by simp))
    refine ⟨?_, ?_⟩
    · intro hmz
      cases he with
      | fwd h => cases hmz
      | bwd h => exact anc_of_edge G h (hyA rfl)
      | bi h => cases hmz
    · rcases hseg with ⟨hm, hjy⟩ | ⟨hm, x, hPx, hjx, hc⟩
      · -- `y` is a non-collider (or the start): it is outside `C` and reached in the augmented graph
        have hyC : y ∉ C := by
          cases m with
          | none => rw [mwalk_none_eq hw]; exact ha
          | some mm => exact c2 (by simp) (fun h => hm h.1)
        have hreachy : ReflTransGen (G.AugStep a z C) a y := by
          rcases hjy with rfl | hjy
          · exact hreach'
          · exact hreach'.tail ⟨augEdge_mono G hmono hjy, hj, hyC⟩
        refine ⟨y, hreachy, hyC, hPy, ?_⟩
        cases he with
        | fwd h => exact Or.inr ⟨rfl, z, hPz, Or.inr h, .refl⟩
        | bwd h => exact Or.inl ⟨by simp, Or.inr ⟨hPy, hPz, Or.inl (Or.inr (Or.inl h))⟩⟩
        | bi h => exact Or.inr ⟨rfl, y, hPy, Or.inl rfl, .single ⟨h, hPy, hPz⟩⟩
      · have hc' := biIn_mono G hmono hc
        cases he with
        | fwd h =>
          -- `y` is a non-collider ending a collider section
          have hyC : y ∉ C := c2 (by simp [hm]) (fun h' => by cases h'.2)
          have hreachy : ReflTransGen (G.AugStep a z C) a y :=
            hreach'.tail ⟨⟨hmono j hPj, hPy, Or.inr ⟨x, y, hmono x hPx, hPy, hc', hjx, Or.inl rfl⟩⟩, hj, hyC⟩
          exact ⟨y, hreachy, hyC, hPy, Or.inr ⟨rfl, z, hPz, Or.inr h, .refl⟩⟩
        | bwd h =>
          exact ⟨j, hreach', hj, hmono j hPj, Or.inl ⟨by simp,
            Or.inr ⟨hmono j hPj, hPz, Or.inr ⟨x, y, hmono x hPx, hPy, hc', hjx, Or.inr h⟩⟩⟩⟩
        | bi h =>
          exact ⟨j, hreach', hj, hmono j hPj, Or.inr ⟨rfl, x, hmono x hPx, hjx, hc'.tail ⟨h, hPy, hPz⟩⟩⟩

/-- (⇐) -/
theorem augConnected_of_mwalk (ha : a ∉ C) {b : α} (hb : b ∉ C) {m : Option Mark} (hw : G.MWalk C a b m) :
    G.AugConnected a b C := by
  obtain ⟨_, j, hreach, hj, hPj, hseg⟩ := mwalk_inv G C a ha hw
  have hPb : G.Anc (a :: b :: C) b := anc_of_mem G (by simp)
  rcases hseg with ⟨_, rfl | hjb⟩ | ⟨_, x, hPx, hjx, hc⟩
  · exact hreach
  · exact hreach.tail ⟨hjb, hj, hb⟩
  · exact hreach.tail ⟨⟨hPj, hPb, Or.inr ⟨x, b, hPx, hPb, hc, hjx, Or.inl rfl⟩⟩, hj, hb⟩

end backward

/-- **The moralisation criterion, walk form.**  For every directed mixed graph (cycles allowed), `a` and `b`
outside `C`: connected in the augmented ancestral graph minus `C` iff joined by an open walk. -/
theorem augConnected_iff_mwalk (G : MG α) (C : List α) (a b : α) (ha : a ∉ C) (hb : b ∉ C) :
    G.AugConnected a b C ↔ ∃ m, G.MWalk C a b m :=
  ⟨mwalk_of_augConnected G C a b ha, fun ⟨_, hw⟩ => augConnected_of_mwalk G C a ha hb hw⟩

end Y0.MG
