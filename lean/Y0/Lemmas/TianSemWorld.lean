/-
  Y0.Lemmas.TianSemWorld — single-world probabilities whose variables may be starred (`+X` values, `+X` subscripts):

  if all variables of `P_w(C | Pa)` carry the same subscripts `w` and the assignment `ρ` gives every variable and every
  subscript the value it has under `(σ, σ')` (`Reads`), then

      den (P_w(C | Pa)) σ = F X (C ∪ Pa) ρ / F X Pa ρ                                   (`den_prob_reads`)

  and such a `ρ` exists whenever the probability is not 0 (`den_ne_zero_reads`: a non-zero value means that all atoms
  live in one world and that the partial assignment is single valued).  `same_ivs_of_ne_zero`: at an assignment with
  `σ x ≠ σ' x` everywhere, a non-zero value forces syntactically equal subscripts.
  Generalises `TianProb.den_prob_world` (un-starred variables, `ρ = σ`).
-/
import Y0.Lemmas.TianProb

namespace Y0
namespace TianSem
open TianProb

variable {M : Scm} {G : MG Name}

/-- `ρ` gives every subscript of `w` and every variable of `vs` the value it has under `(σ, σ')` -/
structure Reads (ρ σ σ' : Val) (w : List Iv) (vs : List Var) : Prop where
  ivs : ∀ i ∈ w, (Iv.eval σ σ' i).2 = ρ i.name
  vars : ∀ v ∈ vs, v.value σ σ' = ρ v.name

theorem Reads.mono {ρ σ σ' : Val} {w : List Iv} {vs us : List Var} (h : Reads ρ σ σ' w vs)
    (hsub : ∀ v ∈ us, v ∈ vs) : Reads ρ σ σ' w us :=
  ⟨h.ivs, fun v hv => h.vars v (hsub v hv)⟩

/-- un-starred variables read `σ` itself -/
theorem reads_self (σ σ' : Val) {w : List Iv} {vs : List Var} (hw : ∀ i ∈ w, i.star = false)
    (hvs : ∀ v ∈ vs, v.star ≠ some true) : Reads σ σ σ' w vs := by
  refine ⟨fun i hi => by simp [Iv.eval, hw i hi], fun v hv => ?_⟩
  have h2 := hvs v hv
  unfold Var.value
  cases hs : v.star with
  | none => rfl
  | some b =>
    cases b with
    | true => exact absurd hs h2
    | false => rfl

/-- changing a variable that occurs only un-starred and in event position -/
theorem Reads.set {ρ σ σ' : Val} {w : List Iv} {vs : List Var} (h : Reads ρ σ σ' w vs) (y : Name) (k : Nat)
    (hw : ∀ i ∈ w, i.name ≠ y) (hv : ∀ v ∈ vs, v.name = y → v.star ≠ some true) :
    Reads (ρ.set y k) (σ.set y k) σ' w vs := by
  constructor
  · intro i hi
    have hne := hw i hi
    have := h.ivs i hi
    simp only [Iv.eval] at this ⊢
    rw [Val.set_other _ _ hne, Val.set_other _ _ hne]
    exact this
  · intro v hvv
    have := h.vars v hvv
    by_cases e : v.name = y
    · have hs := hv v hvv e
      unfold Var.value
      rw [e]
      cases hst : v.star with
      | none => simp
      | some b =>
        cases b with
        | true => exact absurd hst hs
        | false => simp
    · have e1 : (σ.set y k) v.name = σ v.name := Val.set_other _ _ e
      have e2 : (ρ.set y k) v.name = ρ v.name := Val.set_other _ _ e
      rw [e2, ← this]
      unfold Var.value
      rw [e1]

/-- sums over variables that are read un-starred commute with `Reads` -/
theorem sumVars_rel (card : Name → Nat) (f g : Val → Rat) (R : Val → Val → Prop) (ys : List Name)
    (hfg : ∀ σ ρ, R σ ρ → f σ = g ρ)
    (hstep : ∀ σ ρ, R σ ρ → ∀ y ∈ ys, ∀ k, R (σ.set y k) (ρ.set y k)) :
    ∀ σ ρ, R σ ρ → sumVars card ys f σ = sumVars card ys g ρ := by
  induction ys with
  | nil => exact hfg
  | cons y ys ih =>
    intro σ ρ hR
    simp only [sumVars, sumVar]
    congr 1
    funext k
    exact ih (fun σ ρ h z hz k => hstep σ ρ h z (List.mem_cons_of_mem _ hz) k) _ _
      (hstep σ ρ hR y List.mem_cons_self k)

/-! ### `F` ignores names that are not nodes -/

theorem F_congr_nodes (X : List Name) {E E' : List Name}
    (h : ∀ v ∈ G.nodes, v ∉ X → (v ∈ E ↔ v ∈ E')) : F M G X E = F M G X E' := by
  unfold F
  congr 1
  apply List.filter_congr
  intro x hx
  by_cases hxX : x ∈ X
  · simp [hxX]
  · simp only [h x hx hxX]

/-! ### `prAtoms` of variables in one world -/

theorem atoms_world (σ σ' : Val) {w : List Iv} {vs : List Var} (hw : ∀ v ∈ vs, v.ivs = w) :
    vs.map (Var.atom σ σ') = vs.map fun v => (⟨v.name, w.map (Iv.eval σ σ'), v.value σ σ'⟩ : Atom) :=
  List.map_congr_left fun v hv => by unfold Var.atom; rw [hw v hv]

theorem prAtoms_eq_prDo (σ σ' : Val) {w : List Iv} {vs : List Var} (hne : vs ≠ []) (hw : ∀ v ∈ vs, v.ivs = w) :
    M.prAtoms G (vs.map (Var.atom σ σ')) =
      M.prDo G (w.map (Iv.eval σ σ')) (vs.map fun v => (v.name, v.value σ σ')) := by
  rw [atoms_world σ σ' hw]
  cases vs with
  | nil => exact absurd rfl hne
  | cons v vs' =>
    simp only [List.map_cons, Scm.prAtoms]
    have hall : (List.map (fun v => (⟨v.name, w.map (Iv.eval σ σ'), v.value σ σ'⟩ : Atom)) vs').all
        (fun b => b.dos == w.map (Iv.eval σ σ')) = true := by
      simp [List.all_eq_true]
    rw [hall]
    simp [List.map_map, Function.comp_def]

theorem prAtoms_reads (hM : M.Compatible G) (hG : G.WF) {ρ σ σ' : Val} {w : List Iv} {vs : List Var}
    (hne : vs ≠ []) (hw : ∀ v ∈ vs, v.ivs = w) (hr : Reads ρ σ σ' w vs) :
    M.prAtoms G (vs.map (Var.atom σ σ')) = F M G (w.map (·.name)) (vs.map (·.name)) ρ := by
  rw [prAtoms_eq_prDo σ σ' hne hw, prDo_eq_F hM hG ρ]
  · congr 1
    · rw [List.map_map]
      apply List.map_congr_left
      intro i _
      simp [Iv.eval]
    · simp [List.map_map, Function.comp_def]
  · intro a ha
    rcases List.mem_map.mp ha with ⟨i, hi, rfl⟩
    exact hr.ivs i hi
  · intro a ha
    rcases List.mem_map.mp ha with ⟨v, hv, rfl⟩
    exact hr.vars v hv

/-- **what a probability whose variables live in one world denotes**, read at `ρ` -/
theorem den_prob_reads (hM : M.Compatible G) (hG : G.WF) {ρ σ σ' : Val} {w : List Iv} (pop : Option Var)
    {c p : List Var} (hc : c ≠ []) (hw : ∀ v ∈ c ++ p, v.ivs = w) (hr : Reads ρ σ σ' w (c ++ p)) :
    den (M.env G) σ' (.prob pop c p) σ =
      F M G (w.map (·.name)) ((c ++ p).map (·.name)) ρ /
        (if p = [] then 1 else F M G (w.map (·.name)) (p.map (·.name)) ρ) := by
  simp only [den, Scm.env]
  rw [prAtoms_reads hM hG (by simp [hc]) hw hr]
  by_cases hp : p = []
  · subst hp
    simp [Scm.prAtoms]
  · rw [prAtoms_reads hM hG hp (fun v hv => hw v (List.mem_append_right _ hv))
      (hr.mono fun v hv => List.mem_append_right _ hv)]
    simp [hp]

/-! ### a non-zero value: one world, single valued -/

theorem consistent_iff (L : List (Name × Nat)) :
    Scm.consistent L = true ↔ ∀ a ∈ L, ∀ b ∈ L, a.1 = b.1 → a.2 = b.2 := by
  unfold Scm.consistent
  simp only [List.all_eq_true, Bool.or_eq_true, bne_iff_ne, ne_eq, beq_iff_eq]
  constructor
  · intro h a ha b hb e
    rcases h a ha b hb with h' | h'
    · exact absurd e h'
    · exact h'
  · intro h a ha b hb
    by_cases e : a.1 = b.1
    · exact Or.inr (h a ha b hb e)
    · exact Or.inl e

theorem setMany_not_mem (n : Name) : ∀ (L : List (Name × Nat)) (τ : Val), n ∉ L.map (·.1) →
    Val.setMany τ L n = τ n
  | [], _, _ => rfl
  | (x, k) :: r, τ, h => by
    simp only [List.map_cons, List.mem_cons, not_or] at h
    simp only [Val.setMany]
    rw [setMany_not_mem n r _ h.2, Val.set_other _ _ h.1]

theorem setMany_of_consistent : ∀ (L : List (Name × Nat)) (τ : Val), Scm.consistent L = true →
    ∀ a ∈ L, Val.setMany τ L a.1 = a.2
  | [], _, _, a, ha => by cases ha
  | (x, k) :: r, τ, hc, a, ha => by
    have hc' := (consistent_iff _).mp hc
    have hr : Scm.consistent r = true := (consistent_iff _).mpr fun a ha b hb e =>
      hc' a (List.mem_cons_of_mem _ ha) b (List.mem_cons_of_mem _ hb) e
    simp only [Val.setMany]
    by_cases hmem : a.1 ∈ r.map (·.1)
    · rcases List.mem_map.mp hmem with ⟨b, hb, hba⟩
      rw [← hba, setMany_of_consistent r _ hr b hb]
      exact hc' b (List.mem_cons_of_mem _ hb) a ha hba
    · rw [setMany_not_mem _ r _ hmem]
      rcases List.mem_cons.mp ha with rfl | ha'
      · simp
      · exact absurd (List.mem_map.mpr ⟨a, ha', rfl⟩) hmem

theorem reads_of_prAtoms_ne_zero (σ σ' : Val) {w : List Iv} {vs : List Var} (hne : vs ≠ [])
    (hw : ∀ v ∈ vs, v.ivs = w) (h0 : M.prAtoms G (vs.map (Var.atom σ σ')) ≠ 0) : ∃ ρ, Reads ρ σ σ' w vs := by
  rw [prAtoms_eq_prDo σ σ' hne hw] at h0
  unfold Scm.prDo at h0
  split at h0
  · exact absurd rfl h0
  · rename_i hcons
    have hcons' : Scm.consistent (w.map (Iv.eval σ σ') ++ vs.map fun v => (v.name, v.value σ σ')) = true := by
      simpa using hcons
    refine ⟨Val.setMany (fun _ => 0) (w.map (Iv.eval σ σ') ++ vs.map fun v => (v.name, v.value σ σ')), ?_, ?_⟩
    · intro i hi
      exact (setMany_of_consistent _ _ hcons' (Iv.eval σ σ' i)
        (List.mem_append_left _ (List.mem_map.mpr ⟨i, hi, rfl⟩))).symm
    · intro v hv
      exact (setMany_of_consistent _ _ hcons' (v.name, v.value σ σ')
        (List.mem_append_right _ (List.mem_map.mpr ⟨v, hv, rfl⟩))).symm

/-- a probability with a non-zero value is read by some assignment -/
theorem den_ne_zero_reads (σ σ' : Val) {w : List Iv} (pop : Option Var) {c p : List Var} (hcp : c ++ p ≠ [])
    (hw : ∀ v ∈ c ++ p, v.ivs = w) (h0 : den (M.env G) σ' (.prob pop c p) σ ≠ 0) :
    ∃ ρ, Reads ρ σ σ' w (c ++ p) := by
  apply reads_of_prAtoms_ne_zero σ σ' hcp hw
  intro hz
  apply h0
  simp only [den, Scm.env]
  rw [hz, zero_div]

theorem eval_injective {σ σ' : Val} (hd : ∀ n, σ n ≠ σ' n) : Function.Injective (Iv.eval σ σ') := by
  intro i j h
  simp only [Iv.eval, Prod.mk.injEq] at h
  obtain ⟨h1, h2⟩ := h
  cases i with
  | mk n s =>
    cases j with
    | mk m t =>
      simp only at h1 h2
      subst h1
      cases s <;> cases t
      · rfl
      · exact absurd (by simpa using h2) (hd n)
      · exact absurd (by simpa using h2.symm) (hd n)
      · rfl

/-- at an assignment that differs from `σ'` everywhere a non-zero value forces equal subscripts -/
theorem same_ivs_of_ne_zero {σ σ' : Val} (hd : ∀ n, σ n ≠ σ' n) {vs : List Var}
    (h0 : M.prAtoms G (vs.map (Var.atom σ σ')) ≠ 0) : ∃ w, ∀ v ∈ vs, v.ivs = w := by
  cases vs with
  | nil => exact ⟨[], fun _ h => by cases h⟩
  | cons a as =>
    refine ⟨a.ivs, ?_⟩
    simp only [List.map_cons, Scm.prAtoms] at h0
    split at h0
    · rename_i hall
      intro v hv
      rcases List.mem_cons.mp hv with rfl | hv
      · rfl
      · have := List.all_eq_true.mp hall (Var.atom σ σ' v) (List.mem_map.mpr ⟨v, hv, rfl⟩)
        simp only [Var.atom, beq_iff_eq] at this
        exact (List.map_injective_iff.mpr (eval_injective hd)) this
    · exact absurd rfl h0

theorem same_ivs_of_den_ne_zero {σ σ' : Val} (hd : ∀ n, σ n ≠ σ' n) (pop : Option Var) {c p : List Var}
    (h0 : den (M.env G) σ' (.prob pop c p) σ ≠ 0) : ∃ w, ∀ v ∈ c ++ p, v.ivs = w := by
  apply same_ivs_of_ne_zero (M := M) (G := G) hd
  intro hz
  apply h0
  simp only [den, Scm.env]
  rw [hz, zero_div]

end TianSem
end Y0
