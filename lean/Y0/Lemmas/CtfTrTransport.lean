/-
  Y0.Lemmas.CtfTrTransport — **Algorithm 4 over a family of functional SCMs**: the expression returned for a district,
  evaluated on the declared domain distributions, is the c-factor `Q[district]` of the TARGET model.

  Chain (one usable domain `d` with tag `t`, model `S`; target model `T`):
      den (F.env graphs) σ' e σ
        = den ((S.toScm).env d.graph) σ' e σ          every leaf of `e` carries the tag `t`      (CtfTrPops)
        = (S.toScm).Q (nsort district) σ               C17 `cfactor_sound` + `tian_sound`        (sigmaTRDomain_sound)
        = S.cfactor (nsort district) σ                 induced model                               (toScm_Q_eq_cfactor)
        = T.cfactor (nsort district) σ                 no selection node into the district, no policy variable in it,
                                                       so `S` and `T` have the same mechanisms there (cfactor_transport)
-/
import Y0.Lemmas.CtfTrCfactor
import Y0.Lemmas.CtfTrPops
import Y0.Lemmas.CtfTrSigma

namespace Y0.CtfTr
open Fscm
open Trso (isTnode tnode nsort mem_nsort)

/-- the declared distribution of a domain is `P^t(V)`: the joint of the regular variables of its selection diagram -/
def popOf (t : Name) (G : MG Name) : Expr := .prob (some (Var.plain t)) (TrDsl.plainVars (regular G)) []

/-- the variables at which the domain may differ from the target: children of selection nodes and policy variables -/
def differsOf (d : Domain) : List Name :=
  (regular d.graph).filter fun v => decide (tnode v ∈ d.graph.nodes) || decide (v ∈ d.policy)

/-- the declaration (Y0/Spec/CtfFamilySpec.lean) a `Domain` of the model stands for -/
def declOf (d : Domain) (t : Name) : DomainDecl :=
  { tag := t, graph := d.graph, differs := differsOf d, sel := d.graph.nodes.filter isTnode }

/-- the syntactic facts about one domain the soundness proof uses (all are consequences of the validator for graphs
built by `from_edges`, see Y0/Lemmas/CtfTrPopDen.lean) -/
structure DomainSpecOK (d : Domain) (t : Name) : Prop where
  wf : d.graph.WF
  ranked : d.graph.Ranked
  topo_nodup : d.topo.Nodup
  topo_cover : ∀ v, v ∈ d.topo ↔ v ∈ d.graph.nodes
  topo_ord : TianSpec.TopoOrdered d.graph d.topo
  biT : ∀ a b, d.graph.BiEdge a b → isTnode a = false
  pop : d.pop = popOf t d.graph

theorem usable_not_differs (district : List Name) (d : Domain) (hus : domainUsable district d = true) :
    ∀ v ∈ district, v ∉ differsOf d := by
  intro v hv hmem
  simp only [domainUsable, Bool.and_eq_true, List.all_eq_true, decide_eq_true_eq] at hus
  unfold differsOf at hmem
  simp only [List.mem_filter, Bool.or_eq_true, decide_eq_true_eq] at hmem
  rcases hmem.2 with h | h
  · exact hus.2 v hv h
  · exact hus.1 v hv h

/-- **one usable domain.**  `hpop` says that the declared distribution of the domain denotes the observational joint of
its model (proved from `SelectionInert` in Y0/Lemmas/CtfTrPopDen.lean). -/
theorem sigmaTRDomain_fscm_sound (F : FscmFamily) (G : MG Name) (graphs : Option Name → MG Name) (d : Domain) (t : Name)
    (hT : Proper F.target F.card F.base G) (hS : Proper (F.model (some t)) F.card F.base d.graph)
    (hgr : graphs (some t) = d.graph) (hag : AgreesOutside F.target (F.model (some t)) (differsOf d))
    (hd : DomainSpecOK d t) (σ' : Val)
    (hpop : ∀ σ, den (((F.model (some t)).toScm F.card F.base).env d.graph) σ' (popOf t d.graph) σ =
      ((F.model (some t)).toScm F.card F.base).Q (d.topo.filter (· ∈ regular d.graph)) σ)
    (hshape : TianSpec.ProbShape (popOf t d.graph) (d.topo.filter (· ∈ regular d.graph)))
    (district : List Name) (hne : district ≠ []) (hreg : ∀ v ∈ district, v ∈ regular d.graph)
    (hdT : ∀ v ∈ district, v ∈ F.target.order) (hus : domainUsable district d = true)
    (e : Expr) (h : sigmaTRDomain district d = .ok (some e)) :
    ∀ σ, (∀ v ∈ district, σ v < F.card v) → den (F.env graphs) σ' e σ = F.target.cfactor (nsort district) σ := by
  intro σ hσ
  set S := F.model (some t) with hSdef
  -- 1. only the tag `t` is read
  have h1 : den (F.env graphs) σ' e σ = den ((S.toScm F.card F.base).env d.graph) σ' e σ := by
    apply sigmaTRDomain_den_congr_plain district d t (TrDsl.plainVars (regular d.graph)) e hd.pop h
    · show (F.target.toScm F.card F.base).card = (S.toScm F.card F.base).card
      show F.target.cardS F.card F.base = S.cardS F.card F.base
      funext n
      unfold Model.cardS
      rw [hag.noise]
    · show (fun l => ((F.model (some t)).toScm F.card F.base).prAtoms (graphs (some t)) l) = _
      rw [hgr]
      rfl
  -- 2. Algorithm 4 in the domain's own model
  have h2 : den ((S.toScm F.card F.base).env d.graph) σ' e σ = (S.toScm F.card F.base).Q (nsort district) σ := by
    have hpop' := hd.pop
    exact sigmaTRDomain_sound (S.toScm F.card F.base) district d hS.scmCompatible hd.wf hd.ranked hd.topo_nodup
      hd.topo_ord (fun v hv => (hd.topo_cover v).2 hv) hne hreg hd.biT σ' (by rw [hpop']; exact hshape)
      (by rw [hpop']; exact hpop) e h σ
  -- 3. the induced model, 4. transport to the target
  have hnodesS : ∀ v ∈ nsort district, v ∈ S.order := by
    intro v hv
    rw [mem_nsort] at hv
    exact (hS.compat.perm.mem_iff).2 (List.mem_filter.1 (hreg v hv)).1
  have h3 : (S.toScm F.card F.base).Q (nsort district) σ = S.cfactor (nsort district) σ :=
    toScm_Q_eq_cfactor hS.toScmOK (nsort district) (nsort_nodup district) hnodesS σ (by
      intro v hv
      rw [mem_nsort] at hv
      exact hσ v hv)
  have h4 : S.cfactor (nsort district) σ = F.target.cfactor (nsort district) σ :=
    cfactor_transport hT.toScmOK hS.toScmOK (differsOf d) hag (nsort district)
      (by intro v hv; rw [mem_nsort] at hv; exact hdT v hv) hnodesS
      (by intro v hv; rw [mem_nsort] at hv; exact usable_not_differs district d hus v hv) σ
  rw [h1, h2, h3, h4]

end Y0.CtfTr
