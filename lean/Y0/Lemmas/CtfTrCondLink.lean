/-
  Y0.Lemmas.CtfTrCondLink — from the executable model of lines 1-2 of Algorithm 3 (`condComps`, `line2C`) and the decidable
  class `ctfTRSoundClass` (Y0/Model/CtfTr.lean) to the hypotheses of the semantic core (`CondSem`,
  Y0/Lemmas/CtfTrCondSem.lean): the members of the ancestral sets, each in the full world of its root, form a family closed
  under "mechanism argument" up to literal subscripts and cut (conditioned) vertices.
-/
import Y0.Lemmas.CtfTrCondRoot

namespace Y0.CtfTr
open Fscm Ctf Relation Y0.MG

/-! ### list facts -/

theorem mapM_ok_zip {α β : Type} (f : α → Except Err β) : ∀ (l : List α) (r : List β), l.mapM f = .ok r →
    l.length = r.length ∧ ∀ p ∈ l.zip r, f p.1 = .ok p.2
  | [], r, h => by
    simp only [List.mapM_nil, pure, Except.pure, Except.ok.injEq] at h
    subst h
    exact ⟨rfl, fun p hp => by cases hp⟩
  | a :: l, r, h => by
    simp only [List.mapM_cons, bind, Except.bind] at h
    cases ha : f a with
    | error e => rw [ha] at h; cases h
    | ok c =>
      rw [ha] at h
      cases hl : l.mapM f with
      | error e => rw [hl] at h; cases h
      | ok r' =>
        rw [hl] at h
        simp only [pure, Except.pure, Except.ok.injEq] at h
        subst h
        obtain ⟨hlen, hz⟩ := mapM_ok_zip f l r' hl
        refine ⟨by simp [hlen], fun p hp => ?_⟩
        simp only [List.zip_cons_cons, List.mem_cons] at hp
        rcases hp with rfl | hp
        · exact ha
        · exact hz p hp

theorem exists_zip_left {α β : Type} : ∀ (l : List α) (r : List β), l.length = r.length → ∀ a ∈ l, ∃ b, (a, b) ∈ l.zip r
  | [], _, _, a, ha => by cases ha
  | x :: l, [], h, _, _ => by simp at h
  | x :: l, y :: r, h, a, ha => by
    rcases List.mem_cons.1 ha with rfl | ha
    · exact ⟨y, by simp⟩
    · obtain ⟨b, hb⟩ := exists_zip_left l r (by simpa using h) a ha
      exact ⟨b, by simp [hb]⟩

theorem exists_zip_right {α β : Type} : ∀ (l : List α) (r : List β), l.length = r.length → ∀ b ∈ r, ∃ a, (a, b) ∈ l.zip r
  | _, [], _, b, hb => by cases hb
  | [], y :: r, h, _, _ => by simp at h
  | x :: l, y :: r, h, b, hb => by
    rcases List.mem_cons.1 hb with rfl | hb
    · exact ⟨x, by simp⟩
    · obtain ⟨a, ha⟩ := exists_zip_right l r (by simpa using h) b hb
      exact ⟨a, by simp [ha]⟩

theorem pairwise_of_ne {α : Type} (R : α → α → Prop) (hs : ∀ a b, R a b → R b a) :
    ∀ l : List α, l.Pairwise R → ∀ a ∈ l, ∀ b ∈ l, a ≠ b → R a b
  | [], _, a, ha, _, _, _ => by cases ha
  | x :: l, h, a, ha, b, hb, hne => by
    rw [List.pairwise_cons] at h
    rcases List.mem_cons.1 ha with rfl | ha' <;> rcases List.mem_cons.1 hb with rfl | hb'
    · exact absurd rfl hne
    · exact h.1 b hb'
    · exact hs _ _ (h.1 a ha')
    · exact pairwise_of_ne R hs l h.2 a ha' b hb' hne

/-! ### the class, unfolded -/

theorem consistentIvs_iff (S : List Iv) : consistentIvs S = true ↔ ConsistentSubs S := by
  unfold consistentIvs ConsistentSubs
  simp only [List.all_eq_true, Bool.or_eq_true, bne_iff_ne, ne_eq, decide_eq_true_eq]
  constructor
  · intro h i hi j hj hij
    rcases h i hi j hj with h' | h'
    · exact absurd hij h'
    · exact h'
  · intro h i hi j hj
    by_cases hij : i.name = j.name
    · exact Or.inr (h i hi j hj hij)
    · exact Or.inl hij

/-- what `ctfTRSoundClass` says -/
structure LinkClass (g : MG Name) (o c : Event) (comps : List (List Var)) : Prop where
  comps_ok : condComps g o c = .ok comps
  oneWorld : ∀ a ∈ comps.flatten, ∀ b ∈ comps.flatten, a.name = b.name → a = b
  /-- every outcome is a member of the components under its own (raw) name, i.e. is given in the form the components
  store (`OutcomesFound`; after `fix:` f335599 no longer needed to find the outcome, but the value theorem is proved for
  queries whose outcomes are in this minimal form) -/
  foundRaw : ∀ p ∈ o, p.1 ∈ deriveVars comps (eventVars o)
  outSame : ∀ p ∈ o, ∀ q ∈ o, p.1.name = q.1.name → p = q
  noSelf : ∀ p ∈ o ++ c, p.1.name ∉ subNames p.1
  cons : ∀ p ∈ o ++ c, ConsistentSubs p.1.ivs
  lit : ∀ p ∈ o ++ c, ∀ i ∈ p.1.ivs, (∃ a ∈ comps.flatten, a.name = i.name) → i.name ∈ eventNames c

theorem linkClass_of (g : MG Name) (o c : Event) (h : ctfTRSoundClass g o c = true) :
    ∃ comps, LinkClass g o c comps := by
  unfold ctfTRSoundClass at h
  cases hc : condComps g o c with
  | error e => rw [hc] at h; cases h
  | ok comps =>
    rw [hc] at h
    simp only [Bool.and_eq_true, decide_eq_true_eq] at h
    obtain ⟨⟨⟨⟨h1, h2⟩, h4⟩, h5⟩, h6⟩ := h
    have hraw : ∀ p ∈ o, p.1 ∈ deriveVars comps (eventVars o) := by
      intro p hp
      unfold OutcomesFound at h2
      rw [dstarVars_eq, hc] at h2
      simp only [Except.bind] at h2
      cases hlk : lookupOutcomes g o c with
      | error e => rw [hlk] at h2; cases h2
      | ok lk =>
        rw [hlk] at h2
        simp only [List.all_eq_true] at h2
        obtain ⟨C, hC, hpC, _⟩ := (mem_deriveVars comps _ p.1).1 ((mem'_iff _ _).1 (h2 p hp))
        exact (mem_deriveVars comps _ p.1).2 ⟨C, hC, hpC, p.1, hpC, (mem_eventVars o _).2 ⟨p, hp, rfl⟩⟩
    refine ⟨comps, ⟨hc, ?_, hraw, ?_, ?_, ?_, ?_⟩⟩
    · intro a ha b hb hab
      rw [List.all_eq_true] at h1
      have := h1 a ha
      rw [List.all_eq_true] at this
      have := this b hb
      simp only [Bool.or_eq_true, bne_iff_ne, ne_eq, decide_eq_true_eq] at this
      rcases this with h' | h'
      · exact absurd hab h'
      · exact h'
    · intro p hp q hq hpq
      rw [List.all_eq_true] at h4
      have := h4 p hp
      rw [List.all_eq_true] at this
      have := this q hq
      simp only [Bool.or_eq_true, bne_iff_ne, ne_eq, decide_eq_true_eq] at this
      rcases this with h' | h'
      · exact absurd hpq h'
      · exact h'
    · intro p hp
      rw [List.all_eq_true] at h5
      have := h5 p hp
      simp only [Bool.and_eq_true, Bool.not_eq_eq_eq_not, Bool.not_true] at this
      intro hmem
      have hs : selfIntervened p.1 = true := by
        unfold selfIntervened
        obtain ⟨i, hi, hin⟩ := List.mem_map.1 hmem
        exact List.any_eq_true.2 ⟨i, hi, by simpa using hin⟩
      rw [this.1] at hs
      cases hs
    · intro p hp
      rw [List.all_eq_true] at h5
      have := h5 p hp
      simp only [Bool.and_eq_true] at this
      exact (consistentIvs_iff _).1 this.2
    · intro p hp i hi ⟨a, ha, hai⟩
      rw [List.all_eq_true] at h6
      have := h6 p hp
      rw [List.all_eq_true] at this
      have := this i hi
      simp only [Bool.or_eq_true, Bool.not_eq_eq_eq_not, Bool.not_true, decide_eq_true_eq] at this
      rcases this with h' | h'
      · have : (comps.flatten.any fun a => a.name == i.name) = true :=
          List.any_eq_true.2 ⟨a, ha, by simpa using hai⟩
        rw [h'] at this
        cases this
      · exact h'

/-! ### inside the class the lookup keys are the outcomes themselves -/

theorem forall₂_eq_of {α : Type} {R : α → α → Prop} : ∀ {l l' : List α}, List.Forall₂ R l l' →
    (∀ a ∈ l, ∀ b ∈ l', R a b → b = a) → l' = l
  | _, _, .nil, _ => rfl
  | _, _, .cons (a := a) (b := b) hab hrest, h => by
    rw [h a List.mem_cons_self b List.mem_cons_self hab,
      forall₂_eq_of hrest (fun a' ha' b' hb' => h a' (List.mem_cons_of_mem _ ha') b' (List.mem_cons_of_mem _ hb'))]

/-- **inside `ctfTRSoundClass` every outcome is its own lookup key**: the key `‖Y_x‖` is a member of the components
(`line2C_ok`), so is the raw outcome (`foundRaw`), they name the same vertex, and the components name every vertex in one
world — so lines 1-2 of Algorithm 3 are `line2CRaw` -/
theorem lookup_self (g : MG Name) (hg : g.WF) (o c : Event) (comps : List (List Var)) (cls : LinkClass g o c comps)
    (ho : ∀ p ∈ o, VarOK g p.1) (hc : ∀ p ∈ c, VarOK g p.1) (hos : ∀ p ∈ o, p.1.star = none) :
    lookupOutcomes g o c = .ok o := by
  obtain ⟨lk, D, dstar, dNames, hlk, hrel, hfound, hD, _, _, _⟩ := line2C_ok g hg o c ho hc hos
  have hDeq : D = deriveVars comps (eventVars lk) := by
    rw [dstarVars_eq, cls.comps_ok, hlk] at hD
    simp only [Except.bind, Except.ok.injEq] at hD
    exact hD.symm
  have hflat : ∀ K : List Var, ∀ v ∈ deriveVars comps K, v ∈ comps.flatten := by
    intro K v hv
    obtain ⟨C, hC, hvC, _⟩ := (mem_deriveVars comps K v).1 hv
    exact List.mem_flatten.2 ⟨C, hC, hvC⟩
  rw [hlk]
  congr 1
  apply forall₂_eq_of hrel
  intro p hp p' hp' ⟨hn, hv⟩
  have h1 : p'.1 ∈ comps.flatten := hflat _ _ (by rw [← hDeq]; exact hfound p' hp')
  have h2 : p.1 ∈ comps.flatten := hflat _ _ (cls.foundRaw p hp)
  have := cls.oneWorld p'.1 h1 p.1 h2 hn
  exact Prod.ext this hv

/-! ### the ancestral sets behind the components -/

/-- the data of line 1: the roots, their ancestral sets, the components -/
structure Line1 (g : MG Name) (o c : Event) (sets comps : List (List Var)) : Prop where
  len : (unionVars (eventVars c) (eventVars o)).length = sets.length
  each : ∀ rs ∈ (unionVars (eventVars c) (eventVars o)).zip sets, ancestralSetAfter g (eventVars c) rs.1 = .ok rs.2
  comps_eq : comps = componentsFromSets g sets

theorem line1_of (g : MG Name) (o c : Event) (comps : List (List Var)) (h : condComps g o c = .ok comps) :
    ∃ sets, Line1 g o c sets comps := by
  obtain ⟨sets, hsets, hcomps⟩ := ancestral_components_eq g _ _ comps h
  obtain ⟨hlen, hz⟩ := mapM_ok_zip _ _ _ hsets
  exact ⟨sets, hlen, hz, hcomps⟩

theorem mem_roots (o c : Event) (r : Var) :
    r ∈ unionVars (eventVars c) (eventVars o) ↔ ∃ p ∈ o ++ c, p.1 = r := by
  rw [mem_unionVars', mem_eventVars, mem_eventVars]
  constructor
  · rintro (⟨p, hp, rfl⟩ | ⟨p, hp, rfl⟩)
    · exact ⟨p, List.mem_append_right _ hp, rfl⟩
    · exact ⟨p, List.mem_append_left _ hp, rfl⟩
  · rintro ⟨p, hp, rfl⟩
    rcases List.mem_append.1 hp with h | h
    · exact Or.inr ⟨p, h, rfl⟩
    · exact Or.inl ⟨p, h, rfl⟩

section Comps
variable {g : MG Name} {o c : Event} {sets comps : List (List Var)}

/-- a member of a set is in a component -/
theorem Line1.cover (L : Line1 g o c sets comps) (s : List Var) (hs : s ∈ sets) (x : Var) (hx : x ∈ s) :
    ∃ C ∈ comps, x ∈ C := by
  rw [L.comps_eq]
  exact (ancestral_components_spec g sets).2.1 s hs x hx

/-- a member of a component is in a set, and the whole set is inside the component -/
theorem Line1.set_of (L : Line1 g o c sets comps) (C : List Var) (hC : C ∈ comps) (x : Var) (hx : x ∈ C) :
    ∃ t ∈ sets, x ∈ t ∧ ∀ y ∈ t, y ∈ C := by
  have hC' : C ∈ componentsFromSets g sets := by rw [← L.comps_eq]; exact hC
  obtain ⟨s, _, _, hchar⟩ := (ancestral_components_spec g sets).1 C hC'
  obtain ⟨t, ht, hst, hxt⟩ := (hchar x).1 hx
  exact ⟨t, ht, hxt, fun y hy => (hchar y).2 ⟨t, ht, hst, hy⟩⟩

/-- two components with a common vertex are the same component -/
theorem Line1.comp_unique (L : Line1 g o c sets comps) (C C' : List Var) (hC : C ∈ comps) (hC' : C' ∈ comps)
    (a b : Var) (ha : a ∈ C) (hb : b ∈ C') (hab : a.name = b.name) : C = C' := by
  by_contra hne
  have hp := (ancestral_components_spec g sets).2.2
  rw [← L.comps_eq] at hp
  exact pairwise_of_ne (fun C D : List Var => ∀ a ∈ C, ∀ b ∈ D, a.name ≠ b.name)
    (fun _ _ h a ha b hb hab => h b hb a ha hab.symm) comps hp C hC C' hC' hne a ha b hb hab

/-- a set lies inside ONE component -/
theorem Line1.set_in_comp (L : Line1 g o c sets comps) (t : List Var) (ht : t ∈ sets) (x : Var) (hx : x ∈ t)
    (C : List Var) (hC : C ∈ comps) (hxC : x ∈ C) : ∀ y ∈ t, y ∈ C := by
  intro y hy
  obtain ⟨t', ht', hxt', hsub⟩ := L.set_of C hC x hxC
  have hC' : C ∈ componentsFromSets g sets := by rw [← L.comps_eq]; exact hC
  obtain ⟨s, _, _, hchar⟩ := (ancestral_components_spec g sets).1 C hC'
  obtain ⟨t₀, ht₀, hst₀, hxt₀⟩ := (hchar x).1 hxC
  -- `t` overlaps `t₀` in `x`: linked
  refine (hchar y).2 ⟨t, ht, ?_, hy⟩
  exact ReflTransGen.tail hst₀ ⟨ht₀, ht, Or.inl ⟨x, hxt₀, x, hx, rfl⟩⟩

/-- a bidirected edge joins vertices of one component only -/
theorem Line1.bi_same_comp (L : Line1 g o c sets comps) (C C' : List Var) (hC : C ∈ comps) (hC' : C' ∈ comps)
    (a b : Var) (ha : a ∈ C) (hb : b ∈ C') (hbi : g.BiEdge a.name b.name) : C = C' := by
  have hCc : C ∈ componentsFromSets g sets := by rw [← L.comps_eq]; exact hC
  obtain ⟨s, _, _, hchar⟩ := (ancestral_components_spec g sets).1 C hCc
  obtain ⟨t, ht, hst, hat⟩ := (hchar a).1 ha
  obtain ⟨t', ht', hbt', _⟩ := L.set_of C' hC' b hb
  have hbC : b ∈ C := (hchar b).2 ⟨t', ht', ReflTransGen.tail hst ⟨ht, ht', Or.inr ⟨a, hat, b, hbt', hbi⟩⟩, hbt'⟩
  exact L.comp_unique C C' hC hC' b b hbC hb rfl

end Comps

end Y0.CtfTr
