/-
  Y0.Lemmas.TrsoQInit — the query built by `identify_target_outcomes` (`initialQuery` over the diagrams of
  `surrogate_to_transport`) satisfies the ALL-PHASE invariant `QInv` of Y0.Lemmas.TrsoQInv (phase T0: target domain,
  every graph has the regular part of the target graph), the budget `Query.fuel` exceeds the measure `mu2`, and the
  carried expression is clean and raw.

  `hsmall`: user variables are names below 100, so that every selection node `tnode s = 200 + s` is recognised by
  `is_transport_node` (`200 ≤ · < 300`) and is fresh.
-/
import Y0.Lemmas.TrsoQInv
import Y0.Lemmas.TrsoInit
import Y0.Lemmas.TrsoClean
import Y0.Props.C06Transport

namespace Y0
namespace Trso
open TrDsl MG

/-- the selection node of a user variable below 100 is a selection node -/
theorem isTnode_tnode {s : Name} (h : s < 100) : isTnode (tnode s) = true := by
  have h1 : (200 : Nat) ≤ 200 + s := Nat.le_add_right _ _
  have h2 : (200 + s : Nat) < 300 := Nat.add_lt_add_left h 200
  simp [isTnode, tnode, h1, h2]

/-- a selection diagram over regular nodes has the regular part of the graph -/
theorem ctd_regEq {G : MG Name} {ns : List Name} (hns : ∀ s ∈ ns, s ∈ G.nodes)
    (hTn : ∀ s ∈ G.nodes, isTnode (tnode s) = true) : RegEq (createTransportDiagram G ns) G := by
  constructor
  · intro v hv
    constructor
    · intro h
      rcases (ctd_mem_nodes G ns v).1 h with h | ⟨s, hs, rfl | rfl⟩
      · exact h
      · rw [hTn s (hns s hs)] at hv; cases hv
      · exact hns _ hs
    · exact (ctd_sub G ns).1 v
  · intro e he
    constructor
    · intro h
      rcases (ctd_mem_di G ns e).1 h with h | ⟨s, hs, rfl⟩
      · exact h
      · rw [show (tnode s, s).1 = tnode s from rfl, hTn s (hns s hs)] at he; cases he
    · exact (ctd_sub G ns).2 e

theorem regEq_refl (G : MG Name) : RegEq G G := ⟨fun _ _ => Iff.rfl, fun _ _ => Iff.rfl⟩

/-- selection nodes of a diagram over regular nodes have no parents -/
theorem ctd_tpl {G : MG Name} (hG : G.WF) (hT : ∀ v ∈ G.nodes, isTnode v = false) {ns : List Name}
    (hns : ∀ s ∈ ns, s ∈ G.nodes) : ∀ e ∈ (createTransportDiagram G ns).di, isTnode e.2 = false := by
  intro e he
  rcases (ctd_mem_di G ns e).1 he with h | ⟨s, hs, rfl⟩
  · exact hT _ (hG.di_mem e h).2
  · exact hT _ (hns s hs)

/-- no bidirected edge of a diagram over regular nodes touches a selection node -/
theorem ctd_tbi {G : MG Name} (hG : G.WF) (hT : ∀ v ∈ G.nodes, isTnode v = false) (ns : List Name) :
    ∀ e ∈ (createTransportDiagram G ns).bi, isTnode e.1 = false ∧ isTnode e.2 = false := by
  intro e he
  rw [ctd_bi] at he
  exact ⟨hT _ (hG.bi_mem e he).1, hT _ (hG.bi_mem e he).2⟩

/-- **the initial query satisfies the all-phase invariant**, with `M` = the largest graph; the budget exceeds the
measure `mu2`; the carried expression is clean and raw -/
theorem qinitial_inv {G : MG Name} (hG : G.WF) (hA : G.Acyclic) (hsmall : ∀ v ∈ G.nodes, v < 100)
    {Y X : List Name} {outcomes interventions : List (Pop × List Name)}
    (hv : validInput G Y X outcomes interventions = true) (hY : Y ≠ [])
    {graphs : List (Pop × MG Name)} (hg : surrogateToTransport G outcomes interventions = .ok graphs) :
    let q := initialQuery G Y X graphs interventions
    let M := (graphs.map (fun p => p.2.nodes.length)).foldl max 0
    QInv M q G ∧ mu2 M q G < q.fuel ∧ Clean q.expr ∧ Raw q.expr := by
  intro q M
  have hsmall' : ∀ v ∈ G.nodes, v < 200 := fun v hv => Nat.lt_trans (hsmall v hv) (by decide)
  have hT : ∀ v ∈ G.nodes, isTnode v = false := noT_of_small hsmall'
  have hTn : ∀ s ∈ G.nodes, isTnode (tnode s) = true := fun s hs => isTnode_tnode (hsmall s hs)
  have h0 : TInv M q G ∧ mu M q G < q.fuel ∧ Clean q.expr := initial_inv hG hA hT hsmall' hv hY hg
  obtain ⟨hinv, _, hclean⟩ := h0
  obtain ⟨_, _, _, _, _, hk, _⟩ := validInput_spec hv
  obtain ⟨_, hshape⟩ := surrogateToTransport_spec hG hv hg
  have hq : QInv M q G := by
    refine ⟨hinv.look, hinv.wf, hinv.rk, ?_, ?_, hinv.Yin, ?_, hinv.Yne, hinv.Xin, hinv.XY, ?_, hinv.size,
      Or.inl ⟨rfl, rfl, hT, Or.inr ⟨?_, ?_⟩⟩⟩
    · -- tpl
      intro p hp
      rcases hshape p hp with rfl | ⟨_, ns, hns, h⟩
      · exact fun e he => hT _ (hG.di_mem e he).2
      · rw [h]; exact ctd_tpl hG hT hns
    · -- tbi
      intro p hp
      rcases hshape p hp with rfl | ⟨_, ns, _, h⟩
      · exact fun e he => ⟨hT _ (hG.bi_mem e he).1, hT _ (hG.bi_mem e he).2⟩
      · rw [h]; exact ctd_tbi hG hT ns
    · -- YT
      intro y hy
      exact hT y (hinv.YinG y hy)
    · -- sub
      intro p hp
      exact ⟨fun v hv _ => (hinv.sub p hp).1 v hv, fun e he _ => (hinv.sub p hp).2 e he⟩
    · -- every source domain has a declared experiment set
      intro p hp hne
      rcases hshape p hp with rfl | ⟨ho, _⟩
      · exact absurd rfl hne
      · exact lookup_of_key (keys_of_seteq hk ho)
    · -- every graph has the regular part of the target graph
      intro p hp
      rcases hshape p hp with rfl | ⟨_, ns, hns, h⟩
      · exact regEq_refl G
      · rw [h]; exact ctd_regEq hns hTn
  refine ⟨hq, ?_, hclean, ?_⟩
  · have hfuel : q.fuel = 4 * (M + 2) * (M + 2) := rfl
    rw [hfuel]
    exact mu2_lt_fuel M q G hq.sizeG
  · show Wf RawLeaf PlainReg (Expr.prob (some (popVar targetPop)) (plainVars G.nodes) [])
    exact ⟨rfl, fun v hv => plainVars_reg hT v (by simpa using hv)⟩

end Trso
end Y0
