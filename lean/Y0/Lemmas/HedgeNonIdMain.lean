/-
  Y0.Lemmas.HedgeNonIdMain — Shpitser & Pearl 2006, Theorem 4: a hedge for `P_x(y)` makes the effect non-identifiable.
  `roots_not_identifiable` gives non-identifiability of `P_x(R)`; every root has a directed path to `Y` that avoids `X`,
  and non-identifiability is pushed down those paths edge by edge (`not_identifiable_child`).
-/
import Y0.Lemmas.HedgeNonIdExtract
import Y0.Lemmas.HedgeNonIdDown

namespace Y0
namespace NonId
open Relation MG

/-- `w` reaches `Y` in at most... exactly `n` steps along directed edges whose heads avoid `X` -/
def ReachN (G : MG Name) (X Y : List Name) : Nat → Name → Prop
  | 0, w => w ∈ Y
  | n + 1, w => ∃ z, (G.DiEdge w z ∧ z ∉ X) ∧ ReachN G X Y n z

theorem reachN_of_path {G : MG Name} {X Y : List Name} {w y : Name} (hy : y ∈ Y)
    (h : ReflTransGen (fun a b => G.DiEdge a b ∧ b ∉ X) w y) : ∃ n, ReachN G X Y n w := by
  induction h using ReflTransGen.head_induction_on with
  | refl => exact ⟨0, hy⟩
  | head hab _ ih =>
    obtain ⟨n, hn⟩ := ih
    exact ⟨n + 1, _, hab, hn⟩

/-- push one outcome down to `Y` -/
theorem push_down {G : MG Name} (hG : G.WF) (hac : G.Acyclic) {X Y : List Name} :
    ∀ (n : Nat) (w : Name), ReachN G X Y n w → w ∉ X → ∀ W : List Name, ¬ Identifiable G X (w :: W) →
      ∃ y ∈ Y, ¬ Identifiable G X (y :: W) := by
  intro n
  induction n with
  | zero => intro w hw _ W h; exact ⟨w, hw, h⟩
  | succ n ih =>
    intro w ⟨z, ⟨hwz, hzX⟩, hz⟩ hwX W h
    have hne : w ≠ z := fun heq => hac w (TransGen.single (heq ▸ hwz))
    have h1 := not_identifiable_child hG hwz hne hzX hwX h
    have h2 : ¬ Identifiable G X (z :: W) := by
      refine not_identifiable_mono ?_ h1
      intro v hv
      rcases List.mem_cons.mp hv with rfl | hv'
      · exact List.mem_cons_self ..
      · have := (List.mem_filter.mp hv').1
        rcases List.mem_cons.mp this with rfl | h'
        · have := (List.mem_filter.mp hv').2
          simp at this
        · exact List.mem_cons_of_mem _ h'
    exact ih z hz hzX W h2

/-- push every outcome down to `Y` -/
theorem push_all {G : MG Name} (hG : G.WF) (hac : G.Acyclic) {X Y : List Name} :
    ∀ (Rl : List Name), (∀ r ∈ Rl, r ∉ X ∧ ∃ n, ReachN G X Y n r) → ∀ Acc : List Name, (∀ a ∈ Acc, a ∈ Y) →
      ¬ Identifiable G X (Rl ++ Acc) → ¬ Identifiable G X Y := by
  intro Rl
  induction Rl with
  | nil => intro _ Acc hAcc h; exact not_identifiable_mono hAcc h
  | cons r Rl ih =>
    intro hR Acc hAcc h
    obtain ⟨hrX, n, hn⟩ := hR r (List.mem_cons_self ..)
    obtain ⟨y, hyY, hy⟩ := push_down hG hac n r hn hrX (Rl ++ Acc) h
    apply ih (fun r' hr' => hR r' (List.mem_cons_of_mem _ hr')) (y :: Acc)
    · intro a ha
      rcases List.mem_cons.mp ha with rfl | ha'
      · exact hyY
      · exact hAcc a ha'
    · refine not_identifiable_mono ?_ hy
      intro v hv
      simp only [List.mem_cons, List.mem_append] at hv ⊢
      tauto

/-- **Shpitser & Pearl 2006, Theorem 4**: if `G` contains a hedge for `P_x(y)`, the effect is not identifiable:
there are two positive models compatible with `G` with the same observational distribution and different
`P(y | do(x))`. -/
theorem hedge_not_identifiable {G : MG Name} (hG : G.WF) (hac : G.Acyclic) {X Y : List Name} {F F' : Name → Prop}
    (hh : G.Hedge X Y F F') : ¬ Identifiable G X Y := by
  obtain ⟨R, hRF', hRY, hrF, hrF'⟩ := hh.root
  obtain ⟨Rl, hRl, hnot⟩ := roots_not_identifiable hG hac hh.sub hh.nodes hh.meetsX hh.avoidsX hh.nonempty
    hh.connF hh.connF' hRF' hrF hrF'
  apply push_all hG hac Rl ?_ [] (by simp) (by simpa using hnot)
  intro r hr
  have hRr := (hRl r).mp hr
  obtain ⟨y, hyY, hpath⟩ := hRY r hRr
  exact ⟨hh.avoidsX r (hRF' r hRr), reachN_of_path hyY hpath⟩

end NonId
end Y0
