/-
  Y0.Lemmas.CfFragA — soundness of ID* on the single-world unstarred fragment, part A: three more invariants of the merge loop.

  * `FragSt`  : when every value of the event is the UNSTARRED value of its own variable, `make_counterfactual_graph` never
                reports 'inconsistent', the values stay unstarred, and every variable name of the original keys keeps a key;
  * `BiRep`   : two different non-self-intervened nodes whose variables are joined by a bidirected edge of `G` are joined by a
                bidirected edge of the counterfactual graph (single-world events);
-/
import Y0.Lemmas.CfTermC

namespace Y0.Cf
open Relation MG Fscm

/-! ## unstarred events -/

/-- every value is the unstarred value of its own variable -/
def Unst (ev : Event) : Prop := ∀ p ∈ ev, p.2 = ⟨p.1.name, false⟩

/-- every value is a value of its own variable, starred as `s` says (a function of the variable's NAME: two keys over one
variable carry the same value) -/
def ValBy (s : Name → Bool) (ev : Event) : Prop := ∀ p ∈ ev, p.2 = ⟨p.1.name, s p.1.name⟩

theorem unst_iff_valBy (ev : Event) : Unst ev ↔ ValBy (fun _ => false) ev := Iff.rfl

def FragSt (s : Name → Bool) (B : List Name) : St → Prop
  | .run _ ev => ValBy s ev ∧ ∀ b ∈ B, ∃ k ∈ ev.keys, k.name = b
  | .stop _ => False

theorem mem_keys_erase (ev : Event) (e x : Var) : x ∈ (ev.erase e).keys ↔ x ∈ ev.keys ∧ x ≠ e := by
  simp only [mem_keys_iff, Event.mem_erase]
  constructor
  · rintro ⟨v, hv, hne⟩; exact ⟨⟨v, hv⟩, hne⟩
  · rintro ⟨⟨v, hv⟩, hne⟩; exact ⟨v, hv, hne⟩

theorem isInconsistent_false_of_unst {s : Name → Bool} (ev : Event) (h : ValBy s ev) (a b : Var) (hab : a.name = b.name) :
    isInconsistent ev a b = false := by
  unfold isInconsistent
  cases ha : ev.get? a with
  | none => rfl
  | some va =>
    cases hb : ev.get? b with
    | none => rfl
    | some vb =>
      have h1 := h _ (Event.get?_mem ha)
      have h2 := h _ (Event.get?_mem hb)
      simp only at h1 h2
      simp only [ne_eq, decide_eq_false_iff_not, not_not]
      rw [h1, h2, hab]

theorem fragSt_mergeStep (s : Name → Bool) (B : List Name) (st : St) (a b : Var) (hab : a ≠ b) (h : FragSt s B st) :
    FragSt s B (mergeStep st a b) := by
  unfold mergeStep
  cases st with
  | stop cf => exact h
  | run cf ev =>
    obtain ⟨hun, hB⟩ := h
    simp only
    split
    · rename_i h24
      have hname := lemma24Holds_names h24
      rw [isInconsistent_false_of_unst ev hun a b hname]
      simp only [Bool.false_eq_true, ↓reduceIte]
      have hr1 : (mergePw cf a b).2.1 = (mergeOrder a b).1 := by unfold mergePw; rfl
      have hr2 : (mergePw cf a b).2.2 = (mergeOrder a b).2 := by unfold mergePw; rfl
      show ValBy s _ ∧ _
      rw [hr1, hr2]
      have hmn := mergeOrder_names a b hname
      unfold updateEvent
      cases he : ev.get? (mergeOrder a b).2 with
      | none => exact ⟨hun, hB⟩
      | some v =>
        simp only
        have hv : v = ⟨(mergeOrder a b).2.name, s (mergeOrder a b).2.name⟩ := hun _ (Event.get?_mem he)
        constructor
        · intro p hp
          rw [Event.mem_erase, Event.mem_set] at hp
          rcases hp with ⟨⟨hp, _⟩ | rfl, _⟩
          · exact hun p hp
          · simp only
            rw [hv, hmn]
        · intro n hn
          obtain ⟨k, hk, hkn⟩ := hB n hn
          by_cases hke : k = (mergeOrder a b).2
          · refine ⟨(mergeOrder a b).1, ?_, ?_⟩
            · rw [mem_keys_erase, mem_keys_set]
              exact ⟨Or.inr rfl, mergeOrder_ne a b hab⟩
            · rw [hmn, ← hke]; exact hkn
          · refine ⟨k, ?_, hkn⟩
            rw [mem_keys_erase, mem_keys_set]
            exact ⟨Or.inl hk, hke⟩
    · exact ⟨hun, hB⟩

end Y0.Cf

namespace Y0.Cf
open Relation MG Fscm

theorem fragSt_runPairs (s : Name → Bool) (B : List Name) (ps : List (Var × Var)) (hne : ∀ p ∈ ps, p.1 ≠ p.2) (st : St)
    (h : FragSt s B st) : FragSt s B (runPairs st ps) := by
  induction ps generalizing st with
  | nil => exact h
  | cons p ps ih =>
    unfold runPairs
    simp only [List.foldl_cons]
    exact ih (fun q hq => hne q (by simp [hq])) _ (fragSt_mergeStep s B st p.1 p.2 (hne p (by simp)) h)

/-! ## bidirected edges of `G` are represented -/

/-- two different non-self-intervened nodes over variables joined by a bidirected edge of `G` are joined in `cf` -/
def BiRep (G : MG Name) (cf : MG Var) : Prop :=
  ∀ a ∈ cf.nodes, ∀ b ∈ cf.nodes, isNotSelfIntervened a = true → isNotSelfIntervened b = true → a ≠ b →
    ((a.name, b.name) ∈ G.bi ∨ (b.name, a.name) ∈ G.bi) → cf.BiEdge a b

def BiRepSt (G : MG Name) : St → Prop
  | .run cf _ => BiRep G cf
  | .stop _ => True

theorem mem_biNbrs_iff (G : MG Name) (u v : Name) : v ∈ G.biNbrs u ↔ ((u, v) ∈ G.bi ∨ (v, u) ∈ G.bi) := by
  constructor
  · exact mem_biNbrs G u v
  · intro h
    unfold MG.biNbrs
    simp only [List.mem_flatMap, List.mem_append]
    rcases h with h | h
    · exact ⟨(u, v), h, Or.inl (by simp)⟩
    · exact ⟨(v, u), h, Or.inr (by simp)⟩

theorem biEdge_cfInit (G : MG Name) (ws : List World) (a b : Var) :
    (cfInit G ws).BiEdge a b ↔ (makeParallelWorldsGraph G ws).BiEdge a b := by
  unfold cfInit
  rw [MG.biEdge_fromEdges]
  rfl

theorem notIntervenedIn_of_nsi (n : Name) (w : World) (h : isNotSelfIntervened (atWorld n w) = true) :
    notIntervenedIn w n = true := by
  unfold isNotSelfIntervened at h
  unfold notIntervenedIn
  rw [List.all_eq_true] at h ⊢
  intro i hi
  exact h i hi

theorem biRep_cfInit (G : MG Name) (hG : G.WF) (hbl : ∀ e ∈ G.bi, e.1 ≠ e.2) (w : World) (hw : w ≠ []) :
    BiRep G (cfInit G [w]) := by
  intro a ha b hb hna hnb hab hbi
  have hform := mem_nodes_cfInit G hG hbl [w] (by simp) (by simpa using hw)
  rw [biEdge_cfInit]
  unfold makeParallelWorldsGraph
  rw [MG.biEdge_fromEdges]
  have hnbr : b.name ∈ G.biNbrs a.name := (mem_biNbrs_iff G a.name b.name).2 hbi
  have hnbr' : a.name ∈ G.biNbrs b.name := (mem_biNbrs_iff G b.name a.name).2 (hbi.symm)
  have haG : a.name ∈ G.nodes := by
    rcases hbi with h | h
    · exact (hG.bi_mem _ h).1
    · exact (hG.bi_mem _ h).2
  have hbG : b.name ∈ G.nodes := by
    rcases hbi with h | h
    · exact (hG.bi_mem _ h).2
    · exact (hG.bi_mem _ h).1
  rcases hform a ha with ⟨n, _, rfl⟩ | ⟨w1, hw1, n, _, rfl⟩ <;> rcases hform b hb with ⟨m, _, rfl⟩ | ⟨w2, hw2, m, _, rfl⟩
  · -- plain, plain
    simp only [Var.plain] at hbi
    rcases hbi with h | h
    · left; simp only [List.mem_append, List.mem_map]; exact Or.inl ⟨(n, m), h, rfl⟩
    · right; simp only [List.mem_append, List.mem_map]; exact Or.inl ⟨(m, n), h, rfl⟩
  · -- plain n, m @ w : stitchFactualAndDopplegangerNeighbors
    simp only [List.mem_singleton] at hw2
    subst hw2
    left
    simp only [List.mem_append]
    refine Or.inr (Or.inl (Or.inr ?_))
    simp only [stitchFactualAndDopplegangerNeighbors, List.mem_flatMap, List.mem_map, List.mem_filter, List.mem_singleton]
    exact ⟨w2, rfl, n, haG, m, ⟨hnbr, notIntervenedIn_of_nsi m w2 hnb⟩, rfl⟩
  · simp only [List.mem_singleton] at hw1
    subst hw1
    right
    simp only [List.mem_append]
    refine Or.inr (Or.inl (Or.inr ?_))
    simp only [stitchFactualAndDopplegangerNeighbors, List.mem_flatMap, List.mem_map, List.mem_filter, List.mem_singleton]
    exact ⟨w1, rfl, m, hbG, n, ⟨hnbr', notIntervenedIn_of_nsi n w1 hna⟩, rfl⟩
  · -- n @ w, m @ w : stitchCounterfactualAndNeighbors
    simp only [List.mem_singleton] at hw1 hw2
    subst hw1; subst hw2
    right
    simp only [List.mem_append]
    refine Or.inr (Or.inl (Or.inl (Or.inl ?_)))
    simp only [stitchCounterfactualAndNeighbors, List.mem_flatMap, List.mem_map, List.mem_filter, List.mem_singleton,
      Bool.and_eq_true]
    exact ⟨_, rfl, n, haG, m, ⟨hnbr, notIntervenedIn_of_nsi n _ hna, notIntervenedIn_of_nsi m _ hnb⟩, rfl⟩

theorem biRep_cfInit_nil (G : MG Name) (hG : G.WF) (hbl : ∀ e ∈ G.bi, e.1 ≠ e.2) : BiRep G (cfInit G []) := by
  intro a ha b hb _ _ _ hbi
  have hform := mem_nodes_cfInit G hG hbl [] (by simp) (by simp)
  rw [biEdge_cfInit]
  unfold makeParallelWorldsGraph
  rw [MG.biEdge_fromEdges]
  rcases hform a ha with ⟨n, _, rfl⟩ | ⟨w1, hw1, _⟩
  · rcases hform b hb with ⟨m, _, rfl⟩ | ⟨w2, hw2, _⟩
    · simp only [Var.plain] at hbi
      rcases hbi with h | h
      · left; simp only [List.mem_append, List.mem_map]; exact Or.inl ⟨(n, m), h, rfl⟩
      · right; simp only [List.mem_append, List.mem_map]; exact Or.inl ⟨(m, n), h, rfl⟩
    · cases hw2
  · cases hw1

theorem biRep_mergePw (G : MG Name) (cf : MG Var) (hwf : cf.WF) (hnl : NoLoops cf) (h : BiRep G cf) (a b : Var) (hab : a ≠ b)
    (ha : a ∈ cf.nodes) (hb : b ∈ cf.nodes) : BiRep G (mergePw cf a b).1 := by
  intro x hx y hy hnx hny hxy hbi
  have hx' := mem_nodes_mergePw cf hwf a b ha hb x hx
  have hy' := mem_nodes_mergePw cf hwf a b ha hb y hy
  have hxne : x ≠ (mergeOrder a b).2 := fun e => removed_not_mem_mergePw cf hnl a b hab (e ▸ hx)
  have hyne : y ≠ (mergeOrder a b).2 := fun e => removed_not_mem_mergePw cf hnl a b hab (e ▸ hy)
  have hold := h x hx' y hy' hnx hny hxy hbi
  rw [mergePw_graph, MG.biEdge_fromEdges]
  simp only [List.mem_append, List.mem_filter, decide_eq_true_eq]
  rcases hold with h1 | h1
  · exact Or.inl (Or.inl (Or.inl ⟨h1, hxne, hyne⟩))
  · exact Or.inr (Or.inl (Or.inl ⟨h1, hyne, hxne⟩))

theorem biRepSt_mergeStep (G : MG Name) (c : Ctx) (st : St) (a b : Var) (hab : a ≠ b) (hf : FullInv c st)
    (h : BiRepSt G st) : BiRepSt G (mergeStep st a b) := by
  unfold mergeStep
  cases st with
  | stop cf => exact h
  | run cf ev =>
    obtain ⟨hrep, _⟩ := hf
    simp only
    split
    · rename_i h24
      obtain ⟨ha, hb⟩ := lemma24Holds_nodes h24
      split
      · trivial
      · exact biRep_mergePw G cf hrep.wf hrep.noLoops h a b hab ha hb
    · exact h

theorem biRepSt_runPairs (G : MG Name) (c : Ctx) (hc : c.OK) (hGl : ∀ e ∈ c.G.di, e.1 ≠ e.2) (ps : List (Var × Var))
    (hne : ∀ p ∈ ps, p.1 ≠ p.2) (st : St) (hf : FullInv c st) (h : BiRepSt G st) : BiRepSt G (runPairs st ps) := by
  induction ps generalizing st with
  | nil => exact h
  | cons p ps ih =>
    unfold runPairs
    simp only [List.foldl_cons]
    exact ih (fun q hq => hne q (by simp [hq])) _ (fullInv_mergeStep c hc hGl st p.1 p.2 (hne p (by simp)) hf)
      (biRepSt_mergeStep G c st p.1 p.2 (hne p (by simp)) hf h)

end Y0.Cf

namespace Y0.Cf
open Relation MG Fscm

/-! ## the fragment and what is known about its counterfactual graph -/

/-- **the fragment**: a well-formed event over variables of `G`, all keys in ONE world `w` (possibly the factual one), every
value the unstarred value of its variable, every subscript unstarred: `P(y_x)` with `x`, `y` unstarred -/
structure Frag (G : MG Name) (w : World) (ev : Event) : Prop where
  good : GoodEv G ev
  unst : Unst ev
  keysIn : KeysIn w ev
  wUnst : ∀ i ∈ w, i.star = false

/-- **single-world events**, any polarity: a well-formed event over variables of `G`, all keys in ONE world `w` (any consistent
subscript set, starred subscripts allowed), the value of the key over `V` is `V`'s value starred as `s V` says -/
structure Frag2 (G : MG Name) (w : World) (s : Name → Bool) (ev : Event) : Prop where
  good : GoodEv G ev
  vals : ValBy s ev
  keysIn : KeysIn w ev

theorem Frag.to2 {G : MG Name} {w : World} {ev : Event} (h : Frag G w ev) : Frag2 G w (fun _ => false) ev :=
  ⟨h.good, h.unst, h.keysIn⟩

/-- what the semantic argument uses about `make_counterfactual_graph(G, ev) = (g, nev)` for an event of the fragment -/
structure SWFacts (G : MG Name) (w : World) (s : Name → Bool) (ev : Event) (g : MG Var) (nev : Event) : Prop where
  wf : g.WF
  nodeOK : ∀ x ∈ g.nodes, KeyOK G x
  shape : ∀ x ∈ g.nodes, x = Var.plain x.name ∨ x = atWorld x.name w
  plainPa : ∀ x y, (x, y) ∈ g.di → y = Var.plain y.name → x = Var.plain x.name
  inj : ∀ x ∈ g.nodes, ∀ y ∈ g.nodes, isNotSelfIntervened x = true → isNotSelfIntervened y = true → x.name = y.name → x = y
  notW : ∀ x ∈ g.nodes, isNotSelfIntervened x = true → x.name ∉ w.map (·.name)
  rep : ∀ n ∈ g.nodes, isNotSelfIntervened n = true → ∀ m, (m, n.name) ∈ G.di → ∃ x, (x, n) ∈ g.di ∧ x.name = m
  biRep : BiRep G g
  nevVals : ValBy s nev
  nevOK : EvOK nev
  keysNodes : ∀ k ∈ nev.keys, k ∈ g.nodes
  keyNames : ∀ b, b ∈ nev.keys.map (·.name) ↔ b ∈ ev.keys.map (·.name)
  proj : EdgeProj G g

/-- what the treatment of ONE district (line 6) uses about a counterfactual graph `g` and the relabelled event `nev` — single-world
or not: nodes in canonical form, at most one non-self-intervened node per variable, every parent (in `G`) of a non-self-intervened
node represented by a parent node, bidirected edges of `G` represented, and no self-intervened node named like a
non-self-intervened one -/
structure DFacts (G : MG Name) (s : Name → Bool) (g : MG Var) (nev : Event) : Prop where
  wf : g.WF
  nodeOK : ∀ x ∈ g.nodes, KeyOK G x
  inj : ∀ x ∈ g.nodes, ∀ y ∈ g.nodes, isNotSelfIntervened x = true → isNotSelfIntervened y = true → x.name = y.name → x = y
  rep : ∀ n ∈ g.nodes, isNotSelfIntervened n = true → ∀ m, (m, n.name) ∈ G.di → ∃ x, (x, n) ∈ g.di ∧ x.name = m
  biRep : BiRep G g
  sep : ∀ v ∈ g.nodes, isNotSelfIntervened v = false → ∀ n ∈ g.nodes, isNotSelfIntervened n = true → v.name ≠ n.name
  nevVals : ValBy s nev
  nevOK : EvOK nev
  keysNodes : ∀ k ∈ nev.keys, k ∈ g.nodes
  proj : EdgeProj G g

theorem frag_facts {ordf : List World → List World} (hord : PermOrder ordf) {G : MG Name} (hG : G.WF)
    (hdl : ∀ e ∈ G.di, e.1 ≠ e.2) (hbl : ∀ e ∈ G.bi, e.1 ≠ e.2) {w : World} {s : Name → Bool} {ev : Event}
    (hf : Frag2 G w s ev) (hne : ev ≠ [])
    {g : MG Var} {o : Option Event} (h : makeCounterfactualGraph ordf G ev = .ok (g, o)) :
    ∃ nev, o = some nev ∧ SWFacts G w s ev g nev := by
  have hev := hf.good.ok
  have hk := hf.good.keys
  have hkw := hf.keysIn
  have hgood := hord.good ev.keys
  -- the loop never stops
  obtain ⟨topo, ht⟩ : ∃ topo, G.topologicalSort = .ok topo := by
    cases ht : G.topologicalSort with
    | ok topo => exact ⟨topo, rfl⟩
    | error e => rw [(cg_error_iff_cyclic ordf G ev e).2 ht] at h; cases h
  have hfrag : FragSt s (ev.keys.map (·.name)) (loopResult ordf G ev topo) := by
    unfold loopResult
    rw [mergeLoop_eq]
    apply fragSt_runPairs s _ _ (allPairs_ne _ hgood.1 hgood.2 topo)
    exact ⟨hf.vals, fun b hb => by
      obtain ⟨k, hk', rfl⟩ := List.mem_map.1 hb
      exact ⟨k, hk', rfl⟩⟩
  cases o with
  | none =>
    obtain ⟨topo', ht', hl⟩ := cg_none_shape h
    rw [ht] at ht'; cases ht'
    rw [hl] at hfrag
    exact hfrag.elim
  | some nev =>
    refine ⟨nev, rfl, ?_⟩
    obtain ⟨topo', cf', anc, ht', hrep, hnevok, hkey, hl, ha, rfl⟩ := cg_run_inv hord hG hdl hbl hev hk h
    rw [ht] at ht'; cases ht'
    have hc := trivCtx_ok G hG topo ht ev
    rw [hl] at hfrag
    obtain ⟨hnevun, hnevB⟩ := hfrag
    have hwf'' := wf_foldl_addNode nev.keys cf' hrep.wf
    have spec := ancestorsInclusive_spec _ hwf'' _ _ ha
    have hinG : ∀ x ∈ cf'.nodes, x.name ∈ G.nodes := fun x hx => (hc.compat.perm.mem_iff).1 (hrep.nodes x hx).inModel
    have hnodeOK := cg_nodeOK hord hG hdl hbl hev hk h
    have hrepG := cg_rep hord hG hdl hbl hev hk h
    have hproj'' : EdgeProj G (nev.keys.foldl MG.addNode cf') := by
      intro a b hab
      exact hrep.proj a b ((diEdge_foldl_addNode _ _ _ _).1 hab)
    have hprojg : EdgeProj G ((nev.keys.foldl MG.addNode cf').subgraph anc) := by
      intro a b hab
      exact hproj'' a b ((MG.diEdge_subgraph _ _ _ _).1 hab).1
    -- the initial state satisfies the other invariants; FullInv for the bidirected one
    have hwcs : ∀ w' ∈ ordf (extractInterventions ev.keys), ConsistentSubs w' := by
      intro w' hw'
      obtain ⟨k, hkk, _, rfl⟩ := (mem_extractInterventions _ w').1 ((hord _).mem_iff.1 hw')
      exact (hk k hkk).subs
    have hfull0 : FullInv (trivCtx G topo ev) (.run (cf0 G (ordf (extractInterventions ev.keys))) ev) :=
      ⟨repInv_cfInit (trivCtx G topo ev) hc hG hdl hbl _ hgood.1 hgood.2 hwcs, ⟨fun _ _ _ => Iff.rfl, hev⟩⟩
    -- key names
    have hkeyNames : ∀ b, b ∈ nev.keys.map (·.name) ↔ b ∈ ev.keys.map (·.name) := by
      intro b
      constructor
      · intro hb
        -- every key of the relabelled event is named after an original key: by the name invariant of the single-world loop,
        -- or trivially when nothing was merged
        by_cases hw : w = []
        · subst hw
          have hws := worlds_of_keysIn_nil hord hkw
          have hl' : loopResult ordf G ev topo = .run (cfInit G []) ev := by
            unfold loopResult
            rw [hws, mergeLoop_eq, allPairs_nil]
            rfl
          rw [hl] at hl'
          simp only [St.run.injEq] at hl'
          rw [hl'.2] at hb
          exact hb
        · obtain ⟨k, hk', rfl⟩ := List.mem_map.1 hb
          exact (tw_final hord hG hdl hbl hev hne hk w hkw hw topo ht hl).keyNames k hk'
      · intro hb
        obtain ⟨k, hk', hkn⟩ := hnevB b hb
        exact List.mem_map.2 ⟨k, hk', hkn⟩
    by_cases hw : w = []
    · -- all keys factual: nothing is merged
      subst hw
      have hws := worlds_of_keysIn_nil hord hkw
      have hl' : loopResult ordf G ev topo = .run (cfInit G []) ev := by
        unfold loopResult
        rw [hws, mergeLoop_eq, allPairs_nil]
        rfl
      rw [hl] at hl'
      simp only [St.run.injEq] at hl'
      obtain ⟨rfl, rfl⟩ := hl'
      have hkeysin : ∀ k ∈ nev.keys, k ∈ (cfInit G []).nodes := by
        intro k hkk
        rw [hkw k hkk]
        exact plain_mem_cfInit G [] _ (hk k hkk).inG
      have hnodes'' : ∀ x, x ∈ (nev.keys.foldl MG.addNode (cfInit G [])).nodes → x ∈ (cfInit G []).nodes := by
        intro x hx
        rcases (mem_nodes_foldl_addNode _ _ _).1 hx with hx' | hx'
        · exact hx'
        · exact hkeysin x hx'
      have hplain : ∀ x ∈ (cfInit G []).nodes, x = Var.plain x.name := by
        intro x hx'
        rcases mem_nodes_cfInit G hG hbl [] (by simp) (by simp) x hx' with ⟨n, _, rfl⟩ | ⟨w, hw, _⟩
        · rfl
        · cases hw
      have hancnode : ∀ x ∈ anc, x ∈ (cfInit G []).nodes := by
        intro x hx
        obtain ⟨s, hs, hxs⟩ := (spec x).1 hx
        rcases ReflTransGen.cases_head hxs with rfl | ⟨y, hxy, _⟩
        · exact hkeysin _ hs
        · exact hnodes'' _ (hwf''.di_mem _ hxy).1
      refine ⟨wf_subgraph _ _, hnodeOK, ?_, ?_, ?_, ?_, hrepG, ?_, hnevun, hnevok, ?_, hkeyNames, hprojg⟩
      · intro x hx
        rw [MG.mem_nodes_subgraph] at hx
        exact Or.inl (hplain x (hancnode x hx))
      · intro x y hxy _
        have hx : x ∈ anc := ((MG.diEdge_subgraph _ _ _ _).1 hxy).2.1
        exact hplain x (hancnode x hx)
      · intro x hx y hy _ _ hxy
        rw [MG.mem_nodes_subgraph] at hx hy
        rw [hplain x (hancnode x hx), hplain y (hancnode y hy), hxy]
      · intro x _ _ hmem
        cases hmem
      · intro a ha b hb hna hnb hab hbi
        rw [MG.mem_nodes_subgraph] at ha hb
        rw [MG.biEdge_subgraph]
        refine ⟨?_, ha, hb⟩
        have := biRep_cfInit_nil G hG hbl a (hancnode a ha) b (hancnode b hb) hna hnb hab hbi
        unfold MG.BiEdge at this ⊢
        rw [bi_foldl_addNode]
        exact this
      · intro k hkk
        exact subgraph_ancestors_contains _ hwf'' _ _ ha k hkk
    · -- one counterfactual world
      have hws := worlds_of_keysIn hord hkw hne hw
      have htw := tw_final hord hG hdl hbl hev hne hk w hkw hw topo ht hl
      have hbirep : BiRepSt G (loopResult ordf G ev topo) := by
        unfold loopResult
        rw [mergeLoop_eq]
        refine biRepSt_runPairs G (trivCtx G topo ev) hc hdl _ (allPairs_ne _ hgood.1 hgood.2 topo) _ hfull0 ?_
        rw [hws]
        exact biRep_cfInit G hG hbl w hw
      rw [hl] at hbirep
      have hnodes'' : ∀ x, x ∈ (nev.keys.foldl MG.addNode cf').nodes → x ∈ cf'.nodes := by
        intro x hx
        rcases (mem_nodes_foldl_addNode _ _ _).1 hx with hx' | hx'
        · exact hx'
        · exact htw.keysIn x hx'
      have hancnode : ∀ x ∈ anc, x ∈ cf'.nodes := by
        intro x hx
        obtain ⟨s, hs, hxs⟩ := (spec x).1 hx
        rcases ReflTransGen.cases_head hxs with rfl | ⟨y, hxy, _⟩
        · exact htw.keysIn _ hs
        · exact hnodes'' _ (hwf''.di_mem _ hxy).1
      have hPA : ∀ s ∈ nev.keys, ∀ z, ReflTransGen (nev.keys.foldl MG.addNode cf').DiEdge z s →
          ∀ m, z = Var.plain m → Mrg w cf' m := by
        intro s hs z hz
        induction hz using ReflTransGen.head_induction_on with
        | refl =>
          intro m hm
          exact htw.keyPlain m (hm ▸ hs)
        | head hzy hys ih =>
          rename_i z y
          intro m hm
          have hzy' : (z, y) ∈ cf'.di := (diEdge_foldl_addNode _ _ _ _).1 hzy
          by_cases hy : y = Var.plain y.name
          · have hmy := ih y.name hy
            have hyn : y ∈ cf'.nodes := (hrep.wf.di_mem _ hzy').2
            have hedge := hrep.proj z y hzy'
            rw [hm] at hedge
            exact (htw.closed y.name (hinG y hyn) hmy).2 m hedge
          · rw [hm] at hzy'
            exact htw.mixed m y hzy' hy
      refine ⟨wf_subgraph _ _, hnodeOK, ?_, ?_, ?_, ?_, hrepG, ?_, hnevun, hnevok, ?_, hkeyNames, hprojg⟩
      · intro x hx
        rw [MG.mem_nodes_subgraph] at hx
        exact htw.shape x (hancnode x hx)
      · intro x y hxy hy
        have hxy' : (x, y) ∈ cf'.di := (diEdge_foldl_addNode _ _ _ _).1 ((MG.diEdge_subgraph _ _ _ _).1 hxy).1
        rw [hy] at hxy'
        exact htw.plainPa x y.name hxy'
      · intro x hx y hy hnx hny hxy
        rw [MG.mem_nodes_subgraph] at hx hy
        have key : ∀ a b : Var, a ∈ anc → b ∈ anc → a = Var.plain a.name → b = atWorld b.name w → a.name = b.name → False := by
          intro a b ha' hb' hap hbw hab
          obtain ⟨s, hs, has⟩ := (spec a).1 ha'
          have := hPA s hs a has a.name hap
          apply this
          rw [hab, ← hbw]
          exact hancnode b hb'
        rcases htw.shape x (hancnode x hx) with hx1 | hx1 <;> rcases htw.shape y (hancnode y hy) with hy1 | hy1
        · rw [hx1, hy1, hxy]
        · exact (key x y hx hy hx1 hy1 hxy).elim
        · exact (key y x hy hx hy1 hx1 hxy.symm).elim
        · rw [hx1, hy1, hxy]
      · intro z hz hnz hmem
        rw [MG.mem_nodes_subgraph] at hz
        have hzn : z ∈ cf'.nodes := hancnode z hz
        obtain ⟨s, hs, hzs⟩ := (spec z).1 hz
        rcases htw.shape z hzn with hz1 | hz1
        · have hm := hPA s hs z hzs z.name hz1
          exact (htw.closed z.name (hinG z hzn) hm).1 hmem
        · rw [hz1, nsi_atWorld_of_mem hmem] at hnz
          cases hnz
      · intro a ha' b hb' hna hnb hab hbi
        rw [MG.mem_nodes_subgraph] at ha' hb'
        rw [MG.biEdge_subgraph]
        refine ⟨?_, ha', hb'⟩
        have := hbirep a (hancnode a ha') b (hancnode b hb') hna hnb hab hbi
        unfold MG.BiEdge at this ⊢
        rw [bi_foldl_addNode]
        exact this
      · intro k hkk
        exact subgraph_ancestors_contains _ hwf'' _ _ ha k hkk

end Y0.Cf
