/-
  Y0.Lemmas.CfIdcStar — structural facts about the IDC* model (Y0/Model/IdcStar.lean): rejection at line 1,
  the single-world vocabulary invariant through `Expression.conditional`, monotonicity in the fuel.
-/
import Y0.Model.IdcStar
import Y0.Lemmas.CfIdStar

namespace Y0
namespace Cf

variable (ordf : List World → List World) (dordf kordf : List Var → List Var) (G : MG Name)

/-- expose the nested `match` structure of one IDC* step -/
macro "unfoldIdc" "at" h:ident : tactic =>
  `(tactic| (unfold idcStarFuel at $h:ident
             simp only [bind, Except.bind, pure, Except.pure, throw, throwThe, MonadExceptOf.throw] at $h:ident))
macro "unfoldIdc" : tactic =>
  `(tactic| (unfold idcStarFuel
             simp only [bind, Except.bind, pure, Except.pure, throw, throwThe, MonadExceptOf.throw]))

/-! ### line 1 -/

theorem line1_zero (r : Except Err Expr) (h : r = .ok .zero) :
    line1 r = .error (.invalidInput "ImpossibleCondition") := by
  subst h; rfl

theorem line1_ok_iff (r : Except Err Expr) :
    line1 r = .ok () ↔ (∃ e, r = .ok e ∧ isZeroE e = false) ∨ r = .error .unidentifiable := by
  unfold line1
  cases r with
  | ok e =>
    by_cases hz : isZeroE e = true
    · simp [hz]
    · simp [hz]
  | error err =>
    cases err <;> simp

/-- IDC* stops with the rejection as soon as ID* says the conditions are impossible — whatever the outcomes -/
theorem idcStarFuel_rejects (fuel : Nat) (outcomes conditions : Event)
    (h : idStar ordf dordf G conditions = .ok .zero) :
    idcStarFuel ordf dordf kordf G (fuel + 1) outcomes conditions = .error (.invalidInput "ImpossibleCondition") := by
  unfoldIdc
  rw [line1_zero _ h]

/-! ### vocabulary -/

theorem singleWorld_divide (e d x : Expr) (he : SingleWorld e) (hd : SingleWorld d) (h : divide e d = .ok x) :
    SingleWorld x := by
  unfold divide at h
  split at h
  · cases h
  · cases h; exact SingleWorld.zero
  · cases h; exact he
  · cases h
  · cases h
  · cases h; exact SingleWorld.frac _ _ he hd

theorem singleWorld_conditional (e x : Expr) (rs : List Name) (he : SingleWorld e) (h : conditional e rs = .ok x) :
    SingleWorld x := by
  unfold conditional at h
  exact singleWorld_divide _ _ _ he (singleWorld_sumSafe _ _ he) h

theorem idcStarFuel_singleWorld (fuel : Nat) (outcomes conditions : Event) (x : Expr)
    (h : idcStarFuel ordf dordf kordf G fuel outcomes conditions = .ok x) : SingleWorld x := by
  induction fuel generalizing outcomes conditions x with
  | zero => simp [idcStarFuel] at h
  | succ n ih =>
    unfoldIdc at h
    cases h1 : line1 (idStar ordf dordf G conditions) with
    | error err => rw [h1] at h; cases h
    | ok u =>
      rw [h1] at h
      simp only at h
      cases hcg : makeCounterfactualGraph ordf G (Event.ofList (outcomes ++ conditions)) with
      | error err => rw [hcg] at h; cases h
      | ok v =>
        rw [hcg] at h
        simp only at h
        rcases v with ⟨cf, new⟩
        cases new with
        | none =>
          simp only [Except.ok.injEq] at h
          subst h; exact SingleWorld.zero
        | some nev =>
          simp only at h
          cases hf : firstExchangeable cf (newOutcomesAndConditions kordf nev outcomes conditions).fst.keys
              (newOutcomesAndConditions kordf nev outcomes conditions).snd.keys with
          | error err => rw [hf] at h; cases h
          | ok oc =>
            rw [hf] at h
            simp only at h
            cases oc with
            | some c1 =>
              simp only at h
              cases hg : (newOutcomesAndConditions kordf nev outcomes conditions).snd.get? c1 with
              | none => rw [hg] at h; cases h
              | some val =>
                rw [hg] at h
                simp only at h
                cases hx : exchangeStep cf (newOutcomesAndConditions kordf nev outcomes conditions).fst c1 val
                    ((newOutcomesAndConditions kordf nev outcomes conditions).snd.filter (fun p => p.1 ≠ c1)) with
                | error err => rw [hx] at h; cases h
                | ok on =>
                  rw [hx] at h
                  cases on with
                  | none =>
                    simp only [pure, Except.pure, Except.ok.injEq] at h
                    subst h; exact SingleWorld.zero
                  | some no' => exact ih _ _ _ h
            | none =>
              simp only at h
              cases hs : idStar ordf dordf G (Event.ofList ((newOutcomesAndConditions kordf nev outcomes conditions).fst ++
                  (newOutcomesAndConditions kordf nev outcomes conditions).snd)) with
              | error err => rw [hs] at h; cases h
              | ok est =>
                rw [hs] at h
                simp only at h
                have hest : SingleWorld est := idStarFuel_singleWorld ordf dordf G _ _ est hs
                split at h
                · simp only [Except.ok.injEq] at h; subst h; exact hest
                · exact singleWorld_conditional _ _ _ hest h

/-! ### monotonicity in the fuel -/

theorem idcStarFuel_mono (fuel : Nat) (outcomes conditions : Event) (x : Expr)
    (h : idcStarFuel ordf dordf kordf G fuel outcomes conditions = .ok x) :
    idcStarFuel ordf dordf kordf G (fuel + 1) outcomes conditions = .ok x := by
  induction fuel generalizing outcomes conditions x with
  | zero => simp [idcStarFuel] at h
  | succ n ih =>
    unfoldIdc at h
    unfoldIdc
    cases h1 : line1 (idStar ordf dordf G conditions) with
    | error err => rw [h1] at h; cases h
    | ok u =>
      rw [h1] at h
      simp only at h ⊢
      cases hcg : makeCounterfactualGraph ordf G (Event.ofList (outcomes ++ conditions)) with
      | error err => rw [hcg] at h; cases h
      | ok v =>
        rw [hcg] at h
        simp only at h ⊢
        rcases v with ⟨cf, new⟩
        cases new with
        | none => exact h
        | some nev =>
          simp only at h ⊢
          cases hf : firstExchangeable cf (newOutcomesAndConditions kordf nev outcomes conditions).fst.keys
              (newOutcomesAndConditions kordf nev outcomes conditions).snd.keys with
          | error err => rw [hf] at h; cases h
          | ok oc =>
            rw [hf] at h
            simp only at h ⊢
            cases oc with
            | some c1 =>
              simp only at h ⊢
              cases hg : (newOutcomesAndConditions kordf nev outcomes conditions).snd.get? c1 with
              | none => rw [hg] at h; cases h
              | some val =>
                rw [hg] at h
                simp only at h ⊢
                cases hx : exchangeStep cf (newOutcomesAndConditions kordf nev outcomes conditions).fst c1 val
                    ((newOutcomesAndConditions kordf nev outcomes conditions).snd.filter (fun p => p.1 ≠ c1)) with
                | error err => rw [hx] at h; cases h
                | ok on =>
                  rw [hx] at h
                  cases on with
                  | none => exact h
                  | some no' =>
                    simp only at h ⊢
                    exact ih _ _ _ h
            | none => exact h

/-! ### an ID* estimand is never a `Fraction`: the division of `Expression.conditional` is fully modelled -/

/-- no `Fraction` (and no `QFactor`) anywhere in the expression -/
inductive NoFrac : Expr → Prop
  | prob (pop : Option Var) (c p : List Var) : NoFrac (.prob pop c p)
  | prod (fs : List Expr) : (∀ f ∈ fs, NoFrac f) → NoFrac (.prod fs)
  | sum (e : Expr) (r : List Var) : NoFrac e → NoFrac (.sum e r)
  | one : NoFrac .one
  | zero : NoFrac .zero

theorem noFrac_probSafe (bases : List Name) (ivs : List Iv) (e : Expr) (h : probSafe bases ivs = .ok e) : NoFrac e := by
  unfold probSafe at h
  simp only at h
  split at h
  · cases h
  · split at h <;> (simp only [Except.ok.injEq] at h; subst h; exact NoFrac.prob _ _ _)

theorem noFrac_sumSafe (e : Expr) (rs : List Name) (h : NoFrac e) : NoFrac (sumSafe e rs) := by
  unfold sumSafe
  simp only
  split
  · exact h
  · split
    · exact h
    · exact NoFrac.sum _ _ h

theorem noFrac_productSafe (fs : List Expr) (h : ∀ f ∈ fs, NoFrac f) : NoFrac (productSafe fs) := by
  unfold productSafe
  simp only
  split
  · exact NoFrac.zero
  · have hf : ∀ f ∈ fs.filter (fun e => !isOneE e), NoFrac f := fun f hf => h f (List.mem_filter.1 hf).1
    split
    · exact NoFrac.one
    · rename_i e he
      exact hf e (by rw [he]; simp)
    · exact NoFrac.prod _ hf

theorem lines4to9_noFrac (rec : Event → Except Err Expr) (hrec : ∀ ev x, rec ev = .ok x → NoFrac x)
    (ev : Event) (x : Expr) (h : idStarLines4to9 ordf dordf G rec ev = .ok x) : NoFrac x := by
  unfold49 at h
  cases hcg : makeCounterfactualGraph ordf G ev with
  | error err => rw [hcg] at h; cases h
  | ok v =>
    rw [hcg] at h
    simp only at h
    rcases v with ⟨cf, new⟩
    cases new with
    | none =>
      simp only [Except.ok.injEq] at h
      subst h
      exact NoFrac.zero
    | some nev =>
      simp only at h
      cases hc : isConnected (nsiSubgraph cf) with
      | error err => rw [hc] at h; cases h
      | ok c =>
        rw [hc] at h
        simp only at h
        split at h
        · cases hev : eventsOfEachDistrict dordf cf nev with
          | error err => rw [hev] at h; cases h
          | ok evs =>
            rw [hev] at h
            simp only at h
            split at h
            · cases h
            · cases hm : evs.mapM rec with
              | error err => rw [hm] at h; cases h
              | ok fs =>
                rw [hm] at h
                simp only [Except.ok.injEq] at h
                subst h
                apply noFrac_sumSafe
                apply noFrac_productSafe
                intro f hf
                obtain ⟨e', _, he'⟩ := mapM_ok_mem _ _ _ hm f hf
                exact hrec e' f he'
        · split at h
          · cases h
          · cases h9 : line9 (nsiSubgraph cf) with
            | error err => rw [h9] at h; cases h
            | ok e9 =>
              rw [h9] at h
              simp only [Except.ok.injEq] at h
              subst h
              apply noFrac_sumSafe
              exact noFrac_probSafe _ _ _ h9

theorem idStarFuel_noFrac (fuel : Nat) (ev : Event) (x : Expr) (h : idStarFuel ordf dordf G fuel ev = .ok x) :
    NoFrac x := by
  induction fuel generalizing ev x with
  | zero => simp [idStarFuel] at h
  | succ n ih =>
    rw [idStarFuel] at h
    unfold idStarBody at h
    split at h
    · simp only [Except.ok.injEq] at h; subst h; exact NoFrac.one
    · split at h
      · simp only [Except.ok.injEq] at h; subst h; exact NoFrac.zero
      · split at h
        · exact ih _ _ h
        · exact lines4to9_noFrac ordf dordf G _ (fun ev' x' h' => ih ev' x' h') ev x h

theorem divide_modelled (e d : Expr) (hd : NoFrac d) :
    divide e d ≠ .error (.internal "unmodelled: division by a Fraction") := by
  intro h
  unfold divide at h
  split at h
  · simp only [Except.error.injEq, Err.internal.injEq] at h; exact absurd h (by decide)
  · cases h
  · cases h
  · simp only [Except.error.injEq, Err.internal.injEq] at h; exact absurd h (by decide)
  · cases hd
  · cases h

/-- on an ID* estimand, `Expression.conditional` never reaches the branch of `__truediv__` that the model leaves out -/
theorem conditional_modelled (e : Expr) (rs : List Name) (he : NoFrac e) :
    conditional e rs ≠ .error (.internal "unmodelled: division by a Fraction") := by
  unfold conditional
  exact divide_modelled _ _ (noFrac_sumSafe _ _ he)

end Cf
end Y0
