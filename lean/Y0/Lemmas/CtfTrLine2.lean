/-
  Y0.Lemmas.CtfTrLine2 — line 2 of Algorithm 2 (`CtfTr.line2`, the model of
  `_transport_unconditional_counterfactual_query_line_2`) never raises on a well-formed graph without self-loops when
  the (simplified) event only mentions nodes, and every ctf-factor it returns is non-empty, named after nodes and
  bidirected-connected inside the subgraph induced by its own names.
-/
import Y0.Props.C19
import Y0.Model.CtfTr
import Y0.Lemmas.TianTotal

namespace Y0.CtfTr
open Ctf Relation Y0.MG

/-- what line 2 needs from the (simplified) event: every variable is named after a node and is either a counterfactual
variable or an unstarred plain `Variable` -/
def EventOK (g : MG Name) (ev : Ctf.Event) : Prop :=
  ∀ p ∈ ev, p.1.name ∈ g.nodes ∧ (p.1.isCf = true ∨ (p.1.isIv = false ∧ p.1.star = none))

/-! ### the pieces of `line2`, named -/

/-- `withValues` of `line2`: every ancestor with the value the event gives it -/
def withValues (ev : Ctf.Event) (anc : List Var) : Ctf.Event :=
  anc.map fun v =>
    match ev.find? (fun p => p.1 == v) with
    | some p => (v, (ev.filter (fun q => q.1 == v)).getLast?.bind (·.2) |>.orElse fun _ => p.2)
    | none => (v, none)

/-- one step of the conversion loop of `line2` -/
def convStep (g : MG Name) (p : Var × Ctf.Val) : Except Err (Var × Ctf.Val) := do
  pure ((← Ctf.convertOne g p.1), p.2)

theorem line2_eq (g : MG Name) (ev : Ctf.Event) :
    line2 g ev =
      (ev.foldlM (Ctf.ancStep g) []).bind fun anc =>
        ((withValues ev anc).mapM (convStep g)).bind fun cv =>
          (Ctf.ctfFactorsValues (g.subgraph (dedup' (anc.map (·.name)))) (dedup' cv)).bind fun factors =>
            .ok (withValues ev anc, factors) := rfl

theorem withValues_fst (ev : Ctf.Event) (anc : List Var) (p : Var × Ctf.Val) (hp : p ∈ withValues ev anc) :
    p.1 ∈ anc := by
  unfold withValues at hp
  obtain ⟨v, hv, rfl⟩ := List.mem_map.1 hp
  split <;> exact hv

theorem withValues_cover (ev : Ctf.Event) (anc : List Var) (v : Var) (hv : v ∈ anc) :
    ∃ p ∈ withValues ev anc, p.1 = v := by
  unfold withValues
  refine ⟨_, List.mem_map.2 ⟨v, hv, rfl⟩, ?_⟩
  split <;> rfl

/-! ### step 1: the ancestors -/

theorem anc_mem_nodes (g : MG Name) (hg : g.WF) (y a : Name) (hy : y ∈ g.nodes) (h : g.Anc [y] a) :
    a ∈ g.nodes := by
  obtain ⟨s, hs, hp⟩ := h
  simp only [List.mem_singleton] at hs
  subst hs
  induction hp using ReflTransGen.head_induction_on with
  | refl => exact hy
  | head hab _ _ => exact (hg.di_mem _ hab).1

/-- `get_ancestors_of_counterfactual` succeeds on a counterfactual variable and on an unstarred plain variable named
after a node, and everything it returns is named after a node -/
theorem ctfAncestors_ok (g : MG Name) (hg : g.WF) (v : Var) (hn : v.name ∈ g.nodes)
    (hk : v.isCf = true ∨ (v.isIv = false ∧ v.star = none)) :
    ∃ A, ctfAncestors g v = .ok A ∧ ∀ w ∈ A, w.name ∈ g.nodes := by
  by_cases hcf : v.isCf = true
  · obtain ⟨A, hA⟩ := ctf_ancestors_total g hg v hcf hn
    exact ⟨A, hA, fun w hw => ancUnder_mem_nodes g hg _ _ _ hn ((ctf_ancestors_spec g hg v hcf A hA).1 w hw).1⟩
  · have hcf' : v.isCf = false := by simpa using hcf
    rcases hk with hk | ⟨hiv, hstar⟩
    · exact absurd hk hcf
    obtain ⟨U, hU⟩ := ancestorsInclusive_total g [v.name]
      (by intro s hs; simp only [List.mem_singleton] at hs; subst hs; exact hn)
    refine ⟨U.map Var.plain, ?_, ?_⟩
    · unfold ctfAncestors
      simp only [hcf', hiv, hstar, Bool.not_false, ↓reduceIte, Bool.false_eq_true, Option.isSome_none, bind,
        Except.bind, hU, pure, Except.pure]
    · intro w hw
      obtain ⟨a, ha, rfl⟩ := List.mem_map.1 hw
      exact anc_mem_nodes g hg v.name a hn ((ancestorsInclusive_spec g hg _ _ hU a).1 ha)

/-- the accumulation loop of line 2 succeeds and keeps "named after a node" -/
theorem ancFold_total (g : MG Name) (hg : g.WF) (ev : Ctf.Event) (hev : EventOK g ev) (acc : List Var)
    (hacc : ∀ w ∈ acc, w.name ∈ g.nodes) :
    ∃ anc, ev.foldlM (Ctf.ancStep g) acc = .ok anc ∧ ∀ w ∈ anc, w.name ∈ g.nodes := by
  induction ev generalizing acc with
  | nil => exact ⟨acc, rfl, hacc⟩
  | cons p q ih =>
    obtain ⟨A, hA, hAn⟩ := ctfAncestors_ok g hg p.1 (hev p (by simp)).1 (hev p (by simp)).2
    obtain ⟨anc, hanc, hn⟩ := ih (fun x hx => hev x (by simp [hx])) (unionVars acc A) (by
      intro w hw
      simp only [unionVars, List.mem_append, List.mem_filter] at hw
      rcases hw with hw | ⟨hw, _⟩
      · exact hacc w hw
      · exact hAn w hw)
    refine ⟨anc, ?_, hn⟩
    simp only [List.foldlM_cons, bind, Except.bind, ancStep, hA, pure, Except.pure]
    exact hanc

/-! ### step 2: conversion to ctf-factor form -/

theorem convertOne_total (g : MG Name) (v : Var) (hv : v.name ∈ g.nodes) : ∃ w, convertOne g v = .ok w := by
  unfold convertOne
  simp only [predecessors, hv, ↓reduceIte, bind, Except.bind, pure, Except.pure]
  exact ⟨_, rfl⟩

theorem convStep_ok (g : MG Name) (p q : Var × Ctf.Val) (h : convStep g p = .ok q) :
    convertOne g p.1 = .ok q.1 ∧ q.2 = p.2 := by
  unfold convStep at h
  simp only [bind, Except.bind] at h
  cases hc : convertOne g p.1 with
  | error e => rw [hc] at h; cases h
  | ok w =>
    rw [hc] at h
    simp only [pure, Except.pure, Except.ok.injEq] at h
    subst h
    exact ⟨rfl, rfl⟩

theorem convStep_total (g : MG Name) (p : Var × Ctf.Val) (hp : p.1.name ∈ g.nodes) :
    ∃ q, convStep g p = .ok q := by
  obtain ⟨w, hw⟩ := convertOne_total g p.1 hp
  exact ⟨(w, p.2), by simp only [convStep, bind, Except.bind, hw, pure, Except.pure]⟩

/-! ### step 4: the grouping loop is total and never produces an empty group -/

section group
variable {β : Type} [DecidableEq β]

theorem groupFold_total (g : MG Name) (hg : g.WF) (name : β → Name) (xs : List β)
    (hxs : ∀ x ∈ xs, name x ∈ g.nodes) (m : List (List Name × List β)) (hm : ∀ p ∈ m, p.2 ≠ []) :
    ∃ m', xs.foldlM (groupStep g name) m = .ok m' ∧ ∀ p ∈ m', p.2 ≠ [] := by
  induction xs generalizing m with
  | nil => exact ⟨m, rfl, hm⟩
  | cons x xs ih =>
    obtain ⟨d, hd⟩ := getDistrict_total g hg (name x) (hxs x (by simp))
    obtain ⟨m', hm', hne⟩ := ih (fun y hy => hxs y (by simp [hy])) (addToDistrict m d x) (by
      intro p hp
      rcases (mem_addToDistrict m d x p).1 hp with ⟨q, hq, _, rfl⟩ | ⟨q, hq, _, rfl⟩ | ⟨_, rfl⟩
      · exact hm p hq
      · simp only
        split
        · exact hm q hq
        · simp
      · simp)
    refine ⟨m', ?_, hne⟩
    simp only [List.foldlM_cons, bind, Except.bind, groupStep, hd, pure, Except.pure]
    exact hm'

theorem groupByDistrict_total (g : MG Name) (hg : g.WF) (name : β → Name) (xs : List β)
    (hxs : ∀ x ∈ xs, name x ∈ g.nodes) :
    ∃ groups, groupByDistrict g name xs = .ok groups ∧ ∀ f ∈ groups, f ≠ [] := by
  obtain ⟨m, hm, hne⟩ := groupFold_total g hg name xs hxs [] (by intro p hp; cases hp)
  refine ⟨m.map (·.2), ?_, ?_⟩
  · unfold groupByDistrict
    simp only [bind, Except.bind, hm, pure, Except.pure]
  · intro f hf
    obtain ⟨p, hp, rfl⟩ := List.mem_map.1 hf
    exact hne p hp

end group

/-! ### step 5: every group is a whole district of the subgraph, hence connected inside its own names -/

/-- when the grouped elements name exactly the nodes of `g.subgraph S`, the names of a group are a whole district of
that subgraph, and a bidirected path between two of its members stays inside it (the argument of
`TianTotal.district_subgraph_le_one`) -/
theorem group_connected (g : MG Name) (S : List Name) (ev : Ctf.Event)
    (hcover : ∀ n ∈ S, ∃ x ∈ ev, x.1.name = n) (hin : ∀ x ∈ ev, x.1.name ∈ S)
    (groups : List Ctf.Event) (h : groupByDistrict (g.subgraph S) (·.1.name) ev = .ok groups)
    (f : Ctf.Event) (hf : f ∈ groups) (a : Var × Ctf.Val) (ha : a ∈ f) (b : Var × Ctf.Val) (hb : b ∈ f) :
    (g.subgraph (dedup' (f.map (·.1.name)))).SameDistrict a.1.name b.1.name := by
  have hwf := wf_subgraph g S
  obtain ⟨hmem, hgrp⟩ := groupByDistrict_spec (g.subgraph S) (·.1.name) ev groups h
  have hnode : ∀ x ∈ ev, x.1.name ∈ (g.subgraph S).nodes := fun x hx => (mem_nodes_subgraph g S _).2 (hin x hx)
  have haev : a ∈ ev := (hmem a).1 ⟨f, hf, ha⟩
  obtain ⟨da, hda⟩ := getDistrict_total (g.subgraph S) hwf a.1.name (hnode a haev)
  -- the connecting path stays inside the group
  have key : ∀ c, (g.subgraph S).SameDistrict a.1.name c →
      (g.subgraph (dedup' (f.map (·.1.name)))).SameDistrict a.1.name c ∧ c ∈ dedup' (f.map (·.1.name)) := by
    intro c hc
    induction hc with
    | refl => exact ⟨.refl, mem_dedup'.2 (List.mem_map.2 ⟨a, ha, rfl⟩)⟩
    | tail hab hbc ih =>
      rename_i b' c'
      have hcS : c' ∈ S := ((biEdge_subgraph g S b' c').1 hbc).2.2
      obtain ⟨x, hx, hxc⟩ := hcover c' hcS
      obtain ⟨dx, hdx⟩ := getDistrict_total (g.subgraph S) hwf x.1.name (hnode x hx)
      have hdd : da = dx :=
        (getDistrict_eq_iff (g.subgraph S) hwf _ _ da dx hda hdx).2 (by rw [hxc]; exact hab.tail hbc)
      have hxf : x ∈ f := (hgrp f hf a ha x).2 ⟨hx, by simp only [hdx, hda, hdd]⟩
      have hc' : c' ∈ dedup' (f.map (·.1.name)) := mem_dedup'.2 (List.mem_map.2 ⟨x, hxf, hxc⟩)
      refine ⟨ih.1.tail ?_, hc'⟩
      exact (biEdge_subgraph g _ b' c').2 ⟨((biEdge_subgraph g S b' c').1 hbc).1, ih.2, hc'⟩
  obtain ⟨hbev, hdeq⟩ := (hgrp f hf a ha b).1 hb
  obtain ⟨db, hdb⟩ := getDistrict_total (g.subgraph S) hwf b.1.name (hnode b hbev)
  have hdd : da = db := by
    simp only [hda, hdb, Except.ok.injEq] at hdeq
    exact hdeq.symm
  exact (key b.1.name ((getDistrict_eq_iff (g.subgraph S) hwf _ _ da db hda hdb).1 hdd)).1

/-! ### line 2 -/

/-- **line 2 of Algorithm 2 never raises** on a well-formed graph without self-loops when the event mentions only nodes
(as counterfactual variables or unstarred plain variables); every ctf-factor it returns is non-empty, is named after
nodes of the graph, and is bidirected-connected in the subgraph induced by its own names. -/
theorem line2_ok (g : MG Name) (hg : g.WF) (hloop : ∀ v, ¬ g.DiEdge v v) (ev : Ctf.Event) (hev : EventOK g ev) :
    ∃ anc factors, line2 g ev = .ok (anc, factors) ∧
      ∀ f ∈ factors, f ≠ [] ∧ (∀ p ∈ f, p.1.name ∈ g.nodes) ∧
        (∀ a ∈ f, ∀ b ∈ f, (g.subgraph (dedup' (f.map (·.1.name)))).SameDistrict a.1.name b.1.name) := by
  -- (1) the ancestors
  obtain ⟨anc, hanc, hancN⟩ := ancFold_total g hg ev hev [] (by intro w hw; cases hw)
  -- (2) the conversion
  have hwvN : ∀ p ∈ withValues ev anc, p.1.name ∈ g.nodes := fun p hp => hancN _ (withValues_fst ev anc p hp)
  obtain ⟨cv, hcv⟩ := mapM_ok_of_forall (convStep g) (withValues ev anc) (fun p hp => convStep_total g p (hwvN p hp))
  have hcvmem := mapM_ok_mem (convStep g) (withValues ev anc) cv hcv
  -- every converted variable comes from an ancestor ...
  have hA : ∀ q ∈ cv, ∃ v ∈ anc, convertOne g v = .ok q.1 := by
    intro q hq
    obtain ⟨p, hp, hpq⟩ := (hcvmem q).1 hq
    exact ⟨p.1, withValues_fst ev anc p hp, (convStep_ok g p q hpq).1⟩
  -- ... and every ancestor is converted
  have hB : ∀ v ∈ anc, ∃ q ∈ cv, q.1.name = v.name := by
    intro v hv
    obtain ⟨p, hp, rfl⟩ := withValues_cover ev anc v hv
    obtain ⟨q, hq⟩ := convStep_total g p (hwvN p hp)
    exact ⟨q, (hcvmem q).2 ⟨p, hp, hq⟩, (convertOne_spec g p.1 q.1 (convStep_ok g p q hq).1).1⟩
  -- (3) the subgraph on the ancestors and the ctf-factor form test
  have hwf := wf_subgraph g (dedup' (anc.map (·.name)))
  have hS : ∀ q ∈ cv, q.1.name ∈ dedup' (anc.map (·.name)) := by
    intro q hq
    obtain ⟨v, hv, hvq⟩ := hA q hq
    exact mem_dedup'.2 (List.mem_map.2 ⟨v, hv, (convertOne_spec g v q.1 hvq).1.symm⟩)
  have hFF : ∀ q ∈ cv, FactorForm (g.subgraph (dedup' (anc.map (·.name)))) q.1 := by
    intro q hq
    obtain ⟨v, hv, hvq⟩ := hA q hq
    obtain ⟨_, _, _, hex, _⟩ := convertOne_spec g v q.1 hvq
    refine ⟨fun p hp => (hex p).2 ((diEdge_subgraph g _ p q.1.name).1 hp).1, fun hself => ?_⟩
    exact hloop q.1.name ((hex q.1.name).1 hself)
  have hform : isCtfFactorForm (g.subgraph (dedup' (anc.map (·.name))))
      (dedup' ((dedup' (dedup' cv)).map (·.1))) = .ok true := by
    have hmemcv : ∀ v ∈ dedup' ((dedup' (dedup' cv)).map (·.1)), ∃ q ∈ cv, q.1 = v := by
      intro v hv
      obtain ⟨q, hq, rfl⟩ := List.mem_map.1 (mem_dedup'.1 hv)
      exact ⟨q, mem_dedup'.1 (mem_dedup'.1 hq), rfl⟩
    obtain ⟨b, hb, hbiff⟩ := factor_form_spec (g.subgraph (dedup' (anc.map (·.name))))
      (dedup' ((dedup' (dedup' cv)).map (·.1))) (by
        intro v hv
        obtain ⟨q, hq, rfl⟩ := hmemcv v hv
        exact (mem_nodes_subgraph g _ _).2 (hS q hq))
    have : b = true := hbiff.2 (by
      intro v hv
      obtain ⟨q, hq, rfl⟩ := hmemcv v hv
      exact hFF q hq)
    rw [hb, this]
  -- (4) the grouping
  have hevS : ∀ x ∈ dedup' (dedup' cv), x.1.name ∈ dedup' (anc.map (·.name)) :=
    fun x hx => hS x (mem_dedup'.1 (mem_dedup'.1 hx))
  obtain ⟨factors, hfac, hne⟩ := groupByDistrict_total (g.subgraph (dedup' (anc.map (·.name)))) hwf
    (fun x : Var × Ctf.Val => x.1.name) (dedup' (dedup' cv)) (fun x hx => (mem_nodes_subgraph g _ _).2 (hevS x hx))
  have hcfv : ctfFactorsValues (g.subgraph (dedup' (anc.map (·.name)))) (dedup' cv) = .ok factors := by
    unfold ctfFactorsValues
    simp only [bind, Except.bind, hform, Bool.not_true, Bool.false_eq_true, ↓reduceIte]
    exact hfac
  refine ⟨withValues ev anc, factors, ?_, ?_⟩
  · rw [line2_eq, hanc]
    simp only [Except.bind, hcv, hcfv]
  -- (5) the shape of the factors
  intro f hf
  obtain ⟨hmem, _⟩ := groupByDistrict_spec _ _ _ _ hfac
  refine ⟨hne f hf, ?_, ?_⟩
  · intro p hp
    have hpev : p ∈ dedup' (dedup' cv) := (hmem p).1 ⟨f, hf, hp⟩
    obtain ⟨v, hv, hvp⟩ := hA p (mem_dedup'.1 (mem_dedup'.1 hpev))
    rw [(convertOne_spec g v p.1 hvp).1]
    exact hancN v hv
  · intro a ha b hb
    refine group_connected g (dedup' (anc.map (·.name))) (dedup' (dedup' cv)) ?_ hevS factors hfac f hf a ha b hb
    intro n hn
    obtain ⟨v, hv, rfl⟩ := List.mem_map.1 (mem_dedup'.1 hn)
    obtain ⟨q, hq, hqn⟩ := hB v hv
    exact ⟨q, mem_dedup'.2 (mem_dedup'.2 hq), hqn⟩

end Y0.CtfTr
