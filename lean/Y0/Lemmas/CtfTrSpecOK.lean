/-
  Y0.Lemmas.CtfTrSpecOK — `DomainSpecOK` (the syntactic facts about a domain that the soundness proof of Algorithm 4
  uses) follows from the validator for a well-formed selection diagram, up to the three things the validator does not
  check: the order has no repetition, no bidirected edge touches a selection node, and the declared distribution is
  `P^t(V)` over the regular variables.
-/
import Y0.Lemmas.CtfTrTransportAll
import Y0.Lemmas.CtfTrTotal

namespace Y0.CtfTr
open Fscm Ctf
open Trso (isTnode tnode nsort mem_nsort)

theorem validateDomain_more (target : MG Name) (d : Domain) (h : validateDomain target d = .ok ()) :
    seteq' d.topo d.graph.nodes = true ∧ d.graph.isAcyclic = true ∧ validTopoList d.topo d.graph = .ok true := by
  unfold validateDomain vErr at h
  split at h
  · cases h
  · rename_i h1
    split at h
    · cases h
    · split at h
      · cases h
      · split at h
        · cases h
        · rename_i h4
          split at h
          · cases h
          · cases h
          · rename_i hvt
            exact ⟨by simpa using h1, by simpa using h4, hvt⟩

/-- the tag of the distribution `P^t(V)` -/
theorem tagOf_popOf (d : Domain) (t : Name) (h : d.pop = popOf t d.graph) : tagOf d = t := by
  unfold tagOf
  rw [h]
  rfl

/-- **`DomainSpecOK` from the validator** -/
theorem domainSpecOK_of_validated (target : MG Name) (d : Domain) (t : Name) (hv : validateDomain target d = .ok ())
    (hwf : d.graph.WF) (hnd : d.topo.Nodup) (hbiT : ∀ a b, d.graph.BiEdge a b → isTnode a = false)
    (hpop : d.pop = popOf t d.graph) : DomainSpecOK d t := by
  obtain ⟨h1, h2, h3⟩ := validateDomain_more target d hv
  exact
    { wf := hwf
      ranked := ranked_of_isAcyclic d.graph hwf h2
      topo_nodup := hnd
      topo_cover := fun v => (TianGraph.seteq'_iff.1 h1) v
      topo_ord := topoOrdered_of_validTopoList d.topo d.graph h3 hnd
      biT := hbiT
      pop := hpop }

/-- what the validator does not check about the domains, stated on the input -/
structure DomainsDeclared (ds : List Domain) : Prop where
  wf : ∀ d ∈ ds, d.graph.WF
  topo_nodup : ∀ d ∈ ds, d.topo.Nodup
  biT : ∀ d ∈ ds, ∀ a b, d.graph.BiEdge a b → isTnode a = false
  pop : ∀ d ∈ ds, ∃ t, d.pop = popOf t d.graph

theorem domainsSpecOK_of_validated (target : MG Name) (ds : List Domain)
    (hv : ∀ d ∈ ds, validateDomain target d = .ok ()) (hdecl : DomainsDeclared ds) : DomainsSpecOK ds := by
  intro d hd
  obtain ⟨t, ht⟩ := hdecl.pop d hd
  rw [tagOf_popOf d t ht]
  exact domainSpecOK_of_validated target d t (hv d hd) (hdecl.wf d hd) (hdecl.topo_nodup d hd) (hdecl.biT d hd) ht

end Y0.CtfTr
