/-
  Y0.Lemmas.PrintDen — the DSL operators reached through the parser (`Product.safe`, `*`, `/`) are total on
  `Zero()`-free operands and mean multiplication / division of the denotations (`Y0.den`, Spec/Sem);
  the field identities used (`a/b/(c/d) = a·d/(b·c)` …) hold unconditionally in ℚ with `x/0 = 0`.
-/
import Y0.Model.PyEval
import Y0.Spec.Sem
import Y0.Lemmas.PrintAst
import Mathlib.Algebra.Order.Field.Rat
import Mathlib.Tactic.Ring

namespace Y0
namespace PyEval
open Print

variable (lt : Expr → Expr → Bool)

/-! ### `Zero()`-free expressions -/

mutual
/-- no `Zero()` anywhere -/
def nz : Expr → Bool
  | .prod fs => nzAll fs
  | .sum e _ => nz e
  | .frac n d => nz n && nz d
  | .zero => false
  | _ => true
def nzAll : List Expr → Bool
  | [] => true
  | f :: fs => nz f && nzAll fs
end

theorem nzAll_iff (fs : List Expr) : nzAll fs = true ↔ ∀ f ∈ fs, nz f = true := by
  induction fs with
  | nil => simp [nzAll]
  | cons f fs ih => simp [nzAll, ih]

theorem not_isZero_of_nz {e : Expr} (h : nz e = true) : isZero e = false := by
  cases e <;> simp [nz, isZero] at h ⊢

/-! ### denotation of products -/

variable (env : Env) (σ' : Y0.Val)

theorem denProd_append (l r : List Expr) (σ : Y0.Val) :
    denProd env σ' (l ++ r) σ = denProd env σ' l σ * denProd env σ' r σ := by
  induction l with
  | nil => simp [denProd]
  | cons x xs ih => simp [denProd, ih, mul_assoc]

theorem denProd_insertBy (x : Expr) (l : List Expr) (σ : Y0.Val) :
    denProd env σ' (insertBy lt x l) σ = den env σ' x σ * denProd env σ' l σ := by
  induction l with
  | nil => simp [insertBy, denProd]
  | cons y ys ih =>
    simp only [insertBy]
    split
    · simp only [denProd, ih]; ring
    · simp [denProd]

theorem denProd_sortBy (l : List Expr) (σ : Y0.Val) : denProd env σ' (sortBy lt l) σ = denProd env σ' l σ := by
  induction l with
  | nil => rfl
  | cons x xs ih =>
    show denProd env σ' (insertBy lt x (sortBy lt xs)) σ = _
    rw [denProd_insertBy, ih, denProd]

theorem mem_insertBy {x y : Expr} {l : List Expr} : y ∈ insertBy lt x l ↔ y = x ∨ y ∈ l := by
  induction l with
  | nil => simp [insertBy]
  | cons z zs ih =>
    simp only [insertBy]
    split
    · simp only [List.mem_cons, ih]
      constructor
      · rintro (h | h | h)
        · exact Or.inr (Or.inl h)
        · exact Or.inl h
        · exact Or.inr (Or.inr h)
      · rintro (h | h | h)
        · exact Or.inr (Or.inl h)
        · exact Or.inl h
        · exact Or.inr (Or.inr h)
    · simp

theorem mem_sortBy {y : Expr} {l : List Expr} : y ∈ sortBy lt l ↔ y ∈ l := by
  induction l with
  | nil => simp [sortBy]
  | cons x xs ih =>
    show y ∈ insertBy lt x (sortBy lt xs) ↔ _
    rw [mem_insertBy, ih]
    simp

theorem denProd_filter_one (l : List Expr) (σ : Y0.Val) :
    denProd env σ' (l.filter fun e => !isOne e) σ = denProd env σ' l σ := by
  induction l with
  | nil => rfl
  | cons x xs ih =>
    simp only [List.filter]
    cases hx : isOne x
    · simp [denProd, ih]
    · have : x = .one := by cases x <;> simp [isOne] at hx; rfl
      subst this
      simp [denProd, ih, den]

theorem denProd_zero_mem (l : List Expr) (σ : Y0.Val) (h : l.any isZero = true) : denProd env σ' l σ = 0 := by
  induction l with
  | nil => simp at h
  | cons x xs ih =>
    simp only [List.any_cons, Bool.or_eq_true] at h
    rcases h with h | h
    · have : x = .zero := by cases x <;> simp [isZero] at h; rfl
      subst this
      simp [denProd, den]
    · simp [denProd, ih h]

/-- `Product.safe` means the product of its arguments -/
theorem den_productSafe (l : List Expr) (σ : Y0.Val) :
    den env σ' (productSafe lt l) σ = denProd env σ' l σ := by
  unfold productSafe
  rw [← denProd_filter_one env σ' l σ]
  generalize l.filter (fun e => !isOne e) = m
  by_cases hz : m.any isZero = true
  · simp [hz, den, denProd_zero_mem env σ' m σ hz]
  · simp only [hz, Bool.false_eq_true, if_false]
    match m with
    | [] => simp [den, denProd]
    | [e] => simp [denProd]
    | a :: b :: r =>
      simp only [den]
      rw [denProd_sortBy]

theorem nz_productSafe (l : List Expr) (h : ∀ f ∈ l, nz f = true) : nz (productSafe lt l) = true := by
  unfold productSafe
  have hm : ∀ f ∈ l.filter (fun e => !isOne e), nz f = true := fun f hf => h f (List.mem_filter.mp hf).1
  generalize l.filter (fun e => !isOne e) = m at hm
  have hz : m.any isZero = false := by
    rw [List.any_eq_false]
    intro f hf
    simp [not_isZero_of_nz (hm f hf)]
  simp only [hz, Bool.false_eq_true, if_false]
  match m, hm with
  | [], _ => rfl
  | [e], hm => exact hm e (by simp)
  | a :: b :: r, hm =>
    simp only [nz]
    rw [nzAll_iff]
    intro f hf
    exact hm f ((mem_sortBy lt).mp hf)

/-! ### `*` -/

theorem nz_factors {fs : List Expr} (h : nz (.prod fs) = true) : ∀ f ∈ fs, nz f = true := by
  simp only [nz] at h
  exact (nzAll_iff fs).mp h

theorem den_mulFlat (a b : Expr) (σ : Y0.Val) :
    den env σ' (mulFlat lt a b) σ = den env σ' a σ * den env σ' b σ := by
  cases a <;> cases b <;> simp [mulFlat, den_productSafe, denProd, den, denProd_append] <;> ring

theorem nz_mulFlat (a b : Expr) (ha : nz a = true) (hb : nz b = true) : nz (mulFlat lt a b) = true := by
  cases a <;> cases b <;> simp only [mulFlat] <;>
    first
      | assumption
      | (apply nz_productSafe
         intro f hf
         simp only [List.mem_cons, List.mem_append, List.not_mem_nil, or_false] at hf
         rcases hf with h | h | h <;>
           first
             | (subst h; assumption)
             | exact nz_factors ha f h
             | exact nz_factors hb f h)
      | (apply nz_productSafe
         intro f hf
         simp only [List.mem_cons, List.mem_append, List.not_mem_nil, or_false] at hf
         rcases hf with h | h <;>
           first
             | (subst h; assumption)
             | exact nz_factors ha f h
             | exact nz_factors hb f h)
      | simp [nz] at ha hb

/-- what `a * b` / `a / b` must deliver: success, a `Zero()`-free result, the right meaning -/
def OkWith (r : E Expr) (val : Env → Y0.Val → Y0.Val → Rat) : Prop :=
  ∃ c, r = .ok c ∧ nz c = true ∧ ∀ env σ' σ, den env σ' c σ = val env σ' σ

theorem mkFrac_ok {n d : Expr} (hn : nz n = true) (hd : nz d = true) :
    OkWith (mkFrac n d) (fun env σ' σ => den env σ' n σ / den env σ' d σ) := by
  refine ⟨.frac n d, ?_, by simp [nz, hn, hd], fun _ _ _ => by simp [den]⟩
  simp [mkFrac, not_isZero_of_nz hd]

theorem mulNF_ok (a : Expr) (ha : nz a = true) : ∀ b, nz b = true →
    OkWith (mulNF lt a b) (fun env σ' σ => den env σ' a σ * den env σ' b σ) := by
  apply Expr.ind
  case hfrac =>
    intro n d ihn _ hb
    simp only [nz, Bool.and_eq_true] at hb
    have hflat : OkWith (.ok (mulFlat lt a (.frac n d))) (fun env σ' σ => den env σ' a σ * den env σ' (.frac n d) σ) :=
      ⟨_, rfl, nz_mulFlat lt a _ ha (by simp [nz, hb.1, hb.2]), fun env σ' σ => den_mulFlat lt env σ' a _ σ⟩
    have hrec : OkWith (do mkFrac (← mulNF lt a n) d) (fun env σ' σ => den env σ' a σ * den env σ' (.frac n d) σ) := by
      obtain ⟨c, hc, hcz, hcd⟩ := ihn hb.1
      obtain ⟨r, hr, hrz, hrd⟩ := mkFrac_ok hcz hb.2
      refine ⟨r, by simp [hc, hr, bind, Except.bind], hrz, ?_⟩
      intro env σ' σ
      rw [hrd]
      simp only [hcd, den]
      ring
    cases a <;> first | exact hrec | exact hflat
  all_goals
    intros
    first
      | exact ⟨_, rfl, nz_mulFlat lt a _ ha (by assumption), fun env σ' σ => den_mulFlat lt env σ' a _ σ⟩
      | exact ⟨_, rfl, nz_mulFlat lt a _ ha (by simp_all [nz]), fun env σ' σ => den_mulFlat lt env σ' a _ σ⟩

theorem OkWith.bind2 {r1 r2 : E Expr} {v1 v2 v : Env → Y0.Val → Y0.Val → Rat} (h1 : OkWith r1 v1) (h2 : OkWith r2 v2)
    (hv : ∀ env σ' σ, v1 env σ' σ / v2 env σ' σ = v env σ' σ) :
    OkWith (do mkFrac (← r1) (← r2)) v := by
  obtain ⟨c1, rfl, hz1, hd1⟩ := h1
  obtain ⟨c2, rfl, hz2, hd2⟩ := h2
  obtain ⟨r, hr, hrz, hrd⟩ := mkFrac_ok hz1 hz2
  refine ⟨r, by simpa [bind, Except.bind] using hr, hrz, ?_⟩
  intro env σ' σ
  rw [hrd]
  simp only [hd1, hd2, hv]

theorem OkWith.pure_ok {c : Expr} (hz : nz c = true) : OkWith (.ok c) (fun env σ' σ => den env σ' c σ) :=
  ⟨c, rfl, hz, fun _ _ _ => rfl⟩

/-- `a * b` succeeds on `Zero()`-free operands and means the product -/
theorem mul_ok : ∀ a, nz a = true → ∀ b, nz b = true →
    OkWith (mul lt a b) (fun env σ' σ => den env σ' a σ * den env σ' b σ) := by
  apply Expr.ind
  case hfrac =>
    intro n d ihn ihd ha b hb
    simp only [nz, Bool.and_eq_true] at ha
    cases b with
    | zero => simp [nz] at hb
    | frac n2 d2 =>
      simp only [nz, Bool.and_eq_true] at hb
      have := OkWith.bind2 (ihn ha.1 n2 hb.1) (ihd ha.2 d2 hb.2)
        (v := fun env σ' σ => den env σ' (.frac n d) σ * den env σ' (.frac n2 d2) σ)
        (by intro env σ' σ; simp only [den]; rw [div_mul_div_comm])
      simpa [mul] using this
    | prob pop c p =>
      have := OkWith.bind2 (ihn ha.1 _ hb) (OkWith.pure_ok ha.2)
        (v := fun env σ' σ => den env σ' (.frac n d) σ * den env σ' (.prob pop c p) σ)
        (by intro env σ' σ; simp only [den]; ring)
      simpa [mul, bind, Except.bind] using this
    | prod fs =>
      have := OkWith.bind2 (ihn ha.1 _ hb) (OkWith.pure_ok ha.2)
        (v := fun env σ' σ => den env σ' (.frac n d) σ * den env σ' (.prod fs) σ)
        (by intro env σ' σ; simp only [den]; ring)
      simpa [mul, bind, Except.bind] using this
    | sum e rs =>
      have := OkWith.bind2 (ihn ha.1 _ hb) (OkWith.pure_ok ha.2)
        (v := fun env σ' σ => den env σ' (.frac n d) σ * den env σ' (.sum e rs) σ)
        (by intro env σ' σ; simp only [den]; ring)
      simpa [mul, bind, Except.bind] using this
    | one =>
      have := OkWith.bind2 (ihn ha.1 _ hb) (OkWith.pure_ok ha.2)
        (v := fun env σ' σ => den env σ' (.frac n d) σ * den env σ' .one σ)
        (by intro env σ' σ; simp only [den]; ring)
      simpa [mul, bind, Except.bind] using this
    | q dom cod =>
      have := OkWith.bind2 (ihn ha.1 _ hb) (OkWith.pure_ok ha.2)
        (v := fun env σ' σ => den env σ' (.frac n d) σ * den env σ' (.q dom cod) σ)
        (by intro env σ' σ; simp only [den]; ring)
      simpa [mul, bind, Except.bind] using this
  case hprob => intro pop c p ha b hb; simpa [mul] using mulNF_ok lt _ ha b hb
  case hprod => intro fs _ ha b hb; simpa [mul] using mulNF_ok lt _ ha b hb
  case hsum => intro e rs _ ha b hb; simpa [mul] using mulNF_ok lt _ ha b hb
  case hone => intro ha b hb; simpa [mul] using mulNF_ok lt _ ha b hb
  case hzero => intro ha; simp [nz] at ha
  case hq => intro d c ha b hb; simpa [mul] using mulNF_ok lt _ ha b hb

/-- `a / b` succeeds on `Zero()`-free operands and means the quotient -/
theorem div_ok (a b : Expr) (ha : nz a = true) (hb : nz b = true) :
    OkWith (div lt a b) (fun env σ' σ => den env σ' a σ / den env σ' b σ) := by
  have hone : OkWith (.ok a) (fun env σ' σ => den env σ' a σ / den env σ' .one σ) :=
    ⟨a, rfl, ha, fun _ _ _ => by simp [den]⟩
  have hplain : OkWith (mkFrac a b) (fun env σ' σ => den env σ' a σ / den env σ' b σ) := mkFrac_ok ha hb
  cases a with
  | zero => simp [nz] at ha
  | frac n d =>
    simp only [nz, Bool.and_eq_true] at ha
    cases b with
    | zero => simp [nz] at hb
    | one => simpa [div] using hone
    | frac n2 d2 =>
      simp only [nz, Bool.and_eq_true] at hb
      have := OkWith.bind2 (mul_ok lt n ha.1 d2 hb.2) (mul_ok lt d ha.2 n2 hb.1)
        (v := fun env σ' σ => den env σ' (.frac n d) σ / den env σ' (.frac n2 d2) σ)
        (by intro env σ' σ; simp only [den]; rw [div_div_div_eq])
      simpa [div] using this
    | prob pop c p =>
      have := OkWith.bind2 (OkWith.pure_ok ha.1) (mul_ok lt d ha.2 _ hb)
        (v := fun env σ' σ => den env σ' (.frac n d) σ / den env σ' (.prob pop c p) σ)
        (by intro env σ' σ; simp only [den]; rw [div_div])
      simpa [div, bind, Except.bind] using this
    | prod fs =>
      have := OkWith.bind2 (OkWith.pure_ok ha.1) (mul_ok lt d ha.2 _ hb)
        (v := fun env σ' σ => den env σ' (.frac n d) σ / den env σ' (.prod fs) σ)
        (by intro env σ' σ; simp only [den]; rw [div_div])
      simpa [div, bind, Except.bind] using this
    | sum e rs =>
      have := OkWith.bind2 (OkWith.pure_ok ha.1) (mul_ok lt d ha.2 _ hb)
        (v := fun env σ' σ => den env σ' (.frac n d) σ / den env σ' (.sum e rs) σ)
        (by intro env σ' σ; simp only [den]; rw [div_div])
      simpa [div, bind, Except.bind] using this
    | q dom cod =>
      have := OkWith.bind2 (OkWith.pure_ok ha.1) (mul_ok lt d ha.2 _ hb)
        (v := fun env σ' σ => den env σ' (.frac n d) σ / den env σ' (.q dom cod) σ)
        (by intro env σ' σ; simp only [den]; rw [div_div])
      simpa [div, bind, Except.bind] using this
  | prob pop c p =>
    cases b with
    | zero => simp [nz] at hb
    | one => simpa [div] using hone
    | frac n2 d2 =>
      simp only [nz, Bool.and_eq_true] at hb
      have := OkWith.bind2 (mul_ok lt _ ha d2 hb.2) (OkWith.pure_ok hb.1)
        (v := fun env σ' σ => den env σ' (.prob pop c p) σ / den env σ' (.frac n2 d2) σ)
        (by intro env σ' σ; simp only [den]; rw [div_div_eq_mul_div])
      simpa [div, bind, Except.bind] using this
    | _ => simpa [div] using hplain
  | prod fs =>
    cases b with
    | zero => simp [nz] at hb
    | one => simpa [div] using hone
    | frac n2 d2 =>
      simp only [nz, Bool.and_eq_true] at hb
      have := OkWith.bind2 (mul_ok lt _ ha d2 hb.2) (OkWith.pure_ok hb.1)
        (v := fun env σ' σ => den env σ' (.prod fs) σ / den env σ' (.frac n2 d2) σ)
        (by intro env σ' σ; simp only [den]; rw [div_div_eq_mul_div])
      simpa [div, bind, Except.bind] using this
    | _ => simpa [div] using hplain
  | sum e rs =>
    cases b with
    | zero => simp [nz] at hb
    | one => simpa [div] using hone
    | frac n2 d2 =>
      simp only [nz, Bool.and_eq_true] at hb
      have := OkWith.bind2 (mul_ok lt _ ha d2 hb.2) (OkWith.pure_ok hb.1)
        (v := fun env σ' σ => den env σ' (.sum e rs) σ / den env σ' (.frac n2 d2) σ)
        (by intro env σ' σ; simp only [den]; rw [div_div_eq_mul_div])
      simpa [div, bind, Except.bind] using this
    | _ => simpa [div] using hplain
  | one =>
    cases b with
    | zero => simp [nz] at hb
    | one => simpa [div] using hone
    | frac n2 d2 =>
      simp only [nz, Bool.and_eq_true] at hb
      have := OkWith.bind2 (mul_ok lt _ ha d2 hb.2) (OkWith.pure_ok hb.1)
        (v := fun env σ' σ => den env σ' .one σ / den env σ' (.frac n2 d2) σ)
        (by intro env σ' σ; simp only [den]; rw [div_div_eq_mul_div])
      simpa [div, bind, Except.bind] using this
    | _ => simpa [div] using hplain
  | q dom cod =>
    cases b with
    | zero => simp [nz] at hb
    | one => simpa [div] using hone
    | frac n2 d2 =>
      simp only [nz, Bool.and_eq_true] at hb
      have := OkWith.bind2 (mul_ok lt _ ha d2 hb.2) (OkWith.pure_ok hb.1)
        (v := fun env σ' σ => den env σ' (.q dom cod) σ / den env σ' (.frac n2 d2) σ)
        (by intro env σ' σ; simp only [den]; rw [div_div_eq_mul_div])
      simpa [div, bind, Except.bind] using this
    | _ => simpa [div] using hplain

end PyEval
end Y0
