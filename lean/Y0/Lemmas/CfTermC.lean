/-
  Y0.Lemmas.CfTermC — termination of ID*, part C: the measure.

  * `SW G ev` ("district event"): every key of `ev` is `n @ w` for ONE subscript set `w`, and the key names are closed under
    parents in `G` up to the names in `w`.
  * `sw_of_district`    : every event that line 6 hands to the recursive call is such an event (for ANY input event);
  * `district_smaller`  : when the input of line 6 is itself such an event, every event of a district has strictly fewer keys;
  * `sw_removeTautologies` : line 3 keeps the class and does not add keys.
  Hence (`idStarFuel_sw_terminates`, `idStarFuel_terminates`) the recursion depth is at most `2·|keys| + 1` on a district event and
  at most `2·|V| + 3` on any well-formed event: the fuel `2·|V| + |event| + 4` of the model is never exhausted.
-/
import Y0.Lemmas.CfTermB
import Mathlib.Data.List.Perm.Subperm
import Mathlib.Data.List.Nodup

namespace Y0.Cf
open Relation MG Fscm

/-! ## small facts -/

theorem iv_beq_self (i : Iv) : (i == i) = true := by
  rcases i with ⟨n, s⟩
  show (decide (n = n) && (s == s)) = true
  simp

theorem eqv_self (a : Event) (h : a.keys.Nodup) : Event.eqv a a = true := by
  unfold Event.eqv
  simp only [Bool.and_self, List.all_eq_true]
  intro p hp
  rw [Event.get?_of_mem_nodup h hp]
  exact iv_beq_self p.2

theorem mem_keys_set (ev : Event) (k : Var) (v : Iv) (x : Var) :
    x ∈ (ev.set k v).keys ↔ x ∈ ev.keys ∨ x = k := by
  simp only [mem_keys_iff]
  constructor
  · rintro ⟨v', hv'⟩
    rw [Event.mem_set] at hv'
    rcases hv' with ⟨h, _⟩ | h
    · exact Or.inl ⟨v', h⟩
    · simp only [Prod.mk.injEq] at h
      exact Or.inr h.1
  · rintro (⟨v', hv'⟩ | rfl)
    · by_cases hx : x = k
      · subst hx
        exact ⟨v, Event.mem_set.2 (Or.inr rfl)⟩
      · exact ⟨v', Event.mem_set.2 (Or.inl ⟨hv', hx⟩)⟩
    · exact ⟨v, Event.mem_set.2 (Or.inr rfl)⟩

theorem mem_keys_ofList (l : List (Var × Iv)) (x : Var) : x ∈ (Event.ofList l).keys ↔ ∃ p ∈ l, p.1 = x := by
  unfold Event.ofList
  suffices H : ∀ (acc : Event), x ∈ (l.foldl (fun acc p => Event.set acc p.1 p.2) acc).keys ↔
      x ∈ acc.keys ∨ ∃ p ∈ l, p.1 = x by
    rw [H []]
    simp [Event.keys]
  induction l with
  | nil => intro acc; simp
  | cons q qs ih =>
    intro acc
    simp only [List.foldl_cons]
    rw [ih, mem_keys_set]
    constructor
    · rintro ((h | rfl) | ⟨p, hp, rfl⟩)
      · exact Or.inl h
      · exact Or.inr ⟨q, by simp, rfl⟩
      · exact Or.inr ⟨p, by simp [hp], rfl⟩
    · rintro (h | ⟨p, hp, rfl⟩)
      · exact Or.inl (Or.inl h)
      · rcases List.mem_cons.1 hp with rfl | hp'
        · exact Or.inl (Or.inr rfl)
        · exact Or.inr ⟨p, hp', rfl⟩

/-- the event of a district: every node of the district, re-subscripted with the district's Markov pillow -/
theorem eventsOfDistrict_shape (cf : MG Var) (d : List Var) (ev r : Event) (h : eventsOfDistrict cf d ev = .ok r) :
    ∃ pillow, cf.markovPillow d = .ok pillow ∧
      r = Event.ofList (d.map fun n => (atWorld n.name (ivsCanon (toInterventions pillow)), nodeEvent n ev)) := by
  unfold eventsOfDistrict at h
  cases hp : cf.markovPillow d with
  | error e => rw [hp] at h; cases h
  | ok pillow =>
    rw [hp] at h
    simp only [bind, Except.bind, pure, Except.pure] at h
    refine ⟨pillow, rfl, ?_⟩
    split at h
    · rename_i hemp
      simp only [Except.ok.injEq] at h
      subst h
      have : pillow = [] := by simpa using hemp
      subst this
      rfl
    · simp only [Except.ok.injEq] at h
      subst h
      rfl

theorem mem_ivsCanon (is : List Iv) (i : Iv) : i ∈ ivsCanon is ↔ i ∈ is := by
  unfold ivsCanon
  rw [mem_sortBy, mem_dedup']

/-! ## district events -/

/-- every key is `n @ w` for one `w`; key names closed under parents in `G` up to the names in `w` -/
structure SW (G : MG Name) (ev : Event) : Prop where
  ok : EvOK ev
  keys : ∀ k ∈ ev.keys, KeyOK G k
  world : ∃ w, KeysIn w ev ∧
    ∀ b ∈ ev.keys.map (·.name), ∀ m, (m, b) ∈ G.di → m ∈ ev.keys.map (·.name) ∨ m ∈ w.map (·.name)

theorem keys_removeTautologies (ev : Event) (k : Var) (hk : k ∈ (removeTautologies ev).keys) : k ∈ ev.keys := by
  rw [mem_keys_iff] at hk ⊢
  obtain ⟨v, hv⟩ := hk
  exact ⟨v, (List.mem_filter.1 hv).1⟩

/-- line 3 keeps the class -/
theorem sw_removeTautologies {G : MG Name} {ev : Event} (h : SW G ev) : SW G (removeTautologies ev) := by
  obtain ⟨w, hkw, hcl⟩ := h.world
  refine ⟨evOK_removeTautologies ev h.ok, fun k hk => h.keys k (keys_removeTautologies ev k hk),
    w, fun k hk => hkw k (keys_removeTautologies ev k hk), ?_⟩
  intro b hb m hm
  obtain ⟨kb, hkb, rfl⟩ := List.mem_map.1 hb
  rcases hcl kb.name (List.mem_map.2 ⟨kb, keys_removeTautologies ev kb hkb, rfl⟩) m hm with h1 | h1
  · obtain ⟨km, hkm, rfl⟩ := List.mem_map.1 h1
    obtain ⟨v, hv⟩ := (mem_keys_iff ev km).1 hkm
    by_cases hred : isRedundant km v = true
    · -- a removed key names a variable of `w`
      right
      unfold isRedundant at hred
      simp only [Bool.and_eq_true, List.any_eq_true, beq_iff_eq] at hred
      obtain ⟨_, i, hi, hin, _⟩ := hred
      have hvn : v.name = km.name := h.ok.names _ hv
      rw [hkw km hkm] at hi
      simp only [atWorld] at hi
      exact List.mem_map.2 ⟨i, hi, by rw [hin, hvn]⟩
    · left
      refine List.mem_map.2 ⟨km, ?_, rfl⟩
      rw [mem_keys_iff]
      refine ⟨v, ?_⟩
      unfold removeTautologies
      rw [List.mem_filter]
      exact ⟨hv, by simpa using hred⟩
  · exact Or.inr h1

theorem removeTautologies_idem' (ev : Event) : removeTautologies (removeTautologies ev) = removeTautologies ev := by
  unfold removeTautologies
  rw [List.filter_filter]
  congr 1
  funext p
  simp

theorem length_removeTautologies (ev : Event) : (removeTautologies ev).length ≤ ev.length :=
  List.length_filter_le _ _

/-- membership in the non-self-intervened sub-graph -/
theorem mem_nsiSubgraph_iff (cf : MG Var) (x : Var) :
    x ∈ (nsiSubgraph cf).nodes ↔ x ∈ cf.nodes ∧ isNotSelfIntervened x = true := by
  unfold nsiSubgraph
  rw [MG.mem_nodes_subgraph, List.mem_filter]

/-- the hypotheses on the input that the Python objects guarantee -/
structure GoodEv (G : MG Name) (ev : Event) : Prop where
  ok : EvOK ev
  keys : ∀ k ∈ ev.keys, KeyOK G k

theorem SW.good {G : MG Name} {ev : Event} (h : SW G ev) : GoodEv G ev := ⟨h.ok, h.keys⟩

/-- **line 6 produces district events**, whatever the input event -/
theorem sw_of_district {ordf : List World → List World} (hord : PermOrder ordf) {dordf : List Var → List Var}
    (hdo : SubsetOrder dordf) {G : MG Name} (hG : G.WF) (hdl : ∀ e ∈ G.di, e.1 ≠ e.2) (hbl : ∀ e ∈ G.bi, e.1 ≠ e.2)
    {ev : Event} (hev : GoodEv G ev) {cf : MG Var} {nev : Event}
    (hcg : makeCounterfactualGraph ordf G ev = .ok (cf, some nev)) (hnevok : EvOK nev) {evs : List Event}
    (hevs : eventsOfEachDistrict dordf cf nev = .ok evs) (x : Event) (hx : x ∈ evs) : SW G x := by
  unfold eventsOfEachDistrict at hevs
  obtain ⟨d, hd, hdx⟩ := mapM_ok_mem _ _ _ hevs x hx
  obtain ⟨pillow, hp, rfl⟩ := eventsOfDistrict_shape cf (dordf d) nev x hdx
  have hnodeOK := cg_nodeOK hord hG hdl hbl hev.ok hev.keys hcg
  have hwfcf : cf.WF := cg_wf hcg
  -- members of the district are non-self-intervened nodes of `cf`
  have hdmem : ∀ n ∈ dordf d, n ∈ cf.nodes ∧ isNotSelfIntervened n = true := by
    intro n hn
    have : n ∈ (nsiSubgraph cf).nodes := (districts_cover _ (wf_nsiSubgraph cf) n).2 ⟨d, hd, hdo d n hn⟩
    exact (mem_nsiSubgraph_iff cf n).1 this
  have hpspec := markovPillow_spec cf (dordf d) pillow hp
  have hpnode : ∀ v ∈ pillow, v ∈ cf.nodes := by
    intro v hv
    obtain ⟨_, s, _, hvs⟩ := (hpspec v).1 hv
    exact (hwfcf.di_mem _ hvs).1
  set w' := ivsCanon (toInterventions pillow) with hw'
  have hmemw : ∀ i, i ∈ w' ↔ ∃ v ∈ pillow, i = ⟨v.name, false⟩ := by
    intro i
    rw [hw', mem_ivsCanon]
    unfold toInterventions
    simp only [List.mem_map]
    constructor
    · rintro ⟨v, hv, rfl⟩
      refine ⟨v, hv, ?_⟩
      rw [(hnodeOK v (hpnode v hv)).notIv]
      rfl
    · rintro ⟨v, hv, rfl⟩
      refine ⟨v, hv, ?_⟩
      rw [(hnodeOK v (hpnode v hv)).notIv]
      rfl
  have hkeys : ∀ k, k ∈ (Event.ofList ((dordf d).map fun n => (atWorld n.name w', nodeEvent n nev))).keys ↔
      ∃ n ∈ dordf d, k = atWorld n.name w' := by
    intro k
    rw [mem_keys_ofList]
    simp only [List.mem_map]
    constructor
    · rintro ⟨p, ⟨n, hn, rfl⟩, rfl⟩; exact ⟨n, hn, rfl⟩
    · rintro ⟨n, hn, rfl⟩; exact ⟨_, ⟨n, hn, rfl⟩, rfl⟩
  have hevok := evOK_eventsOfDistrict cf (dordf d) nev _ hnevok hdx
  refine ⟨hevok, ?_, w', ?_, ?_⟩
  · intro k hk
    obtain ⟨n, hn, rfl⟩ := (hkeys k).1 hk
    refine ⟨rfl, rfl, (hnodeOK n (hdmem n hn).1).inG, ?_⟩
    intro i hi j hj hij
    obtain ⟨vi, _, rfl⟩ := (hmemw i).1 hi
    obtain ⟨vj, _, rfl⟩ := (hmemw j).1 hj
    simp only at hij
    rw [hij]
  · intro k hk
    obtain ⟨n, _, rfl⟩ := (hkeys k).1 hk
    rfl
  · intro b hb m hm
    obtain ⟨k, hk, rfl⟩ := List.mem_map.1 hb
    obtain ⟨n, hn, rfl⟩ := (hkeys k).1 hk
    obtain ⟨hncf, hnnsi⟩ := hdmem n hn
    obtain ⟨p, hpn, hpname⟩ := cg_rep hord hG hdl hbl hev.ok hev.keys hcg n hncf hnnsi m hm
    by_cases hpd : p ∈ dordf d
    · left
      exact List.mem_map.2 ⟨atWorld p.name w', (hkeys _).2 ⟨p, hpd, rfl⟩, hpname⟩
    · right
      have : p ∈ pillow := (hpspec p).2 ⟨hpd, n, hn, hpn⟩
      exact List.mem_map.2 ⟨⟨p.name, false⟩, (hmemw _).2 ⟨p, this, rfl⟩, hpname⟩

theorem exists_disjoint_of_pairwise {α} {R : List α → List α → Prop} :
    ∀ (l : List (List α)), l.Pairwise R → 2 ≤ l.length → ∀ d ∈ l, ∃ d' ∈ l, R d d' ∨ R d' d
  | [], _, h, _, _ => by simp at h
  | [_], _, h, _, _ => by simp at h
  | a :: b :: rest, hp, _, d, hd => by
    rw [List.pairwise_cons] at hp
    rcases List.mem_cons.1 hd with rfl | hd'
    · exact ⟨b, by simp, Or.inl (hp.1 b (by simp))⟩
    · exact ⟨a, by simp, Or.inr (hp.1 d hd')⟩

/-- **the measure decreases**: if the input of line 6 is a district event that passed lines 1–3, every event handed to the
recursive call has strictly fewer keys -/
theorem district_smaller {ordf : List World → List World} (hord : PermOrder ordf) {dordf : List Var → List Var}
    (hdo : SubsetOrder dordf) {G : MG Name} (hG : G.WF) (hdl : ∀ e ∈ G.di, e.1 ≠ e.2) (hbl : ∀ e ∈ G.bi, e.1 ≠ e.2)
    {ev : Event} (hsw : SW G ev) (hne : ev ≠ []) {cf : MG Var} {nev : Event}
    (hcg : makeCounterfactualGraph ordf G ev = .ok (cf, some nev)) (hnevok : EvOK nev) {evs : List Event}
    (hevs : eventsOfEachDistrict dordf cf nev = .ok evs) (h2 : 2 ≤ (nsiSubgraph cf).districts.length)
    (x : Event) (hx : x ∈ evs) : x.length < ev.length := by
  obtain ⟨w, hkw, hcl⟩ := hsw.world
  obtain ⟨hinj, hnames⟩ := sw_structure hord hG hdl hbl hsw.ok hne hsw.keys w hkw hcg
  have hnames := hnames hcl
  have hxsw := sw_of_district hord hdo hG hdl hbl hsw.good hcg hnevok hevs x hx
  unfold eventsOfEachDistrict at hevs
  obtain ⟨d, hd, hdx⟩ := mapM_ok_mem _ _ _ hevs x hx
  obtain ⟨pillow, _, hxeq⟩ := eventsOfDistrict_shape cf (dordf d) nev x hdx
  have hwfn := wf_nsiSubgraph cf
  -- the names of the non-self-intervened nodes: duplicate free, all key names
  have hNnd : ((nsiSubgraph cf).nodes.map (·.name)).Nodup := by
    apply List.Nodup.map_on _ hwfn.nodup
    intro a ha b hb hab
    obtain ⟨ha1, ha2⟩ := (mem_nsiSubgraph_iff cf a).1 ha
    obtain ⟨hb1, hb2⟩ := (mem_nsiSubgraph_iff cf b).1 hb
    exact hinj a ha1 b hb1 ha2 hb2 hab
  have hNsub : (nsiSubgraph cf).nodes.map (·.name) ⊆ ev.keys.map (·.name) := by
    intro m hm
    obtain ⟨a, ha, rfl⟩ := List.mem_map.1 hm
    obtain ⟨ha1, ha2⟩ := (mem_nsiSubgraph_iff cf a).1 ha
    exact hnames a ha1 ha2
  have hNlen : (nsiSubgraph cf).nodes.length ≤ ev.length := by
    have := (List.subperm_of_subset hNnd hNsub).length_le
    simpa [Event.keys] using this
  -- another district, disjoint from `d`
  obtain ⟨d', hd', hdis⟩ := exists_disjoint_of_pairwise _ (districts_disjoint _ hwfn) h2 d hd
  have hd'ne := districts_nonempty _ hwfn d' hd'
  obtain ⟨n', hn'⟩ : ∃ n', n' ∈ d' := by
    cases d' with
    | nil => exact absurd rfl hd'ne
    | cons a t => exact ⟨a, by simp⟩
  have hn'd : n' ∉ d := by
    intro hnd
    rcases hdis with h | h
    · exact h n' hnd hn'
    · exact h n' hn' hnd
  have hn'N : n' ∈ (nsiSubgraph cf).nodes := (districts_cover _ hwfn n').2 ⟨d', hd', hn'⟩
  -- the key names of `x`
  obtain ⟨wx, hkwx, _⟩ := hxsw.world
  have hxnd : (x.keys.map (·.name)).Nodup := by
    apply List.Nodup.map_on _ hxsw.ok.nodup
    intro a ha b hb hab
    rw [hkwx a ha, hkwx b hb, hab]
  have hxkeys : ∀ k ∈ x.keys, ∃ n ∈ d, k.name = n.name := by
    intro k hk
    rw [hxeq, mem_keys_ofList] at hk
    obtain ⟨p, hp, rfl⟩ := hk
    obtain ⟨n, hn, rfl⟩ := List.mem_map.1 hp
    exact ⟨n, hdo d n hn, rfl⟩
  have hcons : (n'.name :: x.keys.map (·.name)).Nodup := by
    rw [List.nodup_cons]
    refine ⟨?_, hxnd⟩
    intro hmem
    obtain ⟨k, hk, hkn⟩ := List.mem_map.1 hmem
    obtain ⟨n, hn, hkn'⟩ := hxkeys k hk
    have hnN : n ∈ (nsiSubgraph cf).nodes := (districts_cover _ hwfn n).2 ⟨d, hd, hn⟩
    obtain ⟨hn1, hn2⟩ := (mem_nsiSubgraph_iff cf n).1 hnN
    obtain ⟨hn'1, hn'2⟩ := (mem_nsiSubgraph_iff cf n').1 hn'N
    have : n = n' := hinj n hn1 n' hn'1 hn2 hn'2 (by rw [← hkn', hkn])
    exact hn'd (this ▸ hn)
  have hsub : (n'.name :: x.keys.map (·.name)) ⊆ (nsiSubgraph cf).nodes.map (·.name) := by
    intro m hm
    rcases List.mem_cons.1 hm with rfl | hm'
    · exact List.mem_map.2 ⟨n', hn'N, rfl⟩
    · obtain ⟨k, hk, rfl⟩ := List.mem_map.1 hm'
      obtain ⟨n, hn, hkn⟩ := hxkeys k hk
      exact List.mem_map.2 ⟨n, (districts_cover _ hwfn n).2 ⟨d, hd, hn⟩, hkn.symm⟩
  have := (List.subperm_of_subset hcons hsub).length_le
  simp only [List.length_cons, List.length_map, Event.keys] at this
  omega

end Y0.Cf

namespace Y0.Cf
open Relation MG Fscm

/-! ## the fuel -/

def fuelErr : Err := .internal "fuel"

/-- if lines 4–9 report an exhausted fuel, it is a recursive call of line 6 that did -/
theorem lines4to9_fuel {ordf : List World → List World} (hord : GoodOrder ordf) {dordf : List Var → List Var}
    (hdo : SubsetOrder dordf) (G : MG Name) (rec : Event → Except Err Expr)
    (topo : List Name) (hG : G.topologicalSort = .ok topo) (ev : Event) (hk : KeysNSI ev) (hok : EvOK ev)
    (h : idStarLines4to9 ordf dordf G rec ev = .error fuelErr) :
    ∃ cf nev evs, makeCounterfactualGraph ordf G ev = .ok (cf, some nev) ∧ EvOK nev ∧
      eventsOfEachDistrict dordf cf nev = .ok evs ∧ 2 ≤ (nsiSubgraph cf).districts.length ∧
      ∃ x ∈ evs, rec x = .error fuelErr := by
  unfold49 at h
  cases hcg : makeCounterfactualGraph ordf G ev with
  | error err =>
    rw [(cg_error_iff_cyclic ordf G ev err).1 hcg] at hG
    cases hG
  | ok v =>
    rw [hcg] at h
    simp only at h
    rcases v with ⟨cf, new⟩
    cases new with
    | none => cases h
    | some nev =>
      simp only at h
      have hnonempty := cg_nsi_nonempty hord hcg hk hok
      have hnevok := (cg_event_inv hord hcg hk hok).2
      cases hc : isConnected (nsiSubgraph cf) with
      | error err =>
        exfalso
        unfold isConnected at hc
        rw [if_neg (by simpa using hnonempty)] at hc
        cases hc
      | ok c =>
        rw [hc] at h
        simp only at h
        obtain ⟨hne, hcv⟩ := isConnected_ok _ _ hc
        split at h
        · rename_i hnc
          obtain ⟨evs, hevs, hlen⟩ := eventsOfEachDistrict_ok hdo cf nev
          rw [hevs] at h
          simp only at h
          have h2 : 2 ≤ (nsiSubgraph cf).districts.length := by
            apply districts_ge_two _ (wf_nsiSubgraph cf) hne
            intro h1
            rw [hcv] at hnc
            simp [h1] at hnc
          split at h
          · omega
          · cases hm : evs.mapM rec with
            | error err =>
              rw [hm] at h
              simp only [Except.error.injEq] at h
              subst h
              obtain ⟨x, hx, hxe⟩ := mapM_error _ _ _ hm
              exact ⟨cf, nev, evs, rfl, hnevok, hevs, h2, x, hx, hxe⟩
            | ok fs => rw [hm] at h; cases h
        · split at h
          · simp only [Except.error.injEq] at h
            cases h
          · obtain ⟨e9, he9⟩ := line9_ok _ hne
            rw [he9] at h
            cases h

/-- lines 4–9 on a district event that passed lines 1–3: the fuel is exhausted only if a recursive call on a strictly smaller
district event exhausts it -/
theorem lines4to9_sw {ordf : List World → List World} (hord : PermOrder ordf) {dordf : List Var → List Var}
    (hdo : SubsetOrder dordf) {G : MG Name} (hG : G.WF) (hdl : ∀ e ∈ G.di, e.1 ≠ e.2) (hbl : ∀ e ∈ G.bi, e.1 ≠ e.2)
    (topo : List Name) (ht : G.topologicalSort = .ok topo) (rec : Event → Except Err Expr) (ev : Event) (hsw : SW G ev)
    (hk : KeysNSI ev) (hrec : ∀ x, SW G x → x.length < ev.length → rec x ≠ .error fuelErr) :
    idStarLines4to9 ordf dordf G rec ev ≠ .error fuelErr := by
  intro h
  obtain ⟨cf, nev, evs, hcg, hnevok, hevs, h2, x, hx, hxe⟩ :=
    lines4to9_fuel hord.good hdo G rec topo ht ev hk hsw.ok h
  exact hrec x (sw_of_district hord hdo hG hdl hbl hsw.good hcg hnevok hevs x hx)
    (district_smaller hord hdo hG hdl hbl hsw hk.1 hcg hnevok hevs h2 x hx) hxe

/-- the body of `id_star` on a district event with at most `k + 1` keys, when the recursive call is safe on all district events
with at most `k` keys … provided line 3 does not fire -/
theorem body_sw_noline3 {ordf : List World → List World} (hord : PermOrder ordf) {dordf : List Var → List Var}
    (hdo : SubsetOrder dordf) {G : MG Name} (hG : G.WF) (hdl : ∀ e ∈ G.di, e.1 ≠ e.2) (hbl : ∀ e ∈ G.bi, e.1 ≠ e.2)
    (topo : List Name) (ht : G.topologicalSort = .ok topo) (rec : Event → Except Err Expr) (ev : Event) (hsw : SW G ev)
    (h3 : Event.eqv (removeTautologies ev) ev = true)
    (hrec : ∀ x, SW G x → x.length < ev.length → rec x ≠ .error fuelErr) :
    idStarBody ordf dordf G rec ev ≠ .error fuelErr := by
  unfold idStarBody
  split
  · intro h; cases h
  · rename_i hne
    split
    · intro h; cases h
    · rename_i h2
      rw [h3]
      simp only [Bool.not_true, Bool.false_eq_true, ↓reduceIte]
      have hk : KeysNSI ev := keysNSI_of_lines123 ev (by intro h0; simp [h0] at hne) (by simpa using h2) h3 hsw.ok
      exact lines4to9_sw hord hdo hG hdl hbl topo ht rec ev hsw hk hrec

/-- **termination on district events**: `2·k + 1` units of fuel are enough for a district event with at most `k` keys -/
theorem idStarFuel_sw_terminates {ordf : List World → List World} (hord : PermOrder ordf) {dordf : List Var → List Var}
    (hdo : SubsetOrder dordf) {G : MG Name} (hG : G.WF) (hdl : ∀ e ∈ G.di, e.1 ≠ e.2) (hbl : ∀ e ∈ G.bi, e.1 ≠ e.2)
    (topo : List Name) (ht : G.topologicalSort = .ok topo) :
    ∀ (k : Nat) (ev : Event), SW G ev → ev.length ≤ k → ∀ fuel, 2 * k + 1 ≤ fuel →
      idStarFuel ordf dordf G fuel ev ≠ .error fuelErr := by
  intro k
  induction k with
  | zero =>
    intro ev _ hlen fuel hfuel
    have : ev = [] := List.eq_nil_of_length_eq_zero (Nat.le_zero.1 hlen)
    subst this
    cases fuel with
    | zero => omega
    | succ f =>
      simp only [idStarFuel, idStarBody, List.isEmpty_nil, ↓reduceIte]
      intro h; cases h
  | succ k ih =>
    intro ev hsw hlen fuel hfuel
    cases fuel with
    | zero => omega
    | succ f =>
      simp only [idStarFuel]
      by_cases h3 : Event.eqv (removeTautologies ev) ev = true
      · apply body_sw_noline3 hord hdo hG hdl hbl topo ht _ ev hsw h3
        intro x hx hlt
        exact ih x hx (by omega) f (by omega)
      · -- line 3 fires (or an earlier line answers): one more unit of fuel, then no line 3 any more
        unfold idStarBody
        split
        · intro h; cases h
        · split
          · intro h; cases h
          · simp only [h3, Bool.not_false, ↓reduceIte]
            cases f with
            | zero => omega
            | succ f' =>
              simp only [idStarFuel]
              have hsw' := sw_removeTautologies hsw
              apply body_sw_noline3 hord hdo hG hdl hbl topo ht _ _ hsw'
                (by rw [removeTautologies_idem']; exact eqv_self _ hsw'.ok.nodup)
              intro x hx hlt
              have := length_removeTautologies ev
              exact ih x hx (by omega) f' (by omega)

end Y0.Cf

namespace Y0.Cf
open Relation MG Fscm

/-! ## any well-formed event -/

theorem goodEv_removeTautologies {G : MG Name} {ev : Event} (h : GoodEv G ev) : GoodEv G (removeTautologies ev) :=
  ⟨evOK_removeTautologies ev h.ok, fun k hk => h.keys k (keys_removeTautologies ev k hk)⟩

/-- a district event has at most `|V|` keys -/
theorem sw_length_le {G : MG Name} {x : Event} (h : SW G x) : x.length ≤ G.nodes.length := by
  obtain ⟨w, hkw, _⟩ := h.world
  have hnd : (x.keys.map (·.name)).Nodup := by
    apply List.Nodup.map_on _ h.ok.nodup
    intro a ha b hb hab
    rw [hkw a ha, hkw b hb, hab]
  have hsub : x.keys.map (·.name) ⊆ G.nodes := by
    intro m hm
    obtain ⟨k, hk, rfl⟩ := List.mem_map.1 hm
    exact (h.keys k hk).inG
  have := (List.subperm_of_subset hnd hsub).length_le
  simpa [Event.keys] using this

theorem body_good_noline3 {ordf : List World → List World} (hord : PermOrder ordf) {dordf : List Var → List Var}
    (hdo : SubsetOrder dordf) {G : MG Name} (hG : G.WF) (hdl : ∀ e ∈ G.di, e.1 ≠ e.2) (hbl : ∀ e ∈ G.bi, e.1 ≠ e.2)
    (topo : List Name) (ht : G.topologicalSort = .ok topo) (rec : Event → Except Err Expr) (ev : Event) (hev : GoodEv G ev)
    (h3 : Event.eqv (removeTautologies ev) ev = true)
    (hrec : ∀ x, SW G x → rec x ≠ .error fuelErr) :
    idStarBody ordf dordf G rec ev ≠ .error fuelErr := by
  unfold idStarBody
  split
  · intro h; cases h
  · rename_i hne
    split
    · intro h; cases h
    · rename_i h2
      rw [h3]
      simp only [Bool.not_true, Bool.false_eq_true, ↓reduceIte]
      have hk : KeysNSI ev := keysNSI_of_lines123 ev (by intro h0; simp [h0] at hne) (by simpa using h2) h3 hev.ok
      intro h
      obtain ⟨cf, nev, evs, hcg, hnevok, hevs, _, x, hx, hxe⟩ :=
        lines4to9_fuel hord.good hdo G rec topo ht ev hk hev.ok h
      exact hrec x (sw_of_district hord hdo hG hdl hbl hev hcg hnevok hevs x hx) hxe

/-- on a cyclic graph lines 4–9 propagate the error of `topological_sort` -/
theorem lines4to9_cyclic (ordf : List World → List World) (dordf : List Var → List Var) (G : MG Name)
    (rec : Event → Except Err Expr) (e : Err) (ht : G.topologicalSort = .error e) (ev : Event) :
    idStarLines4to9 ordf dordf G rec ev = .error e := by
  unfold49
  rw [(cg_error_iff_cyclic ordf G ev e).2 ht]

theorem topologicalSort_error_ne_fuel (G : MG Name) (hG : G.WF) (e : Err) (ht : G.topologicalSort = .error e) :
    e ≠ fuelErr := by
  by_cases hA : G.Acyclic
  · obtain ⟨l, hl⟩ := topologicalSort_total G hG hA
    rw [hl] at ht; cases ht
  · rw [topologicalSort_cyclic G hG hA] at ht
    simp only [Except.error.injEq] at ht
    rw [← ht]
    unfold fuelErr
    decide

theorem body_cyclic_noline3 (ordf : List World → List World) (dordf : List Var → List Var) (G : MG Name)
    (rec : Event → Except Err Expr) (e : Err) (ht : G.topologicalSort = .error e) (hne : e ≠ fuelErr) (ev : Event)
    (h3 : Event.eqv (removeTautologies ev) ev = true) :
    idStarBody ordf dordf G rec ev ≠ .error fuelErr := by
  unfold idStarBody
  split
  · intro h; cases h
  · split
    · intro h; cases h
    · rw [h3]
      simp only [Bool.not_true, Bool.false_eq_true, ↓reduceIte]
      rw [lines4to9_cyclic ordf dordf G rec e ht ev]
      intro h
      simp only [Except.error.injEq] at h
      exact hne h

/-- **ID\* terminates**: on every well-formed event (`GoodEv`: a dict whose keys are variables of `G` with consistent subscript
sets) and every well-formed graph without self-loop edges, `2·|V| + 3` units of fuel are never exhausted — for every
iteration order of the worlds (`PermOrder`) and of the district nodes (`SubsetOrder`). -/
theorem idStarFuel_terminates {ordf : List World → List World} (hord : PermOrder ordf) {dordf : List Var → List Var}
    (hdo : SubsetOrder dordf) {G : MG Name} (hG : G.WF) (hdl : ∀ e ∈ G.di, e.1 ≠ e.2) (hbl : ∀ e ∈ G.bi, e.1 ≠ e.2)
    (ev : Event) (hev : GoodEv G ev) (fuel : Nat) (hfuel : 2 * G.nodes.length + 3 ≤ fuel) :
    idStarFuel ordf dordf G fuel ev ≠ .error fuelErr := by
  -- what the recursive call may assume, given `f` units
  have main : ∀ (recf : Nat) (ev : Event), GoodEv G ev → Event.eqv (removeTautologies ev) ev = true →
      (∀ topo, G.topologicalSort = .ok topo → 2 * G.nodes.length + 1 ≤ recf) →
      idStarBody ordf dordf G (idStarFuel ordf dordf G recf) ev ≠ .error fuelErr := by
    intro recf ev hev h3 hrecf
    cases ht : G.topologicalSort with
    | error e =>
      exact body_cyclic_noline3 ordf dordf G _ e ht (topologicalSort_error_ne_fuel G hG e ht) ev h3
    | ok topo =>
      apply body_good_noline3 hord hdo hG hdl hbl topo ht _ ev hev h3
      intro x hx
      exact idStarFuel_sw_terminates hord hdo hG hdl hbl topo ht G.nodes.length x hx (sw_length_le hx) recf
        (hrecf topo ht)
  cases fuel with
  | zero => omega
  | succ f =>
    simp only [idStarFuel]
    by_cases h3 : Event.eqv (removeTautologies ev) ev = true
    · exact main f ev hev h3 (fun _ _ => by omega)
    · unfold idStarBody
      split
      · intro h; cases h
      · split
        · intro h; cases h
        · simp only [h3, Bool.not_false, ↓reduceIte]
          cases f with
          | zero => omega
          | succ f' =>
            simp only [idStarFuel]
            have hev' := goodEv_removeTautologies hev
            exact main f' _ hev' (by rw [removeTautologies_idem']; exact eqv_self _ hev'.ok.nodup)
              (fun _ _ => by omega)

end Y0.Cf

namespace Y0.Cf

/-! ## the iteration orders used by the correspondence satisfy the hypotheses -/

theorem perm_sortBy' {α : Type} (lt : α → α → Bool) (l : List α) : (sortBy lt l).Perm l := by
  have ins : ∀ (x : α) (l : List α), (insertBy lt x l).Perm (x :: l) := by
    intro x l
    induction l with
    | nil => exact List.Perm.refl _
    | cons y ys ih =>
      unfold insertBy
      split
      · exact ((List.Perm.cons y ih).trans (List.Perm.swap x y ys))
      · exact List.Perm.refl _
  unfold sortBy
  induction l with
  | nil => exact List.Perm.refl _
  | cons x xs ih =>
    simp only [List.foldr_cons]
    exact (ins x _).trans (List.Perm.cons x ih)

theorem permOrder_sortWorlds : PermOrder sortWorlds := fun l => perm_sortBy' worldLt l

theorem perm_rotateLeft' {α : Type} (s : List α) (n : Nat) : (s.rotateLeft n).Perm s := by
  unfold List.rotateLeft
  simp only
  split
  · exact List.Perm.refl _
  · refine List.perm_append_comm.trans ?_
    rw [List.take_append_drop]

theorem permOrder_orderWorlds (rev : Bool) (rot : Nat) : PermOrder (orderWorlds rev rot) := by
  intro l
  unfold orderWorlds
  have h1 : ∀ s : List World, s.Perm l → (if s.isEmpty then s else s.rotateLeft (rot % s.length)).Perm l := by
    intro s hs
    split
    · exact hs
    · exact (perm_rotateLeft' s _).trans hs
  cases rev with
  | true => exact h1 _ ((List.reverse_perm _).trans (permOrder_sortWorlds l))
  | false => exact h1 _ (permOrder_sortWorlds l)

theorem subsetOrder_orderDistrict (rev : Bool) : SubsetOrder (orderDistrict rev) := by
  intro d x hx
  unfold orderDistrict at hx
  simp only at hx
  split at hx
  · rw [List.mem_reverse, mem_sortBy] at hx; exact hx
  · rw [mem_sortBy] at hx; exact hx

end Y0.Cf
