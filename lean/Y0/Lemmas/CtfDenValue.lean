/-
  Y0.Lemmas.CtfDenValue — assembly of the value theorem of the ctf-factor factorisation: unfolding of `factorize`, the
  noise coordinates a factor reads, independence of the factors of different c-components, marginalisation over the
  summed vertices.
-/
import Y0.Lemmas.CtfDenMain

namespace Y0.Ctf
open Relation Y0.MG Y0.Fscm

/-! ### association lists -/

theorem forced_some_mem (r : Do) (n : Name) (k : Nat) (h : forced r n = some k) : (n, k) ∈ r := by
  unfold forced at h
  cases hf : r.find? (fun p => decide (p.1 = n)) with
  | none => rw [hf] at h; cases h
  | some p =>
    rw [hf] at h
    simp only [Option.map_some, Option.some.injEq] at h
    have hp := List.mem_of_find?_eq_some hf
    have hn : p.1 = n := by simpa using List.find?_some hf
    cases p
    simp only at h hn
    subst h; subst hn
    exact hp

theorem forced_of_mem_keys (r : Do) (n : Name) (h : n ∈ r.map (·.1)) : ∃ k, forced r n = some k := by
  unfold forced
  cases hf : r.find? (fun p => decide (p.1 = n)) with
  | none =>
    rw [List.find?_eq_none] at hf
    obtain ⟨p, hp, hpn⟩ := List.mem_map.1 h
    exact absurd (by simpa using hpn) (hf p hp)
  | some p => exact ⟨p.2, rfl⟩

theorem forced_of_mem_nodup (r : Do) (hnd : (r.map (·.1)).Nodup) (n : Name) (k : Nat) (h : (n, k) ∈ r) :
    forced r n = some k := by
  obtain ⟨k', hk'⟩ := forced_of_mem_keys r n (List.mem_map.2 ⟨(n, k), h, rfl⟩)
  have hmem := forced_some_mem r n k' hk'
  -- two entries with the same key in a list with distinct keys are equal
  have : ∀ (l : Do), (l.map (·.1)).Nodup → ∀ a b c, (a, b) ∈ l → (a, c) ∈ l → b = c := by
    intro l
    induction l with
    | nil => intro _ a b c hb; cases hb
    | cons p l ih =>
      intro hn a b c hb hc
      simp only [List.map_cons, List.nodup_cons] at hn
      rcases List.mem_cons.1 hb with rfl | hb'
      · rcases List.mem_cons.1 hc with hc' | hc'
        · exact (Prod.mk.inj hc').2.symm
        · exact absurd (List.mem_map.2 ⟨(a, c), hc', rfl⟩) hn.1
      · rcases List.mem_cons.1 hc with rfl | hc'
        · exact absurd (List.mem_map.2 ⟨(a, b), hb', rfl⟩) hn.1
        · exact ih hn.2 a b c hb' hc'
  rw [hk', this r hnd n k' k hmem h]

theorem assignHolds_iff (X : Name → NoisePoint → Nat) (r : Do) (hnd : (r.map (·.1)).Nodup) (u : NoisePoint) :
    assignHolds X r u = true ↔ ∀ n k, forced r n = some k → X n u = k := by
  unfold assignHolds
  simp only [List.all_eq_true, beq_iff_eq]
  constructor
  · intro h n k hf
    exact h (n, k) (forced_some_mem r n k hf)
  · rintro h ⟨n, k⟩ hp
    exact h n k (forced_of_mem_nodup r hnd n k hp)

/-! ### indicators -/

theorem ind_congr (a b : Bool) (h : a = true ↔ b = true) : ind a = ind b := by
  have : a = b := by rw [Bool.eq_iff_iff]; exact h
  rw [this]

theorem prodAt_ind_all {α : Type} (l : List α) (b : α → NoisePoint → Bool) (P : α → Nat → Prop) (u : NoisePoint) :
    prodAt (l.map fun a => (fun u => ind (b a u), P a)) u = ind (l.all fun a => b a u) := by
  induction l with
  | nil => simp [prodAt, ind]
  | cons a l ih =>
    have : prodAt ((a :: l).map fun a => (fun u => ind (b a u), P a)) u =
        ind (b a u) * prodAt (l.map fun a => (fun u => ind (b a u), P a)) u := rfl
    rw [this, ih, List.all_cons, ind_and]

/-! ### unfolding the model -/

theorem factorize_unfold (g : MG Name) (q : Event) (e : Expr) (ev : Event) (h : factorize g q = .ok (e, ev)) :
    q ≠ [] ∧ convertEvent g q = .ok ev ∧ ∃ D cs factors, ancestralSet g q = .ok D ∧ D.mapM (convertOne g) = .ok cs ∧
      ctfFactors (g.subgraph (dedup' ((dedup' cs).map (·.name)))) (dedup' cs) = .ok factors ∧
      e = sumSafe (productSafe (factors.map probOf))
            ((dedup' ((dedup' cs).map (·.name))).filter (fun n => decide (n ∉ dedup' (q.map (·.1.name))))) := by
  unfold factorize at h
  split at h
  · simp [bind, Except.bind, throw, throwThe, MonadExceptOf.throw] at h
  rename_i hq
  simp only [bind, Except.bind] at h
  cases hev : convertEvent g q with
  | error err => rw [hev] at h; cases h
  | ok ev' =>
    rw [hev] at h
    simp only at h
    cases hanc : q.foldlM (ancStep g) [] with
    | error err => rw [hanc] at h; cases h
    | ok anc =>
      rw [hanc] at h
      simp only at h
      cases hconv : anc.mapM (convertOne g) with
      | error err => rw [hconv] at h; cases h
      | ok cs =>
        rw [hconv] at h
        simp only at h
        cases hfac : ctfFactors (g.subgraph (dedup' ((dedup' cs).map (·.name)))) (dedup' cs) with
        | error err => rw [hfac] at h; cases h
        | ok factors =>
          rw [hfac] at h
          simp only [pure, Except.pure, Except.ok.injEq, Prod.mk.injEq] at h
          obtain ⟨he, hev'⟩ := h
          subst hev'
          refine ⟨?_, rfl, anc, cs, factors, hanc, hconv, hfac, he.symm⟩
          intro h0; rw [h0] at hq; simp at hq

theorem ctfFactors_unfold (g' : MG Name) (C : List Var) (factors : List (List Var))
    (h : ctfFactors g' C = .ok factors) :
    isCtfFactorForm g' (dedup' C) = .ok true ∧ groupByDistrict g' (·.name) (dedup' C) = .ok factors := by
  unfold ctfFactors at h
  simp only [bind, Except.bind] at h
  cases hform : isCtfFactorForm g' (dedup' C) with
  | error err => rw [hform] at h; cases h
  | ok b =>
    rw [hform] at h
    cases b with
    | false => simp [throw, throwThe, MonadExceptOf.throw] at h
    | true =>
      simp only [Bool.not_true, Bool.false_eq_true, ↓reduceIte] at h
      exact ⟨rfl, h⟩

theorem isCtfFactorForm_true (g' : MG Name) (l : List Var) (h : isCtfFactorForm g' l = .ok true) :
    ∀ v ∈ l, factorFormVar (g'.parents v.name) v = true := by
  induction l with
  | nil => intro v hv; cases hv
  | cons a l ih =>
    unfold isCtfFactorForm at h
    by_cases ha : a.name ∈ g'.nodes
    · simp only [predecessors, ha, ↓reduceIte, bind, Except.bind] at h
      by_cases hf : factorFormVar (g'.parents a.name) a = true
      · simp only [hf, ↓reduceIte] at h
        intro v hv
        rcases List.mem_cons.1 hv with rfl | hv
        · exact hf
        · exact ih h v hv
      · simp only [hf, Bool.false_eq_true, ↓reduceIte, pure, Except.pure, Except.ok.injEq] at h
    · simp only [predecessors, ha, ↓reduceIte, bind, Except.bind] at h
      cases h

/-- a query whose factorisation succeeds has no member of `D_*` on a self-loop -/
theorem factorize_noLoop (g : MG Name) (D cs : List Var) (factors : List (List Var))
    (hconv : D.mapM (convertOne g) = .ok cs)
    (hfac : ctfFactors (g.subgraph (dedup' ((dedup' cs).map (·.name)))) (dedup' cs) = .ok factors) :
    ∀ w ∈ D, ¬ g.DiEdge w.name w.name := by
  intro w hw hloop
  obtain ⟨hform, _⟩ := ctfFactors_unfold _ _ _ hfac
  have hall := isCtfFactorForm_true _ _ hform
  -- the ctf-factor form of `w`
  have : ∃ c, convertOne g w = .ok c := by
    by_contra hno
    have : ∀ (l : List Var) (r : List Var), w ∈ l → l.mapM (convertOne g) ≠ .ok r := by
      intro l
      induction l with
      | nil => intro r hin; cases hin
      | cons a l ih =>
        intro r hin hok
        simp only [List.mapM_cons, bind, Except.bind] at hok
        cases ha : convertOne g a with
        | error e => rw [ha] at hok; cases hok
        | ok c =>
          rw [ha] at hok
          rcases List.mem_cons.1 hin with rfl | hin'
          · exact hno ⟨c, ha⟩
          · cases hl : l.mapM (convertOne g) with
            | error e => rw [hl] at hok; cases hok
            | ok r' => exact ih r' hin' hl
    exact this D cs hw hconv
  obtain ⟨c, hc⟩ := this
  have hcs : c ∈ cs := (mapM_ok_mem _ _ _ hconv c).2 ⟨w, hw, hc⟩
  obtain ⟨hcn, _, _, hex, _⟩ := convertOne_spec' g w c hc
  have hself : c.name ∈ subNames c := (hex c.name).2 (by rw [hcn]; exact hloop)
  have hff := hall c (by rw [mem_dedup', mem_dedup']; exact hcs)
  obtain ⟨i, hi, hin⟩ := List.mem_map.1 hself
  have hcf : c.isCf = true := by
    simp only [Var.isCf, Bool.not_eq_eq_eq_not, Bool.not_true, List.isEmpty_eq_false_iff]
    exact List.ne_nil_of_mem hi
  unfold factorFormVar at hff
  simp only [hcf, ↓reduceIte, Bool.and_eq_true, Bool.not_eq_eq_eq_not, Bool.not_true, List.any_eq_false,
    beq_iff_eq] at hff
  exact hff.1 i hi hin

/-! ### the value of the returned expression -/

theorem prodValue_productSafe (M : Model) (ν : BaseValues) (r : Do) (ev : Event) (factors : List (List Var)) :
    prodValue M ν r ev (productSafe (factors.map probOf)) =
      (factors.map fun F => prob M (factorConjuncts ν r ev (sortBy Var.keyLt F))).foldr (· * ·) 1 := by
  match factors with
  | [] => rfl
  | [F] => simp [productSafe, prodValue, probValue, probOf]
  | F :: F' :: rest =>
    simp only [List.map_cons, productSafe, prodValue, List.foldr_cons, probValue, probOf, List.map_map]
    rfl

theorem factorisedValue_sumSafe (M : Model) (ν : BaseValues) (card : Name → Nat) (ev : Event)
    (factors : List (List Var)) (R : List Name) :
    factorisedValue M ν card (sumSafe (productSafe (factors.map probOf)) R) ev =
      sumAssign card R (fun r => prodValue M ν r ev (productSafe (factors.map probOf))) := by
  unfold sumSafe
  cases R with
  | nil =>
    simp only [List.isEmpty_nil, ↓reduceIte, sumAssign]
    match factors with
    | [] => rfl
    | [F] => rfl
    | F :: F' :: rest => rfl
  | cons x R =>
    simp only [List.isEmpty_cons, Bool.false_eq_true, ↓reduceIte, factorisedValue, List.map_map]
    congr 1
    have : ((fun x : Var => x.name) ∘ Var.plain) = id := by funext n; rfl
    rw [this, List.map_id]

theorem factorConjuncts_all (M : Model) (ν : BaseValues) (r : Do) (ev : Event) (F : List Var) (u : NoisePoint) :
    (factorConjuncts ν r ev F).all (holds M u) = true ↔
      ∀ c ∈ F, ∀ k ∈ factorVarValues ν r ev c, solve M u (boundWorld ν r c.ivs) c.name = k := by
  unfold factorConjuncts
  simp only [List.all_eq_true, List.mem_flatMap, List.mem_map]
  constructor
  · intro h c hc k hk
    have := h _ ⟨c, hc, k, hk, rfl⟩
    simpa [holds] using this
  · rintro h _ ⟨c, hc, k, hk, rfl⟩
    simpa [holds] using h c hc k hk

end Y0.Ctf

namespace Y0.Ctf
open Relation Y0.MG Y0.Fscm

theorem mapM_ok_each {α β : Type} (f : α → Except Err β) (l : List α) (r : List β) (h : l.mapM f = .ok r) :
    ∀ x ∈ l, ∃ y, f x = .ok y := by
  induction l generalizing r with
  | nil => intro x hx; cases hx
  | cons a l ih =>
    simp only [List.mapM_cons, bind, Except.bind] at h
    cases ha : f a with
    | error e => rw [ha] at h; cases h
    | ok c =>
      rw [ha] at h
      cases hl : l.mapM f with
      | error e => rw [hl] at h; cases h
      | ok r' =>
        intro x hx
        rcases List.mem_cons.1 hx with rfl | hx
        · exact ⟨c, ha⟩
        · exact ih r' hl x hx

namespace QCtx
variable {g : MG Name} {q : Event} {D : List Var} (C : QCtx g q D)
include C

theorem consistent_member (w : Var) (hw : w ∈ D) : ConsistentSubs w.ivs := by
  obtain ⟨p, hp, hanc⟩ := C.src w hw
  exact consistent_of_sub _ _ (C.cons p hp) (ctfAnc_ivs_sub g p.1 w hanc.1)

/-- the world of a ctf-factor variable forces every mechanism argument of its vertex and not the vertex -/
theorem factorWorld (M : Model) (hM : Compatible M g) (ν : BaseValues) (r : Do) (w c : Var) (hw : w ∈ D)
    (hc : convertOne g w = .ok c) :
    w.name ∈ M.order ∧ forced (boundWorld ν r c.ivs) w.name = none ∧
      ∀ p ∈ M.pa w.name, ∃ x, forced (boundWorld ν r c.ivs) p = some x := by
  obtain ⟨hcn, _, _, hex, _⟩ := convertOne_spec' g w c hc
  refine ⟨(hM.perm.mem_iff).2 (convertOne_node g w c hc), ?_, ?_⟩
  · apply forced_boundWorld_none
    intro hmem
    have hedge : g.DiEdge w.name c.name := (hex w.name).1 hmem
    rw [hcn] at hedge
    exact C.noLoop w hw hedge
  · intro p hp
    have hedge : g.DiEdge p c.name := by rw [hcn]; exact hM.pa_sub w.name p hp
    obtain ⟨i, hi, rfl⟩ := List.mem_map.1 ((hex p).2 hedge)
    exact ⟨_, forced_boundWorld ν r c.ivs i hi (convertOne_consistent g w c hc (C.consistent_member w hw))⟩

/-- a ctf-factor variable reads only the exogenous coordinates of its vertex -/
theorem factor_depends (M : Model) (hM : Compatible M g) (ν : BaseValues) (r : Do) (w c : Var) (hw : w ∈ D)
    (hc : convertOne g w = .ok c) (u u' : NoisePoint) (hu : ∀ j ∈ M.lat w.name, u.getD j 0 = u'.getD j 0) :
    solve M u (boundWorld ν r c.ivs) w.name = solve M u' (boundWorld ν r c.ivs) w.name := by
  obtain ⟨ho, hn, hp⟩ := C.factorWorld M hM ν r w c hw hc
  rw [solve_parents_forced M u _ w.name hM.nodup hM.topo ho hn hp,
    solve_parents_forced M u' _ w.name hM.nodup hM.topo ho hn hp]
  congr 1
  exact List.map_congr_left hu

end QCtx

/-- **the factorised sum-product equals the probability of the query** (assembled; stated for the public in
Y0/Props/C19.lean as `factorisation_den_partial`) -/
theorem factorisation_value (g : MG Name) (hg : g.WF) (q : Event) (e : Expr) (ev : Event)
    (h : factorize g q = .ok (e, ev)) (hread : readableQuery q = true)
    (hcls : factorizeClasses g q = .ok (false, false, false))
    (M : Model) (hM : Compatible M g) (hnorm : ∀ pmf ∈ M.noise, pmf.sum = 1)
    (card : Name → Nat) (hcard : ∀ v pa lat, M.f v pa lat < card v) (ν : BaseValues) :
    factorisedValue M ν card e ev = probEventOpt M ν q := by
  obtain ⟨_, hev, D, cs, factors, hD, hconv, hfac, rfl⟩ := factorize_unfold g q e ev h
  obtain ⟨D', C⟩ := QCtx.of_classes g hg q hread hcls (fun D'' hD'' => by
    rw [hD] at hD''; cases hD''; exact factorize_noLoop g D cs factors hconv hfac)
  have hDD : D' = D := by have := C.anc; rw [hD] at this; cases this; rfl
  subst hDD
  have hconvD := mapM_ok_each _ _ _ hconv
  have hcsmem := mapM_ok_mem _ _ _ hconv
  -- names and ranges
  have hnames : ∀ n, n ∈ dedup' ((dedup' cs).map (·.name)) ↔ n ∈ D'.map (·.name) := by
    intro n
    rw [mem_dedup']
    simp only [List.mem_map, mem_dedup']
    constructor
    · rintro ⟨c, hc, rfl⟩
      obtain ⟨w, hw, hwc⟩ := (hcsmem c).1 hc
      exact ⟨w, hw, ((convertOne_spec' g w c hwc).1).symm⟩
    · rintro ⟨w, hw, rfl⟩
      obtain ⟨c, hc⟩ := hconvD w hw
      exact ⟨c, (hcsmem c).2 ⟨w, hw, hc⟩, (convertOne_spec' g w c hc).1⟩
  generalize hR : (dedup' ((dedup' cs).map (·.name))).filter (fun n => decide (n ∉ dedup' (q.map (·.1.name)))) = R
  have hRmem : ∀ n, n ∈ R ↔ n ∈ D'.map (·.name) ∧ n ∉ q.map (·.1.name) := by
    intro n
    rw [← hR, List.mem_filter, hnames n]
    simp [mem_dedup']
  have hRnd : R.Nodup := by rw [← hR]; exact (nodup_dedup' _).filter _
  rw [factorisedValue_sumSafe]
  -- the quantities that are summed out
  let X : Name → NoisePoint → Nat := fun n u => solve M u (worldOf ν (wOf D' n).ivs) n
  have hX : ∀ x ∈ R, ∀ u, X x u < card x := by
    intro n hn u
    obtain ⟨h1, h2⟩ := wOf_of_name D' n ((hRmem n).1 hn).1
    obtain ⟨c, hc⟩ := hconvD _ h1
    show solve M u (worldOf ν (wOf D' n).ivs) n < card n
    rw [solve_unforced M u _ n hM.nodup hM.topo]
    · exact hcard _ _ _
    · rw [← h2]; exact (hM.perm.mem_iff).2 (convertOne_node g _ c hc)
    · apply forced_worldOf_none
      have := C.not_self _ h1
      rwa [h2] at this
  unfold probEventOpt
  rw [prob_eq_wsum, wsum_marginals M.noise card X R hX]
  apply sumAssign_congr
  intro r hr
  -- one assignment of the summed vertices
  have hnd : (r.map (·.1)).Nodup := by rw [hr]; exact hRnd
  have hr1 : ∀ n k, forced r n = some k → n ∈ D'.map (·.name) ∧ n ∉ q.map (·.1.name) := by
    intro n k hf
    apply (hRmem n).1
    rw [← hr]
    exact List.mem_map.2 ⟨(n, k), forced_some_mem r n k hf, rfl⟩
  have hr2 : ∀ n ∈ D'.map (·.name), n ∉ q.map (·.1.name) → ∃ k, forced r n = some k := by
    intro n h1 h2
    apply forced_of_mem_keys
    rw [hr]
    exact (hRmem n).2 ⟨h1, h2⟩
  rw [prodValue_productSafe]
  -- the factors, as quantities over the noise space
  obtain ⟨_, hgroup⟩ := ctfFactors_unfold _ _ _ hfac
  obtain ⟨hcover, hchar⟩ := groupByDistrict_spec _ _ _ _ hgroup
  have hpair := groupByDistrict_pairwise _ _ _ _ hgroup
  have hFcs : ∀ F ∈ factors, ∀ c ∈ F, c ∈ cs := by
    intro F hF c hc
    have := (hcover c).1 ⟨F, hF, hc⟩
    rwa [mem_dedup', mem_dedup'] at this
  have hcsD : ∀ c ∈ cs, ∃ w ∈ D', convertOne g w = .ok c ∧ c.name = w.name ∧ cOf g D' w.name = c := by
    intro c hc
    obtain ⟨w, hw, hwc⟩ := (hcsmem c).1 hc
    exact ⟨w, hw, hwc, (convertOne_spec' g w c hwc).1, C.cOf_mem w c hw hwc⟩
  let b : List Var → NoisePoint → Bool := fun F u => (factorConjuncts ν r ev (sortBy Var.keyLt F)).all (holds M u)
  let P : List Var → Nat → Prop := fun F j => ∃ c ∈ F, j ∈ M.lat c.name
  have hsplit := wsum_split_list M.noise hnorm (factors.map fun F => (fun u => ind (b F u), P F))
    (by
      intro p hp
      obtain ⟨F, hF, rfl⟩ := List.mem_map.1 hp
      intro u u' hu
      show ind (b F u) = ind (b F u')
      apply ind_congr
      show (factorConjuncts ν r ev (sortBy Var.keyLt F)).all (holds M u) = true ↔
        (factorConjuncts ν r ev (sortBy Var.keyLt F)).all (holds M u') = true
      rw [factorConjuncts_all, factorConjuncts_all]
      have hagree : ∀ c ∈ sortBy Var.keyLt F,
          solve M u (boundWorld ν r c.ivs) c.name = solve M u' (boundWorld ν r c.ivs) c.name := by
        intro c hc
        rw [mem_sortBy] at hc
        obtain ⟨w, hw, hwc, hcn, _⟩ := hcsD c (hFcs F hF c hc)
        rw [hcn]
        apply C.factor_depends M hM ν r w c hw hwc u u'
        intro j hj
        exact hu j ⟨c, hc, by rw [hcn]; exact hj⟩
      constructor
      · intro hall c hc k hk; rw [← hagree c hc]; exact hall c hc k hk
      · intro hall c hc k hk; rw [hagree c hc]; exact hall c hc k hk)
    (by
      rw [List.pairwise_map]
      refine hpair.imp_of_mem ?_
      intro F F' hF hF' hdisj j hj hj'
      obtain ⟨c, hc, hjc⟩ := hj
      obtain ⟨c', hc', hjc'⟩ := hj'
      obtain ⟨w, hw, hwc, hcn, _⟩ := hcsD c (hFcs F hF c hc)
      obtain ⟨w', hw', hwc', hcn', _⟩ := hcsD c' (hFcs F' hF' c' hc')
      by_cases hname : c.name = c'.name
      · have : w = w' := C.single w hw w' hw' (by rw [← hcn, ← hcn', hname])
        subst this
        rw [hwc] at hwc'
        cases hwc'
        exact hdisj c hc hc'
      · -- a shared exogenous variable means a bidirected edge, hence the same district of the subgraph
        have hbi : g.BiEdge c.name c'.name := hM.lat_bi c.name c'.name hname ⟨j, hjc, hjc'⟩
        have hn1 : c.name ∈ dedup' ((dedup' cs).map (·.name)) := by
          rw [mem_dedup']; exact List.mem_map.2 ⟨c, by rw [mem_dedup']; exact hFcs F hF c hc, rfl⟩
        have hn2 : c'.name ∈ dedup' ((dedup' cs).map (·.name)) := by
          rw [mem_dedup']; exact List.mem_map.2 ⟨c', by rw [mem_dedup']; exact hFcs F' hF' c' hc', rfl⟩
        have hsub : (g.subgraph (dedup' ((dedup' cs).map (·.name)))).BiEdge c.name c'.name :=
          (biEdge_subgraph g _ _ _).2 ⟨hbi, hn1, hn2⟩
        have hwf := wf_subgraph g (dedup' ((dedup' cs).map (·.name)))
        obtain ⟨d1, hd1⟩ := getDistrict_total _ hwf c.name ((mem_nodes_subgraph g _ _).2 hn1)
        obtain ⟨d2, hd2⟩ := getDistrict_total _ hwf c'.name ((mem_nodes_subgraph g _ _).2 hn2)
        have hd : d1 = d2 := (getDistrict_eq_iff _ hwf c.name c'.name d1 d2 hd1 hd2).2 (ReflTransGen.single hsub)
        have hc'F : c' ∈ F := by
          rw [hchar F hF c hc c']
          refine ⟨by rw [mem_dedup', mem_dedup']; exact hFcs F' hF' c' hc', ?_⟩
          rw [hd1, hd2, hd]
        exact hdisj c' hc'F hc')
  rw [List.map_map] at hsplit
  have hprob : (factors.map fun F => prob M (factorConjuncts ν r ev (sortBy Var.keyLt F))) =
      factors.map ((fun p : (NoisePoint → Rat) × (Nat → Prop) => wsum M.noise p.1) ∘
        fun F => (fun u => ind (b F u), P F)) := by
    apply List.map_congr_left
    intro F _
    exact prob_eq_wsum M _
  rw [hprob, ← hsplit]
  apply wsum_congr
  intro u
  rw [prodAt_ind_all, ← ind_and]
  apply ind_congr
  -- the pointwise equivalence
  rw [Bool.and_eq_true, eventConjuncts_all, assignHolds_iff X r hnd u, List.all_eq_true]
  rw [C.pointwise ev hconvD hev M hM ν r hr1 hr2 u]
  apply Iff.symm
  constructor
  · intro hall F hF
    show (factorConjuncts ν r ev (sortBy Var.keyLt F)).all (holds M u) = true
    rw [factorConjuncts_all]
    intro c hc k hk
    rw [mem_sortBy] at hc
    obtain ⟨w, hw, _, hcn, hcof⟩ := hcsD c (hFcs F hF c hc)
    have := hall w hw k (by rw [hcof]; exact hk)
    rw [hcof] at this
    rw [hcn]; exact this
  · intro hall w hw k hk
    obtain ⟨c, hc⟩ := hconvD w hw
    have hcof := C.cOf_mem w c hw hc
    rw [hcof] at hk ⊢
    have hccs : c ∈ cs := (hcsmem c).2 ⟨w, hw, hc⟩
    obtain ⟨F, hF, hcF⟩ := (hcover c).2 (by rw [mem_dedup', mem_dedup']; exact hccs)
    have hb : (factorConjuncts ν r ev (sortBy Var.keyLt F)).all (holds M u) = true := hall F hF
    rw [factorConjuncts_all] at hb
    have := hb c ((mem_sortBy _ _ _).2 hcF) k hk
    rw [(convertOne_spec' g w c hc).1] at this
    exact this

end Y0.Ctf
