/-
  Y0.Lemmas.Graph — membership characterisations of the graph constructors and the generic
  closure lemma.  Helper lemmas only; the property theorems are in Y0/Props/C14.lean.
-/
import Y0.Spec.GraphSpec
import Mathlib.Data.List.Basic
import Mathlib.Data.List.Nodup
import Mathlib.Data.List.Perm.Basic
import Mathlib.Data.List.Dedup

namespace Y0

/-! ### `dedup'` -/

section dedup
variable {α : Type} [DecidableEq α]

@[simp] theorem mem_dedup' {l : List α} {a : α} : a ∈ dedup' l ↔ a ∈ l := by
  induction l with
  | nil => simp [dedup']
  | cons x xs ih =>
    simp only [dedup', List.mem_cons, List.mem_filter, ih, decide_eq_true_eq]
    by_cases h : a = x <;> simp [h]

theorem nodup_dedup' (l : List α) : (dedup' l).Nodup := by
  induction l with
  | nil => simp [dedup']
  | cons x xs ih =>
    simp only [dedup', List.nodup_cons, List.mem_filter, decide_eq_true_eq]
    exact ⟨fun h => h.2 rfl, ih.filter _⟩

end dedup

namespace MG
variable {α : Type} [DecidableEq α]

/-! ### constructors -/

@[simp] theorem mem_nodes_addNode (G : MG α) (n v : α) :
    v ∈ (G.addNode n).nodes ↔ v ∈ G.nodes ∨ v = n := by
  unfold addNode; split <;> simp_all

@[simp] theorem di_addNode (G : MG α) (n : α) : (G.addNode n).di = G.di := by
  unfold addNode; split <;> rfl
@[simp] theorem bi_addNode (G : MG α) (n : α) : (G.addNode n).bi = G.bi := by
  unfold addNode; split <;> rfl

theorem nodup_addNode (G : MG α) (n : α) (h : G.nodes.Nodup) : (G.addNode n).nodes.Nodup := by
  unfold addNode; split
  · exact h
  · simp only; exact List.Nodup.append h (by simp) (by simp_all)

@[simp] theorem mem_nodes_addDi (G : MG α) (e : α × α) (v : α) :
    v ∈ (G.addDi e).nodes ↔ v ∈ G.nodes ∨ v = e.1 ∨ v = e.2 := by
  unfold addDi; simp only; split <;> simp [or_assoc]

@[simp] theorem mem_di_addDi (G : MG α) (e x : α × α) :
    x ∈ (G.addDi e).di ↔ x ∈ G.di ∨ x = e := by
  unfold addDi; simp only; split
  · simp_all
  · simp

@[simp] theorem bi_addDi (G : MG α) (e : α × α) : (G.addDi e).bi = G.bi := by
  unfold addDi; simp only; split <;> simp

theorem nodup_addDi (G : MG α) (e : α × α) (h : G.nodes.Nodup) : (G.addDi e).nodes.Nodup := by
  unfold addDi; simp only
  have := nodup_addNode _ e.2 (nodup_addNode G e.1 h)
  split <;> simpa using this

@[simp] theorem mem_nodes_addBi (G : MG α) (e : α × α) (v : α) :
    v ∈ (G.addBi e).nodes ↔ v ∈ G.nodes ∨ v = e.1 ∨ v = e.2 := by
  unfold addBi; simp only; split <;> simp [or_assoc]

@[simp] theorem di_addBi (G : MG α) (e : α × α) : (G.addBi e).di = G.di := by
  unfold addBi; simp only; split <;> simp

theorem nodup_addBi (G : MG α) (e : α × α) (h : G.nodes.Nodup) : (G.addBi e).nodes.Nodup := by
  unfold addBi; simp only
  have := nodup_addNode _ e.2 (nodup_addNode G e.1 h)
  split <;> simpa using this

theorem hasBi_iff (G : MG α) (u v : α) : G.hasBi u v = true ↔ G.BiEdge u v := by
  simp [hasBi, BiEdge]

theorem biEdge_addBi (G : MG α) (e : α × α) (u v : α) :
    (G.addBi e).BiEdge u v ↔ G.BiEdge u v ∨ (u = e.1 ∧ v = e.2) ∨ (u = e.2 ∧ v = e.1) := by
  unfold addBi; simp only
  split
  · rename_i h
    rw [hasBi_iff] at h
    simp only [BiEdge, bi_addNode] at h ⊢
    constructor
    · intro h'; exact Or.inl h'
    · rintro (h' | ⟨rfl, rfl⟩ | ⟨rfl, rfl⟩)
      · exact h'
      · exact h
      · exact h.symm
  · rcases e with ⟨a, b⟩
    simp only [BiEdge, bi_addNode, List.mem_append, List.mem_singleton, Prod.mk.injEq]
    tauto

theorem mem_bi_addBi_sub (G : MG α) (e x : α × α) : x ∈ (G.addBi e).bi → x ∈ G.bi ∨ x = e := by
  unfold addBi; simp only; split
  · intro h; simp at h; exact Or.inl h
  · intro h; simpa using h

/-! folds -/

theorem mem_nodes_foldl_addNode (ns : List α) (G : MG α) (v : α) :
    v ∈ (ns.foldl addNode G).nodes ↔ v ∈ G.nodes ∨ v ∈ ns := by
  induction ns generalizing G with
  | nil => simp
  | cons n ns ih => simp [ih, or_assoc]

theorem di_foldl_addNode (ns : List α) (G : MG α) : (ns.foldl addNode G).di = G.di := by
  induction ns generalizing G with
  | nil => rfl
  | cons n ns ih => simp [ih]

theorem bi_foldl_addNode (ns : List α) (G : MG α) : (ns.foldl addNode G).bi = G.bi := by
  induction ns generalizing G with
  | nil => rfl
  | cons n ns ih => simp [ih]

theorem nodup_foldl_addNode (ns : List α) (G : MG α) (h : G.nodes.Nodup) :
    (ns.foldl addNode G).nodes.Nodup := by
  induction ns generalizing G with
  | nil => exact h
  | cons n ns ih => exact ih _ (nodup_addNode G n h)

theorem mem_nodes_foldl_addDi (es : List (α × α)) (G : MG α) (v : α) :
    v ∈ (es.foldl addDi G).nodes ↔ v ∈ G.nodes ∨ ∃ e ∈ es, v = e.1 ∨ v = e.2 := by
  induction es generalizing G with
  | nil => simp
  | cons e es ih => simp [ih, or_assoc]

theorem mem_di_foldl_addDi (es : List (α × α)) (G : MG α) (x : α × α) :
    x ∈ (es.foldl addDi G).di ↔ x ∈ G.di ∨ x ∈ es := by
  induction es generalizing G with
  | nil => simp
  | cons e es ih => simp [ih, or_assoc]

theorem bi_foldl_addDi (es : List (α × α)) (G : MG α) : (es.foldl addDi G).bi = G.bi := by
  induction es generalizing G with
  | nil => rfl
  | cons e es ih => simp [ih]

theorem nodup_foldl_addDi (es : List (α × α)) (G : MG α) (h : G.nodes.Nodup) :
    (es.foldl addDi G).nodes.Nodup := by
  induction es generalizing G with
  | nil => exact h
  | cons e es ih => exact ih _ (nodup_addDi G e h)

theorem mem_nodes_foldl_addBi (es : List (α × α)) (G : MG α) (v : α) :
    v ∈ (es.foldl addBi G).nodes ↔ v ∈ G.nodes ∨ ∃ e ∈ es, v = e.1 ∨ v = e.2 := by
  induction es generalizing G with
  | nil => simp
  | cons e es ih => simp [ih, or_assoc]

theorem di_foldl_addBi (es : List (α × α)) (G : MG α) : (es.foldl addBi G).di = G.di := by
  induction es generalizing G with
  | nil => rfl
  | cons e es ih => simp [ih]

theorem nodup_foldl_addBi (es : List (α × α)) (G : MG α) (h : G.nodes.Nodup) :
    (es.foldl addBi G).nodes.Nodup := by
  induction es generalizing G with
  | nil => exact h
  | cons e es ih => exact ih _ (nodup_addBi G e h)

theorem biEdge_foldl_addBi (es : List (α × α)) (G : MG α) (u v : α) :
    (es.foldl addBi G).BiEdge u v ↔ G.BiEdge u v ∨ (u, v) ∈ es ∨ (v, u) ∈ es := by
  induction es generalizing G with
  | nil => simp
  | cons e es ih =>
    simp only [List.foldl_cons, ih, biEdge_addBi, List.mem_cons]
    rcases e with ⟨a, b⟩
    simp only [Prod.mk.injEq]
    tauto

theorem mem_bi_foldl_addBi_sub (es : List (α × α)) (G : MG α) (x : α × α) :
    x ∈ (es.foldl addBi G).bi → x ∈ G.bi ∨ x ∈ es := by
  induction es generalizing G with
  | nil => simp
  | cons e es ih =>
    intro h
    rcases ih _ h with h | h
    · rcases mem_bi_addBi_sub G e x h with h | h
      · exact Or.inl h
      · exact Or.inr (by simp [h])
    · exact Or.inr (by simp [h])

theorem nodup_di_addDi (G : MG α) (e : α × α) (h : G.di.Nodup) : (G.addDi e).di.Nodup := by
  unfold addDi; simp only
  split
  · simpa using h
  · rename_i hne
    simp only [di_addNode] at hne ⊢
    exact List.Nodup.append h (by simp) (by simp_all)

theorem nodup_di_foldl_addDi (es : List (α × α)) (G : MG α) (h : G.di.Nodup) :
    (es.foldl addDi G).di.Nodup := by
  induction es generalizing G with
  | nil => exact h
  | cons e es ih => exact ih _ (nodup_di_addDi G e h)

/-! ### `from_edges` -/

theorem mem_nodes_fromEdges (ns : List α) (di bi : List (α × α)) (v : α) :
    v ∈ (fromEdges ns di bi).nodes ↔
      v ∈ ns ∨ (∃ e ∈ di, v = e.1 ∨ v = e.2) ∨ (∃ e ∈ bi, v = e.1 ∨ v = e.2) := by
  simp [fromEdges, mem_nodes_foldl_addBi, mem_nodes_foldl_addDi, mem_nodes_foldl_addNode, empty, or_assoc]

theorem mem_di_fromEdges (ns : List α) (di bi : List (α × α)) (x : α × α) :
    x ∈ (fromEdges ns di bi).di ↔ x ∈ di := by
  simp [fromEdges, di_foldl_addBi, mem_di_foldl_addDi, di_foldl_addNode, empty]

theorem diEdge_fromEdges (ns : List α) (di bi : List (α × α)) (u v : α) :
    (fromEdges ns di bi).DiEdge u v ↔ (u, v) ∈ di := mem_di_fromEdges ns di bi (u, v)

theorem biEdge_fromEdges (ns : List α) (di bi : List (α × α)) (u v : α) :
    (fromEdges ns di bi).BiEdge u v ↔ (u, v) ∈ bi ∨ (v, u) ∈ bi := by
  unfold fromEdges
  rw [biEdge_foldl_addBi]
  simp [BiEdge, bi_foldl_addDi, bi_foldl_addNode, empty]

theorem mem_bi_fromEdges_sub (ns : List α) (di bi : List (α × α)) (x : α × α) :
    x ∈ (fromEdges ns di bi).bi → x ∈ bi := by
  intro h
  rcases mem_bi_foldl_addBi_sub _ _ _ h with h | h
  · simp [bi_foldl_addDi, bi_foldl_addNode, empty] at h
  · exact h

/-- every graph produced by `from_edges` is well formed -/
theorem wf_fromEdges (ns : List α) (di bi : List (α × α)) : (fromEdges ns di bi).WF := by
  refine ⟨?_, ?_, ?_, ?_⟩
  · exact nodup_foldl_addBi _ _ (nodup_foldl_addDi _ _ (nodup_foldl_addNode _ _ (by simp [empty])))
  · unfold fromEdges
    rw [di_foldl_addBi]
    exact nodup_di_foldl_addDi _ _ (by simp [di_foldl_addNode, empty])
  · intro e he
    rw [mem_di_fromEdges] at he
    simp only [mem_nodes_fromEdges]
    exact ⟨Or.inr (Or.inl ⟨e, he, Or.inl rfl⟩), Or.inr (Or.inl ⟨e, he, Or.inr rfl⟩)⟩
  · intro e he
    have he := mem_bi_fromEdges_sub _ _ _ _ he
    simp only [mem_nodes_fromEdges]
    exact ⟨Or.inr (Or.inr ⟨e, he, Or.inl rfl⟩), Or.inr (Or.inr ⟨e, he, Or.inr rfl⟩)⟩

end MG
end Y0
