/-
  Y0.Lemmas.TrsoShapeAll — **every estimand a source-domain run of TRSO returns is free of `One()`** (`srcShape`): the
  recursion is followed in a coin context of the source domain, line by line (Lemmas/TrsoShapeRun), with the semantic
  invariant of Lemmas/TrsoSem providing the values.  Lines 6/7 never fire inside a source domain.
-/
import Y0.Lemmas.TrsoShapeRun

namespace Y0
namespace Trso
open TrDsl MG IdAux

/-- the semantic invariant after line 10 (the new carried expression is a product, hence not a joint) -/
theorem semInv_line10 {ctx : Ctx} {Mb : Nat} {q q' : Query} {G : MG Name} (hq : QInv Mb q G) (h : SemInv ctx q G)
    {c' : List Name} (hc'd : c' ∈ G.districts) (hc'T : ∀ v ∈ c', isTnode v = false)
    (hc'n : ∀ v ∈ c', v ∈ G.nodes) {s : List (Pop × List Name)} (hq' : line10 q G c' s = .ok q')
    (hnj : ∀ pop cc, q'.expr ≠ .prob pop cc [])
    (hvoid : q'.active = [] → q'.surr ≠ [] → False) :
    SemInv ctx q' (G.subgraph (nsort c')) := by
  obtain ⟨gx, nx, wx, dx⟩ := sound_line10_core hq h hc'd hc'T hq'
  have hmem' : ∀ v, v ∈ regularNodes (G.subgraph (nsort c')) ↔ v ∈ c' := by
    intro v
    rw [mem_regular_subgraph hc'n]
    exact ⟨fun a => a.2, fun a => ⟨mem_regularNodes.2 ⟨hc'n v a, hc'T v a⟩, a⟩⟩
  have hV' : (regularNodes (G.subgraph (nsort c'))).Nodup := regularNodes_nodup (wf_subgraph _ _)
  refine ⟨h.rsub.subgraph hc'n, gx, nx, ?_, ?_, ?_, Or.inr ⟨hnj, wx⟩, fun ha hs => (hvoid ha hs).elim⟩
  · intro σ
    rw [dx σ]
    exact congrFun (ctx.M.Q_congr_set (nsort_nodup' c') hV' (fun v => by rw [mem_nsort, hmem' v])) σ
  · intro v hv
    exact h.usum v ((mem_regular_subgraph hc'n).1 hv).1
  · intro z hz hz'
    exact h.ign z hz ((mem_regular_subgraph hc'n).1 hz').1

theorem forall₂_right_mem {α β} {R : α → β → Prop} : ∀ {l₁ : List α} {l₂ : List β}, List.Forall₂ R l₁ l₂ →
    ∀ b ∈ l₂, ∃ a ∈ l₁, R a b
  | _, _, .nil, b, hb => by cases hb
  | _, _, .cons h t, b, hb => by
    rcases List.mem_cons.1 hb with rfl | hb
    · exact ⟨_, List.mem_cons_self, h⟩
    · obtain ⟨a, ha, hr⟩ := forall₂_right_mem t b hb
      exact ⟨a, List.mem_cons_of_mem _ ha, hr⟩

theorem SrcCarried.congr {ctx : Ctx} {q s : Query} {G : MG Name} (h : SrcCarried ctx q G) (he : s.expr = q.expr) :
    SrcCarried ctx s G :=
  ⟨he ▸ h.shape, he ▸ h.chz, he ▸ h.nfrac, fun hl fs => he ▸ h.np hl fs⟩

/-- **source-domain runs return shaped estimands** (in a coin context `ctx` of the source domain) -/
theorem srcShape (ctx : Ctx) (hc : CoinM ctx) (hcoin : Coin ctx) (hign : ctx.ign ≠ []) (Mb : Nat) :
    ∀ (fuel : Nat) (q : Query) (G : MG Name), QInv Mb q G → SemInv ctx q G → q.active ≠ [] → SrcCarried ctx q G →
      ∀ e, trsoF dSeparated fuel q = .ok (some e) → Shape ctx.M.card ctx.leaf σz e
  | 0, _, _, _, _, _, _, _, he => by simp [trsoF] at he
  | fuel + 1, q, G, hq, h, hK, hcar, e, he => by
    have ih := srcShape ctx hc hcoin hign Mb fuel
    -- soundness of sub-results (goodness, duplicate-free sums) from the engine, for the one-context class
    have eng : ∀ (q1 : Query) (G1 : MG Name), QInv Mb q1 G1 → SemInv ctx q1 G1 → q1.active ≠ [] →
        ∀ e1, trsoF dSeparated fuel q1 = .ok (some e1) → Good ctx.S e1 ∧ SumND e1 := by
      intro q1 G1 hq1 h1 hK1 e1 he1
      have := trsoF_sound_engine dSeparated (fun c => c = ctx) rfl hcoin KSrc kSrc_stable Mb
        (h67_src dSeparated _ Mb) fuel q1 G1 hq1 (fun c hcc => hcc ▸ h1) hK1 e1 he1 ctx rfl
      exact ⟨this.1, this.2.1⟩
    have hclean : Clean q.expr := h.good.1
    have hg : q.graph = .ok G := hq.look
    unfold trsoF at he
    rw [hg, ok_bind] at he
    split at he
    · exact shape_line1 hq h hcar he
    · obtain ⟨anc, hanc⟩ := hq.anc_ok
      rw [hanc, ok_bind] at he
      split at he
      · -- line 2
        rename_i hne
        have hne' : (diff' (regularNodes G) anc).isEmpty = false := by simpa using hne
        unfold step2 at he
        obtain ⟨q', hq', he2⟩ := bind_ok he
        obtain ⟨o, ho, he3⟩ := bind_ok he2
        clear he he2
        obtain ⟨q'', G'', hq'', hinv'', _, _, _, hac, _⟩ := qline2_ok hq hanc hne' (fun _ => True)
          (fun r => by obtain ⟨e', he', _⟩ := line2_expr_ok (dom := q.domain) (r := r) hclean; exact ⟨e', he', trivial⟩)
        have hqq : q'' = q' := by rw [hq'] at hq''; exact (Except.ok.inj hq'').symm
        subst hqq
        have hG'' : G'' = G.subgraph (nsort anc) := by
          have h1 := hinv''.look
          rw [(line2_shape' hq.look hanc hq').2.2.2.2.2.1] at h1
          exact (Except.ok.inj h1).symm
        subst hG''
        have h' := (sound_line2 hq h hanc hne' hq').1
        have hK' : q''.active ≠ [] := hac ▸ hK
        have hcar' := car_line2 hq h hcar hign hanc hne' hq'
        cases o with
        | none => simp [c14nSafe] at he3
        | some e1 =>
          simp only [c14nSafe] at he3
          obtain ⟨e2, hcan, he3⟩ := bind_ok he3
          have : e2 = e := by simpa [pure, Except.pure] using he3
          subst this
          obtain ⟨g1, n1⟩ := eng q'' _ hinv'' h' hK' e1 ho
          exact shape_canonicalize ctx.S σz g1 n1 (ih q'' _ hinv'' h' hK' hcar' e1 ho) hcan
      · obtain ⟨extra, hex⟩ := hq.noEffect_ok
        rw [hex, ok_bind] at he
        split at he
        · -- line 3
          rename_i hne
          have hne' : extra.isEmpty = false := by simpa using hne
          obtain ⟨hinv', _⟩ := qline3_inv hq hex hne'
          unfold step3 at he
          obtain ⟨o, ho, he3⟩ := bind_ok he
          have h' := (sound_line3 hq h hex).1
          have hK' : (line3 q extra).active ≠ [] := hK
          have hcar' : SrcCarried ctx (line3 q extra) G := hcar.congr rfl
          cases o with
          | none => simp [c14nSafe] at he3
          | some e1 =>
            simp only [c14nSafe] at he3
            obtain ⟨e2, hcan, he3⟩ := bind_ok he3
            have : e2 = e := by simpa [pure, Except.pure] using he3
            subst this
            obtain ⟨g1, n1⟩ := eng _ _ hinv' h' hK' e1 ho
            exact shape_canonicalize ctx.S σz g1 n1 (ih _ _ hinv' h' hK' hcar' e1 ho) hcan
        · rename_i hemp0
          have hemp : extra.isEmpty = true := by simpa using hemp0
          have hT := hq.tnodes_in_X hex hemp
          simp only [] at he
          split at he
          · -- line 4
            rename_i hlen
            have h4 := qline4_inv hq hT hlen
            unfold step4 at he
            obtain ⟨o, ho, he⟩ := bind_ok he
            cases o with
            | none => simp [pure, Except.pure] at he
            | some terms =>
              simp only [] at he
              obtain ⟨summand, hs, he⟩ := bind_ok he
              obtain ⟨e', he', he⟩ := bind_ok he
              have : e' = e := by simpa [pure, Except.pure] using he
              subst this
              have hF := collectTerms_some _ _ ho
              rw [List.forall₂_map_left_iff] at hF
              have hterms : List.Forall₂ (fun s t => Good ctx.S t ∧ SumND t ∧ Shape ctx.M.card ctx.leaf σz t)
                  (line4 q G (G.removeNodes q.X).districts) terms := by
                refine forall₂_imp_mem hF (fun s hs t hst => ?_)
                obtain ⟨hinv', _, hexpr, hsu, hac⟩ := h4 s hs
                have hdom : s.domain = q.domain := by
                  unfold line4 at hs
                  obtain ⟨c, _, rfl⟩ := List.mem_map.1 hs
                  rfl
                have hgr : s.graphs = q.graphs := by
                  unfold line4 at hs
                  obtain ⟨c, _, rfl⟩ := List.mem_map.1 hs
                  rfl
                have h' := h.congr hexpr hdom hgr hac hsu
                have hK' : s.active ≠ [] := hac ▸ hK
                obtain ⟨g1, n1⟩ := eng s G hinv' h' hK' t hst
                exact ⟨g1, n1, ih s G hinv' h' hK' (hcar.congr hexpr) t hst⟩
              have hlen2 : 2 ≤ terms.length := by
                have h1 := hF.length_eq
                unfold line4 at h1
                rw [List.length_map] at h1
                omega
              have hall : ∀ t ∈ terms, Good ctx.S t ∧ SumND t ∧ Shape ctx.M.card ctx.leaf σz t := by
                intro t ht
                obtain ⟨_, _, hr⟩ := forall₂_right_mem hterms t ht
                exact hr
              exact shape_line4 h hlen2 hall hs he'
          · -- lines 6-11: inside a source domain lines 6/7 do nothing
            rename_i hlen
            obtain ⟨via, hvia, he⟩ := bind_ok he
            have hvn : via = none := by
              unfold step67 at hvia
              have hgf : (q.active.isEmpty && !q.surr.isEmpty) = false := by
                have : q.active.isEmpty = false := by
                  cases ha : q.active with
                  | nil => exact absurd ha hK
                  | cons a as => rfl
                simp [this]
              rw [hgf] at hvia
              simpa [pure, Except.pure] using hvia.symm
            subst hvn
            simp only [] at he
            unfold step811 at he
            split at he
            · cases he
            · rename_i hdl
              have hdl' : 1 < G.districts.length := by omega
              have hdne := hq.dwi_ne
              cases hd : (G.removeNodes q.X).districts with
              | nil => exact absurd hd hdne
              | cons c rest =>
                have hrest : rest = [] := by
                  cases rest with
                  | nil => rfl
                  | cons a as => rw [hd] at hlen; simp at hlen
                subst hrest
                rw [hd] at he
                obtain ⟨hcmem, hYc, hcne, hcT⟩ := hq.single_dwi hT hd
                simp only [] at he
                split at he
                · -- line 9
                  rename_i hany
                  obtain ⟨e9, he9, he⟩ := bind_ok he
                  obtain ⟨e', he', he⟩ := bind_ok he
                  have : e' = e := by simpa [pure, Except.pure] using he
                  subst this
                  obtain ⟨d, hdd, hdc⟩ := List.any_eq_true.1 hany
                  have hdc' : ∀ v, v ∈ d ↔ v ∈ c := seteq'_iff_mem.1 hdc
                  obtain ⟨g9, n9, _⟩ := sound_line9_core hq h hdd hdc' hcT hcne he9
                  exact shape_canonicalize ctx.S σz g9 n9
                    (shape_line9 hc hq h hcar hdl' hdd hdc' hcT hcne he9) he'
                · -- line 10
                  rename_i hnany
                  obtain ⟨c', hfil, hc'd, hcc', hc'n, hc'T⟩ := hq.super_district hT hd
                  rw [hfil] at he
                  simp only [] at he
                  obtain ⟨o, ho, he⟩ := bind_ok he
                  obtain ⟨o', ho', hos⟩ := hq.line10Surr_ok hc'n
                  have hoo : o' = o := by rw [ho] at ho'; exact (Except.ok.inj ho').symm
                  subst hoo
                  cases o' with
                  | none => simp [pure, Except.pure] at he
                  | some s =>
                    simp only [] at he
                    obtain ⟨q', hq', he2⟩ := bind_ok he
                    obtain ⟨r, hr, he3⟩ := bind_ok he2
                    clear he he2
                    have hs := hos s rfl
                    obtain ⟨order, hord, hcomp⟩ := hq.order_ok
                    have hin : ∀ v ∈ nsort c', v ∈ order := fun v hv =>
                      hcomp v (hc'n v ((mem_nsort v c').1 hv)) (hc'T v ((mem_nsort v c').1 hv))
                    obtain ⟨q'', hq'', _, hX, hYq, hact, hdom, hsurr, hgr⟩ := line10_ok (s := s) hclean hord hin
                    have hqq : q'' = q' := by rw [hq'] at hq''; exact (Except.ok.inj hq'').symm
                    subst hqq
                    obtain ⟨hinv', _⟩ :=
                      qline10_inv hq hc'd (fun y hy => hcc' y (hYc y hy)) hc'T hdl hX hYq hact hdom hsurr hs hgr
                    have hc'big : 2 ≤ (nsort c').length := by
                      apply two_le_length_of_ssub (nsort_nodup' c') hcne
                        (fun v hv => (mem_nsort v c').2 (hcc' v hv))
                      intro hall'
                      apply hnany
                      apply List.any_eq_true.2
                      refine ⟨c', hc'd, seteq'_iff_mem.2 (fun v => ?_)⟩
                      exact ⟨fun a => hall' v ((mem_nsort v c').2 a), hcc' v⟩
                    obtain ⟨hcar', gs, hgs⟩ := car_line10 hc hq h hcar hdl' hc'd hc'T hc'big hq'
                    have hK' : q''.active ≠ [] := hact ▸ hK
                    have h' : SemInv ctx q'' (G.subgraph (nsort c')) :=
                      semInv_line10 hq h hc'd hc'T hc'n hq'
                        (fun pop cc hcc => by rw [hgs] at hcc; cases hcc) (fun ha _ => hK' ha)
                    cases r with
                    | none => simp [c14nSafe] at he3
                    | some e1 =>
                      simp only [c14nSafe] at he3
                      obtain ⟨e2, hcan, he3⟩ := bind_ok he3
                      have : e2 = e := by simpa [pure, Except.pure] using he3
                      subst this
                      obtain ⟨g1, n1⟩ := eng q'' _ hinv' h' hK' e1 hr
                      exact shape_canonicalize ctx.S σz g1 n1 (ih q'' _ hinv' h' hK' hcar' e1 hr) hcan

end Trso
end Y0
