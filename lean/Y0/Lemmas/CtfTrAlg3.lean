/-
  Y0.Lemmas.CtfTrAlg3 — Algorithm 3 (`CtfTr.ctfTR`, the model of `transport_conditional_counterfactual_query`):
  inversion of a successful run into its parts (line 2, Algorithm 2 on `D*`, line 4) and the shape of an answer.
-/
import Y0.Lemmas.CtfTrTotal

namespace Y0.CtfTr
open Ctf

/-! ### inversion -/

theorem afterValidation_ok' {α} {x : Except Err α} {a : α} (h : afterValidation x = .ok a) : x = .ok a := by
  unfold afterValidation at h
  split at h
  · cases h
  · exact h

/-- the three ways Algorithm 3 ends without an error -/
inductive CtfTRRun (target : MG Name) (ds : List Domain) (o c : Event) : Option Answer → Prop
  | fail (dstar : Event) (dNames : List Name) (h2 : line2C target o c = .ok (dstar, dNames))
      (hu : ctfTRu target ds dstar = .ok none) : CtfTRRun target ds o c none
  | zero (dstar : Event) (dNames : List Name) (x : Expr) (h2 : line2C target o c = .ok (dstar, dNames))
      (hu : ctfTRu target ds dstar = .ok (some (x, none))) : CtfTRRun target ds o c (some (x, none))
  | answer (dstar : Event) (dNames : List Name) (q : Expr) (simplified : Event) (a : Answer)
      (h2 : line2C target o c = .ok (dstar, dNames))
      (hu : ctfTRu target ds dstar = .ok (some (q, some simplified)))
      (h4 : line4C ds o c dNames q simplified = .ok a) : CtfTRRun target ds o c (some a)

theorem ctfTR_ok_inv (target : MG Name) (ds : List Domain) (o c : Event) (r : Option Answer)
    (h : ctfTR target ds o c = .ok r) : validateC target ds o c = .ok () ∧ CtfTRRun target ds o c r := by
  unfold ctfTR at h
  split at h
  · cases h
  · rename_i hv
    refine ⟨hv, ?_⟩
    unfold ctfTRCore at h
    have h' := afterValidation_ok' h
    simp only [bind, Except.bind] at h'
    cases h2 : line2C target o c with
    | error e => rw [h2] at h'; cases h'
    | ok pr =>
      obtain ⟨dstar, dNames⟩ := pr
      rw [h2] at h'
      simp only [] at h'
      cases hu : ctfTRu target ds dstar with
      | error e => rw [hu] at h'; cases h'
      | ok ur =>
        rw [hu] at h'
        simp only [] at h'
        cases ur with
        | none =>
          simp only [pure, Except.pure, Except.ok.injEq] at h'
          subst h'
          exact .fail dstar dNames h2 hu
        | some a =>
          obtain ⟨q, oev⟩ := a
          cases oev with
          | none =>
            simp only [pure, Except.pure, Except.ok.injEq] at h'
            subst h'
            exact .zero dstar dNames q h2 hu
          | some simplified =>
            simp only [] at h'
            cases h4 : line4C ds o c dNames q simplified with
            | error e => rw [h4] at h'; cases h'
            | ok a =>
              rw [h4] at h'
              simp only [pure, Except.pure, Except.ok.injEq] at h'
              subst h'
              exact .answer dstar dNames q simplified a h2 hu h4

/-- conversely, the result of the composition (used by the totality proof) -/
theorem ctfTR_of_parts (target : MG Name) (ds : List Domain) (o c : Event) (hv : validateC target ds o c = .ok ())
    (dstar : Event) (dNames : List Name) (h2 : line2C target o c = .ok (dstar, dNames))
    (hu : ∃ r, ctfTRu target ds dstar = .ok r)
    (h4 : ∀ q simplified, ctfTRu target ds dstar = .ok (some (q, some simplified)) →
      ∃ a, line4C ds o c dNames q simplified = .ok a) :
    ∃ r, ctfTR target ds o c = .ok r := by
  obtain ⟨ur, hur⟩ := hu
  unfold ctfTR ctfTRCore
  rw [hv]
  simp only [bind, Except.bind, h2, hur]
  cases ur with
  | none => exact ⟨_, rfl⟩
  | some a =>
    obtain ⟨q, oev⟩ := a
    cases oev with
    | none => exact ⟨_, rfl⟩
    | some simplified =>
      obtain ⟨a, ha⟩ := h4 q simplified hur
      simp only [ha]
      exact ⟨_, rfl⟩

/-! ### line 4 -/

theorem line4C_ok_inv (ds : List Domain) (o c : Event) (dNames : List Name) (q : Expr) (simplified : Event) (a : Answer)
    (h : line4C ds o c dNames q simplified = .ok a) :
    ∃ expr, line4Expr q dNames (eventNames (c ++ o)) (eventNames c) = .ok expr ∧
      finalChecks simplified (eventNames (c ++ o)) (namesToValues o c) (diff' dNames (eventNames (c ++ o))) ds expr
        (line4Event expr o c) = .ok () ∧
      a = (expr, some (line4Event expr o c)) := by
  unfold line4C at h
  simp only [bind, Except.bind] at h
  cases he : line4Expr q dNames (eventNames (c ++ o)) (eventNames c) with
  | error e => rw [he] at h; cases h
  | ok expr =>
    rw [he] at h
    simp only [] at h
    cases hf : finalChecks simplified (eventNames (c ++ o)) (namesToValues o c) (diff' dNames (eventNames (c ++ o))) ds
        expr (line4Event expr o c) with
    | error e => rw [hf] at h; cases h
    | ok u =>
      rw [hf] at h
      simp only [pure, Except.pure, Except.ok.injEq] at h
      exact ⟨expr, rfl, hf, h.symm⟩

theorem line4Expr_ok_inv (q : Expr) (dNames ocNames condNames : List Name) (expr : Expr)
    (h : line4Expr q dNames ocNames condNames = .ok expr) :
    expr = .frac (TrDsl.sumSafe q ((diff' dNames ocNames).map Var.plain))
      (TrDsl.sumSafe q ((diff' dNames condNames).map Var.plain)) := by
  unfold line4Expr TrDsl.mkFrac at h
  split at h
  · cases h
  · cases h; rfl

theorem mem_eventNames (e : Event) (n : Name) : n ∈ eventNames e ↔ ∃ p ∈ e, p.1.name = n := by
  simp [eventNames, mem_dedup']

/-- the ranges of the numerator are among those of the denominator -/
theorem diff_oc_subset (dNames : List Name) (o c : Event) :
    ∀ n ∈ diff' dNames (eventNames (c ++ o)), n ∈ diff' dNames (eventNames c) := by
  intro n hn
  simp only [diff', List.mem_filter, decide_eq_true_eq] at hn ⊢
  refine ⟨hn.1, fun hc => hn.2 ?_⟩
  obtain ⟨p, hp, hpn⟩ := (mem_eventNames c n).1 hc
  exact (mem_eventNames (c ++ o) n).2 ⟨p, List.mem_append_left _ hp, hpn⟩

/-- the event of line 4: the outcomes and a sub-list of the conditions, each reduced to its graph vertex, with the values
of the query -/
theorem line4Event_shape (expr : Expr) (o c : Event) :
    ∃ c', c'.Sublist c ∧ line4Event expr o c = (o ++ c').map fun p => (p.1.base, p.2) := by
  refine ⟨c.filter fun p => Ctf.mem' p.1.base (Expr.iterVars expr), List.filter_sublist, ?_⟩
  simp [line4Event]

end Y0.CtfTr
